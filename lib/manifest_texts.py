NOTES = ("Machine-checked proof in Lean 4 (see DESIGN.md). Every check regenerates what it needs from /repo's working tree, "
         "builds the property's Lean modules (obligations; #print axioms audit: propext, Classical.choice, Quot.sound only), then "
         "runs the correspondence: the real application executes generated operations, the Lean driver replays each one on the "
         "model from the implementation's own pre-state and evaluates the property predicates on the implementation's transition. "
         "Genuine defects found and repaired by 'fix:' commits are listed in known_findings.json.")

