NOTES = ("Machine-checked proof in Lean 4 (see DESIGN.md). Every check regenerates what it needs from /repo's working tree, "
         "builds the property's Lean modules (obligations; #print axioms audit: propext, Classical.choice, Quot.sound only), then "
         "runs the correspondence: the real application executes generated operations, the Lean driver replays each one on the "
         "model from the implementation's own pre-state and evaluates the property predicates on the implementation's transition. "
         "Genuine defects found and repaired by 'fix:' commits are listed in known_findings.json.")

COMMON_NOTE = ("Trusted: Lean 4.33.0 kernel; axioms propext, Classical.choice, Quot.sound (Mathlib tactics); the Go harness and the "
               "Lean driver (they print what the real code / the model did); cosmos-sdk bank/auth and baseapp branching are modelled "
               "(Bank.applyAll, deliver) and validated on every operation of the run, not verified. ")

TEXT = {
    "C01": dict(
        text=("Proved for the model, for all reserve sizes, fees in [0,1), amounts and operation sequences: k_step (every successful swap of either "
              "kind and direction, addition, removal, bank transfer incl. donations, parameter change leaves X*Y/L^2 of every pool no smaller), "
              "k_history (lift to every sequence of accepted or rejected operations by induction, with the well-formedness invariant wf_step), "
              "remove_le_prorata, add_then_remove_le, roundtrip_le, on the code's exact integer formulas (256-bit guards included). "
              "The model is tied to the code by the step-wise correspondence (4000 ops quick, 8x40000 thorough on the real message server) and the "
              "regenerated formulas."),
        note=COMMON_NOTE + "Assumptions stated as hypotheses: EnvOK (pool-address hash has no collisions among the pool-token denominations "
             "in play and never equals the module / fee-collector account), signers are not escrow addresses."),
    "C08": dict(
        text=("Model and correspondence of the coinswap message server incl. responses; the property predicates (deadline, user bounds, "
              "within-one-unit rounding in the pool's favour, response = ledger delta) are evaluated on every implementation transition; "
              "theorems for them are being added (this entry currently claims the inversion lemmas + correspondence)."),
        note=COMMON_NOTE),
    "C09": dict(
        text=("Model and correspondence of the coinswap message server; predicates whitelist / per-swap cap / pool cap / no module recipient "
              "evaluated on every implementation transition; theorems being added."),
        note=COMMON_NOTE),
}
NOT_YET = {}
