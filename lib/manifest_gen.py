#!/usr/bin/env python3
"""Regenerates MANIFEST.json from lib/props.py + lib/manifest_texts.py (so the manifest never drifts from what the runner does)."""
import json, os, sys
sys.path.insert(0, os.path.dirname(os.path.abspath(__file__)))
import props as P
import manifest_texts as T0
class T: TEXT=P.TEXT; NOT_YET=P.NOT_YET; NOTES=T0.NOTES

VERIF = os.path.dirname(os.path.dirname(os.path.abspath(__file__)))
allp = [json.loads(l)["id"] for l in open(os.path.join(VERIF, "properties.jsonl"))]
checks = []
for pid in allp:
    if pid not in P.PROPS or pid not in T.TEXT:
        continue
    t = T.TEXT[pid]
    checks.append(dict(
        property_id=pid,
        quick_cmd=f"./check {pid} --tier quick",
        thorough_cmd=f"./check {pid} --tier thorough",
        evidence_file=f"evidence/{pid}.json",
        replay_cmd_template=f"./check {pid} --replay {{path}}",
        engine="lean-proof+correspondence",
        level_claimed=dict(category="proof", text=t["text"], design_ref=t.get("design_ref", "DESIGN.md section 7, " + pid)),
        level_note=t["note"],
        technique=t.get("technique", "Lean 4 theorems over an executable model; model tied to the code by a regenerated fact/formula translator and a step-wise correspondence run against the real application"),
    ))
na = [dict(property_id=pid, reason=T.NOT_YET.get(pid, "check not built yet in this session; the technique applies (see DESIGN.md section 7)"))
      for pid in allp if pid not in {c["property_id"] for c in checks}]
m = dict(
    version=1,
    setup_cmd="./setup.sh",
    hooks=dict(guard="verif", enable="go build -tags verif (the harness links /repo through a replace directive; no source hook is needed, the tag is reserved)",
               baseline_off_cmd="cd /repo && GOFLAGS=-mod=mod go test -json -vet=off -count=1 -timeout 25m ./...",
               source_commits=[], add_only=True),
    engines=[dict(name="lean-proof+correspondence", path="check",
                  serves_properties=[c["property_id"] for c in checks],
                  kind_free_text="Lean 4 library CantoVerif (executable model, property theorems, axioms audit) + factx (go/ast translator regenerating Lean terms/tables from /repo) + Go harness running the real application + Lean line-protocol driver evaluating the model and the property predicates on every implementation transition")],
    checks=checks,
    notes=T.NOTES,
    not_applicable=na,
)
json.dump(m, open(os.path.join(VERIF, "MANIFEST.json"), "w"), indent=1)
print("checks:", [c["property_id"] for c in checks], "not_applicable:", [n["property_id"] for n in na])
