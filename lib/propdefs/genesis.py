"""C18 (suite `genesis`) and C06 (suite `replica`): the full-block surface T of DESIGN section 5.1."""

COMMON_NOTE = ("Trusted: Lean 4.33.0 kernel; axioms propext, Classical.choice, Quot.sound; the Go harness and the Lean driver "
               "(they print what the real code / the model did); factx prints what the AST says. cosmos-sdk, ethermint, CometBFT types, "
               "IAVL and the protobuf/JSON codecs are exercised through the real binary by the round trip / replica run but are not the "
               "subject of theorems. ")

# genesis: ops = number of export -> import -> export round trips (each preceded by 1..12 generated blocks of signed transactions;
#          a new chain with other parameters every 8 round trips)
# replica: ops = number of blocks of the one history that all four replicas execute
SUITES = {
    "genesis": dict(quick_ops=240, thorough_ops=600, driver="genesis", accept_floor=50),
    "replica": dict(quick_ops=360, thorough_ops=1000, driver="replica", accept_floor=50),
}

_C18_ASSUME = [
    "Inv: the module invariants of Proofs/GenesisInv.lean hold of the exported state (sorted store sections, indexes as written by "
    "setPool/SetCSR, unique and well-formed records, sequence = max+1, parameter ranges); preserved by the import (reimport_inv) and "
    "checked on every exported state of the run by the model's validate/init/export/keys agreeing with the implementation; that every "
    "message handler preserves them is the subject of C01/C15/C16/C12/C13/C17",
    "AddrRT: the stored Turnstile / port address survives common.Address.String() followed by common.HexToAddress and its string is "
    "not empty (the driver computes HexToAddress itself on the real strings)",
    "external functions (sha256 pair id, bech32 validity, EIP-55 string, CalculateEpochMintProvision) are parameters answered from what the "
    "implementation printed; the provision is exempt by the property",
    "encoding level (protobuf/JSON, SDK modules' own genesis: bank, auth, evm) is not modelled: exercised only by the real round trip",
]

_C06_ASSUME = [
    "the proof part is PARTIAL: it is about the model's branching/restart discipline and the database image of the seven Canto modules; "
    "it says nothing about the Go runtime (map iteration order, wall clock, goroutines, retained memory, IAVL/commit internals)",
    "the decision procedure for the code is the four-replica differential run of this check, on the generated histories of this run",
    "nondet list: go/types over the repository's own packages with stubbed external imports; a map whose type is declared only outside "
    "the repository is not seen; generated files (*.pb.go, *.pb.gw.go) and client/simulation/testutil directories are out of scope",
    "process crashes inside a block are outside the property (block boundaries only)",
]

PROPS = {
    "C18": dict(
        suite="genesis",
        modules=["CantoVerif.Props.C18"],
        theorems=[
            "CV.Genesis.init_export", "CV.Genesis.export_init_export", "CV.Genesis.export_init_export_partial",
            "CV.Genesis.export_validates", "CV.Genesis.queries_agree", "CV.Genesis.provision_recomputed",
            "CV.Genesis.reimport_inv", "CV.Genesis.roundtrip_iterate", "CV.Genesis.roundtrip_monitors",
            "CV.Genesis.build_sorted_id", "CV.Genesis.cs_init_export", "CV.Genesis.cs_export_validates",
            "CV.Genesis.erc20_init_export", "CV.Genesis.erc20_export_validates", "CV.Genesis.csr_init_export",
            "CV.Genesis.csr_export_validates", "CV.Genesis.gs_init_export", "CV.Genesis.ep_init_export",
            "CV.Genesis.ep_export_validates",
        ],
        comps={"outcome", "validate", "state", "keys"},
        assumptions=_C18_ASSUME,
        rule=("one evaluation = one real round trip at a checkpoint of a generated block history (signed Cosmos and Ethereum transactions, "
              "governance through real proposals and votes, epoch ticks): ExportAppStateAndValidators -> InitChain of a fresh application "
              "with that state at the exported height and block time -> export directly after the import and again after one committed "
              "block; the seven Canto sections compared JSON-canonically (minus CurrentEpochStartHeight), every module's ValidateGenesis on "
              "the export, every Canto gRPC query on both chains (provision / inflation rate exempt), the raw KV pairs of the seven module "
              "stores and their parameter subspaces before export and after import. The Lean driver parses the export into the model, runs "
              "the model's validate / init / export and the raw store keys it predicts, and compares each with the implementation. "
              "distinct = (full|pure, accepted, population classes of pools / pairs / CSRs / addresses / period / skipped epochs)"),
        evidence_notes=("Model level: structured records (export_init_export, export_validates, queries_agree proved for all states satisfying Inv). "
                        "Encoding level (protobuf/JSON, SDK modules' own genesis) is exercised only by the real round trip: the claim is partial there."),
    ),
    "C06": dict(
        suite="replica",
        modules=["CantoVerif.Props.C06", "CantoVerif.Bridge.Nondet"],
        theorems=[
            "CV.Replica.reads_pure_partial", "CV.Replica.restart_transparent_partial", "CV.Replica.schedules_agree_partial",
            "CV.Replica.restart_transparent_canto_partial", "CV.Replica.export_deterministic_partial", "CV.Replica.run_eq_blocks",
            "CV.Replica.load_save", "CV.Replica.save_keys", "CV.Genesis.build_perm", "CV.Genesis.sorted_ext",
            "CV.Bridge.nondet_reviewed", "CV.Bridge.nondet_scanned",
        ],
        comps={"outcome", "state"},
        assumptions=_C06_ASSUME,
        level="proof",  # the schema's enum; that the proof part is PARTIAL and the replica run decides the code is said in notes, text and DESIGN
        rule=("THE PROOF PART IS PARTIAL; THE REPLICA RUN IS THE DECISION PROCEDURE FOR THE CODE. one evaluation = one height of one generated "
              "block history executed by four replicas of the real application: A continuous; B destroyed and re-created over the same "
              "database (app.NewCanto + load latest version) at EVERY block boundary; C answering every Canto gRPC query, SDK and EVM "
              "queries (eth_call, estimateGas), CheckTx (new + recheck) and Simulate of the next block's and of random transactions "
              "between blocks; D a second continuous replica in a separate OS process with GOMAXPROCS=2 (its own map-iteration seeds). "
              "Compared at every height: AppHash, digest of every ExecTxResult (code, codespace, data, gas, events; log text excluded as in "
              "CometBFT's LastResultsHash) and of the block events; at every 7th height and the last: digest of the whole exported app "
              "state; at those heights replica A's exported Canto sections are also run through the C18 model (validate, init, export fixed "
              "point), so the replicas agree on a state the specification accepts. A divergence is a direct violation; the block history (<trace>.blocks, regenerated from the seed) is the replay. "
              "distinct = (transactions, accepted, reads, epoch tick, export sampled, D present) classes"),
        evidence_notes=("PARTIAL: the theorems (reads_pure, restart_transparent, schedules_agree, export_deterministic, load_save) are about the "
                        "model and are labelled _partial; determinism of the Go implementation is decided by the replica run above and by the "
                        "regenerated nondeterminism-source list being inside the reviewed whitelist (bridge theorem nondet_reviewed)."),
    ),
}

TEXT = {
    "C18": dict(
        text=("Proved for the model of the seven Canto modules' InitGenesis / ExportGenesis / ValidateGenesis (structured records, every "
              "secondary index and counter included, store sections in byte-wise key order), for ALL states satisfying the module invariants "
              "and every import context: init_export (the imported state is the exported one except for the epochs' start heights and the "
              "recomputed provision), export_init_export (export . init . export = export up to CurrentEpochStartHeight), export_validates "
              "(every module's validation accepts the export), queries_agree (every modelled query except the provision answers "
              "identically), reimport_inv / roundtrip_iterate (the invariants hold again, so the round trip can be iterated), "
              "roundtrip_monitors (the monitors hold on model transitions). PARTIAL at the encoding level: protobuf/JSON and the SDK modules' "
              "own genesis are exercised only by the correspondence, which performs the real round trip (export -> fresh InitChain -> export) "
              "on generated block histories (120 quick / 8x600 thorough), compares sections, gRPC answers and the raw KV pairs of the module "
              "stores (reach check), and ties the model to the code by parsing each export into the model and comparing validate, init, "
              "re-export and predicted store keys."),
        note=COMMON_NOTE + "Assumed: the invariants hold of the exported state (checked per checkpoint through the model/implementation "
             "agreement; preservation by message handlers belongs to C01/C15/C16/C12/C13/C17); external functions (sha256, bech32, EIP-55, "
             "provision formula) are parameters; histories do not include IBC onboarding packets or self-destructing token contracts.",
        technique="Lean 4 theorems over an executable model of genesis export/import; model tied to the code by a real export/import/export round trip of "
                  "the application on generated block histories, with the Lean driver replaying validate/init/export on every exported state",
    ),
    "C06": dict(
        text=("PARTIAL by nature. Proved for the model (all labelled _partial): reads_pure (erasing queries / CheckTx / simulations — handlers "
              "that write to their branch included — changes no block result and no committed state), restart_transparent (a restart at any "
              "block boundary is invisible if the database image reads back; load_save proves it does for the state of the seven Canto "
              "modules, save_keys ties the image's keys to the real stores' keys), schedules_agree, export_deterministic (a store section "
              "depends only on the set of records written, not on the write order: build_perm). Two model replicas agree by reflexivity, "
              "which says nothing about the code: THE DECISION PROCEDURE FOR THE CODE IS THE DIFFERENTIAL RUN — four replicas of the real "
              "application over one generated block history (continuous / restarted from its database at every block boundary / serving "
              "every Canto gRPC query, eth_call, CheckTx and Simulate between blocks / a second OS process with another GOMAXPROCS), "
              "compared at every height on AppHash and every ExecTxResult and at sampled heights on the exported state — plus the "
              "regenerated list of nondeterminism sources (range over maps, wall clock, rand, getenv, goroutines, package-variable and "
              "keeper-field writes) proved to lie inside a reviewed whitelist (bridge theorem nondet_reviewed)."),
        note=COMMON_NOTE + "What Lean cannot exhibit here: Go map iteration order, goroutine scheduling, wall-clock reads, memory retained in "
             "keeper structs or package variables, IAVL/commit internals, crashes inside a block. These are covered only by the replica run "
             "(on the histories it generates) and by the reviewed nondeterminism list (typed over the repository's own packages).",
        technique="differential replica run of the real application (4 replicas, restarts, read interleavings, second OS process) + regenerated nondeterminism-source "
                  "list with a Lean bridge theorem + partial Lean theorems about the model's branching and restart discipline",
    ),
}
