"""Suite `params` (C17): privileged messages and parameter stores."""

COMMON_NOTE = ("Trusted: Lean 4.33.0 kernel; axioms propext, Classical.choice, Quot.sound; the Go harness and the Lean driver (they print "
               "what the real code / the model did); cosmos-sdk x/params (Subspace.SetParamSet / Update, go-amino JSON), x/gov's "
               "MsgExecLegacyContent and baseapp/gov branching are modelled and validated on every operation of the run, not verified. ")

SUITES = {
    "params": dict(quick_ops=10000, thorough_ops=30000, driver="params", accept_floor=20),
}

PROPS = {
    "C17": dict(
        suite="params",
        modules=["CantoVerif.Props.C17"],
        theorems=[
            "CV.later_failure_unchanged",
            "CV.Params.wrong_authority_rejected_unchanged", "CV.Params.handle_wrong_authority",
            "CV.Params.stored_params_valid_step", "CV.Params.stored_params_valid", "CV.Params.stored_params_valid_from_genesis",
            "CV.Params.legacy_route_valid", "CV.Params.legacy_frame",
            "CV.Params.accepted_stored_as_given_cs", "CV.Params.accepted_stored_as_given_erc", "CV.Params.accepted_stored_as_given_inf",
            "CV.Params.accepted_stored_as_given_csr", "CV.Params.accepted_stored_as_given_onb",
            "CV.Params.validate_adds_nothing_cs", "CV.Params.validate_adds_nothing_inf", "CV.Params.validate_adds_nothing_csr",
            "CV.Params.validate_adds_nothing_onb",
            "CV.Params.cs_valid_closed", "CV.Params.inf_valid_closed", "CV.Params.csr_valid_closed", "CV.Params.onb_valid_closed",
            "CV.Params.fee_range_exact", "CV.Params.model_step_monitors",
            "CV.Params.setParamSet_ok", "CV.Params.updateKey_valid", "CV.Params.applyChanges_valid", "CV.Params.defaults_valid",
        ],
        comps={"outcome", "params", "branch", "store"},
        assumptions=[
            "the bodies of RegisterCoin / RegisterERC20 / ToggleTokenConversion / LendingMarket / Treasury handlers after the authority "
            "comparison are a parameter of the model (Ext): the theorems hold for every behaviour of them that leaves the five parameter "
            "sets alone; that they do is observed on every operation of the run",
            "x/params Subspace.SetParamSet (validate-then-write per pair, panic on failure), Subspace.Update and go-amino JSON decoding "
            "behave as modelled (validated on every operation, incl. the partially written branch of rejected updates)",
            "a nil and an empty MaxSwapAmount / WhitelistedChannels are the same list in the model (the stated nil/empty normalisation)",
            "only the Canto subspaces are modelled on the legacy route; subspaces of SDK modules are out of scope",
        ],
    ),
}

TEXT = {
    "C17": dict(
        text=("Proved for the model of the ten privileged messages and of the legacy ParameterChangeProposal route, for every state, "
              "authority string, parameter value (nil numbers included) and every behaviour of the un-modelled handler bodies: "
              "wrong_authority_rejected_unchanged (authority string != gov module address => refused, and nothing written even on the "
              "handler's own branch), stored_params_valid (validity of the coinswap / inflation / csr / onboarding sets is an invariant "
              "of every sequence of attempted operations on both routes, from genesis defaults or any valid state), "
              "accepted_stored_as_given_* (accepted MsgUpdateParams => stored = submitted, other modules and everything outside the "
              "params store untouched), legacy_route_valid, validate_adds_nothing_* (every rule lives in one field validator), closed "
              "forms of the rules, model_step_monitors. The validators are modelled by hand from x/*/types/params.go; the "
              "correspondence run sends every message through app.MsgServiceRouter() under branch/recover/commit with every field at, "
              "inside and outside its range and 10 kinds of authority strings, and compares verdict, the handler's partially written "
              "branch, all five stored sets, pair count, port and whole-store digests."),
        note=COMMON_NOTE + "The regenerated handler/validator tables of DESIGN section 4 (factx) are not built; the order 'authority, "
             "Validate, per-field validate+write' is tied to the code by observing the handler's branch at rejection instead. "
             "Registration/govshuttle handler bodies are the erc20/govshuttle suites' subject."),
}
