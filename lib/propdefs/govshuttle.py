"""C20 — suite `govshuttle`: lending-market / treasury proposals through the real message server on the REAL EVM."""

_NOTE = ("Trusted: Lean 4.33.0 kernel; axioms propext, Classical.choice, Quot.sound; the Go harness and the Lean driver (they print what the "
         "real code / the model did). NOT modelled, hence `_partial` (stored_on_evm_partial) and compared only by the correspondence run: "
         "go-ethereum's ABI coder, ethermint's EVM executing the compiled ProposalStore (contracts/compiled_contracts/ProposalStore.json; "
         "its agreement with contracts/Port.sol is not checked either - no solc here), Solidity's storage layout; the contract is the abstract "
         "map (sset / queryStore) with the three rules read off Port.sol. crypto.CreateAddress(module, nonce) is an external table. Gas is not "
         "modelled: an EVM out-of-gas rejection is an INPUT of the operation on the trace line (evmfail=1), believed by the driver only for "
         "payloads >= 8 kB. strings.ToLower in the denomination check is modelled as ASCII lower-casing; exact because the only non-ASCII runes "
         "Go lower-cases into ASCII are U+212A and U+0130 (k, i), re-checked over all runes by the harness at start-up. Go strings are byte "
         "lists; the harness generates only valid UTF-8 (what protobuf admits).")

SUITES = {
    "govshuttle": dict(quick_ops=3000, thorough_ops=12000, driver="govshuttle", accept_floor=30),
}

_ASSUME = ["the compiled ProposalStore on ethermint's EVM behaves as the abstract map (sset/queryStore): validated by eth_call QueryProp for ALL ids met "
           "so far after every operation of the run, never proved",
           "crypto.CreateAddress(module, nonce) is the table printed by the harness",
           "gas: out-of-gas rejections are an input of the operation (evmfail), accepted by the driver only for payloads >= 8 kB",
           "unicode.ToLower maps no non-ASCII rune into {a,c,e,n,o,t} (checked by the harness over all runes at start-up)"]

PROPS = {
    "C20": dict(
        suite="govshuttle",
        modules=["CantoVerif.Props.C20", "CantoVerif.Props.AbiRoundTrip", "CantoVerif.Props.AbiGovshuttle"],
        theorems=[
            "CV.later_failure_unchanged",
            "CV.Govshuttle.stored_faithfully", "CV.Govshuttle.stored_faithfully_wellformed", "CV.Govshuttle.treasury_field_placement",
            "CV.Govshuttle.hex_roundtrip", "CV.Govshuttle.hex2Bytes_wellFormed", "CV.Govshuttle.hex2Bytes_append",
            "CV.Govshuttle.hex2Bytes_stops_even", "CV.Govshuttle.hex2Bytes_stops_odd", "CV.Govshuttle.hex2Bytes_odd",
            "CV.Govshuttle.hex2Bytes_isBytes", "CV.Govshuttle.hexToAddress_length", "CV.Govshuttle.hexToAddress_encode",
            "CV.Govshuttle.hexToAddress_encode_0x",
            "CV.Govshuttle.deploy_once", "CV.Govshuttle.address_stable", "CV.Govshuttle.address_stable_prefix",
            "CV.Govshuttle.deployed_at_most_once",
            "CV.Govshuttle.others_retrievable", "CV.Govshuttle.others_empty_after_deploy", "CV.Govshuttle.untouched_retrievable",
            "CV.Govshuttle.last_write_retrieved",
            "CV.Govshuttle.rejected_no_effect", "CV.Govshuttle.length_mismatch_rejected_no_effect",
            "CV.Govshuttle.bad_denom_rejected_no_effect", "CV.Govshuttle.wrong_authority_rejected_no_effect",
            "CV.Govshuttle.foreign_rejected",
            # Model/Abi.lean + Props/AbiRoundTrip.lean: the Solidity contract ABI (head/tail encoding) for uint256, address, bytes, string,
            # T[] and tuples at any nesting; decode (encode v) = v for every well-typed value, encodings injective. Tied to the compiled
            # contract on the real EVM: the raw QueryProp answer of every record of at most 1536 bytes is compared byte for byte
            "CV.Abi.decode_encode", "CV.Abi.decode_encode_append", "CV.Abi.decodeTuple_encodeTuple", "CV.Abi.decodeCall_encodeCall",
            "CV.Abi.encode_injective", "CV.Abi.encodeTuple_injective", "CV.Abi.encode_length_mod32", "CV.Abi.encode_wf",
            # Props/AbiGovshuttle.lean: the ABI theorems about C20's own records - the records the keeper hands to the store are well-typed ABI
            # values, the bytes QueryProp returns decode back to them and determine them (content below 2^200 bytes)
            "CV.Govshuttle.abiOf_hasTy_iff", "CV.Govshuttle.abiOf_injective", "CV.Govshuttle.query_bytes_roundtrip",
            "CV.Govshuttle.stored_bytes_determine_proposal", "CV.Govshuttle.encode_length_le", "CV.Govshuttle.queryBytes_length_lt",
            "CV.Govshuttle.built_proposals_abiWF", "CV.Govshuttle.accepted_answer_abiWF",
            "CV.Govshuttle.storeWF_step", "CV.Govshuttle.storeWF_run", "CV.Govshuttle.query_eq_slot",
            "CV.Govshuttle.monitors_hold_ok", "CV.Govshuttle.monitors_hold_rej",
            "CV.Govshuttle.stored_on_evm_partial",
        ],
        comps={"outcome", "port", "nonce", "next", "store", "bank", "abi"},
        assumptions=_ASSUME,
    ),
}

TEXT = {
    "C20": dict(
        text=("Proved for the model of the govshuttle keeper over an abstract proposal store, for all proposal contents (any list lengths, any byte "
              "strings, explicit and defaulted ids), all states and all sequences of lending-market / treasury proposals interleaved with the gov "
              "module moving its next proposal id and with other accounts calling the store: stored_faithfully (accepted => QueryProp(id) = (id, "
              "title, description, ToAddress(targets), values, signatures, Hex2Bytes(calldatas)), id = given or the next gov proposal id), "
              "hex_roundtrip and the exact lenient behaviour of go-ethereum's decoders on malformed hex, treasury_field_placement, deploy_once / "
              "address_stable / deployed_at_most_once (over histories), others_retrievable / untouched_retrievable / last_write_retrieved (over "
              "histories), length_mismatch- / bad_denom- / wrong_authority_rejected_no_effect, and that every monitor evaluated on the "
              "implementation holds on every model transition. PARTIAL: ABI encoding, EVM execution and Solidity storage are not modelled "
              "(stored_on_evm_partial is the read-after-write law of the abstract map); the real compiled contract on the real EVM is tied to the "
              "model only by the step-wise correspondence (3000 ops quick, 8x12000 thorough, through the real message server with eth_call "
              "QueryProp of all ids met so far after every operation)."),
        note=_NOTE),
}
