COMMON_NOTE = ("Trusted: Lean 4.33.0 kernel; axioms propext, Classical.choice, Quot.sound; the Go harness and the Lean driver (they print "
               "what the real code / the model did); cosmos-sdk bank/auth, ibc core's receive discipline (callback on a branch written only "
               "for a successful acknowledgement) and the ICS-20 application are modelled (Bank.applyAll, recv) and validated on every "
               "operation of the run, not verified. ")

SUITES = {
    "onboarding": dict(quick_ops=6000, thorough_ops=40000, driver="onboarding", accept_floor=50),
}

_OB_ASSUME = [
    "the erc20 keeper's ConvertCoin is an oracle (input of every packet): success moves exactly the requested voucher amount from the "
    "recipient to the erc20 module account and credits as many tokens to the recipient's hex address; failure after any number of inner "
    "effects returns an error; a pair whose contract has no code is deleted. Validated on every packet against the REAL erc20 keeper over a "
    "scripted EVM; the keeper itself is the subject of C03/C04/C14/C15, only coin-originated (module-owned) pairs occur",
    "ModuleInv: the erc20 module account exists as a module account (an invariant: moduleInv_step)",
    "the recipient is not the account the credit is paid from (transfer module account / channel escrow account)",
    "for the 'where it went' statements (conservation_ledger, conservation_monitor): pool escrow addresses differ from the erc20 module "
    "account and from the credit's source account",
    "recipients are base accounts (spendable = balance; vesting accounts are not modelled)",
    "SDK bank keeper behaves as Bank.applyAll, coinswap keeper as Coinswap.trade (validated on every operation of the run)",
]

PROPS = {
    "C11": dict(
        suite="onboarding",
        modules=["CantoVerif.Props.C11", "CantoVerif.Props.C11Monitors"],
        theorems=[
            # monitor links (Props/C11Monitors.lean): every executable predicate of Spec/Onboarding.lean is proved of the model's transitions
            "CV.Onboarding.guards_monitor", "CV.Onboarding.no_partial_swap_monitor", "CV.Onboarding.swap_iff_below_threshold_monitor",
            "CV.Onboarding.no_partial_convert_monitor", "CV.Onboarding.monitors_modelTr", "CV.Onboarding.modelTr_post", "CV.Onboarding.exPacketWorld",
            "CV.Onboarding.conservation", "CV.Onboarding.left_is_rest", "CV.Onboarding.conservation_ledger",
            "CV.Onboarding.prior_untouched", "CV.Onboarding.swap_iff_below_threshold", "CV.Onboarding.swap_credits_threshold",
            "CV.Onboarding.no_partial_swap", "CV.Onboarding.swapLegs_no_partial", "CV.Onboarding.no_swap_pools_untouched",
            "CV.Onboarding.no_partial_convert", "CV.Onboarding.convertCached_fail", "CV.Onboarding.convert_failure_no_effect",
            "CV.Onboarding.guards", "CV.Onboarding.refused_unchanged", "CV.Onboarding.ack_passthrough",
            "CV.Onboarding.ack_error_only_unparsable", "CV.Onboarding.recv_kept", "CV.Onboarding.recv_unkept",
            "CV.Onboarding.kept_balance", "CV.Onboarding.kept_supply",
            "CV.Onboarding.moduleInv_step", "CV.Onboarding.moduleInv_run", "CV.Onboarding.history",
            "CV.Onboarding.conservation_sequence", "CV.Onboarding.second_transfer_no_swap",
            "CV.Onboarding.ack_monitor", "CV.Onboarding.conservation_monitor", "CV.Onboarding.unkept_monitor",
            "CV.Onboarding.prior_monitor", "CV.Bank.applyAll_flow",
        ],
        comps={"outcome", "resp", "bank", "pools", "pairs", "tok", "macc"},
        assumptions=_OB_ASSUME,
    ),
}

TEXT = {
    "C11": dict(
        text=("Proved for the model of IBCMiddleware.OnRecvPacket -> Keeper.OnRecvPacket under ibc core's receive discipline, for all states, "
              "amounts, prior balances, pools (absent/shallow/deep), thresholds, whitelists, registries, and every answer of the conversion "
              "oracle (success, failure after 0/1/2.. inner effects, deleted pair): recv_kept/kept_balance (the bank ledger changes by exactly the "
              "flow of credit ++ [two swap legs] ++ [conversion escrow leg], for every account and denomination), conservation "
              "(left + swapped + converted = balance before the transfer + transferred), conservation_ledger (swapped is what the pool's escrow "
              "received for exactly `threshold` standard coin, converted is what the erc20 module account received), prior_untouched (every "
              "denomination), swap_iff_below_threshold + swap_credits_threshold, no_partial_swap (the second bank leg cannot fail once the first "
              "succeeded: swapLegs_no_partial), no_partial_convert / convert_failure_no_effect (CacheContext wrapper), guards, refused_unchanged, "
              "ack_passthrough, ack_error_only_unparsable; lifted to every history of packets / coinswap messages / bank transfers / parameter and "
              "registry changes (history, with the invariant moduleInv_step), conservation_sequence (sum over any sequence of transfers to one "
              "recipient), second_transfer_no_swap. The model is tied to the code by the step-wise correspondence on the real onboarding "
              "middleware + real coinswap keeper + real ICS-20 module (or a crediting stub) + the real erc20 keeper over a scripted EVM with a "
              "failure injected at each EVM interaction and misbehaving mints; eight monitors are evaluated on every implementation transition."),
        note=COMMON_NOTE + "ConvertCoin is an oracle in the model (its inner steps are C04's subject); its observed outcome and how far it got "
             "before failing are inputs on the trace line. Model quirk mirrored from the code: canto's address parser rejects the all-upper-case "
             "bech32 spelling that the ICS-20 application accepts, so such a packet gets an error acknowledgement and is undone (no funds move)."),
}
