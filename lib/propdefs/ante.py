"""Suite `ante` (C19): routing part of the ante handler."""

COMMON_NOTE = ("Trusted: Lean 4.33.0 kernel; axioms propext, Classical.choice, Quot.sound; the Go harness and the Lean driver. ethermint's "
               "decorators (RejectMessagesDecorator, AuthzLimiterDecorator, the Ethereum chain's message-type checks) are third-party code: "
               "modelled, and validated against the real app.AnteHandler() on every generated transaction, not verified. ")

SUITES = {
    "ante": dict(quick_ops=60000, thorough_ops=100000, driver="ante", accept_floor=10),
}

PROPS = {
    "C19": dict(
        suite="ante",
        modules=["CantoVerif.Props.C19", "CantoVerif.Bridge.AnteTables"],
        theorems=[
            "CV.Ante.eth_only_via_eth_path", "CV.Ante.unknown_ext_rejected", "CV.Ante.dynamic_fee_ext_rejected",
            "CV.Ante.no_eth_in_cosmos_or_eip712", "CV.Ante.authz_blocked", "CV.Ante.authz_exec_blocked", "CV.Ante.authz_grant_blocked",
            "CV.Ante.deep_nesting_rejected", "CV.Ante.deep_nesting_rejected_wrap", "CV.Ante.shallow_clean_passes",
            "CV.Ante.depth5_clean_passes", "CV.Ante.siblings_count", "CV.Ante.disabled_list_complete", "CV.Ante.first_option_only",
            "CV.Ante.route_monitors", "CV.Ante.agrees_self",
            "CV.Ante.bad_check", "CV.Ante.deep_check", "CV.Ante.clean_check",
            # translator tie (factx/tables.go): the wiring the model is about, read off the source as tables - chains start with
            # reject-then-authz-limiter from ethermint's package, two-case dispatch with a rejecting default, the disabled list
            "CV.Bridge.AnteTables.cosmos_chains_start_with_reject_then_authz", "CV.Bridge.AnteTables.ethante_is_ethermint",
            "CV.Bridge.AnteTables.eth_chain_validates_shape_before_signature", "CV.Bridge.AnteTables.ext_dispatch",
            "CV.Bridge.AnteTables.disabled_list_bridge",
        ],
        comps={"route"},
        assumptions=[
            "what lies behind the routing stage of each chain (fees, signatures, sequence numbers, gas) is not modelled: the model answers "
            "'handed to chain X' and the implementation's 'admitted' or 'refused by a later check' both agree with it",
            "a message is an Ethereum message iff its type URL is /ethermint.evm.v1.MsgEthereumTx (Go type test in the decorators)",
            "the DisabledAuthzMsgs list and the decorator order are transcribed by hand from app/app.go and app/ante/handler_options.go "
            "(no regenerated table); a change there shows up as a disagreement / monitor hit of the correspondence run",
            "MsgExec/MsgGrant whose inner Any cannot be unpacked are not generated",
        ],
    ),
}

TEXT = {
    "C19": dict(
        text=("Proved for the model of the dispatcher and the message-kind decorators, for every list of extension options and every message "
              "tree of any width and depth: eth_only_via_eth_path, unknown_ext_rejected (dynamic-fee option included), "
              "no_eth_in_cosmos_or_eip712, authz_exec_blocked / authz_grant_blocked (a disabled message inside MsgExec at any depth, a grant "
              "of a disabled type at any position: induction over the tree, with the exact by-value counter of checkDisabledMsgs), "
              "deep_nesting_rejected (>= 6 nested MsgExec anywhere; depth 5 passes: exact), shallow_clean_passes (converse), "
              "disabled_list_complete, route_monitors. Correspondence: the real app.AnteHandler() on 20000 (quick) generated transactions - "
              "14 extension-option lists x message mixes x authz trees of depth 0..8 with sibling MsgExecs and a disabled message/grant at "
              "every level - Cosmos transactions signed SIGN_MODE_DIRECT, Ethereum transactions with a signed MsgEthereumTx, bank sends "
              "signed as legacy EIP-712 typed data, so correctly routed well-formed transactions pass the whole chain; the model must "
              "reproduce the class of every answer."),
        note=COMMON_NOTE + "Only the routing decision is proved; admission beyond it (signature/fee checks of each path) is exercised, not "
             "modelled. The decorator chains are not regenerated from the source (factx not built): the tie is the correspondence run."),
}
