COMMON_NOTE = ("Trusted: Lean 4.33.0 kernel; axioms propext, Classical.choice, Quot.sound; the Go harness and the Lean driver (they print what "
               "the real code / the model did); cosmos-sdk bank/auth, ethermint's EVM and its rollback of a transaction whose hook fails are "
               "modelled (Bank.applyAll, evmTransfer, exec) and validated on every operation of the run, not verified. ")

# suite: harness -suite name, Lean driver name (Main.lean argument, module CantoVerif.Driver.<Capitalised>), op counts, accept floor (%)
SUITES = {
    "csr": dict(quick_ops=9000, thorough_ops=40000, driver="csr", accept_floor=30),
}

_CSR_ASSUME = [
    "external functions: the ABI decoder (UnpackIntoInterface), the topic lookup (EventByID) and evmKeeper.GetAccount(c).IsContract(); "
    "every log reaches the model with their answers, computed by the harness with the same library calls on the pre-state",
    "the stored Turnstile address holds the Turnstile contract deployed by the module account (owner = module account); the contract is "
    "modelled as its balances mapping with the revert conditions of distributeFees (msg.value == 0, checked +=); NFT-owner withdrawals "
    "are not in the operation alphabet",
    "an EVM value transfer is what ethermint's StateDB.Commit does to x/bank: burn at the sender, mint at the recipient through the evm "
    "module account, in byte order of the two addresses (State.modFirst)",
    "hypothesis Wiring / distinct: fee collector, csr module account, evm module account and Turnstile are four different accounts",
    "never_fails_for_valid_share additionally assumes magnitudes below 2^255 (total supply of the EVM denomination, covering the four "
    "accounts; recorded revenues; Turnstile balances) — beyond that the 315-bit LegacyDec guard and 256-bit Int guards do reject",
    "gasUsed = 0 is outside the property (the hook then only processes events); Txs is a uint64 and wraps (the monitor requires txs+1 < 2^64)",
    "SDK bank keeper behaves as Bank.applyAll (validated on every operation of the run)",
]

PROPS = {
    "C10": dict(
        suite="csr",
        modules=["CantoVerif.Props.C10"],
        theorems=[
            "CV.Csr.hook_effects", "CV.Csr.fee_leaves_collector", "CV.Csr.registered_split", "CV.Csr.unregistered_burn",
            "CV.Csr.creation_burn", "CV.Csr.module_residue_zero", "CV.Csr.share_floor_exact", "CV.Csr.share_le_fee",
            "CV.Csr.share_zero", "CV.Csr.share_one", "CV.Csr.never_fails_for_valid_share", "CV.Csr.never_fails_monitor",
            "CV.Csr.neverFailsPre_of_bool", "CV.Csr.rejected_unchanged", "CV.Csr.revenue_matches_turnstile",
            "CV.Csr.fee_leaves_collector_monitor", "CV.Csr.module_residue_zero_monitor", "CV.Csr.registered_split_monitor",
            "CV.Csr.burn_all_monitor", "CV.Csr.frame_monitor", "CV.Csr.rejected_or_disabled_monitor",
            "CV.Csr.bank_path", "CV.Csr.evmTransfer_flow", "CV.Csr.evmTransfer_ok", "CV.Csr.postTx_ok", "CV.Csr.split_ok",
            "CV.Bank.applyAll_flow",
        ],
        comps={"outcome", "bank", "turnstile", "registry", "params", "abi"},
        assumptions=_CSR_ASSUME,
    ),
    "C16": dict(
        suite="csr",
        modules=["CantoVerif.Props.C16", "CantoVerif.Props.AbiCsr"],
        theorems=[
            # Props/AbiCsr.lean: which payloads are malformed, exactly, under the model of the contract ABI the driver decides with
            "CV.Abi.register_malformed_iff", "CV.Abi.assign_malformed_iff", "CV.Abi.register_decodes", "CV.Abi.assign_decodes",
            "CV.Abi.register_roundtrip", "CV.Abi.assign_roundtrip", "CV.Abi.registerTys_eq_driver", "CV.Abi.assignTys_eq_driver",
            "CV.Csr.csr_inv_step", "CV.Csr.csr_inv", "CV.Csr.csr_inv_init", "CV.Csr.csr_inv_monitor", "CV.Csr.regInvB_iff",
            "CV.Csr.RegInv.iff", "CV.Csr.at_most_one_nft", "CV.Csr.only_turnstile_logs", "CV.Csr.only_turnstile_logs_postTx",
            "CV.Csr.malformed_noop", "CV.Csr.inert_receipt_noop", "CV.Csr.register_needs_code", "CV.Csr.assign_needs_code",
            "CV.Csr.changes_explained", "CV.Csr.no_recreate", "CV.Csr.no_recreate_postTx",
            "CV.Csr.fee_distribution_preserves_registry", "CV.Csr.regInv_setCSR", "CV.Csr.handleLog_cases",
            "CV.Csr.at_most_one_monitor", "CV.Csr.postTx_idx", "CV.Csr.step_idx", "CV.Csr.changes_explained_monitor",
            "CV.Csr.new_id_explained", "CV.Csr.no_recreate_monitor", "CV.Csr.inert_preserves_registry_monitor",
        ],
        comps={"outcome", "registry", "abi"},
        assumptions=_CSR_ASSUME,
    ),
}

TEXT = {
    "C10": dict(
        text=("Proved for the model of PostTxProcessing (x/csr/keeper/evm_hooks.go as it is now, zero-amount legs skipped), for every state, receipt, "
              "gasUsed, gasPrice and share in [0,1]: hook_effects (complete effect of a fee-bearing invocation) and from it fee_leaves_collector "
              "(exactly gasUsed*gasPrice of the EVM denomination leaves the fee collector), registered_split (floor(fee*share) credited to "
              "balances[nft] and to the Turnstile account, added to revenue, txs+1 as uint64, fee-floor(fee*share) burned), unregistered_burn / "
              "creation_burn (whole fee burned, nothing credited), module_residue_zero (csr and evm module accounts unchanged in every "
              "denomination), share_floor_exact (integer x decimal is exact before truncation; <= fee; 0 at share 0; fee at share 1), "
              "never_fails_for_valid_share (Turnstile deployed, fee collector holds the fee, consistent registry, magnitudes < 2^255 => no error, "
              "for every share incl. 0 and 1, every gasUsed/gasPrice incl. 0, every target and receipt) with never_fails_monitor tying the theorem to "
              "the executable monitor, and revenue_matches_turnstile over all histories. The model is tied to the code by the step-wise "
              "correspondence on the REAL EVM with the REAL Turnstile (6000 ops quick, 8x40000 thorough: forged and genuine receipts, shares "
              "{0,1e-18,0.2,0.5,1-1e-18,1} and random, gasUsed/gasPrice in {0,1,small,2^63,2^64-1,random,>2^256}, funded and unfunded fee collector, "
              "fees next to 2^255 in worlds with a 1.5*2^255 supply) comparing outcome, whole bank ledger, both registry prefixes raw, "
              "Turnstile.balances by eth_call; seven C10 monitors are evaluated on every implementation transition. The pre-fix tree (cc98cce^) "
              "is reported as VIOLATION by never_fails_for_valid_share (corpus/C10)."),
        note=COMMON_NOTE + "Not proved: anything about gas, about the Solidity code itself (the Turnstile is a two-line state machine here), about "
             "ethermint's ApplyTransaction beyond 'a failed hook reverts the transaction'. The regenerated-formula bridge (factx) is not part of this "
             "suite; the formulas csrFee / fee are tied to the code by the correspondence only."),
    "C16": dict(
        text=("Proved for the model of processEvents / RegisterEvent / UpdateEvent / SetCSR (event_handler.go, evm_hooks.go, csr.go): csr_inv "
              "(RegInv: idx c = some n <-> c in (csrs n).contracts, lists duplicate-free, records under their own id) is kept by every operation and "
              "so holds after every sequence of receipts with arbitrary logs, accepted or failed, interleaved with fee distribution, parameter "
              "changes and transfers (induction over op lists from the empty registry); at_most_one_nft; only_turnstile_logs (processing a receipt "
              "= processing its sub-list of Turnstile logs; also for the whole hook); malformed_noop, inert_receipt_noop; register_needs_code, "
              "assign_needs_code, changes_explained (every index entry afterwards was there before or is accounted for by a well-formed Register/"
              "Assign log of the Turnstile naming a code-bearing contract; none is lost or changed); no_recreate (an existing id keeps id, counters "
              "and its contract list as a prefix); fee_distribution_preserves_registry (only txs and revenue change; the index list is literally "
              "unchanged). regInvB_iff + csr_inv_monitor tie the invariant to the executable monitor. Correspondence on the real keeper with the "
              "real EVM: receipts mixing Register/Assign/other/unknown-topic logs from the Turnstile, from a second Turnstile deployment (same "
              "topics), from other addresses, valid, duplicate, code-less, zero-address, truncated, over-long, dirty-high-bytes and cross-layout "
              "payloads, token ids beyond 64 bits, plus genuine receipts produced by contracts calling Turnstile.register/assign (directly and "
              "through a factory); both prefixes are dumped raw and compared after every operation; five C16 monitors run on every "
              "implementation transition."),
        note=COMMON_NOTE + "The early return of processEvents at the first failing Turnstile log (later valid logs of the same receipt are "
             "dropped) and the truncation of token ids to 64 bits (TokenId.Uint64()) are modelled as they are; neither contradicts the property."),
}
