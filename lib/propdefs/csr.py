COMMON_NOTE = ("Trusted: Lean 4.33.0 kernel; axioms propext, Classical.choice, Quot.sound (Mathlib tactics); the Go harness and the "
               "Lean driver (they print what the real code / the model did); cosmos-sdk bank/auth and baseapp/EVM rollback of a failed "
               "hook are modelled (Bank.applyAll, exec) and validated on every operation of the run, not verified. ")

# suite: harness -suite name, Lean driver name (Main.lean argument, module CantoVerif.Driver.<Capitalised>), op counts, accept floor (%)
SUITES = {
    "csr": dict(quick_ops=3000, thorough_ops=20000, driver="csr", accept_floor=30),
}

_CSR_ASSUME = [
    "the ABI decoder (UnpackIntoInterface), the topic lookup (EventByID) and evmKeeper.GetAccount(c).IsContract() are external "
    "functions: every log reaches the model with their answers, computed by the harness with the same library calls",
    "the stored Turnstile address holds the Turnstile contract deployed by the module account (owner = module account); the contract is "
    "modelled as its balances mapping with the revert conditions of distributeFees (msg.value == 0, checked +=)",
    "an EVM value transfer is what ethermint's StateDB.Commit does to x/bank (burn at the sender, mint at the recipient through the "
    "evm module account, in byte order of the two addresses)",
    "fee collector, csr module account, evm module account and Turnstile are four different accounts (hypothesis `distinct`)",
    "SDK bank keeper behaves as Bank.applyAll (validated on every operation of the run)",
]

PROPS = {
    "C10": dict(
        suite="csr",
        modules=["CantoVerif.Props.C10"],
        theorems=[],
        comps={"outcome", "bank", "turnstile", "registry"},
        assumptions=_CSR_ASSUME,
    ),
    "C16": dict(
        suite="csr",
        modules=["CantoVerif.Props.C16"],
        theorems=[],
        comps={"outcome", "registry"},
        assumptions=_CSR_ASSUME,
    ),
}

TEXT = {
    "C10": dict(text="(being written)", note=COMMON_NOTE),
    "C16": dict(text="(being written)", note=COMMON_NOTE),
}
