COMMON_NOTE = ("Trusted: Lean 4.33.0 kernel; axioms propext, Classical.choice, Quot.sound (Mathlib tactics); the Go harness and the "
               "Lean driver (they print what the real code / the model did); cosmos-sdk bank/auth/distribution/staking and baseapp "
               "branching are modelled (Bank.applyAll, deliver) and validated on every operation of the run, not verified. ")

# suite: harness -suite name, Lean driver name (Main.lean argument, module CantoVerif.Driver.<Capitalised>), op counts, accept floor (%)
SUITES = {
    "epochs": dict(quick_ops=20000, thorough_ops=60000, driver="epochs", accept_floor=50),
}

_EP_ASSUME = [
    "time.Time and time.Duration are unbounded integers of nanoseconds; int64/uint64 wrap-around of the epoch number, period and "
    "skipped counters is not modelled (the generator stays within years 1970-2200)",
    "store keys are unique: no two epoch records carry the same identifier (hypothesis Nodup of every history theorem)",
    "EnvOK: the inflation, fee-collector and distribution module accounts are three different addresses",
    "the listener is wired as in app.go (inflation is the only epochs listener); a quarter of the blocks of every run go through the "
    "application's own EpochsKeeper so that a change of the wiring shows as a disagreement",
    "SDK bank / distribution FundCommunityPool / staking BondedRatio inputs behave as modelled (validated on every operation of the run)",
]

PROPS = {
    "C12": dict(
        suite="epochs",
        modules=["CantoVerif.Props.C12", "CantoVerif.Bridge.EpochsConds", "CantoVerif.Bridge.Counters", "CantoVerif.Props.C13NoWrap"],
        theorems=[
            "CV.Epochs.hook_order", "CV.Epochs.calls_cases", "CV.Epochs.start_at_first_block_not_before", "CV.Epochs.start_history",
            "CV.Epochs.tick_iff", "CV.Epochs.no_tick_unchanged", "CV.Epochs.at_most_one_per_block", "CV.Epochs.wf_advance",
            "CV.Epochs.start_time_formula", "CV.Epochs.never_early", "CV.Epochs.never_early_history", "CV.Epochs.consecutive",
            "CV.Epochs.initGenesis_keeps_start", "CV.Epochs.initGenesis_unset_starts_now",
            "CV.Epochs.clockInv_fresh", "CV.Epochs.c12_monitors_model", "CV.Epochs.beginBlock_ok", "CV.Epochs.beginBlock_of_runCalls",
            # translator tie: the start / end conditions of BeginBlocker and the right-hand sides of StartInitialEpoch / EndEpoch,
            # regenerated from the source by factx (conds.go), are the model's by rfl
            "CV.Bridge.Epochs.shouldStart_bridge", "CV.Bridge.Epochs.shouldEnd_bridge", "CV.Bridge.Epochs.startInitial_bridge",
            "CV.Bridge.Epochs.endEpoch_bridge",
            # `CurrentEpoch++` over int64 = the model's `cur + 1` below 2^62 (Bridge/Counters.lean); one BeginBlocker raises an epoch
            # number by at most one (Props/C13NoWrap.lean), so the range is never left in fewer than 2^62 blocks
            "CV.Bridge.Counters.endCur_nowrap", "CV.Bridge.Counters.counters_wrap_at_top", "CV.Epochs.runInfo_cur_le", "CV.Epochs.beginBlock_cur_le",
        ],
        comps={"outcome", "resp", "infos"},
        assumptions=_EP_ASSUME,
    ),
    "C13": dict(
        suite="epochs",
        modules=["CantoVerif.Props.C13"],
        theorems=[
            "CV.Inflation.provision_formula", "CV.Inflation.provision_total", "CV.Inflation.incentive_range", "CV.Inflation.sub_le_v",
            "CV.Inflation.provision_range", "CV.Inflation.provision_antitone", "CV.Inflation.provision_antitone_run",
            "CV.Inflation.provision_antitone_le", "CV.Dec.powerN_antitone", "CV.Inflation.boundary_arith", "CV.Inflation.period_count",
            "CV.Inflation.countInv_fresh", "CV.Inflation.provision_changes_only_at_boundaries", "CV.Inflation.other_ops_frame",
            "CV.Inflation.c13_sample_monitors_model", "CV.Inflation.c13_block_monitors_model", "CV.Inflation.c13_other_monitors_model",
            "CV.Inflation.provision_integral", "CV.Inflation.block_cases", "CV.Inflation.block_summary",
        ],
        comps={"outcome", "resp", "infl", "ghost"},
        assumptions=_EP_ASSUME,
    ),
    "C05": dict(
        suite="epochs",
        modules=["CantoVerif.Props.C05"],
        theorems=[
            "CV.Inflation.mint_exact", "CV.Inflation.staking_exact", "CV.Inflation.staking_le_minted", "CV.Inflation.community_rest",
            "CV.Inflation.module_empty", "CV.Inflation.alloc_frame", "CV.Inflation.disabled_skip", "CV.Inflation.other_id_noop",
            "CV.Inflation.block_effect", "CV.Inflation.ledger_history", "CV.Inflation.ghost_counts", "CV.Inflation.afterEpochEnd_cases",
            "CV.Inflation.mintAndAllocate_ok", "CV.Inflation.sweep_ok", "CV.Inflation.stakingShare_ok", "CV.Bank.applyAll_flow",
            "CV.Inflation.c05_monitors_model", "CV.Inflation.block_summary",
        ],
        comps={"outcome", "bank", "pool", "infl", "ghost"},
        assumptions=_EP_ASSUME,
    ),
}

TEXT = {
    "C12": dict(
        text=("Proved for the model of x/epochs BeginBlocker, for every identifier, start time, duration (any sign), block time and height, and "
              "for ANY listeners: hook_order/beginBlock_ok (a completed block maps each record through the pure function `advance` and notifies, "
              "in store order, exactly `calls` of each record: identifiers are independent), start_at_first_block_not_before + start_history, "
              "tick_iff (counter +1 and epoch start +duration in precisely the blocks with time > curStart+duration), no_tick_unchanged (all "
              "fields incl. the start height), at_most_one_per_block, start_time_formula (invariant over all non-decreasing block-time "
              "sequences of any length), never_early(+_history), consecutive (invariant of the composed epochs+inflation system over all "
              "histories of blocks, parameter updates and transfers: the end-of-epoch numbers announced per identifier are 2,3,...,CurrentEpoch), "
              "and c12_monitors_model (the eight predicates the driver evaluates hold on every model transition). Tie to the code: step-wise "
              "correspondence on the real EpochsKeeper.BeginBlocker over the app's store with a recording listener in front of the real "
              "inflation listener (20000 ops quick, 8x60000 thorough; sub-second steps, exact boundary hits, +-1ns, gaps of several durations, "
              "start before/at/after the first block, up to six identifiers ticking in one block, durations from 1ns to a week, and a negative one)."),
        note=COMMON_NOTE + "Times are unbounded integers (no time.Time / int64 overflow). History theorems assume unique identifiers (store keys). "
             "tick_iff needs `start <= now` for a counting record; start_time_formula shows this holds along every monotone history."),
    "C13": dict(
        text=("Proved on the code's exact LegacyDec arithmetic (banker's rounding after every multiplication/division, truncations, 315-bit "
              "guards): provision_formula (a successful run of the guarded computation equals the closed form), provision_total (valid "
              "parameters: no negative intermediate, no division by zero; only the overflow panic can reject), incentive_range (1 <= incentive "
              "<= 1+v EXACTLY for every bonded ratio, via sub_le_v), provision_range, provision_antitone for EVERY period with no bound "
              "(uses powerN_antitone: rounded square-and-multiply is monotone in the exponent) and between any two periods. Schedule: period_count "
              "(invariant over all histories of the composed epochs+inflation model with identifier 'day': period = floor(mints/E) and "
              "CurrentEpoch(day)-1 = mints+skipped, any block times, any enable/disable schedule, any E>0), boundary_arith, "
              "provision_changes_only_at_boundaries, other_ops_frame; the excluded configuration identifier='week' is exhibited by an example. "
              "Tie: correspondence on the real keepers (E in {1,2,3,30}, random toggling through the real MsgUpdateParams handler, bonded ratio "
              "varied through the real bonded pool) and on the real CalculateEpochMintProvision sampled directly (periods to 5000, decay "
              "0, 1e-18, 1-1e-18, 1, arbitrary bonded ratios)."),
        note=COMMON_NOTE + "`mints` is a ghost counter (number of epoch ends of the configured identifier while enabled); the driver maintains "
             "it for the implementation from the observed record changes. The monitor period_count applies to identifier 'day' (the property's scope)."),
    "C05": dict(
        text=("Proved for the model of the inflation listener and its bank effects (Bank.applyAll flow theorem): mint_exact (supply of the mint "
              "denomination +floor(provision), no other supply changes), staking_exact (fee collector +floor(minted*stakingRewards); the decimal "
              "product is exact because one factor is an integer), staking_le_minted, community_rest (distribution account and "
              "FeePool.CommunityPool record + (minted-staking) + EVERY prior balance of the inflation account, all denominations), module_empty "
              "(every denomination), alloc_frame, disabled_skip, other_id_noop, block_effect (unique store keys: at most one effective listener "
              "call per block), ledger_history (all histories of blocks with arbitrary times, parameter updates incl. toggling and a changed mint "
              "denomination, and transfers incl. donations: supply = initial + sum of floor(provision at tick) over minting ticks, skipped = "
              "initial + daily epochs ended while disabled), ghost_counts. Tie: correspondence on the real BeginBlocker -> inflation listener -> "
              "bank/distribution keepers, whole ledger + community-pool record diffed on every block."),
        note=COMMON_NOTE + "x/distribution FundCommunityPool and x/bank are modelled (sweep of all balances; DecCoins.Add with the 315-bit guard), "
             "validated differentially. The zero-mint / zero-share cases are modelled as identity effects (the code skips MintCoins and sends an empty list)."),
}
