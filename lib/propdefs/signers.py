"""Suite `signers` (C07): required signers vs. debited accounts of the five user messages."""

COMMON_NOTE = ("Trusted: Lean 4.33.0 kernel; axioms propext, Classical.choice, Quot.sound; the Go harness and the Lean driver; cosmos-sdk "
               "x/tx signer derivation (annotations / custom functions are consulted through the real codec, not re-implemented), bank and "
               "baseapp branching, ethermint's EVM: exercised on every operation, not verified. ")

SUITES = {
    "signers": dict(quick_ops=5000, thorough_ops=15000, driver="signers", accept_floor=20),
}

PROPS = {
    "C07": dict(
        suite="signers",
        modules=["CantoVerif.Props.C07"],
        theorems=[
            "CV.Signers.signers_eq_payer", "CV.Signers.signers_spelling_swap", "CV.Signers.signers_spelling_add",
            "CV.Signers.signers_spelling_remove", "CV.Signers.signers_spelling_convertCoin", "CV.Signers.signers_spelling_convertERC20",
            "CV.Signers.signers_ignore_recipient",
            "CV.Signers.debited_subset_signers", "CV.Signers.debited_is_payer",
            "CV.Signers.swap_debited", "CV.Signers.add_debited", "CV.Signers.remove_debited",
            "CV.Signers.convertCoin_debited", "CV.Signers.convertERC20_debited",
            "CV.Signers.pools_mono", "CV.Signers.model_step_monitors", "CV.no_debit_mono", "CV.Bank.applyAll_flow",
        ],
        comps={"signers", "outcome", "bank", "pools"},
        assumptions=[
            "registered tokens behave as honest ERC-20 ledgers (transfer / mint / burnCoins move exactly the named amount from / to the named "
            "account); their balances are kept in the model's Bank under a pseudo-denomination per contract",
            "the guards of ConvertCoin / ConvertERC20 other than amount > 0 and address well-formedness (module switches, pair enabled, "
            "contract alive, balance-after checks, blocked receivers) are a parameter of the model (g), taken from the implementation's verdict",
            "address strings are modelled by their accepted spellings (bech32 lower/upper; six hex spellings) and the bytes they denote; the "
            "real parsers are exercised by the harness (the signer bytes the real codec returns are compared with the model's)",
            "EnvOK-free: a pool escrow is any address that is the reserve address of a pool's share denomination or recorded in the pool",
        ],
    ),
}

TEXT = {
    "C07": dict(
        text=("Proved for the model: signers_eq_payer (for every well-formed message of the five types the derived signer set is exactly "
              "[payer], for lower/upper-case bech32 and 0x/0X/bare x lower/upper/EIP-55 hex spellings; the recipient plays no role) and "
              "debited_subset_signers (after a successful swap order, liquidity addition or removal, coin->ERC-20 or ERC-20->coin conversion, "
              "every account whose balance of any coin or token went down is in the derived signer set, or a pool escrow, or the coinswap / "
              "erc20 module account) - derived from the coinswap model's inversion lemmas and Bank.no_debit_mono; for the conversions from "
              "a model of which account each bank / token leg of the four conversion paths debits. Correspondence: each generated message "
              "is given to the real app.AppCodec().GetMsgV1Signers and executed through app.MsgServiceRouter() on the real keepers and the "
              "real EVM (honest ERC20MinterBurnerDecimals tokens: one module-owned pair, one external pair); signer bytes, outcome and the "
              "delta of the whole bank ledger plus the token balances of 11 tracked accounts and token supplies are compared with the model."),
        note=COMMON_NOTE + "The signer table is not regenerated from the .proto files (factx not built); instead the real codec is asked for "
             "the signers of every generated message. Token behaviour (honest ERC-20) is assumed here and is the erc20 suite's subject."),
}
