COMMON_NOTE = ("Trusted: Lean 4.33.0 kernel; axioms propext, Classical.choice, Quot.sound (Mathlib tactics); the Go harness and the "
               "Lean driver (they print what the real code / the model did); cosmos-sdk bank/auth and baseapp branching are modelled "
               "(Bank.applyAll, deliver) and validated on every operation of the run, not verified. ")

# suite: harness -suite name, Lean driver name (Main.lean argument, module CantoVerif.Driver.<Capitalised>), op counts, accept floor (%)
SUITES = {
    "coinswap": dict(quick_ops=12000, thorough_ops=40000, driver="coinswap", accept_floor=10),
}

import os, re
_LEAN = os.path.join(os.path.dirname(os.path.dirname(os.path.dirname(os.path.abspath(__file__)))), "lean", "CantoVerif")

def bridge_theorems(module_file, namespace):
    """names of all theorems in a Bridge file (the regenerated-fact obligations)"""
    try:
        src = open(os.path.join(_LEAN, module_file)).read()
    except OSError:
        return []
    return [namespace + "." + m for m in re.findall(r"^theorem\s+([\w.']+)", src, re.M)]

_CS_BRIDGE_MODULES = ["CantoVerif.Bridge.CoinswapFormulas", "CantoVerif.Bridge.CoinswapFacts"]
_CS_BRIDGE = (bridge_theorems("Bridge/CoinswapFormulas.lean", "CV.Bridge.Coinswap")
              + bridge_theorems("Bridge/CoinswapFacts.lean", "CV.Bridge.CoinswapFacts"))

# the statement lists of the message-server functions (validation order, response building) concern only C08's
# "response equals the balance changes" clause; every other regenerated fact concerns all four coinswap properties
_CS_BRIDGE_CORE = [t for t in _CS_BRIDGE if not re.search(r"\.msg\w+_stmts$", t)]

# statement-text facts are search triggers (they widen the correspondence run), guards / calls / formulas are obligations
_CS_TRIGGERS = [r"_stmts$"]

_CS_ASSUME = ["EnvOK: GetReservePoolAddr has no collisions on the denominations in play and never yields the module or fee-collector account",
              "signers are not pool escrow addresses",
              "SDK bank keeper behaves as Bank.applyAll (validated on every operation of the run)"]

PROPS = {
    "C01": dict(
        suite="coinswap",
        modules=["CantoVerif.Props.C01", "CantoVerif.Props.C01Monitors"] + _CS_BRIDGE_MODULES,
        theorems=[
            "CV.Coinswap.remove_prorata_monitor",
            "CV.Coinswap.k_step", "CV.Coinswap.k_step_monitor", "CV.Coinswap.k_history", "CV.Coinswap.wf_step",
            "CV.Coinswap.k_swap", "CV.Coinswap.k_add", "CV.Coinswap.k_remove", "CV.Coinswap.k_send",
            "CV.Coinswap.trade_k", "CV.Coinswap.remove_le_prorata", "CV.Coinswap.add_then_remove_le",
            "CV.Coinswap.roundtrip_le", "CV.Arith.sell_k", "CV.Arith.buy_k", "CV.Arith.add_k", "CV.Arith.remove_k",
            "CV.Arith.k_trans", "CV.Bank.applyAll_flow",
        ] + _CS_BRIDGE_CORE,
        comps={"outcome", "bank", "pools"}, triggers=_CS_TRIGGERS,
        assumptions=_CS_ASSUME,
    ),
    "C02": dict(
        suite="coinswap", modules=["CantoVerif.Props.C02", "CantoVerif.Props.C02Monitors", "CantoVerif.Props.C02Add"] + _CS_BRIDGE_MODULES,
        theorems=["CV.Coinswap.rejected_unchanged", "CV.Coinswap.swap_conserves", "CV.Coinswap.remove_conserves",
                  "CV.Coinswap.add_conserves", "CV.group_flow", "CV.within_conserves", "CV.Bank.applyAll_flow",
                  "CV.deliver_rejected_unchanged", "CV.later_failure_unchanged", "CV.runMsgs_fails", "CV.Coinswap.poolTax_ok", "CV.total_supply_inv", "CV.Coinswap.rejected_unchanged_monitor", "CV.Coinswap.swap_conserves_monitor", "CV.Coinswap.remove_conserves_monitor", "CV.Coinswap.add_conserves_monitor", "CV.Coinswap.add_monitor_core", "CV.Coinswap.addAll_points", "CV.Coinswap.addAll_totals", "CV.Coinswap.removeEffs_sender_lpt", "CV.Coinswap.nodup_eraseDups"] + _CS_BRIDGE_CORE,
        comps={"outcome", "bank", "pools"}, triggers=_CS_TRIGGERS, assumptions=_CS_ASSUME),
    "C08": dict(
        suite="coinswap", modules=["CantoVerif.Props.C08", "CantoVerif.Props.C08AutoSwap", "CantoVerif.Props.C08Add", "CantoVerif.Props.CoinswapPrices"] + _CS_BRIDGE_MODULES,
        theorems=["CV.Coinswap.deadline_respected", "CV.Coinswap.deadline_monitor", "CV.Coinswap.swap_delivered", "CV.Coinswap.swap_delivered_monitor", "CV.Coinswap.swap_full", "CV.Coinswap.swap_bounds_rounding_monitor", "CV.Coinswap.autoSwap_full", "CV.Coinswap.autoSwap_monitors", "CV.Coinswap.add_full", "CV.Coinswap.add_bounds_cap_monitor", "CV.Coinswap.addEffs_exact", "CV.Coinswap.find_insertPool", "CV.Coinswap.remove_bounds_monitor", "CV.Coinswap.removeEffs_exact", "CV.Coinswap.swapEffs_exact", "CV.Coinswap.notPast_of_not_pastDeadline", "CV.Coinswap.sell_exact_in_min_out",
                  "CV.Coinswap.buy_exact_out_max_in", "CV.Coinswap.add_bounds", "CV.Coinswap.remove_bounds",
                  "CV.Coinswap.sell_bound_tight", "CV.Coinswap.inputPrice_ok", "CV.Coinswap.outputPrice_ok",
                  "CV.Coinswap.addLiveAmounts_ok", "CV.Coinswap.removeAmounts_ok",
                  # Props/CoinswapPrices.lean: the two quotes as functions - monotone, mutually consistent, always rounded in the pool's
                  # favour, splitting a sale never pays more, a higher fee never favours the trader (pure kernels and guarded versions)
                  "CV.Arith.inputPrice_mono", "CV.Arith.inputPrice_lt_reserve", "CV.Arith.outputPrice_mono", "CV.Arith.outputPrice_pos",
                  "CV.Arith.sell_of_buy_quote", "CV.Arith.buy_of_sell_quote", "CV.Arith.buy_of_sell_quote_tight",
                  "CV.Arith.le_inputPrice_of_outputPrice_le", "CV.Arith.outputPrice_le_of_le_inputPrice", "CV.Arith.outputPrice_succ_gt",
                  "CV.Arith.sell_split_le", "CV.Arith.sell_split_needs_fee_nonneg", "CV.Arith.fee_mono_sell", "CV.Arith.fee_mono_buy",
                  "CV.Coinswap.inputPrice_mono", "CV.Coinswap.outputPrice_mono", "CV.Coinswap.sell_of_buy_quote", "CV.Coinswap.buy_of_sell_quote",
                  "CV.Coinswap.sell_split_le", "CV.Coinswap.fee_mono_sell", "CV.Coinswap.fee_mono_buy"] + _CS_BRIDGE,
        comps={"outcome", "bank", "resp"}, triggers=_CS_TRIGGERS, assumptions=_CS_ASSUME),
    "C09": dict(
        suite="coinswap", modules=["CantoVerif.Props.C09", "CantoVerif.Props.C09Monitors", "CantoVerif.Props.C08Add"] + _CS_BRIDGE_MODULES,
        theorems=["CV.Coinswap.swap_caps_pool", "CV.Coinswap.swap_whitelist_cap_monitor", "CV.Coinswap.add_whitelist_monitor", "CV.Coinswap.add_bounds_cap_monitor", "CV.Coinswap.add_full", "CV.Coinswap.autoSwap_whitelist_monitor", "CV.Coinswap.swap_caps", "CV.Coinswap.no_module_recipient", "CV.Coinswap.no_module_recipient_monitor", "CV.Coinswap.blocked_any_form",
                  "CV.Coinswap.add_caps", "CV.Coinswap.pools_against_standard", "CV.Coinswap.wf_step", "CV.Coinswap.quoteLeg_fst"] + _CS_BRIDGE_CORE,
        comps={"outcome", "bank"}, triggers=_CS_TRIGGERS, assumptions=_CS_ASSUME),
}

TEXT = {
    "C01": dict(
        text=("Proved for the model, for all reserve sizes, fees in [0,1), amounts and operation sequences: k_step (every successful swap of either "
              "kind and direction, addition, removal, bank transfer incl. donations, parameter change leaves X*Y/L^2 of every pool no smaller), "
              "k_history (lift to every sequence of accepted or rejected operations by induction, with the well-formedness invariant wf_step), "
              "remove_le_prorata, add_then_remove_le, roundtrip_le, on the code's exact integer formulas (256-bit guards included). "
              "The model is tied to the code by the step-wise correspondence (12000 ops quick, 8x40000 thorough on the real message server, "
              "one message in fifteen followed by a failing sibling of the same transaction) and the regenerated formulas. The executable "
              "predicates evaluated on the implementation (k_nondecreasing, remove_le_prorata) are proved of the model's transitions "
              "(k_step_monitor, remove_prorata_monitor)."),
        note=COMMON_NOTE + "Assumptions stated as hypotheses: EnvOK (pool-address hash has no collisions among the pool-token denominations "
             "in play and never equals the module / fee-collector account), signers are not escrow addresses."),
    "C02": dict(
        text=("Proved for the model, for all amounts, parameters and any number of other accounts and pools: swap_conserves, "
              "remove_conserves, add_conserves (for every duplicate-free group of accounts containing payer, recipient and escrow the "
              "group's total of every ordinary coin is unchanged, nobody outside changes, only the pool-token supply changes and by "
              "exactly the amount credited to / taken from the provider; on pool creation the fee is split exactly into floor(fee*rate) "
              "to the fee collector and a burn of the rest), rejected_unchanged (every rejection leaves the whole state as it was). "
              "All derived from one generic theorem about bank effect lists (applyAll_flow / group_flow). The correspondence diffs the "
              "WHOLE bank ledger and supply of the real application before/after every message. The SDK's own registered invariants "
              "(bank total supply etc.) belong to trusted SDK modules and are not proved (they are evaluated on the real state during the run). "
              "later_failure_unchanged: a transaction containing a failing message leaves the state as it was whatever its earlier messages did "
              "(exercised on the implementation by later=1 operations). rejected_unchanged_monitor, swap_conserves_monitor, remove_conserves_monitor, add_conserves_monitor link the executable predicates."),
        note=COMMON_NOTE + "The coinswap module account is assumed not to be payer, recipient or escrow (it is a blocked module account)."),
    "C08": dict(
        text=("Proved for the model for all inputs: deadline_respected (success implies block time not past the deadline, incl. the "
              "time.Unix wrap-around of huge deadlines and sub-second block times), sell_exact_in_min_out, buy_exact_out_max_in, add_bounds, "
              "remove_bounds (user bounds honoured; executed amounts are the exact constant-product-with-fee / pro-rata values rounded "
              "one unit at most and always in the pool's favour, stated cross-multiplied on the code's integer formulas; the response "
              "equals the coins actually moved), sell_bound_tight (bound just met accepted / just missed rejected). The correspondence "
              "generates bounds from the implementation's own quote (quote-1, quote, quote+1) and compares responses. swap_delivered: the stated "
              "recipient's balance rises by exactly what the pool paid and the payer's falls by exactly what the pool received. The executable "
              "predicates evaluated on the implementation are proved of the model's transitions: deadline_monitor, swap_delivered_monitor, "
              "swap_bounds_rounding_monitor, remove_bounds_monitor, add_bounds_cap_monitor, autoSwap_monitors."),
        note=COMMON_NOTE),
    "C09": dict(
        text=("Proved for the model for every parameter setting in force at the moment of the operation: swap_caps (exactly one standard "
              "leg, counter-asset whitelisted, and the counter-asset leg - computed or stated, all four kind x direction cases - at most "
              "its per-swap maximum), add_caps (whitelisted counter-asset, deposit at most the per-pool cap and at most the room under it "
              "for a live pool), no_module_recipient / blocked_any_form (every spelling of a blocked recipient is rejected), "
              "pools_against_standard (invariant). Onboarding auto-swaps go through the same trade function (see C11). The correspondence "
              "changes parameters under live pools and draws recipients from all module accounts in both bech32 cases. swap_whitelist_cap_monitor / "
              "no_module_recipient_monitor link the executable predicates for swaps to the theorems."),
        note=COMMON_NOTE),
}
