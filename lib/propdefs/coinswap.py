COMMON_NOTE = ("Trusted: Lean 4.33.0 kernel; axioms propext, Classical.choice, Quot.sound (Mathlib tactics); the Go harness and the "
               "Lean driver (they print what the real code / the model did); cosmos-sdk bank/auth and baseapp branching are modelled "
               "(Bank.applyAll, deliver) and validated on every operation of the run, not verified. ")

# suite: harness -suite name, Lean driver name (Main.lean argument, module CantoVerif.Driver.<Capitalised>), op counts, accept floor (%)
SUITES = {
    "coinswap": dict(quick_ops=4000, thorough_ops=40000, driver="coinswap", accept_floor=10),
}

_CS_ASSUME = ["EnvOK: GetReservePoolAddr has no collisions on the denominations in play and never yields the module or fee-collector account",
              "signers are not pool escrow addresses",
              "SDK bank keeper behaves as Bank.applyAll (validated on every operation of the run)"]

PROPS = {
    "C01": dict(
        suite="coinswap",
        modules=["CantoVerif.Props.C01"],
        theorems=[
            "CV.Coinswap.k_step", "CV.Coinswap.k_step_monitor", "CV.Coinswap.k_history", "CV.Coinswap.wf_step",
            "CV.Coinswap.k_swap", "CV.Coinswap.k_add", "CV.Coinswap.k_remove", "CV.Coinswap.k_send",
            "CV.Coinswap.trade_k", "CV.Coinswap.remove_le_prorata", "CV.Coinswap.add_then_remove_le",
            "CV.Coinswap.roundtrip_le", "CV.Arith.sell_k", "CV.Arith.buy_k", "CV.Arith.add_k", "CV.Arith.remove_k",
            "CV.Arith.k_trans", "CV.Bank.applyAll_flow",
        ],
        comps={"outcome", "bank", "pools"},
        assumptions=_CS_ASSUME,
    ),
    "C08": dict(suite="coinswap", modules=["CantoVerif.Props.C01"], theorems=["CV.Coinswap.remove_ok"],
                comps={"outcome", "bank", "resp"}, assumptions=_CS_ASSUME),
    "C09": dict(suite="coinswap", modules=["CantoVerif.Props.C01"], theorems=["CV.Coinswap.swap_ok"],
                comps={"outcome", "bank"}, assumptions=_CS_ASSUME),
}

TEXT = {
    "C01": dict(
        text=("Proved for the model, for all reserve sizes, fees in [0,1), amounts and operation sequences: k_step (every successful swap of either "
              "kind and direction, addition, removal, bank transfer incl. donations, parameter change leaves X*Y/L^2 of every pool no smaller), "
              "k_history (lift to every sequence of accepted or rejected operations by induction, with the well-formedness invariant wf_step), "
              "remove_le_prorata, add_then_remove_le, roundtrip_le, on the code's exact integer formulas (256-bit guards included). "
              "The model is tied to the code by the step-wise correspondence (4000 ops quick, 8x40000 thorough on the real message server) and the "
              "regenerated formulas."),
        note=COMMON_NOTE + "Assumptions stated as hypotheses: EnvOK (pool-address hash has no collisions among the pool-token denominations "
             "in play and never equals the module / fee-collector account), signers are not escrow addresses."),
    "C08": dict(
        text=("Model and correspondence of the coinswap message server incl. responses; the property predicates (deadline, user bounds, "
              "within-one-unit rounding in the pool's favour, response = ledger delta) are evaluated on every implementation transition; "
              "theorems for them are being added (this entry currently claims the inversion lemmas + correspondence)."),
        note=COMMON_NOTE),
    "C09": dict(
        text=("Model and correspondence of the coinswap message server; predicates whitelist / per-swap cap / pool cap / no module recipient "
              "evaluated on every implementation transition; theorems being added."),
        note=COMMON_NOTE),
}
