"""erc20 suites: C15 (registry), C14 (gating), C04 (exact / atomic / reversible conversions), C03 (backing)."""

_NOTE = ("Trusted: Lean 4.33.0 kernel; axioms propext, Classical.choice, Quot.sound; the Go harness and the Lean driver (they print what "
         "the real code / the model did). The EVM is an ORACLE in the model: every EVMKeeper call of the erc20 keeper is answered by an arbitrary "
         "function over an arbitrary EVM state, so theorems hold for every contract behaviour; the honest ERC20MinterBurnerDecimals is one oracle "
         "(Model/Erc20Token.lean), validated against the harness's script token on every undeviated operation. Modelled, not verified: cosmos-sdk "
         "bank/auth (Bank.applyAll), baseapp's per-message state branching (deliver), go-ethereum ABI coding, common.IsHexAddress (re-implemented on "
         "strings), sha256 pair ids (modelled symbolically by their preimage = assumed collision free), crypto.CreateAddress and CreateDenom (tables "
         "supplied by the harness), banktypes.Metadata.Validate (a flag). ")

SUITES = {
    # surface M: the real erc20 keeper / msg server / hook rebuilt over the app's real stores with a scripted EVMKeeper
    "erc20": dict(quick_ops=4000, thorough_ops=40000, driver="erc20", accept_floor=25),
    # honest worlds only: the first half of the operations on the script EVM without deviations, the second half on
    # surface E: ethermint's real EVM with the compiled ERC20MinterBurnerDecimals, holder transactions through the real
    # EvmKeeper.EthereumTx so that the application's own post-transaction hook fires on real receipts
    "erc20e": dict(quick_ops=3000, thorough_ops=12000, driver="erc20", accept_floor=25),
}

_ASSUME = [
    "EnvOK: CreateDenom(contract) = \"erc20/0x...\" never has the form of a hex address (proved for the concrete string shape in the example; a table in general)",
    "Fresh (fresh_deploy_addr): the CREATE address of the module's next nonce is not in the address index (the keeper does not check; a real EVM CREATE onto existing code fails; the script EVM reproduces that rule)",
    "pair id sha256(address|denom) is collision free (modelled by its preimage)",
    "SDK bank keeper behaves as Bank.applyAll; a rejected message leaves no trace (baseapp branch) - validated on every operation of the run",
]

PROPS = {
    "C15": dict(
        suite="erc20",
        modules=["CantoVerif.Props.C15", "CantoVerif.Props.C15Monitors"],
        theorems=[
            "CV.Erc20.registry_init", "CV.Erc20.registry_step", "CV.Erc20.registry_history", "CV.Erc20.registry_step_monitor",
            "CV.Erc20.regInvB_of_RegInv", "CV.Erc20.one_to_one", "CV.Erc20.lookups_agree", "CV.Erc20.lookup_sound",
            "CV.Erc20.list_eq_reachable", "CV.Erc20.register_existing_rejected_no_effect", "CV.Erc20.cross_registration_rejected",
            "CV.Erc20.toggle_only_flag", "CV.Erc20.delete_removes_all", "CV.Erc20.convert_selfdestructed_deletes",
            "CV.Erc20.step_regChange", "CV.Erc20.RegChange.inv", "CV.Erc20.regInv_insert", "CV.Erc20.regInv_setPair",
            "CV.Erc20.regInv_delete", "CV.Erc20.regInv_reimport", "CV.Erc20.reimport_lookups", "CV.Erc20.exEnvOK",
            # monitor links: the executable predicates the driver evaluates on the implementation are proved of the model's transitions
            "CV.Erc20.c15_lookupsAgree_monitor", "CV.Erc20.c15_listEqReachable_monitor", "CV.Erc20.c15_registerExistingRejected_monitor",
            "CV.Erc20.c15_registerAddsOne_monitor", "CV.Erc20.c15_toggleOnlyFlag_monitor", "CV.Erc20.c15_deleteRemovesAll_monitor",
            "CV.Erc20.c15_othersKeepRegistry_monitor", "CV.Erc20.c15_grpcLookups_model_monitor",
        ],
        comps={"outcome", "resp", "reg", "nonce", "meta", "params", "evm", "token", "bank", "send", "abi"},
        assumptions=_ASSUME,
    ),
    "C14": dict(
        suite="erc20",
        modules=["CantoVerif.Props.C14", "CantoVerif.Props.C14Monitors", "CantoVerif.Props.AbiErc20"],
        theorems=[
            "CV.Erc20.msg_gate", "CV.Erc20.conv_ok_gate", "CV.Erc20.receiver_blocked_rejected", "CV.Erc20.module_receiver_rejected", "CV.Erc20.switches_stored",
            "CV.Erc20.third_party_send_disabled_rejected", "CV.Erc20.self_conversion_ignores_send_switch",
            "CV.Erc20.hook_gate_global", "CV.Erc20.hook_gate_pair", "CV.Erc20.hook_disabled_pair_frame",
            "CV.Erc20.hookTarget_pair_disabled", "CV.Erc20.hookTarget_not_to_module", "CV.Erc20.ordinary_transfers_unaffected",
            "CV.Erc20.gate_ok", "CV.Erc20.exec_eq_of_not_ok", "CV.Erc20.msg_gate_monitors",
            # monitor links (Props/C14Monitors.lean)
            "CV.Erc20.C14M.c14_moduleReceiver_monitor", "CV.Erc20.C14M.c14_moduleReceiver_needs_wiring", "CV.Erc20.C14M.c14_switchesStored_monitor",
            "CV.Erc20.C14M.msg_gate_monitors_all", "CV.Erc20.C14M.c14_ordinaryTransfers_monitor", "CV.Erc20.C14M.c14_hookGate_monitor",
            "CV.Erc20.C14M.c14_hookGate_monitor_tx", "CV.Erc20.C14M.c14_monitors_k", "CV.Erc20.C14M.c14_monitors_tx",
            # Props/AbiErc20.lean: which Transfer data "does not unpack" in the hook, exactly (shorter than one word), under the ABI model
            "CV.Abi.transfer_malformed_iff", "CV.Abi.transfer_decodes", "CV.Abi.transfer_trailing_ignored", "CV.Abi.transfer_roundtrip",
        ],
        comps={"outcome", "resp", "reg", "nonce", "meta", "params", "evm", "token", "bank", "send", "abi"},
        assumptions=_ASSUME,
    ),
    "C04": dict(
        suite="erc20",
        modules=["CantoVerif.Props.C04", "CantoVerif.Props.C04Monitors", "CantoVerif.Props.C04Recording"],
        theorems=[
            "CV.later_failure_unchanged",
            "CV.Erc20.convert_failed_unchanged", "CV.Erc20.convert_failed_unchanged_script", "CV.Erc20.convert_failed_unchanged_fault",
            "CV.Erc20.rejected_unchanged_monitor",
            "CV.Erc20.convertCoin_success_paths", "CV.Erc20.convertERC20_success_paths",
            "CV.Erc20.coinNative_exact", "CV.Erc20.coinExternal_exact", "CV.Erc20.erc20Native_exact", "CV.Erc20.erc20External_exact",
            "CV.Erc20.no_approval_on_success", "CV.Erc20.roundtrip_coin_token_coin", "CV.Erc20.roundtrip_token_coin_token",
            "CV.Erc20.external_sender_debit_unchecked",
            "CV.Erc20.Token.coinNative_honest", "CV.Erc20.Token.erc20NativeCoin_honest", "CV.Erc20.Token.erc20NativeToken_honest",
            "CV.Erc20.Token.coinNativeERC20_honest", "CV.Bank.applyAll_flow",
            # monitor links (Props/C04Monitors.lean): the seven executable predicates of C04 proved of the model's transitions
            "CV.Erc20.C04M.c04_successExactBank_monitor", "CV.Erc20.C04M.c04_successExactToken_monitor",
            "CV.Erc20.C04M.c04_successExactReported_monitor", "CV.Erc20.C04M.c04_noApproval_monitor", "CV.Erc20.C04M.c04_transferTrue_monitor",
            "CV.Erc20.C04M.c04_internalFailureRejects_monitor", "CV.Erc20.C04M.c04_roundtrip_monitor",
            "CV.Erc20.C04M.convertCoin_logged", "CV.Erc20.C04M.convertERC20_logged", "CV.Erc20.C04M.honest_codeLookupOk",
            # Props/C04Recording.lean: recording the EVM's answers does not influence the run (simulation along a projection of the EVM
            # state, every handler), so the answer-reading predicates are linked on the PLAIN model run
            "CV.Erc20.C04M.step_sim", "CV.Erc20.C04M.recording_transparent", "CV.Erc20.C04M.recording_transparent_run",
            "CV.Erc20.C04M.c04_successExactReported_monitor_plain", "CV.Erc20.C04M.c04_noApproval_monitor_plain",
            "CV.Erc20.C04M.c04_transferTrue_monitor_plain", "CV.Erc20.C04M.c04_internalFailureRejects_monitor_plain",
        ],
        comps={"outcome", "resp", "reg", "nonce", "meta", "params", "evm", "token", "bank", "send", "abi"},
        assumptions=_ASSUME,
    ),
}

_ASSUME3 = _ASSUME + [
    "EnvOK3: the erc20 module account is on the bank's blocked list; the zero address is not the module address",
    "HOpOK (closed world): the module account signs nothing and receives coins only through conversions; holders sending Ethereum transactions are not blocked addresses; hooks fire only through real transactions (receipts are not forged); an ERC-20's coin does not circulate before the token is registered; no contract self-destructs",
    "external pairs: the token is the honest ERC20MinterBurnerDecimals ('standard ERC-20'); for other tokens the second clause is false (external_backing_needs_standard)",
]

PROPS["C03"] = dict(
    suite="erc20e",
    modules=["CantoVerif.Props.C03", "CantoVerif.Props.C03Monitors"],
    theorems=[
        "CV.Erc20.Token.backing_step", "CV.Erc20.Token.backing_history", "CV.Erc20.Token.backing_hstep", "CV.Erc20.Token.backing_init",
        "CV.Erc20.Token.native_backing", "CV.Erc20.Token.external_backing", "CV.Erc20.Token.destroyed_only_grows_by_holder_burns",
        "CV.Erc20.Token.external_backing_needs_standard", "CV.Erc20.Token.exEnvOK3",
        "CV.Erc20.Token.backing_coinPath", "CV.Erc20.Token.backing_erc20Path", "CV.Erc20.Token.backing_hookLog",
        "CV.Erc20.Token.backing_transfer", "CV.Erc20.Token.backing_delete", "CV.Erc20.Token.backing_confined",
        "CV.Erc20.Token.backing_registry",
        # monitor links (Props/C03Monitors.lean): keeper operations / holder transactions / deployments, batches, self-destructs
        "CV.Erc20.Token.c03_nativeExact_monitor", "CV.Erc20.Token.c03_nativeGe_monitor", "CV.Erc20.Token.c03_external_monitor",
        "CV.Erc20.Token.c03_nativeExact_batch_monitor", "CV.Erc20.Token.c03_nativeGe_batch_monitor", "CV.Erc20.Token.c03_external_batch_monitor",
        "CV.Erc20.Token.c03_nativeExact_sd_monitor", "CV.Erc20.Token.c03_nativeGe_sd_monitor", "CV.Erc20.Token.c03_external_sd_monitor",
        "CV.Erc20.Token.evmTxBatch_single", "CV.Erc20.Token.exH_backing",
    ],
    comps={"outcome", "resp", "reg", "nonce", "meta", "params", "evm", "token", "bank", "send", "abi"},
    assumptions=_ASSUME3,
)

TEXT = {
    "C15": dict(
        text=("Proved for the model, for every EVM behaviour (the EVM is an arbitrary oracle) and every operation sequence: registry_step / "
              "registry_history (the invariant RegInv - every stored pair sits under its own id, the denomination index and the address index hold "
              "exactly the entries of the pair table, no registered denomination has the form of a hex address, keys unique - is kept by coin and "
              "ERC-20 registrations incl. repeats and cross-registrations, toggles by denomination or address, conversions incl. deletion of a pair "
              "whose contract self-destructed, hook invocations, parameter changes, bank operations and genesis export/import, accepted or rejected); "
              "consequences one_to_one, lookups_agree (no side condition since fix a47ed4e), lookup_sound, list_eq_reachable; "
              "register_existing_rejected_no_effect and cross_registration_rejected; toggle_only_flag; delete_removes_all and "
              "convert_selfdestructed_deletes; regInvB_of_RegInv ties the invariant to the executable monitor evaluated on the raw dump of the three "
              "store prefixes of the real keeper. Tie: surface M (real keeper over the app's real stores with a scripted EVM), 4000 ops quick / "
              "8x40000 thorough, three prefixes dumped raw + real gRPC TokenPairs/TokenPair after every operation; one world per run holds more "
              "than a hundred pairs (past one default page of the query servers) and re-imports its export; one keeper message in fifteen is "
              "followed by a failing sibling of the same transaction (later=1)."),
        note=_NOTE + "Hypotheses: EnvOK, Fresh (fresh_deploy_addr), collision-free pair ids. Export/import is the keeper-level ExportGenesis -> emptied "
             "prefixes -> InitGenesis inside one context, not a chain restart (that is C18)."),
    "C14": dict(
        text=("Proved for the model, for every EVM behaviour, state and message - the three switches are universally quantified booleans of the "
              "state, so all eight settings and any flipping between operations are covered: msg_gate (module disabled, pair toggled off or absent => "
              "both messages rejected, both stores unchanged), hook_gate_global (module or hook disabled => PostTxProcessing returns no error and "
              "changes nothing, for every receipt), hook_gate_pair and hook_disabled_pair_frame (logs of toggled-off pairs convert nothing; in mixed "
              "receipts the coin of a toggled-off pair does not move at all), ordinary_transfers_unaffected (honest token: a holder's transfer to "
              "anybody but the module address succeeds exactly when the token call does and moves no coins, whatever the switches), "
              "receiver_blocked_rejected, module_receiver_rejected (with every module account of the application's permissions table on the blocked "
              "list - checked on the real wiring in every run - a conversion to any module account is rejected), switches_stored (an accepted "
              "parameter update stores the requested switches), third_party_send_disabled_rejected, self_conversion_ignores_send_switch. Tie: surface M incl. an exhaustive "
              "sweep per run (2 pair kinds x 8 switch settings set by real messages x both message routes x receivers {self, third party with sends "
              "enabled/disabled, every module account} + hook route + ordinary transfer), monitors on every implementation transition."),
        note=_NOTE),
    "C03": dict(
        text=("Proved for the honest world (the erc20 keeper model against the honest ERC20MinterBurnerDecimals machine, receipts carrying exactly the "
              "logs the tokens emitted): backing_step / backing_history - the invariant Backing is kept by every operation, accepted or rejected, "
              "along every sequence: conversions in either direction by message (both pair kinds), holders' Ethereum transactions (transfers to the "
              "module address with the hook converting, ordinary transfers, burns), registrations, toggles, parameter and send-switch changes, bank "
              "transfers, genesis export/import, deployment of further tokens; native_backing (escrow = total supply + tokens holders destroyed "
              "themselves, a ghost that only a holder's burn increases - hence escrow >= total supply), external_backing (bank supply of the coin <= "
              "tokens the module holds), destroyed_only_grows_by_holder_burns; boundary external_backing_needs_standard (machine-checked witness: a "
              "forged Transfer log makes the hook mint unbacked coins). The honest-token model is validated on the REAL contract on ethermint's EVM "
              "(surface E): the same operations, holder transactions through the real EvmKeeper.EthereumTx so that the real hook fires on real "
              "receipts; totalSupply(), balanceOf of every tracked holder incl. the module, bank escrow and supply observed after every operation. "
              "Finding E1 (genuine, found by this check on the real keeper + real EVM, repaired by a fix: commit): ConvertCoin accepted a denomination "
              "that is a registered contract's address written as 40 hex digits, escrowed that unrelated coin and minted the pair's tokens; the model "
              "mirrors the repaired code (the guard is a step of convertCoin), the theorems carry no side condition on the denomination, the "
              "generator keeps producing such attempts (now rejected by model and implementation alike), pre-fix trace in corpus/C03/."),
        note=_NOTE + "Closed-world side conditions HOpOK are hypotheses of the theorems (listed under assumptions). transferFrom/burnFrom are not "
             "separate operations of the model (ledger effect of transfer resp. burn by the owner), approve is (HolderCall.approve: nothing moves, the "
             "Approval-shaped log is ignored by the hook); pausing is not modelled (the module never pauses; "
             "a paused external token only makes conversions fail)."),
    "C04": dict(
        text=("Proved for the model with the contract/EVM as an arbitrary oracle (every answer to every call: balances, return words, logs, errors, "
              "reverts; answer scripts and a failure injected at the n-th call are instances): convert_failed_unchanged (rejected => both stores "
              "exactly as before), the four path theorems coinNative_exact / coinExternal_exact / erc20Native_exact / erc20External_exact with "
              "convertCoin_success_paths / convertERC20_success_paths (on success the bank ledger moves by exactly the amount at sender resp. receiver "
              "and only the module escrow or the supply besides; the balance the contract REPORTS to the keeper moved by exactly the amount; no "
              "Approval log for external tokens; nothing else of Canto's state changes), roundtrip_coin_token_coin and roundtrip_token_coin_token "
              "(honest token: converting and converting back restores every bank balance, supply, token balance and token supply, both pair kinds). "
              "Stated limit with machine-checked witness external_sender_debit_unchecked: for an external adversarial token the keeper can only check "
              "the escrow side, so 'debits the sender exactly' holds for honest tokens only. later_failure_unchanged: a transaction containing a "
              "failing message leaves the state as it was. Tie: surface M with 22 kinds of scripted deviation (incl. movements in the opposite "
              "direction and doubled) at each call position; later=1 transactions; whole bank ledger + token ledger diffed on every operation."),
        note=_NOTE),
}
