"""The check runner (see DESIGN.md section 6)."""
import argparse, fcntl, json, os, re, subprocess, sys, time, hashlib, shutil, collections
from concurrent.futures import ThreadPoolExecutor

import props as P

VERIF = os.path.dirname(os.path.dirname(os.path.abspath(__file__)))
REPO = os.environ.get("VERIF_REPO", "/repo")
WORK = os.path.join(VERIF, ".work")
LEAN = os.path.join(VERIF, "lean")
BIN = os.path.join(WORK, "bin")
SCRATCH = os.path.realpath(REPO) != "/repo"
# checking a scratch copy (VERIF_REPO) must not overwrite the evidence / replays of the real tree
EVID = os.path.join(WORK, "scratch-evidence") if SCRATCH else os.path.join(VERIF, "evidence")
REPL = os.path.join(WORK, "scratch-replays") if SCRATCH else os.path.join(VERIF, "replays")
GOENV = dict(os.environ, GOFLAGS="-mod=mod", GOPROXY="off", GOSUMDB="off", GOTOOLCHAIN="local",
             CGO_ENABLED=os.environ.get("CGO_ENABLED", "1"))


def log(*a):
    print("[check]", *a, file=sys.stderr, flush=True)


def sh(cmd, cwd=None, env=None, timeout=None, stdin=None):
    p = subprocess.run(cmd, cwd=cwd, env=env, stdin=stdin, stdout=subprocess.PIPE, stderr=subprocess.STDOUT,
                       timeout=timeout, text=True)
    return p.returncode, p.stdout


class Lock:
    def __init__(self, name):
        os.makedirs(WORK, exist_ok=True)
        self.path = os.path.join(WORK, name)

    def __enter__(self):
        self.f = open(self.path, "w")
        fcntl.flock(self.f, fcntl.LOCK_EX)
        return self

    def __exit__(self, *a):
        fcntl.flock(self.f, fcntl.LOCK_UN)
        self.f.close()


# ---------------------------------------------------------------- builds

def repo_fingerprint():
    """hash of the Go / proto / sol-json sources of /repo's working tree (names, sizes, mtimes)"""
    h = hashlib.sha256()
    for root, dirs, files in os.walk(REPO):
        dirs[:] = sorted(d for d in dirs if d not in (".git", "node_modules", "build"))
        for f in sorted(files):
            if f.endswith((".go", ".proto", ".json", ".mod", ".sum")):
                p = os.path.join(root, f)
                try:
                    st = os.stat(p)
                except OSError:
                    continue
                h.update(f"{p}:{st.st_size}:{st.st_mtime_ns}\n".encode())
    return h.hexdigest()


def build_factx(repo=None):
    repo = repo or REPO
    src = os.path.join(VERIF, "factx")
    if not os.path.isdir(src):
        return True, ""
    exe = os.path.join(BIN, "factx")
    rc, out = sh(["go", "build", "-o", exe, "."], cwd=src, env=GOENV)
    if rc != 0:
        return False, out
    gen = os.path.join(LEAN, "CantoVerif", "Gen")
    tmp = os.path.join(WORK, "gen.tmp")
    shutil.rmtree(tmp, ignore_errors=True)
    os.makedirs(tmp)
    os.makedirs(gen, exist_ok=True)
    rc, out = sh([exe, "-repo", repo, "-out", tmp])
    if rc != 0:
        return False, out
    # replace only files whose content changed (keeps lake's incremental build effective); delete stale files
    new = set(os.listdir(tmp))
    for f in os.listdir(gen):
        if f.endswith(".lean") and f not in new:
            os.remove(os.path.join(gen, f))
    for f in new:
        a, b = os.path.join(tmp, f), os.path.join(gen, f)
        if not os.path.exists(b) or open(a).read() != open(b).read():
            shutil.copyfile(a, b)
    return True, out


HARNESS_EXE = os.path.join(BIN, f"harness.{os.getpid()}")


def build_harness():
    src = os.path.join(VERIF, "harness")
    if os.path.realpath(REPO) != "/repo":
        # checking a scratch copy of the repository (VERIF_REPO): build a copy of the harness whose replace points there
        alt = os.path.join(WORK, "harness-alt")
        shutil.rmtree(alt, ignore_errors=True)
        shutil.copytree(src, alt)
        sh(["go", "mod", "edit", "-replace", "github.com/Canto-Network/Canto/v8=" + os.path.realpath(REPO)], cwd=alt, env=GOENV)
        src = alt
    shutil.copyfile(os.path.join(REPO, "go.sum"), os.path.join(src, "go.sum"))
    exe = os.path.join(BIN, "harness")
    os.makedirs(BIN, exist_ok=True)
    rc, out = sh(["go", "build", "-tags", "verif", "-o", exe, "."], cwd=src, env=GOENV)
    if rc == 0:
        # this run's own copy: a concurrent check (of another tree) may rebuild the shared binary while this one runs
        shutil.copyfile(exe, HARNESS_EXE)
        os.chmod(HARNESS_EXE, 0o755)
    return rc == 0, out


THEOREM_RE = re.compile(r"^\s*(?:private\s+|protected\s+)?(?:theorem|lemma)\s+([A-Za-z_][\w.']*)")


def theorem_spans(path):
    """(name, first line, last line) of every theorem in a Lean source file"""
    spans, cur = [], None
    lines = open(path).read().split("\n")
    for i, l in enumerate(lines, 1):
        m = THEOREM_RE.match(l)
        if m or re.match(r"^\s*(def|structure|inductive|example|instance|abbrev|macro|namespace|end|section)\b", l):
            if cur:
                spans.append((cur[0], cur[1], i - 1))
                cur = None
            if m:
                cur = (m.group(1), i)
    if cur:
        spans.append((cur[0], cur[1], len(lines)))
    return spans


def lake_build(modules, clean=False):
    if clean:
        shutil.rmtree(os.path.join(LEAN, ".lake", "build"), ignore_errors=True)
    rc, out = sh(["lake", "build"] + modules, cwd=LEAN, timeout=3600)
    broken = []  # (file, line, message)
    for m in re.finditer(r"^error: ([^:\n]+\.lean):(\d+):(\d+): (.*)$", out, re.M):
        broken.append((m.group(1), int(m.group(2)), m.group(4)))
    return rc == 0, out, broken


def audit_axioms(theorems, modules):
    """#print axioms for every obligation; returns {theorem: [axioms] or None if missing}"""
    os.makedirs(os.path.join(WORK, "audit"), exist_ok=True)
    f = os.path.join(WORK, "audit", f"audit_{os.getpid()}.lean")
    with open(f, "w") as fh:
        for m in modules:
            fh.write(f"import {m}\n")
        for t in theorems:
            fh.write(f"#print axioms {t}\n")
    rc, out = sh(["lake", "env", "lean", f], cwd=LEAN, timeout=1800)
    os.remove(f)
    res = {t: None for t in theorems}
    for m in re.finditer(r"'([^']+)' depends on axioms: \[([^\]]*)\]", out):
        res[m.group(1)] = [a.strip() for a in m.group(2).split(",") if a.strip()]
    for m in re.finditer(r"'([^']+)' does not depend on any axioms", out):
        res[m.group(1)] = []
    return res, out


FORBIDDEN = re.compile(r"\b(sorry|admit|native_decide|bv_decide|implemented_by)\b|^\s*axiom\s|unsafe\s|maxHeartbeats\s+0")


def grep_audit():
    hits = []
    for root, dirs, files in os.walk(os.path.join(LEAN, "CantoVerif")):
        for f in files:
            if not f.endswith(".lean"):
                continue
            p = os.path.join(root, f)
            incomment = False
            for i, l in enumerate(open(p), 1):
                s = l
                if "/-" in s:
                    incomment = True
                if incomment:
                    if "-/" in s:
                        incomment = False
                    continue
                s = s.split("--")[0]
                if FORBIDDEN.search(s):
                    hits.append(f"{os.path.relpath(p, LEAN)}:{i}: {l.strip()}")
    return hits


# ---------------------------------------------------------------- correspondence

def run_suite(suite, seed, ops, tag):
    """harness -> trace -> driver. returns dict with parsed driver output"""
    # scratch runs (several may run at once, on different trees) keep their traces apart
    d = os.path.join(WORK, f"scratch-run-{os.getpid()}", suite) if SCRATCH else os.path.join(WORK, suite)
    os.makedirs(d, exist_ok=True)
    trace = os.path.join(d, f"{tag}.trace")
    stats = os.path.join(d, f"{tag}.stats")
    outp = os.path.join(d, f"{tag}.out")
    t0 = time.time()
    rc, out = sh([HARNESS_EXE, "-suite", suite, "-seed", str(seed), "-ops", str(ops), "-out", trace,
                  "-stats", stats], timeout=7200)
    if rc != 0:
        return dict(error="harness failed: " + out[-2000:])
    t1 = time.time()
    with open(trace) as fin, open(outp, "w") as fout:
        p = subprocess.run(["lake", "env", "lean", "--run", "Main.lean", P.SUITES[suite]["driver"]], cwd=LEAN, stdin=fin,
                           stdout=fout, stderr=subprocess.PIPE, text=True, timeout=7200)
    if p.returncode != 0:
        return dict(error="driver failed: " + p.stderr[-2000:])
    res = dict(trace=trace, out=outp, seed=seed, ops=ops, harness_s=t1 - t0, driver_s=time.time() - t1,
               agree=0, diffs=[], viols=[], tags=collections.Counter(), stats=json.load(open(stats)))
    for line in open(outp):
        parts = line.rstrip("\n").split(" ")
        if len(parts) < 2:
            continue
        if parts[1] == "A":
            res["agree"] += 1
            res["tags"][parts[2]] += 1
        elif parts[1] == "D":
            res["tags"][parts[2]] += 1
            comps = set()
            for x in parts:
                if x.startswith("comps="):
                    comps = set(x[6:].split(","))
            res["diffs"].append(dict(seq=parts[0], comps=comps, line=line.strip()))
        elif parts[1] == "V":
            res["viols"].append(dict(seq=parts[0], prop=parts[2], monitor=parts[3], line=line.strip()))
        elif parts[1] == "E":
            res["diffs"].append(dict(seq=parts[0], comps={"outcome"}, line=line.strip()))
    return res


def op_line(trace, seq):
    """the O line with this sequence number, with the E line and the latest S line before it"""
    env = state = None
    ctx = []
    for line in open(trace):
        if line.startswith("E "):
            env = line
        elif line.startswith("S "):
            state = line
            ctx = []
        elif line.startswith("O "):
            ctx.append(line)
            if line.split(" ", 2)[1] == str(seq):
                return env, state, ctx
    return env, state, ctx


def write_replay(pid, suite, run, seq, what, extra):
    os.makedirs(REPL, exist_ok=True)
    path = os.path.join(REPL, f"{pid}-{suite}-seed{run['seed']}-op{seq}.trace")
    env, state, ctx = op_line(run["trace"], seq)
    with open(path, "w") as f:
        f.write(f"# property={pid} what={what}\n")
        f.write(f"# replay: ./check {pid} --replay {os.path.relpath(path, VERIF)}\n")
        f.write(f"# suite={suite} seed={run['seed']} ops={run['ops']} failing-op={seq}\n")
        for e in extra:
            f.write("# " + e + "\n")
        f.write("# the state line below is the implementation's state before the operations that follow; the last O line is the failing one\n")
        f.write(env or "")
        f.write(state or "")
        for l in ctx:
            f.write(l)
    return path


def load_known():
    p = os.path.join(VERIF, "known_findings.json")
    if not os.path.exists(p):
        return []
    return json.load(open(p)).get("findings", [])


def known_match(k, pid, viol, opline):
    if k.get("status") != "known" or k.get("property") != pid:
        return False
    if k.get("monitor") and k["monitor"] != viol["monitor"]:
        return False
    pat = k.get("op_regex")
    return bool(pat is None or re.search(pat, opline or ""))


# ---------------------------------------------------------------- main

def main(argv):
    try:
        return main_(argv)
    finally:
        try:
            os.remove(HARNESS_EXE)
        except OSError:
            pass
        shutil.rmtree(os.path.join(WORK, f"scratch-run-{os.getpid()}"), ignore_errors=True)
        if SCRATCH:
            # leave Gen/ describing the real tree again (a later manual `lake build` must not see the scratch copy's facts)
            with Lock("build.lock"):
                build_factx("/repo")


def main_(argv):
    ap = argparse.ArgumentParser()
    ap.add_argument("pid")
    ap.add_argument("--tier", default=os.environ.get("VERIF_TIER", "quick"))
    ap.add_argument("--replay")
    a = ap.parse_args(argv)
    pid, tier = a.pid, a.tier
    if pid not in P.PROPS:
        print(f"unknown property {pid}")
        return 2
    cfg = P.PROPS[pid]
    seed = int(os.environ.get("VERIF_SEED", "1"))
    t0 = time.time()
    suite = cfg["suite"]
    scfg = P.SUITES[suite]
    replay = None
    if a.replay:
        hdr = open(a.replay).read(4000)
        m = re.search(r"suite=(\S+) seed=(\d+) ops=(\d+) failing-op=(\d+)", hdr)
        if not m:
            print("replay file has no header")
            return 2
        replay = dict(seed=int(m.group(2)), ops=int(m.group(3)), seq=m.group(4))
        seed = replay["seed"]

    # ---- builds (serialised)
    with Lock("build.lock"):
        ok, out = build_factx()
        if not ok:
            log("factx failed:\n" + out[-3000:])
            return 2
        ok, out = build_harness()
        if not ok:
            log("harness / repository does not build:\n" + out[-3000:])
            print(f"CHECK-ERROR property={pid} the repository does not compile with the harness")
            return 2
        trigger_modules = [m for m in cfg.get("trigger_modules", []) if m not in cfg["modules"]]
        modules = cfg["modules"] + ["CantoVerif.Driver." + scfg["driver"].capitalize()] + cfg.get("extra_modules", []) + trigger_modules
        okb, bout, broken = lake_build(modules, clean=(tier == "thorough" and os.environ.get("VERIF_CLEAN", "0") == "1"))
        trig_pats = cfg.get("triggers", [])
        trigger_thms = [t for t in cfg["theorems"] if any(re.search(p_, t) for p_ in trig_pats)]
        theorems = [t for t in cfg["theorems"] if t not in trigger_thms]
        # which errors concern this property: any error outside Bridge/ (model, proofs, property files), an error that
        # cannot be attributed to a theorem, or an error inside a Bridge theorem that is one of the property's obligations
        broken_thms, unrelated, triggers_hit = [], [], []
        built_modules = list(cfg["modules"])
        if not okb:
            by_file = collections.defaultdict(list)
            for f, ln, msg in broken:
                by_file[f].append((ln, msg))
            for f, errs in by_file.items():
                path = os.path.join(LEAN, f) if not os.path.isabs(f) else f
                spans = theorem_spans(path) if os.path.exists(path) else []
                mod = f[:-5].replace("/", ".") if f.endswith(".lean") else f
                built_modules = [m for m in built_modules if m != mod]
                for ln, msg in errs:
                    name = next((n for (n, a_, b_) in spans if a_ <= ln <= b_), None)
                    is_bridge = "/Bridge/" in f or f.startswith("CantoVerif/Bridge/")
                    if mod in trigger_modules or (f.startswith("CantoVerif/Gen/") and mod.replace(".Gen.", ".Bridge.") in trigger_modules):
                        triggers_hit.append((f, ln, name or "?", msg))
                        continue
                    mine = (not is_bridge) or name is None or any(t.endswith("." + name) for t in theorems + trigger_thms)
                    if mine and is_bridge and name and any(re.search(p_, name) for p_ in trig_pats):
                        # a search trigger, not an obligation: the text of a mirrored function changed
                        triggers_hit.append((f, ln, name, msg))
                    else:
                        (broken_thms if mine else unrelated).append((f, ln, name or "?", msg))
            if not broken and not broken_thms:
                log("lake build failed without a located error:\n" + bout[-3000:])
                broken_thms.append(("?", 0, "?", bout[-300:]))
            # a Gen file that does not elaborate breaks every bridge that imports it
            for f, ln, msg in broken:
                gmod = f[:-5].replace("/", ".").replace(".Gen.", ".Bridge.") if f.endswith(".lean") else f
                if "/Gen/" in f and gmod not in trigger_modules and not any(b[0] == f for b in broken_thms):
                    broken_thms.append((f, ln, "(generated file)", msg))
        failed_modules = [m for m in cfg["modules"] if m not in built_modules]
        broken_names = {b[2] for b in broken_thms}
        # theorems living in a module that failed to build cannot be audited; they count as discharged only if no
        # error was reported inside them (Lean elaborates every declaration of a file even after an error)
        audit_thms = theorems if not failed_modules else [
            t for t in theorems if not any(t.startswith(ns) for ns in cfg.get("bridge_namespaces", ["CV.Bridge."]))]
        axioms, aout = audit_axioms(audit_thms, built_modules) if (okb or not [b for b in broken_thms if "/Bridge/" not in b[0]]) \
            else ({t: None for t in theorems}, "")
        for t in theorems:
            if t not in axioms:
                axioms[t] = None if any(t.endswith("." + n) for n in broken_names) else []
        grep_hits = grep_audit()
        checker = None
        if tier == "thorough" and okb:
            rc, cout = sh(["lake", "env", "leanchecker"] + cfg["modules"], cwd=LEAN, timeout=3600)
            checker = (rc == 0, cout[-500:])
        for u in unrelated:
            log(f"note: {u[0]}:{u[1]} theorem {u[2]} no longer checks; it is not an obligation of {pid}")
        for u in triggers_hit:
            log(f"note: {u[0]}:{u[1]} {u[2]}: the text of a mirrored function changed; widening the search")

    bad_axioms = {t: ax for t, ax in axioms.items() if ax is not None and not set(ax) <= P.ALLOWED_AXIOMS}
    missing = [t for t, ax in axioms.items() if ax is None] if not broken_thms else []
    obligations = len(theorems)
    discharged = sum(1 for t, ax in axioms.items() if ax is not None and set(ax) <= P.ALLOWED_AXIOMS)
    okb = okb or not broken_thms

    # ---- correspondence + monitors
    drv_ok = okb or os.path.exists(os.path.join(LEAN, ".lake", "build", "lib", "lean", "CantoVerif", "Driver"))
    runs = []
    if replay:
        plan = [(replay["seed"], replay["ops"])]
    elif tier == "thorough":
        plan = [(seed * 1000 + i, scfg["thorough_ops"]) for i in range(8)]
    else:
        plan = [(seed, scfg["quick_ops"])]
    # a broken obligation triggers the search for a failing input: more seeds
    if (not okb or bad_axioms or missing or triggers_hit) and not replay and tier != "thorough":
        plan += [(seed * 1000 + 100 + i, scfg["quick_ops"]) for i in range(6)]
    if drv_ok:
        # the driver needs its own modules built even when a property module is broken
        if not okb:
            with Lock("build.lock"):
                lake_build(["CantoVerif.Driver." + scfg["driver"].capitalize()])
        with ThreadPoolExecutor(max_workers=8) as ex:
            futs = [ex.submit(run_suite, suite, sd, n, f"{pid}-{tier}-{sd}") for sd, n in plan]
            runs = [f.result() for f in futs]
    for r in runs:
        if "error" in r:
            log(r["error"])
            print(f"CHECK-ERROR property={pid} correspondence run failed")
            return 2

    known = load_known()
    applicable = [k for k in known if k.get("status") == "known" and k.get("property") == pid]
    violations, known_hits = [], []
    diffs_for_prop = []
    total_ops = agree = 0
    tags = collections.Counter()
    stats = collections.Counter()
    for r in runs:
        total_ops += r["agree"] + len(r["diffs"])
        agree += r["agree"]
        tags.update(r["tags"])
        stats.update({k: v for k, v in r["stats"].items() if not k.startswith("panicmsg")})
        vseqs = set()
        for v in r["viols"]:
            if v["prop"] != pid:
                continue
            if replay and v["seq"] != replay["seq"]:
                continue
            # the operation line is needed only to match a listed (unrepaired) finding of this property
            opl = ""
            if applicable:
                env, state, ctx = op_line(r["trace"], v["seq"])
                opl = ctx[-1] if ctx else ""
            k = next((k for k in applicable if known_match(k, pid, v, opl)), None)
            if k:
                known_hits.append((k, v, r))
            else:
                violations.append((v, r, opl))
            vseqs.add(v["seq"])
        for d in r["diffs"]:
            if d["comps"] & cfg["comps"] and d["seq"] not in vseqs:
                diffs_for_prop.append((d, r))

    # ---- verdict
    exit_code = 0
    printed = set()
    for k, v, r in known_hits:
        key = k.get("what", v["monitor"])
        if key not in printed:
            print(f"KNOWN-FINDING: property={pid} {key}")
            printed.add(key)
    n_viol = 0
    if violations:
        v, r, opl = violations[0]
        path = write_replay(pid, suite, r, v["seq"], f"monitor {v['monitor']} fails on the implementation",
                            [f"monitor={v['monitor']} ({len(violations)} failing operations in this run; first shown)"])
        print(f"VIOLATION property={pid} replay={os.path.relpath(path, VERIF)}")
        n_viol = len(violations)
        exit_code = 1
    elif broken_thms or bad_axioms or missing or grep_hits:
        # an obligation no longer checks and the search found no failing input
        os.makedirs(REPL, exist_ok=True)
        path = os.path.join(REPL, f"{pid}-obligation.txt")
        with open(path, "w") as f:
            f.write(f"# property={pid}: proof obligations that no longer check on the current tree\n")
            for (fn, ln, name, msg) in broken_thms:
                f.write(f"theorem {name} ({fn}:{ln}): {msg}\n")
            for t, ax in bad_axioms.items():
                f.write(f"theorem {t}: axioms outside the allowed set: {ax}\n")
            for t in missing:
                f.write(f"theorem {t}: not found in the built modules\n")
            for h in grep_hits:
                f.write(f"forbidden construct: {h}\n")
            f.write(f"# search for a failing input: {total_ops} implementation operations over {len(runs)} seeds, "
                    f"property monitors found nothing\n")
        print(f"VIOLATION property={pid} replay={os.path.relpath(path, VERIF)} no-failing-input-found")
        n_viol = 1
        exit_code = 1
    elif diffs_for_prop:
        d, r = diffs_for_prop[0]
        path = write_replay(pid, suite, r, d["seq"], "model and implementation disagree; no property monitor fails",
                            ["correspondence: " + d["line"][:1500],
                             f"{len(diffs_for_prop)} disagreeing operations; the property monitors hold on all of them"])
        print(f"VIOLATION property={pid} replay={os.path.relpath(path, VERIF)} no-failing-input-found")
        n_viol = 1
        exit_code = 1

    # ---- generator floors: an otherwise green run whose generator stopped reaching the operations is a check error
    accepted = sum(v for k, v in tags.items() if "/ok/" in k)
    if exit_code == 0 and not replay and total_ops > 0:
        floor = scfg.get("accept_floor", 10)
        if accepted * 100 < total_ops * floor:
            print(f"CHECK-ERROR property={pid} accept ratio {accepted}/{total_ops} below the {floor}% floor")
            return 2

    # ---- evidence
    distinct = sorted(tags.keys())
    samples = []
    if runs:
        with open(runs[0]["trace"]) as f:
            for line in f:
                if line.startswith("O ") and "=> ok" in line:
                    samples.append(line.strip()[:700])
                    if len(samples) >= 3:
                        break
    ev = dict(
        property_id=pid, tier=tier, seed=seed, level=cfg.get("level", "proof"),
        coverage=dict(
            obligations=obligations, discharged=discharged,
            checker_cmd=f"cd lean && lake build {' '.join(cfg['modules'])} && lake env lean <#print axioms of each obligation>"
                        + (" && lake env leanchecker " + " ".join(cfg["modules"]) if tier == "thorough" else ""),
            trusted_base=["Lean 4.33.0 kernel", "axioms: " + ", ".join(sorted({a for ax in axioms.values() if ax for a in ax}) or ["none"]),
                          "factx translator + harness (Go) + line-protocol driver (Lean, interpreted)",
                          "cosmos-sdk bank/auth, baseapp branching: modelled, validated differentially"],
            obligations_list=[dict(theorem=t, axioms=ax) for t, ax in axioms.items()],
            leanchecker=(None if checker is None else dict(ok=checker[0], tail=checker[1])),
            search_triggers=dict(count=len(trigger_thms), fired=sorted({u[2] for u in triggers_hit}),
                                 meaning="regenerated statement-text facts of mirrored functions; a change widens the correspondence search, it is not an obligation"),
            evaluations=total_ops, distinct_nontrivial=len(distinct),
            rule=cfg.get("rule",
                 "each operation is executed on the real application (message server under branch/recover/commit) and replayed on "
                 "the Lean model from the implementation's own pre-state; distinct = (model branch, accepted/rejected, magnitude "
                 "class) triples observed; every one is non-trivial (an accepted state change or a rejection)"),
            traces_validated_against_impl=len(runs), model_impl_agreements=agree,
            model_impl_disagreements=total_ops - agree, accepted_ops=accepted,
            branch_histogram=dict(tags.most_common()), impl_outcome_histogram=dict(stats.most_common()),
            samples=samples or ["(no accepted operation in this run)"],
        ),
        assumptions=cfg.get("assumptions", ["SDK modules behave as modelled (validated on every operation of the run)"]),
        wall_s=round(time.time() - t0, 1), violations=n_viol,
    )
    if cfg.get("evidence_notes"):
        ev["notes"] = cfg["evidence_notes"]
    os.makedirs(EVID, exist_ok=True)
    with open(os.path.join(EVID, f"{pid}.json"), "w") as f:
        json.dump(ev, f, indent=1)
    log(f"{pid} tier={tier} obligations {discharged}/{obligations} ops {total_ops} agree {agree} accepted {accepted} "
        f"violations {n_viol} known {len(known_hits)} wall {ev['wall_s']}s")
    return exit_code
