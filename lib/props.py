"""Per-property configuration of the check runner, aggregated from lib/propdefs/*.py.
Each file there defines (any of) SUITES, PROPS, TEXT (manifest texts), NOT_YET (reasons for unclaimed properties)."""
import glob, importlib.util, os

ALLOWED_AXIOMS = {"propext", "Classical.choice", "Quot.sound"}
SUITES, PROPS, TEXT, NOT_YET = {}, {}, {}, {}

_here = os.path.dirname(os.path.abspath(__file__))
for _f in sorted(glob.glob(os.path.join(_here, "propdefs", "*.py"))):
    _spec = importlib.util.spec_from_file_location("propdefs_" + os.path.basename(_f)[:-3], _f)
    _m = importlib.util.module_from_spec(_spec)
    _spec.loader.exec_module(_m)
    SUITES.update(getattr(_m, "SUITES", {}))
    PROPS.update(getattr(_m, "PROPS", {}))
    TEXT.update(getattr(_m, "TEXT", {}))
    NOT_YET.update(getattr(_m, "NOT_YET", {}))

# Search triggers: regenerated text facts of the functions a suite's model mirrors (Bridge/<Suite>Facts.lean, see factx/allfuncs.go).
# They are not obligations; when one stops checking the runner widens the correspondence search.
_TRIGGER_NS = {"epochs": ["Epochs"], "csr": ["Csr"], "onboarding": ["Onboarding", "Coinswap"], "govshuttle": ["Govshuttle"],
               "erc20": ["Erc20"], "params": ["Params"], "ante": ["Ante"], "genesis": ["Genesis"], "replica": [],
               "signers": ["Signers"]}
for _pid, _cfg in PROPS.items():
    for _ns in _TRIGGER_NS.get(_cfg.get("suite"), []):
        if os.path.exists(os.path.join(_here, "..", "lean", "CantoVerif", "Bridge", _ns + "Facts.lean")):
            _cfg.setdefault("trigger_modules", []).append("CantoVerif.Bridge." + _ns + "Facts")
