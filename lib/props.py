"""Per-property configuration of the check runner: which suite produces the correspondence trace,
which Lean modules hold the obligations, which theorems are the obligations, which components of a
model/implementation disagreement concern the property."""

ALLOWED_AXIOMS = {"propext", "Classical.choice", "Quot.sound"}

# suites: name -> (quick ops, thorough ops per seed)
SUITES = {
    "coinswap": dict(quick_ops=4000, thorough_ops=40000, driver="coinswap"),
}

PROPS = {
    "C01": dict(
        suite="coinswap",
        modules=["CantoVerif.Props.C01"],
        theorems=[
            "CV.Coinswap.k_step", "CV.Coinswap.k_step_monitor", "CV.Coinswap.k_history", "CV.Coinswap.wf_step",
            "CV.Coinswap.k_swap", "CV.Coinswap.k_add", "CV.Coinswap.k_remove", "CV.Coinswap.k_send",
            "CV.Coinswap.trade_k", "CV.Coinswap.remove_le_prorata", "CV.Coinswap.add_then_remove_le",
            "CV.Coinswap.roundtrip_le", "CV.Arith.sell_k", "CV.Arith.buy_k", "CV.Arith.add_k", "CV.Arith.remove_k",
            "CV.Arith.k_trans", "CV.Bank.applyAll_flow",
        ],
        comps={"outcome", "bank", "pools"},
        ops={"swap", "add", "remove", "send"},
    ),
    "C02": dict(suite="coinswap", modules=["CantoVerif.Props.C01"], theorems=["CV.within_conserves", "CV.Bank.applyAll_flow"],
                comps={"outcome", "bank", "pools"}),
    "C08": dict(suite="coinswap", modules=["CantoVerif.Props.C01"], theorems=["CV.Coinswap.remove_ok"],
                comps={"outcome", "bank", "resp"}),
    "C09": dict(suite="coinswap", modules=["CantoVerif.Props.C01"], theorems=["CV.Coinswap.swap_ok"],
                comps={"outcome", "bank"}),
}
