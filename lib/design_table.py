#!/usr/bin/env python3
"""Rewrites the per-property table of DESIGN.md §0 from lib/propdefs and the committed evidence files."""
import json, os, re, sys
sys.path.insert(0, os.path.dirname(os.path.abspath(__file__)))
import props as P
V = os.path.join(os.path.dirname(os.path.abspath(__file__)), "..")
notes = {"coinswap": '§7 C01/C02/C08/C09 "As built"', "erc20": "design_notes/erc20.md", "erc20e": "design_notes/erc20.md"}
rows = []
for pid in sorted(P.PROPS):
    c = P.PROPS[pid]
    ev = json.load(open(os.path.join(V, "evidence", pid + ".json")))
    mods = ", ".join("`" + m.replace("CantoVerif.", "") + "`" for m in c["modules"])
    n = ev["coverage"].get("obligations", "?")
    note = notes.get(c["suite"], f"design_notes/{c['suite']}.md")
    rows.append(f"| {pid} | `{c['suite']}` | {mods} | {n} | {note} |")
hdr = "| property | suite (harness `-suite`, Lean driver) | Lean modules holding the obligations | obligations | as-built notes |\n|---|---|---|---|---|\n"
p = os.path.join(V, "DESIGN.md")
s = open(p).read()
i = s.index("| property | suite (harness `-suite`, Lean driver)")
j = s.index("**Findings.**", i)
s = s[:i] + hdr + "\n".join(rows) + "\n\n" + s[j:]
open(p, "w").write(s)
print(len(rows), "rows")
