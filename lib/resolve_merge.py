#!/usr/bin/env python3
"""Resolves the routine merge conflicts of suite branches: lean/CantoVerif.lean (union of imports) and lean/Main.lean
(union of imports and of match arms)."""
import re, sys
def union(path, arm=False):
    s = open(path).read()
    if '<<<<<<<' not in s: return
    out=[]; seen=set()
    for l in s.split('\n'):
        if l.startswith(('<<<<<<<','=======','>>>>>>>')): continue
        key=l.strip()
        if (l.startswith('import ') or (arm and re.match(r'\s*\| \["', l))):
            if key in seen: continue
            seen.add(key)
        out.append(l)
    open(path,'w').write('\n'.join(out))
union('lean/CantoVerif.lean'); union('lean/Main.lean', arm=True)
