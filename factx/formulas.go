package main

import (
	"fmt"
	"go/ast"
	"go/parser"
	"go/token"
	"path/filepath"
	"strings"
)

type param struct {
	goName string // Go identifier or flattened field path (msg_ExactStandardAmt)
	sort   sort_
}

// formula target: translate the assignments to `results` (in order of appearance) found in function fn
// (optionally restricted to the innermost block that assigns `anchor`) into one Lean definition.
type formula struct {
	leanName string
	file     string // relative to repo
	fn       string
	anchor   string   // "" = whole function body
	params   []param  // Lean parameters, in order
	locals   []string // Go locals to translate, in source order; "return" = the return expression
	results  []string // which locals form the result tuple ("return" allowed)
	argOf    string   // if set: translate argument #argIdx of the call to argOf that is assigned to locals[0]
	argIdx   int
}

func parseFile(repo, rel string) (*ast.File, *token.FileSet, error) {
	fset := token.NewFileSet()
	f, err := parser.ParseFile(fset, filepath.Join(repo, rel), nil, 0)
	return f, fset, err
}

func findFunc(f *ast.File, name string) *ast.FuncDecl {
	for _, d := range f.Decls {
		if fn, ok := d.(*ast.FuncDecl); ok && fn.Name.Name == name {
			return fn
		}
	}
	return nil
}

// innermost block containing an assignment to name
func blockAssigning(body *ast.BlockStmt, name string) *ast.BlockStmt {
	var best *ast.BlockStmt
	var walk func(b *ast.BlockStmt)
	walk = func(b *ast.BlockStmt) {
		for _, st := range b.List {
			if as, ok := st.(*ast.AssignStmt); ok && len(as.Lhs) == 1 {
				if id, ok := as.Lhs[0].(*ast.Ident); ok && id.Name == name {
					best = b
				}
			}
		}
		ast.Inspect(b, func(n ast.Node) bool {
			if bb, ok := n.(*ast.BlockStmt); ok && bb != b {
				walk(bb)
				return false
			}
			return true
		})
	}
	walk(body)
	return best
}

func (fm formula) translate(repo string) (string, error) {
	f, _, err := parseFile(repo, fm.file)
	if err != nil {
		return "", err
	}
	fn := findFunc(f, fm.fn)
	if fn == nil {
		return "", fmt.Errorf("function %s not found in %s", fm.fn, fm.file)
	}
	block := fn.Body
	if fm.anchor != "" {
		block = blockAssigning(fn.Body, fm.anchor)
		if block == nil {
			return "", fmt.Errorf("no assignment to %s in %s", fm.anchor, fm.fn)
		}
	}
	t := newTr()
	var ps []string
	for _, p := range fm.params {
		t.sorts[p.goName] = p.sort
		ps = append(ps, p.goName)
	}
	alias := map[string]string{}
	want := map[string]bool{}
	for _, l := range fm.locals {
		want[l] = true
	}
	rename := func(old, new string) {
		// rename the binder introduced by the last bind
		if len(t.binds) > 0 {
			last := t.binds[len(t.binds)-1]
			suffix := "fun " + old + " =>"
			if strings.HasSuffix(last, suffix) {
				t.binds[len(t.binds)-1] = strings.TrimSuffix(last, suffix) + "fun " + new + " =>"
				return
			}
		}
		alias[new] = old
	}
	retAtom := ""
	for _, st := range block.List {
		switch s := st.(type) {
		case *ast.AssignStmt:
			if len(s.Lhs) != 1 || len(s.Rhs) != 1 {
				continue
			}
			id, ok := s.Lhs[0].(*ast.Ident)
			if !ok || !want[id.Name] {
				continue
			}
			rhs := s.Rhs[0]
			if fm.argOf != "" {
				c, ok := rhs.(*ast.CallExpr)
				if !ok || len(c.Args) <= fm.argIdx {
					return "", fmt.Errorf("%s: expected a call with %d arguments", fm.leanName, fm.argIdx+1)
				}
				rhs = c.Args[fm.argIdx]
			}
			a, srt := t.atomAliased(rhs, alias)
			t.sorts[id.Name] = srt
			if a != id.Name {
				rename(a, id.Name)
			}
		case *ast.IfStmt:
			// the clamp idiom `if x.GTE(y) { x = y }`  ==>  x := if y ≤ x then y else x   (pure, no bind)
			if c, ok := s.Cond.(*ast.CallExpr); ok && s.Else == nil && s.Init == nil && len(s.Body.List) == 1 {
				sel, ok1 := c.Fun.(*ast.SelectorExpr)
				as, ok2 := s.Body.List[0].(*ast.AssignStmt)
				if ok1 && ok2 && sel.Sel.Name == "GTE" && len(c.Args) == 1 && len(as.Lhs) == 1 && len(as.Rhs) == 1 {
					x, okx := sel.X.(*ast.Ident)
					lhs, okl := as.Lhs[0].(*ast.Ident)
					if okx && okl && x.Name == lhs.Name && show2(c.Args[0]) == show2(as.Rhs[0]) {
						xa, srt := t.atomAliased(x, alias)
						ya, _ := t.atomAliased(c.Args[0], alias)
						alias[x.Name] = fmt.Sprintf("(if %s ≤ %s then %s else %s)", ya, xa, ya, xa)
						t.sorts[alias[x.Name]] = srt
						continue
					}
				}
			}
		case *ast.ReturnStmt:
			if want["return"] && len(s.Results) >= 1 {
				res := s.Results[0]
				if fm.argOf != "" {
					if c, ok := res.(*ast.CallExpr); ok && len(c.Args) > fm.argIdx {
						res = c.Args[fm.argIdx]
					}
				}
				a, _ := t.atomAliased(res, alias)
				retAtom = a
			}
		}
	}
	var res []string
	for _, r := range fm.results {
		if r == "return" {
			res = append(res, retAtom)
		} else if a, ok := alias[r]; ok {
			res = append(res, a)
		} else {
			res = append(res, r)
		}
	}
	for _, r := range res {
		if r == "" {
			return "", fmt.Errorf("%s: a result was not found in %s", fm.leanName, fm.fn)
		}
	}
	retTy := "Nat"
	result := res[0]
	if len(res) > 1 {
		retTy = "(" + strings.Repeat("Nat × ", len(res)-1) + "Nat)"
		result = "(" + strings.Join(res, ", ") + ")"
	}
	var sb strings.Builder
	fmt.Fprintf(&sb, "/-- regenerated from `%s`, function `%s` -/\n", fm.file, fm.fn)
	fmt.Fprintf(&sb, "def %s (%s : Nat) : R %s :=\n", fm.leanName, strings.Join(ps, " "), retTy)
	// if the single result is the binder of the last bind, end with that term instead of `.ok`
	if len(res) == 1 && len(t.binds) > 0 && strings.HasSuffix(t.binds[len(t.binds)-1], "fun "+result+" =>") {
		for _, b := range t.binds[:len(t.binds)-1] {
			sb.WriteString("  " + b + "\n")
		}
		last := t.binds[len(t.binds)-1]
		sb.WriteString("  " + strings.TrimSuffix(last, " >>= fun "+result+" =>") + "\n")
	} else {
		sb.WriteString(t.render(result) + "\n")
	}
	return sb.String(), nil
}

func show2(e ast.Expr) string {
	switch x := e.(type) {
	case *ast.Ident:
		return x.Name
	case *ast.SelectorExpr:
		return flatten(x)
	}
	return fmt.Sprintf("%p", e)
}

// atomAliased substitutes aliases (pure terms bound to Go locals) for identifiers
func (t *tr) atomAliased(e ast.Expr, alias map[string]string) (string, sort_) {
	// rewrite identifiers that are aliases before translating
	e2 := substitute(e, alias)
	return t.atom(e2)
}

func substitute(e ast.Expr, alias map[string]string) ast.Expr {
	switch x := e.(type) {
	case *ast.Ident:
		if a, ok := alias[x.Name]; ok {
			return &ast.Ident{Name: a}
		}
		return x
	case *ast.ParenExpr:
		return &ast.ParenExpr{X: substitute(x.X, alias)}
	case *ast.SelectorExpr:
		return &ast.SelectorExpr{X: substitute(x.X, alias), Sel: x.Sel}
	case *ast.CallExpr:
		args := make([]ast.Expr, len(x.Args))
		for i, a := range x.Args {
			args[i] = substitute(a, alias)
		}
		return &ast.CallExpr{Fun: substitute(x.Fun, alias), Args: args}
	}
	return e
}

const genHeader = `import CantoVerif.Base.Core
import CantoVerif.Base.Dec
/-! GENERATED by factx from the repository's current sources on every check run. Do not edit. -/
set_option linter.unusedVariables false
namespace CV.Gen
/-- marker for syntax the translator does not support: it has the wrong type on purpose -/
structure Unsupported where
  what : String
`

func formulaExtractor(name, leanNS string, fms []formula) extractor {
	return extractor{name: name, run: func(repo string) (map[string]string, error) {
		var sb strings.Builder
		sb.WriteString(strings.Replace(genHeader, "namespace CV.Gen", "namespace CV.Gen."+leanNS, 1))
		for _, fm := range fms {
			s, err := fm.translate(repo)
			if err != nil {
				// keep going: emit a definition that cannot elaborate, so the bridge breaks visibly
				fmt.Fprintf(&sb, "/-- factx could not translate: %s -/\ndef %s : Nat := (Unsupported.mk %q)\n\n", err.Error(), fm.leanName, err.Error())
				continue
			}
			sb.WriteString(s + "\n")
		}
		sb.WriteString("end CV.Gen." + leanNS + "\n")
		return map[string]string{leanNS + "Formulas.lean": sb.String()}, nil
	}}
}
