module factx

go 1.21
