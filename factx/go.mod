module verif/factx

go 1.21
