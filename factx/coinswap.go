package main

func init() {
	I := func(n string) param { return param{n, sInt} }
	D := func(n string) param { return param{n, sDec} }
	extractors = append(extractors, formulaExtractor("coinswap-formulas", "Coinswap", []formula{
		{leanName: "inputPrice", file: "x/coinswap/keeper/swap.go", fn: "GetInputPrice",
			params: []param{I("inputAmt"), I("inputReserve"), I("outputReserve"), D("fee")},
			locals: []string{"deltaFee", "inputAmtWithFee", "numerator", "denominator", "return"}, results: []string{"return"}},
		{leanName: "outputPrice", file: "x/coinswap/keeper/swap.go", fn: "GetOutputPrice",
			params: []param{I("outputAmt"), I("inputReserve"), I("outputReserve"), D("fee")},
			locals: []string{"deltaFee", "numerator", "denominator", "return"}, results: []string{"return"}},
		{leanName: "addLiveAmounts", file: "x/coinswap/keeper/keeper.go", fn: "AddLiquidity", anchor: "maxStandardInputAmt",
			params: []param{I("msg_ExactStandardAmt"), I("params_MaxStandardCoinPerPool"), I("standardReserveAmt"), I("tokenReserveAmt"), I("liquidity")},
			locals:  []string{"maxStandardInputAmt", "mintLiquidityAmt", "depositAmt"},
			results: []string{"maxStandardInputAmt", "mintLiquidityAmt", "depositAmt"}},
		{leanName: "removeAmounts", file: "x/coinswap/keeper/keeper.go", fn: "RemoveLiquidity",
			params:  []param{I("msg_WithdrawLiquidity_Amount"), I("standardReserveAmt"), I("tokenReserveAmt"), I("liquidityReserve")},
			locals:  []string{"standardWithdrawAmt", "tokenWithdrawnAmt"},
			results: []string{"standardWithdrawAmt", "tokenWithdrawnAmt"}},
		{leanName: "poolTax", file: "x/coinswap/keeper/fees.go", fn: "DeductPoolCreationFee",
			params: []param{I("poolCreationFee_Amount"), D("params_TaxRate")},
			locals: []string{"communityTaxCoin"}, results: []string{"communityTaxCoin"}, argOf: "sdk.NewCoin", argIdx: 1},
	}))
}

func init() {
	k := []string{"k.bk.", "k.ak.", "k.", "m.Keeper.", "types.", "sdk.AccAddressFromBech32", "sdk.NewCoins", "sdk.NewCoin"}
	T := func(lean, file, fn, recv string) factTarget {
		return factTarget{leanName: lean, file: "x/coinswap/" + file, fn: fn, recv: recv, callRoots: k}
	}
	extractors = append(extractors, factsExtractor("coinswap-facts", "Coinswap", []factTarget{
		T("msgAddLiquidity", "keeper/msg_server.go", "AddLiquidity", "msgServer"),
		T("msgRemoveLiquidity", "keeper/msg_server.go", "RemoveLiquidity", "msgServer"),
		T("msgSwapCoin", "keeper/msg_server.go", "SwapCoin", "msgServer"),
		T("swap", "keeper/keeper.go", "Swap", "Keeper"),
		T("addLiquidity", "keeper/keeper.go", "AddLiquidity", "Keeper"),
		T("addLiquidityInner", "keeper/keeper.go", "addLiquidity", "Keeper"),
		T("removeLiquidity", "keeper/keeper.go", "RemoveLiquidity", "Keeper"),
		T("removeLiquidityInner", "keeper/keeper.go", "removeLiquidity", "Keeper"),
		T("swapCoins", "keeper/swap.go", "swapCoins", "Keeper"),
		T("calculateWithExactInput", "keeper/swap.go", "calculateWithExactInput", "Keeper"),
		T("tradeExactInputForOutput", "keeper/swap.go", "TradeExactInputForOutput", "Keeper"),
		T("calculateWithExactOutput", "keeper/swap.go", "calculateWithExactOutput", "Keeper"),
		T("tradeInputForExactOutput", "keeper/swap.go", "TradeInputForExactOutput", "Keeper"),
		T("getMaximumSwapAmount", "keeper/swap.go", "GetMaximumSwapAmount", "Keeper"),
		T("deductPoolCreationFee", "keeper/fees.go", "DeductPoolCreationFee", "Keeper"),
		T("createPool", "keeper/pool.go", "CreatePool", "Keeper"),
		T("getPoolBalances", "keeper/pool.go", "GetPoolBalances", "Keeper"),
		T("getLptDenomFromDenoms", "keeper/pool.go", "GetLptDenomFromDenoms", "Keeper"),
		T("validateInput", "types/validation.go", "ValidateInput", ""),
		T("validateOutput", "types/validation.go", "ValidateOutput", ""),
		T("validateDeadline", "types/validation.go", "ValidateDeadline", ""),
		T("validateMaxToken", "types/validation.go", "ValidateMaxToken", ""),
		T("validateExactStandardAmt", "types/validation.go", "ValidateExactStandardAmt", ""),
		T("validateMinLiquidity", "types/validation.go", "ValidateMinLiquidity", ""),
		T("validateMinToken", "types/validation.go", "ValidateMinToken", ""),
		T("validateWithdrawLiquidity", "types/validation.go", "ValidateWithdrawLiquidity", ""),
		T("validateMinStandardAmt", "types/validation.go", "ValidateMinStandardAmt", ""),
		T("validateLptDenom", "types/validation.go", "ValidateLptDenom", ""),
		T("parseLptDenom", "types/utils.go", "ParseLptDenom", ""),
		T("getReservePoolAddr", "types/utils.go", "GetReservePoolAddr", ""),
		T("getLptDenom", "types/utils.go", "GetLptDenom", ""),
	}))
}
