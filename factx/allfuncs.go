package main

// Whole-file fact targets: every function of the listed files of a module becomes a fact target
// (guards / calls / statements, alpha-normalised). Used as *search triggers* for the suites whose tie to the code is the
// correspondence run: when the text of a mirrored function changes, the check widens its search.

import (
	"fmt"
	"go/ast"
	"strings"
	"unicode"
)

func leanIdent(s string) string {
	var b strings.Builder
	for _, r := range s {
		if unicode.IsLetter(r) || unicode.IsDigit(r) {
			b.WriteRune(r)
		} else {
			b.WriteRune('_')
		}
	}
	return b.String()
}

func fileFactsExtractor(name, leanNS string, files []string, roots []string) extractor {
	return extractor{name: name, run: func(repo string) (map[string]string, error) {
		var targets []factTarget
		for _, file := range files {
			f, _, err := parseFile(repo, file)
			if err != nil {
				// a missing file is itself a fact
				targets = append(targets, factTarget{leanName: leanIdent(file) + "_MISSING", file: file, fn: "?", callRoots: roots})
				continue
			}
			base := strings.TrimSuffix(file, ".go")
			seen := map[string]int{}
			for _, d := range f.Decls {
				fn, ok := d.(*ast.FuncDecl)
				if !ok || fn.Body == nil {
					continue
				}
				ln := leanIdent(base) + "_" + leanIdent(recvName(fn)) + "_" + fn.Name.Name
				seen[ln]++
				if seen[ln] > 1 {
					ln = fmt.Sprintf("%s_%d", ln, seen[ln])
				}
				targets = append(targets, factTarget{leanName: ln, file: file, fn: fn.Name.Name, recv: recvName(fn), callRoots: roots})
			}
		}
		return factsExtractor(name, leanNS, targets).run(repo)
	}}
}

func init() {
	roots := []string{"k.", "h.k.", "h.", "m.", "ms.", "im.", "types.", "sdk.", "sdkmath.", "ibc.", "common.", "errorsmod.", "ctx."}
	add := func(name, ns string, files ...string) {
		extractors = append(extractors, fileFactsExtractor(name, ns, files, roots))
	}
	add("epochs-facts", "Epochs",
		"x/epochs/keeper/abci.go", "x/epochs/keeper/epoch_infos.go", "x/epochs/keeper/hooks.go", "x/epochs/types/epoch_info.go",
		"x/inflation/keeper/hooks.go", "x/inflation/keeper/inflation.go", "x/inflation/keeper/periods.go", "x/inflation/keeper/epoch_info.go",
		"x/inflation/keeper/msg_server.go", "x/inflation/types/inflation_calculation.go", "x/inflation/types/params.go")
	add("csr-facts", "Csr",
		"x/csr/keeper/evm_hooks.go", "x/csr/keeper/event_handler.go", "x/csr/keeper/csr.go", "x/csr/keeper/evm.go",
		"x/csr/keeper/msg_server.go", "x/csr/types/params.go", "x/csr/types/csr.go")
	add("onboarding-facts", "Onboarding",
		"x/onboarding/keeper/ibc_callbacks.go", "x/onboarding/ibc_middleware.go", "x/onboarding/keeper/msg_server.go",
		"x/onboarding/types/params.go", "ibc/utils.go", "types/utils.go")
	add("govshuttle-facts", "Govshuttle",
		"x/govshuttle/keeper/proposals.go", "x/govshuttle/keeper/msg_server.go", "x/govshuttle/types/proposal.go", "x/govshuttle/types/types.go", "x/govshuttle/keeper/keeper.go")
	add("erc20-facts", "Erc20",
		"x/erc20/keeper/msg_server.go", "x/erc20/keeper/evm.go", "x/erc20/keeper/evm_hooks.go", "x/erc20/keeper/mint.go",
		"x/erc20/keeper/proposals.go", "x/erc20/keeper/token_pairs.go", "x/erc20/types/token_pair.go", "x/erc20/types/params.go",
		"x/erc20/types/msg.go")
	add("params-facts", "Params",
		"x/coinswap/keeper/msg_server.go", "x/coinswap/types/params.go", "x/erc20/keeper/msg_server.go", "x/erc20/types/params.go",
		"x/inflation/keeper/msg_server.go", "x/inflation/types/params.go", "x/csr/keeper/msg_server.go", "x/csr/types/params.go",
		"x/onboarding/keeper/msg_server.go", "x/onboarding/types/params.go", "x/govshuttle/keeper/msg_server.go")
	add("ante-facts", "Ante", "app/ante/ante.go", "app/ante/handler_options.go")
	add("genesis-facts", "Genesis",
		"x/coinswap/keeper/genesis.go", "x/coinswap/types/genesis.go", "x/erc20/genesis.go", "x/erc20/types/genesis.go",
		"x/csr/genesis.go", "x/csr/types/genesis.go", "x/govshuttle/genesis.go", "x/govshuttle/types/genesis.go",
		"x/onboarding/genesis.go", "x/onboarding/types/genesis.go", "x/epochs/genesis.go", "x/epochs/types/genesis.go",
		"x/inflation/genesis.go", "x/inflation/types/genesis.go", "app/export.go")
	add("signers-facts", "Signers", "x/coinswap/types/msgs.go", "x/erc20/types/msg.go", "x/coinswap/keeper/swap.go", "x/erc20/keeper/msg_server.go")
}
