package main

// Extractor `nondet` (C06): the list of nondeterminism sources in consensus code.
//
// Scope: non-test, non-generated Go files of the packages under <repo>/{x,app,ibc,types}, excluding directories named
// client, simulation, testutil, testing, cli (they do not run inside block execution).
// Items:
//   rangeMap        `range` over an expression of map type
//   wallClock       time.Now / time.Since / time.Until
//   random          any use of math/rand, math/rand/v2 or crypto/rand
//   getenv          os.Getenv / os.LookupEnv / os.Environ
//   goStmt          a `go` statement
//   nodeConfig      a read of node-local configuration inside consensus code (telemetry.IsTelemetryEnabled)
//   syncUse         any use of package sync or sync/atomic inside a function (once-flags, atomics, mutexes: process memory)
//   pkgVarWrite     assignment to (or through) a package-level variable outside `init`
//   recvFieldWrite  a method assigning a field of its pointer receiver, or writing through a field (map / slice / pointer
//                   element) of any receiver, whatever the receiver type (keepers, hooks, modules, decorators: memory that
//                   survives between blocks but not a restart)
// Types come from go/types run over the repository's own packages (imports of other modules are stubbed: a map whose type
// is declared outside the repository and never named inside it is not seen — stated in the trusted base).
// Every item carries the file, the enclosing function and a shape hash of the statement (not a line number), so that moving
// code does not change the list and changing the statement does.

import (
	"bytes"
	"crypto/sha256"
	"encoding/hex"
	"fmt"
	"go/ast"
	"go/parser"
	"go/printer"
	"go/token"
	"go/types"
	"os"
	"path/filepath"
	"sort"
	"strings"
)

func init() { extractors = append(extractors, extractor{"nondet", nondetExtractor}) }

type ndItem struct{ kind, file, fn, detail, hash string }

type ndPkg struct {
	path  string // import path
	dir   string
	files []*ast.File
	names []string // file names, parallel to files
	pkg   *types.Package
	info  *types.Info
	done  bool
}

type ndWorld struct {
	repo   string
	module string
	fset   *token.FileSet
	pkgs   map[string]*ndPkg // import path -> package
	stubs  map[string]*types.Package
}

func (w *ndWorld) Import(path string) (*types.Package, error) {
	if p, ok := w.pkgs[path]; ok {
		w.check(p)
		return p.pkg, nil
	}
	if strings.HasPrefix(path, w.module+"/") {
		dir := filepath.Join(w.repo, strings.TrimPrefix(path, w.module+"/"))
		if p := w.load(path, dir); p != nil {
			w.check(p)
			return p.pkg, nil
		}
	}
	if s, ok := w.stubs[path]; ok {
		return s, nil
	}
	name := path[strings.LastIndex(path, "/")+1:]
	if strings.HasPrefix(name, "v") && len(name) <= 3 && strings.Count(path, "/") > 0 { // .../v8 -> previous element
		rest := path[:strings.LastIndex(path, "/")]
		name = rest[strings.LastIndex(rest, "/")+1:]
	}
	name = strings.ReplaceAll(name, "-", "_")
	s := types.NewPackage(path, name)
	s.MarkComplete()
	w.stubs[path] = s
	return s, nil
}

func isGenerated(f *ast.File) bool {
	for _, cg := range f.Comments {
		if cg.Pos() > f.Package {
			break
		}
		if strings.Contains(cg.Text(), "Code generated") || strings.Contains(cg.Text(), "DO NOT EDIT") {
			return true
		}
	}
	return false
}

func (w *ndWorld) load(path, dir string) *ndPkg {
	if p, ok := w.pkgs[path]; ok {
		return p
	}
	ents, err := os.ReadDir(dir)
	if err != nil {
		return nil
	}
	p := &ndPkg{path: path, dir: dir}
	pkgName := ""
	for _, e := range ents {
		n := e.Name()
		if e.IsDir() || !strings.HasSuffix(n, ".go") || strings.HasSuffix(n, "_test.go") {
			continue
		}
		f, err := parser.ParseFile(w.fset, filepath.Join(dir, n), nil, parser.ParseComments)
		if err != nil {
			continue
		}
		if strings.HasSuffix(f.Name.Name, "_test") {
			continue
		}
		if pkgName == "" {
			pkgName = f.Name.Name
		} else if f.Name.Name != pkgName {
			continue
		}
		p.files = append(p.files, f)
		p.names = append(p.names, n)
	}
	if len(p.files) == 0 {
		return nil
	}
	w.pkgs[path] = p
	return p
}

func (w *ndWorld) check(p *ndPkg) {
	if p.done {
		return
	}
	p.done = true
	p.info = &types.Info{Types: map[ast.Expr]types.TypeAndValue{}, Uses: map[*ast.Ident]types.Object{}, Defs: map[*ast.Ident]types.Object{},
		Selections: map[*ast.SelectorExpr]*types.Selection{}}
	conf := types.Config{Importer: w, Error: func(error) {}, FakeImportC: true, DisableUnusedImportCheck: true}
	pkg, _ := conf.Check(p.path, w.fset, p.files, p.info)
	p.pkg = pkg
}

func shape(fset *token.FileSet, n ast.Node) string {
	var b bytes.Buffer
	printer.Fprint(&b, fset, n)
	s := strings.Join(strings.Fields(b.String()), " ")
	h := sha256.Sum256([]byte(s))
	return hex.EncodeToString(h[:])[:10]
}

func exprText(fset *token.FileSet, n ast.Node) string {
	var b bytes.Buffer
	printer.Fprint(&b, fset, n)
	s := strings.Join(strings.Fields(b.String()), " ")
	if len(s) > 70 {
		s = s[:70] + "…"
	}
	return s
}

func funcName(fd *ast.FuncDecl) string {
	if fd.Recv != nil && len(fd.Recv.List) > 0 {
		var b bytes.Buffer
		printer.Fprint(&b, token.NewFileSet(), fd.Recv.List[0].Type)
		return "(" + b.String() + ")." + fd.Name.Name
	}
	return fd.Name.Name
}

// rootIdent strips selectors, indexes, stars and parentheses: the variable an assignment ultimately writes to / through.
func rootIdent(e ast.Expr) (id *ast.Ident, through bool, viaPkg *ast.SelectorExpr) {
	for {
		switch x := e.(type) {
		case *ast.Ident:
			return x, through, nil
		case *ast.ParenExpr:
			e = x.X
		case *ast.StarExpr:
			through = true
			e = x.X
		case *ast.IndexExpr:
			through = true
			e = x.X
		case *ast.SelectorExpr:
			if id, ok := x.X.(*ast.Ident); ok {
				return id, through, x
			}
			e = x.X
		default:
			return nil, through, nil
		}
	}
}

func nondetExtractor(repo string) (map[string]string, error) {
	w := &ndWorld{repo: repo, fset: token.NewFileSet(), pkgs: map[string]*ndPkg{}, stubs: map[string]*types.Package{}}
	gomod, err := os.ReadFile(filepath.Join(repo, "go.mod"))
	if err != nil {
		return nil, err
	}
	for _, l := range strings.Split(string(gomod), "\n") {
		if strings.HasPrefix(l, "module ") {
			w.module = strings.TrimSpace(strings.TrimPrefix(l, "module "))
		}
	}
	if w.module == "" {
		return nil, fmt.Errorf("no module line in go.mod")
	}
	skipDir := map[string]bool{"client": true, "simulation": true, "testutil": true, "testing": true, "cli": true, "spec": true, "migrations": false}
	var scoped []*ndPkg
	for _, top := range []string{"x", "app", "ibc", "types"} {
		root := filepath.Join(repo, top)
		filepath.Walk(root, func(p string, fi os.FileInfo, err error) error {
			if err != nil || !fi.IsDir() {
				return nil
			}
			if skipDir[fi.Name()] {
				return filepath.SkipDir
			}
			rel, _ := filepath.Rel(repo, p)
			if pk := w.load(w.module+"/"+filepath.ToSlash(rel), p); pk != nil {
				scoped = append(scoped, pk)
			}
			return nil
		})
	}
	var items []ndItem
	for _, p := range scoped {
		w.check(p)
		for fi, f := range p.files {
			if isGenerated(f) {
				continue
			}
			rel, _ := filepath.Rel(repo, filepath.Join(p.dir, p.names[fi]))
			rel = filepath.ToSlash(rel)
			imports := map[string]string{} // local name -> path
			for _, im := range f.Imports {
				path := strings.Trim(im.Path.Value, `"`)
				name := path[strings.LastIndex(path, "/")+1:]
				if im.Name != nil {
					name = im.Name.Name
				}
				imports[name] = path
			}
			add := func(kind, fn, detail string, n ast.Node) {
				items = append(items, ndItem{kind, rel, fn, detail, shape(w.fset, n)})
			}
			isPkgLevel := func(id *ast.Ident) bool {
				obj := p.info.Uses[id]
				if obj == nil {
					obj = p.info.Defs[id]
				}
				v, ok := obj.(*types.Var)
				return ok && p.pkg != nil && v.Parent() == p.pkg.Scope()
			}
			visit := func(fn string, recv *ast.Ident, recvPtr bool, recvType string, body ast.Node) {
				var stack []ast.Node
				// the statement (or declaration) a call sits in: its text is what gets hashed for wallClock / random / getenv
				enclosing := func() ast.Node {
					for i := len(stack) - 1; i >= 0; i-- {
						switch stack[i].(type) {
						case *ast.BlockStmt:
							continue
						case ast.Stmt, *ast.ValueSpec:
							return stack[i]
						case *ast.FuncType, *ast.FuncLit, *ast.FuncDecl:
							return stack[len(stack)-1] // inside a signature: the expression itself
						}
					}
					return stack[len(stack)-1]
				}
				ast.Inspect(body, func(n ast.Node) bool {
					if n == nil {
						stack = stack[:len(stack)-1]
						return true
					}
					stack = append(stack, n)
					switch x := n.(type) {
					case *ast.RangeStmt:
						if t := p.info.TypeOf(x.X); t != nil {
							if _, ok := t.Underlying().(*types.Map); ok {
								add("rangeMap", fn, exprText(w.fset, x.X), x)
							}
						}
					case *ast.GoStmt:
						add("goStmt", fn, exprText(w.fset, x.Call.Fun), x)
					case *ast.SelectorExpr:
						if id, ok := x.X.(*ast.Ident); ok {
							if _, isPkg := p.info.Uses[id].(*types.PkgName); isPkg {
								path := imports[id.Name]
								switch {
								case path == "time" && (x.Sel.Name == "Now" || x.Sel.Name == "Since" || x.Sel.Name == "Until"):
									add("wallClock", fn, "time."+x.Sel.Name, enclosing())
								case path == "math/rand" || path == "math/rand/v2" || path == "crypto/rand":
									add("random", fn, path+"."+x.Sel.Name, enclosing())
								case path == "os" && (x.Sel.Name == "Getenv" || x.Sel.Name == "LookupEnv" || x.Sel.Name == "Environ"):
									add("getenv", fn, "os."+x.Sel.Name, enclosing())
								case strings.HasSuffix(path, "/telemetry") && x.Sel.Name == "IsTelemetryEnabled":
									add("nodeConfig", fn, path+"."+x.Sel.Name, enclosing())
								case path == "sync" || path == "sync/atomic":
									add("syncUse", fn, path+"."+x.Sel.Name, enclosing())
								}
							}
						}
					case *ast.AssignStmt:
						if x.Tok == token.DEFINE {
							return true
						}
						for _, lhs := range x.Lhs {
							id, through, sel := rootIdent(lhs)
							if id == nil || id.Name == "_" {
								continue
							}
							if _, isPkg := p.info.Uses[id].(*types.PkgName); isPkg && sel != nil {
								if fn != "init" {
									add("pkgVarWrite", fn, exprText(w.fset, lhs), x)
								}
								continue
							}
							if isPkgLevel(id) && fn != "init" {
								add("pkgVarWrite", fn, exprText(w.fset, lhs), x)
								continue
							}
							if recv != nil && id.Name == recv.Name && p.info.Uses[id] == p.info.Defs[recv] {
								if _, isSel := lhs.(*ast.Ident); !isSel && (recvPtr || through) {
									add("recvFieldWrite", fn, exprText(w.fset, lhs), x)
								}
							}
						}
					case *ast.IncDecStmt:
						if id, _, _ := rootIdent(x.X); id != nil && isPkgLevel(id) && fn != "init" {
							add("pkgVarWrite", fn, exprText(w.fset, x.X), x)
						}
					}
					return true
				})
			}
			for _, d := range f.Decls {
				switch x := d.(type) {
				case *ast.FuncDecl:
					if x.Body == nil {
						continue
					}
					var recv *ast.Ident
					recvPtr := false
					recvType := ""
					if x.Recv != nil && len(x.Recv.List) > 0 {
						if len(x.Recv.List[0].Names) > 0 {
							recv = x.Recv.List[0].Names[0]
						}
						_, recvPtr = x.Recv.List[0].Type.(*ast.StarExpr)
						recvType = exprText(w.fset, x.Recv.List[0].Type)
					}
					visit(funcName(x), recv, recvPtr, recvType, x.Body)
				case *ast.GenDecl:
					if x.Tok == token.VAR {
						visit("<package-level initialiser>", nil, false, "", x)
					}
				}
			}
		}
	}
	sort.Slice(items, func(i, j int) bool {
		a, b := items[i], items[j]
		if a.file != b.file {
			return a.file < b.file
		}
		if a.fn != b.fn {
			return a.fn < b.fn
		}
		if a.kind != b.kind {
			return a.kind < b.kind
		}
		if a.detail != b.detail {
			return a.detail < b.detail
		}
		return a.hash < b.hash
	})
	// identical statements in one function collapse to one item
	var uniq []ndItem
	for i, it := range items {
		if i == 0 || it != items[i-1] {
			uniq = append(uniq, it)
		}
	}
	q := func(s string) string { return `"` + strings.NewReplacer(`\`, `\\`, `"`, `\"`).Replace(s) + `"` }
	var b strings.Builder
	b.WriteString("/-! GENERATED by factx (extractor `nondet`) from the repository's working tree on every check run — do not edit.\n")
	b.WriteString("Nondeterminism sources in consensus code: kind, file, enclosing function, detail, shape hash of the statement. -/\n")
	b.WriteString("namespace CV.Gen\n\n")
	b.WriteString("structure NondetItem where\n  kind : String\n  file : String\n  fn : String\n  detail : String\n  hash : String\nderiving DecidableEq, Repr\n\n")
	b.WriteString("def nondet : List NondetItem := [\n")
	for i, it := range uniq {
		sep := ","
		if i == len(uniq)-1 {
			sep = ""
		}
		fmt.Fprintf(&b, "  ⟨%s, %s, %s, %s, %s⟩%s\n", q(it.kind), q(it.file), q(it.fn), q(it.detail), q(it.hash), sep)
	}
	b.WriteString("]\n\n")
	fmt.Fprintf(&b, "def nondetPackagesScanned : Nat := %d\n\nend CV.Gen\n", len(scoped))
	return map[string]string{"Nondet.lean": b.String()}, nil
}
