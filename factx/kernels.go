package main

func init() {
	I := func(n string) param { return param{n, sInt} }
	D := func(n string) param { return param{n, sDec} }
	extractors = append(extractors, formulaExtractor("inflation-formulas", "Inflation", []formula{
		{leanName: "provision", file: "x/inflation/types/inflation_calculation.go", fn: "CalculateEpochMintProvision",
			params: []param{D("params_ExponentialCalculation_A"), D("params_ExponentialCalculation_R"), D("params_ExponentialCalculation_C"),
				D("params_ExponentialCalculation_BondingTarget"), D("params_ExponentialCalculation_MaxVariance"),
				I("period"), I("epochsPerPeriod"), D("bondedRatio")},
			locals: []string{"x", "a", "r", "c", "bTarget", "maxVariance", "decay", "exponentialDecay", "sub", "bondingIncentive",
				"periodProvision", "epochProvision"},
			results: []string{"epochProvision"}},
		{leanName: "stakingShare", file: "x/inflation/keeper/inflation.go", fn: "GetProportions",
			params: []param{I("coin_Amount"), D("distribution")},
			locals: []string{"return"}, results: []string{"return"}, argOf: "sdk.NewCoin", argIdx: 1},
	}))
	extractors = append(extractors, formulaExtractor("csr-formulas", "Csr", []formula{
		{leanName: "csrFee", file: "x/csr/keeper/evm_hooks.go", fn: "PostTxProcessing",
			params: []param{I("fee"), D("params_CsrShares")},
			locals: []string{"csrFee"}, results: []string{"csrFee"}},
	}))
}
