package main

// Expression translator: sdkmath method chains -> Lean terms over CV.SdkInt / CV.Dec in the Except monad.
// Every call becomes one monadic bind, operands evaluated in source order (receiver, then arguments).

import (
	"fmt"
	"go/ast"
	"go/token"
	"strings"
)

type sort_ int

const (
	sInt sort_ = iota
	sDec
	sUnknown
)

type tr struct {
	binds  []string         // "name ← term"
	sorts  map[string]sort_ // local variable sorts
	n      int
	failed []string
}

func newTr() *tr { return &tr{sorts: map[string]sort_{}} }

func (t *tr) fresh() string { t.n++; return fmt.Sprintf("t%d", t.n) }

func (t *tr) unsupported(what string) (string, sort_) {
	t.failed = append(t.failed, what)
	return "(Unsupported.mk " + fmt.Sprintf("%q", what) + ")", sUnknown
}

func (t *tr) bind(name, term string) string {
	t.binds = append(t.binds, fmt.Sprintf("%s >>= fun %s =>", term, name))
	return name
}

// atom returns a Lean atom (identifier or literal) for e, emitting binds for sub-calls.
func (t *tr) atom(e ast.Expr) (string, sort_) {
	switch x := e.(type) {
	case *ast.ParenExpr:
		return t.atom(x.X)
	case *ast.Ident:
		s, ok := t.sorts[x.Name]
		if !ok {
			s = sUnknown
		}
		return x.Name, s
	case *ast.SelectorExpr:
		// named constants of other packages
		if c, ok := knownConstants[flatten2(x)]; ok {
			return c, sInt
		}
		// field paths like params.Fee, msg.ExactStandardAmt: flatten to an identifier
		name := flatten(x)
		s, ok := t.sorts[name]
		if !ok {
			s = sUnknown
		}
		return name, s
	case *ast.BasicLit:
		if x.Kind == token.INT {
			return x.Value, sInt
		}
	case *ast.CallExpr:
		return t.call(x)
	}
	return t.unsupported(fmt.Sprintf("%T", e))
}

func flatten(e ast.Expr) string {
	switch x := e.(type) {
	case *ast.Ident:
		return x.Name
	case *ast.SelectorExpr:
		return flatten(x.X) + "_" + x.Sel.Name
	}
	return "?"
}

func (t *tr) call(c *ast.CallExpr) (string, sort_) {
	sel, ok := c.Fun.(*ast.SelectorExpr)
	if !ok {
		return t.unsupported("call of non-selector")
	}
	// package-level constructors
	if id, ok := sel.X.(*ast.Ident); ok && (id.Name == "sdkmath" || id.Name == "math") {
		switch sel.Sel.Name {
		case "LegacyOneDec":
			return "Dec.one", sDec
		case "LegacyZeroDec":
			return "0", sDec
		case "OneInt":
			return "1", sInt
		case "ZeroInt":
			return "0", sInt
		case "NewIntFromBigInt":
			a, _ := t.atom(c.Args[0])
			return t.bind(t.fresh(), "SdkInt.ofBig "+a), sInt
		case "NewIntWithDecimal":
			// NewIntWithDecimal(n, d) = n * 10^d ; only literal arguments are supported
			n, ok1 := lit(c.Args[0])
			d, ok2 := lit(c.Args[1])
			if ok1 && n == "1" && ok2 && (d == "18" || d == "sdkmath.LegacyPrecision") {
				return "S18", sInt
			}
			return t.unsupported("NewIntWithDecimal with non-literal arguments")
		case "LegacyNewDec":
			a, _ := t.atom(c.Args[0])
			return "(Dec.ofIntN " + a + ")", sDec
		case "LegacyNewDecFromInt":
			a, _ := t.atom(c.Args[0])
			return "(Dec.ofIntN " + a + ")", sDec
		case "MinInt":
			a, _ := t.atom(c.Args[0])
			b, _ := t.atom(c.Args[1])
			return "(min " + a + " " + b + ")", sInt
		case "NewIntFromUint64", "NewInt":
			a, _ := t.atom(c.Args[0])
			return a, sInt
		}
		return t.unsupported("sdkmath." + sel.Sel.Name)
	}
	recv, rs := t.atom(sel.X)
	args := []string{}
	for _, a := range c.Args {
		s, _ := t.atom(a)
		args = append(args, s)
	}
	m := sel.Sel.Name
	switch m {
	case "BigInt":
		// LegacyDec.BigInt() is the scaled integer itself; Int.BigInt() the integer
		return recv, sInt
	case "Mul", "Quo", "Add", "Sub":
		if rs == sDec {
			return t.bind(t.fresh(), fmt.Sprintf("Dec.%s %s %s", strings.ToLower(m), recv, args[0])), sDec
		}
		return t.bind(t.fresh(), fmt.Sprintf("SdkInt.%s %s %s", strings.ToLower(m), recv, args[0])), sInt
	case "AddRaw":
		return t.bind(t.fresh(), fmt.Sprintf("SdkInt.add %s %s", recv, args[0])), sInt
	case "SubRaw":
		return t.bind(t.fresh(), fmt.Sprintf("SdkInt.sub %s %s", recv, args[0])), sInt
	case "MulInt":
		return t.bind(t.fresh(), fmt.Sprintf("Dec.mulInt %s %s", recv, args[0])), sDec
	case "QuoInt":
		return t.bind(t.fresh(), fmt.Sprintf("Dec.quoInt %s %s", recv, args[0])), sDec
	case "TruncateInt":
		return t.bind(t.fresh(), fmt.Sprintf("Dec.truncateInt %s", recv)), sInt
	case "Power":
		return t.bind(t.fresh(), fmt.Sprintf("Dec.power %s %s", recv, args[0])), sDec
	case "ToLegacyDec":
		return "(Dec.ofIntN " + recv + ")", sDec
	}
	return t.unsupported("method " + m)
}

// constants of imported packages the kernels use (value checked by the correspondence run)
var knownConstants = map[string]string{
	"ethermint.PowerReduction": "S18", // 10^18
}

func lit(e ast.Expr) (string, bool) {
	switch x := e.(type) {
	case *ast.BasicLit:
		return x.Value, true
	case *ast.SelectorExpr:
		return flatten2(x), true
	}
	return "", false
}

func flatten2(x *ast.SelectorExpr) string {
	if id, ok := x.X.(*ast.Ident); ok {
		return id.Name + "." + x.Sel.Name
	}
	return "?"
}

// renderBinds: "a >>= fun x =>\n  b >>= fun y =>\n  .ok result"
func (t *tr) render(result string) string {
	var sb strings.Builder
	for _, b := range t.binds {
		sb.WriteString("  " + b + "\n")
	}
	sb.WriteString("  .ok " + result)
	return sb.String()
}
