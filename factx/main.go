// factx — regenerated facts (DESIGN §4, Tie 1): re-reads the repository's working tree on every check run and writes
// Lean list literals into <out>/*.lean (lean/CantoVerif/Gen). Bridge theorems in lean/CantoVerif/Bridge consume them.
//
// usage: factx -repo <repository root> -out <directory>
//
// Each extractor lives in its own file and registers itself:
//     func init() { extractors = append(extractors, extractor{"nondet", nondetExtractor}) }
// An extractor returns the generated files as name -> content. Standard library only.
package main

import (
	"flag"
	"fmt"
	"os"
	"path/filepath"
	"sort"
)

type extractor struct {
	name string
	run  func(repo string) (map[string]string, error)
}

var extractors []extractor

func main() {
	repo := flag.String("repo", "/repo", "repository root")
	out := flag.String("out", "", "output directory for the generated .lean files")
	flag.Parse()
	if *out == "" {
		fmt.Fprintln(os.Stderr, "factx: -out is required")
		os.Exit(2)
	}
	if err := os.MkdirAll(*out, 0o755); err != nil {
		fmt.Fprintln(os.Stderr, "factx:", err)
		os.Exit(2)
	}
	sort.Slice(extractors, func(i, j int) bool { return extractors[i].name < extractors[j].name })
	for _, e := range extractors {
		files, err := e.run(*repo)
		if err != nil {
			fmt.Fprintf(os.Stderr, "factx: extractor %s: %v\n", e.name, err)
			os.Exit(2)
		}
		for name, content := range files {
			if err := os.WriteFile(filepath.Join(*out, name), []byte(content), 0o644); err != nil {
				fmt.Fprintln(os.Stderr, "factx:", err)
				os.Exit(2)
			}
		}
		fmt.Printf("factx: %s: %d file(s)\n", e.name, len(files))
	}
}
