// factx: re-reads /repo's Go sources on every run and emits Lean files (CantoVerif/Gen/*.lean):
// arithmetic kernels as Lean terms and structural facts (guards, bank-call sequences) as Lean list literals.
// It translates expressions only, never control flow; unsupported syntax is emitted as an `Unsupported` marker
// that makes the bridge theorem fail to elaborate (never silently dropped).
package main

import (
	"flag"
	"fmt"
	"os"
	"path/filepath"
	"sort"
)

// an extractor writes zero or more Lean files into out
type extractor struct {
	name string
	run  func(repo string) (map[string]string, error) // file name -> content
}

var extractors []extractor

func main() {
	repo := flag.String("repo", "/repo", "repository root")
	out := flag.String("out", "", "output directory for generated .lean files")
	cand := flag.Bool("candidates", false, "also write *.bridge-candidate.txt files (expectations to review and paste into Bridge/*.lean)")
	flag.Parse()
	if *out == "" {
		fmt.Fprintln(os.Stderr, "factx: -out required")
		os.Exit(2)
	}
	os.MkdirAll(*out, 0o755)
	sort.Slice(extractors, func(i, j int) bool { return extractors[i].name < extractors[j].name })
	for _, e := range extractors {
		files, err := e.run(*repo)
		if err != nil {
			fmt.Fprintf(os.Stderr, "factx: %s: %v\n", e.name, err)
			os.Exit(1)
		}
		for name, content := range files {
			if !*cand && filepath.Ext(name) != ".lean" {
				continue
			}
			if err := os.WriteFile(filepath.Join(*out, name), []byte(content), 0o644); err != nil {
				fmt.Fprintln(os.Stderr, "factx:", err)
				os.Exit(1)
			}
		}
	}
}
