package main

// conds.go: translator for *native* Go expressions — boolean conditions and integer/time arithmetic over
// int64 / uint64 / bool / time.Time / time.Duration — into Lean terms over `Int64` / `UInt64` (wrap-around
// arithmetic, as in Go) / `Bool` / `Int` (nanoseconds).  Used for the decision expressions that the sdkmath
// formula translator (formulas.go) does not see: the start / end conditions of the epochs `BeginBlocker`, the
// two mutators of `EpochInfo`, and the period-boundary test of the inflation hook.  Anything outside the small
// supported grammar yields an `Unsupported` marker, so the bridge theorem fails to elaborate (never silently dropped).

import (
	"bytes"
	"fmt"
	"go/ast"
	"go/printer"
	"go/token"
	"strings"
)

type cparam struct {
	goText string // printed Go expression this parameter stands for, e.g. "epochInfo.StartTime", "sdkCtx.BlockTime()"
	lean   string
	ty     string // Bool | Int | Int64 | UInt64
}

type condSpec struct {
	leanName string
	file, fn string
	params   []cparam
	lets     []string // Go locals, in source order, translated as `let` (their first assignment in the function)
	result   string   // "local:<name>" | "if:<marker>" (condition of the first `if` whose text contains marker) | "assign:<lhs text>" | "incdec:<lhs text>" (x++ / x-- only)
	retTy    string
}

func showN(e ast.Node) string {
	var b bytes.Buffer
	printer.Fprint(&b, token.NewFileSet(), e)
	return b.String()
}

type ctr struct {
	params map[string]string
	locals map[string]bool
}

func (c *ctr) tr(e ast.Expr) (string, error) {
	if p, ok := c.params[showN(e)]; ok {
		return p, nil
	}
	switch x := e.(type) {
	case *ast.Ident:
		if c.locals[x.Name] || x.Name == "true" || x.Name == "false" {
			return x.Name, nil
		}
		return "", fmt.Errorf("free identifier %s", x.Name)
	case *ast.BasicLit:
		if x.Kind == token.INT {
			return x.Value, nil
		}
	case *ast.ParenExpr:
		return c.tr(x.X)
	case *ast.UnaryExpr:
		if x.Op == token.NOT {
			a, err := c.tr(x.X)
			if err != nil {
				return "", err
			}
			return "(!" + a + ")", nil
		}
	case *ast.BinaryExpr:
		a, err := c.tr(x.X)
		if err != nil {
			return "", err
		}
		b, err := c.tr(x.Y)
		if err != nil {
			return "", err
		}
		switch x.Op {
		case token.LAND:
			return "(" + a + " && " + b + ")", nil
		case token.LOR:
			return "(" + a + " || " + b + ")", nil
		case token.ADD, token.SUB, token.MUL:
			return "(" + a + " " + x.Op.String() + " " + b + ")", nil
		case token.GTR, token.LSS:
			return "decide (" + a + " " + x.Op.String() + " " + b + ")", nil
		case token.GEQ:
			return "decide (" + a + " ≥ " + b + ")", nil
		case token.LEQ:
			return "decide (" + a + " ≤ " + b + ")", nil
		case token.EQL:
			return "(" + a + " == " + b + ")", nil
		case token.NEQ:
			return "(" + a + " != " + b + ")", nil
		}
	case *ast.CallExpr:
		if id, ok := x.Fun.(*ast.Ident); ok && len(x.Args) == 1 {
			a, err := c.tr(x.Args[0])
			if err != nil {
				return "", err
			}
			switch id.Name {
			case "int64":
				return "(" + a + ").toInt64", nil
			case "uint64":
				return "(" + a + ").toUInt64", nil
			}
		}
		if sel, ok := x.Fun.(*ast.SelectorExpr); ok && len(x.Args) == 1 {
			a, err := c.tr(sel.X)
			if err != nil {
				return "", err
			}
			b, err := c.tr(x.Args[0])
			if err != nil {
				return "", err
			}
			switch sel.Sel.Name {
			case "After": // time.Time.After
				return "decide (" + b + " < " + a + ")", nil
			case "Before":
				return "decide (" + a + " < " + b + ")", nil
			case "Add": // time.Time.Add(time.Duration)
				return "(" + a + " + " + b + ")", nil
			}
		}
	}
	return "", fmt.Errorf("unsupported expression %s", showN(e))
}

func (s condSpec) translate(repo string) (string, error) {
	f, _, err := parseFile(repo, s.file)
	if err != nil {
		return "", err
	}
	fn := findFunc(f, s.fn)
	if fn == nil {
		return "", fmt.Errorf("function %s not found in %s", s.fn, s.file)
	}
	c := &ctr{params: map[string]string{}, locals: map[string]bool{}}
	var sig []string
	for _, p := range s.params {
		c.params[p.goText] = p.lean
		sig = append(sig, fmt.Sprintf("(%s : %s)", p.lean, p.ty))
	}
	want := map[string]bool{}
	for _, l := range s.lets {
		want[l] = true
	}
	var lets []string
	result := ""
	var firstErr error
	ast.Inspect(fn.Body, func(n ast.Node) bool {
		if firstErr != nil || n == nil {
			return false
		}
		switch st := n.(type) {
		case *ast.AssignStmt:
			if len(st.Lhs) != 1 || len(st.Rhs) != 1 {
				return true
			}
			lhs := showN(st.Lhs[0])
			if id, ok := st.Lhs[0].(*ast.Ident); ok && want[id.Name] && !c.locals[id.Name] {
				t, err := c.tr(st.Rhs[0])
				if err != nil {
					firstErr = err
					return false
				}
				lets = append(lets, fmt.Sprintf("  let %s := %s", id.Name, t))
				c.locals[id.Name] = true
			}
			if s.result == "assign:"+lhs && result == "" {
				t, err := c.tr(st.Rhs[0])
				if err != nil {
					firstErr = err
					return false
				}
				result = t
			}
		case *ast.IncDecStmt:
			if (s.result == "assign:"+showN(st.X) || s.result == "incdec:"+showN(st.X)) && result == "" {
				t, err := c.tr(st.X)
				if err != nil {
					firstErr = err
					return false
				}
				op := "+"
				if st.Tok == token.DEC {
					op = "-"
				}
				result = "(" + t + " " + op + " 1)"
			}
		case *ast.IfStmt:
			if strings.HasPrefix(s.result, "if:") && result == "" && strings.Contains(showN(st.Cond), strings.TrimPrefix(s.result, "if:")) {
				t, err := c.tr(st.Cond)
				if err != nil {
					firstErr = err
					return false
				}
				result = t
			}
		}
		return true
	})
	if firstErr != nil {
		return "", firstErr
	}
	if strings.HasPrefix(s.result, "local:") {
		name := strings.TrimPrefix(s.result, "local:")
		if !c.locals[name] {
			return "", fmt.Errorf("local %s not assigned in %s", name, s.fn)
		}
		result = name
	}
	if result == "" {
		return "", fmt.Errorf("%s: result %s not found in %s", s.leanName, s.result, s.fn)
	}
	var sb strings.Builder
	fmt.Fprintf(&sb, "/-- regenerated from `%s`, function `%s` (%s) -/\n", s.file, s.fn, s.result)
	fmt.Fprintf(&sb, "def %s %s : %s :=\n", s.leanName, strings.Join(sig, " "), s.retTy)
	for _, l := range lets {
		sb.WriteString(l + "\n")
	}
	sb.WriteString("  " + result + "\n")
	return sb.String(), nil
}

func condExtractor(name, leanNS string, specs []condSpec) extractor {
	return extractor{name: name, run: func(repo string) (map[string]string, error) {
		var sb strings.Builder
		sb.WriteString("/-! GENERATED by factx (conds.go) from the repository's current sources on every check run. Do not edit. -/\n")
		sb.WriteString("set_option linter.unusedVariables false\nnamespace CV.Gen." + leanNS + "\n")
		sb.WriteString("/-- marker for syntax the translator does not support: it has the wrong type on purpose -/\nstructure Unsupported where\n  what : String\n\n")
		for _, s := range specs {
			t, err := s.translate(repo)
			if err != nil {
				fmt.Fprintf(&sb, "/-- factx could not translate: %s -/\ndef %s : Bool := (Unsupported.mk %q)\n\n", err.Error(), s.leanName, err.Error())
				continue
			}
			sb.WriteString(t + "\n")
		}
		sb.WriteString("end CV.Gen." + leanNS + "\n")
		return map[string]string{leanNS + ".lean": sb.String()}, nil
	}}
}

func init() {
	epochParams := []cparam{
		{"epochInfo.EpochCountingStarted", "started", "Bool"},
		{"epochInfo.StartTime", "startTime", "Int"},
		{"epochInfo.CurrentEpochStartTime", "curStart", "Int"},
		{"epochInfo.Duration", "dur", "Int"},
		{"sdkCtx.BlockTime()", "blockTime", "Int"},
	}
	eiParams := []cparam{
		{"ei.StartTime", "startTime", "Int"},
		{"ei.CurrentEpochStartTime", "curStart", "Int"},
		{"ei.Duration", "dur", "Int"},
		{"ei.CurrentEpoch", "cur", "Int"},
	}
	extractors = append(extractors, condExtractor("epochs-conds", "EpochsConds", []condSpec{
		{leanName: "shouldInitialEpochStart", file: "x/epochs/keeper/abci.go", fn: "BeginBlocker", params: epochParams,
			lets: []string{"shouldInitialEpochStart"}, result: "local:shouldInitialEpochStart", retTy: "Bool"},
		{leanName: "shouldEpochEnd", file: "x/epochs/keeper/abci.go", fn: "BeginBlocker", params: epochParams,
			lets: []string{"shouldInitialEpochStart", "epochEndTime", "shouldEpochEnd"}, result: "local:shouldEpochEnd", retTy: "Bool"},
		{leanName: "startStarted", file: "x/epochs/types/epoch_info.go", fn: "StartInitialEpoch", params: eiParams,
			result: "assign:ei.EpochCountingStarted", retTy: "Bool"},
		{leanName: "startCur", file: "x/epochs/types/epoch_info.go", fn: "StartInitialEpoch", params: eiParams,
			result: "assign:ei.CurrentEpoch", retTy: "Int"},
		{leanName: "startCurStart", file: "x/epochs/types/epoch_info.go", fn: "StartInitialEpoch", params: eiParams,
			result: "assign:ei.CurrentEpochStartTime", retTy: "Int"},
		{leanName: "endCur", file: "x/epochs/types/epoch_info.go", fn: "EndEpoch", params: eiParams,
			result: "assign:ei.CurrentEpoch", retTy: "Int"},
		{leanName: "endCurStart", file: "x/epochs/types/epoch_info.go", fn: "EndEpoch", params: eiParams,
			result: "assign:ei.CurrentEpochStartTime", retTy: "Int"},
	}))
	ei64 := []cparam{{"ei.CurrentEpoch", "cur", "Int64"}}
	extractors = append(extractors, condExtractor("epochs-counters", "EpochsCounters", []condSpec{
		// the same increment as the machine performs it: `CurrentEpoch` is an int64
		{leanName: "endCur64", file: "x/epochs/types/epoch_info.go", fn: "EndEpoch", params: ei64, result: "assign:ei.CurrentEpoch", retTy: "Int64"},
	}))
	extractors = append(extractors, condExtractor("inflation-counters", "InflationCounters", []condSpec{
		// `skippedEpochs++` and `period++` of AfterEpochEnd: uint64 increments
		{leanName: "skippedNext", file: "x/inflation/keeper/hooks.go", fn: "AfterEpochEnd",
			params: []cparam{{"skippedEpochs", "skippedEpochs", "UInt64"}}, result: "incdec:skippedEpochs", retTy: "UInt64"},
		{leanName: "periodNext", file: "x/inflation/keeper/hooks.go", fn: "AfterEpochEnd",
			params: []cparam{{"period", "period", "UInt64"}}, result: "incdec:period", retTy: "UInt64"},
	}))
	extractors = append(extractors, condExtractor("inflation-conds", "InflationConds", []condSpec{
		{leanName: "periodPassed", file: "x/inflation/keeper/hooks.go", fn: "AfterEpochEnd",
			params: []cparam{{"epochNumber", "epochNumber", "Int64"}, {"epochsPerPeriod", "epochsPerPeriod", "Int64"},
				{"period", "period", "UInt64"}, {"skippedEpochs", "skippedEpochs", "UInt64"}},
			result: "if:epochsPerPeriod", retTy: "Bool"},
	}))
}
