import CantoVerif.Driver.Coinswap
import CantoVerif.Driver.Genesis
import CantoVerif.Driver.Replica
/-! Line-protocol driver: `lake env lean --run Main.lean <suite> < trace` -/
def main (args : List String) : IO UInt32 := do
  match args with
  | ["coinswap"] => CV.Drv.Coinswap.main; return 0
  | ["genesis"] => CV.Drv.Genesis.main; return 0
  | ["replica"] => CV.Drv.Replica.main; return 0
  | _ => IO.eprintln "usage: Main <suite>"; return 2
