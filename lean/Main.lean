import CantoVerif.Driver.Coinswap
import CantoVerif.Driver.Erc20
/-! Line-protocol driver: `lake env lean --run Main.lean <suite> < trace` -/
def main (args : List String) : IO UInt32 := do
  match args with
  | ["coinswap"] => CV.Drv.Coinswap.main; return 0
  | ["erc20"] => CV.Drv.Erc20.main; return 0
  | _ => IO.eprintln "usage: Main <suite>"; return 2
