import CantoVerif.Driver.Coinswap
import CantoVerif.Driver.Onboarding
import CantoVerif.Driver.Govshuttle
import CantoVerif.Driver.Epochs
import CantoVerif.Driver.Params
import CantoVerif.Driver.Ante
import CantoVerif.Driver.Signers
import CantoVerif.Driver.Genesis
import CantoVerif.Driver.Replica
import CantoVerif.Driver.Csr
import CantoVerif.Driver.Erc20
/-! Line-protocol driver: `lake env lean --run Main.lean <suite> < trace` -/
def main (args : List String) : IO UInt32 := do
  match args with
  | ["coinswap"] => CV.Drv.Coinswap.main; return 0
  | ["onboarding"] => CV.Drv.Onboarding.main; return 0
  | ["govshuttle"] => CV.Drv.Govshuttle.main; return 0
  | ["epochs"] => CV.Drv.Epochs.main; return 0
  | ["params"] => CV.Drv.Params.main; return 0
  | ["ante"] => CV.Drv.Ante.main; return 0
  | ["signers"] => CV.Drv.Signers.main; return 0
  | ["genesis"] => CV.Drv.Genesis.main; return 0
  | ["replica"] => CV.Drv.Replica.main; return 0
  | ["csr"] => CV.Drv.Csr.main; return 0
  | ["erc20"] => CV.Drv.Erc20.main; return 0
  | _ => IO.eprintln "usage: Main <suite>"; return 2
