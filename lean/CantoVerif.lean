-- Root of the `CantoVerif` library.
import CantoVerif.Base.Core
import CantoVerif.Base.AMap
import CantoVerif.Base.Bank
import CantoVerif.Base.Dec
import CantoVerif.Model.Coinswap
import CantoVerif.Spec.Coinswap
import CantoVerif.Driver.Coinswap
import CantoVerif.Proofs.CoinswapInv
import CantoVerif.Proofs.CoinswapArith
import CantoVerif.Proofs.CoinswapEffects
import CantoVerif.Proofs.CoinswapWF
import CantoVerif.Props.C01
import CantoVerif.Model.Erc20
import CantoVerif.Model.Erc20Token
import CantoVerif.Spec.Erc20
import CantoVerif.Driver.Erc20
