-- Root of the `CantoVerif` library.
import CantoVerif.Base.Core
import CantoVerif.Base.AMap
import CantoVerif.Base.Bank
import CantoVerif.Base.Dec
import CantoVerif.Model.Coinswap
import CantoVerif.Spec.Coinswap
import CantoVerif.Driver.Coinswap
import CantoVerif.Proofs.CoinswapInv
import CantoVerif.Proofs.CoinswapArith
import CantoVerif.Proofs.CoinswapEffects
import CantoVerif.Proofs.CoinswapWF
import CantoVerif.Props.C01
import CantoVerif.Props.C02
import CantoVerif.Props.C08
import CantoVerif.Props.C09
import CantoVerif.Bridge.CoinswapFormulas
import CantoVerif.Bridge.CoinswapFacts
