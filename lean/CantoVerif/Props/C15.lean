import CantoVerif.Spec.Erc20
import CantoVerif.Proofs.Erc20Step
/-!
# C15 — the token-pair registry stays a consistent one-to-one mapping.

The registry is the three KV prefixes of `x/erc20` exactly as stored (pair by id, id by
denomination, id by address).  `RegInv` (in `Proofs/Erc20Reg.lean`) says that the two indexes
agree with the pair table; everything the property lists follows from it:

* `registry_init`, `registry_step`, `registry_history` — `RegInv` holds of the empty registry and is
  kept by **every** operation of the alphabet (coin and ERC-20 registrations incl. repeats and
  cross-registrations, toggles by denomination or address, conversions incl. the deletion of a
  pair whose contract self-destructed, hook invocations, parameter changes, bank operations, genesis
  export/import), accepted or rejected, **for every behaviour of the EVM** (`O` arbitrary), hence along
  every operation sequence;
* `one_to_one`, `lookups_agree`, `list_eq_reachable` — consequences of `RegInv`;
* `register_existing_rejected_no_effect` (+ the two cross-registration corollaries);
* `toggle_only_flag`, `delete_removes_all`, `convert_selfdestructed_deletes`;
* `regInvB_of_RegInv` / `registry_step_monitor` — the executable monitor `Spec.c15_registryInv`
  evaluated by the driver on the implementation's raw store dump is implied by `RegInv`.

Hypotheses, all explicit: `EnvOK` (the coin name of an ERC-20, `"erc20/0x…"`, is not itself of the
form of a hex address) and `Fresh` (`fresh_deploy_addr`: the `CREATE` address of the module's next
nonce is not a registered contract — the keeper does not check this; on the real EVM a `CREATE`
onto existing code fails).  The pair id `sha256(address|denom)` is modelled by its preimage.
-/
namespace CV
namespace Erc20
open KMap Spec

variable {σ : Type}

/-! ## the invariant along every history -/

theorem registry_init : RegInv Registry.empty := regInv_empty

/-- one operation, accepted or rejected, whatever the EVM answers -/
theorem registry_step (env : Env) (O : Oracle σ) (w : World σ) (op : Op)
    (hE : EnvOK env) (hI : RegInv w.st.reg) (hF : Fresh env w.st op) : RegInv (exec env O w op).st.reg := by
  unfold exec deliver
  split
  · rename_i w' r heq
    exact (step_regChange hE hI hF heq).inv hI
  · exact hI

/-- `fresh_deploy_addr` along a run -/
def FreshRun (env : Env) (O : Oracle σ) : World σ → List Op → Prop
  | _, [] => True
  | w, op :: ops => Fresh env w.st op ∧ FreshRun env O (exec env O w op) ops

/-- every operation sequence from every state satisfying the invariant -/
theorem registry_history (env : Env) (O : Oracle σ) (hE : EnvOK env) (ops : List Op) :
    ∀ (w : World σ), RegInv w.st.reg → FreshRun env O w ops → RegInv (run env O w ops).st.reg := by
  induction ops with
  | nil => intro w h _; exact h
  | cons op ops ih =>
    intro w h hf
    exact ih _ (registry_step env O w op hE h hf.1) hf.2

/-! ## what the invariant says -/

/-- each denomination maps to exactly one address and vice versa -/
theorem one_to_one {r : Registry} (h : RegInv r) {i j : PairId} {p q : Pair}
    (hp : r.getPair i = some p) (hq : r.getPair j = some q) :
    (p.denom = q.denom → p = q) ∧ (p.addr = q.addr → p = q) :=
  ⟨fun e => (h.denom_inj hp hq e).2, fun e => (h.addr_inj hp hq e).2⟩

/-- lookups by pair id, by denomination string and by address string return the same pair.
No side condition on the denomination: `RegInv` carries "no registered denomination has the form of
a hex address" (what the fix of finding D, §8 of DESIGN.md, made true). -/
theorem lookups_agree {r : Registry} (h : RegInv r) {i : PairId} {p : Pair} (hp : r.getPair i = some p) :
    r.getPair p.id = some p ∧
    (∀ x, r.lookupTok ⟨p.denom, x⟩ = some p) ∧
    (∀ s, isHexAddress s = true → r.lookupTok ⟨s, p.addr⟩ = some p) := by
  have hid := h.getPair_id hp
  refine ⟨hid, ?_, ?_⟩
  · intro x
    have hx := h.noHexDenom i p hp
    have hd := (h.denomIdx p.denom p.id).mpr ⟨p, hid, rfl⟩
    simp [Registry.lookupTok, Registry.idOfTok, hx, hd, hid]
  · intro s hs
    have ha := (h.addrIdx p.addr p.id).mpr ⟨p, hid, rfl⟩
    simp [Registry.lookupTok, Registry.idOfTok, hs, ha, hid]

/-- conversely a lookup never returns a pair that is not stored under its id, with that key -/
theorem lookup_sound {r : Registry} (h : RegInv r) {t : Tok} {p : Pair} (hl : r.lookupTok t = some p) :
    r.getPair p.id = some p ∧ (if isHexAddress t.s then p.addr = t.addr else p.denom = t.s) := by
  unfold Registry.lookupTok at hl
  split at hl
  · cases hl
  · rename_i i hi
    refine ⟨h.getPair_id hl, ?_⟩
    unfold Registry.idOfTok at hi
    split at hi
    · rename_i hx
      obtain ⟨q, hq, hqa⟩ := (h.addrIdx _ _).mp hi
      rw [hl] at hq; injection hq with hq; subst hq; simp [hx, hqa]
    · rename_i hx
      obtain ⟨q, hq, hqd⟩ := (h.denomIdx _ _).mp hi
      rw [hl] at hq; injection hq with hq; subst hq; simp [hx, hqd]

/-- listing pairs returns exactly the pairs reachable by lookup (by id, through the denomination
index, through the address index) -/
theorem list_eq_reachable {r : Registry} (h : RegInv r) (p : Pair) :
    (p ∈ r.list ↔ ∃ i, r.getPair i = some p) ∧
    (p ∈ r.list ↔ ∃ d i, get? r.byDenom d = some i ∧ r.getPair i = some p) ∧
    (p ∈ r.list ↔ ∃ a i, get? r.byAddr a = some i ∧ r.getPair i = some p) := by
  have base : p ∈ r.list ↔ ∃ i, r.getPair i = some p := by
    unfold Registry.list Registry.getPair
    constructor
    · intro hm
      obtain ⟨⟨k, v⟩, hkv, he⟩ := List.mem_map.mp hm
      simp only at he; subst he
      exact ⟨k, get?_of_mem h.nodupP hkv⟩
    · rintro ⟨i, hi⟩
      exact List.mem_map.mpr ⟨(i, p), mem_of_get? hi, rfl⟩
  refine ⟨base, ?_, ?_⟩
  · rw [base]
    constructor
    · rintro ⟨i, hi⟩
      exact ⟨p.denom, i, (h.denomIdx _ _).mpr ⟨p, hi, rfl⟩, hi⟩
    · rintro ⟨_, i, _, hi⟩; exact ⟨i, hi⟩
  · rw [base]
    constructor
    · rintro ⟨i, hi⟩
      exact ⟨p.addr, i, (h.addrIdx _ _).mpr ⟨p, hi, rfl⟩, hi⟩
    · rintro ⟨_, i, _, hi⟩; exact ⟨i, hi⟩

/-! ## registering what is already registered -/

theorem exec_eq_of_not_ok {env : Env} {O : Oracle σ} {w : World σ} {op : Op}
    (h : ∀ w' r, step env O w op ≠ .ok (w', r)) : exec env O w op = w := by
  unfold exec deliver
  split
  · rename_i w' r heq; exact absurd heq (h w' r)
  · rfl

/-- registering an already-registered denomination, or an already-registered contract, fails
without effect on either store, whatever the EVM answers -/
theorem register_existing_rejected_no_effect (env : Env) (O : Oracle σ) (w : World σ) :
    (∀ auth base dg, has w.st.reg.byDenom base = true → exec env O w (.registerCoin auth base dg) = w) ∧
    (∀ auth c mo, has w.st.reg.byAddr c = true → exec env O w (.registerERC20 auth c mo) = w) := by
  constructor
  · intro auth base dg hh
    apply exec_eq_of_not_ok
    intro w' r heq
    obtain ⟨_, _, ⟨F⟩⟩ := registerCoin_ok (by simpa [step] using heq)
    have := F.hNew
    rw [has_eq, this] at hh; cases hh
  · intro auth c mo hh
    apply exec_eq_of_not_ok
    intro w' r heq
    obtain ⟨_, _, _, ⟨F⟩⟩ := registerERC20_ok (by simpa [step] using heq)
    have := F.hNewAddr
    rw [has_eq, this] at hh; cases hh

/-- cross-registrations: the contract of *any* registered pair (in particular one the module
deployed for a coin) cannot be registered as an ERC-20, and the denomination of *any* registered
pair (in particular the `erc20/0x…` coin of an ERC-20) cannot be registered as a coin -/
theorem cross_registration_rejected (env : Env) (O : Oracle σ) (w : World σ) (hI : RegInv w.st.reg)
    {i : PairId} {p : Pair} (hp : w.st.reg.getPair i = some p) :
    (∀ auth mo, exec env O w (.registerERC20 auth p.addr mo) = w) ∧
    (∀ auth dg, exec env O w (.registerCoin auth p.denom dg) = w) := by
  have hid := hI.getPair_id hp
  constructor
  · intro auth mo
    apply (register_existing_rejected_no_effect env O w).2
    rw [has_eq, (hI.addrIdx p.addr p.id).mpr ⟨p, hid, rfl⟩]; rfl
  · intro auth dg
    apply (register_existing_rejected_no_effect env O w).1
    rw [has_eq, (hI.denomIdx p.denom p.id).mpr ⟨p, hid, rfl⟩]; rfl

/-! ## toggling -/

/-- a successful toggle (by denomination or by address) rewrites the addressed pair's record with
the flag flipped and changes nothing else: not the indexes, not any other pair, not the bank, the
parameters, the metadata, the nonce, nor the EVM -/
theorem toggle_only_flag {env : Env} {O : Oracle σ} {w w' : World σ} {auth : Bool} {t : Tok} {r : Resp}
    (hI : RegInv w.st.reg) (h : step env O w (.toggle auth t) = .ok (w', r)) :
    ∃ p, w.st.reg.lookupTok t = some p ∧
      w'.st.reg.getPair p.id = some { p with enabled := !p.enabled } ∧
      (∀ j, j ≠ p.id → w'.st.reg.getPair j = w.st.reg.getPair j) ∧
      w'.st.reg.byDenom = w.st.reg.byDenom ∧ w'.st.reg.byAddr = w.st.reg.byAddr ∧
      w'.st.bank = w.st.bank ∧ w'.st.params = w.st.params ∧ w'.st.dmeta = w.st.dmeta ∧
      w'.st.mn = w.st.mn ∧ w'.evm = w.evm := by
  obtain ⟨_, _, i, p, hi, hp, hw⟩ := toggle_ok (by simpa [step] using h)
  have hid : i = p.id := hI.idOk i p hp
  refine ⟨p, by simp [Registry.lookupTok, hi, hp], ?_, ?_, ?_⟩
  · rw [hw]; simp only [getPair_setPair]; simp [Pair.id]
  · intro j hj
    rw [hw]; simp only [getPair_setPair]
    have : j ≠ ({ p with enabled := !p.enabled } : Pair).id := hj
    simp [this]
  · rw [hw]; exact ⟨rfl, rfl, rfl, rfl, rfl, rfl, rfl⟩

/-! ## deletion -/

/-- `DeleteTokenPair` removes every entry of the pair — the record, the denomination index entry,
the address index entry — so that afterwards no pair has that denomination or that address, and it
leaves every other entry as it was -/
theorem delete_removes_all {r : Registry} (h : RegInv r) {p : Pair} (hp : r.getPair p.id = some p) :
    (r.delete p).getPair p.id = none ∧ get? (r.delete p).byDenom p.denom = none ∧
    get? (r.delete p).byAddr p.addr = none ∧
    (∀ j q, (r.delete p).getPair j = some q → q.denom ≠ p.denom ∧ q.addr ≠ p.addr) ∧
    (∀ j, j ≠ p.id → (r.delete p).getPair j = r.getPair j) ∧
    (∀ d, d ≠ p.denom → get? (r.delete p).byDenom d = get? r.byDenom d) ∧
    (∀ a, a ≠ p.addr → get? (r.delete p).byAddr a = get? r.byAddr a) := by
  refine ⟨by simp [getPair_delete], by simp [Registry.delete, get?_del], by simp [Registry.delete, get?_del], ?_, ?_, ?_, ?_⟩
  · intro j q hq
    rw [getPair_delete] at hq
    split at hq
    · cases hq
    · rename_i hj
      constructor
      · intro e; exact hj (h.denom_inj hq hp e).1
      · intro e; exact hj (h.addr_inj hq hp e).1
  · intro j hj; simp [getPair_delete, hj]
  · intro d hd; simp [Registry.delete, get?_del, hd]
  · intro a ha; simp [Registry.delete, get?_del, ha]

/-- a conversion attempt on a pair whose contract account no longer carries code deletes exactly
that pair (response `deleted`) and touches nothing else of Canto's state -/
theorem convert_selfdestructed_deletes {env : Env} {O : Oracle σ} {w w' : World σ} {op : Op}
    (hop : (∃ m, op = .convertCoin m) ∨ (∃ m, op = .convertERC20 m))
    (h : step env O w op = .ok (w', .deleted)) :
    ∃ p i, w.st.reg.getPair i = some p ∧ (O (.code p.addr) w.evm).1.ret ≠ some 1 ∧
      w'.st = { w.st with reg := w.st.reg.delete p } := by
  rcases hop with ⟨m, rfl⟩ | ⟨m, rfl⟩
  · obtain ⟨F⟩ := convertCoin_ok (by simpa [step] using h)
    obtain ⟨_, ⟨i, _, hi⟩, _⟩ := gate_ok F.hGate
    rcases afterGate_ok F.hRest with ⟨_, hc⟩ | ⟨hcode, hw, _⟩
    · obtain ⟨_, _, hr⟩ := coinPath_frame hc; cases hr
    · exact ⟨F.p, i, hi, hcode, congrArg World.st hw⟩
  · obtain ⟨F⟩ := convertERC20_ok (by simpa [step] using h)
    obtain ⟨_, ⟨i, _, hi⟩, _⟩ := gate_ok F.hGate
    rcases afterGate_ok F.hRest with ⟨_, hc⟩ | ⟨hcode, hw, _⟩
    · obtain ⟨_, _, hr⟩ := erc20Path_frame hc; cases hr
    · exact ⟨F.p, i, hi, hcode, congrArg World.st hw⟩

/-! ## the executable monitor is implied by the invariant -/

theorem nodupB_of_nodup {κ : Type} [DecidableEq κ] : ∀ (l : List κ), l.Nodup → nodupB l = true := by
  intro l
  induction l with
  | nil => intro _; rfl
  | cons k r ih =>
    intro h
    simp only [List.nodup_cons] at h
    simp only [nodupB, Bool.and_eq_true, Bool.not_eq_true', ih h.2, and_true]
    simpa using h.1

theorem regInvB_of_RegInv {r : Registry} (h : RegInv r) : regInvB r = true := by
  unfold regInvB nodupKeys
  simp only [Bool.and_eq_true, List.all_eq_true]
  refine ⟨⟨⟨⟨⟨?_, ?_⟩, ?_⟩, nodupB_of_nodup _ h.nodupP⟩, nodupB_of_nodup _ h.nodupD⟩, nodupB_of_nodup _ h.nodupA⟩
  · rintro ⟨k, v⟩ hkv
    have hg : r.getPair k = some v := get?_of_mem h.nodupP hkv
    have hid := h.idOk k v hg
    have hd := (h.denomIdx v.denom k).mpr ⟨v, hg, rfl⟩
    have ha := (h.addrIdx v.addr k).mpr ⟨v, hg, rfl⟩
    subst hid
    simp [hd, ha]
  · rintro ⟨d, i⟩ hdi
    have hg := get?_of_mem h.nodupD hdi
    obtain ⟨p, hp, hpd⟩ := (h.denomIdx d i).mp hg
    have : get? r.pairs i = some p := hp
    simp [this, hpd]
  · rintro ⟨a, i⟩ hai
    have hg := get?_of_mem h.nodupA hai
    obtain ⟨p, hp, hpa⟩ := (h.addrIdx a i).mp hg
    have : get? r.pairs i = some p := hp
    simp [this, hpa]

/-- the monitor `C15 registry_inv` holds on every transition of the model -/
theorem registry_step_monitor (env : Env) (cfg : Token.Cfg) (O : Oracle Token.TState) (w : World Token.TState) (op : Op)
    (hE : EnvOK env) (hI : RegInv w.st.reg) (hF : Fresh env w.st op) (ok : Bool) (resp : Resp) (ans : List Ans)
    (hon cl : Bool) (lk : List (Addr × Denom × String × String)) (prev : Option (DOp × Bool × Resp × World Token.TState × Bool)) :
    c15_registryInv { env := env, cfg := cfg, pre := w, op := .k op, ok := ok, resp := resp,
                      post := exec env O w op, answers := ans, honest := hon, lookups := lk, clean := cl, prev := prev } = true :=
  regInvB_of_RegInv (registry_step env O w op hE hI hF)

/-! ## non-vacuity -/

def isOk {α : Type} : R α → Bool
  | .ok _ => true
  | .error _ => false

def exEnv : Env :=
  { modAddr := "m.erc20", blocked := ["m.erc20", "m.gov"], createAddr := [(0, "k0"), (1, "k1")],
    erc20Denom := [("t0", "erc20/0x746f6b656e305F5f5F5f5f5F5f5F5F5F5f5F5F5f")] }

def exCfg : Token.Cfg := { modAddr := "m.erc20", zero := "zero" }

def exWorld : World Token.TState :=
  { st := { bank := { bal := ⟨[(("u0", "acoin"), 10), (("u1", "acoin"), 5)]⟩, sup := ⟨[("acoin", 15)]⟩,
                      accts := ["u0", "u1", "m.erc20"] },
            params := { enableErc20 := true, enableEVMHook := true }, reg := Registry.empty, dmeta := [],
            sendDefault := true, sendOverride := [], mn := 0 },
    evm := { bal := ⟨[(("t0", "u0"), 7)]⟩, sup := ⟨[("t0", 7)]⟩, code := ["t0"], minter := [("t0", "u0")] } }

theorem exEnvOK : EnvOK exEnv := by
  constructor
  intro c d h
  simp only [Env.denomOf, exEnv, get?] at h
  split at h
  · rename_i v hv
    split at hv
    · injection hv with hv; injection h with h; subst hv; subst h; decide
    · cases hv
  · cases h

/-- registering a coin, then an ERC-20, then registering both again: the first two succeed, the
repeats are rejected, and the resulting registry passes the monitor -/
example :
    (let O := Token.honest exCfg
     let w1 := exec exEnv O exWorld (.registerCoin true "acoin" "d1")
     let w2 := exec exEnv O w1 (.registerERC20 true "t0" true)
     let w3 := exec exEnv O w2 (.registerCoin true "acoin" "d1")
     let w4 := exec exEnv O w3 (.registerERC20 true "t0" true)
     w2.st.reg.list.length == 2 && w4.st.reg == w2.st.reg && regInvB w4.st.reg &&
     w2.st.reg.lookupTok ⟨"acoin", "?"⟩ == some { addr := "k0", denom := "acoin", enabled := true, owner := .module }) = true := by
  decide +kernel

/-- `Fresh` holds in the example world: nothing is registered at `k0` -/
example : Fresh exEnv exWorld.st (.registerCoin true "acoin" "d1") := by
  intro a _; rfl

/-- toggle by address, then deletion after self-destruct, then re-registration of the same coin
(at the next CREATE address) gives a consistent registry again -/
example :
    (let O := Token.honest exCfg
     let w1 := exec exEnv O exWorld (.registerCoin true "acoin" "d1")
     let w2 := exec exEnv O w1 (.toggle true ⟨"0x80b5a32E4F032B2a058b4F29EC95EEfEEB87aDcd", "k0"⟩)
     let w3 := exec exEnv O w2 (.toggle true ⟨"acoin", "-"⟩)
     let w4 : World Token.TState := { w3 with evm := Token.selfdestruct w3.evm "k0" }
     let w5 := exec exEnv O w4 (.convertCoin { denom := ⟨"acoin", "-"⟩, amount := 3, receiver := ⟨true, "u0"⟩, sender := ⟨.lower, "u0"⟩ })
     let w6 := exec exEnv O w5 (.registerCoin true "acoin" "d1")
     (w2.st.reg.list.map (·.enabled)) == [false] && (w3.st.reg.list.map (·.enabled)) == [true] &&
     w5.st.reg == Registry.empty && regInvB w6.st.reg && (w6.st.reg.list.map (·.addr)) == ["k1"]) = true := by
  decide +kernel

end Erc20
end CV
