import CantoVerif.Proofs.AnteLemmas
/-!
# C19 — transaction admission routes Ethereum and Cosmos messages to the right checks.

About `route` (`Model/Ante.lean`), for **every** transaction: every list of extension options,
every message list, every authz tree of any width and depth.

* `eth_only_via_eth_path` — a transaction with an Ethereum message that gets past the routing
  stage has the Ethereum option first, carries only Ethereum messages, and was handed to the
  Ethereum chain;
* `unknown_ext_rejected` (+ `dynamic_fee_ext_rejected`) — a first option other than the Ethereum
  and the Web3 one is refused, whatever follows it and whatever the messages are;
* `no_eth_in_cosmos_or_eip712` — an Ethereum message without the Ethereum option first never passes;
* `authz_blocked`, `authz_exec_blocked`, `authz_grant_blocked` — a disabled message strictly inside
  a `MsgExec` at any depth, or a `MsgGrant` of a disabled type at any position, never passes
  (induction over the message tree);
* `deep_nesting_rejected` / `deep_nesting_rejected_wrap` — a path of six or more `MsgExec`s never
  passes; `depth5_clean_passes` shows five do (the bound is exact), `siblings_count` that wide,
  shallower trees can be refused as well (the theorem claims only the depth bound);
* `shallow_clean_passes` — the converse: nothing disabled, no Ethereum message, fewer than six
  `MsgExec`s in all ⇒ handed to the Cosmos / EIP-712 chain (the filter is not vacuous);
* `disabled_list_complete` — the list contains `MsgEthereumTx` and the three vesting creations;
* `first_option_only` — options after the first do not influence the Cosmos/EIP-712 routing;
* `route_monitors` — every predicate of `Spec/Ante.lean` holds of the model's own decisions.
-/
namespace CV
namespace Ante
open Spec

theorem cosmosChain_passed {msgs : List Msg} {v : Verdict} (h : (cosmosChain msgs v).passedRouting = true) :
    msgs.any isEth = false ∧ check msgs false 0 = none ∧ cosmosChain msgs v = v := by
  unfold cosmosChain at h ⊢
  split at h
  · cases h
  · rename_i hne
    split at h
    · cases h
    · cases h
    · rename_i hc
      simp only [Bool.not_eq_true] at hne
      simp [hne, hc]

/-- **C19.1** an Ethereum message is admitted only through the Ethereum path -/
theorem eth_only_via_eth_path (tx : Tx) (hp : (route tx).passedRouting = true) (he : tx.msgs.any isEth = true) :
    tx.extOpts.head? = some ethOpt ∧ tx.msgs.all isEth = true ∧ route tx = .routedEth := by
  unfold route at hp ⊢
  split at hp
  · have := (cosmosChain_passed hp).1; rw [he] at this; cases this
  · rename_i o rest hext
    split at hp
    · rename_i ho
      unfold ethChain at hp ⊢
      split at hp
      · cases hp
      · split at hp
        · rename_i _ hall
          rename_i hlen
          subst ho
          rw [hext] at hlen
          simp only [hext, List.head?_cons, hall, if_true]
          exact ⟨trivial, trivial, by rw [if_neg hlen]⟩
        · cases hp
    · split at hp
      · have := (cosmosChain_passed hp).1; rw [he] at this; cases this
      · cases hp

example : route ⟨[ethOpt], [.leaf ethMsgUrl, .leaf ethMsgUrl]⟩ = .routedEth := by decide

/-- **C19.2** an unrecognised first extension option is refused -/
theorem unknown_ext_rejected (o : String) (rest : List String) (msgs : List Msg) (h1 : o ≠ ethOpt) (h2 : o ≠ web3Opt) :
    route ⟨o :: rest, msgs⟩ = .unknownExt := by
  simp [route, h1, h2]

/-- the dynamic-fee option is one of them on this chain -/
theorem dynamic_fee_ext_rejected (rest : List String) (msgs : List Msg) : route ⟨dynFeeOpt :: rest, msgs⟩ = .unknownExt :=
  unknown_ext_rejected _ _ _ (by decide) (by decide)

/-- **C19.3** never inside an ordinary or EIP-712 Cosmos transaction -/
theorem no_eth_in_cosmos_or_eip712 (tx : Tx) (he : tx.msgs.any isEth = true) (hx : tx.extOpts.head? ≠ some ethOpt) :
    (route tx).passedRouting = false := by
  cases hp : (route tx).passedRouting with
  | false => rfl
  | true => exact absurd (eth_only_via_eth_path tx hp he).1 hx

example : route ⟨[], [.leaf "/cosmos.bank.v1beta1.MsgSend", .leaf ethMsgUrl]⟩ = .ethInCosmos := by decide
example : route ⟨[web3Opt], [.leaf ethMsgUrl]⟩ = .ethInCosmos := by decide
example : route ⟨[web3Opt, ethOpt], [.leaf ethMsgUrl]⟩ = .ethInCosmos := by decide

/-- **C19.4** neither executed through authz at any depth nor granted -/
theorem authz_blocked (tx : Tx) (h : hasBad tx.msgs false = true) : (route tx).passedRouting = false := by
  cases hp : (route tx).passedRouting with
  | false => rfl
  | true =>
    exfalso
    unfold route at hp
    split at hp
    · have hc := (cosmosChain_passed hp).2.1
      have := bad_check tx.msgs false 0 h
      rw [hc] at this; cases this
    · split at hp
      · unfold ethChain at hp
        split at hp
        · cases hp
        · split at hp
          · rename_i hall
            have := (allEth_clean tx.msgs hall).1
            rw [h] at this; cases this
          · cases hp
      · split at hp
        · have hc := (cosmosChain_passed hp).2.1
          have := bad_check tx.msgs false 0 h
          rw [hc] at this; cases this
        · cases hp

theorem authz_exec_blocked (tx : Tx) (h : hasBadExec tx.msgs false = true) : (route tx).passedRouting = false :=
  authz_blocked tx (hasBadExec_hasBad _ _ h)

theorem authz_grant_blocked (tx : Tx) (h : hasBadGrant tx.msgs = true) : (route tx).passedRouting = false :=
  authz_blocked tx (hasBadGrant_hasBad _ _ h)

-- a vesting-account creation three MsgExecs deep, among clean siblings, on the ordinary and the EIP-712 path
example : route ⟨[], [.leaf "/cosmos.bank.v1beta1.MsgSend", wrap 3 (.leaf "/cosmos.vesting.v1beta1.MsgCreatePeriodicVestingAccount")]⟩
    = .authzDisabled := by simp [route, cosmosChain, check, checkList, wrap, isEth, isDisabled, disabledList, vestingUrls, ethMsgUrl, maxNested]
example : hasBadExec [wrap 3 (.leaf "/cosmos.vesting.v1beta1.MsgCreatePeriodicVestingAccount")] false = true := by
  simp [hasBadExec, wrap, isDisabled, disabledList, vestingUrls, ethMsgUrl]
-- a grant of MsgEthereumTx inside two MsgExecs
example : hasBadGrant [wrap 2 (.grant ethMsgUrl)] = true := by simp [hasBadGrant, wrap, isDisabled, disabledList]
-- a vesting message at top level is not an authz matter
example : route ⟨[], [.leaf "/cosmos.vesting.v1beta1.MsgCreateVestingAccount"]⟩ = .routedCosmos := by
  simp [route, cosmosChain, check, checkList, isEth, ethMsgUrl, maxNested]

/-- **C19.5** over-deep nesting is refused: a path of six or more `MsgExec`s anywhere in the transaction -/
theorem deep_nesting_rejected (tx : Tx) (h : depthL tx.msgs ≥ 6) : (route tx).passedRouting = false := by
  cases hp : (route tx).passedRouting with
  | false => rfl
  | true =>
    exfalso
    have hd : (check tx.msgs false 0).isSome = true := deep_check tx.msgs false 0 (by simp [maxNested]; omega)
    unfold route at hp
    split at hp
    · have hc := (cosmosChain_passed hp).2.1
      rw [hc] at hd; cases hd
    · split at hp
      · unfold ethChain at hp
        split at hp
        · cases hp
        · split at hp
          · rename_i hall
            have := (allEth_clean tx.msgs hall).2
            omega
          · cases hp
      · split at hp
        · have hc := (cosmosChain_passed hp).2.1
          rw [hc] at hd; cases hd
        · cases hp

/-- the same in the "k wrappers around any message, among any siblings" form -/
theorem deep_nesting_rejected_wrap (ext : List String) (pre post : List Msg) (k : Nat) (m : Msg) (hk : k ≥ 6) :
    (route ⟨ext, pre ++ wrap k m :: post⟩).passedRouting = false := by
  apply deep_nesting_rejected
  have hw : depth (wrap k m) ≥ 6 := by rw [depth_wrap]; omega
  have : ∀ (pre : List Msg), depthL (pre ++ wrap k m :: post) ≥ depth (wrap k m) := by
    intro pre
    induction pre with
    | nil => simp only [List.nil_append, depthL]; omega
    | cons p ps ih => simp only [List.cons_append, depthL]; omega
  have := this pre
  show depthL (pre ++ wrap k m :: post) ≥ 6
  omega

/-- the converse: nothing disabled, no Ethereum message, fewer than six `MsgExec`s in total ⇒ passes -/
theorem shallow_clean_passes (msgs : List Msg) (h1 : msgs.any isEth = false) (h2 : hasBad msgs false = false)
    (h3 : execsL msgs < 6) :
    route ⟨[], msgs⟩ = .routedCosmos ∧ ∀ rest, route ⟨web3Opt :: rest, msgs⟩ = .routedEip712 := by
  have hc := clean_check msgs false 0 h2 (by simp [maxNested]; omega)
  constructor
  · simp [route, cosmosChain, h1, hc]
  · intro rest
    have : web3Opt ≠ ethOpt := by decide
    simp [route, cosmosChain, h1, hc, this]

/-- five wrappers pass, six do not: the bound of `deep_nesting_rejected` is exact -/
theorem depth5_clean_passes : route ⟨[], [wrap 5 (.leaf "/cosmos.bank.v1beta1.MsgSend")]⟩ = .routedCosmos := by
  refine (shallow_clean_passes _ ?_ ?_ ?_).1
  · simp [wrap, isEth]
  · simp [wrap, hasBad, isDisabled, disabledList, vestingUrls, ethMsgUrl]
  · simp [wrap, execsL, execs]
example : route ⟨[], [wrap 6 (.leaf "/cosmos.bank.v1beta1.MsgSend")]⟩ = .nestingLimit := by
  simp [route, cosmosChain, check, checkList, wrap, isEth, maxNested]

/-- the counter is also bumped by preceding sibling `MsgExec`s: five siblings before a one-deep `MsgExec`
are refused although no path is deeper than one — the model reproduces the code here; the property's
theorem only claims the depth bound -/
theorem siblings_count :
    route ⟨[], [.exec [], .exec [], .exec [], .exec [], .exec [], .exec [.leaf "/cosmos.bank.v1beta1.MsgSend"]]⟩ = .nestingLimit := by
  simp [route, cosmosChain, check, checkList, isEth, maxNested]

/-- **C19.6** the disabled list covers what the property names -/
theorem disabled_list_complete :
    isDisabled ethMsgUrl = true ∧
    isDisabled "/cosmos.vesting.v1beta1.MsgCreateVestingAccount" = true ∧
    isDisabled "/cosmos.vesting.v1beta1.MsgCreatePermanentLockedAccount" = true ∧
    isDisabled "/cosmos.vesting.v1beta1.MsgCreatePeriodicVestingAccount" = true := by decide

/-- only the first extension option routes a Cosmos / EIP-712 transaction -/
theorem first_option_only (rest : List String) (msgs : List Msg) :
    route ⟨web3Opt :: rest, msgs⟩ = route ⟨[web3Opt], msgs⟩ := by
  have : web3Opt ≠ ethOpt := by decide
  simp [route, this]

/-! ## the monitors hold of every decision of the model -/

theorem obsOf_passed (v : Verdict) : (obsOf v).passedRouting = v.passedRouting := by cases v <;> rfl

theorem route_monitors (tx : Tx) : ∀ m ∈ monitors, m.2.2 (ofModel tx) = true := by
  intro m hm
  simp only [monitors, List.mem_cons, List.not_mem_nil, or_false] at hm
  rcases hm with rfl | rfl | rfl | rfl | rfl | rfl
  · simp only [ethOnlyViaEthPath, ofModel, obsOf_passed]
    cases hp : (route tx).passedRouting with
    | false => simp
    | true =>
      cases he : tx.msgs.any isEth with
      | false => simp
      | true =>
        obtain ⟨a, b, _⟩ := eth_only_via_eth_path tx hp he
        simp [headIs, a, b]
  · simp only [unknownExtRejected, ofModel]
    split
    · rfl
    · rename_i o rest hext
      by_cases h1 : o = ethOpt
      · simp [h1]
      · by_cases h2 : o = web3Opt
        · simp [h2]
        · have : tx = ⟨o :: rest, tx.msgs⟩ := by cases tx; simp_all
          rw [this, unknown_ext_rejected o rest tx.msgs h1 h2]
          simp [obsOf]
  · simp only [noEthInCosmosOrEip712, ofModel, obsOf_passed]
    cases he : tx.msgs.any isEth with
    | false => simp
    | true =>
      cases hh : headIs tx ethOpt with
      | true => simp
      | false =>
        have hx : tx.extOpts.head? ≠ some ethOpt := by
          intro h; simp [headIs, h] at hh
        simp [no_eth_in_cosmos_or_eip712 tx he hx]
  · simp only [authzExecBlocked, ofModel, obsOf_passed]
    cases hb : hasBadExec tx.msgs false with
    | false => simp
    | true => simp [authz_exec_blocked tx hb]
  · simp only [authzGrantBlocked, ofModel, obsOf_passed]
    cases hb : hasBadGrant tx.msgs with
    | false => simp
    | true => simp [authz_grant_blocked tx hb]
  · simp only [deepNestingRejected, ofModel, obsOf_passed]
    by_cases hd : depthL tx.msgs ≥ 6
    · simp [deep_nesting_rejected tx hd]
    · simp [hd]

/-- an observation agrees with the model's verdict iff it is the model's own observation up to what happens after routing -/
theorem agrees_self (tx : Tx) : agrees (route tx) (obsOf (route tx)) = true := by
  unfold agrees
  split
  · rw [obsOf_passed]; assumption
  · simp

end Ante
end CV
