import CantoVerif.Model.Abi
/-!
# ABI encoding (`Model/Abi.lean`): round trip, injectivity, shape, test vectors

First step towards the part of C20 that `Props/C20.lean` leaves open (`stored_on_evm_partial`): the contract-ABI
encoding of `AddProposal(uint256,string,string,address[],uint256[],string[],bytes[])` / of the `Proposal` tuple
returned by `QueryProp`.  Core Lean only (no Mathlib), axioms used: `propext`, `Classical.choice`, `Quot.sound` only.

## What is proved — everything is GENERAL (all of `Ty`, arbitrary nesting of `arr`/`tuple`, no size bounds)

* `decode_encode_append` : `v.hasTy t → |encode t v| < 2^256 → decode t (encode t v ++ rest) = some v` for every `rest`
  (a decoder reads exactly the encoding and ignores what follows — needed because tails of later components follow);
* `decode_encode` (`rest = []`), `decodeTuple_encodeTuple(_append)` for argument lists, `decodeCall_encodeCall`;
* `encode_injective`, `encodeTuple_injective` : equal encodings of well-typed values ⇒ equal values
  ("what is stored determines what was submitted");
* `encode_length_mod32`, `encodeTuple_length_mod32` : every encoding is a whole number of words — for ALL values,
  ill-typed ones included (no hypothesis);
* `encode_wf`, `encodeTuple_wf` : well-typed values encode to bytes (`< 256`);
* `static_length` : a well-typed value of a static type occupies exactly `headSize t` bytes;
* `decSeq_core` : the layout lemma (heads/offsets/tails) for an arbitrary list of component decoders, from which
  both the array case and the tuple case follow.
No restricted `decode_encode_fragment` was necessary.

## Hypotheses, and why they cannot be dropped

* `v.hasTy t`: `uint256 < 2^256`, `address` = exactly 20 bytes, elements are bytes, lengths of `bytes`/`string`/
  arrays `< 2^256`.  Without it the statement is false: `encode uint256 (2^256) = encode uint256 0`, a longer
  "address" is truncated (examples at the end, by `decide`).
* `|encode t v| < 2^256`: offsets are written as 32-byte words, i.e. modulo `2^256` (`be32 (2^256 + 64) = be32 64`,
  example at the end); an encoding of `2^256` bytes or more cannot be decoded.  Physically irrelevant, but it is
  the only bound and it is stated explicitly instead of bounding lists or nesting.

## Test vectors

Written out word by word from the specification (Solidity docs: "Use of Dynamic Types", the
`g(uint256[][],string[])` example with selector `0x2289b18c`), checked by kernel evaluation.  The `AddProposal`
vector (29 words, selector `0x27bc123e`) was additionally compared with the output of go-ethereum v1.10.26
`abi.Pack("AddProposal", 7, "t1", "d", [0x11…11], [5,6], ["f()","g(uint256)"], [0xdead, 0x])` — identical; the
decoder's accept/reject decisions in the rejection examples (offset past the end, array length too large, string
length too large, truncated head → error; trailing bytes and missing string padding → accepted) are those of
`abi.Arguments.Unpack` on the same inputs.
-/

namespace CV
namespace Abi

/-! ## words -/

@[simp] theorem zeros_length (n : Nat) : (zeros n).length = n := by simp [zeros]

@[simp] theorem beN_length (k n : Nat) : (beN k n).length = k := by
  induction k generalizing n with
  | zero => rfl
  | succ k ih => simp [beN, ih]

@[simp] theorem be32_length (n : Nat) : (be32 n).length = 32 := beN_length 32 n

theorem ofBe_append_single (xs : Bytes) (b : Nat) : ofBe (xs ++ [b]) = ofBe xs * 256 + b := by
  simp [ofBe, List.foldl_append]

theorem ofBe_beN (k n : Nat) : ofBe (beN k n) = n % 256 ^ k := by
  induction k generalizing n with
  | zero => simp [beN, ofBe, Nat.mod_one]
  | succ k ih =>
    rw [beN, ofBe_append_single, ih, Nat.pow_succ, Nat.mul_comm (256 ^ k) 256, Nat.mod_mul]
    rw [Nat.mul_comm, Nat.add_comm]

theorem ofBe_be32 {n : Nat} (h : n < two256) : ofBe (be32 n) = n := by
  rw [be32, ofBe_beN]
  exact Nat.mod_eq_of_lt (by simpa [two256] using h)

/-- Reading back a word written at position `|A|`. -/
theorem word_at {n : Nat} (h : n < two256) (A X : Bytes) : word A.length (A ++ (be32 n ++ X)) = n := by
  rw [word, List.drop_left, List.take_left' (be32_length n), ofBe_be32 h]

theorem word_zero {n : Nat} (h : n < two256) (X : Bytes) : word 0 (be32 n ++ X) = n := by
  simpa using word_at h [] X

/-! ## layout -/

@[simp] theorem heads_length (off : Nat) (items : List Item) : (heads off items).length = headLen items := by
  induction items generalizing off with
  | nil => rfl
  | cons it r ih =>
    obtain ⟨d, e⟩ := it
    cases d <;> simp [heads, headLen, ih]

theorem assemble_length (items : List Item) :
    (assemble items).length = headLen items + (tails items).length := by
  simp [assemble]

/-- What the generic sequence decoder needs to know about component `i`: static components occupy exactly their
head size, and the component decoder inverts the component encoding whatever follows it (as long as the
encoding is shorter than `2^256` bytes). -/
inductive SeqOK : List Item → List Dec → List Val → Prop
  | nil : SeqOK [] [] []
  | cons {d : Bool} {e : Bytes} {hs : Nat} {dec : Bytes → Option Val} {v : Val}
      {items : List Item} {ds : List Dec} {vs : List Val} :
      (d = false → e.length = hs) →
      (e.length < two256 → ∀ rest, dec (e ++ rest) = some v) →
      SeqOK items ds vs → SeqOK ((d, e) :: items) ((d, hs, dec) :: ds) (v :: vs)

theorem decSeq_core {items : List Item} {ds : List Dec} {vs : List Val} (h : SeqOK items ds vs) :
    ∀ (bs A M R : Bytes) (off : Nat),
      bs = A ++ (heads off items ++ (M ++ (tails items ++ R))) →
      off = A.length + headLen items + M.length →
      A.length + headLen items + M.length + (tails items).length < two256 →
      decSeq ds A.length bs = some vs := by
  induction h with
  | nil => intros; rfl
  | @cons d e hs dec v items ds vs hst hdec _ ih =>
    intro bs A M R off hbs hoff hlt
    have hlen := congrArg List.length hbs
    cases d with
    | true =>
      simp only [heads, tails, headLen, if_true, List.append_assoc] at hbs hoff
      simp only [heads, tails, List.length_append, be32_length, heads_length] at hlen
      simp only [headLen, tails, List.length_append, if_true] at hlt
      have hoff_lt : off < two256 := by omega
      have hw : word A.length bs = off := by rw [hbs]; exact word_at hoff_lt _ _
      have hdrop : bs.drop off = e ++ (tails items ++ R) := by
        rw [hbs, ← List.append_assoc A, ← List.append_assoc (A ++ be32 off),
          ← List.append_assoc ((A ++ be32 off) ++ heads (off + e.length) items)]
        apply List.drop_left'
        simp only [List.length_append, be32_length, heads_length]; omega
      have hrec := ih bs (A ++ be32 off) (M ++ e) R (off + e.length)
        (by rw [hbs]; simp only [List.append_assoc])
        (by simp only [List.length_append, be32_length]; omega)
        (by simp only [List.length_append, be32_length]; omega)
      simp only [List.length_append, be32_length] at hrec
      have he : e.length < two256 := by omega
      simp only [decSeq, hw, hdrop, hdec he, hrec]
      rw [if_pos (by omega), if_pos (by omega)]
    | false =>
      have hhs := hst rfl
      simp only [heads, tails, headLen, List.append_assoc] at hbs hoff
      simp only [heads, tails, List.length_append, heads_length] at hlen
      have hdrop : bs.drop A.length = e ++ (heads off items ++ (M ++ (tails items ++ R))) := by
        rw [hbs]; exact List.drop_left
      have hrec := ih bs (A ++ e) M R off
        (by rw [hbs]; simp only [List.append_assoc])
        (by simp only [List.length_append]; simp at hoff; omega)
        (by simp only [List.length_append]; simp [headLen, tails] at hlt; omega)
      simp only [List.length_append] at hrec
      simp [headLen, tails] at hlt hoff
      have he : e.length < two256 := by omega
      simp only [decSeq, hdrop, hdec he, ← hhs, hrec]
      rw [if_pos (by omega)]

/-! ## induction on values, and the recursive definitions as maps -/

theorem Val.ind {P : Val → Prop}
    (uint : ∀ n, P (.uint n)) (addr : ∀ bs, P (.addr bs)) (bytes : ∀ bs, P (.bytes bs))
    (str : ∀ bs, P (.str bs))
    (arr : ∀ vs, (∀ v ∈ vs, P v) → P (.arr vs))
    (tuple : ∀ vs, (∀ v ∈ vs, P v) → P (.tuple vs)) : ∀ v, P v :=
  fun v => Val.rec (motive_1 := P) (motive_2 := fun vs => ∀ v ∈ vs, P v)
    uint addr bytes str (fun vs ih => arr vs ih) (fun vs ih => tuple vs ih)
    (fun _ h => by cases h)
    (fun hd tl h1 h2 w hw => by
      cases hw with
      | head => exact h1
      | tail _ hm => exact h2 w hm) v

theorem encArr_eq (t : Ty) (vs : List Val) :
    encArr t vs = vs.map (fun v => (isDynamic t, encode t v)) := by
  induction vs with
  | nil => simp [encArr]
  | cons v vs ih => simp [encArr, ih]

theorem allHaveTy_iff (t : Ty) (vs : List Val) :
    allHaveTy vs t = true ↔ ∀ v ∈ vs, v.hasTy t = true := by
  induction vs with
  | nil => simp [allHaveTy]
  | cons v vs ih => simp [allHaveTy, ih]

theorem headSize_dyn {t : Ty} (h : isDynamic t = true) : headSize t = 32 := by
  cases t <;> simp_all [isDynamic, headSize]

/-! ## static components occupy exactly `headSize` bytes -/

theorem leftPad32_length (bs : Bytes) : (leftPad32 bs).length = 32 := by
  simp [leftPad32]; omega

theorem static_length : ∀ (v : Val) (t : Ty), v.hasTy t = true → isDynamic t = false →
    (encode t v).length = headSize t := by
  intro v
  induction v using Val.ind with
  | uint n => intro t h hd; cases t <;> simp_all [Val.hasTy, encode, headSize]
  | addr bs => intro t h hd; cases t <;> simp_all [Val.hasTy, encode, headSize, leftPad32_length]
  | bytes bs => intro t h hd; cases t <;> simp_all [Val.hasTy, isDynamic]
  | str bs => intro t h hd; cases t <;> simp_all [Val.hasTy, isDynamic]
  | arr vs _ => intro t h hd; cases t <;> simp_all [Val.hasTy, isDynamic]
  | tuple vs ih =>
    intro t h hd
    cases t with
    | tuple ts =>
      simp only [Val.hasTy] at h
      simp only [isDynamic] at hd
      have key : ∀ (ts : List Ty) (vs : List Val), (∀ v ∈ vs, ∀ t, v.hasTy t = true → isDynamic t = false →
          (encode t v).length = headSize t) → haveTys vs ts = true → anyDynamic ts = false →
          headLen (encTup ts vs) = headSizes ts ∧ tails (encTup ts vs) = [] := by
        intro ts
        induction ts with
        | nil => intro vs _ _ _; cases vs <;> simp [encTup, headLen, headSizes, tails]
        | cons t ts iht =>
          intro vs ihv hty hdy
          cases vs with
          | nil => simp [haveTys] at hty
          | cons v vs =>
            simp only [haveTys, Bool.and_eq_true] at hty
            simp only [anyDynamic, Bool.or_eq_false_iff] at hdy
            have h1 := ihv v (List.mem_cons_self) t hty.1 hdy.1
            have h2 := iht vs (fun w hw => ihv w (List.mem_cons_of_mem _ hw)) hty.2 hdy.2
            simp [encTup, headLen, headSizes, tails, hdy.1, h1, h2.1, h2.2]
      have k := key ts vs ih h hd
      simp [encode, headSize, hd, assemble_length, k.1, k.2]
    | _ => simp [Val.hasTy] at h

/-! ## round trip -/

theorem leftPad32_of_length {bs : Bytes} (h : bs.length = 20) : leftPad32 bs = zeros 12 ++ bs := by
  simp [leftPad32, h]

theorem padRight_eq (bs : Bytes) : ∃ z, padRight bs = bs ++ z := ⟨_, rfl⟩

/-- Generalised round trip: decoding reads exactly the encoding and ignores what follows. -/
theorem decode_encode_append : ∀ (v : Val) (t : Ty), v.hasTy t = true →
    (encode t v).length < two256 → ∀ rest, decode t (encode t v ++ rest) = some v := by
  intro v
  induction v using Val.ind with
  | uint n =>
    intro t h _ rest
    cases t <;> simp [Val.hasTy] at h
    simp [encode, decode, word_zero h]
  | addr bs =>
    intro t h _ rest
    cases t <;> simp [Val.hasTy] at h
    have h20 : (zeros 12 ++ bs).length = 32 := by simp [h.1]
    simp only [encode, decode, leftPad32_of_length h.1]
    rw [if_pos (by simp; omega), List.take_left' h20, List.drop_left' (by simp)]
  | bytes bs =>
    intro t h _ rest
    cases t <;> simp [Val.hasTy] at h
    obtain ⟨z, hz⟩ := padRight_eq bs
    simp only [encode, decode, hz, List.append_assoc, word_zero h.1]
    rw [if_pos (by simp), if_pos (by simp), List.drop_left' (be32_length _), List.take_left]
  | str bs =>
    intro t h _ rest
    cases t <;> simp [Val.hasTy] at h
    obtain ⟨z, hz⟩ := padRight_eq bs
    simp only [encode, decode, hz, List.append_assoc, word_zero h.1]
    rw [if_pos (by simp), if_pos (by simp), List.drop_left' (be32_length _), List.take_left]
  | arr vs ih =>
    intro t h hlen rest
    cases t with
    | arr t =>
      simp only [Val.hasTy, Bool.and_eq_true, decide_eq_true_eq, allHaveTy_iff] at h
      obtain ⟨hn, hty⟩ := h
      have hok : ∀ (ws : List Val), (∀ w ∈ ws, w ∈ vs) →
          SeqOK (encArr t ws) (List.replicate ws.length (isDynamic t, headSize t, decode t)) ws := by
        intro ws
        induction ws with
        | nil => intro _; exact SeqOK.nil
        | cons w ws ihw =>
          intro hsub
          have hw := hsub w List.mem_cons_self
          simp only [encArr, List.length_cons, List.replicate_succ]
          exact SeqOK.cons (fun hd => static_length w t (hty w hw) hd)
            (fun hl => ih w hw t (hty w hw) hl)
            (ihw (fun x hx => hsub x (List.mem_cons_of_mem _ hx)))
      have hhead : ∀ (ws : List Val), (∀ w ∈ ws, w ∈ vs) →
          headLen (encArr t ws) = ws.length * headSize t := by
        intro ws
        induction ws with
        | nil => intro _; simp [encArr, headLen]
        | cons w ws ihw =>
          intro hsub
          have hw := hsub w List.mem_cons_self
          have := ihw (fun x hx => hsub x (List.mem_cons_of_mem _ hx))
          cases hd : isDynamic t with
          | true => simp [encArr, headLen, hd, this, headSize_dyn hd, Nat.add_mul]; omega
          | false =>
            simp [encArr, headLen, hd, this, static_length w t (hty w hw) hd, Nat.add_mul]; omega
      simp only [encode, List.length_append, be32_length, assemble_length] at hlen
      have hcore := decSeq_core (hok vs (fun _ h => h)) (assemble (encArr t vs) ++ rest) [] [] rest
        (headLen (encArr t vs)) (by simp [assemble]) (by simp) (by simp; omega)
      simp only [encode, decode, List.append_assoc, word_zero hn, List.drop_left' (be32_length _)]
      rw [if_pos (by simp), if_pos (by simp [assemble_length, hhead vs (fun _ h => h)]; omega)]
      simp only [List.length_nil] at hcore
      rw [hcore]; rfl
    | _ => simp [Val.hasTy] at h
  | tuple vs ih =>
    intro t h hlen rest
    cases t with
    | tuple ts =>
      simp only [Val.hasTy] at h
      have hok : ∀ (ts : List Ty) (ws : List Val), (∀ w ∈ ws, w ∈ vs) → haveTys ws ts = true →
          SeqOK (encTup ts ws) (decoders ts) ws := by
        intro ts
        induction ts with
        | nil => intro ws _ hty; cases ws <;> simp [haveTys] at hty; exact SeqOK.nil
        | cons t ts iht =>
          intro ws hsub hty
          cases ws with
          | nil => simp [haveTys] at hty
          | cons w ws =>
            simp only [haveTys, Bool.and_eq_true] at hty
            have hw := hsub w List.mem_cons_self
            simp only [encTup, decoders]
            exact SeqOK.cons (fun hd => static_length w t hty.1 hd)
              (fun hl => ih w hw t hty.1 hl)
              (iht ws (fun x hx => hsub x (List.mem_cons_of_mem _ hx)) hty.2)
      simp only [encode, assemble_length] at hlen
      have hcore := decSeq_core (hok ts vs (fun _ h => h) h) (assemble (encTup ts vs) ++ rest) [] [] rest
        (headLen (encTup ts vs)) (by simp [assemble]) (by simp) (by simp; omega)
      simp only [encode, decode]
      simp only [List.length_nil] at hcore
      rw [hcore]; rfl
    | _ => simp [Val.hasTy] at h

/-- **Round trip** (general: all types, arbitrary nesting, no bound other than the `uint256` range of offsets). -/
theorem decode_encode (t : Ty) (v : Val) (h : v.hasTy t = true) (hlen : (encode t v).length < two256) :
    decode t (encode t v) = some v := by
  simpa using decode_encode_append v t h hlen []

theorem seqOK_args (args : List (Ty × Val)) (h : ∀ a ∈ args, a.2.hasTy a.1 = true) :
    SeqOK (args.map fun a => (isDynamic a.1, encode a.1 a.2)) (decoders (args.map (·.1))) (args.map (·.2)) := by
  induction args with
  | nil => exact SeqOK.nil
  | cons a args ih =>
    have ha := h a List.mem_cons_self
    simp only [List.map_cons, decoders]
    exact SeqOK.cons (fun hd => static_length a.2 a.1 ha hd)
      (fun hl => decode_encode_append a.2 a.1 ha hl)
      (ih (fun x hx => h x (List.mem_cons_of_mem _ hx)))

/-- Round trip for argument lists; bytes after the encoding are ignored. -/
theorem decodeTuple_encodeTuple_append (args : List (Ty × Val)) (h : ∀ a ∈ args, a.2.hasTy a.1 = true)
    (hlen : (encodeTuple args).length < two256) (rest : Bytes) :
    decodeTuple (args.map (·.1)) (encodeTuple args ++ rest) = some (args.map (·.2)) := by
  simp only [encodeTuple, assemble_length] at hlen
  have := decSeq_core (seqOK_args args h) (encodeTuple args ++ rest) [] [] rest _
    (by simp [encodeTuple, assemble]) rfl (by simp; omega)
  simpa [decodeTuple] using this

theorem decodeTuple_encodeTuple (args : List (Ty × Val)) (h : ∀ a ∈ args, a.2.hasTy a.1 = true)
    (hlen : (encodeTuple args).length < two256) :
    decodeTuple (args.map (·.1)) (encodeTuple args) = some (args.map (·.2)) := by
  simpa using decodeTuple_encodeTuple_append args h hlen []

/-- Call data round trip (any selector). -/
theorem decodeCall_encodeCall (sel : Bytes) (args : List (Ty × Val)) (h : ∀ a ∈ args, a.2.hasTy a.1 = true)
    (hlen : (encodeTuple args).length < two256) :
    decodeCall sel (args.map (·.1)) (encodeCall sel args) = some (args.map (·.2)) := by
  simp [decodeCall, encodeCall, decodeTuple_encodeTuple args h hlen]

/-! ## injectivity: what is stored determines what was submitted -/

theorem encode_injective (t : Ty) (v₁ v₂ : Val) (h₁ : v₁.hasTy t = true) (h₂ : v₂.hasTy t = true)
    (hlen : (encode t v₁).length < two256) (heq : encode t v₁ = encode t v₂) : v₁ = v₂ := by
  have e₁ := decode_encode t v₁ h₁ hlen
  have e₂ := decode_encode t v₂ h₂ (heq ▸ hlen)
  rw [heq, e₂] at e₁
  exact (Option.some.inj e₁).symm

theorem encodeTuple_injective (ts : List Ty) (vs₁ vs₂ : List Val)
    (hl₁ : vs₁.length = ts.length) (hl₂ : vs₂.length = ts.length)
    (h₁ : ∀ a ∈ ts.zip vs₁, a.2.hasTy a.1 = true) (h₂ : ∀ a ∈ ts.zip vs₂, a.2.hasTy a.1 = true)
    (hlen : (encodeTuple (ts.zip vs₁)).length < two256)
    (heq : encodeTuple (ts.zip vs₁) = encodeTuple (ts.zip vs₂)) : vs₁ = vs₂ := by
  have e₁ := decodeTuple_encodeTuple _ h₁ hlen
  have e₂ := decodeTuple_encodeTuple _ h₂ (heq ▸ hlen)
  have f₁ : (ts.zip vs₁).map (·.1) = ts := List.map_fst_zip (by omega)
  have f₂ : (ts.zip vs₂).map (·.1) = ts := List.map_fst_zip (by omega)
  have g₁ : (ts.zip vs₁).map (·.2) = vs₁ := List.map_snd_zip (by omega)
  have g₂ : (ts.zip vs₂).map (·.2) = vs₂ := List.map_snd_zip (by omega)
  rw [f₁, g₁] at e₁
  rw [f₂, g₂, ← heq, e₁] at e₂
  exact Option.some.inj e₂

/-! ## shape of encodings: length a multiple of 32, every element a byte -/

/-- A property of byte strings that holds of `[]`, of words, and is closed under `++`, holds of every
head/tail layout of components that have it. -/
theorem assemble_closed (Q : Bytes → Prop) (hnil : Q []) (happ : ∀ a b, Q a → Q b → Q (a ++ b))
    (hw : ∀ n, Q (be32 n)) (items : List Item) (h : ∀ it ∈ items, Q it.2) : Q (assemble items) := by
  have hh : ∀ (items : List Item), (∀ it ∈ items, Q it.2) → ∀ off, Q (heads off items) := by
    intro items
    induction items with
    | nil => intro _ _; exact hnil
    | cons it r ih =>
      intro h off
      obtain ⟨d, e⟩ := it
      have he : Q e := h (d, e) List.mem_cons_self
      have hr := ih (fun x hx => h x (List.mem_cons_of_mem _ hx))
      cases d
      · exact happ _ _ he (hr _)
      · exact happ _ _ (hw _) (hr _)
  have ht : ∀ (items : List Item), (∀ it ∈ items, Q it.2) → Q (tails items) := by
    intro items
    induction items with
    | nil => intro _; exact hnil
    | cons it r ih =>
      intro h
      obtain ⟨d, e⟩ := it
      have he : Q e := h (d, e) List.mem_cons_self
      have hr := ih (fun x hx => h x (List.mem_cons_of_mem _ hx))
      cases d
      · exact hr
      · exact happ _ _ he hr
  exact happ _ _ (hh items h _) (ht items h)

theorem encTup_mem {ts : List Ty} {vs : List Val} {it : Item} (h : it ∈ encTup ts vs) :
    ∃ t v, v ∈ vs ∧ (haveTys vs ts = true → v.hasTy t = true) ∧ it = (isDynamic t, encode t v) := by
  induction ts generalizing vs with
  | nil => simp [encTup] at h
  | cons t ts ih =>
    cases vs with
    | nil => simp [encTup] at h
    | cons v vs =>
      simp only [encTup, List.mem_cons] at h
      rcases h with h | h
      · exact ⟨t, v, List.mem_cons_self, fun hh => by simp [haveTys] at hh; exact hh.1, h⟩
      · obtain ⟨t', v', hm, hty, hit⟩ := ih h
        exact ⟨t', v', List.mem_cons_of_mem _ hm, fun hh => by simp [haveTys] at hh; exact hty hh.2, hit⟩

theorem padRight_length_mod32 (bs : Bytes) : (padRight bs).length % 32 = 0 := by
  simp [padRight]; omega

/-- Every encoding (even of an ill-typed value) is a whole number of 32-byte words. -/
theorem encode_length_mod32 : ∀ (v : Val) (t : Ty), (encode t v).length % 32 = 0 := by
  have hQ : ∀ items : List Item, (∀ it ∈ items, it.2.length % 32 = 0) → (assemble items).length % 32 = 0 :=
    assemble_closed (fun b => b.length % 32 = 0) rfl
      (fun a b ha hb => by simp only [List.length_append]; omega) (fun n => by simp)
  intro v
  induction v using Val.ind with
  | uint n => intro t; cases t <;> simp [encode]
  | addr bs => intro t; cases t <;> simp [encode, leftPad32_length]
  | bytes bs =>
    intro t; have := padRight_length_mod32 bs
    cases t <;> simp [encode] <;> omega
  | str bs =>
    intro t; have := padRight_length_mod32 bs
    cases t <;> simp [encode] <;> omega
  | arr vs ih =>
    intro t
    cases t with
    | arr t =>
      have := hQ (encArr t vs) (by
        intro it hit
        rw [encArr_eq, List.mem_map] at hit
        obtain ⟨v, hv, rfl⟩ := hit
        exact ih v hv t)
      simp only [encode, List.length_append, be32_length]; omega
    | _ => simp [encode]
  | tuple vs ih =>
    intro t
    cases t with
    | tuple ts =>
      simp only [encode]
      apply hQ
      intro it hit
      obtain ⟨t, v, hv, _, rfl⟩ := encTup_mem hit
      exact ih v hv t
    | _ => simp [encode]

theorem encodeTuple_length_mod32 (args : List (Ty × Val)) : (encodeTuple args).length % 32 = 0 := by
  apply assemble_closed (fun b => b.length % 32 = 0) rfl
    (fun a b ha hb => by simp only [List.length_append]; omega) (fun n => by simp)
  intro it hit
  rw [List.mem_map] at hit
  obtain ⟨a, _, rfl⟩ := hit
  exact encode_length_mod32 a.2 a.1

theorem wfBytes_append (a b : Bytes) : wfBytes (a ++ b) = (wfBytes a && wfBytes b) := by
  simp [wfBytes, List.all_append]

theorem wfBytes_zeros (n : Nat) : wfBytes (zeros n) = true := by
  simp [wfBytes, zeros]

theorem wfBytes_beN (k n : Nat) : wfBytes (beN k n) = true := by
  induction k generalizing n with
  | zero => rfl
  | succ k ih => rw [beN, wfBytes_append, ih]; simp [wfBytes]; omega

theorem wfBytes_drop {bs : Bytes} (h : wfBytes bs = true) (n : Nat) : wfBytes (bs.drop n) = true := by
  simp only [wfBytes, List.all_eq_true] at *
  exact fun x hx => h x (List.mem_of_mem_drop hx)

/-- Every element of the encoding of a well-typed value is a byte. -/
theorem encode_wf : ∀ (v : Val) (t : Ty), v.hasTy t = true → wfBytes (encode t v) = true := by
  have hQ : ∀ items : List Item, (∀ it ∈ items, wfBytes it.2 = true) → wfBytes (assemble items) = true :=
    assemble_closed (fun b => wfBytes b = true) rfl
      (fun a b ha hb => by rw [wfBytes_append, ha, hb]; rfl) (fun n => wfBytes_beN 32 n)
  intro v
  induction v using Val.ind with
  | uint n => intro t h; cases t <;> simp [Val.hasTy] at h; exact wfBytes_beN 32 n
  | addr bs =>
    intro t h; cases t <;> simp [Val.hasTy] at h
    simp only [encode, leftPad32, wfBytes_append, wfBytes_zeros, wfBytes_drop h.2]; rfl
  | bytes bs =>
    intro t h; cases t <;> simp [Val.hasTy] at h
    simp only [encode, padRight, wfBytes_append, wfBytes_zeros, h.2]
    simp [be32, wfBytes_beN]
  | str bs =>
    intro t h; cases t <;> simp [Val.hasTy] at h
    simp only [encode, padRight, wfBytes_append, wfBytes_zeros, h.2]
    simp [be32, wfBytes_beN]
  | arr vs ih =>
    intro t h
    cases t with
    | arr t =>
      simp only [Val.hasTy, Bool.and_eq_true, decide_eq_true_eq, allHaveTy_iff] at h
      have := hQ (encArr t vs) (by
        intro it hit
        rw [encArr_eq, List.mem_map] at hit
        obtain ⟨v, hv, rfl⟩ := hit
        exact ih v hv t (h.2 v hv))
      simp only [encode, wfBytes_append, this]
      simp [be32, wfBytes_beN]
    | _ => simp [Val.hasTy] at h
  | tuple vs ih =>
    intro t h
    cases t with
    | tuple ts =>
      simp only [Val.hasTy] at h
      simp only [encode]
      apply hQ
      intro it hit
      obtain ⟨t, v, hv, hty, rfl⟩ := encTup_mem hit
      exact ih v hv t (hty h)
    | _ => simp [Val.hasTy] at h

theorem encodeTuple_wf (args : List (Ty × Val)) (h : ∀ a ∈ args, a.2.hasTy a.1 = true) :
    wfBytes (encodeTuple args) = true := by
  apply assemble_closed (fun b => wfBytes b = true) rfl
    (fun a b ha hb => by rw [wfBytes_append, ha, hb]; rfl) (fun n => wfBytes_beN 32 n)
  intro it hit
  rw [List.mem_map] at hit
  obtain ⟨a, ha, rfl⟩ := hit
  exact encode_wf a.2 a.1 (h a ha)

/-! ## test vectors (kernel evaluation; the expected bytes are written out word by word from the specification) -/

section Vectors

/-- a word that holds the given bytes, zero-padded on the right -/
private def dataWord (bs : Bytes) : Bytes := bs ++ zeros (32 - bs.length)

example : be32 0x123 = zeros 30 ++ [0x01, 0x23] := by decide
example : ofBe (be32 0x123456789abcdef) = 0x123456789abcdef := by decide +kernel
example : padRight [1, 2, 3] = [1, 2, 3] ++ zeros 29 := by decide
example : padRight [] = [] := by decide
example : padRight (zeros 32) = zeros 32 := by decide +kernel

/-- `f(uint256 1, string "ab")`: head = `1`, offset `0x40`; tail = length 2, "ab" padded. -/
example : encodeTuple [(.uint256, .uint 1), (.string, .str [0x61, 0x62])]
    = be32 1 ++ be32 0x40 ++ be32 2 ++ ([0x61, 0x62] ++ zeros 30) := by decide +kernel

/-- `(uint256 0x123, uint256[] [0x456, 0x789])` (Solidity docs, "Use of Dynamic Types"): head = value, offset
`0x40`; tail = length 2, `0x456`, `0x789`. -/
example : encodeTuple [(.uint256, .uint 0x123), (.arr .uint256, .arr [.uint 0x456, .uint 0x789])]
    = be32 0x123 ++ be32 0x40 ++ be32 2 ++ be32 0x456 ++ be32 0x789 := by decide +kernel

/-- An address is left-padded, and a static tuple is encoded in place (no offset). -/
example : encodeTuple [(.tuple [.address, .uint256], .tuple [.addr (List.replicate 20 0xab), .uint 5]), (.uint256, .uint 6)]
    = zeros 12 ++ List.replicate 20 0xab ++ be32 5 ++ be32 6 := by decide +kernel

/-- Solidity docs: `g(uint256[][], string[])` called with `([[1, 2], [3]], ["one", "two", "three"])`,
selector `0x2289b18c`; the 20 words listed in the specification. -/
example : encodeCall [0x22, 0x89, 0xb1, 0x8c]
      [(.arr (.arr .uint256), .arr [.arr [.uint 1, .uint 2], .arr [.uint 3]]),
       (.arr .string, .arr [.str [0x6f, 0x6e, 0x65], .str [0x74, 0x77, 0x6f], .str [0x74, 0x68, 0x72, 0x65, 0x65]])]
    = [0x22, 0x89, 0xb1, 0x8c]
      ++ be32 0x40   -- offset of [[1, 2], [3]]
      ++ be32 0x140  -- offset of ["one", "two", "three"]
      ++ be32 2      -- count for [[1, 2], [3]]
      ++ be32 0x40   -- offset of [1, 2]
      ++ be32 0xa0   -- offset of [3]
      ++ be32 2 ++ be32 1 ++ be32 2   -- [1, 2]
      ++ be32 1 ++ be32 3             -- [3]
      ++ be32 3      -- count for ["one", "two", "three"]
      ++ be32 0x60 ++ be32 0xa0 ++ be32 0xe0  -- offsets of "one", "two", "three"
      ++ be32 3 ++ dataWord [0x6f, 0x6e, 0x65]
      ++ be32 3 ++ dataWord [0x74, 0x77, 0x6f]
      ++ be32 5 ++ dataWord [0x74, 0x68, 0x72, 0x65, 0x65] := by decide +kernel

/-- The `AddProposal` arguments used below: id 7, title "t1", description "d", one target, two values, two
signatures, two call data blobs (one of them empty). -/
def sampleProposal : List Val :=
  [.uint 7, .str [0x74, 0x31], .str [0x64],
   .arr [.addr (List.replicate 20 0x11)],
   .arr [.uint 5, .uint 6],
   .arr [.str [0x66, 0x28, 0x29], .str [0x67, 0x28, 0x75, 0x69, 0x6e, 0x74, 0x32, 0x35, 0x36, 0x29]],
   .arr [.bytes [0xde, 0xad], .bytes []]]

/-- `AddProposal(7, "t1", "d", [0x1111…11], [5, 6], ["f()", "g(uint256)"], [0xdead, 0x])`, word by word. -/
example : encodeTuple (addProposalTys.zip sampleProposal)
    =    be32 7
      ++ be32 0xe0    -- title       (head = 7 words = 0xe0)
      ++ be32 0x120   -- desc        (0xe0 + 0x40)
      ++ be32 0x160   -- targets     (0x120 + 0x40)
      ++ be32 0x1a0   -- values      (0x160 + 0x40)
      ++ be32 0x200   -- signatures  (0x1a0 + 0x60)
      ++ be32 0x2e0   -- calldatas   (0x200 + 0xe0)
      ++ be32 2 ++ dataWord [0x74, 0x31]
      ++ be32 1 ++ dataWord [0x64]
      ++ be32 1 ++ (zeros 12 ++ List.replicate 20 0x11)
      ++ be32 2 ++ be32 5 ++ be32 6
      ++ be32 2 ++ be32 0x40 ++ be32 0x80
           ++ be32 3 ++ dataWord [0x66, 0x28, 0x29]
           ++ be32 10 ++ dataWord [0x67, 0x28, 0x75, 0x69, 0x6e, 0x74, 0x32, 0x35, 0x36, 0x29]
      ++ be32 2 ++ be32 0x40 ++ be32 0x80
           ++ be32 2 ++ dataWord [0xde, 0xad]
           ++ be32 0 := by decide +kernel

/-- the call data of the keeper's `CallEVM(…, "AddProposal", …)`: selector `0x27bc123e` (go-ethereum) + arguments -/
example : (encodeCall [0x27, 0xbc, 0x12, 0x3e] (addProposalTys.zip sampleProposal)).length = 4 + 29 * 32 := by
  decide +kernel

set_option maxRecDepth 100000 in
example : decodeCall [0x27, 0xbc, 0x12, 0x3e] addProposalTys
    (encodeCall [0x27, 0xbc, 0x12, 0x3e] (addProposalTys.zip sampleProposal)) = some sampleProposal := by rfl

/-- …and `QueryProp` returns one dynamic tuple: a single offset word `0x20`, then the same bytes. -/
example : encodeTuple [(proposalTy, .tuple sampleProposal)]
    = be32 0x20 ++ encodeTuple (addProposalTys.zip sampleProposal) := by decide +kernel

/-! ### decoding: evaluation, and rejection of out-of-range offsets and lengths -/

set_option maxRecDepth 100000 in
example : decodeTuple addProposalTys (encodeTuple (addProposalTys.zip sampleProposal)) = some sampleProposal := by
  rfl

set_option maxRecDepth 100000 in
example : decodeTuple [.uint256, .arr .uint256] (be32 0x123 ++ be32 0x40 ++ be32 2 ++ be32 0x456 ++ be32 0x789)
    = some [.uint 0x123, .arr [.uint 0x456, .uint 0x789]] := by rfl

set_option maxRecDepth 100000 in
/-- offset points past the end of the input: rejected -/
example : decodeTuple [.uint256, .arr .uint256] (be32 0x123 ++ be32 0xa1 ++ be32 2 ++ be32 0x456 ++ be32 0x789)
    = none := by rfl

set_option maxRecDepth 100000 in
/-- array length 3 but only two elements present: rejected -/
example : decodeTuple [.uint256, .arr .uint256] (be32 0x123 ++ be32 0x40 ++ be32 3 ++ be32 0x456 ++ be32 0x789)
    = none := by rfl

set_option maxRecDepth 100000 in
/-- `string` length prefix larger than the remaining input: rejected -/
example : decodeTuple [.string] (be32 0x20 ++ be32 33 ++ zeros 32) = none := by rfl

set_option maxRecDepth 100000 in
/-- truncated head: rejected -/
example : decodeTuple [.uint256, .uint256] (be32 1 ++ zeros 31) = none := by rfl

/-! ### non-vacuity: the hypotheses of the theorems hold on the sample -/

example : ∀ a ∈ addProposalTys.zip sampleProposal, a.2.hasTy a.1 = true := by decide +kernel
example : (Val.tuple sampleProposal).hasTy proposalTy = true := by decide +kernel
example : (encodeTuple (addProposalTys.zip sampleProposal)).length = 928 := by decide +kernel
example : (encodeTuple (addProposalTys.zip sampleProposal)).length < two256 := by decide +kernel

/-- the general theorem, instantiated (no evaluation of `decode` involved) -/
example : decodeTuple addProposalTys (encodeTuple (addProposalTys.zip sampleProposal)) = some sampleProposal :=
  decodeTuple_encodeTuple (addProposalTys.zip sampleProposal) (by decide +kernel) (by decide +kernel)

example : decode proposalTy (encode proposalTy (.tuple sampleProposal)) = some (.tuple sampleProposal) :=
  decode_encode _ _ (by decide +kernel) (by decide +kernel)

/-- ill-typed values exist (the typing hypothesis is not trivial): 21-byte address, 2^256, a non-byte -/
example : (Val.addr (zeros 21)).hasTy .address = false := by decide
example : (Val.uint (2 ^ 256)).hasTy .uint256 = false := by decide
example : (Val.str [256]).hasTy .string = false := by decide
/-- …and for them the round trip really fails: `2^256` is encoded as `0`, a 21-byte address is truncated. -/
example : encode .uint256 (.uint (2 ^ 256)) = encode .uint256 (.uint 0) := by decide +kernel
example : encode .address (.addr (1 :: zeros 32)) = encode .address (.addr (2 :: zeros 32)) := by decide +kernel
/-- offsets are words: an offset `≥ 2^256` would be written modulo `2^256` (why `|encoding| < 2^256` is assumed) -/
example : be32 (2 ^ 256 + 64) = be32 64 := by decide +kernel

end Vectors

end Abi
end CV
