import CantoVerif.Props.C02Monitors
import CantoVerif.Props.C08Add
/-!
# C02 — the executable predicate `add_conserves` holds of every successful addition of the model.
-/
namespace CV
namespace Coinswap

/-- the effect list of an addition: the creation-fee effects (on creation) followed by the deposit / mint effects -/
def addAll (env : Env) (created : Bool) (S E : Addr) (fd : Denom) (fee tax : Nat) (std : Denom) (stdIn : Nat)
    (tok : Denom) (tokIn : Nat) (lpt : Denom) (mint : Nat) : List Eff :=
  (if created then creationFeeEffs env S fd fee tax else []) ++ addEffs env S E std stdIn tok tokIn lpt mint

/-- point facts of `addAll`: the module account is only passed through, the fee collector receives exactly the tax,
the provider's pool-token balance and the supplies move as stated -/
theorem addAll_points {env : Env} {b b' : Bank} {created : Bool} {S E : Addr} {fd std tok lpt : Denom}
    {fee tax stdIn tokIn mint : Nat}
    (h : b.applyAll (addAll env created S E fd fee tax std stdIn tok tokIn lpt mint) = .ok b')
    (htax : tax ≤ fee) (hSM : S ≠ env.modAddr) (hEM : E ≠ env.modAddr) (hFM : env.feeCollector ≠ env.modAddr)
    (hSF : S ≠ env.feeCollector) (hEF : E ≠ env.feeCollector)
    (hls : std ≠ lpt) (hlt : tok ≠ lpt) (hlf : fd ≠ lpt) :
    (∀ a d, a ≠ S → a ≠ E → a ≠ env.feeCollector → b'.get a d = b.get a d) ∧
    (∀ d, b'.get env.feeCollector d = b.get env.feeCollector d + (if created = true ∧ d = fd then tax else 0)) ∧
    b'.get S lpt = b.get S lpt + mint ∧
    b'.supply lpt = b.supply lpt + mint ∧
    (∀ d, d ≠ lpt → b'.supply d + (if created = true ∧ d = fd then fee - tax else 0) = b.supply d) := by
  have flow := Bank.applyAll_flow _ _ _ h
  have hMS : env.modAddr ≠ S := fun e => hSM e.symm
  have hME : env.modAddr ≠ E := fun e => hEM e.symm
  have hMF : env.modAddr ≠ env.feeCollector := fun e => hFM e.symm
  have hFS : env.feeCollector ≠ S := fun e => hSF e.symm
  have hFE : env.feeCollector ≠ E := fun e => hEF e.symm
  have hls' : lpt ≠ std := fun e => hls e.symm
  have hlt' : lpt ≠ tok := fun e => hlt e.symm
  have hlf' : lpt ≠ fd := fun e => hlf e.symm
  cases created with
  | false =>
    simp only [addAll, Bool.false_eq_true, if_false, List.nil_append, false_and, Nat.add_zero] at h flow ⊢
    refine ⟨?_, ?_, ?_, ?_, ?_⟩
    · intro a d h1 h2 h3
      have f := (flow a d).1
      simp only [addEffs] at f
      flow_simp at f
      simp only [h1, h2, false_and, if_false] at f
      repeat' split at f
      all_goals omega
    · intro d
      have f := (flow env.feeCollector d).1
      simp only [addEffs] at f
      flow_simp at f
      simp only [hFS, hFE, hFM, false_and, if_false] at f
      omega
    · have f := (flow S lpt).1
      simp only [addEffs] at f
      flow_simp at f
      simp only [hls', hlt', and_false, and_true, true_and, if_false, if_true] at f
      repeat' split at f
      all_goals omega
    · have f := (flow "" lpt).2
      simp only [addEffs] at f
      flow_simp at f
      simp only [if_true] at f
      omega
    · intro d hd
      have f := (flow "" d).2
      simp only [addEffs] at f
      flow_simp at f
      simp only [hd, if_false] at f
      omega
  | true =>
    simp only [addAll, if_true, true_and] at h flow ⊢
    refine ⟨?_, ?_, ?_, ?_, ?_⟩
    · intro a d h1 h2 h3
      have f := (flow a d).1
      simp only [creationFeeEffs, addEffs, List.cons_append, List.nil_append] at f
      flow_simp at f
      simp only [h1, h2, h3, false_and, if_false] at f
      repeat' split at f
      all_goals omega
    · intro d
      have f := (flow env.feeCollector d).1
      simp only [creationFeeEffs, addEffs, List.cons_append, List.nil_append] at f
      flow_simp at f
      simp only [hFS, hFE, hFM, false_and, true_and, if_false] at f
      by_cases hdf : d = fd
      · simp only [hdf, if_true, and_self] at f ⊢
        omega
      · simp only [hdf, if_false, and_false] at f ⊢
        omega
    · have f := (flow S lpt).1
      simp only [creationFeeEffs, addEffs, List.cons_append, List.nil_append] at f
      flow_simp at f
      simp only [hls', hlt', hlf', hSM, hSF, and_false, and_true, true_and, false_and, if_false, if_true] at f
      repeat' split at f
      all_goals omega
    · have f := (flow "" lpt).2
      simp only [creationFeeEffs, addEffs, List.cons_append, List.nil_append] at f
      flow_simp at f
      simp only [hlf', if_false, if_true] at f
      omega
    · intro d hd
      have f := (flow "" d).2
      simp only [creationFeeEffs, addEffs, List.cons_append, List.nil_append] at f
      flow_simp at f
      simp only [hd, if_false] at f
      by_cases hdf : d = fd
      · simp only [hdf, if_true] at f ⊢
        omega
      · simp only [hdf, if_false] at f ⊢
        omega

/-- group totals of `addAll` for a duplicate-free group containing provider and escrow and not the module account -/
theorem addAll_totals {env : Env} {b b' : Bank} {created : Bool} {S E : Addr} {fd std tok lpt : Denom}
    {fee tax stdIn tokIn mint : Nat}
    (h : b.applyAll (addAll env created S E fd fee tax std stdIn tok tokIn lpt mint) = .ok b')
    (htax : tax ≤ fee) (A : List Addr) (hA : A.Nodup)
    (h1 : A.contains S = true) (h2 : A.contains E = true) (h4 : A.contains env.modAddr = false)
    (d : Denom) (hd : d ≠ lpt) :
    (A.contains env.feeCollector = true →
      totalOver b' A d + (if created = true ∧ d = fd then fee - tax else 0) = totalOver b A d) ∧
    (A.contains env.feeCollector = false →
      totalOver b' A d + (if created = true ∧ d = fd then fee else 0) = totalOver b A d) := by
  have g := group_flow _ _ _ A hA h d
  cases created with
  | false =>
    simp only [addAll, Bool.false_eq_true, if_false, List.nil_append, false_and, Nat.add_zero] at g ⊢
    simp only [addEffs] at g
    group_simp at g
    simp only [h1, h2, h4, hd, true_and, false_and, and_false, if_false] at g
    constructor <;> intro _ <;> (repeat' split at g) <;> omega
  | true =>
    simp only [addAll, if_true, true_and] at g ⊢
    simp only [creationFeeEffs, addEffs, List.cons_append, List.nil_append] at g
    group_simp at g
    constructor
    · intro h3
      simp only [h1, h2, h3, h4, hd, true_and, false_and, and_false, if_false] at g
      by_cases hdf : d = fd
      · simp only [hdf, if_true] at g ⊢
        repeat' split at g
        all_goals omega
      · simp only [hdf, if_false] at g ⊢
        repeat' split at g
        all_goals omega
    · intro h3
      have h3' : ¬ (A.contains env.feeCollector = true) := by rw [h3]; exact Bool.false_ne_true
      simp only [h1, h2, h3, h4, hd, true_and, false_and, and_false, if_false, Bool.false_eq_true] at g
      by_cases hdf : d = fd
      · subst hdf
        simp only [if_true, and_self, and_true, true_and] at g ⊢
        repeat' split at g
        all_goals omega
      · simp only [hdf, if_false, and_false] at g ⊢
        repeat' split at g
        all_goals omega

theorem contains_eraseDups {l : List Addr} {a : Addr} : l.eraseDups.contains a = l.contains a := by
  cases h : l.contains a with
  | true =>
    have : a ∈ l := by simpa using h
    simpa using (List.mem_eraseDups.mpr this)
  | false =>
    cases h2 : l.eraseDups.contains a with
    | false => rfl
    | true =>
      have : a ∈ l.eraseDups := by simpa using h2
      rw [List.mem_eraseDups] at this
      have : l.contains a = true := by simpa using this
      rw [h] at this; cases this

open Spec in
/-- the ledger part of `c02_add`, for the effect list `addAll` -/
theorem add_monitor_core {env : Env} {s s' : State} {created : Bool} {S E : Addr} {fd std tok lpt : Denom}
    {fee tax stdIn tokIn mint : Nat}
    (h : s.bank.applyAll (addAll env created S E fd fee tax std stdIn tok tokIn lpt mint) = .ok s'.bank)
    (htax : tax ≤ fee) (hc0 : created = false → fee = 0 ∧ tax = 0)
    (hSE : S ≠ E) (hSM : S ≠ env.modAddr) (hEM : E ≠ env.modAddr) (hFM : env.feeCollector ≠ env.modAddr)
    (hSF : S ≠ env.feeCollector) (hEF : E ≠ env.feeCollector)
    (hls : std ≠ lpt) (hlt : tok ≠ lpt) (hlf : fd ≠ lpt) :
    let A := [S, E].eraseDups
    let A' := if created && fee != 0 then (A ++ [env.feeCollector]).eraseDups else A
    frameOutside s s' A' = true ∧
    (denomsOf s s').all (fun d =>
      if d == lpt then
        s'.bank.supply d == s.bank.supply d + mint && s'.bank.get S d == s.bank.get S d + mint
      else if created && d == fd then
        total s' A' d + (fee - tax) == total s A' d &&
        s'.bank.supply d + (fee - tax) == s.bank.supply d &&
        (A.contains env.feeCollector || fee == 0 || s'.bank.get env.feeCollector d == s.bank.get env.feeCollector d + tax)
      else total s A d == total s' A d && s.bank.supply d == s'.bank.supply d) = true := by
  intro A A'
  obtain ⟨p1, p2, p3, p4, p5⟩ := addAll_points h htax hSM hEM hFM hSF hEF hls hlt hlf
  have hAS : A.contains S = true := by simp [A, contains_eraseDups]
  have hAE : A.contains E = true := by simp [A, contains_eraseDups]
  have hAM : A.contains env.modAddr = false := by
    simp only [A, contains_eraseDups, List.contains_cons, List.contains_nil, Bool.or_false, Bool.or_eq_false_iff, beq_eq_false_iff_ne, ne_eq]
    exact ⟨fun e => hSM e.symm, fun e => hEM e.symm⟩
  have hAF : A.contains env.feeCollector = false := by
    simp only [A, contains_eraseDups, List.contains_cons, List.contains_nil, Bool.or_false, Bool.or_eq_false_iff, beq_eq_false_iff_ne, ne_eq]
    exact ⟨fun e => hSF e.symm, fun e => hEF e.symm⟩
  have hAnd : A.Nodup := nodup_eraseDups _
  -- the larger group
  have hBS : ((A ++ [env.feeCollector]).eraseDups).contains S = true := by
    rw [contains_eraseDups]; simp only [List.contains_append, hAS, Bool.true_or]
  have hBE : ((A ++ [env.feeCollector]).eraseDups).contains E = true := by
    rw [contains_eraseDups]; simp only [List.contains_append, hAE, Bool.true_or]
  have hBF : ((A ++ [env.feeCollector]).eraseDups).contains env.feeCollector = true := by
    simp [contains_eraseDups]
  have hBM : ((A ++ [env.feeCollector]).eraseDups).contains env.modAddr = false := by
    simp only [contains_eraseDups, List.contains_append, hAM, Bool.false_or, List.contains_cons, List.contains_nil, Bool.or_false,
      beq_eq_false_iff_ne, ne_eq]
    exact fun e => hFM e.symm
  constructor
  · -- frame
    simp only [frameOutside, List.all_eq_true, Bool.or_eq_true, beq_iff_eq]
    intro k _
    by_cases hk : A'.contains k.1 = true
    · exact Or.inl hk
    · right
      have hkS : k.1 ≠ S := by
        intro e; apply hk; rw [e]; simp only [A']; split
        · exact hBS
        · exact hAS
      have hkE : k.1 ≠ E := by
        intro e; apply hk; rw [e]; simp only [A']; split
        · exact hBE
        · exact hAE
      by_cases hkF : k.1 = env.feeCollector
      · -- the fee collector is outside the group only when it receives nothing
        rw [hkF]
        have := p2 k.2
        by_cases hcf : (created && fee != 0) = true
        · exfalso; apply hk; rw [hkF]; simp only [A', hcf, if_true]; exact hBF
        · have hz : (if created = true ∧ k.2 = fd then tax else 0) = 0 := by
            cases created with
            | false => simp
            | true =>
              simp only [Bool.true_and, bne_iff_ne, ne_eq, Decidable.not_not] at hcf
              have : tax = 0 := by omega
              simp [this]
          omega
      · exact (p1 k.1 k.2 hkS hkE hkF).symm
  · simp only [List.all_eq_true]
    intro d _
    by_cases hdl : d = lpt
    · subst hdl
      simp only [beq_self_eq_true, if_true, Bool.and_eq_true, beq_iff_eq]
      exact ⟨p4, p3⟩
    · have hdl' : (d == lpt) = false := by simp [hdl]
      simp only [hdl', Bool.false_eq_true, if_false]
      by_cases hcd : (created && d == fd) = true
      · simp only [hcd, if_true, Bool.and_eq_true, Bool.or_eq_true, beq_iff_eq]
        simp only [Bool.and_eq_true, beq_iff_eq] at hcd
        obtain ⟨hcr, hdf⟩ := hcd
        subst hdf
        have s5 := p5 d hdl
        simp only [hcr, and_self, if_true] at s5
        refine ⟨⟨?_, s5⟩, ?_⟩
        · by_cases hf0 : fee = 0
          · have ht0 : tax = 0 := by omega
            have hA'eq : A' = A := by simp [A', hf0]
            rw [hA'eq]
            have := (addAll_totals h htax A hAnd hAS hAE hAM d hdl).2 hAF
            simp only [hcr, and_self, if_true, hf0] at this
            simp only [total, hf0, ht0]
            omega
          · have hA'eq : A' = (A ++ [env.feeCollector]).eraseDups := by simp [A', hcr, hf0]
            rw [hA'eq]
            have := (addAll_totals h htax _ (nodup_eraseDups _) hBS hBE hBM d hdl).1 hBF
            simp only [hcr, and_self, if_true] at this
            simp only [total]
            exact this
        · right
          have := p2 d
          simp only [hcr, and_self, if_true] at this
          exact this
      · simp only [hcd, Bool.false_eq_true, if_false, Bool.and_eq_true, beq_iff_eq]
        have hz : ¬ (created = true ∧ d = fd) := by
          intro ⟨a, b⟩; apply hcd; simp [a, b]
        have s5 := p5 d hdl
        simp only [hz, if_false, Nat.add_zero] at s5
        have := (addAll_totals h htax A hAnd hAS hAE hAM d hdl).2 hAF
        simp only [hz, if_false, Nat.add_zero] at this
        exact ⟨by simp only [total]; exact this.symm, s5.symm⟩

open Spec in
/-- the executable predicate `add_conserves` the driver evaluates on implementation transitions holds of every successful
addition of the model.  Beyond `EnvOK` / `WF`: the provider is no pool address, not the coinswap module account and not
the fee collector; the fee collector is not the module account; the creation-fee denomination is not the new pool token. -/
theorem add_conserves_monitor {env : Env} {s s' : State} {m : MsgAdd} {r : Resp} (hE : EnvOK env) (hW : WF env s)
    (hN : NotEscrow env (.add m)) (hLF : lptName s.seq ≠ s.params.feeDenom)
    (hSM : m.sender.bytes ≠ env.modAddr) (hSF : m.sender.bytes ≠ env.feeCollector)
    (hFM : env.feeCollector ≠ env.modAddr) (h : add env s m = .ok (s', r)) :
    c02_add { env := env, pre := s, op := .add m, ok := true, resp := r, post := s' } = true := by
  obtain ⟨F⟩ := add_ok h
  obtain ⟨hstdtok, _, PF⟩ := planAdd_ok F.hPlan
  have hsb := decode_ok F.hSender
  have hb := F.hBank
  rw [hsb] at hb
  have hpools : s'.pools = F.plan.pools' := congrArg State.pools F.hState
  have hseq : s'.seq = F.plan.seq' := congrArg State.seq F.hState
  have hresp := F.hResp
  have hsenderNe : ∀ l a, env.reserve l = .ok a → m.sender.bytes ≠ a := by
    intro l a hr e
    exact hN m.sender.bytes rfl l (by rw [e]; exact hr)
  cases PF with
  | create tax esc hNone hTax hTaxLe hCap hMin hEsc hPlan =>
    have hfind : s'.poolByCounter m.tokDenom = some { counter := m.tokDenom, lpt := lptName s.seq, escrow := esc } := by
      unfold State.poolByCounter
      rw [hpools, hPlan]
      exact find_insertPool s.pools { counter := m.tokDenom, lpt := lptName s.seq, escrow := esc } hNone
    have hnm := hE.reserveNotMod _ _ hEsc
    rw [hPlan] at hb hresp hpools hseq
    simp only at hb hresp hpools hseq
    subst hresp
    have hb' : s.bank.applyAll (addAll env true m.sender.bytes esc s.params.feeDenom s.params.feeAmt tax s.std m.exact.toNat
        m.tokDenom m.maxToken.toNat (lptName s.seq) m.exact.toNat) = .ok s'.bank := by
      simp only [addAll, if_true]; rw [hsb] at hb; exact hb
    obtain ⟨c1, c2⟩ := add_monitor_core hb' hTaxLe (fun hc => by cases hc) (hsenderNe _ _ hEsc) hSM hnm.1 hFM hSF hnm.2
      (fun e => ne_of_prefix (lptName_prefix s.seq) hW.stdNotLpt e.symm)
      (fun e => ne_of_prefix (lptName_prefix s.seq) F.tokNotLpt e.symm) (fun e => hLF e.symm)
    simp only [c02_add, hfind, hNone, Option.isNone_none, hTax, Bool.not_true, Bool.false_or]
    rw [Bool.and_eq_true, Bool.and_eq_true, Bool.and_eq_true, Bool.and_eq_true]
    refine ⟨⟨⟨⟨?_, c1⟩, c2⟩, ?_⟩, ?_⟩
    · simp
    · simpa using hTaxLe
    · simp [hseq, hpools]
  | refill pool hSome hAcct hL hCap hMin hPlan =>
    obtain ⟨hmem, _⟩ := mem_of_poolByCounter hSome
    have hres := hW.reserveOk pool hmem
    have hnm := hE.reserveNotMod _ _ hres
    rw [hPlan] at hb hresp hpools hseq
    simp only at hb hresp hpools hseq
    subst hresp
    have hfind : s'.poolByCounter m.tokDenom = some pool := by
      unfold State.poolByCounter; rw [hpools]; exact hSome
    have hstdl : s.std ≠ pool.lpt := fun e => ne_of_prefix (hW.lptPrefix pool hmem) hW.stdNotLpt e.symm
    have hb' : s.bank.applyAll (addAll env false m.sender.bytes pool.escrow s.std 0 0 s.std m.exact.toNat
        m.tokDenom m.maxToken.toNat pool.lpt m.exact.toNat) = .ok s'.bank := by
      simp only [addAll, Bool.false_eq_true, if_false]; exact hb
    obtain ⟨c1, c2⟩ := add_monitor_core hb' (Nat.le_refl 0) (fun _ => ⟨rfl, rfl⟩) (hsenderNe _ _ hres) hSM hnm.1 hFM hSF hnm.2
      hstdl (fun e => ne_of_prefix (hW.lptPrefix pool hmem) F.tokNotLpt e.symm) hstdl
    simp only [c02_add, hfind, hSome, Option.isNone_some, Bool.not_true, Bool.false_or]
    rw [Bool.and_eq_true, Bool.and_eq_true, Bool.and_eq_true, Bool.and_eq_true]
    refine ⟨⟨⟨⟨?_, c1⟩, ?_⟩, ?_⟩, ?_⟩
    · simp
    · simp only [Bool.false_and, Bool.false_eq_true, if_false] at c2 ⊢
      exact c2
    · simp
    · simp [hseq, hpools]
  | live pool stdIn mint deposit hSome hAcct hL hRoom hAmts hMin hMax hPlan =>
    obtain ⟨hmem, _⟩ := mem_of_poolByCounter hSome
    have hres := hW.reserveOk pool hmem
    have hnm := hE.reserveNotMod _ _ hres
    rw [hPlan] at hb hresp hpools hseq
    simp only at hb hresp hpools hseq
    subst hresp
    have hfind : s'.poolByCounter m.tokDenom = some pool := by
      unfold State.poolByCounter; rw [hpools]; exact hSome
    have hstdl : s.std ≠ pool.lpt := fun e => ne_of_prefix (hW.lptPrefix pool hmem) hW.stdNotLpt e.symm
    have hb' : s.bank.applyAll (addAll env false m.sender.bytes pool.escrow s.std 0 0 s.std stdIn
        m.tokDenom deposit pool.lpt mint) = .ok s'.bank := by
      simp only [addAll, Bool.false_eq_true, if_false]; exact hb
    obtain ⟨c1, c2⟩ := add_monitor_core hb' (Nat.le_refl 0) (fun _ => ⟨rfl, rfl⟩) (hsenderNe _ _ hres) hSM hnm.1 hFM hSF hnm.2
      hstdl (fun e => ne_of_prefix (hW.lptPrefix pool hmem) F.tokNotLpt e.symm) hstdl
    simp only [c02_add, hfind, hSome, Option.isNone_some, Bool.not_true, Bool.false_or]
    rw [Bool.and_eq_true, Bool.and_eq_true, Bool.and_eq_true, Bool.and_eq_true]
    refine ⟨⟨⟨⟨?_, c1⟩, ?_⟩, ?_⟩, ?_⟩
    · simp
    · simp only [Bool.false_and, Bool.false_eq_true, if_false] at c2 ⊢
      exact c2
    · simp
    · simp [hseq, hpools]

end Coinswap
end CV
