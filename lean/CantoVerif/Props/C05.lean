import CantoVerif.Spec.Epochs
import CantoVerif.Proofs.InflationBlock
import CantoVerif.Proofs.InflationMonitors
/-!
# C05 — inflation mints exactly the epoch provision and distributes all of it.

Listener level (`afterEpochEnd`, every state, every identifier, every epoch number):
`mint_exact`, `staking_exact` (the floor is literal: decimal × integer is exact), `staking_le_minted`,
`community_rest`, `module_empty`, `alloc_frame`, `disabled_skip`, `other_id_noop`.

Block level (`block_effect`): with unique store keys a block runs the effective branch of the
listener at most once, for the record of the effective identifier, iff that record ticks.

History level (`ledger_history`): over every sequence of blocks (any times, any heights), parameter
updates (enable/disable, any valid split and decay parameters, even a changed mint denomination)
and bank transfers (donations to the module accounts included), in any order and of any length:
the supply of every denomination is its initial supply plus the sum of `⌊provision at that tick⌋`
over the minting ticks of that denomination, and `skipped` is its initial value plus the number of
daily epochs that ended while inflation was disabled.
-/
namespace CV
namespace Inflation
open Epochs

variable {env : Env}

/-! ## the listener -/

/-- **mint_exact**: enabled and `id` = configured identifier ⇒ the supply of the mint denomination grows by
exactly `⌊provision⌋`, no other supply changes. -/
theorem mint_exact (hE : EnvOK env) {s s' : Infl} {id : String} {n : Int} (h : afterEpochEnd env s id n = .ok s')
    (hen : s.params.enable = true) (hid : id = s.epochId) (d : Denom) :
    s'.bank.supply d = s.bank.supply d + (if d = s.params.mintDenom then s.provision / S18 else 0) := by
  rcases afterEpochEnd_cases hE h with ⟨h1, _⟩ | ⟨h1, _⟩ | ⟨_, h2, _⟩ | ⟨_, _, M⟩
  · rw [hen] at h1; cases h1
  · rw [hen] at h1; cases h1
  · exact absurd hid h2
  · exact M.alloc.supply d

/-- **staking_exact**: the fee collector receives exactly `⌊minted · stakingRewards⌋`, `minted = ⌊provision⌋`.
(`minted * ρ / 10^18` on integers *is* the floor of the exact product: `stakingShare_ok`.) -/
theorem staking_exact (hE : EnvOK env) {s s' : Infl} {id : String} {n : Int} (h : afterEpochEnd env s id n = .ok s')
    (hen : s.params.enable = true) (hid : id = s.epochId) (d : Denom) :
    s'.bank.get env.feeCollector d = s.bank.get env.feeCollector d +
      (if d = s.params.mintDenom then s.provision / S18 * s.params.stakingRewards / S18 else 0) := by
  rcases afterEpochEnd_cases hE h with ⟨h1, _⟩ | ⟨h1, _⟩ | ⟨_, h2, _⟩ | ⟨_, _, M⟩
  · rw [hen] at h1; cases h1
  · rw [hen] at h1; cases h1
  · exact absurd hid h2
  · exact M.alloc.staking d

/-- **staking_le_minted**: a valid split (`stakingRewards ≤ 1`) never gives staking more than was minted -/
theorem staking_le_minted (minted ratio : Nat) (hr : ratio ≤ S18) : minted * ratio / S18 ≤ minted := by
  apply Nat.div_le_of_le_mul
  rw [Nat.mul_comm S18]
  exact Nat.mul_le_mul_left _ hr

/-- `⌊provision⌋` -/
def mintedOf (s : Infl) : Nat := s.provision / S18
/-- `⌊minted · stakingRewards⌋` -/
def stakingOf (s : Infl) : Nat := mintedOf s * s.params.stakingRewards / S18

theorem community_rest_of_alloc {b b' : Bank} {pl pl' : AMap Denom} {md : Denom} {mi st : Nat}
    (A : AllocFacts env b pl md mi st b' pl') (hle : st ≤ mi) (d : Denom) :
    b'.get env.distr d = b.get env.distr d + (b.get env.infl d + (if d = md then mi - st else 0)) ∧
    pl'.get d = pl.get d + (b.get env.infl d + (if d = md then mi - st else 0)) * S18 := by
  have h1 := A.distr d
  have h2 := A.pool d
  by_cases hd : d = md
  · simp only [hd, if_true] at h1 h2 ⊢
    refine ⟨by omega, ?_⟩
    have : b.get env.infl md + mi = b.get env.infl md + (mi - st) + st := by omega
    rw [this, Nat.add_mul] at h2
    omega
  · simp only [hd, if_false, Nat.add_zero, Nat.zero_mul] at h1 h2 ⊢
    exact ⟨h1, h2⟩

/-- **community_rest**: everything else goes to the community pool — the distribution account and the
`FeePool.CommunityPool` record both grow by `(minted − staking)` of the mint denomination plus *every*
balance the inflation account held before, in every denomination. -/
theorem community_rest (hE : EnvOK env) {s s' : Infl} {id : String} {n : Int} (h : afterEpochEnd env s id n = .ok s')
    (hen : s.params.enable = true) (hid : id = s.epochId) (hv : s.params.stakingRewards ≤ S18) (d : Denom) :
    s'.bank.get env.distr d =
      s.bank.get env.distr d + (s.bank.get env.infl d + (if d = s.params.mintDenom then mintedOf s - stakingOf s else 0)) ∧
    s'.pool.get d =
      s.pool.get d + (s.bank.get env.infl d + (if d = s.params.mintDenom then mintedOf s - stakingOf s else 0)) * S18 := by
  rcases afterEpochEnd_cases hE h with ⟨h1, _⟩ | ⟨h1, _⟩ | ⟨_, h2, _⟩ | ⟨_, _, M⟩
  · rw [hen] at h1; cases h1
  · rw [hen] at h1; cases h1
  · exact absurd hid h2
  · exact community_rest_of_alloc M.alloc (staking_le_minted _ _ hv) d

/-- **module_empty**: after a minting epoch the inflation account holds nothing, in any denomination. -/
theorem module_empty (hE : EnvOK env) {s s' : Infl} {id : String} {n : Int} (h : afterEpochEnd env s id n = .ok s')
    (hen : s.params.enable = true) (hid : id = s.epochId) (d : Denom) : s'.bank.get env.infl d = 0 := by
  rcases afterEpochEnd_cases hE h with ⟨h1, _⟩ | ⟨h1, _⟩ | ⟨_, h2, _⟩ | ⟨_, _, M⟩
  · rw [hen] at h1; cases h1
  · rw [hen] at h1; cases h1
  · exact absurd hid h2
  · exact M.alloc.empty d

/-- nobody but the inflation account, the fee collector and the distribution account is touched, ever -/
theorem alloc_frame (hE : EnvOK env) {s s' : Infl} {id : String} {n : Int} (h : afterEpochEnd env s id n = .ok s')
    (a : Addr) (d : Denom) (h1 : a ≠ env.infl) (h2 : a ≠ env.feeCollector) (h3 : a ≠ env.distr) :
    s'.bank.get a d = s.bank.get a d := by
  rcases afterEpochEnd_cases hE h with ⟨_, _, rfl⟩ | ⟨_, _, rfl⟩ | ⟨_, _, rfl⟩ | ⟨_, _, M⟩
  · rfl
  · rfl
  · rfl
  · exact M.alloc.other a d h1 h2 h3

/-- **disabled_skip**: while disabled nothing is minted or moved, period and provision stay, and the skipped
counter grows by one exactly for the identifier `"day"`. -/
theorem disabled_skip (hE : EnvOK env) {s s' : Infl} {id : String} {n : Int} (h : afterEpochEnd env s id n = .ok s')
    (hen : s.params.enable = false) :
    s' = { s with skipped := s.skipped + (if id = dayId then 1 else 0), skips := s.skips + (if id = dayId then 1 else 0) } := by
  rcases afterEpochEnd_cases hE h with ⟨_, h2, rfl⟩ | ⟨_, h2, rfl⟩ | ⟨h1, _⟩ | ⟨h1, _⟩
  · simp [h2]
  · simp [h2]
  · rw [hen] at h1; cases h1
  · rw [hen] at h1; cases h1

/-- **other_id_noop**: while enabled, the end of an epoch of any other identifier changes nothing at all. -/
theorem other_id_noop (hE : EnvOK env) {s s' : Infl} {id : String} {n : Int} (h : afterEpochEnd env s id n = .ok s')
    (hen : s.params.enable = true) (hid : id ≠ s.epochId) : s' = s := by
  rcases afterEpochEnd_cases hE h with ⟨h1, _⟩ | ⟨h1, _⟩ | ⟨_, _, e⟩ | ⟨_, h2, _⟩
  · rw [hen] at h1; cases h1
  · rw [hen] at h1; cases h1
  · exact e
  · exact absurd h2 hid

/-- the zero-provision edge (`⌊p⌋ = 0`): nothing is minted, the empty sends succeed, the epoch still counts -/
example : (match afterEpochEnd ⟨"i", "f", "d", "b", "stake"⟩
    { bank := ⟨⟨[]⟩, ⟨[]⟩, []⟩, pool := ⟨[]⟩,
      params := { mintDenom := "acanto", a := 0, r := 0, c := 0, bondingTarget := S18, maxVariance := 0, stakingRewards := S18,
                  communityPool := 0, enable := true },
      period := 0, epochId := "day", epp := 30, skipped := 0, provision := 999999999999999999, mints := 0, skips := 0, issued := [] }
    "day" 2 with
    | .ok s' => s'.mints == 1 && s'.bank.supply "acanto" == 0
    | .error _ => false) = true := by decide +kernel

/-- a non-trivial minting epoch: provision 10.5 units, 30% to staking, 7 units of another denomination and 2 of the
mint denomination lying in the inflation account beforehand -/
example : (match afterEpochEnd ⟨"i", "f", "d", "b", "stake"⟩
    { bank := ⟨⟨[(("i", "ausdc"), 7), (("i", "acanto"), 2)]⟩, ⟨[("acanto", 100), ("ausdc", 7)]⟩, ["i", "f", "d"]⟩, pool := ⟨[]⟩,
      params := { mintDenom := "acanto", a := 0, r := 0, c := 0, bondingTarget := S18, maxVariance := 0,
                  stakingRewards := 300000000000000000, communityPool := 700000000000000000, enable := true },
      period := 0, epochId := "day", epp := 30, skipped := 0, provision := 10500000000000000000, mints := 0, skips := 0, issued := [] }
    "day" 2 with
    | .ok s' => s'.bank.supply "acanto" == 110 && s'.bank.get "f" "acanto" == 3 && s'.bank.get "d" "acanto" == 9 &&
                s'.bank.get "d" "ausdc" == 7 && s'.bank.get "i" "acanto" == 0 && s'.bank.get "i" "ausdc" == 0 &&
                s'.pool.get "acanto" == 9 * S18
    | .error _ => false) = true := by decide +kernel

/-! ## one block -/

/-- a block in which the effective branch of the listener runs: the record of the effective identifier ticks -/
def effectiveTick (s : State) (now : Int) : Option EpochInfo :=
  match s.infos.find? (fun e => e.id == effId s.infl) with
  | some e => if action e now = .tick then some e else none
  | none => none

/-- **block_effect**: with unique store keys, a successful block changes the inflation state by *one* listener
call `AfterEpochEnd(effId, CurrentEpoch+1)` if the record of the effective identifier ticks, and not at all
otherwise — however many other identifiers tick in the same block. -/
theorem block_effect (hE : EnvOK env) {s s' : State} {now h : Int} {r : Resp}
    (hnd : (s.infos.map (·.id)).Nodup) (hstep : step env s (.block now h) = .ok (s', r)) :
    match effectiveTick s now with
    | some e => afterEpochEnd env s.infl (effId s.infl) (e.cur + 1) = .ok s'.infl
    | none => s'.infl = s.infl := by
  have := (block_cases hE hnd hstep).2.2.2.2
  unfold effectiveTick
  cases hf : s.infos.find? (fun e => e.id == effId s.infl) with
  | none => rw [hf] at this; exact this
  | some e =>
    rw [hf] at this
    simp only at this ⊢
    by_cases ht : action e now = .tick
    · simp only [ht, if_true] at this ⊢; exact this
    · simp only [ht, if_false] at this ⊢; exact this

/-! ## all histories -/

def issuedSum (d : Denom) (l : List (Denom × Nat)) : Nat := sumBy (fun p => if p.1 = d then p.2 else 0) l

theorem issuedSum_append (d : Denom) (a b : List (Denom × Nat)) : issuedSum d (a ++ b) = issuedSum d a + issuedSum d b :=
  sumBy_append _ a b

/-- ledger invariant relative to a base supply and a base skipped count -/
structure LedgerInv (base : Denom → Nat) (sk0 : Nat) (s : State) : Prop where
  nodup : (s.infos.map (·.id)).Nodup
  supply : ∀ d, s.infl.bank.supply d = base d + issuedSum d s.infl.issued
  skipped : s.infl.skipped = sk0 + s.infl.skips

theorem ledgerInv_hook (hE : EnvOK env) {base : Denom → Nat} {sk0 : Nat} {s s' : Infl} {id : String} {n : Int}
    (h : afterEpochEnd env s id n = .ok s')
    (h1 : ∀ d, s.bank.supply d = base d + issuedSum d s.issued) (h2 : s.skipped = sk0 + s.skips) :
    (∀ d, s'.bank.supply d = base d + issuedSum d s'.issued) ∧ s'.skipped = sk0 + s'.skips := by
  rcases afterEpochEnd_cases hE h with ⟨_, _, rfl⟩ | ⟨_, _, rfl⟩ | ⟨_, _, rfl⟩ | ⟨_, _, M⟩
  · exact ⟨h1, h2⟩
  · exact ⟨h1, by simp only; omega⟩
  · exact ⟨h1, h2⟩
  · refine ⟨fun d => ?_, by rw [M.skipped, M.skips]; exact h2⟩
    rw [M.alloc.supply d, M.issued, issuedSum_append, h1 d]
    simp only [issuedSum, sumBy_cons, sumBy_nil]
    by_cases hd : d = s.params.mintDenom
    · simp [hd]; omega
    · have : ¬ s.params.mintDenom = d := fun e => hd e.symm
      simp [hd, this]

theorem ledgerInv_exec (hE : EnvOK env) (base : Denom → Nat) (sk0 : Nat) (s : State) (op : Op) (hI : LedgerInv base sk0 s) :
    LedgerInv base sk0 (exec env s op) := by
  unfold exec deliver
  split
  · rename_i s' r hstep
    cases op with
    | block now h =>
      obtain ⟨hinfos, _, _, _, _⟩ := block_cases hE hI.nodup hstep
      have heff := block_effect hE hI.nodup hstep
      have hn : (s'.infos.map (·.id)).Nodup := by rw [hinfos, map_advance_ids]; exact hI.nodup
      split at heff
      · obtain ⟨a, b⟩ := ledgerInv_hook hE heff hI.supply hI.skipped
        exact ⟨hn, a, b⟩
      · exact ⟨hn, by rw [heff]; exact hI.supply, by rw [heff]; exact hI.skipped⟩
    | send src dst d amt =>
      simp only [step] at hstep
      obtain ⟨b, hb, hstep⟩ := bind_ok hstep
      injection hstep with hstep
      simp only [Prod.mk.injEq] at hstep
      obtain ⟨rfl, _⟩ := hstep
      refine ⟨hI.nodup, fun d' => ?_, hI.skipped⟩
      have := (Bank.applyAll_flow _ _ _ hb "" d').2
      simp only [burned, minted, sumBy_cons, sumBy_nil, Eff.burned, Eff.minted] at this
      show b.supply d' = _
      rw [← hI.supply d']; omega
    | updateParams auth p =>
      simp only [step] at hstep
      obtain ⟨_, _, hstep⟩ := bind_ok hstep
      obtain ⟨_, _, hstep⟩ := bind_ok hstep
      injection hstep with hstep
      simp only [Prod.mk.injEq] at hstep
      obtain ⟨rfl, _⟩ := hstep
      exact ⟨hI.nodup, hI.supply, hI.skipped⟩
    | sample p x epp b =>
      simp only [step] at hstep
      obtain ⟨_, _, hstep⟩ := bind_ok hstep
      injection hstep with hstep
      simp only [Prod.mk.injEq] at hstep
      obtain ⟨rfl, _⟩ := hstep
      exact hI
  · exact hI

/-- **ledger_history**: for every history (block times in any order and with any gaps, enabling/disabling and
re-parameterising at arbitrary points, arbitrary transfers in between) starting from a state with unique
identifiers: the supply of every denomination equals the initial supply plus the sum of the amounts minted at
the minting ticks (`issued` lists denomination and `⌊provision at that tick⌋` of every one, `mint_exact`), and
`skipped` equals its initial value plus the number of daily epochs that ended while disabled. -/
theorem ledger_history (hE : EnvOK env) (ops : List Op) (s : State) (hn : (s.infos.map (·.id)).Nodup)
    (hg : s.infl.issued = [] ∧ s.infl.skips = 0) :
    (∀ d, (run env s ops).infl.bank.supply d = s.infl.bank.supply d + issuedSum d (run env s ops).infl.issued) ∧
    (run env s ops).infl.skipped = s.infl.skipped + (run env s ops).infl.skips := by
  have h0 : LedgerInv (fun d => s.infl.bank.supply d) s.infl.skipped s :=
    ⟨hn, fun d => by rw [hg.1]; rfl, by rw [hg.2]; rfl⟩
  have := foldl_inv (exec env) (LedgerInv (fun d => s.infl.bank.supply d) s.infl.skipped)
    (fun s o h => ledgerInv_exec hE _ _ s o h) ops s h0
  exact ⟨this.supply, this.skipped⟩

/-- what the ghost counters count, per block: `mints` grows by the number of end-of-epoch notifications of the
configured identifier while enabled, `skips` by the number of `"day"` notifications while disabled (each 0 or 1
per block, `at_most_one_per_block`) -/
theorem ghost_counts (hE : EnvOK env) {s s' : State} {now h : Int} {r : Resp}
    (hnd : (s.infos.map (·.id)).Nodup) (hstep : step env s (.block now h) = .ok (s', r)) :
    s'.infl.mints = s.infl.mints + (if s.infl.params.enable then (ends s.infl.epochId (s.infos.flatMap (calls now))).length else 0) ∧
    s'.infl.skips = s.infl.skips + (if s.infl.params.enable then 0 else (ends dayId (s.infos.flatMap (calls now))).length) := by
  have heff := block_effect hE hnd hstep
  -- number of end-of-epoch notifications of the effective identifier
  have hlen : (ends (effId s.infl) (s.infos.flatMap (calls now))).length = (match effectiveTick s now with | some _ => 1 | none => 0) := by
    unfold effectiveTick
    cases hf : s.infos.find? (fun e => e.id == effId s.infl) with
    | none =>
      simp only
      rw [ends_of_other]; · rfl
      intro c hc
      simp only [List.mem_flatMap] at hc
      obtain ⟨y, hy, hcy⟩ := hc
      rw [calls_id now y c hcy]
      exact find_id_none hf y hy
    | some e =>
      obtain ⟨hm, hid⟩ := find_id_some hf
      simp only
      rw [← hid, ends_flatMap now s.infos hnd e hm, ends_calls]
      split <;> simp
  cases hen : s.infl.params.enable with
  | true =>
    have he : effId s.infl = s.infl.epochId := by unfold effId; rw [hen]; rfl
    rw [he] at hlen
    simp only [if_true, hlen]
    split at heff
    · rcases afterEpochEnd_cases hE heff with ⟨h1, _⟩ | ⟨h1, _⟩ | ⟨_, h2, _⟩ | ⟨_, _, M⟩
      · rw [hen] at h1; cases h1
      · rw [hen] at h1; cases h1
      · exact absurd he h2
      · exact ⟨M.mints, by rw [M.skips]; rfl⟩
    · rw [heff]; exact ⟨rfl, rfl⟩
  | false =>
    have he : effId s.infl = dayId := by unfold effId; rw [hen]; rfl
    rw [he] at hlen
    simp only [Bool.false_eq_true, if_false, hlen]
    split at heff
    · rcases afterEpochEnd_cases hE heff with ⟨_, h2, _⟩ | ⟨_, _, e⟩ | ⟨h1, _⟩ | ⟨h1, _⟩
      · exact absurd he h2
      · rw [e]; exact ⟨rfl, rfl⟩
      · rw [hen] at h1; cases h1
      · rw [hen] at h1; cases h1
    · rw [heff]; exact ⟨rfl, rfl⟩

/-! ## the monitors of `Spec/Epochs.lean` hold on every block transition of the model -/

open Spec in
/-- a block that leaves the ledger alone and is not a minting block satisfies the ledger monitors -/
theorem quiet_block_monitors (t : Tr) (now h : Int) (hop : t.op = .block now h) (hm : minting t = false)
    (hb : t.post.infl.bank = t.pre.infl.bank) :
    c05_mint_exact t = true ∧ c05_staking_exact t = true ∧ c05_community_rest t = true ∧ c05_module_empty t = true ∧
    c05_frame t = true := by
  refine ⟨?_, ?_, ?_, ?_, ?_⟩
  · simp only [c05_mint_exact, onBlock, hop, hm, hb, Bool.false_and, Bool.false_eq_true, if_false, Nat.add_zero, beq_self_eq_true,
      List.all_eq_true, Bool.or_eq_true, implies_true, or_true]
  · simp only [c05_staking_exact, onBlock, hop, hm, Bool.not_false, Bool.true_or, Bool.or_true]
  · simp only [c05_community_rest, onBlock, hop, hm, Bool.not_false, Bool.true_or, Bool.or_true]
  · simp only [c05_module_empty, onBlock, hop, hm, Bool.not_false, Bool.true_or, Bool.or_true]
  · simp [c05_frame, onBlock, hop, hb]

open Spec in
/-- every C05 monitor evaluates to `true` on every successful block transition of the model (unique identifiers,
distinct module accounts, staking share of the split at most 1) -/
theorem c05_monitors_model (hE : EnvOK env) {s s' : State} {now h : Int} {log : List Call}
    (hnd : (s.infos.map (·.id)).Nodup) (hv : s.infl.params.stakingRewards ≤ S18)
    (hstep : step env s (.block now h) = .ok (s', .block log)) :
    let t : Tr := { env := env, pre := s, op := .block now h, ok := true, resp := .block log, post := s', logKnown := true, negative := false }
    c05_mint_exact t = true ∧ c05_staking_exact t = true ∧ c05_community_rest t = true ∧ c05_module_empty t = true ∧
    c05_disabled_skip t = true ∧ c05_other_id_noop t = true ∧ c05_frame t = true ∧ c05_rejected_unchanged t = true := by
  intro t
  have hrej : c05_rejected_unchanged t = true := by simp [c05_rejected_unchanged, t]
  rcases block_summary hE hnd hstep t rfl rfl with ⟨hen, htk, n, M⟩ | ⟨hen, htk, hsame⟩ | ⟨hen, htk, hskip⟩ | ⟨hen, htk, hsame⟩
  · -- a minting block
    have hmint : minting t = true := by simp only [minting, t]; rw [hen]; exact htk
    have A := M.alloc
    have hle : s.infl.provision / S18 * s.infl.params.stakingRewards / S18 ≤ s.infl.provision / S18 := staking_le_minted _ _ hv
    refine ⟨?_, ?_, ?_, ?_, ?_, ?_, ?_, hrej⟩
    · simp only [c05_mint_exact, onBlock, t, Bool.not_true, Bool.false_or, List.all_eq_true, beq_iff_eq]
      intro d _
      rw [A.supply d]
      change _ = _ + (if (minting t && d == s.infl.params.mintDenom) = true then s.infl.provision / S18 else 0)
      rw [hmint]
      by_cases hd : d = s.infl.params.mintDenom <;> simp [hd]
    · simp only [c05_staking_exact, onBlock, t, Bool.not_true, Bool.false_or, Bool.or_eq_true, List.all_eq_true, beq_iff_eq]
      right
      intro d _
      rw [A.staking d]
      rfl
    · simp only [c05_community_rest, onBlock, t, Bool.not_true, Bool.false_or, Bool.or_eq_true, List.all_eq_true]
      right
      intro d _
      obtain ⟨c1, c2⟩ := community_rest_of_alloc A hle d
      simp only [stakingAmt, mintedAmt, Bool.and_eq_true, beq_iff_eq]
      exact ⟨⟨decide_eq_true hle, c1⟩, c2⟩
    · simp only [c05_module_empty, onBlock, t, Bool.not_true, Bool.false_or, Bool.or_eq_true, List.all_eq_true, beq_iff_eq]
      right
      intro d _
      exact A.empty d
    · simp [c05_disabled_skip, onBlock, t, hen]
    · simp only [c05_other_id_noop, onBlock, t, Bool.not_true, Bool.false_or, Bool.or_eq_true, Bool.and_eq_true, beq_iff_eq]
      right
      exact ⟨M.skipped, Or.inl hmint⟩
    · simp only [c05_frame, onBlock, t, Bool.not_true, Bool.false_or, List.all_eq_true, Bool.or_eq_true, beq_iff_eq]
      intro k _
      by_cases h1 : k.1 = env.infl
      · exact Or.inl (Or.inl (Or.inl h1))
      · by_cases h2 : k.1 = env.feeCollector
        · exact Or.inl (Or.inl (Or.inr h2))
        · by_cases h3 : k.1 = env.distr
          · exact Or.inl (Or.inr h3)
          · exact Or.inr (A.other k.1 k.2 h1 h2 h3).symm
  · -- enabled, the configured identifier did not tick
    have hmint : minting t = false := by simp only [minting, t]; rw [hen]; exact htk
    obtain ⟨q1, q2, q3, q4, q5⟩ := quiet_block_monitors t now h rfl hmint (by show s'.infl.bank = _; rw [hsame])
    refine ⟨q1, q2, q3, q4, ?_, ?_, q5, hrej⟩
    · simp [c05_disabled_skip, onBlock, t, hen]
    · simp only [c05_other_id_noop, onBlock, t, Bool.not_true, Bool.false_or, Bool.or_eq_true, Bool.and_eq_true, beq_iff_eq]
      right
      refine ⟨by rw [hsame], Or.inr ⟨⟨sameLedger_refl _ _ (by rw [hsame]) (by rw [hsame]), by rw [hsame]⟩, by rw [hsame]⟩⟩
  · -- disabled, a daily epoch ended
    have hmint : minting t = false := by simp only [minting, t]; rw [hen]; rfl
    obtain ⟨q1, q2, q3, q4, q5⟩ := quiet_block_monitors t now h rfl hmint (by show s'.infl.bank = _; rw [hskip])
    refine ⟨q1, q2, q3, q4, ?_, ?_, q5, hrej⟩
    · simp only [c05_disabled_skip, onBlock, t, Bool.not_true, Bool.false_or, Bool.or_eq_true, Bool.and_eq_true, beq_iff_eq]
      right
      refine ⟨⟨⟨sameLedger_refl _ _ (by rw [hskip]) (by rw [hskip]), by rw [hskip]⟩, by rw [hskip]⟩, ?_⟩
      rw [htk, hskip]; rfl
    · simp [c05_other_id_noop, onBlock, t, hen]
  · -- disabled, no daily epoch ended
    have hmint : minting t = false := by simp only [minting, t]; rw [hen]; rfl
    obtain ⟨q1, q2, q3, q4, q5⟩ := quiet_block_monitors t now h rfl hmint (by show s'.infl.bank = _; rw [hsame])
    refine ⟨q1, q2, q3, q4, ?_, ?_, q5, hrej⟩
    · simp only [c05_disabled_skip, onBlock, t, Bool.not_true, Bool.false_or, Bool.or_eq_true, Bool.and_eq_true, beq_iff_eq]
      right
      refine ⟨⟨⟨sameLedger_refl _ _ (by rw [hsame]) (by rw [hsame]), by rw [hsame]⟩, by rw [hsame]⟩, ?_⟩
      rw [htk, hsame]; rfl
    · simp [c05_other_id_noop, onBlock, t, hen]

end Inflation
end CV
