import CantoVerif.Props.C11
/-!
# C11 — the remaining monitors of `Spec/Onboarding.lean` hold of every transition of the model.

`Props/C11.lean` links `c11_ack_passthrough`, `c11_conservation`, `c11_unkept_unchanged` and
`c11_prior_untouched` (`ack_monitor`, `conservation_monitor`, `unkept_monitor`, `prior_monitor`).
This file links the other four and bundles all eight:

* `guards_monitor`                    — `c11_guards`                    (no hypothesis)
* `no_partial_swap_monitor`           — `c11_no_partial_swap`
* `swap_iff_below_threshold_monitor`  — `c11_swap_iff_below_threshold`
* `no_partial_convert_monitor`        — `c11_no_partial_convert`
* `monitors_modelTr`                  — every entry of `Spec.monitors` is `true` on `modelTr env s op`, the
  transition built from the model's own `step` (any operation; accepted: `ok = true`, the model's response
  and post-state; rejected: `ok = false`, `pass`, the state unchanged — what `exec` does, `modelTr_post`).

The per-packet theorems are about `recv env s p = .ok (s', resp)` for arbitrary `env s p` (every pool,
whitelist, registry, amount, prior balance, oracle answer) with `Tr = ⟨env, s, .recv p, true, resp, s'⟩`;
no field of `Tr` comes from the harness.  Hypotheses (exactly those of `conservation_monitor`,
bundled as `PacketWorld`): `ModuleInv` (an invariant of every history), reserve addresses are
neither the credit's source account nor the erc20 module account, the erc20 module account is not
the credit's source, and the escrow address recorded with the pool of the transferred coin is the
reserve address of its liquidity token.  They are needed because the monitors read the *ledger*
(`swappedIn`, `convertedIn`: what the pool's recorded escrow account / the module account gained)
where the model's theorems speak of `resp.swapped` / `resp.converted`:
`swappedIn_eq` identifies the two.  Without them the monitors are false of the model, e.g. a pool
whose reserve address *is* the erc20 module account: a packet that is converted but not swapped
makes the "pool" gain the converted vouchers without paying the threshold, and
`c11_no_partial_swap` answers `false`.

One fact had to be proved that no property theorem of `Props/C11.lean` states: when the oracle
answers success, the model's `ConvertCoin` cannot fail for lack of funds
(`convertCached_ok_done`, `autoSwap_leaves_rest`, `credited_rcpt_ge`) — otherwise
`resp.convAmt > 0` would be reported with nothing converted and `c11_no_partial_convert` would be
false of the model.

## Finding while linking: a blind spot of `c11_no_partial_convert` (the monitor, not the model) — closed

As first written the monitor compared the token ledgers only on `tokKeys pre post` — the keys that occur in
one of the two observed ledgers.  An implementation transition that escrows the vouchers in the erc20 module
account but credits **no** token to a holder that has no ledger entry yet (key `(contract, recipient)` in
neither ledger) passed it: the required `+ convAmt` at `(pair.contract, r)` was never evaluated.  The monitor
now evaluates that key explicitly (`(pair.contract, r) :: tokKeys pre post`); the last `example` of this file
is the former blind-spot instance (`exState`, 100 vouchers, post-state's token ledger emptied, 79 vouchers
escrowed, 0 tokens credited), which the monitor now refuses.  The link theorem holds for every key, so it
was unaffected by the strengthening.
-/
namespace CV
namespace Onboarding
open Spec
open Coinswap (lookupD)

/-! ## small facts about the harness-side definitions -/

theorem recv_credit_ok {env : Env} {s s' : State} {p : Packet} {resp : Resp}
    (h : recv env s p = .ok (s', resp)) (hu : p.underOk = true) :
    ∃ b, s.cs.bank.applyAll (creditEffs p) = .ok b := by
  have F := recv_ok h
  cases F with
  | refused hu' _ _ => rw [hu] at hu'; cases hu'
  | kept _ b hb _ _ => exact ⟨b, hb⟩
  | dropped _ b hb _ _ _ _ => exact ⟨b, hb⟩

theorem afterCredit_eq {env : Env} {s s' : State} {p : Packet} {resp : Resp} {ok : Bool} {b : Bank}
    (hb : s.cs.bank.applyAll (creditEffs p) = .ok b) :
    afterCredit { env := env, pre := s, op := .recv p, ok := ok, resp := resp, post := s' } p = some (credited s p b) := by
  unfold afterCredit
  simp only [hb]

/-! ## guards -/

theorem guards_monitor {env : Env} {s s' : State} {p : Packet} {resp : Resp} (h : recv env s p = .ok (s', resp)) :
    c11_guards { env := env, pre := s, op := .recv p, ok := true, resp := resp, post := s' } = true := by
  unfold c11_guards
  simp only [Bool.not_true, Bool.false_or]
  by_cases hu : p.underOk = true
  · obtain ⟨b, hb⟩ := recv_credit_ok h hu
    simp only [hu, Bool.not_true, Bool.false_eq_true, if_false, afterCredit_eq hb]
    by_cases hbl : (!(credited s p b).ob.enabled || !(credited s p b).ob.channels.contains p.dstChannel ||
        (parsable p && (credited s p b).macc.contains p.receiver.bytes)) = true
    · have hg : s.ob.enabled = false ∨ s.ob.channels.contains p.dstChannel = false ∨
          (p.sender.form = .lower ∧ p.receiver.form = .lower ∧ (creditMacc s.macc p.credit).contains p.receiver.bytes = true) := by
        simp only [credited_ob, credited_macc, parsable, Bool.or_eq_true, Bool.not_eq_true', Bool.and_eq_true, beq_iff_eq] at hbl
        rcases hbl with (h1 | h1) | ⟨⟨h1, h2⟩, h3⟩
        · exact Or.inl h1
        · exact Or.inr (Or.inl h1)
        · exact Or.inr (Or.inr ⟨h1, h2, h3⟩)
      obtain ⟨b', hb', hs, hr⟩ := guards h hu hg
      rw [hb] at hb'; injection hb' with hb'; subst hb'
      subst hs hr
      simp [pass, sameState_refl]
    · have : (!(credited s p b).ob.enabled || !(credited s p b).ob.channels.contains p.dstChannel ||
        (parsable p && (credited s p b).macc.contains p.receiver.bytes)) = false := by simpa using hbl
      simp only [this, Bool.not_false, Bool.true_or]
  · have hu' : p.underOk = false := by simpa using hu
    obtain ⟨hs, hr⟩ := refused_unchanged h hu'
    subst hs hr
    simp [hu', pass, sameState_refl]

/-! ## the pool the monitors look at is the pool the model trades on -/

/-- for a kept packet with a swap: the pool registered for the transferred coin is the pool the model traded on;
its escrow account is not the recipient, received exactly `swapped` and paid exactly the threshold -/
theorem swap_pool {env : Env} {s s' : State} {p : Packet} {resp : Resp}
    (h : recv env s p = .ok (s', resp)) (hu : p.underOk = true) (ha : resp.ack = .given)
    (hM : ModuleInv env s) (hsrc : Credit.src p.credit ≠ p.receiver.bytes)
    (hD : ∀ l esc, env.cs.reserve l = .ok esc → Distinct env p esc) (hms : env.erc20Mod ≠ Credit.src p.credit)
    (hWF : ∀ q, s.cs.poolByCounter p.denom = some q → env.cs.reserve q.lpt = .ok q.escrow)
    (hpos : 0 < resp.swapped) :
    ∃ q, s.cs.poolByCounter p.denom = some q ∧ q.escrow ≠ p.receiver.bytes ∧ s.cs.std ≠ p.denom ∧
      s'.cs.bank.get q.escrow p.denom = s.cs.bank.get q.escrow p.denom + resp.swapped ∧
      s'.cs.bank.get q.escrow s.cs.std + s.ob.threshold = s.cs.bank.get q.escrow s.cs.std := by
  have K := recv_kept h hu ha
  obtain ⟨esc, hf, hsw⟩ := K.flows
  obtain ⟨b, bought, _, hlt, _, ht⟩ := hsw hpos
  obtain ⟨_, hvs, _, _, _, q, hfind, hres⟩ := trade_buy_facts ht
  obtain ⟨hre, _, _, _, _⟩ := swap_distinct ht hlt
  have hco : Coinswap.counterOf s.cs.std s.cs.std p.denom = p.denom := by simp [Coinswap.counterOf]
  have hfind' : s.cs.poolByCounter p.denom = some q := by
    have : (credited s p b).cs.poolByCounter (Coinswap.counterOf (credited s p b).cs.std s.cs.std p.denom) = some q := hfind
    rw [credited_std, hco] at this
    exact this
  have hesc : q.escrow = esc := by
    have := hWF q hfind'
    rw [hres] at this; injection this with this; exact this.symm
  obtain ⟨_, hsw2⟩ := conservation_ledger h hu ha hM hsrc hD hms
  obtain ⟨esc', ⟨q', hf', hr'⟩, hg1, hg2⟩ := hsw2 hpos
  have hq' : q' = q := by
    rw [hco, hfind'] at hf'; injection hf' with hf'; exact hf'.symm
  subst hq'
  have hesc' : esc' = esc := by
    rw [hres] at hr'; injection hr' with hr'; exact hr'.symm
  subst hesc'
  refine ⟨q', hfind', ?_, hvs, ?_, ?_⟩
  · rw [hesc]; exact hre
  · rw [hesc]; exact hg1
  · rw [hesc]; exact hg2

/-- for a kept packet without a swap, the escrow account of the registered pool is untouched -/
theorem noswap_pool {env : Env} {s s' : State} {p : Packet} {resp : Resp}
    (h : recv env s p = .ok (s', resp)) (hu : p.underOk = true) (ha : resp.ack = .given)
    (hD : ∀ l esc, env.cs.reserve l = .ok esc → Distinct env p esc)
    (hWF : ∀ q, s.cs.poolByCounter p.denom = some q → env.cs.reserve q.lpt = .ok q.escrow)
    (h0 : resp.swapped = 0) {q : Coinswap.Pool} (hq : s.cs.poolByCounter p.denom = some q)
    (hqr : q.escrow ≠ p.receiver.bytes) (d : Denom) :
    s'.cs.bank.get q.escrow d = s.cs.bank.get q.escrow d := by
  have hd := hD _ _ (hWF q hq)
  exact no_swap_pools_untouched h hu ha h0 q.escrow hqr hd.escNotErc20 hd.escNotSrc d

/-- the ledger quantity `swappedIn` of the monitors is the model's `resp.swapped` -/
theorem swappedIn_eq {env : Env} {s s' : State} {p : Packet} {resp : Resp} {ok : Bool}
    (h : recv env s p = .ok (s', resp)) (hu : p.underOk = true) (ha : resp.ack = .given)
    (hM : ModuleInv env s) (hsrc : Credit.src p.credit ≠ p.receiver.bytes)
    (hD : ∀ l esc, env.cs.reserve l = .ok esc → Distinct env p esc) (hms : env.erc20Mod ≠ Credit.src p.credit)
    (hWF : ∀ q, s.cs.poolByCounter p.denom = some q → env.cs.reserve q.lpt = .ok q.escrow) :
    swappedIn { env := env, pre := s, op := .recv p, ok := ok, resp := resp, post := s' } p = resp.swapped := by
  unfold swappedIn poolEscrow gain
  by_cases h0 : resp.swapped = 0
  · cases hq : s.cs.poolByCounter p.denom with
    | none => simp [h0]
    | some q =>
      simp only [Option.map_some]
      by_cases hqr : q.escrow = p.receiver.bytes
      · simp [hqr, h0]
      · have e := noswap_pool h hu ha hD hWF h0 hq hqr p.denom
        simp [hqr, h0, e]
  · obtain ⟨q, hq, hqr, _, hg, _⟩ := swap_pool h hu ha hM hsrc hD hms hWF (by omega)
    simp only [hq, Option.map_some]
    have : (q.escrow == p.receiver.bytes) = false := by simpa using hqr
    simp only [this, Bool.false_eq_true, if_false]
    omega

theorem not_kept_cases {p : Packet} {resp : Resp} (hk : ¬ (p.underOk = true ∧ resp.ack = .given)) :
    p.underOk = false ∨ resp.ack ≠ .given := by
  by_cases hu : p.underOk = true
  · exact Or.inr (fun ha => hk ⟨hu, ha⟩)
  · exact Or.inl (by simpa using hu)

theorem src_of_not_degenerate {p : Packet} (hdeg : ¬ degenerate p = true) : Credit.src p.credit ≠ p.receiver.bytes := by
  intro e; apply hdeg; unfold degenerate; simp [e]

/-! ## no partial swap -/

/-- `c11_no_partial_swap` holds of every model transition `recv env s p = .ok (s', resp)`.
Hypotheses: those of `conservation_monitor` (the erc20 module account is a module account; reserve
addresses are not the credit's source nor the erc20 module account; the pool record's escrow address
is the reserve address of its liquidity token). -/
theorem no_partial_swap_monitor {env : Env} {s s' : State} {p : Packet} {resp : Resp}
    (hM : ModuleInv env s) (h : recv env s p = .ok (s', resp))
    (hD : ∀ l esc, env.cs.reserve l = .ok esc → Distinct env p esc) (hms : env.erc20Mod ≠ Credit.src p.credit)
    (hWF : ∀ q, s.cs.poolByCounter p.denom = some q → env.cs.reserve q.lpt = .ok q.escrow) :
    c11_no_partial_swap { env := env, pre := s, op := .recv p, ok := true, resp := resp, post := s' } = true := by
  unfold c11_no_partial_swap
  simp only [Bool.not_true, Bool.false_or, Bool.or_eq_true]
  by_cases hdeg : degenerate p = true
  · exact Or.inl hdeg
  · right
    have hsrc := src_of_not_degenerate hdeg
    unfold poolEscrow
    cases hq : s.cs.poolByCounter p.denom with
    | none => simp
    | some q =>
      simp only [Option.map_some, Bool.or_eq_true, beq_iff_eq, Bool.and_eq_true, decide_eq_true_eq]
      simp only [gain, loss]
      by_cases hqr : q.escrow = p.receiver.bytes
      · exact Or.inl (Or.inl hqr)
      · by_cases hk : p.underOk = true ∧ resp.ack = .given
        · obtain ⟨hu, ha⟩ := hk
          by_cases h0 : resp.swapped = 0
          · left; right
            rw [noswap_pool h hu ha hD hWF h0 hq hqr p.denom, noswap_pool h hu ha hD hWF h0 hq hqr s.cs.std]
            omega
          · right
            obtain ⟨q', hq', _, _, hg1, hg2⟩ := swap_pool h hu ha hM hsrc hD hms hWF (by omega)
            rw [hq] at hq'; injection hq' with hq'; subst hq'
            have e := (swap_credits_threshold h hu ha hsrc (by omega)).1
            omega
        · left; right
          rw [(recv_unkept h (not_kept_cases hk)).1]
          omega

/-! ## a swap iff below the threshold -/

theorem guardsPass_iff (s0 : State) (p : Packet) : guardsPass s0 p = true ↔ GuardsOK s0 p := by
  unfold guardsPass GuardsOK parsable
  simp only [Bool.and_eq_true, beq_iff_eq, Bool.not_eq_true']
  constructor
  · rintro ⟨⟨⟨h1, h2⟩, h3, h4⟩, h5⟩; exact ⟨h1, h2, h3, h4, h5⟩
  · rintro ⟨h1, h2, h3, h4, h5⟩; exact ⟨⟨⟨h1, h2⟩, h3, h4⟩, h5⟩

/-- without a swap, the recipient's standard-coin balance is as before (when the transferred coin is not the standard coin) -/
theorem noswap_rcpt_std {env : Env} {s s' : State} {p : Packet} {resp : Resp}
    (h : recv env s p = .ok (s', resp)) (hu : p.underOk = true) (ha : resp.ack = .given)
    (hsrc : Credit.src p.credit ≠ p.receiver.bytes) (h0 : resp.swapped = 0) (hne : p.denom ≠ s.cs.std) :
    s'.cs.bank.get p.receiver.bytes s.cs.std = s.cs.bank.get p.receiver.bytes s.cs.std := by
  obtain ⟨esc, hf, _⟩ := (recv_kept h hu ha).flows
  have e := kept_balance hf p.receiver.bytes s.cs.std
  rw [unescrowed_rcpt hsrc] at e
  have : ¬ s.cs.std = p.denom := fun e => hne e.symm
  simp [h0, this] at e
  omega

/-- `c11_swap_iff_below_threshold` holds of every model transition `recv env s p = .ok (s', resp)`,
under the hypotheses of `conservation_monitor`. -/
theorem swap_iff_below_threshold_monitor {env : Env} {s s' : State} {p : Packet} {resp : Resp}
    (hM : ModuleInv env s) (h : recv env s p = .ok (s', resp))
    (hD : ∀ l esc, env.cs.reserve l = .ok esc → Distinct env p esc) (hms : env.erc20Mod ≠ Credit.src p.credit)
    (hWF : ∀ q, s.cs.poolByCounter p.denom = some q → env.cs.reserve q.lpt = .ok q.escrow) :
    c11_swap_iff_below_threshold { env := env, pre := s, op := .recv p, ok := true, resp := resp, post := s' } = true := by
  unfold c11_swap_iff_below_threshold
  simp only [Bool.or_eq_true, Bool.not_eq_true']
  by_cases hk : p.underOk = true ∧ resp.ack = .given
  · by_cases hdeg : degenerate p = true
    · exact Or.inl (Or.inr hdeg)
    · right
      obtain ⟨hu, ha⟩ := hk
      have hsrc := src_of_not_degenerate hdeg
      obtain ⟨b, hb⟩ := recv_credit_ok h hu
      have hsw := swappedIn_eq (ok := true) h hu ha hM hsrc hD hms hWF
      have hiff := swap_iff_below_threshold h hu ha hb hsrc
      simp only [afterCredit_eq hb, hsw]
      rw [Bool.and_eq_true]
      refine ⟨?_, ?_⟩
      · rw [beq_iff_eq, Bool.eq_iff_iff]
        simp only [Bool.and_eq_true, decide_eq_true_eq, guardsPass_iff, credited_get]
        rw [hiff]
        constructor
        · rintro ⟨hg, hlt, sold, bought, esc, ht⟩
          exact ⟨⟨hg, hlt⟩, by rw [ht]⟩
        · rintro ⟨⟨hg, hlt⟩, ht⟩
          refine ⟨hg, hlt, ?_⟩
          split at ht
          · rename_i v hv
            exact ⟨v.1, v.2.1, v.2.2, hv⟩
          · cases ht
      · unfold poolEscrow
        cases hq : s.cs.poolByCounter p.denom with
        | none =>
          have h0 : resp.swapped = 0 := by
            apply Classical.byContradiction
            intro hne
            obtain ⟨q, hq', _⟩ := swap_pool h hu ha hM hsrc hD hms hWF (by omega)
            rw [hq] at hq'; cases hq'
          simp only [Option.map_none, Bool.or_eq_true, beq_iff_eq]
          by_cases hds : p.denom = s.cs.std
          · exact Or.inl hds
          · exact Or.inr (noswap_rcpt_std h hu ha hsrc h0 hds)
        | some q =>
          simp only [Option.map_some]
          by_cases hqr : q.escrow = p.receiver.bytes
          · simp [hqr]
          · have hqr' : (q.escrow == p.receiver.bytes) = false := by simpa using hqr
            simp only [hqr', Bool.false_eq_true, if_false, decide_eq_true_eq]
            by_cases h0 : resp.swapped = 0
            · have hn : ¬ 0 < resp.swapped := by omega
              simp only [hn, if_false, Bool.and_eq_true, beq_iff_eq, Bool.or_eq_true]
              refine ⟨⟨noswap_pool h hu ha hD hWF h0 hq hqr _, noswap_pool h hu ha hD hWF h0 hq hqr _⟩, ?_⟩
              by_cases hds : p.denom = s.cs.std
              · exact Or.inl hds
              · exact Or.inr (noswap_rcpt_std h hu ha hsrc h0 hds)
            · have hpos : 0 < resp.swapped := by omega
              obtain ⟨q', hq', _, _, hg1, hg2⟩ := swap_pool h hu ha hM hsrc hD hms hWF hpos
              rw [hq] at hq'; injection hq' with hq'; subst hq'
              obtain ⟨e1, e2, e3⟩ := swap_credits_threshold h hu ha hsrc hpos
              simp only [hpos, if_true, Bool.and_eq_true, beq_iff_eq, decide_eq_true_eq]
              simp only [gain, loss]
              refine ⟨⟨⟨⟨e1, by omega⟩, by omega⟩, e3⟩, e2⟩
  · left; left
    unfold kept
    simp only [Bool.and_eq_false_imp, Bool.true_and, beq_eq_false_iff_ne, ne_eq]
    intro hu ha
    exact hk ⟨hu, ha⟩

/-! ## the conversion is all-or-nothing -/

theorem recv_kept_eq {env : Env} {s s' : State} {p : Packet} {resp : Resp}
    (h : recv env s p = .ok (s', resp)) (hu : p.underOk = true) (ha : resp.ack = .given) :
    ∃ b, s.cs.bank.applyAll (creditEffs p) = .ok b ∧ onRecv env (credited s p b) p = .ok (s', resp) := by
  unfold recv at h
  simp only [hu, Bool.not_true, Bool.false_eq_true, if_false] at h
  obtain ⟨b, hb, h⟩ := bind_ok h
  obtain ⟨⟨s'', resp'⟩, hrec, h⟩ := bind_ok h
  simp only at h
  split at h
  · injection h with h; simp only [Prod.mk.injEq] at h
    obtain ⟨rfl, rfl⟩ := h
    exact ⟨b, hb, hrec⟩
  · rename_i hack
    injection h with h; simp only [Prod.mk.injEq] at h
    obtain ⟨rfl, rfl⟩ := h
    exact absurd ha (fun e => hack e)

/-- when `ConvertCoin` was called, the callback went through both stages: this exposes the two runs -/
theorem onRecv_called {env : Env} {s : State} {p : Packet} {s' : State} {resp : Resp}
    (h : onRecv env s p = .ok (s', resp)) (hc : resp.convCalled = true) :
    ∃ s1 swapped pair converted succ,
      autoSwap env s p.receiver.bytes p.denom p.amount = .ok (s1, swapped) ∧
      lookupD s1.pairs p.denom = some pair ∧ swapped ≤ p.amount ∧
      convertCached env s1 p.receiver.bytes p.denom pair.contract (p.amount - swapped)
        (if p.amount - swapped = 0 then ConvOutcome.fail 0 else p.conv) = .ok (s', converted, succ) ∧
      resp.swapped = swapped ∧ resp.convAmt = p.amount - swapped ∧ resp.converted = converted := by
  unfold onRecv at h
  split at h
  · injection h with h; simp only [Prod.mk.injEq] at h
    rw [← h.2] at hc; simp [pass] at hc
  · split at h
    · injection h with h; simp only [Prod.mk.injEq] at h
      rw [← h.2] at hc; simp [pass] at hc
    · split at h
      · injection h with h; simp only [Prod.mk.injEq] at h
        rw [← h.2] at hc; simp [pass] at hc
      · rename_i r hp
        obtain ⟨hr, _, _⟩ := parse_ok hp
        subst hr
        split at h
        · injection h with h; simp only [Prod.mk.injEq] at h
          rw [← h.2] at hc; simp [pass] at hc
        · obtain ⟨⟨s1, swapped⟩, hsw, h⟩ := bind_ok h
          simp only at h
          split at h
          · injection h with h; simp only [Prod.mk.injEq] at h
            rw [← h.2] at hc; simp [pass] at hc
          · rename_i pair hl
            split at h
            · injection h with h; simp only [Prod.mk.injEq] at h
              rw [← h.2] at hc; simp [pass] at hc
            · obtain ⟨a, ha, h⟩ := bind_ok h
              obtain ⟨ea, hle⟩ := SdkInt.sub_ok ha
              subst ea
              obtain ⟨⟨s2, converted, succ⟩, hcv, h⟩ := bind_ok h
              simp only at h
              injection h with h; simp only [Prod.mk.injEq] at h
              obtain ⟨rfl, rfl⟩ := h
              exact ⟨s1, swapped, pair, converted, succ, hsw, hl, hle, hcv, rfl, rfl, rfl⟩

/-- an oracle that answers success cannot make the model's `ConvertCoin` fail when the recipient holds the amount -/
theorem convertCached_ok_done {env : Env} {s : State} {r : Addr} {v : Denom} {c : Addr} {a : Nat}
    {s2 : State} {converted : Nat} {succ : Bool}
    (h : convertCached env s r v c a .ok = .ok (s2, converted, succ)) (hle : a ≤ s.cs.bank.get r v) :
    converted = a ∧ s2.tok = s.tok.set (c, r) (s.tok.get (c, r) + a) := by
  have F := convertCached_ok h
  cases F with
  | done _ b hb hs h0 => subst hs; exact ⟨h0, rfl⟩
  | gone ho => cases ho
  | failed hs h0 =>
    exfalso
    unfold convertCached at h
    simp only [convertInner] at h
    cases hx : s.cs.bank.applyAll [.xfer r env.erc20Mod v a] with
    | ok b =>
      rw [hx] at h
      simp only [bind, Except.bind] at h
      injection h with h; simp only [Prod.mk.injEq] at h
      cases h.2.2
    | error e =>
      have h1 : s.cs.bank.apply1 (.xfer r env.erc20Mod v a) = .error e := by
        simp only [Bank.applyAll] at hx
        split at hx
        · cases hx
        · rename_i e' he'
          injection hx with hx; subst hx; exact he'
      rcases apply1_xfer_err h1 with ⟨_, hlt⟩ | rfl
      · omega
      · rw [hx] at h
        simp [bind, Except.bind, isPanic] at h

/-- after the automatic swap the recipient still holds the rest of the transferred amount -/
theorem autoSwap_leaves_rest {env : Env} {s : State} {r : Addr} {v : Denom} {amt : Nat} {s1 : State} {swapped : Nat}
    (F : AutoSwapFacts env s r v amt s1 swapped) (hge : amt ≤ s.cs.bank.get r v) :
    amt - swapped ≤ s1.cs.bank.get r v := by
  cases F with
  | above _ hs h0 => subst hs h0; omega
  | refused _ _ _ hs h0 => subst hs h0; omega
  | unpaid _ _ _ _ _ _ hs h0 => subst hs h0; omega
  | swap hlt sold bought esc b ht hb hs h0 =>
    subst hs h0
    obtain ⟨_, hne, _, hle, _, _⟩ := trade_buy_facts ht
    have f := ((flows_of_apply hb) r v).1
    have hne' : ¬ v = s.cs.std := fun e => hne e.symm
    simp [Coinswap.swapEffs, inflow, outflow, Eff.inflow, Eff.outflow, hne'] at f
    show amt - swapped ≤ b.get r v
    omega

/-- a conversion that moved something was called -/
theorem converted_called {env : Env} {s s' : State} {p : Packet} {resp : Resp}
    (h : recv env s p = .ok (s', resp)) (hpos : 0 < resp.converted) : resp.convCalled = true := by
  have F := recv_ok h
  have key : ∀ (s0 s'' : State), OnRecvFacts env s0 p s'' resp → resp.convCalled = true := by
    intro s0 s'' hrec
    cases hrec with
    | disabled _ _ hr => subst hr; simp [pass] at hpos
    | channel _ _ _ hr => subst hr; simp [pass] at hpos
    | moduleAccount _ _ _ _ _ _ hr => subst hr; simp [pass] at hpos
    | unparsable _ _ _ _ _ hr => subst hr; simp [pass] at hpos
    | acted _ _ _ _ _ _ _ _ h2 =>
      rcases stageTwo_tok h2 with ⟨c0, _⟩ | ⟨_, _, hc, _⟩
      · omega
      · exact hc
  cases F with
  | refused _ _ hr => subst hr; simp [pass] at hpos
  | kept _ b _ hrec _ => exact key _ _ hrec
  | dropped _ b _ s'' hrec _ _ => exact key _ _ hrec

/-- after the credit the recipient holds at least the transferred amount -/
theorem credited_rcpt_ge {s : State} {p : Packet} {b : Bank} (hb : s.cs.bank.applyAll (creditEffs p) = .ok b)
    (hsrc : Credit.src p.credit ≠ p.receiver.bytes) : p.amount ≤ b.get p.receiver.bytes p.denom := by
  have c := credit_net p p.receiver.bytes p.denom
  have f := ((flows_of_apply hb) p.receiver.bytes p.denom).1
  rw [unescrowed_rcpt hsrc] at c
  simp at c
  omega

/-- `c11_no_partial_convert` holds of every model transition `recv env s p = .ok (s', resp)`,
under the hypotheses of `conservation_monitor`.  In particular the model never lets a `ConvertCoin`
that the oracle answers with success fail for lack of funds: after credit and swap the recipient
holds the requested amount. -/
theorem no_partial_convert_monitor {env : Env} {s s' : State} {p : Packet} {resp : Resp}
    (hM : ModuleInv env s) (h : recv env s p = .ok (s', resp))
    (hD : ∀ l esc, env.cs.reserve l = .ok esc → Distinct env p esc) (hms : env.erc20Mod ≠ Credit.src p.credit)
    (hWF : ∀ q, s.cs.poolByCounter p.denom = some q → env.cs.reserve q.lpt = .ok q.escrow) :
    c11_no_partial_convert { env := env, pre := s, op := .recv p, ok := true, resp := resp, post := s' } = true := by
  unfold c11_no_partial_convert
  simp only [Bool.not_true, Bool.false_or, Bool.or_eq_true]
  by_cases hdeg : degenerate p = true
  · exact Or.inl (Or.inl hdeg)
  by_cases hrm : env.erc20Mod = p.receiver.bytes
  · exact Or.inl (Or.inr (by simpa using hrm))
  right
  have hsrc := src_of_not_degenerate hdeg
  by_cases hk : p.underOk = true ∧ resp.ack = .given
  · obtain ⟨hu, ha⟩ := hk
    have hsw := swappedIn_eq (ok := true) h hu ha hM hsrc hD hms hWF
    have hkept : kept { env := env, pre := s, op := .recv p, ok := true, resp := resp, post := s' } p = true := by
      unfold kept; simp [hu, ha]
    have hled := (conservation_ledger h hu ha hM hsrc hD hms).1
    simp only [hrm, if_false] at hled
    simp only [hsw, hkept, Bool.true_and]
    by_cases hcc : resp.convCalled = true
    · obtain ⟨b, hb, hon⟩ := recv_kept_eq h hu ha
      obtain ⟨s1, swapped, pair, converted, succ, hauto, hl, hle, hcv, hrs, hra, hrc⟩ := onRecv_called hon hcc
      have F1 := autoSwap_ok hauto
      obtain ⟨_, _, _, _, hpairs, htok, _⟩ := autoSwap_flows F1
      have hl' : lookupD s.pairs p.denom = some pair := by
        rw [hpairs, credited_pairs] at hl; exact hl
      rw [Bool.and_eq_true]
      refine ⟨?_, ?_⟩
      · simp only [hcc, Bool.not_true, Bool.false_or, beq_iff_eq]
        omega
      · by_cases hconv : p.conv = .ok
        · have hc1 : (resp.convCalled && p.conv == ConvOutcome.ok) = true := by simp [hcc, hconv]
          simp only [hc1, if_true, hl', Bool.and_eq_true, beq_iff_eq, List.all_eq_true]
          simp only [gain, loss]
          -- what the second stage did
          have hfin : resp.converted = resp.convAmt ∧
              ∀ k, s'.tok.get k = s.tok.get k + (if k = (pair.contract, p.receiver.bytes) then resp.convAmt else 0) := by
            by_cases ha0 : p.amount - swapped = 0
            · simp only [ha0, if_true] at hcv
              obtain ⟨hs2, hc0, _⟩ := convertCached_fail hcv
              subst hs2
              refine ⟨by omega, fun k => ?_⟩
              rw [htok, credited_tok, hra, ha0]
              simp
            · simp only [ha0, if_false, hconv] at hcv
              have hge : p.amount - swapped ≤ s1.cs.bank.get p.receiver.bytes p.denom :=
                autoSwap_leaves_rest F1 (by rw [credited_get]; exact credited_rcpt_ge hb hsrc)
              obtain ⟨hc, ht⟩ := convertCached_ok_done hcv hge
              refine ⟨by omega, fun k => ?_⟩
              rw [ht, htok, credited_tok, hra, AMap.get_set]
              by_cases hkk : k = (pair.contract, p.receiver.bytes)
              · simp [hkk]
              · simp [hkk]
          obtain ⟨hfc, hft⟩ := hfin
          refine ⟨⟨by omega, by omega⟩, fun k _ => ?_⟩
          rw [hft k]
        · have hc1 : (resp.convCalled && p.conv == ConvOutcome.ok) = false := by simp [hconv]
          simp only [hc1, Bool.false_eq_true, if_false, Bool.and_eq_true, beq_iff_eq]
          rcases no_partial_convert h hu ha with ⟨c0, ht⟩ | ⟨_, _, hco, _⟩
          · refine ⟨by omega, ?_⟩
            unfold sameTok; rw [ht]; exact amap_eqv_refl _
          · exact absurd hco hconv
    · have hcc' : resp.convCalled = false := by simpa using hcc
      simp only [hcc', Bool.not_false, Bool.true_or, Bool.true_and, Bool.false_and, Bool.false_eq_true, if_false,
        Bool.and_eq_true, beq_iff_eq]
      have hc0 : resp.converted = 0 := by
        apply Classical.byContradiction
        intro hne
        have := converted_called h (by omega)
        rw [hcc'] at this; cases this
      rcases no_partial_convert h hu ha with ⟨_, ht⟩ | ⟨hpos, _⟩
      · refine ⟨by omega, ?_⟩
        unfold sameTok; rw [ht]; exact amap_eqv_refl _
      · omega
  · obtain ⟨hs, _, _, hcc, _⟩ := recv_unkept h (not_kept_cases hk)
    subst hs
    have hkept : kept { env := env, pre := s', op := .recv p, ok := true, resp := resp, post := s' } p = false := by
      unfold kept
      simp only [Bool.true_and, Bool.and_eq_false_imp, beq_eq_false_iff_ne, ne_eq]
      intro hu ha
      exact hk ⟨hu, ha⟩
    simp [hcc, hkept, sameTok, amap_eqv_refl]

/-! ## every monitor, on every transition of the model (any operation, accepted or rejected) -/

/-- the transition the driver observes when the implementation does what the model does: `ok`,
`resp` and `post` are the model's result of `step` (a rejected transaction leaves the state and
answers nothing, as `exec`/`deliver` do) -/
def modelTr (env : Env) (s : State) (op : Op) : Tr :=
  match step env s op with
  | .ok (s', r) => { env := env, pre := s, op := op, ok := true, resp := r, post := s' }
  | .error _ => { env := env, pre := s, op := op, ok := false, resp := pass, post := s }

theorem modelTr_post (env : Env) (s : State) (op : Op) : (modelTr env s op).post = exec env s op := by
  unfold modelTr exec deliver
  cases h : step env s op with
  | error e => simp only [h]
  | ok v => simp only [h]

/-- what the monitor-link theorems assume about the world a packet arrives in -/
structure PacketWorld (env : Env) (s : State) (p : Packet) : Prop where
  /-- the erc20 module account is a module account (`moduleInv_run`: invariant of every history) -/
  modInv : ModuleInv env s
  /-- reserve addresses of pools are neither the account the credit is paid from nor the erc20 module account -/
  distinct : ∀ l esc, env.cs.reserve l = .ok esc → Distinct env p esc
  /-- the erc20 module account is not the account the credit is paid from -/
  modNotSrc : env.erc20Mod ≠ Credit.src p.credit
  /-- the escrow address recorded with the pool of the transferred coin is the reserve address of its liquidity token -/
  poolWF : ∀ q, s.cs.poolByCounter p.denom = some q → env.cs.reserve q.lpt = .ok q.escrow

/-- **All eight monitors of `Spec.monitors` evaluate to `true` on every transition of the model**:
any state, any operation, accepted or rejected (for a received packet: in a `PacketWorld`). -/
theorem monitors_modelTr (env : Env) (s : State) (op : Op) (hW : ∀ p, op = .recv p → PacketWorld env s p) :
    ∀ m ∈ monitors, m.2.2 (modelTr env s op) = true := by
  have hall : (c11_unkept_unchanged (modelTr env s op) = true ∧ c11_conservation (modelTr env s op) = true ∧
      c11_prior_untouched (modelTr env s op) = true ∧ c11_swap_iff_below_threshold (modelTr env s op) = true) ∧
      (c11_no_partial_swap (modelTr env s op) = true ∧ c11_no_partial_convert (modelTr env s op) = true ∧
      c11_guards (modelTr env s op) = true ∧ c11_ack_passthrough (modelTr env s op) = true) := by
    cases op with
    | recv p =>
      obtain ⟨hM, hD, hms, hWF⟩ := hW p rfl
      unfold modelTr
      cases hstep : step env s (.recv p) with
      | ok v =>
        obtain ⟨s', r⟩ := v
        have h : recv env s p = .ok (s', r) := hstep
        exact ⟨⟨unkept_monitor h, conservation_monitor hM h hD hms hWF, prior_monitor hM h,
          swap_iff_below_threshold_monitor hM h hD hms hWF⟩,
          no_partial_swap_monitor hM h hD hms hWF, no_partial_convert_monitor hM h hD hms hWF, guards_monitor h, ack_monitor h⟩
      | error e =>
        simp [c11_unkept_unchanged, c11_conservation, c11_prior_untouched, c11_swap_iff_below_threshold,
          c11_no_partial_swap, c11_no_partial_convert, c11_guards, c11_ack_passthrough, kept, sameState_refl]
    | cs o =>
      unfold modelTr
      cases step env s (.cs o) <;>
        simp [c11_unkept_unchanged, c11_conservation, c11_prior_untouched, c11_swap_iff_below_threshold,
          c11_no_partial_swap, c11_no_partial_convert, c11_guards, c11_ack_passthrough]
    | setParams q =>
      unfold modelTr
      cases step env s (.setParams q) <;>
        simp [c11_unkept_unchanged, c11_conservation, c11_prior_untouched, c11_swap_iff_below_threshold,
          c11_no_partial_swap, c11_no_partial_convert, c11_guards, c11_ack_passthrough]
    | setPair d st =>
      unfold modelTr
      cases step env s (.setPair d st) <;>
        simp [c11_unkept_unchanged, c11_conservation, c11_prior_untouched, c11_swap_iff_below_threshold,
          c11_no_partial_swap, c11_no_partial_convert, c11_guards, c11_ack_passthrough]
  intro m hm
  simp only [monitors, List.mem_cons, List.mem_nil_iff, or_false] at hm
  obtain ⟨⟨h1, h2, h3, h4⟩, h5, h6, h7, h8⟩ := hall
  rcases hm with rfl | rfl | rfl | rfl | rfl | rfl | rfl | rfl
  · exact h1
  · exact h2
  · exact h3
  · exact h4
  · exact h5
  · exact h6
  · exact h7
  · exact h8

/-! ## non-vacuity: the hypotheses hold of a concrete world, and the monitors' interesting branches are reached -/

theorem exReserve {l : Denom} {esc : Addr} (h : exEnv.cs.reserve l = .ok esc) : esc = "e.lpt-1" := by
  unfold Coinswap.Env.reserve at h
  simp only [exEnv, lookupD] at h
  split at h
  · rename_i a ha
    split at ha
    · injection ha with ha; injection h with h; rw [← h, ← ha]
    · cases ha
  · cases h

/-- the example world (pool `(1000 stake, 500 ibc/V)`, threshold 40, recipient `u1`) is a `PacketWorld`
for the example packets, whatever the oracle answers and whatever the amount -/
theorem exPacketWorld (conv : ConvOutcome) (amt : Nat) : PacketWorld exEnv exState (exPacket conv amt) where
  modInv := by show exState.macc.contains exEnv.erc20Mod = true; decide
  distinct := by
    intro l esc h
    rw [exReserve h]
    exact ⟨(by decide : ("e.lpt-1" : Addr) ≠ "m.transfer"), (by decide : ("e.lpt-1" : Addr) ≠ "m.erc20"),
      (by decide : ("m.erc20" : Addr) ≠ "m.transfer")⟩
  modNotSrc := (by decide : ("m.erc20" : Addr) ≠ "m.transfer")
  poolWF := by
    intro q hq
    have : exState.cs.poolByCounter "ibc/V" = some { counter := "ibc/V", lpt := "lpt-1", escrow := "e.lpt-1" } := by
      decide
    have hq' : exState.cs.poolByCounter "ibc/V" = some q := hq
    rw [this] at hq'; injection hq' with hq'; subst hq'
    simp [Coinswap.Env.reserve, exEnv, lookupD]

/-- so the link theorem applies to them: all eight monitors hold of these model transitions -/
example (conv : ConvOutcome) (amt : Nat) : ∀ m ∈ monitors, m.2.2 (modelTr exEnv exState (.recv (exPacket conv amt))) = true :=
  monitors_modelTr exEnv exState _ (fun p hp => by injection hp with hp; subst hp; exact exPacketWorld conv amt)

/-- 100 vouchers, oracle success: the transition is kept, not degenerate, a swap is seen on the ledger
(`swappedIn = 21`), `ConvertCoin` is called with the other 79 and the module account gains 79 — the
"swap happened" branch of `c11_swap_iff_below_threshold` / `c11_no_partial_swap` and the "converted" branch of
`c11_no_partial_convert` are the ones evaluated -/
example : (let t := modelTr exEnv exState (.recv (exPacket .ok 100))
           let p := exPacket .ok 100
           t.ok && kept t p && !degenerate p && swappedIn t p == 21 && t.resp.convCalled && t.resp.convAmt == 79 &&
           convertedIn t p == 79 && gain t "u1" "stake" == 40 && loss t "e.lpt-1" "stake" == 40 &&
           (afterCredit t p).isSome && c11_swap_iff_below_threshold t && c11_no_partial_swap t &&
           c11_no_partial_convert t && c11_guards t) = true := by decide +kernel

/-- 20 vouchers are one too few: the "no swap" branches (pool and standard-coin balance as before), everything converted -/
example : (let t := modelTr exEnv exState (.recv (exPacket .ok 20))
           let p := exPacket .ok 20
           kept t p && swappedIn t p == 0 && t.resp.convCalled && t.resp.convAmt == 20 && convertedIn t p == 20 &&
           c11_swap_iff_below_threshold t && c11_no_partial_swap t && c11_no_partial_convert t) = true := by decide +kernel

/-- the oracle fails after two inner effects: `ConvertCoin` called, nothing converted, token ledger as before —
the "else" branch of `c11_no_partial_convert` -/
example : (let t := modelTr exEnv exState (.recv (exPacket (.fail 2) 100))
           let p := exPacket (.fail 2) 100
           kept t p && swappedIn t p == 21 && t.resp.convCalled && convertedIn t p == 0 && sameTok t.pre t.post &&
           c11_no_partial_convert t) = true := by decide +kernel

/-- a module-account recipient: the "blocked" branch of `c11_guards` (only the credit happens) -/
example : (let p := { exPacket .ok 100 with receiver := ⟨.lower, "m.coinswap"⟩ }
           let t := modelTr exEnv exState (.recv p)
           t.ok && (match afterCredit t p with
                    | some s0 => parsable p && s0.macc.contains p.receiver.bytes && sameState s0 t.post && !sameState t.pre t.post
                    | none => false) && c11_guards t) = true := by decide +kernel

/-- a refused transfer: the first branch of `c11_guards` -/
example : (let p := { exPacket .ok 100 with underOk := false }
           let t := modelTr exEnv exState (.recv p)
           t.ok && sameState t.pre t.post && c11_guards t) = true := by decide +kernel

/-- the monitors are not trivially true: a transition that keeps only the first leg of the swap is rejected -/
example : (let t0 := modelTr exEnv exState (.recv (exPacket .ok 100))
           let t := { t0 with post := t0.post.withBank (t0.post.cs.bank.setBal "u1" "stake" 7) }
           !c11_no_partial_swap t && !c11_swap_iff_below_threshold t) = true := by decide +kernel

/-- … and so is one where the conversion escrowed 79 vouchers and credited 78 tokens -/
example : (let t0 := modelTr exEnv exState (.recv (exPacket .ok 100))
           let t := { t0 with post := { t0.post with tok := t0.post.tok.set ("c1", "u1") 78 } }
           !c11_no_partial_convert t) = true := by decide +kernel

/-- the former blind spot of `c11_no_partial_convert` (see the header): the vouchers are escrowed, *no* token
is credited and the holder has no entry in either ledger — refused, since the monitor evaluates the key
`(pair.contract, r)` explicitly -/
example : (let t0 := modelTr exEnv exState (.recv (exPacket .ok 100))
           let t := { t0 with post := { t0.post with tok := AMap.empty } }
           t.resp.convAmt == 79 && convertedIn t (exPacket .ok 100) == 79 && t.post.tok.get ("c1", "u1") == 0 &&
           !c11_no_partial_convert t) = true := by decide +kernel

end Onboarding
end CV
