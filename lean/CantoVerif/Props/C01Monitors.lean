import CantoVerif.Props.C01
import CantoVerif.Props.C08
/-!
# C01 — the executable predicate `remove_pro_rata` holds of every successful removal of the model.
(`c01_k` is linked in `Props/C01.lean`: `k_step_monitor`.)
-/
namespace CV
namespace Coinswap

open Spec in
/-- a removal pays at most the pro-rata share of either reserve: the predicate the driver evaluates on
implementation transitions, proved of the model (provider not a pool's escrow) -/
theorem remove_prorata_monitor {env : Env} {s s' : State} {m : MsgRemove} {r : Resp} (hW : WF env s)
    (hS : SignerOK s (.remove m)) (h : remove env s m = .ok (s', r)) :
    c01_removeProRata { env := env, pre := s, op := .remove m, ok := true, resp := r, post := s' } = true := by
  obtain ⟨pool, a, b, hpool, hbank, hresp, hminS, hminT, hr⟩ := remove_bounds h
  obtain ⟨hmem, _⟩ := mem_of_poolByLpt hpool
  have hse : m.sender.bytes ≠ pool.escrow := hS m.sender.bytes rfl pool hmem
  have hd : s.std ≠ pool.counter := fun e => hW.counterNeStd pool hmem e.symm
  have hls : s.std ≠ pool.lpt := fun e => ne_of_prefix (hW.lptPrefix pool hmem) hW.stdNotLpt e.symm
  have hlt : pool.counter ≠ pool.lpt := fun e => ne_of_prefix (hW.lptPrefix pool hmem) (hW.counterNotLpt pool hmem) e.symm
  obtain ⟨x1, x2, x3⟩ := removeEffs_exact hbank hse hd hls hlt
  simp only at hr
  obtain ⟨_, _, r1, _, r3, _⟩ := hr
  have e1 : s.bank.get pool.escrow s.std - s'.bank.get pool.escrow s.std = a := by omega
  have e2 : s.bank.get pool.escrow pool.counter - s'.bank.get pool.escrow pool.counter = b := by omega
  have e3 : s.bank.supply pool.lpt - s'.bank.supply pool.lpt = m.withdraw.toNat := by omega
  have hstd : s'.std = s.std := by
    obtain ⟨F⟩ := remove_ok h; rw [F.hState]
  simp only [c01_removeProRata, Bool.not_true, Bool.false_or, hpool, reserves, hstd, e1, e2, e3,
    Bool.and_eq_true, decide_eq_true_eq]
  exact ⟨r1, r3⟩

end Coinswap
end CV
