import CantoVerif.Props.C15
/-!
# C14 — disabled conversion means no conversion, by any route.

All statements are about the model's `step` for **every** EVM behaviour (`O` arbitrary), every state
and every message; the three switches (`enableErc20`, `enableEVMHook`, `pair.enabled`) are
universally quantified booleans of the state, so all eight settings and any flipping of switches
between operations are covered (the statements hold at every state of every history).

* `msg_gate` — module disabled, or the addressed pair toggled off (or not registered) ⇒ both
  conversion messages are rejected and change nothing (neither store);
* `hook_gate_global` — module or hook disabled ⇒ `PostTxProcessing` returns no error and changes
  nothing, for every receipt;
* `hook_gate_pair` — logs of pairs that are toggled off convert nothing: a receipt all of whose
  converting candidates are gated leaves the world unchanged; with mixed receipts
  (`hook_disabled_pair_frame`) the coin of a toggled-off pair does not move at all — no balance, no
  supply — whatever the other logs do;
* `ordinary_transfers_unaffected` — a holder's transfer to anybody but the module address goes
  through exactly as the token decides, whatever the switches, and moves no coins;
* `receiver_blocked_rejected`, `third_party_send_disabled_rejected`,
  `self_conversion_ignores_send_switch`.
-/
namespace CV
namespace Erc20
open KMap Spec

variable {σ : Type}

/-- the operation is one of the two conversion messages -/
def IsConv : Op → Prop
  | .convertCoin _ => True
  | .convertERC20 _ => True
  | _ => False

/-- what a successful conversion message establishes about the gate -/
theorem conv_ok_gate {env : Env} {O : Oracle σ} {w w' : World σ} {op : Op} {r : Resp} (hc : IsConv op)
    (h : step env O w op = .ok (w', r)) :
    w.st.params.enableErc20 = true ∧
    ∃ p snd rcv, msgPair w.st op = some p ∧ convParties op = some (snd, rcv) ∧ p.enabled = true ∧
      env.blocked.contains rcv = false ∧ (snd = rcv ∨ w.st.sendEnabled p.denom = true) := by
  cases op with
  | convertCoin m =>
    obtain ⟨F⟩ := convertCoin_ok (by simpa [step] using h)
    obtain ⟨g1, ⟨i, hi, hp⟩, g2, g3, g4⟩ := gate_ok F.hGate
    obtain ⟨e1, f1⟩ := AddrStr.decode_ok F.hSender
    obtain ⟨e2, f2⟩ := HexStr.decode_ok F.hReceiver
    refine ⟨g1, F.p, F.sender, F.receiver, ?_, ?_, g2, g3, g4⟩
    · simp [msgPair, Registry.lookupTok, hi, hp]
    · simp [convParties, f1, f2, e1, e2]
  | convertERC20 m =>
    obtain ⟨F⟩ := convertERC20_ok (by simpa [step] using h)
    obtain ⟨g1, ⟨i, hi, hp⟩, g2, g3, g4⟩ := gate_ok F.hGate
    obtain ⟨e0, _⟩ := HexStr.decode_ok F.hContract
    obtain ⟨e1, f1⟩ := HexStr.decode_ok F.hSender
    obtain ⟨e2, f2⟩ := AddrStr.decode_ok F.hReceiver
    refine ⟨g1, F.p, F.sender, F.receiver, ?_, ?_, g2, g3, g4⟩
    · simp [msgPair, ← e0, hi, hp]
    · simp [convParties, f1, f2, e1, e2]
  | _ => cases hc

/-- **msg_gate.**  While the module is disabled, or the addressed pair is toggled off (or there is no
such pair), no message converts that pair in either direction: the message is rejected and both
stores stay as they were. -/
theorem msg_gate (env : Env) (O : Oracle σ) (w : World σ) (op : Op) (hc : IsConv op)
    (hoff : w.st.params.enableErc20 = false ∨ ∀ p, msgPair w.st op = some p → p.enabled = false) :
    (∀ w' r, step env O w op ≠ .ok (w', r)) ∧ exec env O w op = w := by
  have hno : ∀ w' r, step env O w op ≠ .ok (w', r) := by
    intro w' r heq
    obtain ⟨g1, p, _, _, hp, _, g2, _⟩ := conv_ok_gate hc heq
    rcases hoff with h | h
    · rw [h] at g1; cases g1
    · rw [h p hp] at g2; cases g2
  exact ⟨hno, exec_eq_of_not_ok hno⟩

/-- **receiver_blocked_rejected.**  A conversion whose receiver may not receive funds (every module
account is on the bank's blocked list) is rejected without effect. -/
theorem receiver_blocked_rejected (env : Env) (O : Oracle σ) (w : World σ) (op : Op) (hc : IsConv op)
    {snd rcv : Addr} (hp : convParties op = some (snd, rcv)) (hb : env.blocked.contains rcv = true) :
    (∀ w' r, step env O w op ≠ .ok (w', r)) ∧ exec env O w op = w := by
  have hno : ∀ w' r, step env O w op ≠ .ok (w', r) := by
    intro w' r heq
    obtain ⟨_, p, s', r', _, hp', _, g3, _⟩ := conv_ok_gate hc heq
    rw [hp] at hp'; injection hp' with hp'; simp only [Prod.mk.injEq] at hp'
    rw [← hp'.2, hb] at g3; cases g3
  exact ⟨hno, exec_eq_of_not_ok hno⟩

/-- **module_receiver_rejected.**  With every module account on the bank's blocked list (what the
driver checks of the application's wiring on every environment line), a conversion to any module
account is rejected without effect. -/
theorem module_receiver_rejected (env : Env) (O : Oracle σ) (w : World σ) (op : Op) (hc : IsConv op)
    (hm : env.macc.all (fun a => env.blocked.contains a) = true)
    {snd rcv : Addr} (hp : convParties op = some (snd, rcv)) (hb : env.macc.contains rcv = true) :
    (∀ w' r, step env O w op ≠ .ok (w', r)) ∧ exec env O w op = w := by
  refine receiver_blocked_rejected env O w op hc hp ?_
  rw [List.all_eq_true] at hm
  exact hm rcv (by simpa using hb)

/-- **third_party_send_disabled_rejected.**  A conversion that targets somebody else while bank
sends of the pair's coin are disabled is rejected without effect. -/
theorem third_party_send_disabled_rejected (env : Env) (O : Oracle σ) (w : World σ) (op : Op) (hc : IsConv op)
    {snd rcv : Addr} {p : Pair} (hp : convParties op = some (snd, rcv)) (hne : snd ≠ rcv)
    (hpair : msgPair w.st op = some p) (hs : w.st.sendEnabled p.denom = false) :
    (∀ w' r, step env O w op ≠ .ok (w', r)) ∧ exec env O w op = w := by
  have hno : ∀ w' r, step env O w op ≠ .ok (w', r) := by
    intro w' r heq
    obtain ⟨_, p', s', r', hp1, hp2, _, _, g4⟩ := conv_ok_gate hc heq
    rw [hp] at hp2; injection hp2 with hp2; simp only [Prod.mk.injEq] at hp2
    rw [hpair] at hp1; injection hp1 with hp1
    rcases g4 with g | g
    · exact hne (by rw [hp2.1, hp2.2]; exact g)
    · rw [← hp1, hs] at g; cases g
  exact ⟨hno, exec_eq_of_not_ok hno⟩

/-- … and conversions to oneself do not look at the send switches at all -/
theorem self_conversion_ignores_send_switch (env : Env) (s : State) (a : Addr) (i? : Option PairId)
    (sd : Bool) (so : List (Denom × Bool)) :
    gate env { s with sendDefault := sd, sendOverride := so } a a i? = gate env s a a i? := by
  unfold gate
  simp only [beq_self_eq_true, Bool.true_or]

/-! ## the hook -/

/-- **hook_gate (global switches).**  While the module or its EVM hook is disabled, no receipt
whatsoever mints or releases anything: the hook returns no error and the world is unchanged. -/
theorem hook_gate_global (env : Env) (O : Oracle σ) (w : World σ) (logs : List Log)
    (hoff : w.st.params.enableErc20 = false ∨ w.st.params.enableEVMHook = false) :
    step env O w (.hook logs) = .ok (w, .none) := by
  simp only [step, postTx]
  rcases hoff with h | h <;> simp [h]

/-- **hook_gate (pair switch).**  A receipt all of whose logs are gated — emitted by contracts of
toggled-off pairs, or not addressed to the module — converts nothing; the hook returns no error. -/
theorem hook_gate_pair (env : Env) (O : Oracle σ) (w : World σ) (logs : List Log)
    (hg : ∀ l ∈ logs, l.to ≠ env.modAddr ∨
      ∃ i p, get? w.st.reg.byAddr l.emitter = some i ∧ w.st.reg.getPair i = some p ∧ p.enabled = false) :
    step env O w (.hook logs) = .ok (w, .none) := by
  simp only [step, postTx]
  split
  · rfl
  · rw [hookLogs_no_target logs w]
    · rfl
    · intro l hl
      rcases hg l hl with h | ⟨i, p, hi, hp, hoff⟩
      · exact hookTarget_not_to_module h
      · exact hookTarget_pair_disabled hi hp hoff

/-! ### mixed receipts: the coin of a toggled-off pair does not move -/

theorem flow_single_other_denom {b b' : Bank} {e : Eff} {d0 : Denom}
    (hd : match e with | .xfer _ _ d _ => d = d0 | .mint _ d _ => d = d0 | .burn _ d _ => d = d0)
    (h : b.applyAll [e] = .ok b') (d : Denom) (hne : d ≠ d0) :
    (∀ a, b'.get a d = b.get a d) ∧ b'.supply d = b.supply d := by
  have flow := Bank.applyAll_flow _ _ _ h
  constructor
  · intro a
    have f := (flow a d).1
    cases e with
    | xfer s t d' v =>
      simp only at hd; subst hd
      simp only [inflow, outflow, sumBy_cons, sumBy_nil, Eff.inflow, Eff.outflow, hne, and_false, if_false] at f
      omega
    | mint m d' v =>
      simp only at hd; subst hd
      simp only [inflow, outflow, sumBy_cons, sumBy_nil, Eff.inflow, Eff.outflow, hne, and_false, if_false] at f
      omega
    | burn m d' v =>
      simp only at hd; subst hd
      simp only [inflow, outflow, sumBy_cons, sumBy_nil, Eff.inflow, Eff.outflow, hne, and_false, if_false] at f
      omega
  · have f := (flow "" d).2
    cases e with
    | xfer s t d' v =>
      simp only [minted, burned, sumBy_cons, sumBy_nil, Eff.minted, Eff.burned] at f
      omega
    | mint m d' v =>
      simp only at hd; subst hd
      simp only [minted, burned, sumBy_cons, sumBy_nil, Eff.minted, Eff.burned, hne, if_false] at f
      omega
    | burn m d' v =>
      simp only at hd; subst hd
      simp only [minted, burned, sumBy_cons, sumBy_nil, Eff.minted, Eff.burned, hne, if_false] at f
      omega

/-- the bank, restricted to one denomination -/
def denomFrame (b b' : Bank) (d : Denom) : Prop := (∀ a, b'.get a d = b.get a d) ∧ b'.supply d = b.supply d

theorem denomFrame_refl (b : Bank) (d : Denom) : denomFrame b b d := ⟨fun _ => rfl, rfl⟩
theorem denomFrame_trans {b1 b2 b3 : Bank} {d : Denom} (h1 : denomFrame b1 b2 d) (h2 : denomFrame b2 b3 d) :
    denomFrame b1 b3 d := ⟨fun a => (h2.1 a).trans (h1.1 a), h2.2.trans h1.2⟩

theorem bankSoft_modToAcct_frame {env : Env} {b b' : Bank} {rcpt : Addr} {d0 : Denom} {v : Nat}
    (h : bankSoft b (modToAcct env b rcpt d0 v) = .ok b') (d : Denom) (hne : d ≠ d0) : denomFrame b b' d := by
  unfold bankSoft at h
  split at h
  · rename_i b1 hm
    injection h with h; subst h
    obtain ⟨_, hb⟩ := modToAcct_ok hm
    exact flow_single_other_denom (d0 := d0) (by simp) hb d hne
  · cases h
  · injection h with h; subst h; exact denomFrame_refl _ _

theorem hookLog_denom_frame {env : Env} {O : Oracle σ} {w w' : World σ} {l : Log}
    (hI : RegInv w.st.reg) {j : PairId} {q : Pair} (hq : w.st.reg.getPair j = some q) (hoff : q.enabled = false)
    (h : hookLog env O w l = .ok w') : denomFrame w.st.bank w'.st.bank q.denom := by
  unfold hookLog at h
  split at h
  · injection h with h; subst h; exact denomFrame_refl _ _
  · rename_i p v ht
    obtain ⟨i, _, hp, hen, _⟩ := hookTarget_some ht
    have hne : q.denom ≠ p.denom := by
      intro e
      have := (hI.denom_inj hq hp e).2
      rw [this, hen] at hoff; cases hoff
    split at h
    · simp only at h
      split at h
      · injection h with h; subst h; exact denomFrame_refl _ _
      · obtain ⟨b1, hb1, h⟩ := bind_ok h
        injection h with h; subst h
        exact bankSoft_modToAcct_frame hb1 _ hne
    · obtain ⟨b1, hb1, h⟩ := bind_ok h
      obtain ⟨b2, hb2, h⟩ := bind_ok h
      injection h with h; subst h
      exact denomFrame_trans (flow_single_other_denom (d0 := p.denom) (by simp) hb1 _ hne)
        (bankSoft_modToAcct_frame hb2 _ hne)
    · injection h with h; subst h; exact denomFrame_refl _ _

/-- **hook_gate (pair switch), mixed receipts.**  Whatever else a receipt contains and whatever the
EVM answers, the coin of a pair that is toggled off does not move: no balance of it and not its
supply change — no EVM transfer to the module address mints or releases coins of that pair. -/
theorem hook_disabled_pair_frame {env : Env} {O : Oracle σ} (logs : List Log) : ∀ {w w' : World σ},
    RegInv w.st.reg → ∀ {j : PairId} {q : Pair}, w.st.reg.getPair j = some q → q.enabled = false →
    hookLogs env O w logs = .ok w' → denomFrame w.st.bank w'.st.bank q.denom := by
  induction logs with
  | nil => intro w w' _ j q _ _ h; simp only [hookLogs] at h; injection h with h; subst h; exact denomFrame_refl _ _
  | cons l ls ih =>
    intro w w' hI j q hq hoff h
    simp only [hookLogs] at h
    obtain ⟨w1, h1, h⟩ := bind_ok h
    have hc := hookLog_core h1
    have hI1 : RegInv w1.st.reg := by rw [hc.1]; exact hI
    have hq1 : w1.st.reg.getPair j = some q := by rw [hc.1]; exact hq
    exact denomFrame_trans (hookLog_denom_frame hI hq hoff h1) (ih hI1 hq1 hoff h)

/-! ### ordinary ERC-20 transfers keep working -/

/-- **ordinary_transfers_unaffected.**  A holder's transfer (honest token) to anybody but the module
address: the Ethereum transaction succeeds exactly when the token call does, the token ledger is
what the token call made it, and Canto's state — bank ledger included — is untouched, for every
setting of the three switches and whether or not the token is registered. -/
theorem ordinary_transfers_unaffected (env : Env) (cfg : Token.Cfg) (w : World Token.TState)
    (c holder to : Addr) (a : Nat) (hto : to ≠ env.modAddr) :
    Token.evmTx env cfg w c holder (.transfer to a) =
      (match Token.holderCall cfg w.evm c holder (.transfer to a) with
       | none => .error (.evm "execution reverted")
       | some (t1, _) => .ok ({ w with evm := t1 }, .none)) := by
  unfold Token.evmTx
  cases hh : Token.holderCall cfg w.evm c holder (.transfer to a) with
  | none => rfl
  | some r =>
    obtain ⟨t1, logs⟩ := r
    simp only
    -- every log of the receipt goes to `to`
    have hlogs : ∀ l ∈ logs, l.to ≠ env.modAddr := by
      unfold Token.holderCall at hh
      simp only at hh
      split at hh
      · injection hh with hh
        simp only [Prod.mk.injEq] at hh
        intro l hl
        rw [← hh.2] at hl
        split at hl
        · simp only [List.mem_singleton] at hl; rw [hl]; exact hto
        · cases hl
      · cases hh
    unfold postTx
    split
    · rfl
    · rw [hookLogs_no_target logs _ (fun l hl => hookTarget_not_to_module (hlogs l hl))]
      rfl

/-- **switches_stored.**  An accepted parameter update stores exactly the requested switches. -/
theorem switches_stored (env : Env) (O : Oracle σ) (w w' : World σ) (auth : Bool) (p : Params) (r : Resp)
    (h : step env O w (.updateParams auth p) = .ok (w', r)) : w'.st.params = p := by
  simp only [step, updateParams] at h
  obtain ⟨_, _, h⟩ := bind_ok h
  injection h with h; simp only [Prod.mk.injEq] at h
  rw [← h.1]

/-! ## the executable monitors hold on the model's transitions -/

/-- the monitors `C14 msg_gate`, `receiver_blocked`, `third_party_send_disabled` evaluated on a
successful transition of the model are true -/
theorem msg_gate_monitors (env : Env) (cfg : Token.Cfg) (O : Oracle Token.TState) (w w' : World Token.TState) (op : Op) (r : Resp)
    (h : step env O w op = .ok (w', r)) (ans : List Ans) (hon cl : Bool) (lk : List (Addr × Denom × String × String))
    (prev : Option (DOp × Bool × Resp × World Token.TState × Bool)) :
    let t : Tr := { env := env, cfg := cfg, pre := w, op := .k op, ok := true, resp := r, post := w', answers := ans,
                    honest := hon, lookups := lk, clean := cl, prev := prev }
    c14_msgGate t = true ∧ c14_receiverBlocked t = true ∧ c14_thirdPartySendDisabled t = true := by
  intro t
  by_cases hc : IsConv op
  · obtain ⟨g1, p, snd, rcv, hp, hpp, g2, g3, g4⟩ := conv_ok_gate hc h
    have hic : isConvert (.k op) = true := by
      cases op <;> first | rfl | exact absurd hc id
    refine ⟨?_, ?_, ?_⟩
    · simp only [c14_msgGate, t, hic, if_true, hp, g1, g2, Bool.not_true, Bool.false_or, Bool.and_self]
    · simp only [c14_receiverBlocked, t, hpp, g3, Bool.not_true, Bool.false_or, Bool.not_false]
    · simp only [c14_thirdPartySendDisabled, t, hpp, hp, Bool.not_true, Bool.false_or]
      rcases g4 with e | e
      · simp [e]
      · simp [e]
  · have hic : isConvert (.k op) = false := by
      cases op <;> first | rfl | exact absurd trivial hc
    have hcp : convParties op = none := by
      cases op <;> first | rfl | exact absurd trivial hc
    refine ⟨?_, ?_, ?_⟩
    · simp only [c14_msgGate, t, hic]; rfl
    · simp only [c14_receiverBlocked, t, hcp, hic]; rfl
    · simp only [c14_thirdPartySendDisabled, t, hcp]

/-! ## non-vacuity: the eight switch settings on a concrete world -/

/-- `exWorld` with the coin `acoin` registered (contract `k0`) and 4 tokens minted to `u0`, then the
three switches set as given -/
def exSwitched (en hk pe : Bool) : World Token.TState :=
  let O := Token.honest exCfg
  let w1 := exec exEnv O exWorld (.registerCoin true "acoin" "d1")
  let w2 := exec exEnv O w1 (.convertCoin { denom := ⟨"acoin", "-"⟩, amount := 4, receiver := ⟨true, "u0"⟩, sender := ⟨.lower, "u0"⟩ })
  let w3 := if pe then w2 else exec exEnv O w2 (.toggle true ⟨"acoin", "-"⟩)
  exec exEnv O w3 (.updateParams true { enableErc20 := en, enableEVMHook := hk })

def exCC (rcv : Addr) : Op :=
  .convertCoin { denom := ⟨"acoin", "-"⟩, amount := 2, receiver := ⟨true, rcv⟩, sender := ⟨.lower, "u0"⟩ }
def exCE (rcv : Addr) : Op :=
  .convertERC20 { contract := ⟨true, "k0"⟩, amount := 2, receiver := ⟨.lower, rcv⟩, sender := ⟨true, "u0"⟩ }

/-- all eight settings: either message converts iff module ∧ pair are on; a transfer to the module
address converts (coins reach the holder) iff module ∧ hook ∧ pair are on, and the Ethereum
transaction itself succeeds in all eight; receivers `m.gov` (a module account) are always refused -/
example : ∀ en hk pe : Bool,
    (let O := Token.honest exCfg
     let w := exSwitched en hk pe
     isOk (step exEnv O w (exCC "u0")) == (en && pe) &&
     isOk (step exEnv O w (exCE "u0")) == (en && pe) &&
     !isOk (step exEnv O w (exCC "m.gov")) && !isOk (step exEnv O w (exCE "m.gov")) &&
     (match Token.evmTx exEnv exCfg w "k0" "u0" (.transfer "m.erc20" 3) with
      | .ok (w', _) => (w'.st.bank.get "u0" "acoin" == w.st.bank.get "u0" "acoin" + 3) == (en && hk && pe) &&
                       (w'.st.bank.get "u0" "acoin" == w.st.bank.get "u0" "acoin") == !(en && hk && pe)
      | .error _ => false)) = true := by
  decide +kernel

/-- third party while sends of `acoin` are disabled: refused; to oneself: still converted -/
example :
    (let O := Token.honest exCfg
     let w := exec exEnv O (exSwitched true true true) (.setSendEnabled "acoin" false)
     !isOk (step exEnv O w (exCC "u1")) && !isOk (step exEnv O w (exCE "u1")) &&
     isOk (step exEnv O w (exCC "u0")) && isOk (step exEnv O w (exCE "u0"))) = true := by
  decide +kernel

end Erc20
end CV
