import CantoVerif.Proofs.CoinswapArith
import CantoVerif.Proofs.CoinswapInv
/-!
# Price theorems of the constant-product pool, on the exact integer kernels of the code.

`Arith.inputPrice dx X Y δ S  = ⌊dx·δ·Y / (X·S + dx·δ)⌋`        (`GetInputPrice`, a *sell* of `dx`)
`Arith.outputPrice out X Y δ S = ⌊X·out·S / ((Y − out)·δ)⌋ + 1`  (`GetOutputPrice`, a *buy* of `out`)

with `S = 10^18`, `δ = S − fee`.  Everything below is proved for **all** naturals — no bound on
reserves, amounts or fees; the only hypotheses are the ones written, and the header of each group
says why each of them is needed.  The guarded model kernels `Coinswap.inputPrice/outputPrice`
(256-bit overflow panics, division-by-zero panic) get the same statements as corollaries for the
runs that return `.ok` (section `Coinswap`).

## Results

1. `inputPrice_mono`, `inputPrice_le_reserve` (unconditional), `inputPrice_lt_reserve`
   (needs `0 < X`, `0 < S`, `0 < Y`; with `X = 0` a sell *does* drain the pool:
   `inputPrice 1 0 5 1 1 = 5`), `inputPrice_zero`.
2. `outputPrice_mono` (needs `out' < Y`: at `out' = Y` the Go code panics, the total kernel gives
   `1`), `outputPrice_pos`.
3. Quote consistency — the two kernels form a Galois-like pair, rounding for the pool:
   * `sell_of_buy_quote`: `out ≤ inputPrice (outputPrice out)` — paying the quoted price buys
     at least `out` (needs `out < Y`, `0 < δ`);
   * `buy_of_sell_quote`: `outputPrice (inputPrice dx) ≤ dx + 1`, with **no** hypothesis at all;
     the bound `dx + 1` is tight (`buy_of_sell_quote_tight`: X = 997, Y = 10, fee 0.3 %, dx = 1000
     gives bought = 5 and outputPrice 5 = 1001), and it is reached exactly when the sell
     quotient is an integer;
   * the general forms `outputPrice_le_of_le_inputPrice` (`out ≤ inputPrice dx → outputPrice out ≤ dx + 1`)
     and `le_inputPrice_of_outputPrice_le` (`outputPrice out ≤ dx → out ≤ inputPrice dx`):
     `outputPrice out` is the least sufficient input or that plus one;
   * `outputPrice_succ_gt`: `dx < outputPrice (inputPrice dx + 1)` — what was paid is never enough
     for one unit more.
4. `sell_split_le`: selling `a` then `b` yields **at most** the single sale of `a + b` — exactly,
   no `+1` slack from rounding — for every fee with `δ ≤ S`.  The hypothesis `δ ≤ S` (fee ≥ 0) is
   necessary: `δ = 2, S = 1, X = 3, Y = 5, a = b = 1` gives 2 + 1 > 2 (`sell_split_needs_fee_nonneg`).
   The inequality can be strict (`sell_split_strict`) and can be an equality (`sell_split_eq`).
5. `fee_mono_sell`, `fee_mono_buy` (needs `0 < δ` for the higher fee: at δ = 0 the Go code panics
   and the total kernel gives `1`, see `fee_mono_buy_needs_pos`).
-/
namespace CV
namespace Arith

/-! ### the sell quotient `p·Y/(C+p)` (`p = dx·δ`, `C = X·S`) -/

theorem sellq_mul_le (p C Y : Nat) : p * Y / (C + p) * (C + p) ≤ p * Y := Nat.div_mul_le_self _ _

theorem sellq_le (p C Y : Nat) : p * Y / (C + p) ≤ Y := by
  by_cases h : C + p = 0
  · rw [h, Nat.div_zero]; exact Nat.zero_le _
  · apply Nat.div_le_of_le_mul
    exact Nat.mul_le_mul_right Y (Nat.le_add_left p C)

theorem sellq_mono (C Y : Nat) {p p' : Nat} (h : p ≤ p') : p * Y / (C + p) ≤ p' * Y / (C + p') := by
  by_cases h0 : C + p' = 0
  · have : p = 0 := by omega
    subst this; simp
  · obtain ⟨e, rfl⟩ : ∃ e, p' = p + e := ⟨p' - p, by omega⟩
    rw [Nat.le_div_iff_mul_le (Nat.pos_of_ne_zero h0)]
    have h1 := sellq_mul_le p C Y
    have h2 := sellq_le p C Y
    generalize p * Y / (C + p) = q at *
    nlinarith [Nat.mul_le_mul_right e h2]

/-! ### 1. sell -/

theorem inputPrice_zero (X Y df S : Nat) : inputPrice 0 X Y df S = 0 := by
  unfold inputPrice; simp

/-- selling more never yields less -/
theorem inputPrice_mono (X Y df S : Nat) {dx dx' : Nat} (h : dx ≤ dx') :
    inputPrice dx X Y df S ≤ inputPrice dx' X Y df S := by
  unfold inputPrice
  exact sellq_mono (X * S) Y (Nat.mul_le_mul_right df h)

/-- a sell never yields more than the reserve (no hypothesis) -/
theorem inputPrice_le_reserve (dx X Y df S : Nat) : inputPrice dx X Y df S ≤ Y := by
  unfold inputPrice; exact sellq_le _ _ _

/-- a sell can never drain a pool that has input reserve -/
theorem inputPrice_lt_reserve (dx X Y df S : Nat) (hX : 0 < X) (hS : 0 < S) (hY : 0 < Y) :
    inputPrice dx X Y df S < Y := by
  unfold inputPrice
  have hC : 0 < X * S := Nat.mul_pos hX hS
  rw [Nat.div_lt_iff_lt_mul (by omega)]
  nlinarith [Nat.mul_pos hY hC]

/-! ### 2. buy -/

theorem outputPrice_pos (out X Y df S : Nat) : 0 < outputPrice out X Y df S := by
  unfold outputPrice; exact Nat.succ_pos _

/-- buying more never costs less -/
theorem outputPrice_mono (X Y df S : Nat) {out out' : Nat} (h : out ≤ out') (hY : out' < Y) :
    outputPrice out X Y df S ≤ outputPrice out' X Y df S := by
  unfold outputPrice
  apply Nat.add_le_add_right
  by_cases hdf : df = 0
  · subst hdf; simp
  · apply Nat.div_le_div
    · exact Nat.mul_le_mul_right S (Nat.mul_le_mul_left X h)
    · exact Nat.mul_le_mul_right df (by omega)
    · exact Nat.mul_ne_zero (by omega) hdf

/-! ### 3. quote consistency -/

/-- paying the quoted buy price really buys at least `out` -/
theorem sell_of_buy_quote (out X Y df S : Nat) (hout : out < Y) (hdf : 0 < df) :
    out ≤ inputPrice (outputPrice out X Y df S) X Y df S := by
  have hD : 0 < (Y - out) * df := Nat.mul_pos (by omega) hdf
  have hlt : X * out * S < outputPrice out X Y df S * ((Y - out) * df) := by
    unfold outputPrice
    exact Nat.lt_mul_of_div_lt (Nat.lt_succ_self _) hD
  generalize outputPrice out X Y df S = s at *
  have hs : 0 < s := by
    rcases Nat.eq_zero_or_pos s with h | h
    · subst h; simp at hlt
    · exact h
  unfold inputPrice
  rw [Nat.le_div_iff_mul_le (by have := Nat.mul_pos hs hdf; omega)]
  obtain ⟨r, rfl⟩ : ∃ r, Y = out + r := ⟨Y - out, by omega⟩
  simp only [Nat.add_sub_cancel_left] at hlt
  nlinarith

/-- if `dx` buys at least `out`, the buy quote for `out` is at most `dx + 1` (no hypothesis) -/
theorem outputPrice_le_of_le_inputPrice (out dx X Y df S : Nat) (h : out ≤ inputPrice dx X Y df S) :
    outputPrice out X Y df S ≤ dx + 1 := by
  unfold outputPrice
  apply Nat.add_le_add_right
  by_cases hD : (Y - out) * df = 0
  · rw [hD, Nat.div_zero]; exact Nat.zero_le _
  · apply Nat.div_le_of_le_mul
    have hle : out ≤ Y := Nat.le_trans h (inputPrice_le_reserve _ _ _ _ _)
    unfold inputPrice at h
    have h1 := sellq_mul_le (dx * df) (X * S) Y
    have h2 : out * (X * S + dx * df) ≤ dx * df * Y :=
      Nat.le_trans (Nat.mul_le_mul_right _ h) h1
    obtain ⟨r, rfl⟩ : ∃ r, Y = out + r := ⟨Y - out, by omega⟩
    simp only [Nat.add_sub_cancel_left]
    nlinarith

/-- the buy quote for what a sell of `dx` yields is at most `dx + 1` (no hypothesis; tight) -/
theorem buy_of_sell_quote (dx X Y df S : Nat) :
    outputPrice (inputPrice dx X Y df S) X Y df S ≤ dx + 1 :=
  outputPrice_le_of_le_inputPrice _ _ _ _ _ _ (Nat.le_refl _)

/-- whoever pays the buy quote for `out` (or more) gets at least `out` -/
theorem le_inputPrice_of_outputPrice_le (out dx X Y df S : Nat) (hout : out < Y) (hdf : 0 < df)
    (h : outputPrice out X Y df S ≤ dx) : out ≤ inputPrice dx X Y df S :=
  Nat.le_trans (sell_of_buy_quote out X Y df S hout hdf) (inputPrice_mono X Y df S h)

/-- what a sell paid is never enough to buy one unit more -/
theorem outputPrice_succ_gt (dx X Y df S : Nat) (hY : inputPrice dx X Y df S + 1 < Y) (hdf : 0 < df) :
    dx < outputPrice (inputPrice dx X Y df S + 1) X Y df S := by
  by_contra hc
  have := le_inputPrice_of_outputPrice_le _ dx X Y df S hY hdf (by omega)
  omega

/-! ### 4. splitting a sell -/

/-- the arithmetic core: `p = a·δ`, `r = b·δ`, `C = X·S`, `A = a·S` -/
theorem split_core (p r C A Y b1 b2 : Nat) (hpA : p ≤ A)
    (h1 : b1 * (C + p) ≤ p * Y) (h2 : b2 * (C + A + r) ≤ r * (Y - b1)) (hb1 : b1 ≤ Y)
    (z1 : C + p = 0 → b1 = 0) :
    (b1 + b2) * (C + p + r) ≤ (p + r) * Y := by
  by_cases hD1 : C + p = 0
  · have hb := z1 hD1
    have hC : C = 0 := by omega
    have hp : p = 0 := by omega
    subst hb hC hp
    simp only [Nat.zero_add, Nat.sub_zero] at *
    nlinarith [Nat.zero_le (b2 * A)]
  by_cases hD2 : C + A + r = 0
  · have hC : C = 0 := by omega
    have hA : A = 0 := by omega
    have hr : r = 0 := by omega
    have hp : p = 0 := by omega
    subst hC hA hr hp
    simp
  have hD1' : 0 < C + p := Nat.pos_of_ne_zero hD1
  have hD2' : 0 < C + A + r := Nat.pos_of_ne_zero hD2
  have hpos : 0 < (C + p) * (C + A + r) := Nat.mul_pos hD1' hD2'
  apply Nat.le_of_mul_le_mul_right _ hpos
  obtain ⟨y, rfl⟩ : ∃ y, Y = b1 + y := ⟨Y - b1, by omega⟩
  obtain ⟨e, rfl⟩ : ∃ e, A = p + e := ⟨A - p, by omega⟩
  simp only [Nat.add_sub_cancel_left] at h2
  zify at *
  -- (b1+b2)·D2 ≤ r·Y + (C+A)·b1
  have s1 : ((b1:ℤ) + b2) * (C + (p + e) + r) ≤ r * (b1 + y) + (C + (p + e)) * b1 := by nlinarith
  have n1 : (0:ℤ) ≤ (C + p + r) * (C + p) := by positivity
  have n2 : (0:ℤ) ≤ (C + (p + e)) * (C + p + r) := by positivity
  have n3 : (0:ℤ) ≤ r * C * e * (b1 + y) := by positivity
  have m1 := mul_le_mul_of_nonneg_right s1 n1
  have m2 := mul_le_mul_of_nonneg_right h1 n2
  nlinarith [m1, m2, n3]

/-- the sell quotient form of the split theorem -/
theorem sellq_split (p r C A Y : Nat) (hpA : p ≤ A) :
    p * Y / (C + p) + r * (Y - p * Y / (C + p)) / (C + A + r) ≤ (p + r) * Y / (C + (p + r)) := by
  by_cases hD : C + (p + r) = 0
  · have hp : p = 0 := by omega
    have hr : r = 0 := by omega
    subst hp hr; simp
  rw [Nat.le_div_iff_mul_le (Nat.pos_of_ne_zero hD), ← Nat.add_assoc]
  apply split_core p r C A Y _ _ hpA (sellq_mul_le p C Y) (Nat.div_mul_le_self _ _) (sellq_le p C Y)
  intro h0; rw [h0, Nat.div_zero]

/-- **Splitting a sell order never yields more** than the single order, for every fee `0 ≤ fee`
(`δ ≤ S`): sell `a`, then sell `b` against the updated reserves `(X + a, Y − bought₁)`. -/
theorem sell_split_le (a b X Y df S : Nat) (hdf : df ≤ S) :
    inputPrice a X Y df S + inputPrice b (X + a) (Y - inputPrice a X Y df S) df S
      ≤ inputPrice (a + b) X Y df S := by
  unfold inputPrice
  have := sellq_split (a * df) (b * df) (X * S) (a * S) Y (Nat.mul_le_mul_left a hdf)
  rw [Nat.add_mul X a S, Nat.add_mul a b df]
  exact this

/-! ### 5. the fee -/

/-- a higher fee (smaller `δ`) never gives the seller more -/
theorem fee_mono_sell (dx X Y S : Nat) {df df' : Nat} (h : df ≤ df') :
    inputPrice dx X Y df S ≤ inputPrice dx X Y df' S := by
  unfold inputPrice
  exact sellq_mono (X * S) Y (Nat.mul_le_mul_left dx h)

/-- a higher fee (smaller `δ`, still positive) never costs the buyer less -/
theorem fee_mono_buy (out X Y S : Nat) {df df' : Nat} (h0 : 0 < df) (h : df ≤ df') (hout : out < Y) :
    outputPrice out X Y df' S ≤ outputPrice out X Y df S := by
  unfold outputPrice
  apply Nat.add_le_add_right
  apply Nat.div_le_div (Nat.le_refl _) (Nat.mul_le_mul_left _ h)
  exact Nat.mul_ne_zero (by omega) (by omega)

/-! ### non-vacuity, tightness, necessity of the hypotheses -/

-- group 1: 0.3 % fee, reserves 10^24 / 3·10^24, sells of 10^18 and 2·10^18
example : inputPrice 1000000000000000000 1000000000000000000000000 3000000000000000000000000
    997000000000000000 1000000000000000000 = 2990997017975973077 := by decide
example : inputPrice 1000000000000000000 1000000000000000000000000 3000000000000000000000000
      997000000000000000 1000000000000000000
    < inputPrice 2000000000000000000 1000000000000000000000000 3000000000000000000000000
      997000000000000000 1000000000000000000 := by decide
/-- with an empty input reserve a sell takes the whole output reserve: `0 < X` is needed in `inputPrice_lt_reserve` -/
theorem inputPrice_lt_reserve_needs_X : inputPrice 1 0 5 1 1 = 5 := by decide

-- group 2
example : outputPrice 2990997017975973077 1000000000000000000000000 3000000000000000000000000
    997000000000000000 1000000000000000000 = 1000000000000000000 := by decide
/-- at `out' = Y` the total kernel falls back to `1`: `out' < Y` is needed in `outputPrice_mono` -/
theorem outputPrice_mono_needs_lt : outputPrice 5 10 5 1 1 < outputPrice 4 10 5 1 1 := by decide

-- group 3
/-- the bound of `buy_of_sell_quote` is reached: selling 1000 yields exactly 5, and the quote for 5 is 1001 -/
theorem buy_of_sell_quote_tight :
    inputPrice 1000 997 10 997000000000000000 1000000000000000000 = 5 ∧
    outputPrice 5 997 10 997000000000000000 1000000000000000000 = 1000 + 1 := by decide
/-- … and `sell_of_buy_quote` can hold with equality and with strict inequality -/
example : inputPrice (outputPrice 5 997 10 997000000000000000 1000000000000000000) 997 10
    997000000000000000 1000000000000000000 = 5 := by decide
example : 1 < inputPrice (outputPrice 1 1 10 997000000000000000 1000000000000000000) 1 10
    997000000000000000 1000000000000000000 := by decide

-- group 4
/-- the split can also reach the single sale exactly: 10 + 10 against (100, 100) at 0.3 % gives 9 + 7 = 16 -/
theorem sell_split_eq :
    inputPrice 10 100 100 997000000000000000 1000000000000000000 = 9 ∧
    inputPrice 10 110 91 997000000000000000 1000000000000000000 = 7 ∧
    inputPrice 20 100 100 997000000000000000 1000000000000000000 = 16 := by decide
/-- splitting can lose strictly: 100 + 100 against (1000, 1000) at 0.3 % gives 90 + 75 < 166 -/
theorem sell_split_strict :
    inputPrice 100 1000 1000 997000000000000000 1000000000000000000 = 90 ∧
    inputPrice 100 1100 910 997000000000000000 1000000000000000000 = 75 ∧
    inputPrice 200 1000 1000 997000000000000000 1000000000000000000 = 166 := by decide
/-- with a negative fee (`δ > S`) splitting can win: 2 + 1 > 2 -/
theorem sell_split_needs_fee_nonneg :
    inputPrice 1 3 5 2 1 = 2 ∧ inputPrice 1 4 3 2 1 = 1 ∧ inputPrice 2 3 5 2 1 = 2 := by decide

-- group 5
example : inputPrice 1000 1000 1000 990000000000000000 1000000000000000000
    < inputPrice 1000 1000 1000 997000000000000000 1000000000000000000 := by decide
example : outputPrice 100 1000 1000 997000000000000000 1000000000000000000
    < outputPrice 100 1000 1000 990000000000000000 1000000000000000000 := by decide
/-- at `δ = 0` (fee 100 %) the total kernel gives 1, cheaper than any real quote: `0 < δ` is needed in `fee_mono_buy` -/
theorem fee_mono_buy_needs_pos : outputPrice 1 1 2 0 1 < outputPrice 1 1 2 1 1 := by decide

end Arith

/-! ## the guarded model kernels (`.ok` runs) -/
namespace Coinswap

theorem inputPrice_ok_arith {a X Y fee b : Nat} (h : inputPrice a X Y fee = .ok b) :
    fee ≤ S18 ∧ b = Arith.inputPrice a X Y (S18 - fee) S18 := by
  obtain ⟨h1, _, h3⟩ := inputPrice_ok h
  exact ⟨h1, h3⟩

theorem outputPrice_ok_arith {out X Y fee s : Nat} (h : outputPrice out X Y fee = .ok s) :
    fee ≤ S18 ∧ out < Y ∧ 0 < S18 - fee ∧ s = Arith.outputPrice out X Y (S18 - fee) S18 := by
  obtain ⟨h1, h2, h3, h4⟩ := outputPrice_ok h
  have ha : Y - out ≠ 0 := fun h0 => h3 (by rw [h0, Nat.zero_mul])
  have hb : S18 - fee ≠ 0 := fun h0 => h3 (by rw [h0, Nat.mul_zero])
  exact ⟨h1, by omega, Nat.pos_of_ne_zero hb, h4⟩

theorem S18_pos : 0 < S18 := by decide

/-- 1. selling more never yields less -/
theorem inputPrice_mono {a a' X Y fee b b' : Nat} (h : inputPrice a X Y fee = .ok b)
    (h' : inputPrice a' X Y fee = .ok b') (hle : a ≤ a') : b ≤ b' := by
  obtain ⟨_, rfl⟩ := inputPrice_ok_arith h
  obtain ⟨_, rfl⟩ := inputPrice_ok_arith h'
  exact Arith.inputPrice_mono _ _ _ _ hle

theorem inputPrice_le_reserve {a X Y fee b : Nat} (h : inputPrice a X Y fee = .ok b) : b ≤ Y := by
  obtain ⟨_, rfl⟩ := inputPrice_ok_arith h
  exact Arith.inputPrice_le_reserve _ _ _ _ _

/-- 1. a sell can never drain the pool -/
theorem inputPrice_lt_reserve {a X Y fee b : Nat} (h : inputPrice a X Y fee = .ok b)
    (hX : 0 < X) (hY : 0 < Y) : b < Y := by
  obtain ⟨_, rfl⟩ := inputPrice_ok_arith h
  exact Arith.inputPrice_lt_reserve _ _ _ _ _ hX S18_pos hY

theorem inputPrice_zero {X Y fee b : Nat} (h : inputPrice 0 X Y fee = .ok b) : b = 0 := by
  obtain ⟨_, rfl⟩ := inputPrice_ok_arith h
  exact Arith.inputPrice_zero _ _ _ _

/-- 2. buying more never costs less (both runs `.ok` already says `out' < Y`) -/
theorem outputPrice_mono {o o' X Y fee s s' : Nat} (h : outputPrice o X Y fee = .ok s)
    (h' : outputPrice o' X Y fee = .ok s') (hle : o ≤ o') : s ≤ s' := by
  obtain ⟨_, _, _, rfl⟩ := outputPrice_ok_arith h
  obtain ⟨_, hlt, _, rfl⟩ := outputPrice_ok_arith h'
  exact Arith.outputPrice_mono _ _ _ _ hle hlt

theorem outputPrice_pos {o X Y fee s : Nat} (h : outputPrice o X Y fee = .ok s) : 0 < s := by
  obtain ⟨_, _, _, rfl⟩ := outputPrice_ok_arith h
  exact Arith.outputPrice_pos _ _ _ _ _

/-- 3. paying the quoted buy price buys at least `out` -/
theorem sell_of_buy_quote {out X Y fee sold b : Nat} (h : outputPrice out X Y fee = .ok sold)
    (h' : inputPrice sold X Y fee = .ok b) : out ≤ b := by
  obtain ⟨_, hlt, hdf, rfl⟩ := outputPrice_ok_arith h
  obtain ⟨_, rfl⟩ := inputPrice_ok_arith h'
  exact Arith.sell_of_buy_quote _ _ _ _ _ hlt hdf

/-- 3. the buy quote for what a sell of `dx` yields is at most `dx + 1` -/
theorem buy_of_sell_quote {dx X Y fee b s : Nat} (h : inputPrice dx X Y fee = .ok b)
    (h' : outputPrice b X Y fee = .ok s) : s ≤ dx + 1 := by
  obtain ⟨_, rfl⟩ := inputPrice_ok_arith h
  obtain ⟨_, _, _, rfl⟩ := outputPrice_ok_arith h'
  exact Arith.buy_of_sell_quote _ _ _ _ _

/-- 3. if `dx` buys at least `out`, the buy quote for `out` is at most `dx + 1` -/
theorem outputPrice_le_of_le_inputPrice {out dx X Y fee b s : Nat} (h : inputPrice dx X Y fee = .ok b)
    (h' : outputPrice out X Y fee = .ok s) (hle : out ≤ b) : s ≤ dx + 1 := by
  obtain ⟨_, rfl⟩ := inputPrice_ok_arith h
  obtain ⟨_, _, _, rfl⟩ := outputPrice_ok_arith h'
  exact Arith.outputPrice_le_of_le_inputPrice _ _ _ _ _ _ hle

/-- 3. whoever pays the buy quote for `out` (or more) gets at least `out` -/
theorem le_inputPrice_of_outputPrice_le {out dx X Y fee b s : Nat} (h : outputPrice out X Y fee = .ok s)
    (h' : inputPrice dx X Y fee = .ok b) (hle : s ≤ dx) : out ≤ b := by
  obtain ⟨_, hlt, hdf, rfl⟩ := outputPrice_ok_arith h
  obtain ⟨_, rfl⟩ := inputPrice_ok_arith h'
  exact Arith.le_inputPrice_of_outputPrice_le _ _ _ _ _ _ hlt hdf hle

/-- 4. splitting a sell never yields more -/
theorem sell_split_le {a b X Y fee b1 b2 t : Nat} (h1 : inputPrice a X Y fee = .ok b1)
    (h2 : inputPrice b (X + a) (Y - b1) fee = .ok b2) (h : inputPrice (a + b) X Y fee = .ok t) :
    b1 + b2 ≤ t := by
  obtain ⟨_, rfl⟩ := inputPrice_ok_arith h1
  obtain ⟨_, rfl⟩ := inputPrice_ok_arith h2
  obtain ⟨_, rfl⟩ := inputPrice_ok_arith h
  exact Arith.sell_split_le _ _ _ _ _ _ (Nat.sub_le _ _)

/-- 5. a higher fee never gives the seller more -/
theorem fee_mono_sell {a X Y fee fee' b b' : Nat} (h : inputPrice a X Y fee = .ok b)
    (h' : inputPrice a X Y fee' = .ok b') (hle : fee ≤ fee') : b' ≤ b := by
  obtain ⟨_, rfl⟩ := inputPrice_ok_arith h
  obtain ⟨_, rfl⟩ := inputPrice_ok_arith h'
  exact Arith.fee_mono_sell _ _ _ _ (Nat.sub_le_sub_left hle _)

/-- 5. a higher fee never costs the buyer less -/
theorem fee_mono_buy {o X Y fee fee' s s' : Nat} (h : outputPrice o X Y fee = .ok s)
    (h' : outputPrice o X Y fee' = .ok s') (hle : fee ≤ fee') : s ≤ s' := by
  obtain ⟨_, hlt, _, rfl⟩ := outputPrice_ok_arith h
  obtain ⟨_, _, hdf', rfl⟩ := outputPrice_ok_arith h'
  exact Arith.fee_mono_buy _ _ _ _ hdf' (Nat.sub_le_sub_left hle _) hlt

/-! non-vacuity of the guarded statements: all these runs return `.ok` (0.3 % fee) -/
example : inputPrice 1000000000000000000 1000000000000000000000000 3000000000000000000000000
    3000000000000000 = .ok 2990997017975973077 := by decide
example : outputPrice 2990997017975973077 1000000000000000000000000 3000000000000000000000000
    3000000000000000 = .ok 1000000000000000000 := by decide
example : inputPrice 100 1000 1000 3000000000000000 = .ok 90 ∧
    inputPrice 100 1100 910 3000000000000000 = .ok 75 ∧
    inputPrice 200 1000 1000 3000000000000000 = .ok 166 := by decide
example : outputPrice 100 1000 1000 3000000000000000 = .ok 112 ∧
    outputPrice 100 1000 1000 10000000000000000 = .ok 113 := by decide

end Coinswap
end CV
