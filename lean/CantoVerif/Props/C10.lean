import CantoVerif.Proofs.CsrSucceeds
import CantoVerif.Props.C16
/-!
# C10 — the contract-secured-revenue fee split is exact and leaves nothing behind.

Statements about the model's `postTx` (`Model/Csr.lean`), for every state, every receipt, every
`gasUsed`, `gasPrice`, every share in `[0,1]`:

* `hook_effects` — the complete effect of a fee-bearing hook invocation; from it
  `fee_leaves_collector`, `registered_split`, `unregistered_burn`, `creation_burn`,
  `module_residue_zero`;
* `share_floor_exact` — `csrFee = ⌊fee·share/10^18⌋` exactly (integer × decimal is exact before
  truncation), `≤ fee` for a share in `[0,1]`, `0` at share 0, `fee` at share 1;
* `never_fails_for_valid_share` — if the Turnstile is deployed, the fee collector holds the fee and
  magnitudes are below 2^255, the hook returns no error, for every share in `[0,1]` (both end points), every
  `gasUsed` and `gasPrice` (zero included), every target and every receipt;
* `revenue_matches_turnstile` — over every history from the empty registry the revenue recorded for an
  NFT equals its balance in the Turnstile.

`gasUsed = 0` is outside the property (no EVM transaction uses no gas): the hook then only processes events.
-/
set_option linter.unusedSimpArgs false
namespace CV
namespace Csr
open Spec

/-! ## the share -/

/-- **`share_floor_exact`.** `LegacyNewDecFromInt(fee).Mul(share).TruncateInt()` is exactly the floor of
`fee·share/10^18` (no rounding error is introduced by the decimal multiplication) … -/
theorem share_floor_exact {fee share v : Nat} (h : csrFeeOf fee share = .ok v) :
    v * S18 ≤ fee * share ∧ fee * share < (v + 1) * S18 := by
  have hv := csrFeeOf_ok h
  subst hv
  have hS : 0 < S18 := by decide
  constructor
  · exact Nat.div_mul_le_self _ _
  · have := Nat.div_add_mod (fee * share) S18
    have hm := Nat.mod_lt (fee * share) hS
    rw [Nat.add_mul, Nat.one_mul, Nat.mul_comm (fee * share / S18) S18]
    omega

/-- … it is `0` for share 0 and the whole fee for share 1; it never exceeds the fee for a share in `[0,1]` (`share_le_fee`) -/
theorem share_zero (fee : Nat) : fee * 0 / S18 = 0 := by simp
theorem share_one (fee : Nat) : fee * S18 / S18 = fee := Nat.mul_div_cancel _ (by decide)

/-! ## the complete effect of a fee-bearing invocation -/

/-- bank side: the fee collector is down by `fee`, the Turnstile up by `v`, the supply down by `rem`; the csr
module account, the evm module account, every other account and every other denomination are untouched -/
structure BankEffects (env : Env) (s s' : State) (ts : Addr) (fee v rem : Nat) : Prop where
  collector : s'.bank.get env.feeCollector env.denom + fee = s.bank.get env.feeCollector env.denom
  turnstile : s'.bank.get ts env.denom = s.bank.get ts env.denom + v
  supply : s'.bank.supply env.denom + rem = s.bank.supply env.denom
  modAcct : ∀ d, s'.bank.get env.modAddr d = s.bank.get env.modAddr d
  evmAcct : ∀ d, s'.bank.get env.evmAddr d = s.bank.get env.evmAddr d
  frame : ∀ a d, (a ≠ env.feeCollector ∧ a ≠ ts) ∨ d ≠ env.denom → s'.bank.get a d = s.bank.get a d
  supplyFrame : ∀ d, d ≠ env.denom → s'.bank.supply d = s.bank.supply d

/-- which leg ran, with everything it did -/
inductive HookEffects (env : Env) (s s' : State) (ts : Addr) (to : Option Addr) (fee : Nat) (logs : List Log) : Prop where
  /-- contract creation or a target that is not registered once the receipt's events are processed -/
  | burned (hto : to = none ∨ ∃ c, to = some c ∧ (processEvents env ts s logs).nftOf c = none)
      (bank : BankEffects env s s' ts fee 0 fee)
      (tsBal : s'.tsBal = s.tsBal)
      (csrs : s'.csrs = (processEvents env ts s logs).csrs) (idx : s'.idx = (processEvents env ts s logs).idx)
  /-- a target registered to NFT `n` -/
  | split (c : Addr) (n : Nat) (r : CSR) (hto : to = some c) (hn : (processEvents env ts s logs).nftOf c = some n)
      (hr : (processEvents env ts s logs).getCSR n = some r)
      (bank : BankEffects env s s' ts fee (fee * s.params.share / S18) (fee - fee * s.params.share / S18))
      (credited : s'.tsBal.get n = s.tsBal.get n + fee * s.params.share / S18)
      (others : ∀ m, m ≠ n → s'.tsBal.get m = s.tsBal.get m)
      (record : s'.getCSR r.id = some { r with txs := (r.txs + 1) % U64, revenue := r.revenue + fee * s.params.share / S18 })
      (otherRecords : ∀ m, m ≠ r.id → s'.getCSR m = (processEvents env ts s logs).getCSR m)
      (noOverflow : r.revenue + fee * s.params.share / S18 < intBound)

theorem hook_effects {env : Env} {s s' : State} {to : Option Addr} {gu gp : Nat} {logs : List Log} {ts : Addr}
    (h : postTx env s to gu gp logs = .ok s') (hen : s.params.enabled = true) (hts : s.turnstile = some ts)
    (hgu : gu ≠ 0) (W : Wiring env ts) (hshare : s.params.share ≤ S18) :
    HookEffects env s s' ts to (gu * gp) logs := by
  cases postTx_ok h with
  | disabled hen' hs => rw [hen] at hen'; cases hen'
  | gasZero ts' hen' hts' hgu' hs => exact absurd hgu' hgu
  | fee ts' b1 hen' hts' hgu' hgp hfee h1 hpath =>
    rw [hts] at hts'; injection hts' with hts'; subst hts'
    have hsr := processEvents_sameRest env ts s logs
    rw [hsr.bank] at h1
    cases hpath with
    | burn hto hb =>
      obtain ⟨b', hb', rfl⟩ := burnAll_ok hb
      have hb' : CondApply (gu * gp) b1 [.burn env.modAddr env.denom (gu * gp)] b' := hb'
      obtain ⟨p1, p2, p3, p4, p5, p6, p7⟩ :=
        bank_path W (first := true) (v := 0) h1 (Or.inl ⟨rfl, rfl⟩) hb' (Nat.zero_add _)
      exact .burned hto ⟨p1, p2, p3, p4, p5, p6, p7⟩ hsr.tsBal rfl rfl
    | split c n r hto hn hr hsp =>
      obtain ⟨s3, b4, h3, hburn, hlt, hs'⟩ := (split_ok hsp).ex
      have hvle := share_le_fee (gu * gp) s.params.share hshare
      -- the Turnstile call, uniformly
      have hevm : CondEvm env (processEvents env ts s logs).modFirst ts (gu * gp * s.params.share / S18) b1 s3.bank ∧
          s3.tsBal.get n = s.tsBal.get n + gu * gp * s.params.share / S18 ∧
          (∀ m, m ≠ n → s3.tsBal.get m = s.tsBal.get m) ∧
          s3.csrs = (processEvents env ts s logs).csrs ∧ s3.idx = (processEvents env ts s logs).idx := by
        rcases h3 with ⟨hz, rfl⟩ | ⟨hnz, hd⟩
        · refine ⟨Or.inl ⟨hz, rfl⟩, ?_, ?_, rfl, rfl⟩
          · show (processEvents env ts s logs).tsBal.get n = _
            rw [hsr.tsBal, hz]; rfl
          · intro m _
            show (processEvents env ts s logs).tsBal.get m = _
            rw [hsr.tsBal]
        · obtain ⟨_, _, b, hb, rfl⟩ := distributeFees_ok hd
          refine ⟨Or.inr ⟨hnz, hb⟩, ?_, ?_, rfl, rfl⟩
          · show ((processEvents env ts s logs).tsBal.set n _).get n = _
            rw [AMap.get_set_same, hsr.tsBal]
          · intro m hm
            show ((processEvents env ts s logs).tsBal.set n _).get m = _
            rw [AMap.get_set_other _ _ _ _ hm, hsr.tsBal]
      obtain ⟨hevm, hcred, hoth, hcs, hix⟩ := hevm
      obtain ⟨p1, p2, p3, p4, p5, p6, p7⟩ := bank_path W h1 hevm hburn (by omega)
      subst hs'
      refine .split c n r hto hn hr ⟨p1, p2, p3, p4, p5, p6, p7⟩ hcred hoth ?_ ?_ hlt
      · rw [getCSR_setCSR]; simp
      · intro m hm
        rw [getCSR_setCSR]
        simp only [hm, if_false]
        simp only [State.getCSR, hcs]

/-! ## the clauses of the property -/

/-- **`fee_leaves_collector`.** A successful fee-bearing invocation takes exactly `gasUsed·gasPrice` of the EVM
denomination out of the fee collector and nothing of any other denomination. -/
theorem fee_leaves_collector {env : Env} {s s' : State} {to : Option Addr} {gu gp : Nat} {logs : List Log} {ts : Addr}
    (h : postTx env s to gu gp logs = .ok s') (hen : s.params.enabled = true) (hts : s.turnstile = some ts)
    (hgu : gu ≠ 0) (W : Wiring env ts) (hshare : s.params.share ≤ S18) :
    s'.bank.get env.feeCollector env.denom + gu * gp = s.bank.get env.feeCollector env.denom ∧
    ∀ d, d ≠ env.denom → s'.bank.get env.feeCollector d = s.bank.get env.feeCollector d := by
  cases hook_effects h hen hts hgu W hshare with
  | burned _ bank => exact ⟨bank.collector, fun d hd => bank.frame _ d (Or.inr hd)⟩
  | split _ _ _ _ _ _ bank => exact ⟨bank.collector, fun d hd => bank.frame _ d (Or.inr hd)⟩

/-- **`registered_split`.** If the called contract is registered to NFT `n` (once the receipt's own events are
processed): `⌊fee·share⌋` is credited to `balances[n]` in the Turnstile (and moves to the Turnstile's account),
is added to the NFT's recorded revenue, its transaction count grows by one (uint64), and the remainder
`fee − ⌊fee·share⌋` is burned. -/
theorem registered_split {env : Env} {s s' : State} {c : Addr} {gu gp : Nat} {logs : List Log} {ts : Addr} {n : Nat} {r : CSR}
    (h : postTx env s (some c) gu gp logs = .ok s') (hen : s.params.enabled = true) (hts : s.turnstile = some ts)
    (hgu : gu ≠ 0) (W : Wiring env ts) (hshare : s.params.share ≤ S18)
    (hn : (processEvents env ts s logs).nftOf c = some n) (hr : (processEvents env ts s logs).getCSR n = some r) :
    let csrFee := gu * gp * s.params.share / S18
    s'.tsBal.get n = s.tsBal.get n + csrFee ∧
    s'.bank.get ts env.denom = s.bank.get ts env.denom + csrFee ∧
    s'.getCSR r.id = some { r with txs := (r.txs + 1) % U64, revenue := r.revenue + csrFee } ∧
    s'.bank.supply env.denom + (gu * gp - csrFee) = s.bank.supply env.denom ∧
    csrFee ≤ gu * gp := by
  intro csrFee
  cases hook_effects h hen hts hgu W hshare with
  | burned hto =>
    rcases hto with hto | ⟨c', hc', hnone⟩
    · cases hto
    · injection hc' with hc'; subst hc'; rw [hn] at hnone; cases hnone
  | split c' n' r' hto hn' hr' bank credited others record =>
    injection hto with hto; subst hto
    rw [hn] at hn'; injection hn' with hn'; subst hn'
    rw [hr] at hr'; injection hr' with hr'; subst hr'
    exact ⟨credited, bank.turnstile, record, bank.supply, share_le_fee _ _ hshare⟩

/-- **`unregistered_burn`.** A target that is not registered (once the receipt's events are processed): the whole
fee is burned; no Turnstile balance, no Turnstile funds, no recorded revenue or transaction count moves. -/
theorem unregistered_burn {env : Env} {s s' : State} {c : Addr} {gu gp : Nat} {logs : List Log} {ts : Addr}
    (h : postTx env s (some c) gu gp logs = .ok s') (hen : s.params.enabled = true) (hts : s.turnstile = some ts)
    (hgu : gu ≠ 0) (W : Wiring env ts) (hshare : s.params.share ≤ S18)
    (hn : (processEvents env ts s logs).nftOf c = none) :
    s'.bank.supply env.denom + gu * gp = s.bank.supply env.denom ∧
    s'.bank.get ts env.denom = s.bank.get ts env.denom ∧ s'.tsBal = s.tsBal ∧
    s'.csrs = (processEvents env ts s logs).csrs := by
  cases hook_effects h hen hts hgu W hshare with
  | burned _ bank tsBal csrs => exact ⟨bank.supply, bank.turnstile, tsBal, csrs⟩
  | split c' n' r' hto hn' =>
    injection hto with hto; subst hto; rw [hn] at hn'; cases hn'

/-- **`creation_burn`.** A contract creation (`to = nil`): the whole fee is burned. -/
theorem creation_burn {env : Env} {s s' : State} {gu gp : Nat} {logs : List Log} {ts : Addr}
    (h : postTx env s none gu gp logs = .ok s') (hen : s.params.enabled = true) (hts : s.turnstile = some ts)
    (hgu : gu ≠ 0) (W : Wiring env ts) (hshare : s.params.share ≤ S18) :
    s'.bank.supply env.denom + gu * gp = s.bank.supply env.denom ∧
    s'.bank.get ts env.denom = s.bank.get ts env.denom ∧ s'.tsBal = s.tsBal ∧
    s'.csrs = (processEvents env ts s logs).csrs := by
  cases hook_effects h hen hts hgu W hshare with
  | burned _ bank tsBal csrs => exact ⟨bank.supply, bank.turnstile, tsBal, csrs⟩
  | split c' n' r' hto => cases hto

/-- **`module_residue_zero`.** Whatever the hook did — disabled, no gas, burn or split, any receipt — afterwards the
CSR module account holds exactly what it held before, in every denomination; so does the evm module account the
EVM transfer passes through. -/
theorem module_residue_zero {env : Env} {s s' : State} {to : Option Addr} {gu gp : Nat} {logs : List Log} {ts : Addr}
    (h : postTx env s to gu gp logs = .ok s') (hts : s.turnstile = some ts) (W : Wiring env ts)
    (hshare : s.params.share ≤ S18) (d : Denom) :
    s'.bank.get env.modAddr d = s.bank.get env.modAddr d ∧ s'.bank.get env.evmAddr d = s.bank.get env.evmAddr d := by
  cases hen : s.params.enabled with
  | false =>
    cases postTx_ok h with
    | disabled _ hs => subst hs; exact ⟨rfl, rfl⟩
    | gasZero _ hen' => rw [hen] at hen'; cases hen'
    | fee _ _ hen' => rw [hen] at hen'; cases hen'
  | true =>
    by_cases hgu : gu = 0
    · cases postTx_ok h with
      | disabled hen' => rw [hen] at hen'; cases hen'
      | gasZero ts' _ _ _ hs =>
        subst hs
        rw [(processEvents_sameRest env ts' s logs).bank]; exact ⟨rfl, rfl⟩
      | fee _ _ _ _ hgu' => exact absurd hgu hgu'
    · cases hook_effects h hen hts hgu W hshare with
      | burned _ bank => exact ⟨bank.modAcct d, bank.evmAcct d⟩
      | split _ _ _ _ _ _ bank => exact ⟨bank.modAcct d, bank.evmAcct d⟩

/-- rejected ⇒ unchanged (the EVM reverts a transaction whose hook fails) -/
theorem rejected_unchanged (env : Env) (s : State) (op : Op) (e : Rej) (h : step env s op = .error e) :
    exec env s op = s := by
  unfold exec; rw [h]

/-! ## `never_fails_for_valid_share` -/

/-- the hypotheses of `never_fails_for_valid_share`, as propositions -/
structure NeverFailsPre (env : Env) (s : State) (ts : Addr) (gu gp : Nat) : Prop where
  deployed : s.turnstile = some ts
  wiring : Wiring env ts
  share : s.params.share ≤ S18
  funded : gu * gp ≤ s.bank.get env.feeCollector env.denom
  supply : s.bank.supply env.denom < HALF
  covered : s.bank.get env.feeCollector env.denom + s.bank.get env.modAddr env.denom + s.bank.get env.evmAddr env.denom +
            s.bank.get ts env.denom ≤ s.bank.supply env.denom
  revenues : ∀ n r, s.getCSR n = some r → r.revenue < HALF
  balances : ∀ n, s.tsBal.get n < HALF
  registry : RegInv s

theorem neverFailsPre_of_bool {env : Env} {s : State} {gu gp : Nat} (h : neverFailsPre env s gu gp = true) :
    ∃ ts, NeverFailsPre env s ts gu gp := by
  unfold neverFailsPre at h
  split at h
  · cases h
  · rename_i ts hts
    simp only [Bool.and_eq_true, decide_eq_true_eq, sane] at h
    obtain ⟨⟨⟨⟨hd, hsh⟩, hf⟩, ⟨⟨⟨hs, hc⟩, hr⟩, hb⟩⟩, hI⟩ := h
    refine ⟨ts, hts, wiring_of_distinct hd, hsh, hf, hs, hc, ?_, ?_, (regInvB_iff s).mp hI⟩
    · intro n r hr'
      have := lookup_all (p := fun r => decide (r.revenue < HALF)) hr hr'
      simpa using this
    · intro n
      exact getL_all (by decide) hb n

/-- **`never_fails_for_valid_share`.** For EVERY share in `[0,1]` (0, 10^-18, …, 1 included), every `gasUsed` and
`gasPrice` (zero included), every target (contract creation, registered, unregistered) and every receipt: if the
Turnstile is deployed, the fee collector holds `gasUsed·gasPrice`, the registry is consistent and magnitudes are
below 2^255 (total supply of the EVM denomination covering the four accounts involved, recorded revenues, Turnstile
balances), then `PostTxProcessing` returns no error — the hook does not fail the transaction. -/
theorem never_fails_for_valid_share {env : Env} {s : State} {ts : Addr} {gu gp : Nat} (P : NeverFailsPre env s ts gu gp)
    (to : Option Addr) (logs : List Log) : ∃ s', postTx env s to gu gp logs = .ok s' := by
  obtain ⟨hts, W, hshare, hfund, hsup, hcov, hrevs, hbals, hI⟩ := P
  have hHB : HALF + HALF = intBound := by decide
  unfold postTx
  by_cases hen : s.params.enabled = false
  · simp only [hen, if_true]; exact ⟨_, rfl⟩
  · simp only [hen, if_false, hts]
    by_cases hgu : gu = 0
    · simp only [hgu, if_true]; exact ⟨_, rfl⟩
    · simp only [hgu, if_false]
      have hsr := processEvents_sameRest env ts s logs
      have hI1 := processEvents_regInv env ts s logs hI
      -- recorded revenues stay below 2^255 through the events: new records start at 0, old ones keep theirs
      have hrev1 : ∀ n r, (processEvents env ts s logs).getCSR n = some r → r.revenue < HALF := by
        have key := processEvents_induct (P := fun s' => RegInv s' ∧ ∀ n r, s'.getCSR n = some r → r.revenue < HALF) env ts
          (by
            intro s1 l ⟨hI1', hr1⟩
            refine ⟨handleLog_regInv env ts s1 l hI1', ?_⟩
            have hc := handleLog_cases env ts s1 l
            generalize handleLog env ts s1 l = res at hc ⊢
            cases hc with
            | skip k => exact hr1
            | register c tid hem htop hpay hfree hid =>
              intro n r hr
              rw [getCSR_setCSR] at hr
              split at hr
              · injection hr with hr; subst hr; show 0 < HALF; decide
              · exact hr1 n r hr
            | assign c tid r0 hem htop hpay hfree hid =>
              intro n r hr
              rw [getCSR_setCSR] at hr
              split at hr
              · injection hr with hr; subst hr; exact hr1 _ r0 hid
              · exact hr1 n r hr)
          logs s ⟨hI, hrevs⟩
        exact key.2
      generalize hs1 : processEvents env ts s logs = s1 at hsr hI1 hrev1 ⊢
      have hgp : gp ≤ gu * gp := Nat.le_mul_of_pos_left gp (Nat.pos_of_ne_zero hgu)
      have hgplt : gp < intBound := by omega
      have hfeelt : gu * gp < intBound := by omega
      have e1 : SdkInt.ofBig gp = .ok gp := by simp [SdkInt.ofBig, hgplt]
      have e2 : SdkInt.mul gu gp = .ok (gu * gp) := by simp [SdkInt.mul, hfeelt]
      rw [e1, ok_bind, e2, ok_bind]
      generalize hfee : gu * gp = fee at *
      -- fee collector → module
      have hA : ∃ b1, (if fee = 0 then (.ok s1.bank : R Bank)
          else s1.bank.applyAll [.xfer env.feeCollector env.modAddr env.denom fee]) = .ok b1 ∧
          CondApply fee s.bank [.xfer env.feeCollector env.modAddr env.denom fee] b1 := by
        rw [hsr.bank]
        by_cases hz : fee = 0
        · exact ⟨s.bank, by simp [hz], Or.inl ⟨hz, rfl⟩⟩
        · obtain ⟨b, hb⟩ := xfer_ok s.bank env.denom (v := fee) W.fc_mod hfund (by omega)
          exact ⟨b, by simp only [hz, if_false]; exact applyAll_single hb, Or.inr ⟨hz, applyAll_single hb⟩⟩
      obtain ⟨b1, hb1, hc1⟩ := hA
      rw [hb1, ok_bind]
      obtain ⟨x1, x2, x3, x4⟩ := xfer_facts hc1 W.fc_mod
      have hevm1 := x3 env.evmAddr env.denom (Or.inl ⟨fun e => W.fc_evm e.symm, fun e => W.mod_evm e.symm⟩)
      have hts1 := x3 ts env.denom (Or.inl ⟨fun e => W.fc_ts e.symm, fun e => W.mod_ts e.symm⟩)
      have hsup1 := x4 env.denom
      -- the burn-everything leg
      have hburn : ∃ s', burnAll env { s1 with bank := b1 } fee = .ok s' :=
        burnAll_succeeds env _ fee (by show fee ≤ b1.get _ _; omega) (by show fee ≤ b1.supply _; omega)
      cases to with
      | none => exact hburn
      | some c =>
        dsimp only
        cases hn : State.nftOf { s1 with bank := b1 } c with
        | none => exact hburn
        | some n =>
          dsimp only
          have hn1 : s1.nftOf c = some n := hn
          obtain ⟨r, hr, _⟩ := hI1.sound c n hn1
          have hr2 : State.getCSR { s1 with bank := b1 } n = some r := hr
          rw [hr2]
          dsimp only
          have hrev := hrev1 n r hr
          have htsb : s1.tsBal.get n < HALF := by rw [hsr.tsBal]; exact hbals n
          rw [hsr.params]
          exact split_succeeds env _ ts n r fee s.params.share W (by omega) hshare
            (by show fee ≤ b1.get _ _; omega) (by show b1.get _ _ + fee < intBound; omega)
            (by show b1.get _ _ + fee < intBound; omega) (by show b1.supply _ + fee < intBound; omega)
            (by show fee ≤ b1.supply _; omega) (by show s1.tsBal.get n + fee < intBound; omega) (by omega)

/-- the predicate the driver evaluates on every implementation transition is what the theorem proves of the model -/
theorem never_fails_monitor {env : Env} {s : State} {to : Option Addr} {gu gp : Nat} {logs : List Log} :
    c10_never_fails { env := env, pre := s, op := .postTx to gu gp logs,
                      ok := (match step env s (.postTx to gu gp logs) with | .ok _ => true | .error _ => false),
                      post := exec env s (.postTx to gu gp logs) } = true := by
  simp only [c10_never_fails, step]
  cases hp : postTx env s to gu gp logs with
  | ok s' => simp
  | error e =>
    simp only [Bool.false_or, Bool.not_eq_true', Bool.or_eq_false_iff, beq_eq_false_iff_ne, ne_eq]
    constructor
    · intro hen
      have : postTx env s to gu gp logs = .ok s := by unfold postTx; simp [hen]
      rw [this] at hp; cases hp
    · cases hb : neverFailsPre env s gu gp with
      | false => rfl
      | true =>
        obtain ⟨ts, P⟩ := neverFailsPre_of_bool hb
        obtain ⟨s', hs'⟩ := never_fails_for_valid_share P to logs
        rw [hs'] at hp; cases hp

/-! ## the other monitors of C10 on model transitions -/

theorem fee_leaves_collector_monitor {env : Env} {s s' : State} {to : Option Addr} {gu gp : Nat} {logs : List Log}
    (h : postTx env s to gu gp logs = .ok s') (hshare : s.params.share ≤ S18) :
    c10_fee_leaves_collector { env := env, pre := s, op := .postTx to gu gp logs, ok := true, post := s' } = true := by
  simp only [c10_fee_leaves_collector]
  split
  · rfl
  · rename_i ts hft
    obtain ⟨hts, hen, hgu, W⟩ := feeTx_some hft
    obtain ⟨f1, f2⟩ := fee_leaves_collector h hen hts hgu W hshare
    simp only [Bool.and_eq_true, List.all_eq_true, beq_iff_eq, Bool.or_eq_true, bne_iff_ne, ne_eq]
    refine ⟨?_, f1⟩
    intro k _
    by_cases hk : k.1 = env.feeCollector
    · right
      by_cases hd : k.2 = env.denom
      · rw [if_pos hd, beq_iff_eq, hd]; exact f1
      · rw [if_neg hd, beq_iff_eq]; exact f2 k.2 hd
    · left; exact hk

theorem module_residue_zero_monitor {env : Env} {s s' : State} {to : Option Addr} {gu gp : Nat} {logs : List Log}
    (h : postTx env s to gu gp logs = .ok s') (hshare : s.params.share ≤ S18) :
    c10_module_residue_zero { env := env, pre := s, op := .postTx to gu gp logs, ok := true, post := s' } = true := by
  simp only [c10_module_residue_zero]
  split
  · rfl
  · rename_i ts hts
    cases hd : distinct env ts with
    | false => rfl
    | true =>
      have W := wiring_of_distinct hd
      simp only [Bool.not_true, Bool.false_or, List.all_eq_true, Bool.or_eq_true, Bool.not_eq_true', beq_iff_eq]
      intro k _
      by_cases hk : k.1 = env.modAddr
      · right; rw [hk]; exact (module_residue_zero h hts W hshare k.2).1
      · by_cases hk2 : k.1 = env.evmAddr
        · right; rw [hk2]; exact (module_residue_zero h hts W hshare k.2).2
        · left
          simp [hk, hk2]


theorem afterEvents_eq {env : Env} {s : State} {ts : Addr} (logs : List Log) (hen : s.params.enabled = true)
    (hts : s.turnstile = some ts) : afterEvents env s logs = processEvents env ts s logs := by
  simp [afterEvents, hen, hts]

theorem registered_split_monitor {env : Env} {s s' : State} {to : Option Addr} {gu gp : Nat} {logs : List Log}
    (hI : RegInv s) (h : postTx env s to gu gp logs = .ok s') (hshare : s.params.share ≤ S18) :
    c10_registered_split { env := env, pre := s, op := .postTx to gu gp logs, ok := true, post := s' } = true := by
  simp only [c10_registered_split]
  split
  · rename_i ts n hft htn
    obtain ⟨hts, hen, hgu, W⟩ := feeTx_some hft
    cases to with
    | none => simp [targetNft] at htn
    | some c =>
      have htn : s'.nftOf c = some n := htn
      obtain ⟨hidx, _⟩ := fee_distribution_preserves_registry hI h
      rw [afterEvents_eq logs hen hts] at hidx
      have hn1 : (processEvents env ts s logs).nftOf c = some n := by
        simpa only [State.nftOf, hidx] using htn
      have hI1 := processEvents_regInv env ts s logs hI
      obtain ⟨r, hr, _⟩ := hI1.sound c n hn1
      obtain ⟨hrid, _⟩ := hI1.wf n r hr
      obtain ⟨g1, g2, g3, g4, g5⟩ := registered_split h hen hts hgu W hshare hn1 hr
      obtain ⟨c1, c2⟩ := processEvents_counters logs hI n hr
      rw [hrid] at g3
      rw [g3]
      simp only [Bool.and_eq_true, beq_iff_eq, Bool.or_eq_true, Bool.not_eq_true', decide_eq_false_iff_not, decide_eq_true_eq]
      refine ⟨⟨⟨⟨⟨?_, ?_⟩, g1⟩, g2⟩, g4⟩, g5⟩
      · rw [c2]
      · by_cases hlt : ((s.getCSR n).map (·.txs)).getD 0 + 1 < U64
        · right
          rw [c1]
          exact Nat.mod_eq_of_lt hlt
        · left; exact hlt
  · rfl

theorem burn_all_monitor {env : Env} {s s' : State} {to : Option Addr} {gu gp : Nat} {logs : List Log}
    (hI : RegInv s) (h : postTx env s to gu gp logs = .ok s') (hshare : s.params.share ≤ S18) :
    c10_burn_all { env := env, pre := s, op := .postTx to gu gp logs, ok := true, post := s' } = true := by
  simp only [c10_burn_all]
  split
  · rename_i ts hft htn
    obtain ⟨hts, hen, hgu, W⟩ := feeTx_some hft
    obtain ⟨hidx, _⟩ := fee_distribution_preserves_registry hI h
    rw [show afterEvents env s logs = processEvents env ts s logs by simp [afterEvents, hen, hts]] at hidx
    have facts : s'.bank.supply env.denom + gu * gp = s.bank.supply env.denom ∧
        s'.bank.get ts env.denom = s.bank.get ts env.denom ∧ s'.tsBal = s.tsBal ∧
        s'.csrs = (processEvents env ts s logs).csrs := by
      cases to with
      | none => exact creation_burn h hen hts hgu W hshare
      | some c =>
        have htn : s'.nftOf c = none := htn
        have hn1 : (processEvents env ts s logs).nftOf c = none := by simpa only [State.nftOf, hidx] using htn
        exact unregistered_burn h hen hts hgu W hshare hn1
    obtain ⟨g1, g2, g3, g4⟩ := facts
    simp only [Bool.and_eq_true, beq_iff_eq, List.all_eq_true]
    refine ⟨⟨⟨g1, g2⟩, by rw [g3]; exact AMap.eqv_refl _⟩, ?_⟩
    intro p _
    cases hr' : s'.getCSR p.1 with
    | none => rfl
    | some r' =>
      have hr1 : (processEvents env ts s logs).getCSR p.1 = some r' := by simpa only [State.getCSR, g4] using hr'
      obtain ⟨c1, c2⟩ := processEvents_counters logs hI p.1 hr1
      simp only [Bool.and_eq_true, beq_iff_eq]
      exact ⟨c1, c2⟩
  · rfl

/-- rejected ⇒ unchanged, disabled ⇒ accepted and unchanged: true of every transition of the model -/
theorem rejected_or_disabled_monitor (env : Env) (s : State) (op : Op) :
    c10_rejected_or_disabled_unchanged
      { env := env, pre := s, op := op,
        ok := (match step env s op with | .ok _ => true | .error _ => false),
        post := exec env s op } = true := by
  simp only [c10_rejected_or_disabled_unchanged, Bool.and_eq_true, Bool.or_eq_true]
  constructor
  · cases hs : step env s op with
    | ok s' => exact Or.inl rfl
    | error e => right; rw [rejected_unchanged env s op e hs]; exact sameState_refl s
  · cases op with
    | setParams => trivial
    | send => trivial
    | postTx to gu gp logs =>
      cases hen : s.params.enabled with
      | true => simp
      | false =>
        have : postTx env s to gu gp logs = .ok s := by unfold postTx; simp [hen]
        simp [step, exec, this, sameState_refl]

theorem frame_monitor {env : Env} {s s' : State} {to : Option Addr} {gu gp : Nat} {logs : List Log}
    (hI : RegInv s) (h : postTx env s to gu gp logs = .ok s') (hshare : s.params.share ≤ S18)
    (hW : ∀ ts, s.turnstile = some ts → Wiring env ts) :
    c10_frame { env := env, pre := s, op := .postTx to gu gp logs, ok := true, post := s' } = true := by
  simp only [c10_frame]
  -- the three statements the monitor is made of, for a stored Turnstile
  have key : ∀ ts, s.turnstile = some ts →
      (∀ a d, (a ≠ env.feeCollector ∧ a ≠ ts) ∨ d ≠ env.denom → s'.bank.get a d = s.bank.get a d) ∧
      (∀ d, d ≠ env.denom → s'.bank.supply d = s.bank.supply d) ∧
      (∀ n, some n = targetNft { env := env, pre := s, op := .postTx to gu gp logs, ok := true, post := s' } to ∨
            s'.tsBal.get n = s.tsBal.get n) := by
    intro ts hts
    cases postTx_ok h with
    | disabled _ hs => subst hs; exact ⟨fun _ _ _ => rfl, fun _ _ => rfl, fun _ => Or.inr rfl⟩
    | gasZero ts' _ _ _ hs =>
      subst hs
      have hsr := processEvents_sameRest env ts' s logs
      rw [hsr.bank, hsr.tsBal]
      exact ⟨fun _ _ _ => rfl, fun _ _ => rfl, fun _ => Or.inr rfl⟩
    | fee ts' b1 hen hts' hgu =>
      cases hook_effects h hen hts hgu (hW ts hts) hshare with
      | burned _ bank tsBal => exact ⟨bank.frame, bank.supplyFrame, fun n => Or.inr (by rw [tsBal])⟩
      | split c n r hto hn hr bank credited others =>
        refine ⟨bank.frame, bank.supplyFrame, ?_⟩
        intro m
        by_cases hm : m = n
        · left
          subst hm hto
          obtain ⟨hidx, _⟩ := fee_distribution_preserves_registry hI h
          rw [show afterEvents env s logs = processEvents env ts s logs by simp [afterEvents, hen, hts]] at hidx
          show some m = s'.nftOf c
          simp only [State.nftOf, hidx]
          exact hn.symm
        · exact Or.inr (others m hm)
  split
  · rename_i hts
    -- no Turnstile stored: only a disabled module lets the hook return
    cases postTx_ok h with
    | disabled _ hs => rw [hs]; exact sameBank_refl s
    | gasZero ts _ hts' => rw [hts] at hts'; cases hts'
    | fee ts _ _ hts' => rw [hts] at hts'; cases hts'
  · rename_i ts hts
    obtain ⟨k1, k2, k3⟩ := key ts hts
    simp only [Bool.and_eq_true, List.all_eq_true, Bool.or_eq_true, beq_iff_eq]
    refine ⟨⟨?_, ?_⟩, ?_⟩
    · intro k _
      by_cases hd : k.2 = env.denom
      · by_cases ha : k.1 = env.feeCollector ∨ k.1 = ts
        · left; exact ⟨ha, hd⟩
        · right
          have : k.1 ≠ env.feeCollector ∧ k.1 ≠ ts := ⟨fun e => ha (Or.inl e), fun e => ha (Or.inr e)⟩
          exact k1 k.1 k.2 (Or.inl this)
      · right; exact k1 k.1 k.2 (Or.inr hd)
    · intro d _
      by_cases hd : d = env.denom
      · exact Or.inl hd
      · exact Or.inr (k2 d hd)
    · intro n _
      exact k3 n


/-! ## histories: recorded revenue is the Turnstile balance -/

theorem revenueMatches_step {env : Env} {s s' : State} {op : Op} (hI : RegInv s) (hshare : s.params.share ≤ S18)
    (hW : ∀ ts, s.turnstile = some ts → Wiring env ts)
    (hM : RevenueMatches s) (h : step env s op = .ok s') : RevenueMatches s' := by
  cases op with
  | setParams auth en share =>
    simp only [step] at h
    obtain ⟨_, _, h⟩ := bind_ok h
    obtain ⟨_, _, h⟩ := bind_ok h
    injection h with h; subst h; exact hM
  | send src dst d amt =>
    simp only [step] at h
    obtain ⟨b, _, h⟩ := bind_ok h
    injection h with h; subst h; exact hM
  | postTx to gu gp logs =>
    have hev : ∀ ts, RevenueMatches (processEvents env ts s logs) ∧ RegInv (processEvents env ts s logs) := by
      intro ts
      have key := processEvents_induct (P := fun s' => RegInv s' ∧ RevenueMatches s') env ts
        (fun s1 l ⟨a, b⟩ => ⟨handleLog_regInv env ts s1 l a, revenueMatches_handleLog env ts s1 l a b⟩) logs s ⟨hI, hM⟩
      exact ⟨key.2, key.1⟩
    have h' : postTx env s to gu gp logs = .ok s' := h
    cases postTx_ok h' with
    | disabled _ hs => subst hs; exact hM
    | gasZero ts _ _ _ hs => subst hs; exact (hev ts).1
    | fee ts b1 hen hts hgu =>
      obtain ⟨hM1, hI1⟩ := hev ts
      have hsr := processEvents_sameRest env ts s logs
      cases hook_effects h' hen hts hgu (hW ts hts) hshare with
      | burned _ _ tsBal csrs _ =>
        intro n
        rw [tsBal, ← hsr.tsBal]
        have := hM1 n
        simpa only [State.getCSR, csrs] using this
      | split c n r hto hn hr bank credited others record otherRecords =>
        obtain ⟨hrid, _⟩ := hI1.wf n r hr
        intro m
        by_cases hm : m = n
        · subst hm
          have := hM1 m
          rw [hr, hsr.tsBal] at this
          have hrec : s'.getCSR m = some { r with txs := (r.txs + 1) % U64, revenue := r.revenue + gu * gp * s.params.share / S18 } := by
            rw [← hrid]; exact record
          rw [credited, hrec]
          simp at this ⊢
          omega
        · rw [others m hm, otherRecords m (by rw [hrid]; exact hm), ← hsr.tsBal]
          exact hM1 m

/-- valid parameters and a sound wiring, as far as the history theorem needs them -/
def Sound (env : Env) (s : State) : Prop :=
  RegInv s ∧ s.params.share ≤ S18 ∧ (∀ ts, s.turnstile = some ts → Wiring env ts) ∧ RevenueMatches s

theorem sound_exec {env : Env} {s : State} {op : Op} (h : Sound env s) : Sound env (exec env s op) := by
  rcases exec_cases env s op with he | he
  · rw [he]; exact h
  · obtain ⟨hI, hsh, hW, hM⟩ := h
    refine ⟨csr_inv_step hI he, ?_, ?_, revenueMatches_step hI hsh hW hM he⟩
    · -- the share stays in [0,1]: only `setParams` writes it, after validation
      cases op with
      | postTx to gu gp logs =>
        have he' : postTx env s to gu gp logs = .ok (exec env s (.postTx to gu gp logs)) := he
        cases postTx_ok he' with
        | disabled _ hs => rw [hs]; exact hsh
        | gasZero ts _ _ _ hs => rw [hs, (processEvents_sameRest env ts s logs).params]; exact hsh
        | fee ts b1 _ _ _ _ _ _ hpath =>
          have hsr := processEvents_sameRest env ts s logs
          cases hpath with
          | burn _ hb => obtain ⟨b', _, hs⟩ := burnAll_ok hb; rw [hs]; show (processEvents env ts s logs).params.share ≤ _; rw [hsr.params]; exact hsh
          | split c n r _ _ _ hsp =>
            obtain ⟨s4, _, _, hs⟩ := split_reg hsp
            obtain ⟨s3, b4, h3, _, _, hs''⟩ := (split_ok hsp).ex
            rw [hs'']
            show s3.params.share ≤ _
            rcases h3 with ⟨_, rfl⟩ | ⟨_, hd⟩
            · show (processEvents env ts s logs).params.share ≤ _; rw [hsr.params]; exact hsh
            · obtain ⟨_, _, b, _, rfl⟩ := distributeFees_ok hd
              show (processEvents env ts s logs).params.share ≤ _; rw [hsr.params]; exact hsh
      | setParams auth en share =>
        simp only [step] at he
        obtain ⟨_, _, he⟩ := bind_ok he
        obtain ⟨_, hv, he⟩ := bind_ok he
        have hv := ensure_ok hv
        injection he with he; rw [← he]
        show (share.getD 0).toNat ≤ S18
        unfold validShare at hv
        cases share with
        | none => cases hv
        | some v =>
          simp only [Bool.and_eq_true, decide_eq_true_eq] at hv
          simp only [Option.getD_some]
          omega
      | send src dst d amt =>
        simp only [step] at he
        obtain ⟨b, _, he⟩ := bind_ok he
        injection he with he; rw [← he]; exact hsh
    · -- the stored Turnstile address is never written by these operations
      intro ts hts
      apply hW ts
      cases op with
      | postTx to gu gp logs =>
        have he' : postTx env s to gu gp logs = .ok (exec env s (.postTx to gu gp logs)) := he
        cases postTx_ok he' with
        | disabled _ hs => rw [hs] at hts; exact hts
        | gasZero ts' _ _ _ hs => rw [hs, (processEvents_sameRest env ts' s logs).turnstile] at hts; exact hts
        | fee ts' b1 _ _ _ _ _ _ hpath =>
          have hsr := processEvents_sameRest env ts' s logs
          cases hpath with
          | burn _ hb =>
            obtain ⟨b', _, hs⟩ := burnAll_ok hb
            rw [hs] at hts
            have hts : (processEvents env ts' s logs).turnstile = some ts := hts
            rw [hsr.turnstile] at hts; exact hts
          | split c n r _ _ _ hsp =>
            obtain ⟨s3, b4, h3, _, _, hs''⟩ := (split_ok hsp).ex
            rw [hs''] at hts
            have hts : s3.turnstile = some ts := hts
            rcases h3 with ⟨_, rfl⟩ | ⟨_, hd⟩
            · have hts : (processEvents env ts' s logs).turnstile = some ts := hts
              rw [hsr.turnstile] at hts; exact hts
            · obtain ⟨_, _, b, _, rfl⟩ := distributeFees_ok hd
              have hts : (processEvents env ts' s logs).turnstile = some ts := hts
              rw [hsr.turnstile] at hts; exact hts
      | setParams auth en share =>
        simp only [step] at he
        obtain ⟨_, _, he⟩ := bind_ok he
        obtain ⟨_, _, he⟩ := bind_ok he
        injection he with he; rw [← he] at hts; exact hts
      | send src dst d amt =>
        simp only [step] at he
        obtain ⟨b, _, he⟩ := bind_ok he
        injection he with he; rw [← he] at hts; exact hts

/-- **`revenue_matches_turnstile`, every history.** Starting from a state where recorded revenues equal Turnstile
balances (e.g. the empty registry with an untouched Turnstile), after any sequence of receipts — any targets spread
over any number of NFTs, any shares set in between, accepted or failed — the revenue recorded for every NFT is
exactly its balance in the Turnstile: every unit credited is recorded and nothing else is. (Withdrawals by NFT
owners are not part of the operation alphabet.) -/
theorem revenue_matches_turnstile {env : Env} {s : State} (ops : List Op) (h : Sound env s) :
    RevenueMatches (run env s ops) :=
  (foldl_inv (exec env) (Sound env) (fun s op h => sound_exec (env := env) (s := s) (op := op) h) ops s h).2.2.2

/-! ## non-vacuity -/

def exS (share : Nat) : State :=
  { bank := { bal := ⟨[(("m.fee_collector", "acanto"), 1000), (("ts", "acanto"), 7)]⟩, sup := ⟨[("acanto", 5000)]⟩,
              accts := ["m.fee_collector", "m.csr", "ts"] },
    params := { enabled := true, share := share }, turnstile := some "ts", modFirst := true,
    csrs := [(7, { id := 7, contracts := ["c1"], txs := 3, revenue := 7 })], idx := [("c1", 7)],
    tsBal := ⟨[(7, 7)]⟩ }

/-- the hypotheses of `never_fails_for_valid_share` hold in a concrete state at both ends of the share range and
for a one-unit fee whose share rounds to zero -/
example : neverFailsPre exEnv (exS 0) 10 10 = true := by decide +kernel
example : neverFailsPre exEnv (exS S18) 10 10 = true := by decide +kernel
example : neverFailsPre exEnv (exS 200000000000000000) 1 1 = true := by decide +kernel
example : neverFailsPre exEnv (exS 200000000000000000) 5 0 = true := by decide +kernel

/-- … and the model does what the property says there: share 0.2 of a fee of 100: 20 credited and recorded, 80 burned,
transaction counted; share 0: nothing credited, all burned, still counted; share 1: all credited, nothing burned -/
example : (match postTx exEnv (exS 200000000000000000) (some "c1") 10 10 [] with
           | .ok s' => s'.tsBal.get 7 == 27 && s'.bank.supply "acanto" == 4920 && s'.bank.get "m.fee_collector" "acanto" == 900 &&
                       s'.bank.get "ts" "acanto" == 27 && s'.bank.get "m.csr" "acanto" == 0 &&
                       s'.csrs == [(7, { id := 7, contracts := ["c1"], txs := 4, revenue := 27 })]
           | .error _ => false) = true := by decide +kernel
example : (match postTx exEnv (exS 0) (some "c1") 10 10 [] with
           | .ok s' => s'.tsBal.get 7 == 7 && s'.bank.supply "acanto" == 4900 &&
                       s'.csrs == [(7, { id := 7, contracts := ["c1"], txs := 4, revenue := 7 })]
           | .error _ => false) = true := by decide +kernel
example : (match postTx exEnv (exS S18) (some "c1") 10 10 [] with
           | .ok s' => s'.tsBal.get 7 == 107 && s'.bank.supply "acanto" == 5000 && s'.bank.get "m.csr" "acanto" == 0 &&
                       s'.csrs == [(7, { id := 7, contracts := ["c1"], txs := 4, revenue := 107 })]
           | .error _ => false) = true := by decide +kernel

end Csr
end CV
