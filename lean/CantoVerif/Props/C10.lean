import CantoVerif.Spec.Csr
