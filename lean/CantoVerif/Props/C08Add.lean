import CantoVerif.Props.C08
import CantoVerif.Props.C09
/-!
# C08 / C09 — the executable predicates `add_bounds` (C08) and `add_cap` (C09) hold of every successful addition of the
model.  Hypotheses beyond `EnvOK`/`WF`: the provider is no pool address (`NotEscrow`, state-independent so that it also
covers the escrow of the pool being created) and the creation-fee denomination is not the pool token of the pool.
-/
namespace CV
namespace Coinswap

/-- looking up the counter-asset of a freshly inserted pool finds it, when no listed pool had that counter-asset -/
theorem find_insertPool (l : List Pool) (p : Pool) (h : l.find? (fun q => q.counter == p.counter) = none) :
    (insertPool l p).find? (fun q => q.counter == p.counter) = some p := by
  induction l with
  | nil => simp [insertPool]
  | cons q qs ih =>
    simp only [List.find?_cons] at h
    split at h
    · cases h
    · rename_i hq
      simp only [insertPool]
      split
      · simp [List.find?_cons]
      · simp only [List.find?_cons, hq]
        exact ih h

/-- the exact changes of an addition (with or without the creation-fee effects) at the escrow and of the pool-token supply -/
theorem addEffs_exact {env : Env} {b b' : Bank} {fees : List Eff} {sender esc : Addr} {std tok lpt : Denom} {stdIn tokIn mint : Nat}
    (h : b.applyAll (fees ++ addEffs env sender esc std stdIn tok tokIn lpt mint) = .ok b')
    (hfee : fees = [] ∨ ∃ fd fa tax, fees = creationFeeEffs env sender fd fa tax ∧ fd ≠ lpt)
    (hse : sender ≠ esc) (hme : env.modAddr ≠ esc) (hfe : env.feeCollector ≠ esc)
    (hd : std ≠ tok) (hls : std ≠ lpt) (hlt : tok ≠ lpt) :
    b'.get esc std = b.get esc std + stdIn ∧ b'.get esc tok = b.get esc tok + tokIn ∧
    b'.supply lpt = b.supply lpt + mint := by
  have flow := Bank.applyAll_flow _ _ _ h
  have hes : esc ≠ sender := fun e => hse e.symm
  have hem : esc ≠ env.modAddr := fun e => hme e.symm
  have hef : esc ≠ env.feeCollector := fun e => hfe e.symm
  have hd' : tok ≠ std := fun e => hd e.symm
  have hls' : lpt ≠ std := fun e => hls e.symm
  have hlt' : lpt ≠ tok := fun e => hlt e.symm
  rcases hfee with rfl | ⟨fd, fa, tax, rfl, hfd⟩
  · refine ⟨?_, ?_, ?_⟩
    · have f := (flow esc std).1
      simp only [List.nil_append, addEffs] at f
      flow_simp at f
      simp only [hes, hem, hd, hls, hls', and_false, and_true, true_and, false_and, if_false, if_true] at f
      repeat' split at f
      all_goals omega
    · have f := (flow esc tok).1
      simp only [List.nil_append, addEffs] at f
      flow_simp at f
      simp only [hes, hem, hd', hlt, hlt', and_false, and_true, true_and, false_and, if_false, if_true] at f
      repeat' split at f
      all_goals omega
    · have f := (flow "" lpt).2
      simp only [List.nil_append, addEffs] at f
      flow_simp at f
      simp only [if_true] at f
      omega
  · have hfd' : lpt ≠ fd := fun e => hfd e.symm
    refine ⟨?_, ?_, ?_⟩
    · have f := (flow esc std).1
      simp only [creationFeeEffs, List.cons_append, List.nil_append, addEffs] at f
      flow_simp at f
      simp only [hes, hem, hef, hd, hls, hls', and_false, and_true, true_and, false_and, if_false, if_true] at f
      repeat' split at f
      all_goals omega
    · have f := (flow esc tok).1
      simp only [creationFeeEffs, List.cons_append, List.nil_append, addEffs] at f
      flow_simp at f
      simp only [hes, hem, hef, hd', hlt, hlt', and_false, and_true, true_and, false_and, if_false, if_true] at f
      repeat' split at f
      all_goals omega
    · have f := (flow "" lpt).2
      simp only [creationFeeEffs, List.cons_append, List.nil_append, addEffs] at f
      flow_simp at f
      simp only [hfd', hfd, if_false, if_true] at f
      omega

/-- everything the two addition predicates need, with one set of witnesses: the pool found in the post-state, the
exact changes at its escrow and of its pool-token supply, the response, and the branch facts -/
theorem add_full {env : Env} {s s' : State} {m : MsgAdd} {r : Resp} (hE : EnvOK env) (hW : WF env s)
    (hN : NotEscrow env (.add m)) (hLF : lptName s.seq ≠ s.params.feeDenom) (h : add env s m = .ok (s', r)) :
    ∃ (p : Pool) (stdIn tokIn mint : Nat),
      s'.poolByCounter m.tokDenom = some p ∧ r = .add p.lpt mint ∧
      s'.bank.get p.escrow s.std = s.bank.get p.escrow s.std + stdIn ∧
      s'.bank.get p.escrow m.tokDenom = s.bank.get p.escrow m.tokDenom + tokIn ∧
      s'.bank.supply p.lpt = s.bank.supply p.lpt + mint ∧
      tokIn ≤ m.maxToken.toNat ∧ stdIn ≤ m.exact.toNat ∧ m.minLiq.toNat ≤ mint ∧ stdIn ≤ s.params.maxStd ∧
      ((s.poolByCounter m.tokDenom = none ∨ (s.poolByCounter m.tokDenom = some p ∧ s.bank.supply p.lpt = 0)) ∧
         mint = stdIn ∧ tokIn = m.maxToken.toNat ∧ stdIn = m.exact.toNat
       ∨
       (s.poolByCounter m.tokDenom = some p ∧ s.bank.supply p.lpt ≠ 0 ∧
         s.bank.get p.escrow s.std + stdIn ≤ s.params.maxStd ∧
         (let X := s.bank.get p.escrow s.std
          let Y := s.bank.get p.escrow m.tokDenom
          let L := s.bank.supply p.lpt
          mint * X ≤ L * stdIn ∧ L * stdIn < (mint + 1) * X ∧
          1 ≤ tokIn ∧ (tokIn - 1) * X ≤ Y * stdIn ∧ Y * stdIn < tokIn * X))) := by
  obtain ⟨F⟩ := add_ok h
  obtain ⟨hstdtok, _, PF⟩ := planAdd_ok F.hPlan
  have hsb := decode_ok F.hSender
  have hb := F.hBank
  rw [hsb] at hb
  have hpools : s'.pools = F.plan.pools' := congrArg State.pools F.hState
  have hsenderNe : ∀ l a, env.reserve l = .ok a → m.sender.bytes ≠ a := by
    intro l a hr e
    exact hN m.sender.bytes rfl l (by rw [e]; exact hr)
  cases PF with
  | create tax esc hNone hTax hTaxLe hCap hMin hEsc hPlan =>
    have hpool : F.plan.pool = { counter := m.tokDenom, lpt := lptName s.seq, escrow := esc } := by rw [hPlan]
    have hfind : s'.poolByCounter m.tokDenom = some { counter := m.tokDenom, lpt := lptName s.seq, escrow := esc } := by
      unfold State.poolByCounter
      rw [hpools, hPlan]
      exact find_insertPool s.pools { counter := m.tokDenom, lpt := lptName s.seq, escrow := esc } hNone
    have hnm := hE.reserveNotMod _ _ hEsc
    rw [hPlan] at hb
    simp only at hb
    obtain ⟨x1, x2, x3⟩ := addEffs_exact hb
      (Or.inr ⟨s.params.feeDenom, s.params.feeAmt, tax, by rw [hsb], fun e => hLF e.symm⟩)
      (hsenderNe _ _ hEsc) (fun e => hnm.1 e.symm) (fun e => hnm.2 e.symm) hstdtok
      (fun e => ne_of_prefix (lptName_prefix s.seq) hW.stdNotLpt e.symm)
      (fun e => ne_of_prefix (lptName_prefix s.seq) F.tokNotLpt e.symm)
    refine ⟨_, m.exact.toNat, m.maxToken.toNat, m.exact.toNat, hfind, by rw [F.hResp, hPlan], x1, x2, x3,
      Nat.le_refl _, Nat.le_refl _, hMin, hCap, Or.inl ⟨Or.inl hNone, rfl, rfl, rfl⟩⟩
  | refill pool hSome hAcct hL hCap hMin hPlan =>
    obtain ⟨hmem, _⟩ := mem_of_poolByCounter hSome
    have hres := hW.reserveOk pool hmem
    have hnm := hE.reserveNotMod _ _ hres
    have hfind : s'.poolByCounter m.tokDenom = some pool := by
      unfold State.poolByCounter; rw [hpools, hPlan]; exact hSome
    rw [hPlan] at hb
    simp only at hb
    obtain ⟨x1, x2, x3⟩ := addEffs_exact hb (Or.inl rfl)
      (hsenderNe _ _ hres) (fun e => hnm.1 e.symm) (fun e => hnm.2 e.symm) hstdtok
      (fun e => ne_of_prefix (hW.lptPrefix pool hmem) hW.stdNotLpt e.symm)
      (fun e => ne_of_prefix (hW.lptPrefix pool hmem) F.tokNotLpt e.symm)
    refine ⟨pool, m.exact.toNat, m.maxToken.toNat, m.exact.toNat, hfind, by rw [F.hResp, hPlan], x1, x2, x3,
      Nat.le_refl _, Nat.le_refl _, hMin, hCap, Or.inl ⟨Or.inr ⟨hSome, hL⟩, rfl, rfl, rfl⟩⟩
  | live pool stdIn mint deposit hSome hAcct hL hRoom hAmts hMin hMax hPlan =>
    obtain ⟨hmem, _⟩ := mem_of_poolByCounter hSome
    have hres := hW.reserveOk pool hmem
    have hnm := hE.reserveNotMod _ _ hres
    have hfind : s'.poolByCounter m.tokDenom = some pool := by
      unfold State.poolByCounter; rw [hpools, hPlan]; exact hSome
    rw [hPlan] at hb
    simp only at hb
    obtain ⟨x1, x2, x3⟩ := addEffs_exact hb (Or.inl rfl)
      (hsenderNe _ _ hres) (fun e => hnm.1 e.symm) (fun e => hnm.2 e.symm) hstdtok
      (fun e => ne_of_prefix (hW.lptPrefix pool hmem) hW.stdNotLpt e.symm)
      (fun e => ne_of_prefix (hW.lptPrefix pool hmem) F.tokNotLpt e.symm)
    obtain ⟨_, hX0, hsd, hm, hd⟩ := addLiveAmounts_ok hAmts
    have hXpos : 0 < s.bank.get pool.escrow s.std := Nat.pos_of_ne_zero hX0
    have hle1 : stdIn ≤ m.exact.toNat := by rw [hsd]; exact Nat.min_le_left _ _
    have hle2 : stdIn ≤ s.params.maxStd - s.bank.get pool.escrow s.std := by rw [hsd]; exact Nat.min_le_right _ _
    refine ⟨pool, stdIn, deposit, mint, hfind, by rw [F.hResp, hPlan], x1, x2, x3, hMax, hle1, hMin, by omega,
      Or.inr ⟨hSome, hL, by omega, ?_⟩⟩
    simp only
    refine ⟨?_, ?_, ?_, ?_, ?_⟩
    · rw [hm]; exact Nat.div_mul_le_self _ _
    · rw [hm]; exact Nat.lt_mul_of_div_lt (Nat.lt_succ_self _) hXpos
    · rw [hd]; exact Nat.le_add_left 1 _
    · rw [hd]; simp only [Nat.add_sub_cancel]; exact Nat.div_mul_le_self _ _
    · rw [hd]; exact Nat.lt_mul_of_div_lt (Nat.lt_succ_self _) hXpos

open Spec in
/-- the executable predicates `add_bounds` (C08) and `add_cap` (C09) the driver evaluates on implementation transitions
hold of every successful addition of the model -/
theorem add_bounds_cap_monitor {env : Env} {s s' : State} {m : MsgAdd} {r : Resp} (hE : EnvOK env) (hW : WF env s)
    (hN : NotEscrow env (.add m)) (hLF : lptName s.seq ≠ s.params.feeDenom) (h : add env s m = .ok (s', r)) :
    c08_addBounds { env := env, pre := s, op := .add m, ok := true, resp := r, post := s' } = true ∧
    c09_addCap { env := env, pre := s, op := .add m, ok := true, resp := r, post := s' } = true := by
  obtain ⟨p, stdIn, tokIn, mint, hfind, hresp, x1, x2, x3, b1, b2, b3, b4, hbr⟩ := add_full hE hW hN hLF h
  obtain ⟨_, hcnt⟩ := mem_of_poolByCounter hfind
  subst hresp
  have g1 : gain { env := env, pre := s, op := Op.add m, ok := true, resp := .add p.lpt mint, post := s' } p.escrow s.std = stdIn := by
    simp only [gain]; omega
  have g2 : gain { env := env, pre := s, op := Op.add m, ok := true, resp := .add p.lpt mint, post := s' } p.escrow m.tokDenom = tokIn := by
    simp only [gain]; omega
  have g3 : s'.bank.supply p.lpt - s.bank.supply p.lpt = mint := by omega
  constructor
  · simp only [c08_addBounds, Bool.not_true, Bool.false_or, hfind, reserves, g1, g2, g3, hcnt]
    rcases hbr with ⟨hpre, e1, e2, e3⟩ | ⟨hpre, hL, _, r1, r2, r3, r4, r5⟩
    · have hcond : ((s.poolByCounter m.tokDenom).isSome && s.bank.supply p.lpt != 0) = false := by
        rcases hpre with hn | ⟨_, hz⟩
        · simp [hn]
        · simp [hz]
      simp only [hcond, Bool.false_eq_true, if_false, Bool.and_eq_true, beq_iff_eq, decide_eq_true_eq]
      repeat' constructor
      all_goals first | assumption | rfl
    · have hcond : ((s.poolByCounter m.tokDenom).isSome && s.bank.supply p.lpt != 0) = true := by
        simp [hpre, hL]
      simp only [hcond, if_true, Bool.and_eq_true, beq_iff_eq, decide_eq_true_eq]
      repeat' constructor
      all_goals first | assumption | rfl
  · simp only [c09_addCap, Bool.not_true, Bool.false_or, hfind, g1, Bool.and_eq_true, Bool.or_eq_true, decide_eq_true_eq,
      beq_iff_eq]
    refine ⟨b4, ?_⟩
    rcases hbr with ⟨hpre, _, _, _⟩ | ⟨_, _, hroom, _⟩
    · rcases hpre with hn | ⟨_, hz⟩
      · exact Or.inl (Or.inl (by simp [hn]))
      · exact Or.inl (Or.inr hz)
    · exact Or.inr hroom

end Coinswap
end CV
