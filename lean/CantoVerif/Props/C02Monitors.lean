import CantoVerif.Props.C02
import CantoVerif.Props.C08
/-!
# C02 — the executable predicate `remove_conserves` holds of every successful removal of the model.
(`rejected_unchanged` and `swap_conserves` are linked in `Props/C02.lean`.)
-/
namespace CV
namespace Coinswap

/-- the provider's pool-token balance falls by exactly the withdrawn amount -/
theorem removeEffs_sender_lpt {env : Env} {b b' : Bank} {sender esc : Addr} {std tok lpt : Denom} {w stdOut tokOut : Nat}
    (h : b.applyAll (removeEffs env sender esc lpt w std stdOut tok tokOut) = .ok b')
    (hsm : sender ≠ env.modAddr) (hls : std ≠ lpt) (hlt : tok ≠ lpt) :
    b'.get sender lpt + w = b.get sender lpt := by
  have flow := Bank.applyAll_flow _ _ _ h
  have f := (flow sender lpt).1
  simp only [removeEffs] at f
  flow_simp at f
  have hls' : lpt ≠ std := fun e => hls e.symm
  have hlt' : lpt ≠ tok := fun e => hlt e.symm
  simp only [hsm, hls', hlt', and_false, and_true, true_and, false_and, if_false, if_true] at f
  repeat' split at f
  all_goals omega

open Spec in
theorem remove_conserves_monitor {env : Env} {s s' : State} {m : MsgRemove} {r : Resp} (hE : EnvOK env) (hW : WF env s)
    (hS : SignerOK s (.remove m)) (hM : m.sender.bytes ≠ env.modAddr) (h : remove env s m = .ok (s', r)) :
    c02_remove { env := env, pre := s, op := .remove m, ok := true, resp := r, post := s' } = true := by
  obtain ⟨sender, pool, hs, hpool, hpools, hseq, hall⟩ := remove_conserves h
  have hs' := decode_ok hs
  subst hs'
  obtain ⟨pool', a, b, hpool', hbank, _, _, _, _⟩ := remove_bounds h
  have hpp : pool' = pool := by rw [hpool] at hpool'; injection hpool' with e; exact e.symm
  subst hpp
  obtain ⟨hmem, hlpt⟩ := mem_of_poolByLpt hpool
  have hse : m.sender.bytes ≠ pool'.escrow := hS m.sender.bytes rfl pool' hmem
  have hem : pool'.escrow ≠ env.modAddr := (hE.reserveNotMod pool'.lpt pool'.escrow (hW.reserveOk pool' hmem)).1
  have hls : s.std ≠ pool'.lpt := fun e => ne_of_prefix (hW.lptPrefix pool' hmem) hW.stdNotLpt e.symm
  have hlt : pool'.counter ≠ pool'.lpt := fun e => ne_of_prefix (hW.lptPrefix pool' hmem) (hW.counterNotLpt pool' hmem) e.symm
  have hsl := removeEffs_sender_lpt hbank hM hls hlt
  have hA : ([m.sender.bytes, pool'.escrow].eraseDups).contains env.modAddr = false := by
    cases hc : ([m.sender.bytes, pool'.escrow].eraseDups).contains env.modAddr with
    | false => rfl
    | true =>
      exfalso
      have : env.modAddr ∈ [m.sender.bytes, pool'.escrow].eraseDups := by simpa using hc
      rw [List.mem_eraseDups] at this
      simp only [List.mem_cons, List.not_mem_nil, or_false] at this
      rcases this with e | e
      · exact hM e.symm
      · exact hem e.symm
  obtain ⟨hd, hf, hsup, _⟩ := hall [m.sender.bytes, pool'.escrow].eraseDups (nodup_eraseDups _) (by simp) (by simp) hA
  simp only [c02_remove, parties, hpool]
  simp only [Bool.not_true, Bool.false_or, Bool.and_eq_true, List.all_eq_true, frameOutside, total, Bool.or_eq_true, beq_iff_eq]
  refine ⟨⟨⟨?_, ?_⟩, hpools.symm⟩, hseq.symm⟩
  · intro k _
    cases hc : [m.sender.bytes, pool'.escrow].eraseDups.contains k.1 with
    | true => exact Or.inl rfl
    | false => exact Or.inr (hf k.1 k.2 hc).symm
  · intro d _
    by_cases hdl : d = m.lptDenom
    · subst hdl
      simp only [if_true, Bool.and_eq_true, beq_iff_eq]
      rw [← hlpt]
      exact ⟨hsup, hsl⟩
    · have hdl' : d ≠ pool'.lpt := by rw [hlpt]; exact hdl
      rw [if_neg hdl]
      simp only [Bool.and_eq_true, beq_iff_eq]
      exact ⟨((hd d hdl').1).symm, ((hd d hdl').2).symm⟩

end Coinswap
end CV
