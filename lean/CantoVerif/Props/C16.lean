import CantoVerif.Proofs.CsrReg
/-!
# C16 — CSR registry: each contract belongs to at most one NFT, set only by the Turnstile.

All statements are about the model's `step` / `processEvents` / `postTx` (`Model/Csr.lean`), for every
state, every receipt (any number of logs, from any emitters, in any order, with any payloads) and every
sequence of operations.

* `csr_inv_step`, `csr_inv` — the registry invariant `RegInv` (index sound and complete w.r.t. the
  contract lists, lists duplicate-free, records under their own id) is kept by every operation,
  accepted or rejected, hence holds after every history from the empty registry; `at_most_one_nft`.
* `only_turnstile_logs` — processing a receipt equals processing its sub-list of Turnstile logs.
* `malformed_noop`, `inert_receipt_noop` — logs with malformed payloads / receipts without a
  well-formed Register or Assign log of the Turnstile change nothing at all.
* `register_needs_code`, `assign_needs_code`, `changes_explained` — every index entry after a receipt was
  there before or is accounted for by a well-formed log of the Turnstile naming a code-bearing contract.
* `no_recreate` — an existing NFT id keeps its record: same id, counters, contract list only extended.
* `fee_distribution_preserves_registry` — the fee path changes nothing but `txs` and `revenue`.

The early `return` of `processEvents` at the first failing Turnstile log (later valid logs of the same
receipt are dropped) is modelled as it is; it does not contradict the property.
-/
set_option linter.unusedSimpArgs false
namespace CV
namespace Csr
open Spec

/-! ## the invariant, one operation and all histories -/

/-- the state the fee path starts from: the receipt's events processed (when CSR is enabled and a Turnstile is stored) -/
def afterEvents (env : Env) (s : State) (logs : List Log) : State :=
  if s.params.enabled = false then s
  else match s.turnstile with
    | none => s
    | some ts => processEvents env ts s logs

/-- **`fee_distribution_preserves_registry`.** After the events of the receipt are processed, the rest of the
hook (fee transfer, Turnstile call, burn, counters) leaves the index as it is, literally, and every record's id
and contract list as they are: only `txs` and `revenue` change.  With an empty receipt: plain fee
distribution changes nothing of the registry but the two counters. -/
theorem fee_distribution_preserves_registry {env : Env} {s s' : State} {to : Option Addr} {gu gp : Nat} {logs : List Log}
    (hI : RegInv s) (h : postTx env s to gu gp logs = .ok s') :
    s'.idx = (afterEvents env s logs).idx ∧
    ∀ n, (s'.getCSR n).map (fun r => (r.id, r.contracts)) =
         ((afterEvents env s logs).getCSR n).map (fun r => (r.id, r.contracts)) := by
  cases postTx_ok h with
  | disabled hen hs => subst hs; simp [afterEvents, hen]
  | gasZero ts hen hts hgu hs => subst hs; simp [afterEvents, hen, hts]
  | fee ts b1 hen hts hgu hgp hfee h1 hpath =>
    have hae : afterEvents env s logs = processEvents env ts s logs := by simp [afterEvents, hen, hts]
    rw [hae]
    have hI1 := processEvents_regInv env ts s logs hI
    cases hpath with
    | burn hto hb =>
      obtain ⟨b', _, rfl⟩ := burnAll_ok hb
      exact ⟨rfl, fun n => rfl⟩
    | split c nft r hto hn hr hsp =>
      obtain ⟨s4, hc, hi, rfl⟩ := split_reg hsp
      obtain ⟨hrid, _⟩ := hI1.wf nft r hr
      constructor
      · show setIdx s4.idx r.contracts r.id = _
        rw [hi]
        apply setIdx_of_lookup
        intro c' hc'
        rw [hrid]
        exact hI1.complete nft r hr c' hc'
      · intro n
        rw [getCSR_setCSR]
        have hg : s4.getCSR n = (processEvents env ts s logs).getCSR n := by simp only [State.getCSR, hc]
        by_cases hnn : n = r.id
        · subst hnn
          have : (processEvents env ts s logs).getCSR r.id = some r := by rw [hrid]; exact hr
          simp [this]
        · simp [hnn, hg]

theorem regInv_postTx {env : Env} {s s' : State} {to : Option Addr} {gu gp : Nat} {logs : List Log}
    (hI : RegInv s) (h : postTx env s to gu gp logs = .ok s') : RegInv s' := by
  cases postTx_ok h with
  | disabled hen hs => subst hs; exact hI
  | gasZero ts hen hts hgu hs => subst hs; exact processEvents_regInv env ts s logs hI
  | fee ts b1 hen hts hgu hgp hfee h1 hpath =>
    have hI1 := processEvents_regInv env ts s logs hI
    cases hpath with
    | burn hto hb =>
      obtain ⟨b', _, rfl⟩ := burnAll_ok hb
      exact RegInv.of_sameReg (a := processEvents env ts s logs) rfl rfl hI1
    | split c nft r hto hn hr hsp =>
      obtain ⟨s4, hc, hi, rfl⟩ := split_reg hsp
      have hI4 : RegInv s4 := RegInv.of_sameReg (a := processEvents env ts s logs) hc hi hI1
      have hr4 : s4.getCSR nft = some r := by simpa only [State.getCSR, hc] using hr
      obtain ⟨hrid, hnd⟩ := hI4.wf nft r hr4
      apply regInv_setCSR hI4
      · exact hnd
      · intro r0 hr0 c' hc'
        have hr0 : s4.getCSR r.id = some r0 := hr0
        rw [hrid, hr4] at hr0
        injection hr0 with hr0; subst hr0; exact hc'
      · intro c' hc'
        right
        show s4.nftOf c' = some r.id
        rw [hrid]; exact hI4.complete nft r hr4 c' hc'

/-- **`csr_inv`, one step.** Every accepted operation keeps the registry invariant. -/
theorem csr_inv_step {env : Env} {s s' : State} {op : Op} (hI : RegInv s) (h : step env s op = .ok s') : RegInv s' := by
  cases op with
  | postTx to gu gp logs => exact regInv_postTx hI h
  | setParams auth en share =>
    simp only [step] at h
    obtain ⟨_, _, h⟩ := bind_ok h
    obtain ⟨_, _, h⟩ := bind_ok h
    injection h with h; subst h
    exact RegInv.of_sameReg (a := s) rfl rfl hI
  | send src dst d amt =>
    simp only [step] at h
    obtain ⟨b, _, h⟩ := bind_ok h
    injection h with h; subst h
    exact RegInv.of_sameReg (a := s) rfl rfl hI

theorem exec_cases (env : Env) (s : State) (op : Op) : exec env s op = s ∨ step env s op = .ok (exec env s op) := by
  unfold exec
  cases h : step env s op with
  | error e => exact Or.inl rfl
  | ok v => exact Or.inr rfl

theorem csr_inv_exec {env : Env} {s : State} {op : Op} (hI : RegInv s) : RegInv (exec env s op) := by
  rcases exec_cases env s op with h | h
  · rw [h]; exact hI
  · exact csr_inv_step hI h

/-- **`csr_inv`, every history.** After any sequence of operations — receipts with arbitrary mixes of logs,
accepted or failed, interleaved with fee distribution, parameter changes and transfers — the two prefixes agree:
`idx c = some n` iff `c` is in the contract list of the record stored under `n`; lists are duplicate-free;
records sit under their own id. -/
theorem csr_inv {env : Env} {s : State} (ops : List Op) (hI : RegInv s) : RegInv (run env s ops) :=
  foldl_inv (exec env) RegInv (fun s op h => csr_inv_exec (env := env) (s := s) (op := op) h) ops s hI

/-- the empty registry satisfies the invariant -/
theorem csr_inv_init (s : State) (hc : s.csrs = []) (hi : s.idx = []) : RegInv s := by
  refine ⟨?_, ?_, ?_⟩
  · intro c n h; simp [State.nftOf, hi, lookup] at h
  · intro n r h; simp [State.getCSR, hc, lookup] at h
  · intro n r h; simp [State.getCSR, hc, lookup] at h

/-- `byContract c = some n ↔ c ∈ (csrs n).contracts` -/
theorem RegInv.iff {s : State} (h : RegInv s) (c : Addr) (n : Nat) :
    s.nftOf c = some n ↔ ∃ r, s.getCSR n = some r ∧ c ∈ r.contracts :=
  ⟨h.sound c n, fun ⟨r, hr, hc⟩ => h.complete n r hr c hc⟩

/-- **`at_most_one_nft`**, every history: a contract is never in the lists of two different NFTs -/
theorem at_most_one_nft {env : Env} {s : State} (ops : List Op) (hI : RegInv s) {n m : Nat} {r q : CSR} {c : Addr}
    (hr : (run env s ops).getCSR n = some r) (hq : (run env s ops).getCSR m = some q)
    (hcr : c ∈ r.contracts) (hcq : c ∈ q.contracts) : n = m :=
  (csr_inv ops hI).at_most_one hr hq hcr hcq

/-! ## only the Turnstile's logs count -/

/-- **`only_turnstile_logs`.** The state after `processEvents` equals the state after processing the sub-list of
logs whose emitter is the stored Turnstile address: logs from other emitters, in any position, with the right
topic and a well-formed payload, are no-ops and do not even stop the loop. -/
theorem only_turnstile_logs (env : Env) (ts : Addr) : ∀ (logs : List Log) (s : State),
    processEvents env ts s logs = processEvents env ts s (logs.filter (fun l => l.emitter == ts)) := by
  intro logs
  induction logs with
  | nil => intro s; rfl
  | cons l ls ih =>
    intro s
    by_cases h : l.emitter = ts
    · have : (l :: ls).filter (fun l => l.emitter == ts) = l :: ls.filter (fun l => l.emitter == ts) :=
        List.filter_cons_of_pos (by simp [h])
      rw [this]
      unfold processEvents
      split
      · exact ih _
      · rfl
    · have : (l :: ls).filter (fun l => l.emitter == ts) = ls.filter (fun l => l.emitter == ts) :=
        List.filter_cons_of_neg (by simp [h])
      rw [this, ← ih s]
      conv => lhs; unfold processEvents
      rw [handleLog_foreign env ts s l h]

/-- the same at the level of the hook: the whole outcome of `PostTxProcessing` depends on the Turnstile's logs only -/
theorem only_turnstile_logs_postTx (env : Env) (s : State) (ts : Addr) (hts : s.turnstile = some ts)
    (to : Option Addr) (gu gp : Nat) (logs : List Log) :
    postTx env s to gu gp logs = postTx env s to gu gp (logs.filter (fun l => l.emitter == ts)) := by
  unfold postTx
  simp only [hts]
  rw [only_turnstile_logs env ts logs s]

/-! ## malformed payloads, other topics -/

/-- **`malformed_noop`.** A log whose payload the ABI decoder rejects changes nothing (whatever its emitter and topic). -/
theorem malformed_noop (env : Env) (ts : Addr) (s : State) (l : Log) (h : l.payload = .malformed) :
    (handleLog env ts s l).1 = s := by
  have hc := handleLog_cases env ts s l
  generalize handleLog env ts s l = res at hc ⊢
  cases hc with
  | skip k => rfl
  | register c tid hem htop hpay => rw [h] at hpay; cases hpay
  | assign c tid r hem htop hpay => rw [h] at hpay; cases hpay

/-- **`inert_receipt_noop`.** A receipt none of whose logs is a Register / Assign log *of the Turnstile* with a
well-formed payload — logs of other emitters, malformed payloads, other or unknown topics, no topics — leaves
the whole state as it was. -/
theorem inert_receipt_noop (env : Env) (ts : Addr) : ∀ (logs : List Log) (s : State),
    (∀ l ∈ logs, isRegistryLog ts l = false) → processEvents env ts s logs = s := by
  intro logs
  induction logs with
  | nil => intro s _; rfl
  | cons l ls ih =>
    intro s h
    have h1 := handleLog_inert env ts s l (h l (List.mem_cons_self ..))
    unfold processEvents
    split
    · rename_i s' heq
      rw [heq] at h1; subst h1
      exact ih _ (fun l' hl' => h l' (List.mem_cons_of_mem _ hl'))
    · rename_i s' heq
      rw [heq] at h1; exact h1

/-! ## code is needed; every change is explained -/

/-- **`register_needs_code`.** `RegisterEvent` succeeds only for an address that holds contract code. -/
theorem register_needs_code {env : Env} {s s' : State} {c : Addr} {hasCode : Bool} {tid : Nat}
    (h : registerEvent env s (.reg c hasCode tid) = .ok s') : hasCode = true := by
  obtain ⟨c', tid', hp, _⟩ := registerEvent_ok h
  injection hp with _ h2 _

/-- **`assign_needs_code`.** `UpdateEvent` succeeds only for an address that holds contract code. -/
theorem assign_needs_code {env : Env} {s s' : State} {c : Addr} {hasCode : Bool} {tid : Nat}
    (h : updateEvent env s (.upd c hasCode tid) = .ok s') : hasCode = true := by
  obtain ⟨c', tid', r, hp, _⟩ := updateEvent_ok h
  injection hp with _ h2 _

/-- **`changes_explained`.** Whatever the receipt: every index entry `c ↦ n` present after `processEvents` was
present before, or the receipt contains a log emitted by the stored Turnstile address, with the Register or
Assign topic, a payload the decoder accepts, naming `c` — an address holding contract code — and an id whose
low 64 bits are `n`; and every entry present before is still there, unchanged.  So events from any other
emitter, with malformed payloads, or for addresses without code change nothing. -/
theorem changes_explained {env : Env} {ts : Addr} {s : State} (logs : List Log) (hI : RegInv s) (c : Addr) (n : Nat) :
    ((processEvents env ts s logs).nftOf c = some n → s.nftOf c = some n ∨ ∃ l ∈ logs, explains ts c n l = true) ∧
    (s.nftOf c = some n → (processEvents env ts s logs).nftOf c = some n) := by
  have key := processEvents_induct_mem (P := fun s' => RegInv s' ∧
      (s'.nftOf c = some n → s.nftOf c = some n ∨ ∃ l ∈ logs, explains ts c n l = true) ∧
      (s.nftOf c = some n → s'.nftOf c = some n)) env ts logs
    (by
      intro s1 l hl ⟨hI1, ha, hb⟩
      obtain ⟨f1, f2⟩ := handleLog_idx (env := env) (ts := ts) l hI1 c n
      refine ⟨handleLog_regInv env ts s1 l hI1, ?_, fun h => f2 (hb h)⟩
      intro h
      rcases f1 h with h' | h'
      · exact ha h'
      · exact Or.inr ⟨l, hl, h'⟩)
    s ⟨hI, Or.inl, id⟩
  exact key.2

/-! ## no re-creation -/

/-- **`no_recreate`.** An NFT id that exists is never re-created or overwritten by the events of a receipt:
after `processEvents` the same id holds a record with the same id and counters whose contract list extends the old
one (a `Register` for an existing id is rejected; `Assign` only appends). -/
theorem no_recreate {env : Env} {ts : Addr} {s : State} (logs : List Log) (hI : RegInv s) {n : Nat} {r : CSR}
    (hr : s.getCSR n = some r) : ∃ r', (processEvents env ts s logs).getCSR n = some r' ∧ Extends r r' := by
  have key := processEvents_induct (P := fun s' => RegInv s' ∧ ∃ r', s'.getCSR n = some r' ∧ Extends r r') env ts
    (by
      intro s1 l ⟨hI1, r1, hr1, he1⟩
      obtain ⟨r2, hr2, he2⟩ := handleLog_keeps (env := env) (ts := ts) l hI1 hr1
      exact ⟨handleLog_regInv env ts s1 l hI1, r2, hr2, he1.trans he2⟩)
    logs s ⟨hI, r, hr, Extends.refl r⟩
  exact key.2

/-- the same through the whole hook (fee path included): the id keeps its record id and its contracts as a prefix -/
theorem no_recreate_postTx {env : Env} {s s' : State} {to : Option Addr} {gu gp : Nat} {logs : List Log}
    (hI : RegInv s) (h : postTx env s to gu gp logs = .ok s') {n : Nat} {r : CSR} (hr : s.getCSR n = some r) :
    ∃ r', s'.getCSR n = some r' ∧ r'.id = r.id ∧ r.contracts <+: r'.contracts := by
  obtain ⟨_, hmap⟩ := fee_distribution_preserves_registry hI h
  have hae : ∃ r1, (afterEvents env s logs).getCSR n = some r1 ∧ Extends r r1 := by
    unfold afterEvents
    split
    · exact ⟨r, hr, Extends.refl r⟩
    · split
      · exact ⟨r, hr, Extends.refl r⟩
      · exact no_recreate logs hI hr
  obtain ⟨r1, hr1, he⟩ := hae
  have hm := hmap n
  rw [hr1] at hm
  cases hs : s'.getCSR n with
  | none => rw [hs] at hm; cases hm
  | some r' =>
    rw [hs] at hm
    simp only [Option.map_some, Option.some.injEq, Prod.mk.injEq] at hm
    exact ⟨r', rfl, hm.1.trans he.1, by rw [hm.2]; exact he.2.1⟩

/-! ## the executable invariant is the invariant -/

theorem regInvB_iff (s : State) : regInvB s = true ↔ RegInv s := by
  unfold regInvB idxSoundB csrsOkB
  simp only [Bool.and_eq_true, List.all_eq_true]
  constructor
  · intro ⟨h1, h2⟩
    refine ⟨?_, ?_, ?_⟩
    · intro c n hcn
      have := h1 (c, n) (lookup_mem hcn)
      simp only [hcn] at this
      cases hr : s.getCSR n with
      | none => rw [hr] at this; cases this
      | some r =>
        rw [hr] at this
        exact ⟨r, rfl, by simpa using this⟩
    · intro n r hr c hc
      have := h2 (n, r) (lookup_mem hr)
      simp only [hr, Bool.and_eq_true, List.all_eq_true, beq_iff_eq] at this
      exact this.2 c hc
    · intro n r hr
      have := h2 (n, r) (lookup_mem hr)
      simp only [hr, Bool.and_eq_true, beq_iff_eq, decide_eq_true_eq] at this
      exact ⟨this.1.1, this.1.2⟩
  · intro hI
    constructor
    · intro p _
      cases hn : s.nftOf p.1 with
      | none => rfl
      | some n =>
        obtain ⟨r, hr, hc⟩ := hI.sound p.1 n hn
        simp only [hr]
        simpa using hc
    · intro p _
      cases hr : s.getCSR p.1 with
      | none => rfl
      | some r =>
        obtain ⟨hid, hnd⟩ := hI.wf p.1 r hr
        simp only [Bool.and_eq_true, List.all_eq_true, beq_iff_eq, decide_eq_true_eq]
        exact ⟨⟨hid, hnd⟩, fun c hc => hI.complete p.1 r hr c hc⟩

/-- the predicate the driver evaluates on every implementation transition is what `csr_inv_step` proves -/
theorem csr_inv_monitor {env : Env} {s s' : State} {op : Op} (hI : RegInv s) (h : step env s op = .ok s') :
    c16_csr_inv { env := env, pre := s, op := op, ok := true, post := s' } = true :=
  (regInvB_iff s').mpr (csr_inv_step hI h)

/-! ## the other monitors of C16 on model transitions -/

theorem at_most_one_monitor {env : Env} {s s' : State} {op : Op} (hI : RegInv s) (h : step env s op = .ok s') :
    c16_at_most_one_nft { env := env, pre := s, op := op, ok := true, post := s' } = true := by
  have hI' := csr_inv_step hI h
  simp only [c16_at_most_one_nft, List.all_eq_true, Bool.or_eq_true, beq_iff_eq]
  intro p _ q _
  by_cases hpq : p.1 = q.1
  · exact Or.inl hpq
  · right
    split
    · rename_i r r' hr hr'
      simp only [List.all_eq_true, Bool.not_eq_true', List.contains_eq_mem, decide_eq_false_iff_not]
      intro c hc hc'
      exact hpq (hI'.at_most_one hr hr' hc hc')
    · rfl

/-- the index across a whole hook invocation: nothing lost or changed, every new entry explained by a log of the receipt -/
theorem postTx_idx {env : Env} {s s' : State} {to : Option Addr} {gu gp : Nat} {logs : List Log}
    (hI : RegInv s) (h : postTx env s to gu gp logs = .ok s') (c : Addr) (n : Nat) :
    (s'.nftOf c = some n → s.nftOf c = some n ∨
      ∃ ts, s.turnstile = some ts ∧ s.params.enabled = true ∧ ∃ l ∈ logs, explains ts c n l = true) ∧
    (s.nftOf c = some n → s'.nftOf c = some n) := by
  obtain ⟨hidx, _⟩ := fee_distribution_preserves_registry hI h
  have e : s'.nftOf c = (afterEvents env s logs).nftOf c := by simp only [State.nftOf, hidx]
  rw [e]
  unfold afterEvents
  split
  · exact ⟨Or.inl, id⟩
  · rename_i hen
    have hen : s.params.enabled = true := by
      cases he : s.params.enabled with
      | true => rfl
      | false => exact absurd he hen
    split
    · exact ⟨Or.inl, id⟩
    · rename_i ts hts
      obtain ⟨f1, f2⟩ := changes_explained (env := env) (ts := ts) logs hI c n
      refine ⟨fun hh => ?_, f2⟩
      rcases f1 hh with h1 | h1
      · exact Or.inl h1
      · exact Or.inr ⟨ts, hts, hen, h1⟩

theorem step_idx {env : Env} {s s' : State} {op : Op} (hI : RegInv s) (h : step env s op = .ok s') (c : Addr) (n : Nat) :
    (s'.nftOf c = some n → s.nftOf c = some n ∨
      ∃ ts, s.turnstile = some ts ∧ s.params.enabled = true ∧ ∃ l ∈ opLogs op, explains ts c n l = true) ∧
    (s.nftOf c = some n → s'.nftOf c = some n) := by
  cases op with
  | postTx to gu gp logs => exact postTx_idx hI h c n
  | setParams auth en share =>
    simp only [step] at h
    obtain ⟨_, _, h⟩ := bind_ok h
    obtain ⟨_, _, h⟩ := bind_ok h
    injection h with h; subst h
    exact ⟨Or.inl, id⟩
  | send src dst d amt =>
    simp only [step] at h
    obtain ⟨b, _, h⟩ := bind_ok h
    injection h with h; subst h
    exact ⟨Or.inl, id⟩

theorem changes_explained_monitor {env : Env} {s s' : State} {op : Op} (hI : RegInv s) (h : step env s op = .ok s') :
    c16_changes_explained { env := env, pre := s, op := op, ok := true, post := s' } = true := by
  simp only [c16_changes_explained, Bool.and_eq_true, List.all_eq_true]
  constructor
  · intro p _
    cases hn : s'.nftOf p.1 with
    | none => rfl
    | some n =>
      simp only [Bool.or_eq_true, beq_iff_eq, Bool.and_eq_true, Bool.and_true, List.any_eq_true]
      rcases (step_idx hI h p.1 n).1 hn with h1 | ⟨ts, hts, hen, l, hl, hex⟩
      · exact Or.inl h1
      · right
        refine ⟨⟨by rw [hts]; rfl, hen⟩, l, hl, ?_⟩
        rw [hts]; exact hex
  · intro p _
    cases hn : s.nftOf p.1 with
    | none => simp
    | some n =>
      simp only [Bool.or_eq_true, beq_iff_eq]
      right
      exact (step_idx hI h p.1 n).2 hn


theorem no_recreate_monitor {env : Env} {s s' : State} {op : Op} (hI : RegInv s) (h : step env s op = .ok s') :
    c16_no_recreate { env := env, pre := s, op := op, ok := true, post := s' } = true := by
  -- the two facts the monitor states, for every operation
  have keep : ∀ n r, s.getCSR n = some r → ∃ r', s'.getCSR n = some r' ∧ r'.id = r.id ∧ r.contracts <+: r'.contracts := by
    intro n r hr
    cases op with
    | postTx to gu gp logs => exact no_recreate_postTx hI h hr
    | setParams auth en share =>
      simp only [step] at h
      obtain ⟨_, _, h⟩ := bind_ok h
      obtain ⟨_, _, h⟩ := bind_ok h
      injection h with h; subst h
      exact ⟨r, hr, rfl, List.prefix_refl _⟩
    | send src dst d amt =>
      simp only [step] at h
      obtain ⟨b, _, h⟩ := bind_ok h
      injection h with h; subst h
      exact ⟨r, hr, rfl, List.prefix_refl _⟩
  have fresh : ∀ n r', s'.getCSR n = some r' → s.getCSR n = none →
      ∃ ts, s.turnstile = some ts ∧ ∃ l ∈ opLogs op, registersAs ts n r'.contracts.head? l = true := by
    intro n r' hr' hnone
    cases op with
    | postTx to gu gp logs =>
      obtain ⟨_, hmap⟩ := fee_distribution_preserves_registry hI h
      have hm := hmap n
      rw [hr'] at hm
      unfold afterEvents at hm
      split at hm
      · rw [hnone] at hm; cases hm
      · split at hm
        · rw [hnone] at hm; cases hm
        · rename_i ts hts
          cases h1 : (processEvents env ts s logs).getCSR n with
          | none => rw [h1] at hm; cases hm
          | some r1 =>
            rw [h1] at hm
            simp only [Option.map_some, Option.some.injEq, Prod.mk.injEq] at hm
            obtain ⟨l, hl, hreg⟩ := new_id_explained logs hI n h1 hnone
            exact ⟨ts, hts, l, hl, by rw [hm.2]; exact hreg⟩
    | setParams auth en share =>
      simp only [step] at h
      obtain ⟨_, _, h⟩ := bind_ok h
      obtain ⟨_, _, h⟩ := bind_ok h
      injection h with h; subst h
      have hr' : s.getCSR n = some r' := hr'
      rw [hnone] at hr'; cases hr'
    | send src dst d amt =>
      simp only [step] at h
      obtain ⟨b, _, h⟩ := bind_ok h
      injection h with h; subst h
      have hr' : s.getCSR n = some r' := hr'
      rw [hnone] at hr'; cases hr'
  simp only [c16_no_recreate, Bool.and_eq_true, List.all_eq_true]
  constructor
  · intro p _
    cases hr : s.getCSR p.1 with
    | none => rfl
    | some r =>
      obtain ⟨r', hr', hid, hpre⟩ := keep p.1 r hr
      rw [hr']
      simp only [Bool.and_eq_true, beq_iff_eq, List.isPrefixOf_iff_prefix]
      exact ⟨hid, hpre⟩
  · intro p _
    cases hr : s.getCSR p.1 with
    | some r => rfl
    | none =>
      cases hr' : s'.getCSR p.1 with
      | none => rfl
      | some r' =>
        obtain ⟨ts, hts, l, hl, hreg⟩ := fresh p.1 r' hr' hr
        simp only [Option.isSome_none, Bool.false_or, Bool.and_eq_true, List.any_eq_true]
        exact ⟨by rw [hts]; rfl, l, hl, by rw [hts]; exact hreg⟩

theorem inert_preserves_registry_monitor {env : Env} {s s' : State} {op : Op} (hI : RegInv s) (h : step env s op = .ok s') :
    c16_inert_preserves_registry { env := env, pre := s, op := op, ok := true, post := s' } = true := by
  simp only [c16_inert_preserves_registry]
  cases hany : (opLogs op).any (isRegistryLog (s.turnstile.getD "")) with
  | true => rfl
  | false =>
    have hin : ∀ l ∈ opLogs op, isRegistryLog (s.turnstile.getD "") l = false := by
      intro l hl
      cases hb : isRegistryLog (s.turnstile.getD "") l with
      | false => rfl
      | true =>
        have : (opLogs op).any (isRegistryLog (s.turnstile.getD "")) = true := List.any_eq_true.mpr ⟨l, hl, hb⟩
        rw [hany] at this; cases this
    -- the registry of the post-state, up to the counters, is that of the pre-state
    have key : s'.idx = s.idx ∧ ∀ n, (s'.getCSR n).map (fun r => (r.id, r.contracts)) = (s.getCSR n).map (fun r => (r.id, r.contracts)) := by
      cases op with
      | postTx to gu gp logs =>
        have hae : afterEvents env s logs = s := by
          unfold afterEvents
          split
          · rfl
          · split
            · rfl
            · rename_i ts hts
              apply inert_receipt_noop
              intro l hl
              have := hin l hl
              rw [hts] at this; exact this
        have := fee_distribution_preserves_registry hI h
        rw [hae] at this; exact this
      | setParams auth en share =>
        simp only [step] at h
        obtain ⟨_, _, h⟩ := bind_ok h
        obtain ⟨_, _, h⟩ := bind_ok h
        injection h with h; subst h
        exact ⟨rfl, fun _ => rfl⟩
      | send src dst d amt =>
        simp only [step] at h
        obtain ⟨b, _, h⟩ := bind_ok h
        injection h with h; subst h
        exact ⟨rfl, fun _ => rfl⟩
    obtain ⟨k1, k2⟩ := key
    have hnft : ∀ c, s'.nftOf c = s.nftOf c := fun c => by simp only [State.nftOf, k1]
    simp only [Bool.false_or, Bool.and_eq_true, List.all_eq_true, idxEq, beq_iff_eq, Bool.or_eq_true]
    refine ⟨⟨⟨fun p _ => hnft p.1, fun p _ => (hnft p.1).symm⟩, fun p _ => k2 p.1⟩, ?_⟩
    intro p _
    cases hr' : s'.getCSR p.1 with
    | none => right; rfl
    | some r' =>
      left
      have := k2 p.1
      rw [hr'] at this
      cases hr : s.getCSR p.1 with
      | none => rw [hr] at this; cases this
      | some r => rfl


/-! ## non-vacuity: a concrete receipt that registers, assigns, is refused, and is ignored -/

def exEnv : Env := { modAddr := "m.csr", feeCollector := "m.fee_collector", evmAddr := "m.evm", zeroAddr := "zero", denom := "acanto" }

def exState : State :=
  { bank := { bal := ⟨[(("m.fee_collector", "acanto"), 1000)]⟩, sup := ⟨[("acanto", 1000)]⟩, accts := ["m.fee_collector", "m.csr", "ts"] },
    params := { enabled := true, share := 200000000000000000 }, turnstile := some "ts", modFirst := true,
    csrs := [], idx := [], tsBal := AMap.empty }

def exLogs : List Log :=
  [ { emitter := "other", topic := .register, payload := .reg "c9" true 5 },      -- right topic, wrong emitter: ignored
    { emitter := "ts", topic := .register, payload := .reg "c1" true 7 },          -- registers c1 to NFT 7
    { emitter := "ts", topic := .other, payload := .malformed },                   -- another Turnstile event: skipped
    { emitter := "ts", topic := .assign, payload := .upd "c2" true (7 + U64) },    -- assigns c2 to NFT 7 (low 64 bits)
    { emitter := "ts", topic := .register, payload := .reg "c3" false 8 },         -- no code: refused, loop stops
    { emitter := "ts", topic := .register, payload := .reg "c4" true 9 } ]         -- never looked at

/-- the example receipt leaves exactly NFT 7 ↦ [c1, c2], and the transaction (to = c1, fee 100, share 0.2) credits 20 to it -/
example : (match step exEnv exState (.postTx (some "c1") 10 10 exLogs) with
           | .ok s' => s'.csrs == [(7, { id := 7, contracts := ["c1", "c2"], txs := 1, revenue := 20 })] &&
                       s'.idx == [("c1", 7), ("c2", 7)] && s'.tsBal.get 7 == 20 && regInvB s'
           | .error _ => false) = true := by decide +kernel

example : RegInv exState := csr_inv_init exState rfl rfl

end Csr
end CV
