import CantoVerif.Proofs.ParamsLemmas
/-!
# C17 — only governance can change parameters or registrations; stored parameters stay valid.

About the model `Model/Params.lean` (ten privileged messages of coinswap, erc20, inflation, csr,
onboarding, govshuttle, plus the legacy `ParameterChangeProposal` route), for **every** state,
message, authority *string*, parameter value (nil numbers included), and whatever the un-modelled
remainder of a registration / govshuttle handler does (`Ext`):

* `wrong_authority_rejected_unchanged` — an authority string different from the governance module
  address: the handler refuses, and has written nothing even on its own branch;
* `stored_params_valid_step` / `stored_params_valid` — validity of the four rule-bearing parameter
  sets is an invariant of every attempted operation, hence of every sequence of them, on both
  routes (message server and legacy single-key changes);
* `accepted_stored_as_given_{cs,erc,inf,csr,onb}` — an accepted `MsgUpdateParams` stores exactly
  the submitted set (the model identifies a nil and an empty `MaxSwapAmount` / channel list: that
  is the nil/empty normalisation), leaves the other modules' sets, the registry size, the port and
  everything outside the params store alone, and was sent by governance with a valid set;
* `legacy_route_valid`, `legacy_frame` — the same for the legacy route;
* `validate_adds_nothing_*` — the message-level `Validate()` is implied by the field validators
  (every rule lives in one field's validator), which is why the weaker legacy route is safe;
* `*_valid_iff` — each module's validity rule in closed arithmetic form;
* `model_step_monitors` — every predicate of `Spec/Params.lean` holds on every model transition.
-/
namespace CV
namespace Params
open Spec

/-! ## authority first -/

theorem handle_wrong_authority (gov : String) (x : Ext) (s : State) (op : Op) (h : op.auth ≠ gov) :
    handle gov x s op = ⟨s, .error .unauthorized⟩ := by
  cases op <;> simp only [Op.auth] at h <;>
    simp [handle, updateParams_wrong _ _ _ h, redigest_same, h]

/-- **C17, first clause.**  For every privileged message type and every authority string other
than the governance module address: rejected, nothing written on the handler's branch, state
unchanged. -/
theorem wrong_authority_rejected_unchanged (gov : String) (x : Ext) (s : State) (op : Op) (h : op.auth ≠ gov) :
    accepted gov x s op = false ∧ (handle gov x s op).st = s ∧ exec gov x s op = s := by
  have k := handle_wrong_authority gov x s op h
  simp [accepted, exec, k, okB]

/-- non-vacuity: the upper-case spelling of the governance address is such a string, and the same
message from governance is accepted -/
example : accepted "canto1gov" ⟨true, 0, false, "d", "x"⟩ defaults (.updCsr "CANTO1GOV" ⟨true, some 5⟩) = false := by decide
example : accepted "canto1gov" ⟨true, 0, false, "d", "x"⟩ defaults (.updCsr "canto1gov" ⟨true, some 5⟩) = true := by decide

/-! ## accepted ⇒ stored as given -/

theorem cs_pairs_ok {p : CsP} (h : ∀ q ∈ csPairs p, q.1 = .ok ()) : p.valid = true := by
  simp only [csPairs, List.mem_cons, List.not_mem_nil, or_false, forall_eq_or_imp, forall_eq] at h
  simp [CsP.valid, okB_iff, h]

theorem inf_pairs_ok {p : InfP} (h : ∀ q ∈ infPairs p, q.1 = .ok ()) : p.valid = true := by
  simp only [infPairs, List.mem_cons, List.not_mem_nil, or_false, forall_eq_or_imp, forall_eq] at h
  simp [InfP.valid, okB_iff, h]

theorem csr_pairs_ok {p : CsrP} (h : ∀ q ∈ csrPairs p, q.1 = .ok ()) : p.valid = true := by
  simp only [csrPairs, List.mem_cons, List.not_mem_nil, or_false, forall_eq_or_imp, forall_eq] at h
  simp [CsrP.valid, okB_iff, h]

theorem onb_pairs_ok {p : OnbP} (h : ∀ q ∈ onbPairs p, q.1 = .ok ()) : p.valid = true := by
  simp only [onbPairs, List.mem_cons, List.not_mem_nil, or_false, forall_eq_or_imp, forall_eq] at h
  simp [OnbP.valid, okB_iff, h]

/-- what "stored as given, nothing else touched" means for the state component `get` -/
structure StoredAsGiven (s s' : State) : Prop where
  pairs : s'.pairs = s.pairs
  port : s'.port = s.port
  dgx : s'.dgx = s.dgx

theorem exec_of_ok {gov : String} {x : Ext} {s : State} {op : Op} (h : (handle gov x s op).res = .ok ()) :
    exec gov x s op = (handle gov x s op).st := by
  show (match (handle gov x s op).res with | .ok _ => (handle gov x s op).st | .error _ => s) = _
  rw [h]

theorem accepted_iff {gov : String} {x : Ext} {s : State} {op : Op} :
    accepted gov x s op = true ↔ handle gov x s op = ⟨exec gov x s op, .ok ()⟩ := by
  constructor
  · intro h
    have hr := okB_ok h
    rw [exec_of_ok hr]
    conv => lhs; rw [hres_eta (handle gov x s op), hr]
  · intro h
    unfold accepted; rw [h]; rfl

theorem upd_inv {gov auth : String} {x : Ext} {s : State} {v : R Unit} {pairs : List (R Unit × (State → State))}
    (h : okB (redigest x s (updateParams gov auth v pairs s)).res = true) :
    updateParams gov auth v pairs s = ⟨(updateParams gov auth v pairs s).st, .ok ()⟩ := by
  rw [redigest_res] at h
  have := okB_ok h
  conv => lhs; rw [hres_eta (updateParams gov auth v pairs s), this]

/-- **accepted ⇒ stored as given**, coinswap -/
theorem accepted_stored_as_given_cs (gov : String) (x : Ext) (s : State) (auth : String) (p : CsP)
    (h : accepted gov x s (.updCs auth p) = true) :
    let s' := exec gov x s (.updCs auth p)
    s'.cs = p ∧ s'.erc = s.erc ∧ s'.inf = s.inf ∧ s'.csr = s.csr ∧ s'.onb = s.onb ∧ StoredAsGiven s s' ∧
    auth = gov ∧ p.valid = true := by
  have hk := (accepted_iff.mp h)
  simp only [accepted, handle] at h
  obtain ⟨ha, _, hall, hs'⟩ := updateParams_ok (upd_inv h)
  intro s'
  have hs : s' = (redigest x s (updateParams gov auth p.validate (csPairs p) s)).st := by
    show exec gov x s (.updCs auth p) = _
    have := congrArg HRes.st hk; simp only [handle] at this; exact this.symm
  have e1 : (updateParams gov auth p.validate (csPairs p) s).st.cs = p := by
    rw [hs']; simp only [csPairs, List.foldl]
  refine ⟨?_, ?_, ?_, ?_, ?_, ⟨?_, ?_, ?_⟩, ha, cs_pairs_ok hall⟩
  · rw [hs, redigest_cs, e1]
  · rw [hs, redigest_erc, hs']; rfl
  · rw [hs, redigest_inf, hs']; rfl
  · rw [hs, redigest_csr, hs']; rfl
  · rw [hs, redigest_onb, hs']; rfl
  · rw [hs, redigest_pairs, hs']; rfl
  · rw [hs, redigest_port, hs']; rfl
  · rw [hs, redigest_dgx, hs']; rfl

/-- erc20 -/
theorem accepted_stored_as_given_erc (gov : String) (x : Ext) (s : State) (auth : String) (p : ErcP)
    (h : accepted gov x s (.updErc auth p) = true) :
    let s' := exec gov x s (.updErc auth p)
    s'.erc = p ∧ s'.cs = s.cs ∧ s'.inf = s.inf ∧ s'.csr = s.csr ∧ s'.onb = s.onb ∧ StoredAsGiven s s' ∧ auth = gov := by
  have hk := (accepted_iff.mp h)
  simp only [accepted, handle] at h
  obtain ⟨ha, _, _, hs'⟩ := updateParams_ok (upd_inv h)
  intro s'
  have hs : s' = (redigest x s (updateParams gov auth p.validate (ercPairs p) s)).st := by
    show exec gov x s (.updErc auth p) = _
    have := congrArg HRes.st hk; simp only [handle] at this; exact this.symm
  have e1 : (updateParams gov auth p.validate (ercPairs p) s).st.erc = p := by
    rw [hs']; simp only [ercPairs, List.foldl]
  refine ⟨?_, ?_, ?_, ?_, ?_, ⟨?_, ?_, ?_⟩, ha⟩
  · rw [hs, redigest_erc, e1]
  · rw [hs, redigest_cs, hs']; rfl
  · rw [hs, redigest_inf, hs']; rfl
  · rw [hs, redigest_csr, hs']; rfl
  · rw [hs, redigest_onb, hs']; rfl
  · rw [hs, redigest_pairs, hs']; rfl
  · rw [hs, redigest_port, hs']; rfl
  · rw [hs, redigest_dgx, hs']; rfl

/-- inflation -/
theorem accepted_stored_as_given_inf (gov : String) (x : Ext) (s : State) (auth : String) (p : InfP)
    (h : accepted gov x s (.updInf auth p) = true) :
    let s' := exec gov x s (.updInf auth p)
    s'.inf = p ∧ s'.cs = s.cs ∧ s'.erc = s.erc ∧ s'.csr = s.csr ∧ s'.onb = s.onb ∧ StoredAsGiven s s' ∧
    auth = gov ∧ p.valid = true := by
  have hk := (accepted_iff.mp h)
  simp only [accepted, handle] at h
  obtain ⟨ha, _, hall, hs'⟩ := updateParams_ok (upd_inv h)
  intro s'
  have hs : s' = (redigest x s (updateParams gov auth p.validate (infPairs p) s)).st := by
    show exec gov x s (.updInf auth p) = _
    have := congrArg HRes.st hk; simp only [handle] at this; exact this.symm
  have e1 : (updateParams gov auth p.validate (infPairs p) s).st.inf = p := by
    rw [hs']; simp only [infPairs, List.foldl]
  refine ⟨?_, ?_, ?_, ?_, ?_, ⟨?_, ?_, ?_⟩, ha, inf_pairs_ok hall⟩
  · rw [hs, redigest_inf, e1]
  · rw [hs, redigest_cs, hs']; rfl
  · rw [hs, redigest_erc, hs']; rfl
  · rw [hs, redigest_csr, hs']; rfl
  · rw [hs, redigest_onb, hs']; rfl
  · rw [hs, redigest_pairs, hs']; rfl
  · rw [hs, redigest_port, hs']; rfl
  · rw [hs, redigest_dgx, hs']; rfl

/-- csr -/
theorem accepted_stored_as_given_csr (gov : String) (x : Ext) (s : State) (auth : String) (p : CsrP)
    (h : accepted gov x s (.updCsr auth p) = true) :
    let s' := exec gov x s (.updCsr auth p)
    s'.csr = p ∧ s'.cs = s.cs ∧ s'.erc = s.erc ∧ s'.inf = s.inf ∧ s'.onb = s.onb ∧ StoredAsGiven s s' ∧
    auth = gov ∧ p.valid = true := by
  have hk := (accepted_iff.mp h)
  simp only [accepted, handle] at h
  obtain ⟨ha, _, hall, hs'⟩ := updateParams_ok (upd_inv h)
  intro s'
  have hs : s' = (redigest x s (updateParams gov auth p.validate (csrPairs p) s)).st := by
    show exec gov x s (.updCsr auth p) = _
    have := congrArg HRes.st hk; simp only [handle] at this; exact this.symm
  have e1 : (updateParams gov auth p.validate (csrPairs p) s).st.csr = p := by
    rw [hs']; simp only [csrPairs, List.foldl]
  refine ⟨?_, ?_, ?_, ?_, ?_, ⟨?_, ?_, ?_⟩, ha, csr_pairs_ok hall⟩
  · rw [hs, redigest_csr, e1]
  · rw [hs, redigest_cs, hs']; rfl
  · rw [hs, redigest_erc, hs']; rfl
  · rw [hs, redigest_inf, hs']; rfl
  · rw [hs, redigest_onb, hs']; rfl
  · rw [hs, redigest_pairs, hs']; rfl
  · rw [hs, redigest_port, hs']; rfl
  · rw [hs, redigest_dgx, hs']; rfl

/-- onboarding -/
theorem accepted_stored_as_given_onb (gov : String) (x : Ext) (s : State) (auth : String) (p : OnbP)
    (h : accepted gov x s (.updOnb auth p) = true) :
    let s' := exec gov x s (.updOnb auth p)
    s'.onb = p ∧ s'.cs = s.cs ∧ s'.erc = s.erc ∧ s'.inf = s.inf ∧ s'.csr = s.csr ∧ StoredAsGiven s s' ∧
    auth = gov ∧ p.valid = true := by
  have hk := (accepted_iff.mp h)
  simp only [accepted, handle] at h
  obtain ⟨ha, _, hall, hs'⟩ := updateParams_ok (upd_inv h)
  intro s'
  have hs : s' = (redigest x s (updateParams gov auth p.validate (onbPairs p) s)).st := by
    show exec gov x s (.updOnb auth p) = _
    have := congrArg HRes.st hk; simp only [handle] at this; exact this.symm
  have e1 : (updateParams gov auth p.validate (onbPairs p) s).st.onb = p := by
    rw [hs']; simp only [onbPairs, List.foldl]
  refine ⟨?_, ?_, ?_, ?_, ?_, ⟨?_, ?_, ?_⟩, ha, onb_pairs_ok hall⟩
  · rw [hs, redigest_onb, e1]
  · rw [hs, redigest_cs, hs']; rfl
  · rw [hs, redigest_erc, hs']; rfl
  · rw [hs, redigest_inf, hs']; rfl
  · rw [hs, redigest_csr, hs']; rfl
  · rw [hs, redigest_pairs, hs']; rfl
  · rw [hs, redigest_port, hs']; rfl
  · rw [hs, redigest_dgx, hs']; rfl

/-- non-vacuity: an accepted coinswap update at the edges of every range (fee and tax one unit below 1,
cap 1, zero creation fee in an unvalidated denomination, two ascending whitelist entries) -/
example : accepted "g" ⟨true, 0, false, "d", "x"⟩ defaults
    (.updCs "g" ⟨some 999999999999999999, "", some 0, some 999999999999999999, some 1, [("abc", some 1), ("abd", some 2)]⟩) = true := by
  decide
/-- … and one unit outside: fee = 1 is refused -/
example : accepted "g" ⟨true, 0, false, "d", "x"⟩ defaults
    (.updCs "g" ⟨some 1000000000000000000, "stake", some 0, some 0, some 1, []⟩) = false := by decide

/-- non-vacuity of the erc20 / inflation / onboarding forms: accepted updates at range edges
(`R = 1`, `BondingTarget = 1`, shares `(0, 1)`; threshold 0 with an empty channel list) -/
example : accepted "g" ⟨true, 0, false, "d", "x"⟩ defaults (.updErc "g" ⟨false, true⟩) = true := by decide
example : accepted "g" ⟨true, 0, false, "d", "x"⟩ defaults
    (.updInf "g" ⟨"abc", some 0, some 1000000000000000000, some 0, some 1000000000000000000, some 0, some 0, some 1000000000000000000, true⟩) = true := by
  decide
example : accepted "g" ⟨true, 0, false, "d", "x"⟩ defaults
    (.updInf "g" ⟨"abc", some 0, some 1000000000000000001, some 0, some 1000000000000000000, some 0, some 0, some 1000000000000000000, true⟩) = false := by
  decide
example : accepted "g" ⟨true, 0, false, "d", "x"⟩ defaults (.updOnb "g" ⟨false, some 0, []⟩) = true := by decide
example : accepted "g" ⟨true, 0, false, "d", "x"⟩ defaults (.updOnb "g" ⟨false, none, []⟩) = false := by decide

/-! ## stored parameters stay valid -/

/-- the registration and govshuttle messages and the legacy route never touch … -/
theorem legacy_frame (gov : String) (x : Ext) (s : State) (auth : String) (cs : List Change) :
    let s' := exec gov x s (.legacy auth cs)
    StoredAsGiven s s' := by
  intro s'
  show StoredAsGiven s (exec gov x s (.legacy auth cs))
  unfold exec
  simp only [handle]
  split
  · split
    · exact ⟨rfl, rfl, rfl⟩
    · rename_i u hres
      obtain ⟨f1, f2, f3⟩ := applyChanges_frame cs s
      exact ⟨by rw [redigest_pairs, f1], by rw [redigest_port, f2], by rw [redigest_dgx, f3]⟩
  · exact ⟨rfl, rfl, rfl⟩

/-- whatever a handler leaves on its branch — accepted or not — is valid if the state it started from was -/
theorem handle_valid (gov : String) (x : Ext) (s : State) (op : Op) (hs : s.valid = true)
    (hok : (handle gov x s op).res = .ok ()) : (handle gov x s op).st.valid = true := by
  have hacc : accepted gov x s op = true := by unfold accepted; rw [hok]; rfl
  have hst : (handle gov x s op).st = exec gov x s op := by
    have := accepted_iff.mp hacc; rw [this]
  have hs' := hs
  simp only [State.valid, Bool.and_eq_true] at hs'
  obtain ⟨⟨⟨v1, v2⟩, v3⟩, v4⟩ := hs'
  rw [hst]
  cases op with
  | updCs auth p =>
    obtain ⟨e1, _, e3, e4, e5, _, _, hv⟩ := accepted_stored_as_given_cs gov x s auth p hacc
    simp only [State.valid, e1, e3, e4, e5, hv, v2, v3, v4, Bool.and_self]
  | updErc auth p =>
    obtain ⟨_, e2, e3, e4, e5, _, _⟩ := accepted_stored_as_given_erc gov x s auth p hacc
    simp only [State.valid, e2, e3, e4, e5, v1, v2, v3, v4, Bool.and_self]
  | updInf auth p =>
    obtain ⟨e1, e2, _, e4, e5, _, _, hv⟩ := accepted_stored_as_given_inf gov x s auth p hacc
    simp only [State.valid, e1, e2, e4, e5, hv, v1, v3, v4, Bool.and_self]
  | updCsr auth p =>
    obtain ⟨e1, e2, _, e4, e5, _, _, hv⟩ := accepted_stored_as_given_csr gov x s auth p hacc
    simp only [State.valid, e1, e2, e4, e5, hv, v1, v2, v4, Bool.and_self]
  | updOnb auth p =>
    obtain ⟨e1, e2, _, e4, e5, _, _, hv⟩ := accepted_stored_as_given_onb gov x s auth p hacc
    simp only [State.valid, e1, e2, e4, e5, hv, v1, v2, v3, Bool.and_self]
  | priv k auth =>
    rw [← hst]
    simp only [handle]
    split
    · exact hs
    · exact (valid_congr rfl rfl rfl rfl).trans hs
  | legacy auth cs =>
    rw [← hst]
    simp only [handle]
    split
    · exact hs
    · rw [redigest_valid]; exact applyChanges_valid cs s hs

/-- **C17, second clause, one step.**  Whatever privileged operation is attempted (accepted or
rejected, either route, any authority, any values, any behaviour of the un-modelled handler bodies),
the stored parameter sets satisfy every module's rules afterwards if they did before. -/
theorem stored_params_valid_step (gov : String) (x : Ext) (s : State) (op : Op) (hs : s.valid = true) :
    (exec gov x s op).valid = true := by
  unfold exec
  dsimp only
  split
  · rename_i u hres
    cases u
    exact handle_valid gov x s op hs hres
  · exact hs

theorem defaults_valid : defaults.valid = true := by decide

/-- **C17, second clause.**  Validity of the stored sets is an invariant of every sequence of
attempted operations, from the genesis defaults or from any valid state. -/
theorem stored_params_valid (gov : String) (s : State) (hs : s.valid = true) (ops : List (Ext × Op)) :
    (run gov s ops).valid = true := by
  unfold run
  exact foldl_inv (fun s (xo : Ext × Op) => exec gov xo.1 s xo.2) (fun s => s.valid = true)
    (fun s xo h => stored_params_valid_step gov xo.1 s xo.2 h) ops s hs

theorem stored_params_valid_from_genesis (gov : String) (ops : List (Ext × Op)) : (run gov defaults ops).valid = true :=
  stored_params_valid gov defaults defaults_valid ops

/-- the legacy single-key route in particular: one proposal with any list of changes -/
theorem legacy_route_valid (gov : String) (x : Ext) (s : State) (auth : String) (cs : List Change) (hs : s.valid = true) :
    (exec gov x s (.legacy auth cs)).valid = true :=
  stored_params_valid_step gov x s (.legacy auth cs) hs

/-- non-vacuity of the legacy route: a proposal whose second change is invalid (`sr + cp ≠ 1` after the
first moved only one side is impossible to express: both sides travel in one key) is rejected as a
whole and leaves the state alone; a valid two-key proposal is accepted and changes both keys -/
example : exec "g" ⟨true, 0, false, "d", "x"⟩ defaults
    (.legacy "g" [⟨"csr", "CSRShares", .dec 1000000000000000000⟩, ⟨"inflation", "ParamStoreKeyInflationDistribution", .dist (some 1) (some 1)⟩])
    = defaults := by decide
example : (exec "g" ⟨true, 0, false, "d", "x"⟩ defaults
    (.legacy "g" [⟨"csr", "CSRShares", .dec 1000000000000000000⟩, ⟨"coinswap", "Fee", .dec 3000000000000000⟩])).csr.shares
    = some 1000000000000000000 := by decide

/-! ## the message-level `Validate()` adds nothing to the field validators -/

theorem validate_adds_nothing_cs (p : CsP) (h : p.valid = true) : p.validate = .ok () := by
  simp only [CsP.valid, Bool.and_eq_true, okB_iff] at h
  exact h.1.1.1.1
theorem validate_adds_nothing_inf (p : InfP) (h : p.valid = true) : p.validate = .ok () := by
  simp only [InfP.valid, Bool.and_eq_true, okB_iff] at h
  simp [InfP.validate, h.1.1, h.1.2, h.2, bind, Except.bind]
theorem validate_adds_nothing_csr (p : CsrP) (h : p.valid = true) : p.validate = .ok () := by
  simp only [CsrP.valid, okB_iff] at h; exact h
theorem validate_adds_nothing_onb (p : OnbP) (h : p.valid = true) : p.validate = .ok () := by
  simp only [OnbP.valid, okB_iff] at h; exact h

/-! ## the rules in closed form -/

/-- coinswap: `Fee, TaxRate ∈ [0,1)`, `PoolCreationFee.Amount ≥ 0` (its denomination is **not**
checked), `MaxStandardCoinPerPool > 0`, `MaxSwapAmount` a valid `sdk.Coins` -/
theorem cs_valid_closed (p : CsP) (h : p.valid = true) :
    (∃ f, p.fee = some f ∧ 0 ≤ f ∧ f < one) ∧ (∃ a, p.pfAmt = some a ∧ 0 ≤ a) ∧
    (∃ t, p.tax = some t ∧ 0 ≤ t ∧ t < one) ∧ (∃ m, p.maxStd = some m ∧ 0 < m) ∧
    (∀ c ∈ p.maxSwap, validDenom c.1 = true ∧ ∃ a, c.2 = some a ∧ 0 < a) ∧ Ascending p.maxSwap := by
  simp only [CsP.valid, Bool.and_eq_true, okB_iff] at h
  obtain ⟨⟨⟨⟨h1, h2⟩, h3⟩, h4⟩, h5⟩ := h
  obtain ⟨c1, c2, _⟩ := vCoinsFrom_ok p.maxSwap none h5
  exact ⟨vUnit_ok h1, vPoolFee_ok h2, vUnit_ok h3, vMaxStd_ok h4, c1, c2⟩

/-- inflation: valid mint denomination, `A ≥ 0`, `R ∈ [0,1]`, `C ≥ 0`, `BondingTarget ∈ (0,1]`,
`MaxVariance ≥ 0`, both distribution shares non-negative and summing to exactly 1 -/
theorem inf_valid_closed (p : InfP) (h : p.valid = true) :
    validDenom p.mintDenom = true ∧
    (∃ a r c bt mv, p.a = some a ∧ p.r = some r ∧ p.c = some c ∧ p.bt = some bt ∧ p.mv = some mv ∧
      0 ≤ a ∧ 0 ≤ r ∧ r ≤ one ∧ 0 ≤ c ∧ 0 < bt ∧ bt ≤ one ∧ 0 ≤ mv) ∧
    (∃ s c, p.sr = some s ∧ p.cp = some c ∧ 0 ≤ s ∧ 0 ≤ c ∧ s + c = one) := by
  simp only [InfP.valid, Bool.and_eq_true, okB_iff] at h
  exact ⟨vMintDenom_ok h.1.1, vExp_ok h.1.2, vDist_ok h.2⟩

/-- csr: `CsrShares ∈ [0,1]`, not nil -/
theorem csr_valid_closed (p : CsrP) (h : p.valid = true) : ∃ x, p.shares = some x ∧ 0 ≤ x ∧ x ≤ one := by
  simp only [CsrP.valid, okB_iff] at h; exact vShares_ok h

/-- onboarding: `AutoSwapThreshold ≥ 0`; the channel list is unconstrained -/
theorem onb_valid_closed (p : OnbP) (h : p.valid = true) : ∃ x, p.threshold = some x ∧ 0 ≤ x := by
  simp only [OnbP.valid, okB_iff] at h; exact vThreshold_ok h

/-- conversely the ranges suffice (coinswap fee as the example of the boundary: `[0, 1)` exactly) -/
theorem fee_range_exact (x : Int) : vUnit "fee" (some x) = .ok () ↔ 0 ≤ x ∧ x < one := by
  constructor
  · intro h; obtain ⟨y, hy, h0, h1⟩ := vUnit_ok h; injection hy with hy; subst hy; exact ⟨h0, h1⟩
  · intro h; exact vUnit_of h.1 h.2

/-! ## the monitors hold on every model transition -/

theorem beq_self_string (a : String) : (a == a) = true := by simp
theorem sameParams_refl (s : State) : sameParams s s = true := by simp [sameParams]
theorem sameAll_refl (s : State) : sameAll s s = true := by simp [sameAll, sameParams_refl]

/-- every C17 predicate evaluated by the driver on implementation transitions is a theorem of the model -/
theorem model_step_monitors (gov : String) (x : Ext) (s : State) (op : Op) (hs : s.valid = true) :
    ∀ m ∈ monitors, m.2.2 (ofModel gov x s op) = true := by
  intro m hm
  simp only [monitors, List.mem_cons, List.not_mem_nil, or_false] at hm
  rcases hm with rfl | rfl | rfl | rfl | rfl
  · -- wrong authority rejected
    simp only [wrongAuthorityRejected, ofModel, Bool.or_eq_true, beq_iff_eq, Bool.not_eq_true']
    by_cases h : op.auth = gov
    · exact Or.inl h
    · right; exact (wrong_authority_rejected_unchanged gov x s op h).1
  · -- authority first
    simp only [authorityFirst, ofModel, Bool.or_eq_true, beq_iff_eq, Bool.and_eq_true, Bool.not_eq_true']
    by_cases h : op.auth = gov
    · exact Or.inl h
    · right
      have k := handle_wrong_authority gov x s op h
      simp [k, sameParams_refl]
  · -- rejected unchanged
    simp only [rejectedUnchanged, ofModel, Bool.or_eq_true]
    cases hres : (handle gov x s op).res with
    | ok u => left; rfl
    | error e => right; simp [exec, hres, sameAll_refl]
  · -- stored valid
    simp only [storedValid, ofModel]
    exact stored_params_valid_step gov x s op hs
  · -- stored as given
    simp only [storedAsGiven, ofModel]
    cases hacc : okB (handle gov x s op).res with
    | false => simp
    | true =>
      have hacc' : accepted gov x s op = true := hacc
      cases op with
      | updCs auth p =>
        obtain ⟨e1, e2, e3, e4, e5, ⟨f1, f2, f3⟩, _, _⟩ := accepted_stored_as_given_cs gov x s auth p hacc'
        simp [e1, e2, e3, e4, e5, f1, f2, f3]
      | updErc auth p =>
        obtain ⟨e1, e2, e3, e4, e5, ⟨f1, f2, f3⟩, _⟩ := accepted_stored_as_given_erc gov x s auth p hacc'
        simp [e1, e2, e3, e4, e5, f1, f2, f3]
      | updInf auth p =>
        obtain ⟨e1, e2, e3, e4, e5, ⟨f1, f2, f3⟩, _, _⟩ := accepted_stored_as_given_inf gov x s auth p hacc'
        simp [e1, e2, e3, e4, e5, f1, f2, f3]
      | updCsr auth p =>
        obtain ⟨e1, e2, e3, e4, e5, ⟨f1, f2, f3⟩, _, _⟩ := accepted_stored_as_given_csr gov x s auth p hacc'
        simp [e1, e2, e3, e4, e5, f1, f2, f3]
      | updOnb auth p =>
        obtain ⟨e1, e2, e3, e4, e5, ⟨f1, f2, f3⟩, _, _⟩ := accepted_stored_as_given_onb gov x s auth p hacc'
        simp [e1, e2, e3, e4, e5, f1, f2, f3]
      | priv k auth =>
        have hst : exec gov x s (.priv k auth) = (handle gov x s (.priv k auth)).st := by
          have := accepted_iff.mp hacc'; rw [this]
        simp only [Bool.not_true, Bool.false_or, Bool.and_true]
        rw [hst]
        simp only [handle]
        split <;> simp [sameParams]
      | legacy auth cs =>
        obtain ⟨f1, f2, f3⟩ := legacy_frame gov x s auth cs
        simp [f1, f2, f3]

end Params
end CV
