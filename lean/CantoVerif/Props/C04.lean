import CantoVerif.Props.C15
import CantoVerif.Proofs.Erc20Honest
/-!
# C04 — conversions are exact, all-or-nothing and reversible.

**"Whatever the ERC-20 contract does"** is the quantifier `∀ σ (O : Oracle σ)`: the EVM is an arbitrary
state machine answering the keeper's calls with arbitrary balances, return words, logs, errors and
reverts (`Model/Erc20.lean`).  An answer *script* and a failure injected at the n-th call are
particular oracles (`scriptOracle`, `failAt`), so the statements cover them.

* `convert_failed_unchanged` — an unsuccessful operation (conversion or any other) leaves **both**
  stores — Canto's and the EVM's — exactly as they were, for every oracle; instances
  `convert_failed_unchanged_script`, `convert_failed_unchanged_fault`;
* `convertCoin_success_paths`, `convertERC20_success_paths` + the four path theorems `coinNative_exact`,
  `coinExternal_exact`, `erc20Native_exact`, `erc20External_exact` — on success, on the bank ledger the
  sender loses (the receiver gains) exactly the amount and nothing else changes except the module
  escrow (chain-deployed contract) or the supply (external contract); on the token ledger **as the
  contract reports it to the keeper** the watched balance moved by exactly the amount; nothing else
  of Canto's state changes; for external contracts there is no `Approval` log;
* `roundtrip_coin_token_coin`, `roundtrip_token_coin_token` — with the honest token, converting an
  amount and converting it back (receiver and sender swapped) restores both ledgers exactly, for
  both kinds of pair and both orders (no side condition on the denomination: since the repair of
  finding E1 a successful `ConvertCoin` implies that the denomination is not of hex-address form,
  hence that the coin moved is the pair's own);
* `external_sender_debit_unchecked` — **the stated limit**: for an external *adversarial* token the
  keeper checks only the escrow side (`balanceOf(module)` before/after), so "debits the sender
  exactly" is not enforceable from outside the contract; the witness is a token that credits the
  module without debiting the sender, and the model (like the code) accepts the conversion.
-/
namespace CV
namespace Erc20
open KMap Spec Token

variable {σ : Type}

/-! ## all-or-nothing -/

/-- **convert_failed_unchanged.**  Whatever operation, whatever the contract / the EVM does: if the
operation is rejected, neither ledger, nor the registry, nor the EVM state changed. -/
theorem convert_failed_unchanged (env : Env) (O : Oracle σ) (w : World σ) (op : Op) (e : Rej)
    (h : step env O w op = .error e) : exec env O w op = w := by
  simp only [exec, deliver, h]

/-- the oracle "answer the next item of a script" (running out of answers is a failure) -/
def scriptOracle : Oracle (List Ans) := fun _ l =>
  match l with
  | a :: r => (a, r)
  | [] => ({ status := .err, ret := none, logs := [] }, [])

/-- every combination of answers the contract can give to the calls the module makes -/
theorem convert_failed_unchanged_script (env : Env) (s : State) (answers : List Ans) (op : Op) (e : Rej)
    (h : step env scriptOracle { st := s, evm := answers } op = .error e) :
    exec env scriptOracle { st := s, evm := answers } op = { st := s, evm := answers } :=
  convert_failed_unchanged env scriptOracle _ op e h

/-- any oracle with a failure injected at its `n`-th call -/
def failAt (n : Nat) (O : Oracle σ) : Oracle (σ × Nat) := fun c s =>
  if s.2 = n then ({ status := .err, ret := none, logs := [] }, (s.1, s.2 + 1))
  else ((O c s.1).1, ((O c s.1).2, s.2 + 1))

theorem convert_failed_unchanged_fault (env : Env) (O : Oracle σ) (n : Nat) (w : World (σ × Nat)) (op : Op) (e : Rej)
    (h : step env (failAt n O) w op = .error e) : exec env (failAt n O) w op = w :=
  convert_failed_unchanged env (failAt n O) w op e h

/-- the executable monitor `rejected_unchanged` (whole bank ledger, registry, switches, token ledger)
holds on every rejected transition of the model -/
theorem rejected_unchanged_monitor (env : Env) (cfg : Cfg) (O : Oracle TState) (w : World TState) (op : Op) (e : Rej)
    (h : step env O w op = .error e) (r : Resp) (ans : List Ans) (hon cl : Bool)
    (lk : List (Addr × Denom × String × String)) (prev : Option (DOp × Bool × Resp × World TState × Bool)) :
    rejectedUnchanged { env := env, cfg := cfg, pre := w, op := .k op, ok := false, resp := r, post := exec env O w op,
                        answers := ans, honest := hon, lookups := lk, clean := cl, prev := prev } = true := by
  rw [convert_failed_unchanged env O w op e h]
  simp [rejectedUnchanged, sameState, sameBank, sameReg, sameMap, sameTok, AMap.eqv]

/-! ## success: which path ran -/

/-- a successful `ConvertCoin` passed the gate, found code at the contract and ran the path of the
pair's owner on the message's own values -/
theorem convertCoin_success_paths {env : Env} {O : Oracle σ} {w w' : World σ} {m : MsgConvertCoin}
    (h : step env O w (.convertCoin m) = .ok (w', .converted)) :
    ∃ p, msgPair w.st (.convertCoin m) = some p ∧ m.sender.form ≠ .bad ∧ m.receiver.valid = true ∧ 0 < m.amount ∧
      p.enabled = true ∧ (O (.code p.addr) w.evm).1.ret = some 1 ∧
      coinPath env O p m.denom.s m.amount.toNat m.receiver.bytes m.sender.bytes
        { w with evm := (O (.code p.addr) w.evm).2 } = .ok (w', .converted) ∧
      isHexAddress m.denom.s = false := by
  obtain ⟨F⟩ := convertCoin_ok (by simpa [step] using h)
  obtain ⟨_, ⟨i, hi, hp⟩, g2, _⟩ := gate_ok F.hGate
  obtain ⟨e1, f1⟩ := AddrStr.decode_ok F.hSender
  obtain ⟨e2, f2⟩ := HexStr.decode_ok F.hReceiver
  rcases afterGate_ok F.hRest with ⟨hc, hpath⟩ | ⟨_, _, hr⟩
  · refine ⟨F.p, by simp [msgPair, Registry.lookupTok, hi, hp], f1, f2, F.hAmt, g2, hc, ?_, F.hNotHex⟩
    rw [← e1, ← e2]; exact hpath
  · cases hr

theorem convertERC20_success_paths {env : Env} {O : Oracle σ} {w w' : World σ} {m : MsgConvertERC20}
    (h : step env O w (.convertERC20 m) = .ok (w', .converted)) :
    ∃ p, msgPair w.st (.convertERC20 m) = some p ∧ m.sender.valid = true ∧ m.receiver.form ≠ .bad ∧ 0 < m.amount ∧
      p.enabled = true ∧ (O (.code p.addr) w.evm).1.ret = some 1 ∧
      erc20Path env O p m.amount.toNat m.receiver.bytes m.sender.bytes
        { w with evm := (O (.code p.addr) w.evm).2 } = .ok (w', .converted) := by
  obtain ⟨F⟩ := convertERC20_ok (by simpa [step] using h)
  obtain ⟨_, ⟨i, hi, hp⟩, g2, _⟩ := gate_ok F.hGate
  obtain ⟨e0, _⟩ := HexStr.decode_ok F.hContract
  obtain ⟨e1, f1⟩ := HexStr.decode_ok F.hSender
  obtain ⟨e2, f2⟩ := AddrStr.decode_ok F.hReceiver
  rcases afterGate_ok F.hRest with ⟨hc, hpath⟩ | ⟨_, _, hr⟩
  · refine ⟨F.p, by simp [msgPair, ← e0, hi, hp], f1, f2, F.hAmt, g2, hc, ?_⟩
    rw [← e1, ← e2]; exact hpath
  · cases hr

/-! ## success: exactness of each path, for every oracle -/

/-- decide one `if` condition everywhere -/
macro "ifc " h:ident : tactic =>
  `(tactic| first | simp only [if_pos $h] at * | simp only [if_neg $h] at * | skip)

macro "flow1" " at " h:ident : tactic =>
  `(tactic| simp only [inflow, outflow, minted, burned, sumBy_cons, sumBy_nil, Eff.inflow, Eff.outflow,
      Eff.minted, Eff.burned, Nat.add_zero, Nat.zero_add] at $h:ident)

/-- 1.1 coin → token, chain-deployed contract.  Bank: sender `-a`, module escrow `+a`, nothing else,
no supply changes.  Token ledger as reported: receiver `+a` exactly. -/
theorem coinNative_exact {env : Env} {O : Oracle σ} {w w' : World σ} {p : Pair} {d : Denom} {a : Nat} {R S : Addr} {r : Resp}
    (h : convertCoinNativeCoin env O w p d a R S = .ok (w', r)) :
    (∀ x d', w'.st.bank.get x d' + (if x = S ∧ d' = d then a else 0) =
             w.st.bank.get x d' + (if x = env.modAddr ∧ d' = d then a else 0)) ∧
    (∀ d', w'.st.bank.supply d' = w.st.bank.supply d') ∧
    sameCore w.st w'.st ∧
    ∃ b0 b1, (O (.balanceOf p.addr R) w.evm).1.ret = some b0 ∧
      (O (.balanceOf p.addr R) (O (.mint p.addr R a) (O (.balanceOf p.addr R) w.evm).2).2).1.ret = some b1 ∧
      b1 = b0 + a := by
  obtain ⟨F⟩ := convertCoinNativeCoin_ok h
  have hst : w'.st = { w.st with bank := F.bank1 } := congrArg World.st F.hWorld
  have flow := Bank.applyAll_flow _ _ _ F.hBank
  refine ⟨?_, ?_, by rw [hst]; exact sameCore_bank _ _, F.b0, F.b1, F.hB0.2, F.hB1.2, F.hEq⟩
  · intro x d'
    have f := (flow x d').1
    flow1 at f
    rw [hst]; exact f
  · intro d'
    have f := (flow "" d').2
    flow1 at f
    rw [hst]; exact f

/-- 2.2 coin → token, external contract.  Bank: sender `-a`, supply `-a` (the escrowed coins are
burned), nothing else.  Token ledger as reported: receiver `+a` exactly; no `Approval` log. -/
theorem coinExternal_exact {env : Env} {O : Oracle σ} {w w' : World σ} {p : Pair} {d : Denom} {a : Nat} {R S : Addr} {r : Resp}
    (h : convertCoinNativeERC20 env O w p d a R S = .ok (w', r)) :
    (∀ x d', w'.st.bank.get x d' + (if x = S ∧ d' = d then a else 0) = w.st.bank.get x d') ∧
    (∀ d', w'.st.bank.supply d' + (if d' = d then a else 0) = w.st.bank.supply d') ∧
    sameCore w.st w'.st ∧
    (∃ b0 b1, (O (.balanceOf p.addr R) w.evm).1.ret = some b0 ∧
      (O (.balanceOf p.addr R) (O (.transfer p.addr env.modAddr R a) (O (.balanceOf p.addr R) w.evm).2).2).1.ret = some b1 ∧
      b1 = b0 + a) ∧
    LogK.approval ∉ (O (.transfer p.addr env.modAddr R a) (O (.balanceOf p.addr R) w.evm).2).1.logs := by
  obtain ⟨F⟩ := convertCoinNativeERC20_ok h
  have hst : w'.st = { w.st with bank := F.bank2 } := congrArg World.st F.hWorld
  have flow1 := Bank.applyAll_flow _ _ _ F.hBank
  have flow2 := Bank.applyAll_flow _ _ _ F.hBurn
  refine ⟨?_, ?_, by rw [hst]; exact sameCore_bank _ _, ⟨F.r0, F.r1, F.hR0.2, F.hR1.2, F.hEq⟩, F.hNoApproval⟩
  · intro x d'
    have f1 := (flow1 x d').1
    have f2 := (flow2 x d').1
    flow1 at f1
    flow1 at f2
    rw [hst]
    show F.bank2.get x d' + _ = _
    by_cases c1 : (x = S ∧ d' = d) <;> by_cases c2 : (x = env.modAddr ∧ d' = d) <;> (ifc c1; ifc c2; omega)
  · intro d'
    have f1 := (flow1 "" d').2
    have f2 := (flow2 "" d').2
    flow1 at f1
    flow1 at f2
    rw [hst]
    show F.bank2.supply d' + _ = _
    by_cases c1 : d' = d <;> (ifc c1; omega)

/-- 1.2 token → coin, chain-deployed contract.  Bank: receiver `+a`, module escrow `-a`, nothing
else, no supply change.  Token ledger as reported: sender `-a` exactly. -/
theorem erc20Native_exact {env : Env} {O : Oracle σ} {w w' : World σ} {p : Pair} {a : Nat} {R S : Addr} {r : Resp}
    (h : convertERC20NativeCoin env O w p a R S = .ok (w', r)) :
    (∀ x d', w'.st.bank.get x d' + (if x = env.modAddr ∧ d' = p.denom then a else 0) =
             w.st.bank.get x d' + (if x = R ∧ d' = p.denom then a else 0)) ∧
    (∀ d', w'.st.bank.supply d' = w.st.bank.supply d') ∧
    sameCore w.st w'.st ∧
    ∃ t0 t1, (O (.balanceOf p.addr S) w.evm).1.ret = some t0 ∧
      (O (.balanceOf p.addr S) (O (.burnCoins p.addr S a) (O (.balanceOf p.addr S) w.evm).2).2).1.ret = some t1 ∧
      t1 + a = t0 := by
  obtain ⟨F⟩ := convertERC20NativeCoin_ok h
  have hst : w'.st = { w.st with bank := F.bank1 } := congrArg World.st F.hWorld
  have flow := Bank.applyAll_flow _ _ _ F.hBank
  refine ⟨?_, ?_, by rw [hst]; exact sameCore_bank _ _, F.t0, F.t1, F.hT0.2, F.hT1.2, F.hEq⟩
  · intro x d'
    have f := (flow x d').1
    flow1 at f
    rw [hst]; exact f
  · intro d'
    have f := (flow "" d').2
    flow1 at f
    rw [hst]; exact f

/-- 2.1 token → coin, external contract.  Bank: receiver `+a`, supply `+a`, nothing else (the module
account mints and passes on).  Token ledger as reported: the module's escrow `+a` exactly; `transfer`
returned `true`; no `Approval` log. -/
theorem erc20External_exact {env : Env} {O : Oracle σ} {w w' : World σ} {p : Pair} {a : Nat} {R S : Addr} {r : Resp}
    (h : convertERC20NativeToken env O w p a R S = .ok (w', r)) :
    (∀ x d', w'.st.bank.get x d' = w.st.bank.get x d' + (if x = R ∧ d' = p.denom then a else 0)) ∧
    (∀ d', w'.st.bank.supply d' = w.st.bank.supply d' + (if d' = p.denom then a else 0)) ∧
    sameCore w.st w'.st ∧
    (∃ m0 m1, (O (.balanceOf p.addr env.modAddr) w.evm).1.ret = some m0 ∧
      (O (.balanceOf p.addr env.modAddr) (O (.transfer p.addr S env.modAddr a) (O (.balanceOf p.addr env.modAddr) w.evm).2).2).1.ret = some m1 ∧
      m1 = m0 + a) ∧
    (O (.transfer p.addr S env.modAddr a) (O (.balanceOf p.addr env.modAddr) w.evm).2).1.ret = some 1 ∧
    LogK.approval ∉ (O (.transfer p.addr S env.modAddr a) (O (.balanceOf p.addr env.modAddr) w.evm).2).1.logs := by
  obtain ⟨F⟩ := convertERC20NativeToken_ok h
  have hst : w'.st = { w.st with bank := F.bank2 } := congrArg World.st F.hWorld
  have flow1 := Bank.applyAll_flow _ _ _ F.hMint
  have flow2 := Bank.applyAll_flow _ _ _ F.hSend
  refine ⟨?_, ?_, by rw [hst]; exact sameCore_bank _ _, ⟨F.m0, F.m1, F.hM0.2, F.hM1.2, F.hEq⟩, F.hRet, F.hNoApproval⟩
  · intro x d'
    have f1 := (flow1 x d').1
    have f2 := (flow2 x d').1
    flow1 at f1
    flow1 at f2
    rw [hst]
    show F.bank2.get x d' = _
    by_cases c1 : (x = R ∧ d' = p.denom) <;> by_cases c2 : (x = env.modAddr ∧ d' = p.denom) <;> (ifc c1; ifc c2; omega)
  · intro d'
    have f1 := (flow1 "" d').2
    have f2 := (flow2 "" d').2
    flow1 at f1
    flow1 at f2
    rw [hst]
    show F.bank2.supply d' = _
    by_cases c1 : d' = p.denom <;> (ifc c1; omega)

/-- no `Approval` event survives a successful conversion of an external token (either direction) -/
theorem no_approval_on_success {env : Env} {O : Oracle σ} {w w' : World σ} {p : Pair} {a : Nat} {R S : Addr} {r : Resp} :
    (∀ d, convertCoinNativeERC20 env O w p d a R S = .ok (w', r) →
      LogK.approval ∉ (O (.transfer p.addr env.modAddr R a) (O (.balanceOf p.addr R) w.evm).2).1.logs) ∧
    (convertERC20NativeToken env O w p a R S = .ok (w', r) →
      LogK.approval ∉ (O (.transfer p.addr S env.modAddr a) (O (.balanceOf p.addr env.modAddr) w.evm).2).1.logs) :=
  ⟨fun _ h => (coinExternal_exact h).2.2.2.2, fun h => (erc20External_exact h).2.2.2.2.2⟩

/-! ## reversible: round trips with the honest token -/

section roundtrip
variable {env : Env} {cfg : Cfg}

theorem honest_code_world (w : World TState) (c : Addr) :
    ({ w with evm := (honest cfg (.code c) w.evm).2 } : World TState) = w := rfl

/-- a denomination that is not of hex-address form resolves to a pair with that denomination -/
theorem msgPair_denom {s : State} (hI : RegInv s.reg) {m : MsgConvertCoin} {p : Pair}
    (hx : isHexAddress m.denom.s = false) (hp : msgPair s (.convertCoin m) = some p) : p.denom = m.denom.s := by
  have := (lookup_sound hI (t := m.denom) hp).2
  simpa [hx] using this

theorem msgPair_addr {s : State} (hI : RegInv s.reg) {m : MsgConvertERC20} {p : Pair}
    (hp : msgPair s (.convertERC20 m) = some p) : p.addr = m.contract.bytes := by
  simp only [msgPair] at hp
  split at hp
  · rename_i i hi
    obtain ⟨q, hq, hqa⟩ := (hI.addrIdx _ _).mp hi
    rw [hp] at hq; injection hq with hq; subst hq; exact hqa
  · cases hp

/-- **roundtrip_identity (coin → token → coin).**  Convert `a` coins to tokens for `R`, then `R`
converts `a` tokens back for the original sender: every bank balance, every supply, every token
balance and every token supply is exactly what it was — for chain-deployed and for external
contracts alike. -/
theorem roundtrip_coin_token_coin {w0 w1 w2 : World TState} {m1 : MsgConvertCoin} {m2 : MsgConvertERC20}
    (hI : RegInv w0.st.reg)
    (h1 : step env (honest cfg) w0 (.convertCoin m1) = .ok (w1, .converted))
    (h2 : step env (honest cfg) w1 (.convertERC20 m2) = .ok (w2, .converted))
    (hpair : msgPair w1.st (.convertERC20 m2) = msgPair w0.st (.convertCoin m1))
    (hamt : m2.amount = m1.amount) (hs : m2.sender.bytes = m1.receiver.bytes) (hr : m2.receiver.bytes = m1.sender.bytes) :
    (∀ x d, w2.st.bank.get x d = w0.st.bank.get x d) ∧ (∀ d, w2.st.bank.supply d = w0.st.bank.supply d) ∧
    w0.evm.same w2.evm ∧ sameCore w0.st w2.st := by
  obtain ⟨p, hp1, _, _, _, _, _, path1, hx⟩ := convertCoin_success_paths h1
  obtain ⟨p2, hp2, _, _, _, _, _, path2⟩ := convertERC20_success_paths h2
  rw [hpair, hp1] at hp2; injection hp2 with hp2; subst hp2
  have hd := msgPair_denom hI hx hp1
  rw [honest_code_world] at path1 path2
  rw [hamt, hs, hr] at path2
  unfold coinPath at path1
  unfold erc20Path at path2
  cases ho : p.owner with
  | unspecified => rw [ho] at path1; cases path1
  | module =>
    rw [ho] at path1 path2
    simp only at path1 path2
    obtain ⟨b1, hb1, hst1, hev1, _, _⟩ := coinNative_honest path1
    obtain ⟨b2, hb2, hst2, hev2, hle, _, _, _⟩ := erc20NativeCoin_honest path2
    rw [hst1] at hb2
    simp only at hb2
    rw [hd] at hb2
    have f1 := Bank.applyAll_flow _ _ _ hb1
    have f2 := Bank.applyAll_flow _ _ _ hb2
    refine ⟨?_, ?_, ?_, ?_⟩
    · intro x d
      have g1 := (f1 x d).1
      have g2 := (f2 x d).1
      flow1 at g1
      flow1 at g2
      rw [hst2]; show b2.get x d = _
      by_cases c1 : (x = m1.sender.bytes ∧ d = m1.denom.s) <;> by_cases c2 : (x = env.modAddr ∧ d = m1.denom.s) <;>
        (ifc c1; ifc c2; omega)
    · intro d
      have g1 := (f1 "" d).2
      have g2 := (f2 "" d).2
      flow1 at g1
      flow1 at g2
      rw [hst2]; show b2.supply d = _
      omega
    · rw [hev2, hev1]
      refine ⟨?_, ?_, rfl, rfl⟩
      · intro c h
        simp only [balOf_setSupply, balOf_debit, balOf_credit, supply_credit, supply_setSupply]
        split
        · rename_i hc; obtain ⟨rfl, rfl⟩ := hc; simp
        · rfl
      · intro c
        simp only [supply_setSupply, supply_debit, supply_credit]
        split
        · rename_i hc; subst hc; simp
        · rfl
    · rw [hst2, hst1]; exact ⟨rfl, rfl, rfl, rfl, rfl, rfl⟩
  | external =>
    rw [ho] at path1 path2
    simp only at path1 path2
    obtain ⟨b1, b1', hb1, hb1', hst1, hev1, hle1, _, _⟩ := coinNativeERC20_honest path1
    obtain ⟨b2, b2', hb2, hb2', hst2, hev2, hle2, _, _⟩ := erc20NativeToken_honest path2
    rw [hst1] at hb2
    simp only at hb2
    rw [hd] at hb2 hb2'
    have f1 := Bank.applyAll_flow _ _ _ hb1
    have f1' := Bank.applyAll_flow _ _ _ hb1'
    have f2 := Bank.applyAll_flow _ _ _ hb2
    have f2' := Bank.applyAll_flow _ _ _ hb2'
    refine ⟨?_, ?_, ?_, ?_⟩
    · intro x d
      have g1 := (f1 x d).1
      have g1' := (f1' x d).1
      have g2 := (f2 x d).1
      have g2' := (f2' x d).1
      flow1 at g1
      flow1 at g1'
      flow1 at g2
      flow1 at g2'
      rw [hst2]; show b2'.get x d = _
      by_cases c1 : (x = m1.sender.bytes ∧ d = m1.denom.s) <;> by_cases c2 : (x = env.modAddr ∧ d = m1.denom.s) <;>
        (ifc c1; ifc c2; omega)
    · intro d
      have g1 := (f1 "" d).2
      have g1' := (f1' "" d).2
      have g2 := (f2 "" d).2
      have g2' := (f2' "" d).2
      flow1 at g1
      flow1 at g1'
      flow1 at g2
      flow1 at g2'
      rw [hst2]; show b2'.supply d = _
      by_cases c1 : d = m1.denom.s <;> (ifc c1; omega)
    · rw [hev2, hev1]
      refine ⟨?_, ?_, rfl, rfl⟩
      · intro c h
        exact transfer_there_and_back w0.evm p.addr env.modAddr m1.receiver.bytes m1.amount.toNat hle1 c h
      · intro c; rfl
    · rw [hst2, hst1]; exact ⟨rfl, rfl, rfl, rfl, rfl, rfl⟩

/-- **roundtrip_identity (token → coin → token).**  `S` converts `a` tokens to coins for `R`, then
`R` converts `a` coins back to tokens for `S`: both ledgers are exactly what they were. -/
theorem roundtrip_token_coin_token {w0 w1 w2 : World TState} {m1 : MsgConvertERC20} {m2 : MsgConvertCoin}
    (hI : RegInv w0.st.reg)
    (h1 : step env (honest cfg) w0 (.convertERC20 m1) = .ok (w1, .converted))
    (h2 : step env (honest cfg) w1 (.convertCoin m2) = .ok (w2, .converted))
    (hpair : msgPair w1.st (.convertCoin m2) = msgPair w0.st (.convertERC20 m1))
    (hamt : m2.amount = m1.amount) (hs : m2.sender.bytes = m1.receiver.bytes) (hr : m2.receiver.bytes = m1.sender.bytes) :
    (∀ x d, w2.st.bank.get x d = w0.st.bank.get x d) ∧ (∀ d, w2.st.bank.supply d = w0.st.bank.supply d) ∧
    w0.evm.same w2.evm ∧ sameCore w0.st w2.st := by
  obtain ⟨p, hp1, _, _, _, _, _, path1⟩ := convertERC20_success_paths h1
  obtain ⟨p2, hp2, _, _, _, _, _, path2, hx⟩ := convertCoin_success_paths h2
  have hreg : w1.st.reg = w0.st.reg := by
    obtain ⟨b, hb, _⟩ := erc20Path_frame path1
    rw [hb]
  rw [hpair, hp1] at hp2; injection hp2 with hp2; subst hp2
  have hI1 : RegInv w1.st.reg := by rw [hreg]; exact hI
  have hd : p.denom = m2.denom.s := msgPair_denom hI1 hx (by rw [hpair]; exact hp1)
  rw [honest_code_world] at path1 path2
  rw [hamt, hs, hr, ← hd] at path2
  unfold erc20Path at path1
  unfold coinPath at path2
  cases ho : p.owner with
  | unspecified => rw [ho] at path1; cases path1
  | module =>
    rw [ho] at path1 path2
    simp only at path1 path2
    obtain ⟨b1, hb1, hst1, hev1, hle, hls, _, _⟩ := erc20NativeCoin_honest path1
    obtain ⟨b2, hb2, hst2, hev2, _, _⟩ := coinNative_honest path2
    rw [hst1] at hb2
    simp only at hb2
    have f1 := Bank.applyAll_flow _ _ _ hb1
    have f2 := Bank.applyAll_flow _ _ _ hb2
    refine ⟨?_, ?_, ?_, ?_⟩
    · intro x d
      have g1 := (f1 x d).1
      have g2 := (f2 x d).1
      flow1 at g1
      flow1 at g2
      rw [hst2]; show b2.get x d = _
      by_cases c1 : (x = m1.receiver.bytes ∧ d = p.denom) <;> by_cases c2 : (x = env.modAddr ∧ d = p.denom) <;>
        (ifc c1; ifc c2; omega)
    · intro d
      have g1 := (f1 "" d).2
      have g2 := (f2 "" d).2
      flow1 at g1
      flow1 at g2
      rw [hst2]; show b2.supply d = _
      omega
    · rw [hev2, hev1]
      refine ⟨?_, ?_, rfl, rfl⟩
      · intro c h
        simp only [balOf_setSupply, balOf_debit, balOf_credit, supply_debit, supply_setSupply]
        split
        · rename_i hc; obtain ⟨rfl, rfl⟩ := hc; simp; omega
        · rfl
      · intro c
        simp only [supply_setSupply, supply_debit, supply_credit]
        split
        · rename_i hc; subst hc; simp; omega
        · rfl
    · rw [hst2, hst1]; exact ⟨rfl, rfl, rfl, rfl, rfl, rfl⟩
  | external =>
    rw [ho] at path1 path2
    simp only at path1 path2
    obtain ⟨b1, b1', hb1, hb1', hst1, hev1, hle1, _, _⟩ := erc20NativeToken_honest path1
    obtain ⟨b2, b2', hb2, hb2', hst2, hev2, hle2, _, _⟩ := coinNativeERC20_honest path2
    rw [hst1] at hb2
    simp only at hb2
    have f1 := Bank.applyAll_flow _ _ _ hb1
    have f1' := Bank.applyAll_flow _ _ _ hb1'
    have f2 := Bank.applyAll_flow _ _ _ hb2
    have f2' := Bank.applyAll_flow _ _ _ hb2'
    refine ⟨?_, ?_, ?_, ?_⟩
    · intro x d
      have g1 := (f1 x d).1
      have g1' := (f1' x d).1
      have g2 := (f2 x d).1
      have g2' := (f2' x d).1
      flow1 at g1
      flow1 at g1'
      flow1 at g2
      flow1 at g2'
      rw [hst2]; show b2'.get x d = _
      by_cases c1 : (x = m1.receiver.bytes ∧ d = p.denom) <;> by_cases c2 : (x = env.modAddr ∧ d = p.denom) <;>
        (ifc c1; ifc c2; omega)
    · intro d
      have g1 := (f1 "" d).2
      have g1' := (f1' "" d).2
      have g2 := (f2 "" d).2
      have g2' := (f2' "" d).2
      flow1 at g1
      flow1 at g1'
      flow1 at g2
      flow1 at g2'
      rw [hst2]; show b2'.supply d = _
      by_cases c1 : d = p.denom <;> (ifc c1; omega)
    · rw [hev2, hev1]
      refine ⟨?_, ?_, rfl, rfl⟩
      · intro c h
        exact transfer_there_and_back w0.evm p.addr m1.sender.bytes env.modAddr m1.amount.toNat hle1 c h
      · intro c; rfl
    · rw [hst2, hst1]; exact ⟨rfl, rfl, rfl, rfl, rfl, rfl⟩

end roundtrip

/-! ## the limit for external adversarial tokens, with a witness -/

/-- a token that is honest except that `transfer` credits the recipient **without debiting the sender** -/
def creditOnly (cfg : Cfg) : Oracle TState
  | .transfer c _ to a, t => (okAns (some 1) [.transfer], (t.setSupply c (t.supply c + a)).credit c to a)
  | call, t => honest cfg call t

/-- **external_sender_debit_unchecked.**  The keeper checks the escrow side of an external token only
(`balanceOf(module)` before/after).  Against `creditOnly`, `ConvertERC20` of 5 tokens by `u0` succeeds
— 5 coins are minted to `u0`, the module's token balance grows by 5 — while `u0`'s own token balance
stays at 7: "debits the sender exactly" is a property of the token's code, not one the module can
observe; it is proved above for the honest token only (`erc20NativeToken_honest`).  Documented as the
boundary of the first sentence of C04, not a defect of the module. -/
theorem external_sender_debit_unchecked :
    (let O := creditOnly exCfg
     let w1 := exec exEnv (honest exCfg) exWorld (.registerERC20 true "t0" true)
     match step exEnv O w1 (.convertERC20 { contract := ⟨true, "t0"⟩, amount := 5, receiver := ⟨.lower, "u0"⟩, sender := ⟨true, "u0"⟩ }) with
     | .ok (w2, r) =>
       r == .converted && w2.evm.balOf "t0" "u0" == 7 && w2.evm.balOf "t0" "m.erc20" == 5 &&
       w2.st.bank.get "u0" "erc20/0x746f6b656e305F5f5F5f5f5F5f5F5F5F5f5F5F5f" == 5
     | .error _ => false) = true := by
  decide +kernel

/-! ## non-vacuity -/

/-- a deviation at each position of the four-call sequence of `ConvertCoin` is rejected by the model:
no code, a failing balance query, a mint that credits one unit less, a wrong balance afterwards -/
example :
    (let w1 := exec exEnv (honest exCfg) exWorld (.registerCoin true "acoin" "d1")
     let m : Op := .convertCoin { denom := ⟨"acoin", "-"⟩, amount := 3, receiver := ⟨true, "u1"⟩, sender := ⟨.lower, "u0"⟩ }
     let run (answers : List Ans) := step exEnv scriptOracle { st := w1.st, evm := answers } m
     let okA (ret : Option Nat) (logs : List LogK) : Ans := { status := .ok, ret := ret, logs := logs }
     -- the honest script: code present, balance 0, mint ok, balance 3
     isOk (run [okA (some 1) [], okA (some 0) [], okA none [.transfer], okA (some 3) []]) &&
     -- deviations
     !isOk (run [okA (some 1) [], { status := .err, ret := none, logs := [] }, okA none [.transfer], okA (some 3) []]) &&
     !isOk (run [okA (some 1) [], okA (some 0) [], { status := .revert, ret := none, logs := [] }, okA (some 3) []]) &&
     !isOk (run [okA (some 1) [], okA (some 0) [], okA none [.transfer], okA (some 2) []]) &&
     !isOk (run [okA (some 1) [], okA (some 0) [], okA none [.transfer], okA none []]) &&
     -- and a failure injected at each of the three EVM calls of the honest token (oracle query 0 is the
     -- account lookup `GetAccountWithoutBalance`, which cannot fail: "no contract" means pair deletion)
     !isOk (step exEnv (failAt 1 (honest exCfg)) { st := w1.st, evm := (w1.evm, 0) } m) &&
     !isOk (step exEnv (failAt 2 (honest exCfg)) { st := w1.st, evm := (w1.evm, 0) } m) &&
     !isOk (step exEnv (failAt 3 (honest exCfg)) { st := w1.st, evm := (w1.evm, 0) } m) &&
     isOk (step exEnv (failAt 4 (honest exCfg)) { st := w1.st, evm := (w1.evm, 0) } m)) = true := by
  decide +kernel

/-- the round trip on the example world, both pair kinds -/
example :
    (let O := honest exCfg
     let w1 := exec exEnv O exWorld (.registerCoin true "acoin" "d1")
     let w2 := exec exEnv O w1 (.registerERC20 true "t0" true)
     let a := exec exEnv O w2 (.convertCoin { denom := ⟨"acoin", "-"⟩, amount := 3, receiver := ⟨true, "u1"⟩, sender := ⟨.lower, "u0"⟩ })
     let b := exec exEnv O a (.convertERC20 { contract := ⟨true, "k0"⟩, amount := 3, receiver := ⟨.lower, "u0"⟩, sender := ⟨true, "u1"⟩ })
     let c := exec exEnv O w2 (.convertERC20 { contract := ⟨true, "t0"⟩, amount := 4, receiver := ⟨.lower, "u1"⟩, sender := ⟨true, "u0"⟩ })
     let d := exec exEnv O c (.convertCoin { denom := ⟨"erc20/0x746f6b656e305F5f5F5f5f5F5f5F5F5F5f5F5F5f", "-"⟩, amount := 4, receiver := ⟨true, "u0"⟩, sender := ⟨.lower, "u1"⟩ })
     a.evm.balOf "k0" "u1" == 3 && a.st.bank.get "u0" "acoin" == 7 && a.st.bank.get "m.erc20" "acoin" == 3 &&
     sameBank w2.st b.st && sameTok w2.evm b.evm &&
     c.evm.balOf "t0" "m.erc20" == 4 && c.st.bank.get "u1" "erc20/0x746f6b656e305F5f5F5f5f5F5f5F5F5F5f5F5F5f" == 4 &&
     sameBank w2.st d.st && sameTok w2.evm d.evm) = true := by
  decide +kernel

end Erc20
end CV
