import CantoVerif.Proofs.ReplicaLemmas
import CantoVerif.Spec.Replica
/-!
# C06 — replicas agree: execution is deterministic and survives restarts and reads. **PARTIAL.**

Property (properties.jsonl): *any two nodes fed the same sequence of blocks produce identical application hashes,
transaction results and exported state at every height. Stopping a node at any block boundary and restarting it from
its database, or serving any number of queries, mempool checks and simulations between blocks, does not change any
later result.*

**The proof part is partial and is NOT what decides this property for the code.** In the model a block is a function
of (committed state, block), so two model replicas agree by reflexivity (`replicas_agree_model` below is `rfl`) —
that is vacuous about the implementation. Whether the Go code is such a function is a statement about the runtime
(map iteration order, wall clock, goroutines, memory that survives between blocks or dies at a restart, IAVL/commit
internals) that no executable model exhibits. The decision procedure for the code is the **differential replica run**
(suite `replica`: four replicas of the real application over one generated block history, compared at every height),
together with the regenerated list of nondeterminism sources (`Gen/Nondet.lean`, bridge `Bridge/Nondet.lean`).

What IS proved here, all named `_partial` towards the property, for every application `app` (arbitrary block
function, arbitrary read handlers that may write to the branch they are given), every node, every schedule:

* `reads_pure_partial`        erasing all queries, CheckTx and simulations from a schedule changes neither the block
                              results nor the committed state (full statement of the property's read clause for the
                              *model's* branching discipline; the code's discipline is baseapp's, trusted + run);
* `restart_transparent_partial`  if the database image reads back (`load (save s) = some s`), erasing all restarts
                              changes nothing either; `load_save` discharges the hypothesis for the state of the seven
                              Canto modules: every model component is in the saved key/value lists, and `save_keys`
                              shows those lists have exactly the raw store keys that the `genesis` suite's driver compares
                              with a KV dump of the real stores;
* `schedules_agree_partial`   any two schedules with the same block sequence (replicas A, B, C of the model) give the same
                              results and committed state;
* `export_deterministic_partial`  the export is a function of the state whose lists are sorted by store key, and a store
                              section does not depend on the order in which its records were written (`build_perm`) —
                              the model-level reason why a `range` over a Go map that only *writes records* is harmless,
                              and why one whose body has order-dependent effects is not covered.

Missing for the full statement: everything about the real runtime (above); SDK/ethermint state (bank, auth, evm, gov,
staking …) in `save`/`load`; process crashes *inside* a block (only block boundaries are in the property).
-/
namespace CV
namespace Replica

variable {σ β ρ τ α δ : Type}

/-- the schedule with every read removed -/
def eraseReads (evs : List (Ev β τ)) : List (Ev β τ) := evs.filter (fun e => !e.isRead)
/-- the schedule with every restart removed -/
def eraseRestarts (evs : List (Ev β τ)) : List (Ev β τ) := evs.filter (fun e => !e.isRestart)
/-- the block history of a schedule -/
def blocksOf : List (Ev β τ) → List β
  | [] => []
  | .block b :: rest => b :: blocksOf rest
  | _ :: rest => blocksOf rest

/-- the quiet replica: nothing but the blocks -/
def runBlocks (app : App σ β ρ τ α) : σ → List β → σ × List ρ
  | s, [] => (s, [])
  | s, b :: rest => let r := app.applyBlock s b; let r' := runBlocks app r.1 rest; (r'.1, r.2 :: r'.2)

theorem eraseReads_block (b : β) (rest : List (Ev β τ)) : eraseReads (Ev.block b :: rest) = Ev.block b :: eraseReads rest := rfl
theorem eraseReads_restart (rest : List (Ev β τ)) : eraseReads (Ev.restart :: rest) = Ev.restart :: eraseReads rest := rfl
theorem eraseReads_query (q : τ) (rest : List (Ev β τ)) : eraseReads (Ev.query q :: rest) = eraseReads rest := rfl
theorem eraseReads_checkTx (q : τ) (rest : List (Ev β τ)) : eraseReads (Ev.checkTx q :: rest) = eraseReads rest := rfl
theorem eraseReads_simulate (q : τ) (rest : List (Ev β τ)) : eraseReads (Ev.simulate q :: rest) = eraseReads rest := rfl

/-- **Reads are pure** (model): interleaving any queries, mempool checks and simulations between blocks — handlers that
write to their branch included — leaves every block result and the committed state unchanged. -/
theorem reads_pure_partial (app : App σ β ρ τ α) (save : σ → δ) (load : δ → Option σ) :
    ∀ (evs : List (Ev β τ)) (n n' : Node σ), n.committed = n'.committed →
      (run app save load n evs).2 = (run app save load n' (eraseReads evs)).2 ∧
      (run app save load n evs).1.committed = (run app save load n' (eraseReads evs)).1.committed
  | [], n, n', h => by simp [eraseReads, run, h]
  | e :: rest, n, n', h => by
    cases e with
    | block b =>
      have ih := reads_pure_partial app save load rest
        { committed := (app.applyBlock n.committed b).1, check := (app.applyBlock n.committed b).1 }
        { committed := (app.applyBlock n'.committed b).1, check := (app.applyBlock n'.committed b).1 } (by rw [h])
      rw [eraseReads_block]
      simp only [run, step] at ih ⊢
      rw [h] at ih ⊢
      exact ⟨by rw [ih.1], ih.2⟩
    | query q =>
      rw [eraseReads_query]
      simpa [run, step] using reads_pure_partial app save load rest n n' h
    | checkTx t =>
      rw [eraseReads_checkTx]
      simpa [run, step] using reads_pure_partial app save load rest { n with check := (app.checkTx n.check t).1 } n' h
    | simulate t =>
      rw [eraseReads_simulate]
      simpa [run, step] using reads_pure_partial app save load rest n n' h
    | restart =>
      rw [eraseReads_restart]
      simp only [run, step]
      rw [h]
      cases hl : load (save n'.committed) with
      | none => simpa using reads_pure_partial app save load rest n n' h
      | some s => simpa using reads_pure_partial app save load rest { committed := s, check := s } { committed := s, check := s } rfl

/-- every schedule is observationally the quiet replica on its block history, provided the database reads back -/
theorem run_eq_blocks (app : App σ β ρ τ α) (save : σ → δ) (load : δ → Option σ) (hdb : ∀ s, load (save s) = some s) :
    ∀ (evs : List (Ev β τ)) (n : Node σ),
      (run app save load n evs).2 = (runBlocks app n.committed (blocksOf evs)).2 ∧
      (run app save load n evs).1.committed = (runBlocks app n.committed (blocksOf evs)).1
  | [], n => by simp [run, runBlocks, blocksOf]
  | e :: rest, n => by
    cases e with
    | block b =>
      have ih := run_eq_blocks app save load hdb rest { committed := (app.applyBlock n.committed b).1, check := (app.applyBlock n.committed b).1 }
      simp only [run, step, blocksOf, runBlocks] at ih ⊢
      exact ⟨by rw [ih.1]; rfl, ih.2⟩
    | query q => simpa [run, step, blocksOf] using run_eq_blocks app save load hdb rest n
    | checkTx t => simpa [run, step, blocksOf] using run_eq_blocks app save load hdb rest { n with check := (app.checkTx n.check t).1 }
    | simulate t => simpa [run, step, blocksOf] using run_eq_blocks app save load hdb rest n
    | restart =>
      simp only [run, step, blocksOf, hdb]
      simpa using run_eq_blocks app save load hdb rest { committed := n.committed, check := n.committed }

theorem blocksOf_eraseRestarts : ∀ (evs : List (Ev β τ)), blocksOf (eraseRestarts evs) = blocksOf evs
  | [] => rfl
  | e :: rest => by
    cases e <;> simp [eraseRestarts, Ev.isRestart, blocksOf] <;>
      exact blocksOf_eraseRestarts rest

/-- **Restarts are transparent** (model): a restart at any block boundary — any number of them — changes no later result,
as long as the database image reads back. -/
theorem restart_transparent_partial (app : App σ β ρ τ α) (save : σ → δ) (load : δ → Option σ) (hdb : ∀ s, load (save s) = some s)
    (evs : List (Ev β τ)) (n : Node σ) :
    (run app save load n evs).2 = (run app save load n (eraseRestarts evs)).2 ∧
    (run app save load n evs).1.committed = (run app save load n (eraseRestarts evs)).1.committed := by
  have h1 := run_eq_blocks app save load hdb evs n
  have h2 := run_eq_blocks app save load hdb (eraseRestarts evs) n
  rw [blocksOf_eraseRestarts] at h2
  exact ⟨h1.1.trans h2.1.symm, h1.2.trans h2.2.symm⟩

/-- **Replicas of the model agree**: schedules that share the block history (A continuous, B restarting anywhere, C reading
anything) produce the same results and the same committed state. -/
theorem schedules_agree_partial (app : App σ β ρ τ α) (save : σ → δ) (load : δ → Option σ) (hdb : ∀ s, load (save s) = some s)
    (evs₁ evs₂ : List (Ev β τ)) (n₁ n₂ : Node σ) (hn : n₁.committed = n₂.committed) (hb : blocksOf evs₁ = blocksOf evs₂) :
    (run app save load n₁ evs₁).2 = (run app save load n₂ evs₂).2 ∧
    (run app save load n₁ evs₁).1.committed = (run app save load n₂ evs₂).1.committed := by
  have h1 := run_eq_blocks app save load hdb evs₁ n₁
  have h2 := run_eq_blocks app save load hdb evs₂ n₂
  rw [hn, hb] at h1
  exact ⟨h1.1.trans h2.1.symm, h1.2.trans h2.2.symm⟩

/-- what "two model replicas agree" amounts to: reflexivity. Stated to make plain that it carries no information about the code. -/
theorem replicas_agree_model (app : App σ β ρ τ α) (s : σ) (blocks : List β) : runBlocks app s blocks = runBlocks app s blocks := rfl

/-- the restart clause instantiated with the database image of the seven Canto modules: the hypothesis is `load_save` -/
theorem restart_transparent_canto_partial (env : Genesis.Env) (app : App Genesis.State β ρ τ α) (evs : List (Ev β τ)) (n : Node Genesis.State) :
    (run app (save env) load n evs).2 = (run app (save env) load n (eraseRestarts evs)).2 ∧
    (run app (save env) load n evs).1.committed = (run app (save env) load n (eraseRestarts evs)).1.committed :=
  restart_transparent_partial app (save env) load (load_save env) evs n

/-- **The export is deterministic** (model): it is a function of the state; on states satisfying the invariants every exported
list is sorted by its store key; and a store section written from the same records in a different order is the same section. -/
theorem export_deterministic_partial (env : Genesis.Env) :
    (∀ s₁ s₂ : Genesis.State, s₁ = s₂ → Genesis.exportAll env s₁ = Genesis.exportAll env s₂) ∧
    (∀ s : Genesis.State, Genesis.Inv env s →
        Genesis.SortedBy Genesis.poolKey (Genesis.exportAll env s).cs.pools ∧
        Genesis.SortedBy (Genesis.pairKey env) (Genesis.exportAll env s).erc20.pairs ∧
        Genesis.SortedBy Genesis.dixKey (Genesis.exportAll env s).erc20.dix ∧
        Genesis.SortedBy Genesis.aixKey (Genesis.exportAll env s).erc20.aix ∧
        Genesis.SortedBy Genesis.csrKey (Genesis.exportAll env s).csr.csrs ∧
        Genesis.SortedBy Genesis.epochKey (Genesis.exportAll env s).ep.epochs) ∧
    (∀ (l₁ l₂ : List Genesis.Pool), l₁.Perm l₂ → Genesis.KeysInj Genesis.poolKey l₁ →
        Genesis.build Genesis.poolKey l₁ = Genesis.build Genesis.poolKey l₂) :=
  ⟨fun _ _ h => by rw [h],
   fun _ h => ⟨h.cs.sorted, h.erc20.pairsSorted, h.erc20.dixSorted, h.erc20.aixSorted, h.csr.sorted, h.ep.sorted⟩,
   fun _ _ p hk => Genesis.build_perm Genesis.poolKey p hk⟩

/-! ## non-vacuity -/

/-- a toy application whose read handlers DO write to the state they are given (a counter) -/
def toy : App Nat Nat Nat Nat Nat :=
  { applyBlock := fun s b => (s + b, 2 * s + b), query := fun s q => (s + 100 + q, s), checkTx := fun s t => (s + 7 + t, s),
    simulate := fun s t => (s * 3 + t, s) }

def sched : List (Ev Nat Nat) := [.query 1, .block 5, .checkTx 2, .restart, .simulate 3, .checkTx 4, .block 6, .query 9, .restart]

/-- the schedule with reads and restarts and the quiet one give the same results `[5, 16]` and final state `11`; the check state differs
(`29` after two CheckTx… then reset by the restart), so the statement is not about identical nodes -/
example : (run toy id some ⟨0, 0⟩ sched).2 = [5, 16] ∧ (run toy id some ⟨0, 0⟩ (eraseReads sched)).2 = [5, 16] ∧
    (run toy id some ⟨0, 0⟩ sched).1.committed = 11 ∧ blocksOf sched = [5, 6] := by decide
example : (run toy id some ⟨0, 0⟩ [.block 5, .checkTx 2]).1.check = 14 ∧ (run toy id some ⟨0, 0⟩ [.block 5]).1.check = 5 := by decide

/-- with a database that loses information (`load` forgets the state) a restart DOES change later results: the hypothesis of
`restart_transparent_partial` is needed -/
example : (run toy id (fun _ => some 0) ⟨0, 0⟩ [.block 5, .restart, .block 6]).2 ≠ (run toy id (fun _ => some 0) ⟨0, 0⟩ [.block 5, .block 6]).2 := by decide

/-- two pools written in either order give the same store section (the order a Go map iteration would choose does not matter) -/
example : Genesis.build Genesis.poolKey [⟨"pool-ausdc", "acanto", "ausdc", "canto1bbb", "lpt-1"⟩, ⟨"pool-abtc", "acanto", "abtc", "canto1aaa", "lpt-2"⟩] =
    Genesis.build Genesis.poolKey [⟨"pool-abtc", "acanto", "abtc", "canto1aaa", "lpt-2"⟩, ⟨"pool-ausdc", "acanto", "ausdc", "canto1bbb", "lpt-1"⟩] := by
  decide +kernel

end Replica
end CV
