import CantoVerif.Proofs.GenesisInv
import CantoVerif.Spec.Genesis
/-!
# C18 — exported genesis is complete: export, import, export is a fixed point.

Property (properties.jsonl): *for every reachable chain state, exporting the Canto modules' state, initialising a
fresh chain from that export and exporting again yields the same state (except the informational block height at
which each epoch's current period was recorded), and the export always passes the modules' own genesis validation.
The re-imported chain answers the modules' queries identically; only values the import deliberately recomputes
(the current inflation provision) are exempt.*

What is proved here, for ALL states `s` of the model satisfying the module invariants `Inv env s`
(`Proofs/GenesisInv.lean`: every store section sorted by its byte-wise key with the key a function of the record;
coinswap: the lpt index is the one `setPool` writes, lpt denoms unique and parseable, `sequence = max + 1`, denoms /
escrow addresses / fee valid; erc20: the three sections sorted, address-index keys 20 bytes, pair addresses and
denoms unique and well-formed; csr: contract index = the one `SetCSR` writes, share in [0,1]; epochs: identifiers
non-blank, duration ≠ 0, start time set; inflation / onboarding: parameter ranges; the stored Turnstile / port
address survives `String()`/`HexToAddress`), for every import context:

* `init_export`           `init ctx (export s) = ok (reimport ctx s)` — the imported state IS `s`, except that every
                          epoch's start height is the import height and the provision is recomputed;
* `export_init_export`    the import is accepted and `export (init (export s)) ≈ export s` (≈ ignores only
                          `CurrentEpochStartHeight`; the theorem also gives the exact second export);
* `export_validates`      every module's `validate (export s) = true`;
* `queries_agree`         every modelled query except the provision answers identically on the imported state;
* `reimport_inv`          the imported state satisfies `Inv` again (the round trip can be iterated);
* `roundtrip_monitors`    every C18 monitor of `Spec/Genesis.lean` holds on the model's transition.

**Partial towards the property (`_partial` items, full statement kept here):** the property speaks of the JSON the
chain exports and of every reachable chain state. (1) *Encoding level*: the model works on structured records; the
protobuf/JSON encodings (nil vs empty lists, decimal strings, Any-packing) and the SDK modules' own genesis (bank,
auth, evm: pool reserves, escrow accounts, contract code and storage) are not modelled — `export_init_export` is
therefore `export_init_export_partial` with respect to the property; they are exercised only by the correspondence
(real `ExportAppStateAndValidators` → `InitChain` → export on generated histories, byte-level). (2) *Reachability*:
`Inv` is shown to hold again after every import (`reimport_inv`) and is checked on every exported state of the run
by the driver (the model's `validate`, `init`, `export` and predicted raw store keys are compared with the
implementation's); that every message handler preserves it is the subject of C01 / C15 / C16 / C12 / C13 / C17.
-/
namespace CV
namespace Genesis

open CV.Coinswap (validDenom)

/-- the second export: the first one with every epoch's start height replaced by the import height -/
def reexport (env : Env) (ctx : Ctx) (s : State) : Gen :=
  { exportAll env s with ep := { epochs := s.ep.epochs.map (setHeight ctx.height) } }

theorem exportAll_reimport (env : Env) (ctx : Ctx) (s : State) : exportAll env (reimport env ctx s) = reexport env ctx s := by
  simp [exportAll, reimport, reexport, epExport, infExport]

theorem reexport_eqv (env : Env) (ctx : Ctx) (s : State) : (reexport env ctx s).eqv (exportAll env s) = true := by
  simp [Gen.eqv, clearHeights, reexport, exportAll, epExport, setHeight, List.map_map, Function.comp_def]

/-- **Export, import, export is a fixed point** (model level; see the header for what is partial). -/
theorem export_init_export {env : Env} (ctx : Ctx) {s : State} (h : Inv env s) :
    ∃ s', initAll env ctx (exportAll env s) = .ok s' ∧
          exportAll env s' = reexport env ctx s ∧
          (exportAll env s').eqv (exportAll env s) = true :=
  ⟨reimport env ctx s, init_export ctx h, exportAll_reimport env ctx s, by rw [exportAll_reimport]; exact reexport_eqv env ctx s⟩

/-- the name under which the manifest lists it: partial at the encoding level (header, item 1) -/
theorem export_init_export_partial {env : Env} (ctx : Ctx) {s : State} (h : Inv env s) :
    ∃ s', initAll env ctx (exportAll env s) = .ok s' ∧ (exportAll env s').eqv (exportAll env s) = true := by
  obtain ⟨s', h1, _, h3⟩ := export_init_export ctx h
  exact ⟨s', h1, h3⟩

/-- **The export passes every module's own genesis validation.** -/
theorem export_validates {env : Env} {s : State} (h : Inv env s) : validateAll env (exportAll env s) = true := by
  have h4 : obValidate (obExport s.ob) = true := h.ob
  have h5 : infValidate (infExport s.inf) = true := h.inf
  simp [validateAll, validateEach, exportAll, cs_export_validates h.cs, erc20_export_validates h.erc20,
    csr_export_validates h.csr, ep_export_validates h.ep, gsValidate, h4, h5]

theorem answer_reimport {env : Env} (ctx : Ctx) (s : State) (q : Query) (hq : q.exempt = false) :
    answer env (reimport env ctx s) q = answer env s q := by
  cases q <;> simp [answer, reimport, Query.exempt] at hq ⊢
  · -- epochInfos
    simp [setHeight]
  · -- currentEpoch
    rename_i id
    rw [lookBy_map epochKey (setHeight ctx.height) (fun _ => rfl)]
    cases lookBy epochKey (strBytes id) s.ep.epochs <;> simp [setHeight]

/-- **The re-imported chain answers every modelled query identically, the recomputed provision exempt.** -/
theorem queries_agree {env : Env} (ctx : Ctx) {s s' : State} (h : Inv env s)
    (hi : initAll env ctx (exportAll env s) = .ok s') (q : Query) (hq : q.exempt = false) :
    answer env s' q = answer env s q := by
  rw [init_export ctx h] at hi
  injection hi with hi
  subst hi
  exact answer_reimport ctx s q hq

/-- the provision, the one exempt value, is exactly what the import recomputes from exported data and the bonded ratio -/
theorem provision_recomputed {env : Env} (ctx : Ctx) {s s' : State} (h : Inv env s)
    (hi : initAll env ctx (exportAll env s) = .ok s') :
    s'.inf.provision = infProvision env ctx s.inf.params s.inf.period s.inf.epp := by
  rw [init_export ctx h] at hi
  injection hi with hi
  subst hi
  rfl

/-- **The imported state satisfies the invariants again**: the round trip can be repeated any number of times. -/
theorem reimport_inv {env : Env} (ctx : Ctx) (hh : 0 ≤ ctx.height) {s : State} (h : Inv env s) : Inv env (reimport env ctx s) where
  cs := h.cs
  erc20 := h.erc20
  csr := h.csr
  gs := h.gs
  ob := h.ob
  ep := { sorted := sortedBy_map (f := setHeight ctx.height) (fun _ => rfl) h.ep.sorted
          ok := by
            intro e he
            obtain ⟨e0, he0, rfl⟩ := List.mem_map.mp he
            obtain ⟨a, b, c, _, d⟩ := h.ep.ok e0 he0
            exact ⟨a, b, c, hh, d⟩ }
  inf := h.inf

/-- iterating the round trip `n` times in contexts `ctxs` never leaves the invariant and never changes the export (up to ≈) -/
theorem roundtrip_iterate {env : Env} {s : State} (h : Inv env s) :
    ∀ (ctxs : List Ctx), (∀ c ∈ ctxs, 0 ≤ c.height) →
      Inv env (ctxs.foldl (fun st c => reimport env c st) s) ∧
      (exportAll env (ctxs.foldl (fun st c => reimport env c st) s)).eqv (exportAll env s) = true := by
  intro ctxs
  induction ctxs generalizing s with
  | nil => intro _; exact ⟨h, by simp [Gen.eqv]⟩
  | cons c cs ih =>
    intro hc
    have h1 := reimport_inv c (hc c (List.mem_cons_self ..)) h
    obtain ⟨hi, he⟩ := ih h1 (fun x hx => hc x (List.mem_cons_of_mem _ hx))
    refine ⟨hi, ?_⟩
    simp only [List.foldl_cons]
    have e1 := reexport_eqv env c s
    rw [← exportAll_reimport] at e1
    simp only [Gen.eqv, beq_iff_eq] at he e1 ⊢
    rw [he, e1]

/-- **Link to the monitors**: on the model's own round-trip transition every C18 monitor holds. -/
theorem roundtrip_monitors {env : Env} (ctx : Ctx) {s : State} (h : Inv env s) (qs : List Query) :
    ∀ m ∈ Spec.monitors, m.2.2 (Spec.modelTr env ctx s qs) = true := by
  have hq : (qs.all fun q => q.exempt || answer env (reimport env ctx s) q == answer env s q) = true := by
    rw [List.all_eq_true]
    intro q _
    cases hx : q.exempt with
    | true => simp
    | false => simp [answer_reimport ctx s q hx]
  have hv := export_validates h
  have he := reexport_eqv env ctx s
  intro m hm
  simp only [Spec.monitors, List.mem_cons, List.mem_nil_iff, or_false] at hm
  rcases hm with rfl | rfl | rfl | rfl | rfl | rfl <;>
    simp [Spec.modelTr, init_export ctx h, Spec.importAccepted, Spec.fixpointPure, Spec.fixpointBlock, Spec.exportValidates,
      Spec.queriesAgree, Spec.kvPreserved, Spec.Cmp.good, hq, exportAll_reimport, he] <;>
    simpa [validateAll] using hv

/-! ## non-vacuity: a concrete state with two pools, a token pair, a CSR with two contracts, both addresses deployed,
two epochs and a non-zero period satisfies the hypotheses, and its round trip really changes what it may change -/

def tsB : Bytes := List.replicate 19 0 ++ [7]
def portB : Bytes := List.replicate 19 0 ++ [9]

def env0 : Env :=
  { pairId := fun a d => strBytes (a ++ "|" ++ d),
    validAddr := fun a => a == "canto1aaa" || a == "canto1bbb",
    hexBytes := fun s => if s == "0xT" then tsB else if s == "0xP" then portB else [],
    hexString := fun b => if b == tsB then "0xT" else if b == portB then "0xP" else "",
    calcProvision := fun a _ _ _ _ period _ ratio => a + period + ratio }

def s0 : State :=
  { cs := { params := { fee := 3000000000000000, taxRate := 0, feeCoin := ⟨"acanto", 1000⟩, maxStd := 10, maxSwap := [⟨"abtc", 5⟩] },
            std := "acanto", seq := 3,
            pools := [⟨"pool-abtc", "acanto", "abtc", "canto1aaa", "lpt-2"⟩, ⟨"pool-ausdc", "acanto", "ausdc", "canto1bbb", "lpt-1"⟩],
            lptIdx := [("lpt-1", "pool-ausdc"), ("lpt-2", "pool-abtc")] },
    erc20 := { enableErc20 := true, enableHook := false,
               pairs := [⟨"0x80b5a32E4F032B2a058b4F29EC95EEfEEB87aDcd", "aeth", true, 1⟩],
               aix := [(List.replicate 20 5, [1, 2])], dix := [("aeth", [1, 2])] },
    csr := { enable := true, shares := 200000000000000000,
             csrs := [⟨256, ["0xC3"], 0, 0⟩, ⟨1, ["0xC1", "0xC2"], 2, 77⟩],   -- little-endian keys: 256 sorts before 1
             cidx := [("0xC1", 1), ("0xC2", 1), ("0xC3", 256)], turnstile := some tsB },
    gs := { port := some portB },
    ob := { enable := true, threshold := 4, channels := ["channel-0"] },
    ep := { epochs := [⟨"day", 5, 7, 3, 19, true, 14⟩, ⟨"week", 1, 31, 1, 1, true, 10⟩] },
    inf := { params := ⟨"acanto", 16, 350000000000000000, 0, 800000000000000000, 0, 1000000000000000000, 0, true⟩,
             period := 2, epochId := "day", epp := 3, skipped := 1, provision := 999 } }

def ctx0 : Ctx := { height := 15, time := 100, bondedRatio := 5 }

example : Inv env0 s0 where
  cs := { sorted := by unfold SortedBy; decide +kernel
          idx := by decide +kernel
          lptNodup := by decide +kernel
          poolOk := by
            intro p hp
            simp only [s0, List.mem_cons, List.mem_nil_iff, or_false] at hp
            rcases hp with rfl | rfl <;> exact ⟨by decide +kernel, by decide, by decide, by decide⟩
          seq := by decide +kernel
          std := by decide
          params := by decide }
  erc20 := { pairsSorted := by unfold SortedBy; decide +kernel
             dixSorted := by unfold SortedBy; decide +kernel
             aixSorted := by unfold SortedBy; decide +kernel
             aixLen := by decide
             addrNodup := by decide +kernel
             denomNodup := by decide +kernel
             pairOk := by
               intro p hp
               simp only [s0, List.mem_cons, List.mem_nil_iff, or_false] at hp
               subst hp
               exact ⟨by decide, by decide⟩ }
  csr := { sorted := by unfold SortedBy; decide +kernel
           idx := by decide +kernel
           shares := by decide
           ts := by
             intro b hb
             simp only [s0, Option.some.injEq] at hb
             subst hb
             exact ⟨by decide +kernel, by decide +kernel⟩ }
  gs := by
    intro b hb
    simp only [s0, Option.some.injEq] at hb
    subst hb
    exact ⟨by decide +kernel, by decide +kernel⟩
  ob := by show obValidate _ = true; decide
  ep := { sorted := by unfold SortedBy; decide +kernel
          ok := by
            intro e he
            simp only [s0, List.mem_cons, List.mem_nil_iff, or_false] at he
            rcases he with rfl | rfl <;> exact ⟨by decide, by decide, by decide, by decide, by decide⟩ }
  inf := by show infValidate _ = true; decide

/-- the round trip of `s0` is not the identity: the heights and the provision do change, everything else does not -/
example : (reimport env0 ctx0 s0).ep.epochs.map (·.height) = [15, 15] ∧ (reimport env0 ctx0 s0).inf.provision = 23 ∧
    (reimport env0 ctx0 s0).cs = s0.cs ∧ exportAll env0 (reimport env0 ctx0 s0) ≠ exportAll env0 s0 := by
  refine ⟨by decide +kernel, by decide +kernel, rfl, by decide +kernel⟩

/-- … and dropping one invariant makes the conclusion fail: with a wrong `sequence` the import panics, with a missing
index entry the imported state differs from the original -/
example : (match initAll env0 ctx0 (exportAll env0 { s0 with cs := { s0.cs with seq := 5 } }) with
    | .error _ => true | .ok _ => false) = true := by decide +kernel
example : (match initAll env0 ctx0 (exportAll env0 { s0 with cs := { s0.cs with lptIdx := [("lpt-1", "pool-ausdc")] } }) with
    | .ok s' => s' != reimport env0 ctx0 { s0 with cs := { s0.cs with lptIdx := [("lpt-1", "pool-ausdc")] } }
    | .error _ => false) = true := by decide +kernel

end Genesis
end CV
