import CantoVerif.Spec.Coinswap
import CantoVerif.Proofs.CoinswapWF
import CantoVerif.Spec.CoinswapExamples
/-!
# C08 — user-set limits, deadlines and quoted amounts are honoured exactly.

Every statement is about a *successful* message of the model; together with the explicit effect
list (`swapEffs`, `addEffs`, `removeEffs`) and `Bank.applyAll_flow` they determine every balance
change.  Amount statements are on the code's integer formulas; "within one unit, in the pool's
favour" is stated with the exact rational value cross-multiplied.
-/
namespace CV
namespace Coinswap

/-! ## deadline -/

/-- for an int64 deadline, "not past" means: the block second is before the deadline second, or it
is the deadline second with zero nanoseconds.  `time.Unix`'s wrap-around for huge deadlines only
ever rejects. -/
theorem notPast_of_not_pastDeadline (nowSec nowNsec : Nat) (deadline : Int)
    (hdl : deadline < 9223372036854775808) (hpos : 0 < deadline)
    (h : pastDeadline nowSec nowNsec deadline = false) :
    (nowSec : Int) < deadline ∨ ((nowSec : Int) = deadline ∧ nowNsec = 0) := by
  unfold pastDeadline wrap64 unixToInternal at h
  simp only [Bool.or_eq_false_iff, Bool.and_eq_false_iff, decide_eq_false_iff_not, Int.not_lt] at h
  obtain ⟨h1, h2⟩ := h
  omega

theorem deadline_respected {env : Env} {s s' : State} {op : Op} {r : Resp} (h : step env s op = .ok (s', r))
    (dl : Int) (hop : Spec.opDeadline op = some dl) (hdl : dl < 9223372036854775808) :
    (s.nowSec : Int) < dl ∨ ((s.nowSec : Int) = dl ∧ s.nowNsec = 0) := by
  cases op with
  | swap m =>
    obtain ⟨F⟩ := swap_ok h
    simp only [Spec.opDeadline, Option.some.injEq] at hop; subst hop
    exact notPast_of_not_pastDeadline _ _ _ hdl F.dlPos F.notExpired
  | add m =>
    obtain ⟨F⟩ := add_ok h
    simp only [Spec.opDeadline, Option.some.injEq] at hop; subst hop
    exact notPast_of_not_pastDeadline _ _ _ hdl F.dlPos F.notExpired
  | remove m =>
    obtain ⟨F⟩ := remove_ok h
    simp only [Spec.opDeadline, Option.some.injEq] at hop; subst hop
    exact notPast_of_not_pastDeadline _ _ _ hdl F.dlPos F.notExpired
  | send _ _ _ _ => simp [Spec.opDeadline] at hop
  | autoSwap _ _ _ _ => simp [Spec.opDeadline] at hop
  | setParams _ => simp [Spec.opDeadline] at hop
  | setTime _ _ => simp [Spec.opDeadline] at hop

/-! ## swaps -/

/-- **Sell order**: exactly the stated input is taken, at least the stated minimum is delivered,
and the delivered amount is the exact constant-product-with-fee value rounded down
(`bought ≤ in·δ·Y/(X·10^18 + in·δ) < bought + 1`, cross-multiplied). -/
theorem sell_exact_in_min_out {env : Env} {s s' : State} {m : MsgSwap} {r : Resp}
    (h : swap env s m = .ok (s', r)) (hsell : m.isBuy = false) :
    ∃ (bought : Nat) (esc : Addr),
      s.bank.applyAll (swapEffs m.inAddr.bytes m.outAddr.bytes esc m.inDenom m.inAmt.toNat m.outDenom bought) = .ok s'.bank ∧
      m.outAmt.toNat ≤ bought ∧ s.params.fee ≤ S18 ∧
      (let X := s.bank.get esc m.inDenom
       let Y := s.bank.get esc m.outDenom
       let a := m.inAmt.toNat
       let df := S18 - s.params.fee
       bought * (X * S18 + a * df) ≤ a * df * Y ∧ a * df * Y < (bought + 1) * (X * S18 + a * df)) := by
  obtain ⟨F⟩ := swap_ok h
  have ht := F.hTrade; rw [hsell] at ht
  obtain ⟨_, _, hsold, _, _, hp, hmin, _⟩ := trade_sell_ok ht
  obtain ⟨hfee, hne, hb⟩ := inputPrice_ok hp
  have hbank := F.hBank
  rw [decode_ok F.hSender, decode_ok F.hRcpt, hsold] at hbank
  refine ⟨F.bought, F.esc, hbank, hmin, hfee, ?_⟩
  simp only
  rw [hb]
  constructor
  · exact Nat.div_mul_le_self _ _
  · have hpos : 0 < s.bank.get F.esc m.inDenom * S18 + m.inAmt.toNat * (S18 - s.params.fee) := Nat.pos_of_ne_zero hne
    exact Nat.lt_mul_of_div_lt (Nat.lt_succ_self _) hpos

/-- **Buy order**: exactly the stated output is delivered, at most the stated maximum is taken, and
the taken amount is the exact value rounded up (`sold − 1 ≤ X·out·10^18/((Y−out)·δ) < sold`). -/
theorem buy_exact_out_max_in {env : Env} {s s' : State} {m : MsgSwap} {r : Resp}
    (h : swap env s m = .ok (s', r)) (hbuy : m.isBuy = true) :
    ∃ (sold : Nat) (esc : Addr),
      s.bank.applyAll (swapEffs m.inAddr.bytes m.outAddr.bytes esc m.inDenom sold m.outDenom m.outAmt.toNat) = .ok s'.bank ∧
      sold ≤ m.inAmt.toNat ∧ 1 ≤ sold ∧ m.outAmt.toNat < s.bank.get esc m.outDenom ∧ s.params.fee < S18 ∧
      (let X := s.bank.get esc m.inDenom
       let Y := s.bank.get esc m.outDenom
       let out := m.outAmt.toNat
       let df := S18 - s.params.fee
       (sold - 1) * ((Y - out) * df) ≤ X * out * S18 ∧ X * out * S18 < sold * ((Y - out) * df)) := by
  obtain ⟨F⟩ := swap_ok h
  have ht := F.hTrade; rw [hbuy] at ht
  obtain ⟨_, _, hbought, _, _, hlt, hp, hmax, _⟩ := trade_buy_ok ht
  obtain ⟨hfee, _, hne, hs⟩ := outputPrice_ok hp
  have hbank := F.hBank
  rw [decode_ok F.hSender, decode_ok F.hRcpt, hbought] at hbank
  have hfeelt : s.params.fee < S18 := by
    rcases Nat.lt_or_ge s.params.fee S18 with h1 | h1
    · exact h1
    · have : S18 - s.params.fee = 0 := by omega
      rw [this] at hne; simp at hne
  refine ⟨F.sold, F.esc, hbank, hmax, by rw [hs]; exact Nat.le_add_left 1 _, hlt, hfeelt, ?_⟩
  simp only
  rw [hs]
  have hpos : 0 < (s.bank.get F.esc m.outDenom - m.outAmt.toNat) * (S18 - s.params.fee) := Nat.pos_of_ne_zero hne
  constructor
  · simp only [Nat.add_sub_cancel]; exact Nat.div_mul_le_self _ _
  · exact Nat.lt_mul_of_div_lt (Nat.lt_succ_self _) hpos

/-! ## additions -/

/-- **Addition**: at most the stated token and standard-coin amounts enter the pool, at least the
stated minimum liquidity is minted, the response names exactly the minted amount; on a pool that
has liquidity the amounts are the pro-rata values rounded in the pool's favour
(`mint ≤ L·s/X < mint+1`, `deposit − 1 ≤ Y·s/X < deposit`). -/
theorem add_bounds {env : Env} {s s' : State} {m : MsgAdd} {r : Resp} (h : add env s m = .ok (s', r)) :
    ∃ (plan : AddPlan),
      s.bank.applyAll (plan.feeEffs ++ addEffs env m.sender.bytes plan.pool.escrow s.std plan.stdIn m.tokDenom plan.tokIn
        plan.pool.lpt plan.mint) = .ok s'.bank ∧
      r = .add plan.pool.lpt plan.mint ∧
      plan.tokIn ≤ m.maxToken.toNat ∧ plan.stdIn ≤ m.exact.toNat ∧ m.minLiq.toNat ≤ plan.mint ∧
      (plan.branch ≠ .live → plan.stdIn = m.exact.toNat ∧ plan.tokIn = m.maxToken.toNat ∧ plan.mint = m.exact.toNat) ∧
      (plan.branch = .live →
        let X := s.bank.get plan.pool.escrow s.std
        let Y := s.bank.get plan.pool.escrow m.tokDenom
        let L := s.bank.supply plan.pool.lpt
        0 < X ∧ plan.mint * X ≤ L * plan.stdIn ∧ L * plan.stdIn < (plan.mint + 1) * X ∧
        1 ≤ plan.tokIn ∧ (plan.tokIn - 1) * X ≤ Y * plan.stdIn ∧ Y * plan.stdIn < plan.tokIn * X) := by
  obtain ⟨F⟩ := add_ok h
  obtain ⟨_, _, PF⟩ := planAdd_ok F.hPlan
  have hb := F.hBank
  rw [decode_ok F.hSender] at hb
  refine ⟨F.plan, hb, F.hResp, ?_⟩
  cases PF with
  | create tax esc hNone hTax hTaxLe hCap hMin hEsc hPlan =>
    rw [hPlan]; exact ⟨Nat.le_refl _, Nat.le_refl _, hMin, fun _ => ⟨rfl, rfl, rfl⟩, fun hc => by cases hc⟩
  | refill pool hSome hAcct hL hCap hMin hPlan =>
    rw [hPlan]; exact ⟨Nat.le_refl _, Nat.le_refl _, hMin, fun _ => ⟨rfl, rfl, rfl⟩, fun hc => by cases hc⟩
  | live pool stdIn mint deposit hSome hAcct hL hRoom hAmts hMin hMax hPlan =>
    rw [hPlan]
    obtain ⟨_, hX0, hsd, hm, hd⟩ := addLiveAmounts_ok hAmts
    have hXpos : 0 < s.bank.get pool.escrow s.std := Nat.pos_of_ne_zero hX0
    refine ⟨hMax, by simp only; rw [hsd]; exact Nat.min_le_left _ _, hMin, fun hc => absurd rfl hc, fun _ => ?_⟩
    simp only
    refine ⟨hXpos, ?_, ?_, ?_, ?_, ?_⟩
    · rw [hm]; exact Nat.div_mul_le_self _ _
    · rw [hm]; exact Nat.lt_mul_of_div_lt (Nat.lt_succ_self _) hXpos
    · rw [hd]; exact Nat.le_add_left 1 _
    · rw [hd]; simp only [Nat.add_sub_cancel]; exact Nat.div_mul_le_self _ _
    · rw [hd]; exact Nat.lt_mul_of_div_lt (Nat.lt_succ_self _) hXpos

/-! ## removals -/

/-- **Removal**: exactly the stated pool tokens are burned, at least both stated minimums are paid,
the paid amounts are the pro-rata values rounded down, and the response lists exactly the coins
paid (`sdk.NewCoins`: sorted by denomination, zero coins dropped). -/
theorem remove_bounds {env : Env} {s s' : State} {m : MsgRemove} {r : Resp} (h : remove env s m = .ok (s', r)) :
    ∃ (pool : Pool) (a b : Nat), s.poolByLpt m.lptDenom = some pool ∧
      s.bank.applyAll (removeEffs env m.sender.bytes pool.escrow pool.lpt m.withdraw.toNat s.std a pool.counter b) = .ok s'.bank ∧
      r = .remove (newCoins2 (s.std, a) (pool.counter, b)) ∧
      m.minStd.toNat ≤ a ∧ m.minToken.toNat ≤ b ∧
      (let X := s.bank.get pool.escrow s.std
       let Y := s.bank.get pool.escrow pool.counter
       let L := s.bank.supply pool.lpt
       let w := m.withdraw.toNat
       0 < L ∧ w ≤ L ∧ a * L ≤ w * X ∧ w * X < (a + 1) * L ∧ b * L ≤ w * Y ∧ w * Y < (b + 1) * L) := by
  obtain ⟨F⟩ := remove_ok h
  obtain ⟨hL0, ha, hb⟩ := removeAmounts_ok F.hAmts
  have hbank := F.hBank
  rw [decode_ok F.hSender] at hbank
  have hLpos : 0 < s.bank.supply F.pool.lpt := Nat.pos_of_ne_zero hL0
  refine ⟨F.pool, F.stdOut, F.tokOut, F.hPool, hbank, F.hResp, F.minStdMet, F.minTokMet, ?_⟩
  simp only
  refine ⟨hLpos, F.wLe, ?_, ?_, ?_, ?_⟩
  · rw [ha]; exact Nat.div_mul_le_self _ _
  · rw [ha]; exact Nat.lt_mul_of_div_lt (Nat.lt_succ_self _) hLpos
  · rw [hb]; exact Nat.div_mul_le_self _ _
  · rw [hb]; exact Nat.lt_mul_of_div_lt (Nat.lt_succ_self _) hLpos

/-! ## just met / just missed -/

/-- a minimum-output bound one above the computed amount is rejected, the computed amount itself is accepted
(the guard is the comparison `computed < bound`, nothing else) -/
theorem sell_bound_tight {env : Env} {s : State} {dIn dOut : Denom} {aIn aOut sold bought : Nat} {esc : Addr}
    (h : trade env s dIn aIn dOut aOut false = .ok (sold, bought, esc)) :
    trade env s dIn aIn dOut bought false = .ok (sold, bought, esc) ∧
    ∃ e, trade env s dIn aIn dOut (bought + 1) false = .error e := by
  obtain ⟨p, hpf, hs, hX, hY, hp, hmin, hmax⟩ := trade_sell_ok h
  constructor
  · simp only [trade, Bool.false_eq_true, if_false, hpf, bind, Except.bind, ensure, hX, hY, decide_true, if_true, hp,
      Nat.le_refl, hmax, hs]
  · refine ⟨.constraint "min output", ?_⟩
    have : ¬ (bought + 1 ≤ bought) := by omega
    simp only [trade, Bool.false_eq_true, if_false, hpf, bind, Except.bind, ensure, hX, hY, decide_true, if_true, hp,
      this, decide_false]


/-! ## the executable deadline predicate the driver evaluates holds of every model transition -/

open Spec in
theorem deadline_monitor {env : Env} {s s' : State} {op : Op} {r : Resp} (h : step env s op = .ok (s', r))
    (hdl : ∀ dl, opDeadline op = some dl → dl < 9223372036854775808) :
    c08_deadline { env := env, pre := s, op := op, ok := true, resp := r, post := s' } = true := by
  unfold c08_deadline
  cases hop : opDeadline op with
  | none => simp
  | some dl =>
    have := deadline_respected h dl hop (hdl dl hop)
    simp only [Bool.not_true, Bool.false_or, notPast, Bool.or_eq_true, Bool.and_eq_true, decide_eq_true_eq, beq_iff_eq]
    rcases this with h1 | ⟨h1, h2⟩
    · exact Or.inl h1
    · exact Or.inr ⟨h1, h2⟩

/-! ## non-vacuity: each kind of message succeeds on a concrete non-trivial state -/

/-- **Delivery.**  What a successful swap order moves, exactly, when neither party is the pool's
escrow: the stated recipient's balance of the output coin rises by what the pool paid, the payer's
balance of the input coin falls by what the pool received (and `sell_exact_in_min_out` /
`buy_exact_out_max_in` bound those two amounts). -/
theorem swap_delivered {env : Env} {s s' : State} {m : MsgSwap} {r : Resp} (h : swap env s m = .ok (s', r)) :
    ∃ (sold bought : Nat) (esc : Addr) (p : Pool),
      s.poolByCounter (counterOf s.std m.inDenom m.outDenom) = some p ∧ env.reserve p.lpt = .ok esc ∧
      (m.inAddr.bytes ≠ esc → m.outAddr.bytes ≠ esc →
        s'.bank.get esc m.inDenom = s.bank.get esc m.inDenom + sold ∧
        s'.bank.get esc m.outDenom + bought = s.bank.get esc m.outDenom ∧
        s'.bank.get m.outAddr.bytes m.outDenom = s.bank.get m.outAddr.bytes m.outDenom + bought ∧
        s'.bank.get m.inAddr.bytes m.inDenom + sold = s.bank.get m.inAddr.bytes m.inDenom) := by
  obtain ⟨F⟩ := swap_ok h
  have hpool : ∃ p, s.poolByCounter (counterOf s.std m.inDenom m.outDenom) = some p ∧ env.reserve p.lpt = .ok F.esc := by
    cases hb : m.isBuy with
    | false =>
      have ht := F.hTrade; rw [hb] at ht
      obtain ⟨q, hpf, _⟩ := trade_sell_ok ht
      obtain ⟨_, _, hfind, hres, _⟩ := poolFor_ok hpf
      exact ⟨q, hfind, hres⟩
    | true =>
      have ht := F.hTrade; rw [hb] at ht
      obtain ⟨q, hpf, _⟩ := trade_buy_ok ht
      obtain ⟨hne, _, hfind, hres, _⟩ := poolFor_ok hpf
      refine ⟨q, ?_, hres⟩
      have : counterOf s.std m.inDenom m.outDenom = counterOf s.std m.outDenom m.inDenom := by
        unfold counterOf
        rcases F.oneStd with h1 | h1
        · have : m.outDenom ≠ s.std := fun e => F.denomsNe (h1.trans e.symm)
          simp [h1, this]
        · have : m.inDenom ≠ s.std := fun e => F.denomsNe (e.trans h1.symm)
          simp [h1, this]
      rw [this]; exact hfind
  obtain ⟨q, hq, hqres⟩ := hpool
  refine ⟨F.sold, F.bought, F.esc, q, hq, hqres, ?_⟩
  intro h1 h2
  have hbank := F.hBank
  rw [decode_ok F.hSender, decode_ok F.hRcpt] at hbank
  exact swapEffs_exact hbank h1 h2 F.denomsNe

open Spec in
/-- the executable predicate the driver evaluates on implementation transitions holds of every
successful swap of the model -/
theorem swap_delivered_monitor {env : Env} {s s' : State} {m : MsgSwap} {r : Resp} (hW : WF env s)
    (h : swap env s m = .ok (s', r)) :
    c08_swapDelivered { env := env, pre := s, op := .swap m, ok := true, resp := r, post := s' } = true := by
  obtain ⟨sold, bought, esc, p, hfind, hres, hx⟩ := swap_delivered h
  obtain ⟨hmem, _⟩ := mem_of_poolByCounter hfind
  have hesc : p.escrow = esc := by
    have := hW.reserveOk p hmem
    rw [hres] at this; injection this with this; exact this.symm
  have hfind' : s.poolByCounter (if m.inDenom == s.std then m.outDenom else m.inDenom) = some p := hfind
  simp only [c08_swapDelivered, swapMsgOf, Bool.not_true, Bool.false_or, hfind', hesc]
  by_cases hc : (m.outAddr.bytes == esc || m.inAddr.bytes == esc) = true
  · simp only [hc, if_true]
  · simp only [hc]
    simp only [Bool.or_eq_true, beq_iff_eq, not_or] at hc
    obtain ⟨a1, a2, a3, a4⟩ := hx hc.2 hc.1
    simp only [gain, loss, Bool.false_eq_true, if_false, Bool.and_eq_true, beq_iff_eq]
    constructor
    · rw [a3]; omega
    · rw [a1]; omega

/-- everything about a successful swap order in one statement (one set of witnesses): the pool, the
effect list, and per order kind the user's bounds and the rounding of the executed amounts -/
theorem swap_full {env : Env} {s s' : State} {m : MsgSwap} {r : Resp} (h : swap env s m = .ok (s', r)) :
    ∃ (sold bought : Nat) (esc : Addr) (p : Pool),
      s.poolByCounter (counterOf s.std m.inDenom m.outDenom) = some p ∧ env.reserve p.lpt = .ok esc ∧
      s.bank.applyAll (swapEffs m.inAddr.bytes m.outAddr.bytes esc m.inDenom sold m.outDenom bought) = .ok s'.bank ∧
      m.inDenom ≠ m.outDenom ∧
      (m.isBuy = false → sold = m.inAmt.toNat ∧ m.outAmt.toNat ≤ bought ∧
        (let X := s.bank.get esc m.inDenom
         let Y := s.bank.get esc m.outDenom
         let df := S18 - s.params.fee
         bought * (X * S18 + sold * df) ≤ sold * df * Y ∧ sold * df * Y < (bought + 1) * (X * S18 + sold * df))) ∧
      (m.isBuy = true → bought = m.outAmt.toNat ∧ sold ≤ m.inAmt.toNat ∧ 1 ≤ sold ∧
        (let X := s.bank.get esc m.inDenom
         let Y := s.bank.get esc m.outDenom
         let df := S18 - s.params.fee
         (sold - 1) * ((Y - bought) * df) ≤ X * bought * S18 ∧ X * bought * S18 < sold * ((Y - bought) * df))) := by
  obtain ⟨F⟩ := swap_ok h
  have hbank := F.hBank
  rw [decode_ok F.hSender, decode_ok F.hRcpt] at hbank
  cases hb : m.isBuy with
  | false =>
    have ht := F.hTrade; rw [hb] at ht
    obtain ⟨q, hpf, hsold, _, _, hp, hmin, _⟩ := trade_sell_ok ht
    obtain ⟨_, _, hfind, hres, _⟩ := poolFor_ok hpf
    obtain ⟨hfee, hne, hbt⟩ := inputPrice_ok hp
    refine ⟨F.sold, F.bought, F.esc, q, hfind, hres, hbank, F.denomsNe, ?_, ?_⟩
    · intro _
      refine ⟨hsold, hmin, ?_⟩
      simp only
      rw [hsold, hbt]
      constructor
      · exact Nat.div_mul_le_self _ _
      · have hpos : 0 < s.bank.get F.esc m.inDenom * S18 + m.inAmt.toNat * (S18 - s.params.fee) := Nat.pos_of_ne_zero hne
        exact Nat.lt_mul_of_div_lt (Nat.lt_succ_self _) hpos
    · intro hx; cases hx
  | true =>
    have ht := F.hTrade; rw [hb] at ht
    obtain ⟨q, hpf, hbought, _, _, hlt, hp, hmax, _⟩ := trade_buy_ok ht
    obtain ⟨hne', _, hfind, hres, _⟩ := poolFor_ok hpf
    obtain ⟨hfee, _, hne, hs⟩ := outputPrice_ok hp
    have hc : counterOf s.std m.inDenom m.outDenom = counterOf s.std m.outDenom m.inDenom := by
      unfold counterOf
      rcases F.oneStd with h1 | h1
      · have : m.outDenom ≠ s.std := fun e => F.denomsNe (h1.trans e.symm)
        simp [h1, this]
      · have : m.inDenom ≠ s.std := fun e => F.denomsNe (e.trans h1.symm)
        simp [h1, this]
    have hfind2 : s.poolByCounter (counterOf s.std m.inDenom m.outDenom) = some q := by rw [hc]; exact hfind
    refine ⟨F.sold, F.bought, F.esc, q, hfind2, hres, hbank, F.denomsNe, ?_, ?_⟩
    · intro hx; cases hx
    · intro _
      have h1 : 1 ≤ F.sold := by rw [hs]; exact Nat.le_add_left 1 _
      refine ⟨hbought, hmax, h1, ?_⟩
      simp only
      rw [hs, hbought]
      have hpos : 0 < (s.bank.get F.esc m.outDenom - m.outAmt.toNat) * (S18 - s.params.fee) := Nat.pos_of_ne_zero hne
      constructor
      · simp only [Nat.add_sub_cancel]; exact Nat.div_mul_le_self _ _
      · exact Nat.lt_mul_of_div_lt (Nat.lt_succ_self _) hpos

open Spec in
/-- the executable predicates `swap_bounds` and `swap_rounding` the driver evaluates on implementation
transitions hold of every successful swap of the model (payer not a pool's escrow) -/
theorem swap_bounds_rounding_monitor {env : Env} {s s' : State} {m : MsgSwap} {r : Resp} (hW : WF env s)
    (hS : SignerOK s (.swap m)) (h : swap env s m = .ok (s', r)) :
    c08_swapBounds { env := env, pre := s, op := .swap m, ok := true, resp := r, post := s' } = true ∧
    c08_swapRounding { env := env, pre := s, op := .swap m, ok := true, resp := r, post := s' } = true := by
  obtain ⟨sold, bought, esc, p, hfind, hres, hbank, hne, hsell, hbuy⟩ := swap_full h
  obtain ⟨hmem, _⟩ := mem_of_poolByCounter hfind
  have hesc : p.escrow = esc := by
    have := hW.reserveOk p hmem
    rw [hres] at this; injection this with this; exact this.symm
  have hin : m.inAddr.bytes ≠ esc := by
    rw [← hesc]; exact hS m.inAddr.bytes rfl p hmem
  have hfind' : s.poolByCounter (if m.inDenom == s.std then m.outDenom else m.inDenom) = some p := hfind
  simp only [c08_swapBounds, c08_swapRounding, swapMsgOf, Bool.not_true, Bool.false_or, hfind', hesc]
  by_cases hc : (m.outAddr.bytes == esc) = true
  · simp only [hc, if_true, and_self]
  · simp only [hc]
    simp only [beq_iff_eq] at hc
    obtain ⟨a1, a2, _, _⟩ := swapEffs_exact hbank hin hc hne
    have hg : gain { env := env, pre := s, op := Op.swap m, ok := true, resp := r, post := s' } esc m.inDenom = sold := by
      simp only [gain]; rw [a1]; omega
    have hl : loss { env := env, pre := s, op := Op.swap m, ok := true, resp := r, post := s' } esc m.outDenom = bought := by
      simp only [loss]; omega
    simp only [Bool.false_eq_true, if_false, hg, hl]
    cases hb : m.isBuy with
    | false =>
      obtain ⟨e1, e2, e3, e4⟩ := hsell hb
      simp only [Bool.false_eq_true, if_false, Bool.and_eq_true, beq_iff_eq, decide_eq_true_eq]
      exact ⟨⟨e1, e2⟩, e3, e4⟩
    | true =>
      obtain ⟨e1, e2, e3, e4, e5⟩ := hbuy hb
      simp only [if_true, Bool.and_eq_true, beq_iff_eq, decide_eq_true_eq]
      exact ⟨⟨e1, e2⟩, ⟨e4, e5⟩, e3⟩

open Spec in
/-- the executable predicate `remove_bounds` the driver evaluates on implementation transitions holds
of every successful removal of the model (provider not a pool's escrow) -/
theorem remove_bounds_monitor {env : Env} {s s' : State} {m : MsgRemove} {r : Resp} (hW : WF env s)
    (hS : SignerOK s (.remove m)) (h : remove env s m = .ok (s', r)) :
    c08_removeBounds { env := env, pre := s, op := .remove m, ok := true, resp := r, post := s' } = true := by
  obtain ⟨pool, a, b, hpool, hbank, hresp, hminS, hminT, hr⟩ := remove_bounds h
  obtain ⟨hmem, _⟩ := mem_of_poolByLpt hpool
  have hse : m.sender.bytes ≠ pool.escrow := hS m.sender.bytes rfl pool hmem
  have hd : s.std ≠ pool.counter := fun e => hW.counterNeStd pool hmem e.symm
  have hls : s.std ≠ pool.lpt := fun e => ne_of_prefix (hW.lptPrefix pool hmem) hW.stdNotLpt e.symm
  have hlt : pool.counter ≠ pool.lpt := fun e => ne_of_prefix (hW.lptPrefix pool hmem) (hW.counterNotLpt pool hmem) e.symm
  obtain ⟨x1, x2, x3⟩ := removeEffs_exact hbank hse hd hls hlt
  simp only at hr
  obtain ⟨_, _, r1, r2, r3, r4⟩ := hr
  subst hresp
  have ha : loss { env := env, pre := s, op := Op.remove m, ok := true, resp := .remove (newCoins2 (s.std, a) (pool.counter, b)), post := s' } pool.escrow s.std = a := by
    simp only [loss]; omega
  have hb : loss { env := env, pre := s, op := Op.remove m, ok := true, resp := .remove (newCoins2 (s.std, a) (pool.counter, b)), post := s' } pool.escrow pool.counter = b := by
    simp only [loss]; omega
  simp only [c08_removeBounds, Bool.not_true, Bool.false_or, hpool, reserves, ha, hb]
  simp only [Bool.and_eq_true, beq_iff_eq, decide_eq_true_eq]
  exact ⟨⟨⟨⟨⟨⟨⟨x3, hminS⟩, hminT⟩, r1⟩, r2⟩, r3⟩, r4⟩, trivial⟩

example : (step exEnv exState exSell).toBool = true := by decide +kernel
example : (step exEnv exState exBuy).toBool = true := by decide +kernel
example : (step exEnv exState exAdd).toBool = true := by decide +kernel
example : (step exEnv exState exRemove).toBool = true := by decide +kernel

end Coinswap
end CV
