import CantoVerif.Spec.Coinswap
import CantoVerif.Proofs.CoinswapWF
import CantoVerif.Proofs.CoinswapArith
import CantoVerif.Spec.CoinswapExamples
/-!
# C01 — liquidity-provider share value is never diluted by any pool operation.

`k_step`: for every well-formed state, every operation of the alphabet (swap in either direction
and of either kind, addition, removal, any bank transfer including donations into an escrow,
parameter change, time step) that succeeds, and every pool `p` of the pre-state that has pool
tokens outstanding before and after, `X·Y/L²` does not decrease (cross-multiplied:
`X·Y·L'² ≤ X'·Y'·L²`).  Unbounded in every quantity; fee anywhere in `[0,1)`.
Rejected operations leave the state unchanged (`exec`), so the statement lifts to all operation
sequences (`k_history`).
-/
namespace CV
namespace Coinswap
open Spec

/-- the statement of C01 for one pool across one transition -/
def KProp (s s' : State) (p : Pool) : Prop :=
  0 < s.bank.supply p.lpt → 0 < s'.bank.supply p.lpt →
  s.bank.get p.escrow s.std * s.bank.get p.escrow p.counter * s'.bank.supply p.lpt ^ 2 ≤
  s'.bank.get p.escrow s.std * s'.bank.get p.escrow p.counter * s.bank.supply p.lpt ^ 2

theorem kProp_of_mono {s s' : State} {p : Pool}
    (hX : s.bank.get p.escrow s.std ≤ s'.bank.get p.escrow s.std)
    (hY : s.bank.get p.escrow p.counter ≤ s'.bank.get p.escrow p.counter)
    (hL : s'.bank.supply p.lpt ≤ s.bank.supply p.lpt) : KProp s s' p :=
  fun _ _ => Arith.k_mono _ _ _ _ _ _ hX hY hL

/-- a successful trade leaves the product of the two reserves of its pool no smaller -/
theorem trade_k {env : Env} {s : State} {dIn dOut : Denom} {aIn aOut sold bought : Nat} {isBuy : Bool} {esc : Addr}
    (h : trade env s dIn aIn dOut aOut isBuy = .ok (sold, bought, esc)) (A' B' : Nat)
    (hA : s.bank.get esc dIn + sold ≤ A') (hB : s.bank.get esc dOut ≤ B' + bought) :
    s.bank.get esc dIn * s.bank.get esc dOut ≤ A' * B' := by
  cases isBuy with
  | false =>
    obtain ⟨p, _, hs, hX, _, hp, _, _⟩ := trade_sell_ok h
    obtain ⟨hfee, _, hb⟩ := inputPrice_ok hp
    subst hs
    have hS : 0 < S18 := by decide
    have key := Arith.sell_k sold (s.bank.get esc dIn) (s.bank.get esc dOut) (S18 - s.params.fee) S18 hX hS (Nat.sub_le _ _)
    unfold Arith.inputPrice at key
    rw [← hb] at key
    exact Nat.le_trans key (Nat.mul_le_mul hA (by omega))
  | true =>
    obtain ⟨p, _, hb, _, _, hlt, hp, _, _⟩ := trade_buy_ok h
    obtain ⟨hfee, _, hne, hs⟩ := outputPrice_ok hp
    subst hb
    have hdf0 : 0 < S18 - s.params.fee := by
      rcases Nat.eq_zero_or_pos (S18 - s.params.fee) with h0 | h0
      · rw [h0] at hne; simp at hne
      · exact h0
    have key := Arith.buy_k bought (s.bank.get esc dIn) (s.bank.get esc dOut) (S18 - s.params.fee) S18 hlt hdf0 (Nat.sub_le _ _)
    unfold Arith.outputPrice at key
    rw [← hs] at key
    exact Nat.le_trans key (Nat.mul_le_mul hA (by omega))

theorem k_swap {env : Env} {s s' : State} {m : MsgSwap} {r : Resp} (hE : EnvOK env) (hW : WF env s)
    (hS : SignerOK s (.swap m)) (h : swap env s m = .ok (s', r)) : ∀ p ∈ s.pools, KProp s s' p := by
  obtain ⟨F⟩ := swap_ok h
  intro p hp
  have hsender := decode_ok F.hSender
  -- the pool traded on
  have hq : ∃ q, q ∈ s.pools ∧ q.escrow = F.esc ∧ q.counter = counterOf s.std m.inDenom m.outDenom := by
    cases hb : m.isBuy with
    | false =>
      have ht := F.hTrade; rw [hb] at ht
      obtain ⟨q, hpf, _⟩ := trade_sell_ok ht
      obtain ⟨_, _, hfind, hres, _⟩ := poolFor_ok hpf
      obtain ⟨hmem, hc⟩ := mem_of_poolByCounter hfind
      have := hW.reserveOk q hmem
      rw [hres] at this; injection this with this
      exact ⟨q, hmem, this.symm, hc⟩
    | true =>
      have ht := F.hTrade; rw [hb] at ht
      obtain ⟨q, hpf, _⟩ := trade_buy_ok ht
      obtain ⟨hne, _, hfind, hres, _⟩ := poolFor_ok hpf
      obtain ⟨hmem, hc⟩ := mem_of_poolByCounter hfind
      have := hW.reserveOk q hmem
      rw [hres] at this; injection this with this
      refine ⟨q, hmem, this.symm, ?_⟩
      rw [hc]
      unfold counterOf
      rcases F.oneStd with h1 | h1
      · have : m.outDenom ≠ s.std := fun e => F.denomsNe (h1.trans e.symm)
        simp [h1, this]
      · have : m.inDenom ≠ s.std := fun e => F.denomsNe (e.trans h1.symm)
        simp [h1, this]
  obtain ⟨q, hqmem, hqesc, hqc⟩ := hq
  have hse : F.sender ≠ F.esc := by
    rw [hsender, ← hqesc]; exact hS _ rfl q hqmem
  obtain ⟨f1, f2, f3, f4, f5⟩ := swapEffs_flow F.hBank hse F.denomsNe
  have hstd : s'.std = s.std := by rw [F.hState]
  by_cases hpq : p = q
  · subst hpq
    intro _ _
    rw [f5 p.lpt]
    have key := trade_k F.hTrade (s'.bank.get F.esc m.inDenom) (s'.bank.get F.esc m.outDenom) f1 f2
    rw [hqesc]
    rcases F.oneStd with h1 | h1
    · have hc : p.counter = m.outDenom := by
        rw [hqc]; unfold counterOf; simp [h1]
      rw [hc, ← h1]
      exact Nat.mul_le_mul_right _ key
    · have hne : m.inDenom ≠ s.std := fun e => F.denomsNe (e.trans h1.symm)
      have hc : p.counter = m.inDenom := by
        rw [hqc]; unfold counterOf; simp [hne]
      rw [hc, ← h1]
      have : s.bank.get F.esc m.outDenom * s.bank.get F.esc m.inDenom ≤
          s'.bank.get F.esc m.outDenom * s'.bank.get F.esc m.inDenom := by
        rw [Nat.mul_comm, Nat.mul_comm (s'.bank.get F.esc m.outDenom)]; exact key
      exact Nat.mul_le_mul_right _ this
  · have hne : p.escrow ≠ F.esc := by rw [← hqesc]; exact hW.escrow_ne hE hp hqmem hpq
    have hns : p.escrow ≠ F.sender := by rw [hsender]; exact fun e => hS _ rfl p hp e.symm
    exact kProp_of_mono (f4 _ _ hns hne) (f4 _ _ hns hne) (Nat.le_of_eq (f5 _))

theorem beq_false_of_ne {a b : String} (h : a ≠ b) : (a == b) = false := by simpa using h

theorem k_add {env : Env} {s s' : State} {m : MsgAdd} {r : Resp} (hE : EnvOK env) (hW : WF env s)
    (hS : SignerOK s (.add m)) (h : add env s m = .ok (s', r)) : ∀ p ∈ s.pools, KProp s s' p := by
  obtain ⟨F⟩ := add_ok h
  intro p hp
  have hsender := decode_ok F.hSender
  have hstd : s'.std = s.std := by rw [F.hState]
  have hps : p.escrow ≠ F.sender := by rw [hsender]; exact fun e => hS _ rfl p hp e.symm
  have hpm := (hW.escrow_ne_mod hE hp).1
  obtain ⟨hstdtok, _, PF⟩ := planAdd_ok F.hPlan
  -- nobody debits the escrow of `p`, whatever branch
  have noDebit : ∀ (fe : List Eff), (fe = [] ∨ ∃ fd fa tax, fe = creationFeeEffs env F.sender fd fa tax) →
      ∀ esc std a tok b lpt mint,
      (fe ++ addEffs env F.sender esc std a tok b lpt mint).all (fun x => !x.debits p.escrow) = true := by
    intro fe hfe esc std a tok b lpt mint
    have e1 := beq_false_of_ne (Ne.symm hps)
    have e2 := beq_false_of_ne (Ne.symm hpm)
    rcases hfe with rfl | ⟨fd, fa, tax, rfl⟩
    · simp [addEffs, Eff.debits, e1, e2]
    · simp [creationFeeEffs, addEffs, Eff.debits, e1, e2]
  -- only the pool's own token is minted
  have noMint : ∀ (fe : List Eff), (fe = [] ∨ ∃ fd fa tax, fe = creationFeeEffs env F.sender fd fa tax) →
      ∀ esc std a tok b lpt mint, lpt ≠ p.lpt →
      (fe ++ addEffs env F.sender esc std a tok b lpt mint).all (fun x => !x.mints p.lpt) = true := by
    intro fe hfe esc std a tok b lpt mint hl
    have e1 := beq_false_of_ne hl
    rcases hfe with rfl | ⟨fd, fa, tax, rfl⟩
    · simp [addEffs, Eff.mints, e1]
    · simp [creationFeeEffs, addEffs, Eff.mints, e1]
  cases PF with
  | create tax esc hNone hTax hTaxLe hCap hMin hEsc hPlan =>
    have hb := F.hBank; rw [hPlan] at hb; simp only at hb
    have hfe : (creationFeeEffs env F.sender s.params.feeDenom s.params.feeAmt tax = [] ∨
        ∃ fd fa t, creationFeeEffs env F.sender s.params.feeDenom s.params.feeAmt tax = creationFeeEffs env F.sender fd fa t) :=
      Or.inr ⟨_, _, _, rfl⟩
    have hl : lptName s.seq ≠ p.lpt := fun e => hW.fresh p hp s.seq (Nat.le_refl _) e.symm
    have nd := noDebit _ hfe esc s.std m.exact.toNat m.tokDenom m.maxToken.toNat (lptName s.seq) m.exact.toNat
    have nm := noMint _ hfe esc s.std m.exact.toNat m.tokDenom m.maxToken.toNat (lptName s.seq) m.exact.toNat hl
    exact kProp_of_mono (no_debit_mono _ _ _ _ hb nd _) (no_debit_mono _ _ _ _ hb nd _) (no_mint_supply_le _ _ _ _ hb nm)
  | refill pool hSome hAcct hL hCap hMin hPlan =>
    have hb := F.hBank; rw [hPlan] at hb; simp only at hb
    obtain ⟨hqmem, _⟩ := mem_of_poolByCounter hSome
    by_cases hpq : p = pool
    · subst hpq
      intro hpos _; omega
    · have hl : pool.lpt ≠ p.lpt := fun e => hpq (hW.lptInj p hp pool hqmem e.symm)
      have nd := noDebit [] (Or.inl rfl) pool.escrow s.std m.exact.toNat m.tokDenom m.maxToken.toNat pool.lpt m.exact.toNat
      have nm := noMint [] (Or.inl rfl) pool.escrow s.std m.exact.toNat m.tokDenom m.maxToken.toNat pool.lpt m.exact.toNat hl
      exact kProp_of_mono (no_debit_mono _ _ _ _ hb nd _) (no_debit_mono _ _ _ _ hb nd _) (no_mint_supply_le _ _ _ _ hb nm)
  | live pool stdIn mint deposit hSome hAcct hL hRoom hAmts hMin hMax hPlan =>
    have hb := F.hBank; rw [hPlan] at hb; simp only at hb
    obtain ⟨hqmem, hqc⟩ := mem_of_poolByCounter hSome
    by_cases hpq : p = pool
    · subst hpq
      simp only [List.nil_append] at hb
      obtain ⟨g1, g2, g3⟩ := addEffs_flow hb (Ne.symm hps) (Ne.symm hpm) hstdtok
      obtain ⟨_, hX0, hs, hm, hd⟩ := addLiveAmounts_ok hAmts
      intro _ _
      rw [g3, hqc]
      have hXpos : 0 < s.bank.get p.escrow s.std := Nat.pos_of_ne_zero hX0
      have key := Arith.add_k stdIn (s.bank.get p.escrow s.std) (s.bank.get p.escrow m.tokDenom) (s.bank.supply p.lpt) hXpos
      rw [← hm, ← hd] at key
      exact Arith.k_weaken _ _ _ _ _ _ _ _ key g1 g2
    · have hl : pool.lpt ≠ p.lpt := fun e => hpq (hW.lptInj p hp pool hqmem e.symm)
      have nd := noDebit [] (Or.inl rfl) pool.escrow s.std stdIn m.tokDenom deposit pool.lpt mint
      have nm := noMint [] (Or.inl rfl) pool.escrow s.std stdIn m.tokDenom deposit pool.lpt mint hl
      exact kProp_of_mono (no_debit_mono _ _ _ _ hb nd _) (no_debit_mono _ _ _ _ hb nd _) (no_mint_supply_le _ _ _ _ hb nm)

theorem k_remove {env : Env} {s s' : State} {m : MsgRemove} {r : Resp} (hE : EnvOK env) (hW : WF env s)
    (hS : SignerOK s (.remove m)) (h : remove env s m = .ok (s', r)) : ∀ p ∈ s.pools, KProp s s' p := by
  obtain ⟨F⟩ := remove_ok h
  intro p hp
  have hsender := decode_ok F.hSender
  obtain ⟨hqmem, hql⟩ := mem_of_poolByLpt F.hPool
  have hps : p.escrow ≠ F.sender := by rw [hsender]; exact fun e => hS _ rfl p hp e.symm
  have hpm := (hW.escrow_ne_mod hE hp).1
  by_cases hpq : p = F.pool
  · have hBank := F.hBank
    have hAmts := F.hAmts
    have hw := F.wLe
    rw [← hpq] at hBank hAmts hw
    have hstdlpt : s.std ≠ p.lpt := (ne_of_prefix (hW.lptPrefix p hp) hW.stdNotLpt).symm
    have hclpt : p.counter ≠ p.lpt := (ne_of_prefix (hW.lptPrefix p hp) (hW.counterNotLpt p hp)).symm
    have hsc : s.std ≠ p.counter := (hW.counterNeStd p hp).symm
    obtain ⟨g1, g2, g3⟩ := removeEffs_flow hBank hsc hstdlpt hclpt
    obtain ⟨hL0, ha, hb⟩ := removeAmounts_ok hAmts
    intro _ _
    have key := Arith.remove_k m.withdraw.toNat (s.bank.get p.escrow s.std) (s.bank.get p.escrow p.counter) (s.bank.supply p.lpt) hw
    rw [← ha, ← hb] at key
    have hL' : s'.bank.supply p.lpt = s.bank.supply p.lpt - m.withdraw.toNat := by omega
    rw [hL']
    exact Arith.k_weaken _ _ _ _ _ _ _ _ key (by omega) (by omega)
  · have hne : p.escrow ≠ F.pool.escrow := hW.escrow_ne hE hp hqmem hpq
    have e1 := beq_false_of_ne (Ne.symm hps)
    have e2 := beq_false_of_ne (Ne.symm hpm)
    have e3 := beq_false_of_ne (Ne.symm hne)
    have nd : (removeEffs env F.sender F.pool.escrow F.pool.lpt m.withdraw.toNat s.std F.stdOut F.pool.counter F.tokOut).all
        (fun x => !x.debits p.escrow) = true := by simp [removeEffs, Eff.debits, e1, e2, e3]
    have nm : (removeEffs env F.sender F.pool.escrow F.pool.lpt m.withdraw.toNat s.std F.stdOut F.pool.counter F.tokOut).all
        (fun x => !x.mints p.lpt) = true := by simp [removeEffs, Eff.mints]
    exact kProp_of_mono (no_debit_mono _ _ _ _ F.hBank nd _) (no_debit_mono _ _ _ _ F.hBank nd _)
      (no_mint_supply_le _ _ _ _ F.hBank nm)

theorem k_send {env : Env} {s s' : State} {src dst : Addr} {d : Denom} {amt : Nat} {r : Resp}
    (hS : SignerOK s (.send src dst d amt)) (h : step env s (.send src dst d amt) = .ok (s', r)) :
    ∀ p ∈ s.pools, KProp s s' p := by
  simp only [step] at h
  obtain ⟨b, hb, h⟩ := bind_ok h
  injection h with h; simp only [Prod.mk.injEq] at h
  obtain ⟨rfl, _⟩ := h
  intro p hp
  have hps : src ≠ p.escrow := hS _ rfl p hp
  have nd : ([Eff.xfer src dst d amt]).all (fun x => !x.debits p.escrow) = true := by
    simp [Eff.debits, beq_false_of_ne hps]
  have nm : ([Eff.xfer src dst d amt]).all (fun x => !x.mints p.lpt) = true := by simp [Eff.mints]
  exact kProp_of_mono (no_debit_mono _ _ _ _ hb nd _) (no_debit_mono _ _ _ _ hb nd _) (no_mint_supply_le _ _ _ _ hb nm)

/-- the onboarding auto-swap (keeper-level buy of the standard coin, payer = recipient) -/
theorem k_autoSwap {env : Env} {s s' : State} {rcpt : Addr} {dIn : Denom} {maxIn out : Nat} {r : Resp}
    (hE : EnvOK env) (hW : WF env s) (hS : SignerOK s (.autoSwap rcpt dIn maxIn out))
    (h : step env s (.autoSwap rcpt dIn maxIn out) = .ok (s', r)) : ∀ p ∈ s.pools, KProp s s' p := by
  simp only [step] at h
  obtain ⟨⟨sold, bought, esc⟩, ht, h⟩ := bind_ok h
  simp only at h
  obtain ⟨b, hb, h⟩ := bind_ok h
  injection h with h; simp only [Prod.mk.injEq] at h
  obtain ⟨rfl, _⟩ := h
  intro p hp
  obtain ⟨q, hpf, hbo, _⟩ := trade_buy_ok ht
  obtain ⟨hne, hone, hfind, hres, _⟩ := poolFor_ok hpf
  obtain ⟨hqmem, hqc⟩ := mem_of_poolByCounter hfind
  have hqesc : q.escrow = esc := by
    have := hW.reserveOk q hqmem
    rw [hres] at this; injection this with this; exact this.symm
  have hse : rcpt ≠ esc := by rw [← hqesc]; exact hS _ rfl q hqmem
  have hdne : dIn ≠ s.std := fun e => hne e.symm
  obtain ⟨f1, f2, f3, f4, f5⟩ := swapEffs_flow hb hse hdne
  by_cases hpq : p = q
  · subst hpq
    intro _ _
    simp only
    rw [f5 p.lpt, hqesc]
    have key := trade_k ht (b.get esc dIn) (b.get esc s.std) f1 f2
    have hc : p.counter = dIn := by
      rw [hqc]; unfold counterOf; simp
    rw [hc]
    have : s.bank.get esc s.std * s.bank.get esc dIn ≤ b.get esc s.std * b.get esc dIn := by
      rw [Nat.mul_comm, Nat.mul_comm (b.get esc s.std)]; exact key
    exact Nat.mul_le_mul_right _ this
  · have hne' : p.escrow ≠ esc := by rw [← hqesc]; exact hW.escrow_ne hE hp hqmem hpq
    have hns : p.escrow ≠ rcpt := fun e => hS _ rfl p hp e.symm
    exact kProp_of_mono (f4 _ _ hns hne') (f4 _ _ hns hne') (Nat.le_of_eq (f5 _))

/-- **C01, one step.** Every successful operation leaves `X·Y/L²` of every existing pool no smaller. -/
theorem k_step {env : Env} {s s' : State} {op : Op} {r : Resp} (hE : EnvOK env) (hW : WF env s)
    (hS : SignerOK s op) (h : step env s op = .ok (s', r)) : ∀ p ∈ s.pools, KProp s s' p := by
  cases op with
  | swap m => exact k_swap hE hW hS h
  | add m => exact k_add hE hW hS h
  | remove m => exact k_remove hE hW hS h
  | send src dst d amt => exact k_send hS h
  | autoSwap rcpt dIn maxIn out => exact k_autoSwap hE hW hS h
  | setParams p =>
    simp only [step] at h
    obtain ⟨_, _, h⟩ := bind_ok h
    injection h with h; simp only [Prod.mk.injEq] at h
    obtain ⟨rfl, _⟩ := h
    intro p _ _ _; exact Nat.le_refl _
  | setTime a b =>
    simp only [step] at h
    injection h with h; simp only [Prod.mk.injEq] at h
    obtain ⟨rfl, _⟩ := h
    intro p _ _ _; exact Nat.le_refl _

/-- the executable predicate the driver evaluates on implementation transitions is what `k_step` proves -/
theorem k_step_monitor {env : Env} {s s' : State} {op : Op} {r : Resp} (hE : EnvOK env) (hW : WF env s)
    (hS : SignerOK s op) (h : step env s op = .ok (s', r)) :
    c01_k { env := env, pre := s, op := op, ok := true, resp := r, post := s' } = true := by
  have hstd : s'.std = s.std := by
    have := wf_step hW h
    cases op with
    | swap m => obtain ⟨F⟩ := swap_ok h; rw [F.hState]
    | add m => obtain ⟨F⟩ := add_ok h; rw [F.hState]
    | remove m => obtain ⟨F⟩ := remove_ok h; rw [F.hState]
    | send src dst d amt =>
      simp only [step] at h
      obtain ⟨b, _, h⟩ := bind_ok h
      injection h with h; simp only [Prod.mk.injEq] at h; rw [← h.1]
    | autoSwap rcpt dIn maxIn out =>
      simp only [step] at h
      obtain ⟨⟨sold, bought, esc⟩, _, h⟩ := bind_ok h
      simp only at h
      obtain ⟨b, _, h⟩ := bind_ok h
      injection h with h; simp only [Prod.mk.injEq] at h; rw [← h.1]
    | setParams p =>
      simp only [step] at h
      obtain ⟨_, _, h⟩ := bind_ok h
      injection h with h; simp only [Prod.mk.injEq] at h; rw [← h.1]
    | setTime a b =>
      simp only [step] at h
      injection h with h; simp only [Prod.mk.injEq] at h; rw [← h.1]
  unfold c01_k
  simp only [List.all_eq_true]
  intro p hp
  have key := k_step hE hW hS h p hp
  unfold kPool reserves
  simp only [Bool.or_eq_true, beq_iff_eq, decide_eq_true_eq, hstd]
  by_cases h1 : s.bank.supply p.lpt = 0
  · exact Or.inl (Or.inl h1)
  · by_cases h2 : s'.bank.supply p.lpt = 0
    · exact Or.inl (Or.inr h2)
    · exact Or.inr (key (Nat.pos_of_ne_zero h1) (Nat.pos_of_ne_zero h2))

/-! ## histories -/

theorem exec_cases (env : Env) (s : State) (op : Op) :
    exec env s op = s ∨ ∃ r, step env s op = .ok (exec env s op, r) := by
  unfold exec deliver
  cases h : step env s op with
  | error e => left; simp only [h]
  | ok v => right; obtain ⟨s', r⟩ := v; exact ⟨r, by simp only [h]⟩

theorem std_pools_step {env : Env} {s s' : State} {op : Op} {r : Resp} (h : step env s op = .ok (s', r)) :
    s'.std = s.std ∧ ∀ p ∈ s.pools, p ∈ s'.pools := by
  cases op with
  | swap m => obtain ⟨F⟩ := swap_ok h; rw [F.hState]; exact ⟨rfl, fun _ h => h⟩
  | remove m => obtain ⟨F⟩ := remove_ok h; rw [F.hState]; exact ⟨rfl, fun _ h => h⟩
  | add m =>
    obtain ⟨F⟩ := add_ok h
    obtain ⟨_, _, PF⟩ := planAdd_ok F.hPlan
    rw [F.hState]
    refine ⟨rfl, ?_⟩
    cases PF with
    | create tax esc hNone hTax hTaxLe hCap hMin hEsc hPlan =>
      rw [hPlan]; intro p hp; exact mem_insertPool.mpr (Or.inr hp)
    | refill pool hSome hAcct hL hCap hMin hPlan => rw [hPlan]; exact fun _ h => h
    | live pool stdIn mint deposit hSome hAcct hL hRoom hAmts hMin hMax hPlan => rw [hPlan]; exact fun _ h => h
  | send src dst d amt =>
    simp only [step] at h
    obtain ⟨b, _, h⟩ := bind_ok h
    injection h with h; simp only [Prod.mk.injEq] at h; rw [← h.1]; exact ⟨rfl, fun _ h => h⟩
  | autoSwap rcpt dIn maxIn out =>
    simp only [step] at h
    obtain ⟨⟨sold, bought, esc⟩, _, h⟩ := bind_ok h
    simp only at h
    obtain ⟨b, _, h⟩ := bind_ok h
    injection h with h; simp only [Prod.mk.injEq] at h; rw [← h.1]; exact ⟨rfl, fun _ h => h⟩
  | setParams p =>
    simp only [step] at h
    obtain ⟨_, _, h⟩ := bind_ok h
    injection h with h; simp only [Prod.mk.injEq] at h; rw [← h.1]; exact ⟨rfl, fun _ h => h⟩
  | setTime a b =>
    simp only [step] at h
    injection h with h; simp only [Prod.mk.injEq] at h; rw [← h.1]; exact ⟨rfl, fun _ h => h⟩

/-- `X·Y/L²` of pool `p` in `s` is at most that in `s'` (cross-multiplied; reserves read with the
standard denomination `std`) -/
def KLe (std : Denom) (s s' : State) (p : Pool) : Prop :=
  s.bank.get p.escrow std * s.bank.get p.escrow p.counter * s'.bank.supply p.lpt ^ 2 ≤
  s'.bank.get p.escrow std * s'.bank.get p.escrow p.counter * s.bank.supply p.lpt ^ 2

/-- pool `p` has pool tokens outstanding in every state the run passes through -/
def LiveAlong (env : Env) (p : Pool) : State → List Op → Prop
  | s, [] => 0 < s.bank.supply p.lpt
  | s, op :: ops => 0 < s.bank.supply p.lpt ∧ LiveAlong env p (exec env s op) ops

theorem liveAlong_head {env : Env} {p : Pool} {s : State} {ops : List Op} (h : LiveAlong env p s ops) :
    0 < s.bank.supply p.lpt := by
  cases ops with
  | nil => exact h
  | cons _ _ => exact h.1

/-- **C01, every history.** Over any sequence of operations — accepted or rejected, by any number
of accounts, on any number of pools — `X·Y/L²` of a pool at the end is at least what it was at the
start, as long as the pool has pool tokens outstanding throughout. -/
theorem k_history {env : Env} (hE : EnvOK env) (p : Pool) (ops : List Op) :
    ∀ s : State, WF env s → p ∈ s.pools → (∀ op ∈ ops, NotEscrow env op) → LiveAlong env p s ops →
    KLe s.std s (run env s ops) p := by
  induction ops with
  | nil => intro s _ _ _ _; exact Nat.le_refl _
  | cons op ops ih =>
    intro s hW hp hS hlive
    have hL0 := hlive.1
    have hlive' := hlive.2
    have hL1 := liveAlong_head hlive'
    have hSops : ∀ o ∈ ops, NotEscrow env o := fun o ho => hS o (List.mem_cons_of_mem _ ho)
    show KLe s.std s (run env (exec env s op) ops) p
    rcases exec_cases env s op with heq | ⟨r, hstep⟩
    · rw [heq] at hlive' ⊢
      exact ih s hW hp hSops hlive'
    · have hSop := signerOK_of_notEscrow hW (hS op (List.mem_cons_self ..))
      have k1 := k_step hE hW hSop hstep p hp hL0 hL1
      obtain ⟨hstd, hmem⟩ := std_pools_step hstep
      have k2 := ih (exec env s op) (wf_step hW hstep) (hmem p hp) hSops hlive'
      rw [hstd] at k2
      unfold KLe at *
      have hd : 0 < (exec env s op).bank.supply p.lpt ^ 2 := Nat.pow_pos hL1
      exact Arith.k_trans _ _ _ _ _ _ hd k1 k2

/-! ## consequences named in the property -/

/-- a removal never pays more than the pro-rata share of either reserve -/
theorem remove_le_prorata {env : Env} {s s' : State} {m : MsgRemove} {r : Resp}
    (h : remove env s m = .ok (s', r)) :
    ∃ pool a b, s.poolByLpt m.lptDenom = some pool ∧ r = .remove (newCoins2 (s.std, a) (pool.counter, b)) ∧
      a * s.bank.supply pool.lpt ≤ m.withdraw.toNat * s.bank.get pool.escrow s.std ∧
      b * s.bank.supply pool.lpt ≤ m.withdraw.toNat * s.bank.get pool.escrow pool.counter := by
  obtain ⟨F⟩ := remove_ok h
  obtain ⟨_, ha, hb⟩ := removeAmounts_ok F.hAmts
  refine ⟨F.pool, F.stdOut, F.tokOut, F.hPool, F.hResp, ?_, ?_⟩
  · rw [ha]; exact Nat.div_mul_le_self _ _
  · rw [hb]; exact Nat.div_mul_le_self _ _

/-- add to a pool that has pool tokens outstanding, then remove exactly the minted tokens:
neither coin comes back in a larger amount than was deposited.
`(s, dep, m)` = standard coin in, counter-asset in, pool tokens minted on a pool `(X, Y, L)`. -/
theorem add_then_remove_le (s X Y L : Nat) (hX : 0 < X) :
    let m := L * s / X
    let dep := Y * s / X + 1
    m * (X + s) / (L + m) ≤ s ∧ m * (Y + dep) / (L + m) ≤ dep := by
  intro m dep
  have h1 : m * X ≤ L * s := Nat.div_mul_le_self _ _
  have h2 : Y * s < dep * X := by
    have h := Nat.div_add_mod (Y * s) X
    have hlt := Nat.mod_lt (Y * s) hX
    show Y * s < (Y * s / X + 1) * X
    nlinarith
  constructor
  · by_cases h0 : L + m = 0
    · rw [h0]; simp
    · apply Nat.div_le_of_le_mul
      nlinarith
  · by_cases h0 : L + m = 0
    · rw [h0]; simp
    · apply Nat.div_le_of_le_mul
      -- m (Y + dep) ≤ (L + m) dep  ⇔  m Y ≤ L dep ; from m X ≤ L s and Y s < dep X
      have : m * Y * X ≤ L * dep * X := by
        calc m * Y * X = (m * X) * Y := by ring
          _ ≤ (L * s) * Y := Nat.mul_le_mul_right _ h1
          _ = L * (Y * s) := by ring
          _ ≤ L * (dep * X) := Nat.mul_le_mul_left _ (Nat.le_of_lt h2)
          _ = L * dep * X := by ring
      have := Nat.le_of_mul_le_mul_right this hX
      nlinarith

/-- sell `a` of one coin, then sell all proceeds back on the same pool: at most `a` returns
(any fee in `[0,1)`, any reserves) -/
theorem roundtrip_le (a X Y df S : Nat) (hX : 0 < X) (hS : 0 < S) (hdf : df ≤ S) :
    let b := Arith.inputPrice a X Y df S
    Arith.inputPrice b (Y - b) (X + a) df S ≤ a := by
  intro b
  by_cases hYb : Y - b = 0
  · -- the pool was emptied of the other coin: the second sale divides by the added input only
    unfold Arith.inputPrice
    rw [hYb]
    by_cases hz : b * df = 0
    · simp [hz]
    · apply Nat.div_le_of_le_mul
      have hb : b ≤ Y := Arith.inputPrice_le a X Y df S hX hS
      have : Y = b := by omega
      have k := Arith.sell_k a X Y df S hX hS hdf
      change X * Y ≤ (X + a) * (Y - b) at k
      rw [hYb] at k
      have hXY : X * Y = 0 := by omega
      have hY0 : Y = 0 := by
        rcases Nat.mul_eq_zero.mp hXY with h | h
        · omega
        · exact h
      have : b = 0 := by omega
      simp [this] at hz
  · have hpos : 0 < Y - b := Nat.pos_of_ne_zero hYb
    have k1 := Arith.sell_k a X Y df S hX hS hdf
    change X * Y ≤ (X + a) * (Y - b) at k1
    have k2 := Arith.sell_k b (Y - b) (X + a) df S hpos hS hdf
    set c := Arith.inputPrice b (Y - b) (X + a) df S with hc
    have hb : b ≤ Y := Arith.inputPrice_le a X Y df S hX hS
    have hcle : c ≤ X + a := Arith.inputPrice_le b (Y - b) (X + a) df S hpos hS
    have e : Y - b + b = Y := by omega
    rw [e] at k2
    -- (Y-b)(X+a) ≤ Y (X+a-c) and X Y ≤ (X+a)(Y-b)  ⇒  X Y ≤ Y (X + a - c)
    have k3 : X * Y ≤ Y * (X + a - c) := by
      calc X * Y ≤ (X + a) * (Y - b) := k1
        _ = (Y - b) * (X + a) := Nat.mul_comm _ _
        _ ≤ Y * (X + a - c) := k2
    by_cases hY0 : Y = 0
    · omega
    · have hYpos : 0 < Y := Nat.pos_of_ne_zero hY0
      have : X ≤ X + a - c := by
        have : Y * X ≤ Y * (X + a - c) := by rw [Nat.mul_comm]; exact k3
        exact Nat.le_of_mul_le_mul_left this hYpos
      omega

/-! ## non-vacuity: the hypotheses are met by a concrete state, and the step really happens -/

/-- a 4-unit sell on the pool `(X, Y, L) = (3, 2, 3)` with fee 0.003 succeeds in the model and pays 1 unit -/
example : (match step exEnv exState exSell with
           | .ok (s', _) => s'.bank.get "e.lpt-1" "stake" == 7 && s'.bank.get "e.lpt-1" "abtc" == 1
           | .error _ => false) = true := by decide +kernel

/-- the boundary the property draws ("pools with outstanding pool tokens"): a pool whose last share was
burned (`L = 0`) but whose escrow still holds coins hands them to the next provider — nobody holds shares, so
nobody is diluted, and `KProp` is vacuous there.  Witness: pool emptied of shares with 5 stake / 7 abtc left
in escrow; a 1-stake refill mints 1 share that owns all of it. -/
example : (match step exEnv exEmptied exRefill with
           | .ok (s', _) => s'.bank.supply "lpt-1" == 1 && s'.bank.get "e.lpt-1" "stake" == 6 && s'.bank.get "e.lpt-1" "abtc" == 8
           | .error _ => false) = true := by decide +kernel

/-- the environment and state of the examples satisfy the hypotheses of `k_step` -/
example : SignerOK exState exSell := by
  intro a ha p hp
  simp only [signerOf, exSell, Option.some.injEq] at ha
  subst ha
  simp only [exState, List.mem_singleton] at hp
  subst hp
  decide

end Coinswap
end CV
