import CantoVerif.Props.C08
/-!
# C08 — the onboarding auto-swap (`Op.autoSwap`: the keeper's `TradeInputForExactOutput` called directly, payer =
recipient) satisfies the same executable predicates as a buy order: `swap_bounds`, `swap_rounding`, `swap_delivered`.
-/
namespace CV
namespace Coinswap

/-- everything about a successful auto-swap, with one set of witnesses -/
theorem autoSwap_full {env : Env} {s s' : State} {rcpt : Addr} {dIn : Denom} {maxIn out : Nat} {r : Resp}
    (h : step env s (.autoSwap rcpt dIn maxIn out) = .ok (s', r)) :
    ∃ (sold : Nat) (esc : Addr) (p : Pool),
      s.poolByCounter dIn = some p ∧ env.reserve p.lpt = .ok esc ∧ dIn ≠ s.std ∧
      s.bank.applyAll (swapEffs rcpt rcpt esc dIn sold s.std out) = .ok s'.bank ∧
      sold ≤ maxIn ∧ 1 ≤ sold ∧
      (let X := s.bank.get esc dIn
       let Y := s.bank.get esc s.std
       let df := S18 - s.params.fee
       (sold - 1) * ((Y - out) * df) ≤ X * out * S18 ∧ X * out * S18 < sold * ((Y - out) * df)) := by
  simp only [step] at h
  obtain ⟨⟨sold, bought, esc⟩, ht, h⟩ := bind_ok h
  simp only at h
  obtain ⟨bank', hb, h⟩ := bind_ok h
  injection h with h
  simp only [Prod.mk.injEq] at h
  obtain ⟨hs', _⟩ := h
  obtain ⟨q, hpf, hbought, _, _, _, hp, hmax, _⟩ := trade_buy_ok ht
  obtain ⟨hne, _, hfind, hres, _⟩ := poolFor_ok hpf
  obtain ⟨_, _, hne0, hs⟩ := outputPrice_ok hp
  have hne' : dIn ≠ s.std := fun e => hne e.symm
  have hc : counterOf s.std s.std dIn = dIn := by unfold counterOf; simp
  rw [hc] at hfind
  have hbank : s.bank.applyAll (swapEffs rcpt rcpt esc dIn sold s.std out) = .ok s'.bank := by
    rw [← hs']; rw [hbought] at hb; exact hb
  have h1 : 1 ≤ sold := by rw [hs]; exact Nat.le_add_left 1 _
  refine ⟨sold, esc, q, hfind, hres, hne', hbank, hmax, h1, ?_⟩
  simp only
  rw [hs]
  have hpos : 0 < (s.bank.get esc s.std - out) * (S18 - s.params.fee) := Nat.pos_of_ne_zero hne0
  constructor
  · simp only [Nat.add_sub_cancel]; exact Nat.div_mul_le_self _ _
  · exact Nat.lt_mul_of_div_lt (Nat.lt_succ_self _) hpos

open Spec in
/-- the three swap predicates of C08 hold of every successful auto-swap of the model (recipient not a pool's escrow) -/
theorem autoSwap_monitors {env : Env} {s s' : State} {rcpt : Addr} {dIn : Denom} {maxIn out : Nat} {r : Resp}
    (hW : WF env s) (hS : SignerOK s (.autoSwap rcpt dIn maxIn out))
    (h : step env s (.autoSwap rcpt dIn maxIn out) = .ok (s', r)) :
    c08_swapBounds { env := env, pre := s, op := .autoSwap rcpt dIn maxIn out, ok := true, resp := r, post := s' } = true ∧
    c08_swapRounding { env := env, pre := s, op := .autoSwap rcpt dIn maxIn out, ok := true, resp := r, post := s' } = true ∧
    c08_swapDelivered { env := env, pre := s, op := .autoSwap rcpt dIn maxIn out, ok := true, resp := r, post := s' } = true := by
  obtain ⟨sold, esc, p, hfind, hres, hne, hbank, hmax, h1, hr1, hr2⟩ := autoSwap_full h
  obtain ⟨hmem, _⟩ := mem_of_poolByCounter hfind
  have hesc : p.escrow = esc := by
    have := hW.reserveOk p hmem
    rw [hres] at this; injection this with this; exact this.symm
  have hin : rcpt ≠ esc := by
    rw [← hesc]; exact hS rcpt rfl p hmem
  obtain ⟨a1, a2, a3, a4⟩ := swapEffs_exact hbank hin hin hne
  have hbeq : (dIn == s.std) = false := by simp [hne]
  have hre : (rcpt == esc) = false := by simp [hin]
  have hg : gain { env := env, pre := s, op := Op.autoSwap rcpt dIn maxIn out, ok := true, resp := r, post := s' } esc dIn = sold := by
    simp only [gain]; rw [a1]; omega
  have hl : loss { env := env, pre := s, op := Op.autoSwap rcpt dIn maxIn out, ok := true, resp := r, post := s' } esc s.std = out := by
    simp only [loss]; omega
  refine ⟨?_, ?_, ?_⟩
  · simp only [c08_swapBounds, swapMsgOf, Bool.not_true, Bool.false_or, hbeq, Bool.false_eq_true, if_false, hfind, hesc, hre,
      hg, hl, if_true, Bool.and_eq_true, beq_iff_eq, decide_eq_true_eq]
    exact ⟨by simp, by simpa using hmax⟩
  · simp only [c08_swapRounding, swapMsgOf, Bool.not_true, Bool.false_or, hbeq, Bool.false_eq_true, if_false, hfind, hesc, hre,
      hg, hl, if_true, Bool.and_eq_true, decide_eq_true_eq]
    exact ⟨⟨hr1, hr2⟩, h1⟩
  · simp only [c08_swapDelivered, swapMsgOf, Bool.not_true, Bool.false_or, hbeq, Bool.false_eq_true, if_false, hfind, hesc, hre,
      Bool.or_self, hg, hl, Bool.and_eq_true, beq_iff_eq]
    exact ⟨a3, a4⟩

end Coinswap
end CV
