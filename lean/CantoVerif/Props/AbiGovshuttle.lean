import CantoVerif.Props.AbiRoundTrip
import CantoVerif.Props.C20
import CantoVerif.Driver.Govshuttle
/-!
# The contract-ABI model applied to govshuttle's `Proposal` records

Connects the ABI theorems of `Props/AbiRoundTrip.lean` (all well-typed values) with the `Proposal` records of
`Model/Govshuttle.lean` and the driver's `abiOf` (`Driver/Govshuttle.lean`), for ALL proposals.

* `Proposal.abiWF p` — exactly the conditions under which the record is a value of the Solidity type
  `Proposal` (`abiOf_hasTy_iff`: it is EQUIVALENT to `(abiOf p).hasTy proposalTy`, so it is minimal):
  id and every value `< 2^256`; every target exactly 20 bytes; every element of title, description, of every
  target, signature and call data a byte (`< 256`); and every length (of the strings and of the four arrays)
  `< 2^256` (it has to fit the `uint256` length prefix).  The length conditions are implied by the size hypothesis
  of the round trip anyway, they are part of `hasTy`.
* `abiOf_injective` — no hypothesis at all.
* `query_bytes_roundtrip`, `stored_bytes_determine_proposal` — what `QueryProp` returns decodes to the record, and
  determines the record.
* `encode_length_le` — `(queryBytes p).length ≤ 32 * (16 + #targets + #values + 3 #signatures + 3 #calldatas)
  + |title| + |desc| + Σ|signature| + Σ|calldata|` for EVERY record (no hypothesis), hence (`queryBytes_length_lt`)
  the size hypothesis `< 2^256` holds for every record with fewer than `2^200` bytes/elements of content;
  `query_bytes_roundtrip'`, `stored_bytes_determine_proposal'` are items 3/4 with that hypothesis instead.
* `built_proposals_abiWF` — the records the model's handlers hand to the store (`expected s op`) are `abiWF`.
  Targets (`hexToAddress …`: always 20 bytes, always bytes) and call data (`hex2Bytes …`: always bytes) need NO
  hypothesis (`content_abiWF_iff`: `InputsOK` is EQUIVALENT to the built record being `abiWF`, so it is the
  weakest hypothesis; `accepted_answer_abiWF` is the step-level form; `lm_inputsOK_of_go_types` derives it from
  `uint64` ranges).  The model has `Nat` for ids/values and `List Nat` for Go strings, so what Go's types guarantee
  has to be stated (`InputsOK`): `propId`, `nextGovId`, the values are `< 2^256` (Go: `uint64`), title, description
  and signatures are byte lists (Go: `string`), the lists are shorter than `2^256`.  Counterexample without
  it: `exBadTitle` below (`title = [256]`) is not `abiWF`; `be32` wraps: the record with id `2^256 + 5` has the same
  bytes as the one with id `5` (`exWrap`); a 33-byte target is truncated (`exLongTarget`): items 3/4 are FALSE without `abiWF`
  (all checked by `decide +kernel` below).
-/
namespace CV
namespace Govshuttle
open Abi

/-- the driver's `abiOf` (re-exported under this namespace) -/
abbrev abiOf (p : Proposal) : Abi.Val := CV.Drv.Govshuttle.abiOf p

theorem abiOf_eq (p : Proposal) :
    abiOf p = .tuple [.uint p.id, .str p.title, .str p.desc, .arr (p.targets.map Abi.Val.addr),
      .arr (p.values.map Abi.Val.uint), .arr (p.signatures.map Abi.Val.str), .arr (p.calldatas.map Abi.Val.bytes)] := rfl

/-- the bytes `QueryProp` returns for the record `p` -/
def queryBytes (p : Proposal) : Abi.Bytes := Abi.encodeTuple [(Abi.proposalTy, abiOf p)]

/-- a byte list that fits a `uint256` length prefix -/
def IsStr (bs : Bytes) : Prop := bs.length < 2 ^ 256 ∧ IsBytes bs

/-- the record is a value of the Solidity type `Proposal` -/
structure Proposal.abiWF (p : Proposal) : Prop where
  id : p.id < 2 ^ 256
  title : IsStr p.title
  desc : IsStr p.desc
  targetsLen : p.targets.length < 2 ^ 256
  targets : ∀ a ∈ p.targets, a.length = 20 ∧ IsBytes a
  valuesLen : p.values.length < 2 ^ 256
  values : ∀ v ∈ p.values, v < 2 ^ 256
  signaturesLen : p.signatures.length < 2 ^ 256
  signatures : ∀ g ∈ p.signatures, IsStr g
  calldatasLen : p.calldatas.length < 2 ^ 256
  calldatas : ∀ c ∈ p.calldatas, IsStr c

theorem wfBytes_iff (bs : Bytes) : Abi.wfBytes bs = true ↔ IsBytes bs := by
  simp [Abi.wfBytes, IsBytes]

theorem abiWF_two256 : Abi.two256 = 2 ^ 256 := rfl

/-- `abiWF` is exactly "is a value of type `Proposal`" -/
theorem abiOf_hasTy_iff (p : Proposal) : (abiOf p).hasTy Abi.proposalTy = true ↔ p.abiWF := by
  rw [abiOf_eq]
  simp only [Abi.proposalTy, Abi.addProposalTys, Abi.Val.hasTy, Abi.haveTys, Bool.and_eq_true, Bool.and_true,
    decide_eq_true_eq, List.length_map, Abi.allHaveTy_iff, List.forall_mem_map, wfBytes_iff, beq_iff_eq]
  simp only [abiWF_two256]
  constructor
  · rintro ⟨a, b, c, ⟨d1, d2⟩, ⟨e1, e2⟩, ⟨f1, f2⟩, ⟨g1, g2⟩⟩
    exact ⟨a, b, c, d1, d2, e1, e2, f1, f2, g1, g2⟩
  · rintro ⟨a, b, c, d1, d2, e1, e2, f1, f2, g1, g2⟩
    exact ⟨a, b, c, ⟨d1, d2⟩, ⟨e1, e2⟩, ⟨f1, f2⟩, ⟨g1, g2⟩⟩

/-- 1. a well-formed record is a value of the Solidity type `Proposal` -/
theorem abiOf_hasTy {p : Proposal} (h : p.abiWF) : (abiOf p).hasTy Abi.proposalTy = true :=
  (abiOf_hasTy_iff p).2 h

/-- 2. the ABI value determines the record (no hypothesis) -/
theorem abiOf_injective {p q : Proposal} (h : abiOf p = abiOf q) : p = q := by
  cases p; cases q
  simp only [abiOf_eq, Abi.Val.tuple.injEq, List.cons.injEq, Abi.Val.uint.injEq, Abi.Val.str.injEq,
    Abi.Val.arr.injEq, and_true] at h
  obtain ⟨h1, h2, h3, h4, h5, h6, h7⟩ := h
  have i4 := (List.map_inj_right (f := Abi.Val.addr) (fun x y h => by injection h)).1 h4
  have i5 := (List.map_inj_right (f := Abi.Val.uint) (fun x y h => by injection h)).1 h5
  have i6 := (List.map_inj_right (f := Abi.Val.str) (fun x y h => by injection h)).1 h6
  have i7 := (List.map_inj_right (f := Abi.Val.bytes) (fun x y h => by injection h)).1 h7
  subst h1 h2 h3 i4 i5 i6 i7
  rfl

/-- 3. the bytes `QueryProp` returns decode to the record -/
theorem query_bytes_roundtrip {p : Proposal} (h : p.abiWF) (hlen : (queryBytes p).length < 2 ^ 256) :
    Abi.decodeTuple [Abi.proposalTy] (queryBytes p) = some [abiOf p] := by
  have := Abi.decodeTuple_encodeTuple [(Abi.proposalTy, abiOf p)]
    (by intro a ha; simp only [List.mem_singleton] at ha; subst ha; exact abiOf_hasTy h) hlen
  simpa [queryBytes] using this

/-- 4. what the contract returns determines what was submitted -/
theorem stored_bytes_determine_proposal {p q : Proposal} (hp : p.abiWF) (hq : q.abiWF)
    (hlen : (queryBytes p).length < 2 ^ 256) (heq : queryBytes p = queryBytes q) : p = q := by
  have := Abi.encodeTuple_injective [Abi.proposalTy] [abiOf p] [abiOf q] rfl rfl
    (by intro a ha; simp only [List.zip_cons_cons, List.zip_nil_right, List.mem_singleton] at ha; subst ha
        exact abiOf_hasTy hp)
    (by intro a ha; simp only [List.zip_cons_cons, List.zip_nil_right, List.mem_singleton] at ha; subst ha
        exact abiOf_hasTy hq)
    hlen heq
  exact abiOf_injective (List.cons.inj this).1

/-! ## 6. the records the keeper hands to the store -/

theorem isBytes_replicate_zero (n : Nat) : IsBytes (List.replicate n 0) := by
  intro b hb; rw [List.eq_of_mem_replicate hb]; omega

theorem isBytes_append {a b : Bytes} (ha : IsBytes a) (hb : IsBytes b) : IsBytes (a ++ b) := by
  intro x hx; rcases List.mem_append.1 hx with h | h
  · exact ha x h
  · exact hb x h

theorem isBytes_drop {a : Bytes} (ha : IsBytes a) (n : Nat) : IsBytes (a.drop n) :=
  fun x hx => ha x (List.mem_of_mem_drop hx)

/-- `common.BytesToAddress` of bytes is bytes -/
theorem bytesToAddress_isBytes {b : Bytes} (hb : IsBytes b) : IsBytes (bytesToAddress b) := by
  unfold bytesToAddress
  by_cases h : b.length > 20
  · simp only [h, if_true]; exact isBytes_append (isBytes_replicate_zero _) (isBytes_drop hb _)
  · simp only [h, if_false]; exact isBytes_append (isBytes_replicate_zero _) hb

/-- `common.HexToAddress` of ANY input (malformed included) is 20 bytes -/
theorem hexToAddress_isBytes (s : Bytes) : IsBytes (hexToAddress s) := by
  unfold hexToAddress fromHex
  exact bytesToAddress_isBytes (hex2Bytes_isBytes _)

/-- what has to be known of the inputs of `content s title desc m` (everything else is guaranteed by the conversions):
in Go the id and the values are `uint64`, title/description/signatures are `string`s, all lengths are `int`s -/
structure InputsOK (s : State) (title desc : Bytes) (m : Metadata) : Prop where
  id : effId s m.propId < 2 ^ 256
  title : IsStr title
  desc : IsStr desc
  accountLen : m.account.length < 2 ^ 256
  valuesLen : m.values.length < 2 ^ 256
  values : ∀ v ∈ m.values, v < 2 ^ 256
  signaturesLen : m.signatures.length < 2 ^ 256
  signatures : ∀ g ∈ m.signatures, IsStr g
  calldatasLen : m.calldatas.length < 2 ^ 256
  calldatas : ∀ c ∈ m.calldatas, (hex2Bytes c).length < 2 ^ 256

/-- the record handed to the constructor / `AddProposal` is a value of the Solidity type EXACTLY when `InputsOK`:
nothing is required of the target strings and of the content of the call-data strings -/
theorem content_abiWF_iff (s : State) (title desc : Bytes) (m : Metadata) :
    (content s title desc m).abiWF ↔ InputsOK s title desc m := by
  constructor
  · intro h
    exact
      { id := h.id, title := h.title, desc := h.desc
        accountLen := by have := h.targetsLen; simpa [content] using this
        valuesLen := h.valuesLen, values := h.values
        signaturesLen := h.signaturesLen, signatures := h.signatures
        calldatasLen := by have := h.calldatasLen; simpa [content] using this
        calldatas := fun c hc => (h.calldatas (hex2Bytes c) (List.mem_map_of_mem hc)).1 }
  · intro h
    exact
      { id := h.id, title := h.title, desc := h.desc
        targetsLen := by simpa [content] using h.accountLen
        targets := by
          intro a ha
          simp only [content, List.mem_map] at ha
          obtain ⟨x, _, rfl⟩ := ha
          exact ⟨hexToAddress_length x, hexToAddress_isBytes x⟩
        valuesLen := h.valuesLen, values := h.values
        signaturesLen := h.signaturesLen, signatures := h.signatures
        calldatasLen := by simpa [content] using h.calldatasLen
        calldatas := by
          intro c hc
          simp only [content, List.mem_map] at hc
          obtain ⟨x, hx, rfl⟩ := hc
          exact ⟨h.calldatas x hx, hex2Bytes_isBytes x⟩ }

/-- the input hypothesis per operation -/
def OpInputsOK (s : State) : Op → Prop
  | .lm m _ => ∀ md, m.metadata = some md → InputsOK s m.title m.desc md
  | .treasury m _ => ∀ md, m.metadata = some md → InputsOK s m.title m.desc (fromTreasury md)
  | _ => True

/-- **built_proposals_abiWF**: the record an operation (lending-market or treasury path) submits is a value of the
Solidity type `Proposal`, given `OpInputsOK` -/
theorem built_proposals_abiWF {s : State} {op : Op} {p : Proposal} (he : expected s op = some p)
    (hin : OpInputsOK s op) : p.abiWF := by
  cases op with
  | lm m f =>
    cases hm : m.metadata with
    | none => simp [expected, hm] at he
    | some md =>
      simp only [expected, hm, Option.map_some, Option.some.injEq] at he
      subst he
      exact (content_abiWF_iff _ _ _ _).2 (hin md hm)
  | treasury m f =>
    cases hm : m.metadata with
    | none => simp [expected, hm] at he
    | some md =>
      simp only [expected, hm, Option.map_some, Option.some.injEq] at he
      subst he
      exact (content_abiWF_iff _ _ _ _).2 (hin md hm)
  | setNextId n => simp [expected] at he
  | foreignAdd n => simp [expected] at he

/-- … and after an accepted proposal operation `QueryProp` of the target id answers that record, which is `abiWF`;
so (`query_bytes_roundtrip`) the bytes the contract returns for it decode to it. -/
theorem accepted_answer_abiWF {env : Env} {s s' : State} {op : Op} {u : Unit}
    (h : step env s op = .ok (s', u)) (hp : Spec.isProposal op = true) (hin : OpInputsOK s op) :
    ∃ id p, targetId s op = some id ∧ expected s op = some p ∧ query s' id = some p ∧ p.abiWF := by
  rcases step_ok_cases h with ⟨title, desc, md, f, F, ht, he, _⟩ | ⟨n, hn, _⟩
  · exact ⟨_, _, ht, he, append_query_same F, built_proposals_abiWF he hin⟩
  · subst hn; simp [Spec.isProposal] at hp

/-- `Hex2Bytes` at most halves the length -/
theorem hex2Bytes_length_le : ∀ (x : Bytes), (hex2Bytes x).length ≤ x.length / 2
  | [] => by simp [hex2Bytes]
  | [_] => by simp [hex2Bytes]
  | p :: q :: rest => by
    have ih := hex2Bytes_length_le rest
    rw [hex2Bytes]; split <;> simp only [List.length_cons, List.length_nil] <;> omega

/-- the lending-market path with Go's types spelled out: `uint64` ids and values, byte strings -/
theorem lm_inputsOK_of_go_types {s : State} {m : MsgLM} {md : Metadata}
    (hid : md.propId < 2 ^ 64) (hnext : s.nextGovId < 2 ^ 64) (hvals : ∀ v ∈ md.values, v < 2 ^ 64)
    (ht : IsStr m.title) (hd : IsStr m.desc) (hsig : ∀ g ∈ md.signatures, IsStr g)
    (hl1 : md.account.length < 2 ^ 256) (hl2 : md.values.length < 2 ^ 256) (hl3 : md.signatures.length < 2 ^ 256)
    (hl4 : md.calldatas.length < 2 ^ 256) (hcd : ∀ c ∈ md.calldatas, c.length < 2 ^ 256) :
    InputsOK s m.title m.desc md where
  id := by unfold effId; split <;> omega
  title := ht
  desc := hd
  accountLen := hl1
  valuesLen := hl2
  values := fun v hv => by have := hvals v hv; omega
  signaturesLen := hl3
  signatures := hsig
  calldatasLen := hl4
  calldatas := fun c hc => by
    have h1 := hcd c hc
    have h2 := hex2Bytes_length_le c
    omega

/-! ## 5. the size hypothesis is harmless -/

theorem padRight_length_le (bs : Abi.Bytes) : (Abi.padRight bs).length ≤ bs.length + 31 := by
  simp only [Abi.padRight, Abi.zeros, List.length_append, List.length_replicate]; omega

theorem assemble_map_dyn_le {α : Type} (l : List α) (g : α → Abi.Bytes) (sz : α → Nat)
    (h : ∀ x ∈ l, (g x).length ≤ sz x) :
    (Abi.assemble (l.map fun x => (true, g x))).length ≤ 32 * l.length + (l.map sz).sum := by
  rw [Abi.assemble_length]
  induction l with
  | nil => simp [Abi.headLen, Abi.tails]
  | cons a l ih =>
    have h1 := h a List.mem_cons_self
    have h2 := ih (fun x hx => h x (List.mem_cons_of_mem _ hx))
    simp only [List.map_cons, Abi.headLen, Abi.tails, if_true, List.length_append, List.length_cons, List.sum_cons]
    omega

theorem assemble_map_static_le {α : Type} (l : List α) (g : α → Abi.Bytes) (h : ∀ x ∈ l, (g x).length = 32) :
    (Abi.assemble (l.map fun x => (false, g x))).length = 32 * l.length := by
  rw [Abi.assemble_length]
  induction l with
  | nil => simp [Abi.headLen, Abi.tails]
  | cons a l ih =>
    have h1 := h a List.mem_cons_self
    have h2 := ih (fun x hx => h x (List.mem_cons_of_mem _ hx))
    simp only [List.map_cons, Abi.headLen, Abi.tails, List.length_cons, Bool.false_eq_true, if_false] at h2 ⊢
    omega

/-- total number of bytes in a list of strings -/
def totalLen (l : List Bytes) : Nat := (l.map List.length).sum

/-- **encode_length_le**: an explicit linear bound of the length of the `QueryProp` answer, for EVERY record -/
theorem encode_length_le (p : Proposal) :
    (queryBytes p).length ≤
      32 * (16 + p.targets.length + p.values.length + 3 * p.signatures.length + 3 * p.calldatas.length)
        + p.title.length + p.desc.length + totalLen p.signatures + totalLen p.calldatas := by
  have ht := padRight_length_le p.title
  have hd := padRight_length_le p.desc
  have h4 : (Abi.assemble (Abi.encArr .address (p.targets.map Abi.Val.addr))).length = 32 * p.targets.length := by
    rw [Abi.encArr_eq, List.map_map]
    exact assemble_map_static_le p.targets (fun a => Abi.encode .address (.addr a))
      (fun x _ => by simp [Abi.encode, Abi.leftPad32_length])
  have h5 : (Abi.assemble (Abi.encArr .uint256 (p.values.map Abi.Val.uint))).length = 32 * p.values.length := by
    rw [Abi.encArr_eq, List.map_map]
    exact assemble_map_static_le p.values (fun a => Abi.encode .uint256 (.uint a))
      (fun x _ => by simp [Abi.encode])
  have hs : ∀ l : List Bytes, (l.map fun a => 63 + a.length).sum = 63 * l.length + totalLen l := by
    intro l; induction l with
    | nil => simp [totalLen]
    | cons a l ih => simp only [List.map_cons, List.sum_cons, List.length_cons, totalLen] at ih ⊢; omega
  have h6 : (Abi.assemble (Abi.encArr .string (p.signatures.map Abi.Val.str))).length
      ≤ 32 * p.signatures.length + (63 * p.signatures.length + totalLen p.signatures) := by
    rw [Abi.encArr_eq, List.map_map, ← hs]
    exact assemble_map_dyn_le p.signatures (fun a => Abi.encode .string (.str a)) (fun a => 63 + a.length)
      (fun x _ => by have := padRight_length_le x; simp only [Abi.encode, List.length_append, Abi.be32_length]; omega)
  have h7 : (Abi.assemble (Abi.encArr .bytes (p.calldatas.map Abi.Val.bytes))).length
      ≤ 32 * p.calldatas.length + (63 * p.calldatas.length + totalLen p.calldatas) := by
    rw [Abi.encArr_eq, List.map_map, ← hs]
    exact assemble_map_dyn_le p.calldatas (fun a => Abi.encode .bytes (.bytes a)) (fun a => 63 + a.length)
      (fun x _ => by have := padRight_length_le x; simp only [Abi.encode, List.length_append, Abi.be32_length]; omega)
  simp only [queryBytes, Abi.encodeTuple, abiOf_eq, Abi.proposalTy, Abi.addProposalTys, List.map_cons, List.map_nil,
    Abi.encode, Abi.encTup, Abi.isDynamic, Abi.anyDynamic, Bool.or_true, Bool.or_false]
  generalize Abi.assemble (Abi.encArr .address (p.targets.map Abi.Val.addr)) = A4 at h4 ⊢
  generalize Abi.assemble (Abi.encArr .uint256 (p.values.map Abi.Val.uint)) = A5 at h5 ⊢
  generalize Abi.assemble (Abi.encArr .string (p.signatures.map Abi.Val.str)) = A6 at h6 ⊢
  generalize Abi.assemble (Abi.encArr .bytes (p.calldatas.map Abi.Val.bytes)) = A7 at h7 ⊢
  simp only [Abi.assemble_length, Abi.headLen, Abi.tails, if_true, List.length_append, Abi.be32_length,
    List.length_nil, Bool.false_eq_true, if_false]
  omega

/-- number of bytes / elements of content of a record -/
def Proposal.contentSize (p : Proposal) : Nat :=
  p.targets.length + p.values.length + p.signatures.length + p.calldatas.length
    + p.title.length + p.desc.length + totalLen p.signatures + totalLen p.calldatas

/-- any record with fewer than `2^200` bytes/elements of content satisfies the size hypothesis of the round trip -/
theorem queryBytes_length_lt (p : Proposal) (h : p.contentSize < 2 ^ 200) : (queryBytes p).length < 2 ^ 256 := by
  have := encode_length_le p
  unfold Proposal.contentSize at h
  have e1 : (2 : Nat) ^ 256 = 2 ^ 200 * 2 ^ 56 := by rw [← Nat.pow_add]
  have e2 : (2 : Nat) ^ 56 = 72057594037927936 := by decide
  rw [e1, e2]
  generalize (2 : Nat) ^ 200 = K at h ⊢
  have : 1 ≤ K ∨ K = 0 := by omega
  omega

/-- items 3 and 4 without the size hypothesis, for records of fewer than `2^200` bytes of content -/
theorem query_bytes_roundtrip' {p : Proposal} (h : p.abiWF) (hs : p.contentSize < 2 ^ 200) :
    Abi.decodeTuple [Abi.proposalTy] (queryBytes p) = some [abiOf p] :=
  query_bytes_roundtrip h (queryBytes_length_lt p hs)

theorem stored_bytes_determine_proposal' {p q : Proposal} (hp : p.abiWF) (hq : q.abiWF)
    (hs : p.contentSize < 2 ^ 200) (heq : queryBytes p = queryBytes q) : p = q :=
  stored_bytes_determine_proposal hp hq (queryBytes_length_lt p hs) heq

/-! ## non-vacuity -/

/-- the record the lending-market example submits -/
def exP : Proposal := content exS0 exLM.title exLM.desc exMd
/-- the record the treasury example submits -/
def exPT : Proposal := content exS0 exTr.title exTr.desc (fromTreasury { propId := 9, recipient := bytesOf "0x00000000000000000000000000000000000000aB", amount := 1234, denom := bytesOf "cAnTo" })

example : expected exS0 (.lm exLM false) = some exP := by decide +kernel
example : expected exS0 (.treasury exTr false) = some exPT := by decide +kernel
example : (exP.targets == [List.replicate 19 0 ++ [0xab], List.replicate 18 0 ++ [0x0a, 0xbc]] && exP.calldatas == [[192, 255, 238], []] &&
    exP.id == 5 && exP.values == [7, 8]) = true := by decide +kernel

theorem exP_hasTy : (abiOf exP).hasTy Abi.proposalTy = true := by decide +kernel
theorem exPT_hasTy : (abiOf exPT).hasTy Abi.proposalTy = true := by decide +kernel
theorem exP_abiWF : exP.abiWF := (abiOf_hasTy_iff _).1 exP_hasTy
theorem exPT_abiWF : exPT.abiWF := (abiOf_hasTy_iff _).1 exPT_hasTy

example : OpInputsOK exS0 (.lm exLM false) := by
  intro md hmd
  have : md = exMd := by simp [exLM] at hmd; exact hmd.symm
  subst this
  exact (content_abiWF_iff _ _ _ _).1 exP_abiWF

example : (queryBytes exP).length = 992 ∧ (queryBytes exPT).length = 672 := by decide +kernel
example : (queryBytes exP).length < 2 ^ 256 := by decide +kernel
example : Abi.decodeTuple [Abi.proposalTy] (queryBytes exP) = some [abiOf exP] :=
  query_bytes_roundtrip exP_abiWF (by decide +kernel)
example : exP ≠ exPT ∧ queryBytes exP ≠ queryBytes exPT := by decide +kernel
example (q : Proposal) (hq : q.abiWF) (h : queryBytes exP = queryBytes q) : exP = q :=
  stored_bytes_determine_proposal exP_abiWF hq (by decide +kernel) h
example : (match step exEnv exS0 (.lm exLM false) with
    | .ok (s', _) => query s' 5 == some exP
    | .error _ => false) = true := by decide +kernel

/-- item 5 on the example: the bound is 1042 (actual length 992), content size 26 -/
example : exP.contentSize = 26 ∧ exP.contentSize < 2 ^ 200 := by decide +kernel
example : (queryBytes exP).length ≤ 1042 := by
  have := encode_length_le exP
  rw [show 32 * (16 + exP.targets.length + exP.values.length + 3 * exP.signatures.length + 3 * exP.calldatas.length)
        + exP.title.length + exP.desc.length + totalLen exP.signatures + totalLen exP.calldatas = 1042 by decide +kernel] at this
  exact this
example : Abi.decodeTuple [Abi.proposalTy] (queryBytes exP) = some [abiOf exP] :=
  query_bytes_roundtrip' exP_abiWF (by decide +kernel)

/-- the hypotheses are needed: a "string" containing a non-byte is not a value of the type … -/
def exBadTitle : Proposal := { exP with title := [256] }
example : (abiOf exBadTitle).hasTy Abi.proposalTy = false := by decide +kernel
example : ¬ exBadTitle.abiWF := fun h => by
  have := abiOf_hasTy h
  rw [show (abiOf exBadTitle).hasTy Abi.proposalTy = false by decide +kernel] at this
  cases this
/-- … and without `id < 2^256` the bytes do NOT determine the record (`be32` wraps) -/
def exWrap : Proposal := { exP with id := 2 ^ 256 + 5 }
example : exWrap ≠ exP ∧ queryBytes exWrap = queryBytes exP := by decide +kernel
/-- … nor without "targets have 20 bytes" (`leftPad32` keeps the last 32 bytes) -/
def exLongTarget : Proposal := { exP with targets := [1 :: List.replicate 32 0, List.replicate 18 0 ++ [0x0a, 0xbc]] }
def exLongTarget' : Proposal := { exP with targets := [2 :: List.replicate 32 0, List.replicate 18 0 ++ [0x0a, 0xbc]] }
example : exLongTarget ≠ exLongTarget' ∧ queryBytes exLongTarget = queryBytes exLongTarget' := by decide +kernel

end Govshuttle
end CV
