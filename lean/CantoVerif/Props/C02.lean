import CantoVerif.Spec.Coinswap
import CantoVerif.Proofs.CoinswapWF
import CantoVerif.Spec.CoinswapExamples
/-!
# C02 — coinswap operations conserve value; rejected operations change nothing.

For every successful swap / addition / removal of the model, every duplicate-free group of accounts
`A` that contains the paying account, the receiving account and the pool escrow (and not the
coinswap module account, which is only passed through):

* the group's total of every ordinary coin is unchanged and nobody outside the group changes;
* no supply changes except the pool token's, by exactly the amount credited to / taken from the
  provider;
* on pool creation the configured fee is split exactly: `⌊fee·rate⌋` to the fee collector, the rest
  burned (supply of the fee denomination falls by exactly that much).

A rejected message leaves the whole state unchanged (`rejected_unchanged`, via `deliver`).
Unbounded in every amount; any number of other accounts and pools.
-/
namespace CV
namespace Coinswap

macro "group_simp" " at " h:ident : tactic =>
  `(tactic| simp only [sumBy_cons, sumBy_nil, Eff.inTo, Eff.outFrom, Nat.add_zero, Nat.zero_add] at $h:ident)

/-- **Rejected ⇒ unchanged**, for every operation and every rejection reason. -/
theorem rejected_unchanged (env : Env) (s : State) (op : Op) (e : Rej) (h : step env s op = .error e) :
    exec env s op = s := by
  unfold exec deliver
  simp only [h]

/-- **Swap.** Coins move only among payer, recipient and escrow. -/
theorem swap_conserves {env : Env} {s s' : State} {m : MsgSwap} {r : Resp} (h : swap env s m = .ok (s', r)) :
    ∃ sender rcpt esc, m.inAddr.decode = .ok sender ∧ m.outAddr.decode = .ok rcpt ∧
      (∃ p, s.poolByCounter (counterOf s.std m.inDenom m.outDenom) = some p ∧ env.reserve p.lpt = .ok esc) ∧
      s'.pools = s.pools ∧ s'.seq = s.seq ∧
      ∀ A : List Addr, A.Nodup → A.contains sender = true → A.contains rcpt = true → A.contains esc = true →
        (∀ d, totalOver s'.bank A d = totalOver s.bank A d) ∧
        (∀ a d, A.contains a = false → s'.bank.get a d = s.bank.get a d) ∧
        (∀ d, s'.bank.supply d = s.bank.supply d) := by
  obtain ⟨F⟩ := swap_ok h
  have hpool : ∃ p, s.poolByCounter (counterOf s.std m.inDenom m.outDenom) = some p ∧ env.reserve p.lpt = .ok F.esc := by
    cases hb : m.isBuy with
    | false =>
      have ht := F.hTrade; rw [hb] at ht
      obtain ⟨q, hpf, _⟩ := trade_sell_ok ht
      obtain ⟨_, _, hfind, hres, _⟩ := poolFor_ok hpf
      exact ⟨q, hfind, hres⟩
    | true =>
      have ht := F.hTrade; rw [hb] at ht
      obtain ⟨q, hpf, _⟩ := trade_buy_ok ht
      obtain ⟨hne, _, hfind, hres, _⟩ := poolFor_ok hpf
      refine ⟨q, ?_, hres⟩
      have : counterOf s.std m.inDenom m.outDenom = counterOf s.std m.outDenom m.inDenom := by
        unfold counterOf
        rcases F.oneStd with h1 | h1
        · have : m.outDenom ≠ s.std := fun e => F.denomsNe (h1.trans e.symm)
          simp [h1, this]
        · have : m.inDenom ≠ s.std := fun e => F.denomsNe (e.trans h1.symm)
          simp [h1, this]
      rw [this]; exact hfind
  refine ⟨F.sender, F.rcpt, F.esc, F.hSender, F.hRcpt, hpool, by rw [F.hState], by rw [F.hState], ?_⟩
  intro A hA h1 h2 h3
  have hw : (swapEffs F.sender F.rcpt F.esc m.inDenom F.sold m.outDenom F.bought).all (Eff.within A) = true := by
    simp only [swapEffs, Eff.within, List.all_cons, List.all_nil, h1, h2, h3, Bool.and_self, Bool.and_true]
  exact within_conserves _ _ _ A hA hw F.hBank

/-- **Removal.** Coins move only between provider and escrow; only the pool-token supply changes,
by exactly the amount the provider gave up; the module account is only passed through. -/
theorem remove_conserves {env : Env} {s s' : State} {m : MsgRemove} {r : Resp} (h : remove env s m = .ok (s', r)) :
    ∃ sender pool, m.sender.decode = .ok sender ∧ s.poolByLpt m.lptDenom = some pool ∧
      s'.pools = s.pools ∧ s'.seq = s.seq ∧
      ∀ A : List Addr, A.Nodup → A.contains sender = true → A.contains pool.escrow = true →
        A.contains env.modAddr = false →
        (∀ d, d ≠ pool.lpt → totalOver s'.bank A d = totalOver s.bank A d ∧ s'.bank.supply d = s.bank.supply d) ∧
        (∀ a d, A.contains a = false → s'.bank.get a d = s.bank.get a d) ∧
        s'.bank.supply pool.lpt + m.withdraw.toNat = s.bank.supply pool.lpt ∧
        totalOver s'.bank A pool.lpt + m.withdraw.toNat = totalOver s.bank A pool.lpt := by
  obtain ⟨F⟩ := remove_ok h
  refine ⟨F.sender, F.pool, F.hSender, F.hPool, by rw [F.hState], by rw [F.hState], ?_⟩
  intro A hA h1 h2 h3
  have flow := Bank.applyAll_flow _ _ _ F.hBank
  refine ⟨?_, ?_, ?_, ?_⟩
  · intro d hd
    have g := group_flow _ _ _ A hA F.hBank d
    have f := (flow "" d).2
    simp only [removeEffs] at g f
    group_simp at g
    flow_simp at f
    simp only [h1, h2, h3, hd, true_and, false_and, and_false, if_false] at g f
    constructor
    · split at g <;> split at g <;> omega
    · omega
  · intro a d ha
    have f := (flow a d).1
    simp only [removeEffs] at f
    flow_simp at f
    have e1 : a ≠ F.sender := by intro e; subst e; rw [h1] at ha; cases ha
    have e2 : a ≠ F.pool.escrow := by intro e; subst e; rw [h2] at ha; cases ha
    simp only [e1, e2, false_and, if_false] at f
    split at f <;> omega
  · have f := (flow "" F.pool.lpt).2
    simp only [removeEffs] at f
    flow_simp at f
    simp only [if_true] at f
    omega
  · have g := group_flow _ _ _ A hA F.hBank F.pool.lpt
    simp only [removeEffs] at g
    group_simp at g
    simp only [h1, h2, h3, true_and, false_and, if_true, if_false] at g
    split at g <;> split at g <;> omega

/-- **Addition.** Without pool creation coins move only between provider and escrow and only the
pool-token supply changes, by exactly the amount credited to the provider; with pool creation the
fee is additionally split exactly into tax (to the fee collector) and burn. `A` is any group
containing provider, escrow and fee collector, and not the module account. -/
theorem add_conserves {env : Env} {s s' : State} {m : MsgAdd} {r : Resp} (h : add env s m = .ok (s', r)) :
    ∃ (sender : Addr) (pool : Pool) (minted fee tax : Nat), m.sender.decode = .ok sender ∧ r = .add pool.lpt minted ∧
      tax ≤ fee ∧
      ((s.poolByCounter m.tokDenom = none ∧ fee = s.params.feeAmt ∧ poolTax s.params.feeAmt s.params.taxRate = .ok tax ∧
          s'.pools = insertPool s.pools pool ∧ s'.seq = s.seq + 1) ∨
       (s.poolByCounter m.tokDenom = some pool ∧ fee = 0 ∧ tax = 0 ∧ s'.pools = s.pools ∧ s'.seq = s.seq)) ∧
      ∀ A : List Addr, A.Nodup → A.contains sender = true → A.contains pool.escrow = true →
        A.contains env.feeCollector = true → A.contains env.modAddr = false →
        pool.lpt ≠ s.params.feeDenom →
        (∀ d, d ≠ pool.lpt → d ≠ s.params.feeDenom →
            totalOver s'.bank A d = totalOver s.bank A d ∧ s'.bank.supply d = s.bank.supply d) ∧
        (∀ a d, A.contains a = false → s'.bank.get a d = s.bank.get a d) ∧
        s'.bank.supply pool.lpt = s.bank.supply pool.lpt + minted ∧
        totalOver s'.bank A pool.lpt = totalOver s.bank A pool.lpt + minted ∧
        totalOver s'.bank A s.params.feeDenom + (fee - tax) = totalOver s.bank A s.params.feeDenom ∧
        s'.bank.supply s.params.feeDenom + (fee - tax) = s.bank.supply s.params.feeDenom := by
  obtain ⟨F⟩ := add_ok h
  obtain ⟨hstdtok, _, PF⟩ := planAdd_ok F.hPlan
  -- all three branches apply `feeEffs ++ addEffs` with feeEffs either [] or the creation-fee list
  have core : ∀ (created : Bool) (fee tax : Nat) (pool : Pool) (stdIn tokIn mint : Nat), tax ≤ fee →
      (created = false → fee = 0 ∧ tax = 0) →
      s.bank.applyAll ((if created = false then [] else creationFeeEffs env F.sender s.params.feeDenom fee tax) ++
        addEffs env F.sender pool.escrow s.std stdIn m.tokDenom tokIn pool.lpt mint) = .ok s'.bank →
      ∀ A : List Addr, A.Nodup → A.contains F.sender = true → A.contains pool.escrow = true →
        A.contains env.feeCollector = true → A.contains env.modAddr = false →
        pool.lpt ≠ s.params.feeDenom →
        (∀ d, d ≠ pool.lpt → d ≠ s.params.feeDenom →
            totalOver s'.bank A d = totalOver s.bank A d ∧ s'.bank.supply d = s.bank.supply d) ∧
        (∀ a d, A.contains a = false → s'.bank.get a d = s.bank.get a d) ∧
        s'.bank.supply pool.lpt = s.bank.supply pool.lpt + mint ∧
        totalOver s'.bank A pool.lpt = totalOver s.bank A pool.lpt + mint ∧
        totalOver s'.bank A s.params.feeDenom + (fee - tax) = totalOver s.bank A s.params.feeDenom ∧
        s'.bank.supply s.params.feeDenom + (fee - tax) = s.bank.supply s.params.feeDenom := by
    intro created fee tax pool stdIn tokIn mint htax hcz hb A hA h1 h2 h3 h4 hlf
    have hfl : s.params.feeDenom ≠ pool.lpt := fun e => hlf e.symm
    cases created with
    | false =>
      obtain ⟨rfl, rfl⟩ := hcz rfl
      simp only [↓reduceIte, List.nil_append] at hb
      have flow := Bank.applyAll_flow _ _ _ hb
      refine ⟨?_, ?_, ?_, ?_, ?_, ?_⟩
      · intro d hd1 hd2
        have g := group_flow _ _ _ A hA hb d
        have f := (flow "" d).2
        simp only [addEffs] at g f
        group_simp at g
        flow_simp at f
        simp only [h1, h2, h4, hd1, true_and, false_and, and_false, if_false] at g f
        constructor
        · split at g <;> split at g <;> omega
        · omega
      · intro a d ha
        have f := (flow a d).1
        simp only [addEffs] at f
        flow_simp at f
        have e1 : a ≠ F.sender := by intro e; subst e; rw [h1] at ha; cases ha
        have e2 : a ≠ pool.escrow := by intro e; subst e; rw [h2] at ha; cases ha
        simp only [e1, e2, false_and, if_false] at f
        split at f <;> omega
      · have f := (flow "" pool.lpt).2
        simp only [addEffs] at f
        flow_simp at f
        simp only [if_true] at f
        omega
      · have g := group_flow _ _ _ A hA hb pool.lpt
        simp only [addEffs] at g
        group_simp at g
        simp only [h1, h2, h4, true_and, false_and, if_true, if_false] at g
        split at g <;> split at g <;> omega
      · have g := group_flow _ _ _ A hA hb s.params.feeDenom
        simp only [addEffs] at g
        group_simp at g
        simp only [h1, h2, h4, hfl, true_and, false_and, and_false, if_false] at g
        split at g <;> split at g <;> omega
      · have f := (flow "" s.params.feeDenom).2
        simp only [addEffs] at f
        flow_simp at f
        simp only [hfl, if_false] at f
        omega
    | true =>
      simp only [Bool.true_eq_false, ↓reduceIte] at hb
      have flow := Bank.applyAll_flow _ _ _ hb
      refine ⟨?_, ?_, ?_, ?_, ?_, ?_⟩
      · intro d hd1 hd2
        have g := group_flow _ _ _ A hA hb d
        have f := (flow "" d).2
        simp only [creationFeeEffs, addEffs, List.cons_append, List.nil_append] at g f
        group_simp at g
        flow_simp at f
        simp only [h1, h2, h3, h4, hd1, hd2, true_and, false_and, and_false, if_false] at g f
        constructor
        · split at g <;> split at g <;> omega
        · omega
      · intro a d ha
        have f := (flow a d).1
        simp only [creationFeeEffs, addEffs, List.cons_append, List.nil_append] at f
        flow_simp at f
        have e1 : a ≠ F.sender := by intro e; subst e; rw [h1] at ha; cases ha
        have e2 : a ≠ pool.escrow := by intro e; subst e; rw [h2] at ha; cases ha
        have e3 : a ≠ env.feeCollector := by intro e; subst e; rw [h3] at ha; cases ha
        simp only [e1, e2, e3, false_and, if_false] at f
        repeat' split at f
        all_goals omega
      · have f := (flow "" pool.lpt).2
        simp only [creationFeeEffs, addEffs, List.cons_append, List.nil_append] at f
        flow_simp at f
        simp only [hlf, if_true, if_false] at f
        omega
      · have g := group_flow _ _ _ A hA hb pool.lpt
        simp only [creationFeeEffs, addEffs, List.cons_append, List.nil_append] at g
        group_simp at g
        simp only [h1, h2, h3, h4, hlf, true_and, false_and, and_false, if_true, if_false] at g
        repeat' split at g
        all_goals omega
      · have g := group_flow _ _ _ A hA hb s.params.feeDenom
        simp only [creationFeeEffs, addEffs, List.cons_append, List.nil_append] at g
        group_simp at g
        simp only [h1, h2, h3, h4, hfl, true_and, false_and, and_false, and_true, if_true, if_false] at g
        repeat' split at g
        all_goals omega
      · have f := (flow "" s.params.feeDenom).2
        simp only [creationFeeEffs, addEffs, List.cons_append, List.nil_append] at f
        flow_simp at f
        simp only [hfl, if_true, if_false] at f
        omega
  have hpools : s'.pools = F.plan.pools' := congrArg State.pools F.hState
  have hseq : s'.seq = F.plan.seq' := congrArg State.seq F.hState
  have hresp := F.hResp
  have hbank := F.hBank
  have hsender := F.hSender
  generalize F.sender = sender at *
  generalize F.plan = plan at *
  cases PF with
  | create tax esc hNone hTax hTaxLe hCap hMin hEsc hPlan =>
    subst hPlan
    simp only at hbank hpools hseq hresp
    refine ⟨sender, _, m.exact.toNat, s.params.feeAmt, tax, hsender, hresp, hTaxLe,
      Or.inl ⟨hNone, rfl, hTax, hpools, hseq⟩, ?_⟩
    exact core true s.params.feeAmt tax _ _ _ _ hTaxLe (by intro h; cases h) (by simpa using hbank)
  | refill pool hSome hAcct hL hCap hMin hPlan =>
    subst hPlan
    simp only [List.nil_append] at hbank hpools hseq hresp
    refine ⟨sender, pool, m.exact.toNat, 0, 0, hsender, hresp, Nat.le_refl _,
      Or.inr ⟨hSome, rfl, rfl, hpools, hseq⟩, ?_⟩
    exact core false 0 0 pool _ _ _ (Nat.le_refl _) (fun _ => ⟨rfl, rfl⟩) (by simpa using hbank)
  | live pool stdIn mint deposit hSome hAcct hL hRoom hAmts hMin hMax hPlan =>
    subst hPlan
    simp only [List.nil_append] at hbank hpools hseq hresp
    refine ⟨sender, pool, mint, 0, 0, hsender, hresp, Nat.le_refl _,
      Or.inr ⟨hSome, rfl, rfl, hpools, hseq⟩, ?_⟩
    exact core false 0 0 pool _ _ _ (Nat.le_refl _) (fun _ => ⟨rfl, rfl⟩) (by simpa using hbank)


/-! ## the executable predicate the driver evaluates holds of every rejected model transition -/

open Spec in
theorem sameState_refl (s : State) : sameState s s = true := by
  simp [sameState]

open Spec in
theorem rejected_unchanged_monitor (env : Env) (s : State) (op : Op) (e : Rej) (h : step env s op = .error e) :
    c02_rejectedUnchanged { env := env, pre := s, op := op, ok := false, resp := .none, post := exec env s op } = true := by
  rw [rejected_unchanged env s op e h]
  simp [c02_rejectedUnchanged, sameState_refl]

/-! ## the executable predicate `c02_swap` the driver evaluates holds of every successful swap of the model -/

theorem nodup_eraseDups {α : Type} [BEq α] [LawfulBEq α] : ∀ (l : List α), l.eraseDups.Nodup
  | [] => by simp
  | a :: as => by
    rw [List.eraseDups_cons]
    have : (as.filter fun b => !b == a).length < as.length + 1 := Nat.lt_succ_of_le (List.length_filter_le _ _)
    refine List.nodup_cons.mpr ⟨?_, nodup_eraseDups _⟩
    intro hmem
    rw [List.mem_eraseDups, List.mem_filter] at hmem
    simp at hmem
termination_by l => l.length

open Spec in
theorem swap_conserves_monitor {env : Env} {s s' : State} {m : MsgSwap} {r : Resp} (hW : WF env s)
    (h : swap env s m = .ok (s', r)) :
    c02_swap { env := env, pre := s, op := .swap m, ok := true, resp := r, post := s' } = true := by
  obtain ⟨sender, rcpt, esc, hs, hr, ⟨p, hfind, hres⟩, hpools, hseq, hall⟩ := swap_conserves h
  have hs' := decode_ok hs
  have hr' := decode_ok hr
  subst hs'; subst hr'
  obtain ⟨hmem, _⟩ := mem_of_poolByCounter hfind
  have hesc : p.escrow = esc := by
    have := hW.reserveOk p hmem
    rw [hres] at this; injection this with this; exact this.symm
  subst hesc
  have hfind' : s.poolByCounter (if m.inDenom == s.std then m.outDenom else m.inDenom) = some p := hfind
  obtain ⟨ht, hf, hsup⟩ := hall [m.inAddr.bytes, m.outAddr.bytes, p.escrow].eraseDups (nodup_eraseDups _)
    (by simp) (by simp) (by simp)
  simp only [c02_swap, swapMsgOf, parties, hfind']
  simp only [Bool.not_true, Bool.false_or, Bool.and_eq_true, List.all_eq_true,
    frameOutside, total, Bool.or_eq_true, beq_iff_eq]
  refine ⟨⟨⟨?_, ?_⟩, hpools.symm⟩, hseq.symm⟩
  · intro k _
    cases hc : [m.inAddr.bytes, m.outAddr.bytes, p.escrow].eraseDups.contains k.1 with
    | true => exact Or.inl rfl
    | false => exact Or.inr (hf k.1 k.2 hc).symm
  · intro d _
    exact ⟨(ht d).symm, (hsup d).symm⟩

/-! ## non-vacuity: each kind of message succeeds on a concrete non-trivial state -/

example : (step exEnv exState exSell).toBool = true := by decide +kernel
example : (step exEnv exState exBuy).toBool = true := by decide +kernel
example : (step exEnv exState exAdd).toBool = true := by decide +kernel
example : (step exEnv exState exRemove).toBool = true := by decide +kernel

end Coinswap
end CV
