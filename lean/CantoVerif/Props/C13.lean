import CantoVerif.Spec.Epochs
import CantoVerif.Proofs.InflationBlock
import CantoVerif.Proofs.InflationMonitors
import Mathlib.Tactic.Linarith
import Mathlib.Tactic.Ring
/-!
# C13 — inflation follows the published decay schedule, one period per fixed mint count.

Formula part (all parameters, all periods — no bound —, all bonded ratios, all epochs-per-period):
`provision_formula`, `provision_total` (never negative: the only possible rejections are 315-bit
overflow), `incentive_range` (exactly, not up to rounding), `provision_range`, `provision_antitone`
(needs `Dec.powerN_antitone`: square-and-multiply with a rounding after every multiplication is still
monotone in the exponent).

Schedule part (all histories of the composed system with the daily identifier configured):
`period_count` — `period = ⌊mints / E⌋` and `CurrentEpoch(day) − 1 = mints + skipped` hold after
every sequence of blocks (any times), parameter updates (enabling/disabling at arbitrary points) and
transfers; `provision_changes_only_at_boundaries`.
-/
namespace CV
namespace Inflation
open Epochs Dec

variable {env : Env}

/-! ## the formula -/

/-- **provision_formula**: a successful run of the code's computation (guards, order of operations and roundings
as in `CalculateEpochMintProvision`) returns the closed form
`((a ⊗ (1−r)^⊗x ⊕ c) ⊗ (1 + v − min(b,t) ⊗ (v ⊘ t)) ⊘ E) ⊗ 10^18`. -/
theorem provision_formula {p : Params} {x epp b v : Nat} (h : provision p x epp b = .ok v) :
    v = mulN (quoN (mulN (mulN p.a (powerN (S18 - p.r) x) + p.c)
                         (S18 + p.maxVariance - mulN (capBonded b p.bondingTarget) (quoN p.maxVariance p.bondingTarget)))
                   (ofIntN epp)) (ofIntN S18) :=
  (provision_ok h).1

example : provision { mintDenom := "acanto", a := 16304348 * S18, r := 350000000000000000, c := 0, bondingTarget := 800000000000000000,
                      maxVariance := 0, stakingRewards := S18, communityPool := 0, enable := true } 1 30 0
    = .ok 353260873333333333333333000000000000000000 := by decide +kernel

/-- **incentive_range**: for valid parameters and *every* bonded ratio the bonding incentive lies in `[1, 1 + v]`
exactly: the subtracted term `min(b,t) ⊗ (v ⊘ t)` never exceeds `v`, roundings included. -/
theorem incentive_range (p : Params) (b : Nat) (hv : p.valid = true) :
    S18 ≤ incentiveN p b ∧ incentiveN p b ≤ S18 + p.maxVariance := by
  have := subN_le p b hv
  unfold incentiveN
  omega

example : ({ mintDenom := "acanto", a := 1, r := 1, c := 0, bondingTarget := 333333333333333333, maxVariance := 4523943329250419244,
             stakingRewards := S18, communityPool := 0, enable := true } : Params).valid = true := by decide +kernel

/-- **provision_total** (`provision_nonneg`): for valid parameters and positive epochs-per-period the computation
never produces a negative intermediate or final value and never divides by zero — the only rejection it can end
in is the 315-bit overflow panic of `LegacyDec`. -/
theorem provision_total (p : Params) (x epp b : Nat) (hv : p.valid = true) (hE : 0 < epp) :
    OnlyErr IsOverflow (provision p x epp b) := by
  have hsub := subN_le p b hv
  simp only [Params.valid, Bool.and_eq_true, decide_eq_true_eq] at hv
  obtain ⟨⟨⟨⟨_, hr⟩, _⟩, ht0⟩, _⟩ := hv
  unfold provision
  refine onlyErr_bind (onlyErr_sub _ _ hr) (fun decay _ => ?_)
  refine onlyErr_bind (onlyErr_power _ _) (fun pw _ => ?_)
  refine onlyErr_bind (onlyErr_mul _ _) (fun t _ => ?_)
  refine onlyErr_bind (onlyErr_add _ _) (fun ed _ => ?_)
  dsimp only
  refine onlyErr_bind (onlyErr_quo _ _ (by omega)) (fun q hq => ?_)
  refine onlyErr_bind (onlyErr_mul _ _) (fun sub hs => ?_)
  refine onlyErr_bind (onlyErr_add _ _) (fun onePlus ho => ?_)
  have e1 := (Dec.quo_ok hq).1
  have e2 := Dec.mul_ok hs
  have e3 := Dec.add_ok ho
  have hle : sub ≤ onePlus := by
    rw [e2, e1, e3]
    have : mulN (capBonded b p.bondingTarget) (quoN p.maxVariance p.bondingTarget) = subN p b := rfl
    rw [this]
    show subN p b ≤ S18 + p.maxVariance
    omega
  refine onlyErr_bind (onlyErr_sub _ _ hle) (fun inc _ => ?_)
  refine onlyErr_bind (onlyErr_mul _ _) (fun pp _ => ?_)
  have hepp : ofIntN epp ≠ 0 := by
    unfold ofIntN
    have : 0 < S18 := by decide
    exact Nat.ne_of_gt (Nat.mul_pos hE this)
  refine onlyErr_bind (onlyErr_quo _ _ hepp) (fun ep _ => ?_)
  exact onlyErr_mul _ _

theorem scaleN_mono_left (y y' inc epp : Nat) (h : y ≤ y') : scaleN y inc epp ≤ scaleN y' inc epp :=
  mulN_mono_left _ (quoN_mono_left _ (mulN_mono_left _ h))

theorem scaleN_mono_right (y inc inc' epp : Nat) (h : inc ≤ inc') : scaleN y inc epp ≤ scaleN y inc' epp :=
  mulN_mono_left _ (quoN_mono_left _ (mulN_mono_right _ h))

/-- the decayed amount `a ⊗ (1−r)^⊗x ⊕ c` never increases with the period -/
theorem decayed_antitone (p : Params) (x : Nat) : decayedN p (x + 1) ≤ decayedN p x := by
  unfold decayedN
  exact Nat.add_le_add_right (mulN_mono_right _ (powerN_antitone _ x (Nat.sub_le _ _))) _

/-- **provision_antitone**: for fixed parameters, bonded ratio and epochs-per-period the provision of period
`x+1` is not larger than that of period `x`, for **every** period `x` (no bound), with the code's own rounding. -/
theorem provision_antitone (p : Params) (x epp b : Nat) : provisionN p (x + 1) epp b ≤ provisionN p x epp b :=
  scaleN_mono_left _ _ _ _ (decayed_antitone p x)

/-- the same for the guarded computation the keeper runs -/
theorem provision_antitone_run {p : Params} {x epp b v0 v1 : Nat}
    (h0 : provision p x epp b = .ok v0) (h1 : provision p (x + 1) epp b = .ok v1) : v1 ≤ v0 := by
  rw [(provision_ok h0).1, (provision_ok h1).1]
  exact provision_antitone p x epp b

/-- ... and between any two periods -/
theorem provision_antitone_le (p : Params) (epp b : Nat) {x y : Nat} (h : x ≤ y) : provisionN p y epp b ≤ provisionN p x epp b := by
  induction h with
  | refl => exact Nat.le_refl _
  | step _ ih => exact Nat.le_trans (provision_antitone p _ epp b) ih

/-- **provision_range**: the provision lies between the formula's values for incentive 1 and incentive `1 + v` -/
theorem provision_range (p : Params) (x epp b : Nat) (hv : p.valid = true) :
    scaleN (decayedN p x) S18 epp ≤ provisionN p x epp b ∧ provisionN p x epp b ≤ scaleN (decayedN p x) (S18 + p.maxVariance) epp := by
  obtain ⟨h1, h2⟩ := incentive_range p b hv
  exact ⟨scaleN_mono_right _ _ _ _ h1, scaleN_mono_right _ _ _ _ h2⟩

-- extreme decay r = 1 − 10^-18, bonded ratio below target, positive variance: (16304348·10^-18 + 5)·1.15/30
example : provision { mintDenom := "acanto", a := 16304348 * S18, r := S18 - 1, c := 5 * S18, bondingTarget := 800000000000000000,
                      maxVariance := 400000000000000000, stakingRewards := S18, communityPool := 0, enable := true } 1 30 500000000000000000
    = .ok 191666666667291667000000000000000000 := by decide +kernel

/-! ## the schedule -/

/-- the boundary test of the listener, under the counting invariant: with `n = 2 + mints + skipped` (the number of
the epoch that starts) and `period = ⌊mints/E⌋`, the test fires exactly when the mint just made is the
`E·(period+1)`-th, i.e. `⌊(mints+1)/E⌋ = period + 1`. -/
theorem boundary_arith (m E sk : Nat) (hE : 0 < E) :
    (periodPassed (2 + (m : Int) + (sk : Int)) E (m / E) sk = true → (m + 1) / E = m / E + 1) ∧
    (periodPassed (2 + (m : Int) + (sk : Int)) E (m / E) sk = false → (m + 1) / E = m / E) := by
  unfold periodPassed
  have hdm := Nat.div_add_mod m E
  have hlt := Nat.mod_lt m hE
  generalize hq : m / E = q at *
  generalize hr : m % E = r at *
  have hcast : (m : Int) = (E : Int) * (q : Int) + (r : Int) := by rw [← hdm]; push_cast; ring
  constructor
  · intro h
    simp only [decide_eq_true_eq] at h
    have hr1 : r + 1 = E := by
      have : (r : Int) + 1 ≥ (E : Int) := by linarith
      omega
    have : m + 1 = E * (q + 1) := by rw [← hdm, Nat.mul_add]; omega
    rw [this, Nat.mul_div_cancel_left _ hE]
  · intro h
    simp only [decide_eq_false_iff_not, not_lt] at h
    have hr1 : r + 1 < E := by
      have : (r : Int) + 1 < (E : Int) := by linarith
      omega
    have : m + 1 = E * q + (r + 1) := by rw [← hdm]; omega
    rw [this, Nat.mul_add_div hE, Nat.div_eq_of_lt hr1]
    rfl

/-- counting invariant of the composed state (daily epochs configured) -/
structure CountInv (s : State) : Prop where
  nodup : (s.infos.map (·.id)).Nodup
  day : s.infl.epochId = dayId
  epp : 0 < s.infl.epp
  /-- the period is the number of minting epochs divided by epochs-per-period -/
  period : s.infl.period = s.infl.mints / s.infl.epp
  /-- every daily epoch that has ended was either a minting or a skipped one -/
  count : ∀ e ∈ s.infos, e.id = dayId →
    (e.started = true → e.cur = 1 + (s.infl.mints : Int) + (s.infl.skipped : Int)) ∧
    (e.started = false → s.infl.mints + s.infl.skipped = 0)

theorem effId_day {s : Infl} (h : s.epochId = dayId) : effId s = dayId := by
  unfold effId; rw [h]; split <;> rfl

theorem countInv_block (hE : EnvOK env) {s s' : State} {now h : Int} {r : Resp} (hI : CountInv s)
    (hstep : step env s (.block now h) = .ok (s', r)) : CountInv s' := by
  obtain ⟨hinfos, _, _, _, hcase⟩ := block_cases hE hI.nodup hstep
  have hn : (s'.infos.map (·.id)).Nodup := by rw [hinfos, map_advance_ids]; exact hI.nodup
  have heff := effId_day hI.day
  rw [heff] at hcase
  -- the day record, if any, and what happens to it
  cases hf : s.infos.find? (fun e => e.id == dayId) with
  | none =>
    rw [hf] at hcase
    simp only at hcase
    refine ⟨hn, by rw [hcase]; exact hI.day, by rw [hcase]; exact hI.epp, by rw [hcase]; exact hI.period, ?_⟩
    intro e' he' hid'
    rw [hinfos] at he'
    obtain ⟨e, he, rfl⟩ := List.mem_map.1 he'
    rw [advance_id] at hid'
    exact absurd hid' (find_id_none hf e he)
  | some e0 =>
    rw [hf] at hcase
    simp only at hcase
    obtain ⟨hm0, hid0⟩ := find_id_some hf
    obtain ⟨c1, c2⟩ := hI.count e0 hm0 hid0
    -- every day record of the post-state is `advance e0`
    have huniq : ∀ e' ∈ s'.infos, e'.id = dayId → e' = advance now h e0 := by
      intro e' he' hid'
      rw [hinfos] at he'
      obtain ⟨e, he, rfl⟩ := List.mem_map.1 he'
      rw [advance_id] at hid'
      rw [nodup_ids_unique s.infos hI.nodup e e0 he hm0 (by rw [hid', hid0])]
    by_cases ht : action e0 now = .tick
    · simp only [ht, if_true] at hcase
      have hs0 := ((action_tick_iff e0 now).1 ht).1
      have hadv : advance now h e0 = endEpoch e0 h := by unfold advance; rw [ht]
      have hcur := c1 hs0
      rcases afterEpochEnd_cases hE hcase with ⟨_, h2, _⟩ | ⟨_, _, e⟩ | ⟨hen, h2, _⟩ | ⟨_, _, M⟩
      · exact absurd rfl h2
      · refine ⟨hn, by rw [e]; exact hI.day, by rw [e]; exact hI.epp, by rw [e]; exact hI.period, ?_⟩
        intro e' he' hid'
        rw [huniq e' he' hid', hadv, e]
        simp only [endEpoch, hs0, true_implies]
        exact ⟨by push_cast; omega, fun hc => by cases hc⟩
      · exact absurd hI.day.symm h2
      · refine ⟨hn, by rw [M.epochId]; exact hI.day, by rw [M.epp]; exact hI.epp, ?_, ?_⟩
        · rw [M.mints, M.epp]
          have hb := boundary_arith s.infl.mints s.infl.epp s.infl.skipped hI.epp
          have hn' : e0.cur + 1 = 2 + (s.infl.mints : Int) + (s.infl.skipped : Int) := by omega
          have B := M.boundary
          rw [hn', hI.period] at B
          cases hpp : periodPassed (2 + (s.infl.mints : Int) + (s.infl.skipped : Int)) s.infl.epp (s.infl.mints / s.infl.epp) s.infl.skipped with
          | true => rw [(B.1 hpp).1, hb.1 hpp]
          | false => rw [(B.2 hpp).1, hb.2 hpp]
        · intro e' he' hid'
          rw [huniq e' he' hid', hadv, M.mints, M.skipped]
          simp only [endEpoch, hs0, true_implies]
          exact ⟨by push_cast; omega, fun hc => by cases hc⟩
    · simp only [ht, if_false] at hcase
      refine ⟨hn, by rw [hcase]; exact hI.day, by rw [hcase]; exact hI.epp, by rw [hcase]; exact hI.period, ?_⟩
      intro e' he' hid'
      rw [huniq e' he' hid', hcase]
      cases hact : action e0 now with
      | tick => exact absurd hact ht
      | idle =>
        have : advance now h e0 = e0 := by unfold advance; rw [hact]
        rw [this]; exact ⟨c1, c2⟩
      | start =>
        have hs0 := ((action_start_iff e0 now).1 hact).1
        have : advance now h e0 = startInitial e0 h := by unfold advance; rw [hact]
        rw [this]
        simp only [startInitial, true_implies]
        have := c2 hs0
        exact ⟨by omega, fun hc => by cases hc⟩

theorem countInv_exec (hE : EnvOK env) (s : State) (op : Op) (hI : CountInv s) : CountInv (exec env s op) := by
  unfold exec deliver
  split
  · rename_i s' r hstep
    cases op with
    | block now h => exact countInv_block hE hI hstep
    | send src dst d amt =>
      simp only [step] at hstep
      obtain ⟨b, _, hstep⟩ := bind_ok hstep
      injection hstep with hstep
      simp only [Prod.mk.injEq] at hstep
      obtain ⟨rfl, _⟩ := hstep
      exact ⟨hI.nodup, hI.day, hI.epp, hI.period, hI.count⟩
    | updateParams auth p =>
      simp only [step] at hstep
      obtain ⟨_, _, hstep⟩ := bind_ok hstep
      obtain ⟨_, _, hstep⟩ := bind_ok hstep
      injection hstep with hstep
      simp only [Prod.mk.injEq] at hstep
      obtain ⟨rfl, _⟩ := hstep
      exact ⟨hI.nodup, hI.day, hI.epp, hI.period, hI.count⟩
    | sample p x epp b =>
      simp only [step] at hstep
      obtain ⟨_, _, hstep⟩ := bind_ok hstep
      injection hstep with hstep
      simp only [Prod.mk.injEq] at hstep
      obtain ⟨rfl, _⟩ := hstep
      exact hI
  · exact hI

/-- **period_count** (all histories; block times arbitrary, enable/disable schedule arbitrary, any positive
epochs-per-period): `period = ⌊mints / E⌋` — the period counter advances by one exactly after every `E`-th
minting epoch, skipped epochs excluded — and for the daily record `CurrentEpoch − 1 = mints + skipped`. -/
theorem period_count (hE : EnvOK env) (ops : List Op) (s : State) (hI : CountInv s) : CountInv (run env s ops) :=
  foldl_inv (exec env) CountInv (fun s o h => countInv_exec hE s o h) ops s hI

/-- a fresh genesis state satisfies the invariant: nobody counting, no mints, nothing skipped, period 0 -/
theorem countInv_fresh (s : State) (hn : (s.infos.map (·.id)).Nodup) (hd : s.infl.epochId = dayId) (he : 0 < s.infl.epp)
    (hu : ∀ e ∈ s.infos, e.started = false) (h0 : s.infl.mints = 0 ∧ s.infl.skipped = 0 ∧ s.infl.period = 0) : CountInv s := by
  refine ⟨hn, hd, he, by rw [h0.2.2, h0.1]; simp, fun e hm _ => ⟨fun hs => ?_, fun _ => by omega⟩⟩
  rw [hu e hm] at hs; cases hs

/-- **provision_changes_only_at_boundaries** (listener level, every state): the period moves by at most one,
and the stored provision changes only when it does — to the formula's value for the new period. -/
theorem provision_changes_only_at_boundaries (hE : EnvOK env) {s s' : Infl} {id : String} {n : Int}
    (h : afterEpochEnd env s id n = .ok s') :
    (s'.period = s.period ∧ s'.provision = s.provision) ∨
    (s'.period = s.period + 1 ∧ ∃ ratio, bondedRatio env s'.bank = .ok ratio ∧
       s'.provision = provisionN s.params (s.period + 1) s.epp ratio) := by
  rcases afterEpochEnd_cases hE h with ⟨_, _, rfl⟩ | ⟨_, _, rfl⟩ | ⟨_, _, rfl⟩ | ⟨_, _, M⟩
  · exact Or.inl ⟨rfl, rfl⟩
  · exact Or.inl ⟨rfl, rfl⟩
  · exact Or.inl ⟨rfl, rfl⟩
  · cases hpp : periodPassed n s.epp s.period s.skipped with
    | true =>
      obtain ⟨a, ratio, b, c, _⟩ := M.boundary.1 hpp
      exact Or.inr ⟨a, ratio, b, c⟩
    | false => exact Or.inl (M.boundary.2 hpp)

/-- operations other than blocks never touch period, provision, the counters or the epoch records -/
theorem other_ops_frame {s s' : State} {op : Op} {r : Resp} (h : step env s op = .ok (s', r))
    (hop : ∀ now ht, op ≠ .block now ht) :
    s'.infl.period = s.infl.period ∧ s'.infl.provision = s.infl.provision ∧ s'.infl.skipped = s.infl.skipped ∧
    s'.infl.mints = s.infl.mints ∧ s'.infos = s.infos := by
  cases op with
  | block now ht => exact absurd rfl (hop now ht)
  | send src dst d amt =>
    simp only [step] at h
    obtain ⟨b, _, h⟩ := bind_ok h
    injection h with h
    simp only [Prod.mk.injEq] at h
    obtain ⟨rfl, _⟩ := h
    exact ⟨rfl, rfl, rfl, rfl, rfl⟩
  | updateParams auth p =>
    simp only [step] at h
    obtain ⟨_, _, h⟩ := bind_ok h
    obtain ⟨_, _, h⟩ := bind_ok h
    injection h with h
    simp only [Prod.mk.injEq] at h
    obtain ⟨rfl, _⟩ := h
    exact ⟨rfl, rfl, rfl, rfl, rfl⟩
  | sample p x epp b =>
    simp only [step] at h
    obtain ⟨_, _, h⟩ := bind_ok h
    injection h with h
    simp only [Prod.mk.injEq] at h
    obtain ⟨rfl, _⟩ := h
    exact ⟨rfl, rfl, rfl, rfl, rfl⟩

/-! ### non-vacuity, and the excluded configuration -/

def exEnv : Env := ⟨"i", "f", "d", "b", "stake"⟩
def exParams (en : Bool) : Params :=
  { mintDenom := "acanto", a := 100 * S18, r := 500000000000000000, c := 0, bondingTarget := S18, maxVariance := 0,
    stakingRewards := 300000000000000000, communityPool := 700000000000000000, enable := en }
def exState (eid : String) (en : Bool) : State :=
  { infos := [⟨"day", 0, 10, 0, 0, false, 0⟩, ⟨"week", 0, 70, 0, 0, false, 0⟩],
    infl := { bank := ⟨⟨[]⟩, ⟨[]⟩, ["i", "f", "d"]⟩, pool := ⟨[]⟩, params := exParams en, period := 0, epochId := eid, epp := 2,
              skipped := 0, provision := 50 * S18 * S18, mints := 0, skips := 0, issued := [] },
    lastNow := 0, hist := [] }

def exParamsIn (en : Bool) : ParamsIn :=
  { mintDenom := "acanto", a := 100 * S18, r := 500000000000000000, c := 0, bondingTarget := S18, maxVariance := 0,
    stakingRewards := 300000000000000000, communityPool := 700000000000000000, enable := en }

/-- daily epochs, E = 2, a disabled stretch in the middle: 5 day-epochs end, 3 mint, 2 are skipped, period = ⌊3/2⌋ = 1,
and the provision was halved at the boundary (r = 0.5) -/
example :
    let s := run exEnv (exState "day" true)
      [.block 0 1, .block 11 2, .updateParams true (exParamsIn false), .block 21 3, .block 31 4,
       .updateParams true (exParamsIn true), .block 41 5, .block 51 6]
    (s.infl.mints, s.infl.skipped, s.infl.period, s.infl.provision, s.infl.bank.supply "acanto", (s.infos.map (·.cur))) =
    (3, 2, 1, 25 * S18 * S18, 125 * S18, [6, 1]) := by decide +kernel

/-- **excluded configuration** (why the property speaks of daily epochs): with `identifier = "week"` the skipped
counter still counts *day* epochs while disabled, so `CurrentEpoch(week) − 1 = mints + skipped` fails -/
example :
    let s := run exEnv (exState "week" false) [.block 0 1, .block 11 2, .block 21 3]
    (s.infl.mints, s.infl.skipped, (s.infos.map (·.cur))) = (0, 2, [3, 1]) := by decide +kernel

/-! ## the monitors of `Spec/Epochs.lean` on the model's transitions -/

open Spec in
/-- the three monitors of the pure function hold on every successful `sample` transition of the model -/
theorem c13_sample_monitors_model {s s' : State} {p : Params} {x epp b : Nat} {r : Resp}
    (hstep : step env s (.sample p x epp b) = .ok (s', r)) :
    let t : Tr := { env := env, pre := s, op := .sample p x epp b, ok := true, resp := r, post := s', logKnown := true, negative := false }
    c13_calc_formula t = true ∧ c13_calc_range t = true ∧ c13_calc_antitone t = true := by
  simp only [step] at hstep
  obtain ⟨v, hv, hstep⟩ := bind_ok hstep
  injection hstep with hstep
  simp only [Prod.mk.injEq] at hstep
  obtain ⟨rfl, rfl⟩ := hstep
  have e0 := (provision_ok hv).1
  intro t
  refine ⟨?_, ?_, ?_⟩
  · simp only [c13_calc_formula, t, Bool.not_true, Bool.false_or, Bool.and_eq_true, beq_iff_eq]
    refine ⟨e0, ?_⟩
    cases h1 : provision p (x + 1) epp b with
    | error e => rfl
    | ok w => simp only [beq_iff_eq]; exact (provision_ok h1).1
  · simp only [c13_calc_range, t, Bool.not_true, Bool.false_or]
    cases hval : p.valid with
    | false => rfl
    | true =>
      simp only [Bool.not_true, Bool.false_or, Bool.and_eq_true, decide_eq_true_eq]
      rw [e0]; exact provision_range p x epp b hval
  · simp only [c13_calc_antitone, t]
    cases h1 : provision p (x + 1) epp b with
    | error e => rfl
    | ok w =>
      simp only [Bool.not_true, Bool.false_or, Bool.or_eq_true, decide_eq_true_eq]
      right; exact provision_antitone_run hv h1

/-- **provision_integral**: the formula always yields a whole number of base units (its last step multiplies by
`10^18` exactly), so in every state the code itself produces `⌊provision⌋ = provision`: truncation only matters for
a provision written by other means (the correspondence run injects such states on purpose) -/
theorem provision_integral (p : Params) (x epp b : Nat) : S18 ∣ provisionN p x epp b := by
  unfold provisionN scaleN
  rw [mulN_ofInt]
  exact Dvd.intro_left _ rfl

open Spec in
/-- the block-level C13 monitors hold on every successful block transition of the model; `period_count` from a
state satisfying the counting invariant -/
theorem c13_block_monitors_model (hE : EnvOK env) {s s' : State} {now h : Int} {log : List Call}
    (hnd : (s.infos.map (·.id)).Nodup) (hstep : step env s (.block now h) = .ok (s', .block log)) :
    let t : Tr := { env := env, pre := s, op := .block now h, ok := true, resp := .block log, post := s', logKnown := true, negative := false }
    (CountInv s → c13_period_count t = true) ∧ c13_period_step t = true ∧ c13_provision_boundary t = true ∧ c13_nonneg t = true := by
  intro t
  refine ⟨?_, ?_, ?_, rfl⟩
  · intro hI
    have hI' := countInv_block hE hI hstep
    simp only [c13_period_count, onBlock, t, Bool.not_true, Bool.false_or, Bool.or_eq_true, beq_iff_eq]
    right; exact hI'.period
  · simp only [c13_period_step, t, Bool.not_true, Bool.false_or, Bool.or_eq_true, Bool.and_eq_true, beq_iff_eq]
    rcases block_summary hE hnd hstep t rfl rfl with ⟨hen, htk, n, M⟩ | ⟨_, _, hsame⟩ | ⟨_, _, hskip⟩ | ⟨_, _, hsame⟩
    · cases hpp : periodPassed n s.infl.epp s.infl.period s.infl.skipped with
      | true =>
        right
        exact ⟨(M.boundary.1 hpp).1, by simp only [minting]; rw [hen]; exact htk⟩
      | false => left; exact (M.boundary.2 hpp).1
    · left; rw [hsame]
    · left; rw [hskip]
    · left; rw [hsame]
  · simp only [c13_provision_boundary, t, Bool.not_true, Bool.false_or]
    rcases block_summary hE hnd hstep t rfl rfl with ⟨hen, htk, n, M⟩ | ⟨_, _, hsame⟩ | ⟨_, _, hskip⟩ | ⟨_, _, hsame⟩
    · cases hpp : periodPassed n s.infl.epp s.infl.period s.infl.skipped with
      | true =>
        obtain ⟨hp, ratio, hr, hv, _⟩ := M.boundary.1 hpp
        have : (s'.infl.period == s.infl.period) = false := by rw [hp]; simp
        simp only [this, Bool.false_eq_true, if_false, hr, beq_iff_eq]
        rw [hv, hp]
      | false =>
        obtain ⟨hp, hv⟩ := M.boundary.2 hpp
        simp [hp, hv]
    · simp [hsame]
    · simp [hskip]
    · simp [hsame]

open Spec in
/-- transfers and parameter updates never move the period or the provision -/
theorem c13_other_monitors_model {s s' : State} {op : Op} {r : Resp} (hstep : step env s op = .ok (s', r))
    (hop : ∀ now ht, op ≠ .block now ht) :
    let t : Tr := { env := env, pre := s, op := op, ok := true, resp := r, post := s', logKnown := true, negative := false }
    c13_period_step t = true ∧ c13_provision_boundary t = true := by
  intro t
  obtain ⟨h1, h2, _, _, _⟩ := other_ops_frame hstep hop
  constructor
  · simp only [c13_period_step, t, Bool.not_true, Bool.false_or]
    cases op with
    | block now ht => exact absurd rfl (hop now ht)
    | send _ _ _ _ => simp [h1]
    | updateParams _ _ => simp [h1]
    | sample _ _ _ _ => simp [h1]
  · show c13_provision_boundary { env := env, pre := s, op := op, ok := true, resp := r, post := s', logKnown := true, negative := false } = true
    simp [c13_provision_boundary, h1, h2]

end Inflation
end CV
