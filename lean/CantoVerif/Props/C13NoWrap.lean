import CantoVerif.Props.C13
import CantoVerif.Props.C12
import CantoVerif.Bridge.InflationConds
/-!
# C13 — the no-wrap hypotheses of `Bridge.Inflation.periodPassed_nowrap` hold in every reachable state.

`periodPassed_nowrap` shows that the period-boundary test of `AfterEpochEnd` as compiled over `int64`/`uint64`
(`Gen.InflationConds.periodPassed`) equals the model's unbounded test as long as `|n| < 2^61`, `epp·period < 2^61`,
`skipped < 2^61`, `epp, period < 2^62`.  This file discharges those range hypotheses for the states the model can
reach, in terms of the one quantity that grows: the number of blocks (`blocks ops`).

1. **Block-count bounds.**
   * `Epochs.runInfo_cur_le`, `Epochs.beginBlock_cur_le` (epochs module alone, any listeners) and `cur_block_bound`
     (composed model, *no* hypothesis on the state or the wiring): `e.cur ≤ B` for all records initially ⇒
     `e.cur ≤ B + blocks ops` after any history.  `B : Nat` on purpose: a record whose stored number is negative
     jumps to 1 when it starts, so `cur ≤ cur₀ + blocks` is false for `cur₀ < 0` (example at the end: −5 ↦ 1).
   * `counters_block_bound`: with unique identifiers (the only hypothesis — store keys are unique; `EnvOK` is not
     needed) identifiers stay unique, `epp` is constant and `mints + skipped ≤ mints₀ + skipped₀ + blocks ops`.
     No operation of the model other than an accepted block moves a counter (`send`, `updateParams`, `sample`,
     rejected operations leave `mints`, `skipped`, `period`, `epp` and the records alone; the model has no
     genesis-import or setter operation).  **Uniqueness is necessary**: with two records called `"day"` three
     blocks give `skipped = 4 > 3` (example at the end, by `decide`).
   * `block_count_bound`: both, from one initial bound `B0`.
2. `period_product_bound`: under `CountInv`, `epp·period ≤ mints ≤ mints₀ + skipped₀ + blocks ops` (and the same
   bound for `period` and `skipped`).
3. `boundary_test_faithful_state` (every reachable state, every `n` with `−2^61 ≤ n < 2^61`) and
   `boundary_test_faithful` (**call form**): for a history from a `CountInv` state with
   `mints₀ + skipped₀ + blocks ops < 2^60` and `epp < 2^60`, if the next block is accepted and the daily record `e`
   ticks in it, then the one effective listener call of that block is `AfterEpochEnd("day", e.cur + 1)` on the
   listener state the history left, `e.cur + 1 = 2 + mints + skipped`, and the machine-integer test evaluated there
   equals the model's.  (The initial bound is `mints₀ + skipped₀` rather than a separate `B0`: under `CountInv`
   the daily record's number is `1 + mints + skipped`, so no hypothesis on `cur` is needed; any `B0 ≥ mints₀ +
   skipped₀` with `B0 + blocks ops < 2^60` implies the hypothesis used.)  At one block per second 2^60 blocks
   are 36 billion years.
-/
namespace CV
namespace Epochs

/-! ## the epochs module alone -/

theorem advance_cur_le (now h : Int) (e : EpochInfo) (B : Nat) (hc : e.cur ≤ (B : Int)) :
    (advance now h e).cur ≤ ((B + 1 : Nat) : Int) := by
  unfold advance
  cases action e now <;> simp only [startInitial, endEpoch] <;> omega

/-- one `BeginBlocker`, any listeners: every epoch number moves up by at most one (or is set to 1) -/
theorem beginBlock_cur_le {σ : Type} (H : Hooks σ) (now height : Int) (infos infos' : List EpochInfo) (st st' : σ) (log : List Call)
    (hb : beginBlock H now height infos st = .ok (infos', st', log)) (B : Nat) (hB : ∀ e ∈ infos, e.cur ≤ (B : Int)) :
    ∀ e ∈ infos', e.cur ≤ ((B + 1 : Nat) : Int) := by
  intro e' he'
  rw [(beginBlock_ok H now height infos st infos' st' log hb).1] at he'
  obtain ⟨e, he, rfl⟩ := List.mem_map.1 he'
  exact advance_cur_le now height e B (hB e he)

/-- **epochs_cur_block_bound**: a record after any sequence of blocks (any times, any heights):
`CurrentEpoch ≤ B + number of blocks` for every natural bound `B` of the initial number -/
theorem runInfo_cur_le (e : EpochInfo) : ∀ (bs : List Blk) (B : Nat), e.cur ≤ (B : Int) →
    (runInfo e bs).cur ≤ ((B + bs.length : Nat) : Int) := by
  intro bs
  induction bs generalizing e with
  | nil => intro B h; exact h
  | cons b bs ih =>
    intro B h
    have := ih (advance b.1 b.2 e) (B + 1) (advance_cur_le b.1 b.2 e B h)
    simp only [List.length_cons]
    show (runInfo (advance b.1 b.2 e) bs).cur ≤ _
    omega

/-- the bound is attained: a record three durations behind catches up one epoch per block -/
example : (runInfo ⟨"day", 0, 10, 1, 0, true, 0⟩ [(100, 1), (100, 2), (100, 3)]).cur = 1 + 3 := by decide

end Epochs
end CV

namespace CV
namespace Inflation
open Epochs

variable {env : Env}

/-- the number of `.block` operations of a history -/
def blocks : List Op → Nat
  | [] => 0
  | .block _ _ :: ops => blocks ops + 1
  | _ :: ops => blocks ops

/-- what one operation adds to the block count -/
def opBlocks : Op → Nat
  | .block _ _ => 1
  | _ => 0

theorem blocks_cons (op : Op) (ops : List Op) : blocks (op :: ops) = opBlocks op + blocks ops := by
  cases op <;> simp [blocks, opBlocks, Nat.add_comm]

/-- every epoch number is at most `B` -/
def CurBounded (B : Nat) (s : State) : Prop := ∀ e ∈ s.infos, e.cur ≤ (B : Int)

theorem CurBounded.mono {B B' : Nat} {s : State} (h : CurBounded B s) (hle : B ≤ B') : CurBounded B' s :=
  fun e he => by have := h e he; omega

/-! ## (1a) epoch numbers: no hypothesis on the state at all -/

/-- the records after one operation: a successful block advances each, everything else leaves them alone -/
theorem exec_infos (env : Env) (s : State) (op : Op) :
    (exec env s op).infos = s.infos ∨ ∃ now h, op = .block now h ∧ (exec env s op).infos = s.infos.map (advance now h) := by
  unfold exec deliver
  split
  · rename_i s' r hstep
    cases op with
    | block now h =>
      right
      simp only [step] at hstep
      obtain ⟨res, hb, hstep⟩ := bind_ok hstep
      injection hstep with hstep
      simp only [Prod.mk.injEq] at hstep
      obtain ⟨rfl, _⟩ := hstep
      obtain ⟨infos', infl', log⟩ := res
      exact ⟨now, h, rfl, (beginBlock_ok _ _ _ _ _ _ _ _ hb).1⟩
    | send src dst d amt =>
      simp only [step] at hstep
      obtain ⟨b, _, hstep⟩ := bind_ok hstep
      injection hstep with hstep
      simp only [Prod.mk.injEq] at hstep
      obtain ⟨rfl, _⟩ := hstep
      exact Or.inl rfl
    | updateParams auth p =>
      simp only [step] at hstep
      obtain ⟨_, _, hstep⟩ := bind_ok hstep
      obtain ⟨_, _, hstep⟩ := bind_ok hstep
      injection hstep with hstep
      simp only [Prod.mk.injEq] at hstep
      obtain ⟨rfl, _⟩ := hstep
      exact Or.inl rfl
    | sample p x epp b =>
      simp only [step] at hstep
      obtain ⟨_, _, hstep⟩ := bind_ok hstep
      injection hstep with hstep
      simp only [Prod.mk.injEq] at hstep
      obtain ⟨rfl, _⟩ := hstep
      exact Or.inl rfl
  · exact Or.inl rfl

theorem curBounded_exec (env : Env) (s : State) (op : Op) (B : Nat) (hB : CurBounded B s) : CurBounded (B + opBlocks op) (exec env s op) := by
  rcases exec_infos env s op with h | ⟨now, h, rfl, hi⟩
  · intro e he
    rw [h] at he
    have := hB e he
    omega
  · intro e' he'
    rw [hi] at he'
    obtain ⟨e, he, rfl⟩ := List.mem_map.1 he'
    exact advance_cur_le now h e B (hB e he)

/-- **cur_block_bound** (every state, every history — no invariant needed): an epoch number never exceeds its
initial bound plus the number of blocks.  (`B` is a natural number because counting starts at 1: a record with a
negative stored number jumps to 1 in its first block.) -/
theorem cur_block_bound (env : Env) : ∀ (ops : List Op) (s : State) (B : Nat), CurBounded B s → CurBounded (B + blocks ops) (run env s ops) := by
  intro ops
  induction ops with
  | nil => intro s B hB; exact hB
  | cons op ops ih =>
    intro s B hB
    have := ih (exec env s op) _ (curBounded_exec env s op B hB)
    rw [blocks_cons, ← Nat.add_assoc]
    exact this

/-! ## (1b) the hook's counters: unique identifiers needed -/

/-- the listener (no hypothesis on the wiring): parameters, identifier and `epp` are never touched, and
`mints + skipped` grows by at most one -/
theorem afterEpochEnd_counters {s s' : Infl} {id : String} {n : Int} (h : afterEpochEnd env s id n = .ok s') :
    s'.params = s.params ∧ s'.epochId = s.epochId ∧ s'.epp = s.epp ∧ s'.mints + s'.skipped ≤ s.mints + s.skipped + 1 := by
  unfold afterEpochEnd at h
  split at h
  · split at h
    · injection h with h; subst h; exact ⟨rfl, rfl, rfl, by omega⟩
    · injection h with h; subst h; exact ⟨rfl, rfl, rfl, by simp only; omega⟩
  · split at h
    · injection h with h; subst h; exact ⟨rfl, rfl, rfl, by omega⟩
    · obtain ⟨minted, _, h⟩ := bind_ok h
      obtain ⟨_, _, h⟩ := bind_ok h
      obtain ⟨bp, _, h⟩ := bind_ok h
      dsimp only at h
      split at h
      · obtain ⟨ratio, _, h⟩ := bind_ok h
        obtain ⟨np, _, h⟩ := bind_ok h
        injection h with h; subst h; exact ⟨rfl, rfl, rfl, by simp only; omega⟩
      · injection h with h; subst h; exact ⟨rfl, rfl, rfl, by simp only; omega⟩

theorem effId_congr {s s' : Infl} (h1 : s'.params = s.params) (h2 : s'.epochId = s.epochId) : effId s' = effId s := by
  unfold effId; rw [h1, h2]

/-- the notifications of one record -/
theorem calls_counters (now : Int) (x : EpochInfo) {st st' : Infl} (h : runCalls (hooks env) (calls now x) st = .ok st') :
    st'.params = st.params ∧ st'.epochId = st.epochId ∧ st'.epp = st.epp ∧
    st'.mints + st'.skipped ≤ st.mints + st.skipped + 1 := by
  unfold calls at h
  cases hact : action x now with
  | tick =>
    rw [hact] at h
    simp only [runCalls, hooks] at h
    obtain ⟨sa, ha, h⟩ := bind_ok h
    obtain ⟨sb, hb, h⟩ := bind_ok h
    injection h with h
    simp only [beforeEpochStart] at hb
    injection hb with hb
    subst hb h
    exact afterEpochEnd_counters ha
  | start =>
    rw [hact] at h
    simp only [runCalls, hooks, beforeEpochStart] at h
    obtain ⟨sb, hb, h⟩ := bind_ok h
    injection hb with hb; injection h with h
    subst hb h
    exact ⟨rfl, rfl, rfl, by omega⟩
  | idle =>
    rw [hact] at h
    simp only [runCalls] at h
    injection h with h
    subst h
    exact ⟨rfl, rfl, rfl, by omega⟩

/-- all notifications of one block, identifiers unique: at most one of them counts -/
theorem runCalls_counters (now : Int) : ∀ (infos : List EpochInfo) (st st' : Infl),
    (infos.map (·.id)).Nodup → runCalls (hooks env) (infos.flatMap (calls now)) st = .ok st' →
    st'.epp = st.epp ∧ st'.mints + st'.skipped ≤ st.mints + st.skipped + 1 := by
  intro infos
  induction infos with
  | nil =>
    intro st st' _ h
    simp only [List.flatMap_nil, runCalls] at h
    injection h with h
    subst h
    exact ⟨rfl, by omega⟩
  | cons x xs ih =>
    intro st st' hnd h
    simp only [List.map_cons, List.nodup_cons] at hnd
    simp only [List.flatMap_cons] at h
    rw [runCalls_append] at h
    obtain ⟨st1, h1, h2⟩ := bind_ok h
    by_cases hx : x.id = effId st
    · have hrest : ∀ e ∈ xs, e.id ≠ effId st := by
        intro e he heq
        exact hnd.1 (by rw [hx, ← heq]; exact List.mem_map_of_mem he)
      obtain ⟨c1, c2, c3, c4⟩ := calls_counters now x h1
      rw [runCalls_irrelevant env now xs st1 (by rw [effId_congr c1 c2]; exact hrest)] at h2
      injection h2 with h2
      subst h2
      exact ⟨c3, c4⟩
    · have : runCalls (hooks env) ([x].flatMap (calls now)) st = .ok st :=
        runCalls_irrelevant env now [x] st (by intro e he; simp at he; subst he; exact hx)
      simp only [List.flatMap_cons, List.flatMap_nil, List.append_nil] at this
      rw [this] at h1
      injection h1 with h1
      subst h1
      exact ih st st' hnd.2 h2

/-- one successful block: identifiers unchanged, `epp` unchanged, the counters move by at most one -/
theorem block_frame {s s' : State} {now h : Int} {r : Resp}
    (hnd : (s.infos.map (·.id)).Nodup) (hstep : step env s (.block now h) = .ok (s', r)) :
    (s'.infos.map (·.id)).Nodup ∧ s'.infl.epp = s.infl.epp ∧
    s'.infl.mints + s'.infl.skipped ≤ s.infl.mints + s.infl.skipped + 1 := by
  simp only [step] at hstep
  obtain ⟨res, hb, hstep⟩ := bind_ok hstep
  injection hstep with hstep
  simp only [Prod.mk.injEq] at hstep
  obtain ⟨rfl, _⟩ := hstep
  obtain ⟨infos', infl', log⟩ := res
  obtain ⟨rfl, rfl, hr⟩ := beginBlock_ok _ _ _ _ _ _ _ _ hb
  obtain ⟨c1, c2⟩ := runCalls_counters now s.infos s.infl infl' hnd hr
  exact ⟨by show ((s.infos.map (advance now h)).map (·.id)).Nodup; rw [map_advance_ids]; exact hnd, c1, c2⟩

/-- one operation of a history (accepted or rejected) -/
theorem exec_frame (env : Env) (s : State) (op : Op) (hnd : (s.infos.map (·.id)).Nodup) :
    ((exec env s op).infos.map (·.id)).Nodup ∧ (exec env s op).infl.epp = s.infl.epp ∧
    (exec env s op).infl.mints + (exec env s op).infl.skipped ≤ s.infl.mints + s.infl.skipped + opBlocks op := by
  unfold exec deliver
  split
  · rename_i s' r hstep
    cases op with
    | block now h =>
      exact block_frame hnd hstep
    | send src dst d amt =>
      simp only [step] at hstep
      obtain ⟨b, _, hstep⟩ := bind_ok hstep
      injection hstep with hstep
      simp only [Prod.mk.injEq] at hstep
      obtain ⟨rfl, _⟩ := hstep
      exact ⟨hnd, rfl, Nat.le_refl _⟩
    | updateParams auth p =>
      simp only [step] at hstep
      obtain ⟨_, _, hstep⟩ := bind_ok hstep
      obtain ⟨_, _, hstep⟩ := bind_ok hstep
      injection hstep with hstep
      simp only [Prod.mk.injEq] at hstep
      obtain ⟨rfl, _⟩ := hstep
      exact ⟨hnd, rfl, Nat.le_refl _⟩
    | sample p x epp b =>
      simp only [step] at hstep
      obtain ⟨_, _, hstep⟩ := bind_ok hstep
      injection hstep with hstep
      simp only [Prod.mk.injEq] at hstep
      obtain ⟨rfl, _⟩ := hstep
      exact ⟨hnd, rfl, Nat.le_refl _⟩
  · exact ⟨hnd, rfl, Nat.le_add_right _ _⟩

/-- **counters_block_bound**: with unique identifiers (store keys), over any history the identifiers stay unique,
`epochsPerPeriod` never changes, and `mints + skipped` grows by at most the number of blocks — each block ends at
most one epoch of the one identifier the listener reacts to; transfers, parameter updates (enable/disable) and
rejected operations add nothing. -/
theorem counters_block_bound (env : Env) : ∀ (ops : List Op) (s : State), (s.infos.map (·.id)).Nodup →
    ((run env s ops).infos.map (·.id)).Nodup ∧ (run env s ops).infl.epp = s.infl.epp ∧
    (run env s ops).infl.mints + (run env s ops).infl.skipped ≤ s.infl.mints + s.infl.skipped + blocks ops := by
  intro ops
  induction ops with
  | nil => intro s hnd; exact ⟨hnd, rfl, Nat.le_refl _⟩
  | cons op ops ih =>
    intro s hnd
    obtain ⟨h1, h2, h3⟩ := exec_frame env s op hnd
    obtain ⟨g1, g2, g3⟩ := ih (exec env s op) h1
    refine ⟨g1, by show (run env (exec env s op) ops).infl.epp = _; rw [g2, h2], ?_⟩
    show (run env (exec env s op) ops).infl.mints + (run env (exec env s op) ops).infl.skipped ≤ _
    rw [blocks_cons]
    omega

/-- (1) in the form asked for: both bounds from one initial bound `B0` -/
theorem block_count_bound (env : Env) (ops : List Op) (s : State) (B0 : Nat) (hnd : (s.infos.map (·.id)).Nodup)
    (h0 : s.infl.mints + s.infl.skipped ≤ B0) (h1 : ∀ e ∈ s.infos, e.cur ≤ (B0 : Int)) :
    (run env s ops).infl.mints + (run env s ops).infl.skipped ≤ B0 + blocks ops ∧
    ∀ e ∈ (run env s ops).infos, e.cur ≤ ((B0 + blocks ops : Nat) : Int) := by
  have := (counters_block_bound env ops s hnd).2.2
  exact ⟨by omega, cur_block_bound env ops s B0 h1⟩

/-! ## (2) the product `epp · period` -/

/-- **period_product_bound**: from the counting invariant, `epp · period ≤ mints`, hence both the product and the
period itself are bounded by the initial counters plus the number of blocks -/
theorem period_product_bound (hE : EnvOK env) (ops : List Op) (s : State) (hI : CountInv s) :
    let t := run env s ops
    t.infl.epp * t.infl.period ≤ t.infl.mints ∧
    t.infl.epp * t.infl.period ≤ s.infl.mints + s.infl.skipped + blocks ops ∧
    t.infl.period ≤ s.infl.mints + s.infl.skipped + blocks ops ∧
    t.infl.skipped ≤ s.infl.mints + s.infl.skipped + blocks ops := by
  intro t
  have hI' : CountInv t := period_count hE ops s hI
  have hb : t.infl.mints + t.infl.skipped ≤ s.infl.mints + s.infl.skipped + blocks ops :=
    (counters_block_bound env ops s hI.nodup).2.2
  have h1 : t.infl.epp * t.infl.period ≤ t.infl.mints := by rw [hI'.period]; exact Nat.mul_div_le _ _
  have h2 : t.infl.period ≤ t.infl.mints := by rw [hI'.period]; exact Nat.div_le_self _ _
  refine ⟨h1, ?_, ?_, ?_⟩ <;> omega

/-! ## (3) the machine-integer boundary test is the model's test in every reachable state -/

/-- **boundary_test_faithful** (state form): in every state reachable from a `CountInv` state by a history with
`mints₀ + skipped₀ + blocks < 2^60` and `epp < 2^60`, the boundary test as compiled (int64/uint64, wrapping) equals
the model's unbounded test for *every* epoch number `n` with `−2^61 ≤ n < 2^61` — in particular for every
`0 ≤ n ≤ mints₀ + skipped₀ + blocks + 2`. -/
theorem boundary_test_faithful_state (hE : EnvOK env) (ops : List Op) (s : State) (hI : CountInv s)
    (hlt : s.infl.mints + s.infl.skipped + blocks ops < 2 ^ 60) (hepp : s.infl.epp < 2 ^ 60)
    (n : Int) (hn1 : -(2 ^ 61 : Int) ≤ n) (hn2 : n < (2 ^ 61 : Int)) :
    let t := run env s ops
    Gen.InflationConds.periodPassed (Int64.ofInt n) (Int64.ofInt t.infl.epp) (UInt64.ofNat t.infl.period) (UInt64.ofNat t.infl.skipped)
      = periodPassed n t.infl.epp t.infl.period t.infl.skipped := by
  intro t
  have hp : t.infl.epp * t.infl.period ≤ t.infl.mints ∧
      t.infl.epp * t.infl.period ≤ s.infl.mints + s.infl.skipped + blocks ops ∧
      t.infl.period ≤ s.infl.mints + s.infl.skipped + blocks ops ∧
      t.infl.skipped ≤ s.infl.mints + s.infl.skipped + blocks ops := period_product_bound hE ops s hI
  obtain ⟨_, h2, h3, h4⟩ := hp
  have he : t.infl.epp = s.infl.epp := (counters_block_bound env ops s hI.nodup).2.1
  exact Bridge.Inflation.periodPassed_nowrap n t.infl.epp t.infl.period t.infl.skipped hn1 hn2
    (by rw [he]; omega) (by omega) (by omega) (by omega)

/-- **boundary_test_faithful** (call form): the block that follows any such history.  If it is accepted and the
daily record `e` ends an epoch in it, then the listener is run exactly once with effect, as
`AfterEpochEnd("day", e.cur + 1)` on the listener state the history left; the epoch number it is handed is
`2 + mints + skipped`; and the boundary test it evaluates in machine integers has the value of the model's. -/
theorem boundary_test_faithful (hE : EnvOK env) (ops : List Op) (s : State) (hI : CountInv s)
    (hlt : s.infl.mints + s.infl.skipped + blocks ops < 2 ^ 60) (hepp : s.infl.epp < 2 ^ 60)
    {now h : Int} {t' : State} {r : Resp} (hstep : step env (run env s ops) (.block now h) = .ok (t', r))
    (e : EpochInfo) (he : e ∈ (run env s ops).infos) (hid : e.id = dayId) (htick : action e now = .tick) :
    let t := run env s ops
    afterEpochEnd env t.infl dayId (e.cur + 1) = .ok t'.infl ∧
    e.cur + 1 = 2 + (t.infl.mints : Int) + (t.infl.skipped : Int) ∧
    Gen.InflationConds.periodPassed (Int64.ofInt (e.cur + 1)) (Int64.ofInt t.infl.epp) (UInt64.ofNat t.infl.period)
        (UInt64.ofNat t.infl.skipped)
      = periodPassed (e.cur + 1) t.infl.epp t.infl.period t.infl.skipped := by
  intro t
  have hI' : CountInv t := period_count hE ops s hI
  have hb : t.infl.mints + t.infl.skipped ≤ s.infl.mints + s.infl.skipped + blocks ops :=
    (counters_block_bound env ops s hI.nodup).2.2
  have hcur : e.cur = 1 + (t.infl.mints : Int) + (t.infl.skipped : Int) :=
    (hI'.count e he hid).1 ((action_tick_iff e now).1 htick).1
  refine ⟨?_, by omega, boundary_test_faithful_state hE ops s hI hlt hepp (e.cur + 1) (by omega) (by omega)⟩
  obtain ⟨_, _, _, _, hcase⟩ := block_cases hE hI'.nodup hstep
  rw [effId_day hI'.day] at hcase
  have hfind : t.infos.find? (fun x => x.id == dayId) = some e := by
    cases hf : t.infos.find? (fun x => x.id == dayId) with
    | none => exact absurd hid (find_id_none hf e he)
    | some e0 =>
      obtain ⟨hm0, hid0⟩ := find_id_some hf
      rw [nodup_ids_unique t.infos hI'.nodup e0 e hm0 he (by rw [hid0, hid])]
  rw [hfind] at hcase
  simpa only [htick, if_true] using hcase

/-- the same with a separate initial bound `B0 ≥ mints₀ + skipped₀`, `B0 + blocks ops < 2^60` -/
theorem boundary_test_faithful_B0 (hE : EnvOK env) (ops : List Op) (s : State) (B0 : Nat) (hI : CountInv s)
    (h0 : s.infl.mints + s.infl.skipped ≤ B0) (hlt : B0 + blocks ops < 2 ^ 60) (hepp : s.infl.epp < 2 ^ 60)
    {now h : Int} {t' : State} {r : Resp} (hstep : step env (run env s ops) (.block now h) = .ok (t', r))
    (e : EpochInfo) (he : e ∈ (run env s ops).infos) (hid : e.id = dayId) (htick : action e now = .tick) :
    afterEpochEnd env (run env s ops).infl dayId (e.cur + 1) = .ok t'.infl ∧
    0 ≤ e.cur + 1 ∧ e.cur + 1 ≤ ((B0 + blocks ops + 2 : Nat) : Int) ∧
    Gen.InflationConds.periodPassed (Int64.ofInt (e.cur + 1)) (Int64.ofInt (run env s ops).infl.epp)
        (UInt64.ofNat (run env s ops).infl.period) (UInt64.ofNat (run env s ops).infl.skipped)
      = periodPassed (e.cur + 1) (run env s ops).infl.epp (run env s ops).infl.period (run env s ops).infl.skipped := by
  obtain ⟨h1, h2, h3⟩ := boundary_test_faithful hE ops s hI (by omega) hepp hstep e he hid htick
  have hb := (counters_block_bound env ops s hI.nodup).2.2
  exact ⟨h1, by omega, by omega, h3⟩

/-! ## non-vacuity and the excluded configuration -/

theorem exEnv_ok : EnvOK exEnv := ⟨by decide, by decide, by decide⟩

theorem exState_countInv : CountInv (exState "day" true) :=
  countInv_fresh _ (by decide) rfl (by decide) (by decide) ⟨rfl, rfl, rfl⟩

/-- the history of the C13 example: six blocks, a disabled stretch in the middle -/
def exHist : List Op :=
  [.block 0 1, .block 11 2, .updateParams true (exParamsIn false), .block 21 3, .block 31 4,
   .updateParams true (exParamsIn true), .block 41 5, .block 51 6]

/-- (1), (2) on the example: 6 blocks, 5 ended day-epochs (3 mints + 2 skipped) ≤ 6, numbers [6, 1] ≤ 6, E·period = 2 ≤ 3 -/
example :
    let t := run exEnv (exState "day" true) exHist
    (blocks exHist, t.infl.mints + t.infl.skipped, t.infos.map (·.cur), t.infl.epp * t.infl.period) = (6, 5, [6, 1], 2) := by
  decide +kernel

example : (run exEnv (exState "day" true) exHist).infl.mints + (run exEnv (exState "day" true) exHist).infl.skipped ≤ 0 + blocks exHist ∧
    ∀ e ∈ (run exEnv (exState "day" true) exHist).infos, e.cur ≤ ((0 + blocks exHist : Nat) : Int) :=
  block_count_bound exEnv exHist _ 0 exState_countInv.nodup (by decide) (by decide)

local notation "exT" => run exEnv (exState "day" true) exHist

/-- (3) on the example: the seventh block (time 61) is accepted, the day record ticks in it, and the theorem applies:
the listener is called with `n = 7 = 2 + 3 + 2`; there `7 − 2·1 − 2 = 3 > 2`, so both tests say "period passed" -/
example :
    ∃ t' r e, step exEnv exT (.block 61 7) = .ok (t', r) ∧ e ∈ (exT).infos ∧ e.id = dayId ∧ action e 61 = .tick ∧
      afterEpochEnd exEnv (exT).infl dayId (e.cur + 1) = .ok t'.infl ∧ e.cur + 1 = 7 ∧
      Gen.InflationConds.periodPassed (Int64.ofInt (e.cur + 1)) (Int64.ofInt (exT).infl.epp) (UInt64.ofNat (exT).infl.period)
        (UInt64.ofNat (exT).infl.skipped) = periodPassed (e.cur + 1) (exT).infl.epp (exT).infl.period (exT).infl.skipped ∧
      periodPassed (e.cur + 1) (exT).infl.epp (exT).infl.period (exT).infl.skipped = true ∧ t'.infl.period = 2 := by
  have hpp : periodPassed 7 (exT).infl.epp (exT).infl.period (exT).infl.skipped = true := by decide +kernel
  have hok : (match step exEnv exT (.block 61 7) with | .ok _ => true | .error _ => false) = true := by decide +kernel
  have hper : (match step exEnv exT (.block 61 7) with | .ok v => v.1.infl.period | .error _ => 0) = 2 := by decide +kernel
  have he : (⟨"day", 0, 10, 6, 50, true, 6⟩ : EpochInfo) ∈ (exT).infos := by decide +kernel
  have ht : action (⟨"day", 0, 10, 6, 50, true, 6⟩ : EpochInfo) 61 = .tick := by decide
  cases hs : step exEnv exT (.block 61 7) with
  | error err => rw [hs] at hok; cases hok
  | ok v =>
    obtain ⟨t', r⟩ := v
    rw [hs] at hper
    obtain ⟨h1, _, h3⟩ := boundary_test_faithful exEnv_ok exHist (exState "day" true) exState_countInv
      (by decide) (by decide) hs _ he rfl ht
    exact ⟨t', r, ⟨"day", 0, 10, 6, 50, true, 6⟩, rfl, he, rfl, ht, h1, rfl, h3, hpp, hper⟩

/-- **excluded configuration** (why unique identifiers are a hypothesis of `counters_block_bound`; the store
guarantees them, a list does not): with two records both called `"day"` one block ends two day-epochs, and three
blocks leave `skipped = 4 > 0 + 3` -/
example :
    let s : State := { exState "day" false with infos := [⟨"day", 0, 10, 0, 0, false, 0⟩, ⟨"day", 0, 10, 0, 0, false, 0⟩] }
    let ops : List Op := [.block 0 1, .block 11 2, .block 21 3]
    (s.infl.mints + s.infl.skipped, blocks ops, (run exEnv s ops).infl.mints + (run exEnv s ops).infl.skipped) = (0, 3, 4) := by
  decide +kernel

/-- why the bound on epoch numbers is a natural number: a record whose stored number is negative jumps to 1 when
it starts, so `cur ≤ cur₀ + blocks` is false for `cur₀ < 0` (here −5 ↦ 1 in one block) -/
example : (advance 0 1 ⟨"day", 0, 10, -5, 0, false, 0⟩).cur = 1 := by decide

end Inflation
end CV
