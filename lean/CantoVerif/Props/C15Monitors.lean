import CantoVerif.Props.C15
/-!
# C15 — the remaining executable monitors of `Spec/Erc20.lean` hold on every transition of the model.

`Props/C15.lean` links `c15_registryInv` (`registry_step_monitor`).  This file links the others:
`c15_lookupsAgree`, `c15_listEqReachable`, `c15_registerExistingRejected`, `c15_registerAddsOne`,
`c15_toggleOnlyFlag`, `c15_deleteRemovesAll`, `c15_othersKeepRegistry`.

The transition the monitors are evaluated on is `modelTr`: pre-state `w`, operation `.k op`,
`ok` / `resp` read off the model's `step env O w op`, post-state `exec env O w op`; the harness
fields (`answers`, `honest`, `lookups`, `clean`, `prev`) are read by none of these monitors and are
universally quantified.  Hypotheses are never stronger than those of `registry_step`:

| monitor | hypotheses |
|---|---|
| `c15_lookupsAgree`, `c15_listEqReachable` (read the post-state registry only) | `EnvOK`, `RegInv` pre, `Fresh` (= `registry_step`) |
| `c15_registerExistingRejected`, `c15_toggleOnlyFlag` | none |
| `c15_registerAddsOne` | `RegInv` pre, `Fresh` |
| `c15_deleteRemovesAll`, `c15_othersKeepRegistry` | `RegInv` pre |
| `c15_grpcLookups` | as `registry_step`, and only for `lookups := modelLookups post` (see the last section) |

No monitor was found false of the model.  `Fresh` is needed by `c15_registerAddsOne` for the same reason
`registry_step` needs it: the keeper does not check that the `CREATE` address of the module's next
nonce is unregistered, so from a state where `env.create s.mn = a` with `a` already in the address
index a coin registration is accepted by the model and the monitor's conjunct
`!(has pre.byAddr e.2.addr)` is false (on the real EVM the `CREATE` fails instead).
-/
namespace CV
namespace Erc20
open KMap Spec

/-! ## the transition of the model -/

/-- the response of a step (`Resp.none` when rejected: the driver records no response then) -/
def respOf {α : Type} : R (α × Resp) → Resp
  | .ok (_, r) => r
  | .error _ => .none

/-- the observed transition built from one operation of the model -/
def modelTr (env : Env) (cfg : Token.Cfg) (O : Oracle Token.TState) (w : World Token.TState) (op : Op)
    (ans : List Ans) (hon cl : Bool) (lk : List (Addr × Denom × String × String))
    (prev : Option (DOp × Bool × Resp × World Token.TState × Bool)) : Tr :=
  { env := env, cfg := cfg, pre := w, op := .k op, ok := isOk (step env O w op), resp := respOf (step env O w op),
    post := exec env O w op, answers := ans, honest := hon, lookups := lk, clean := cl, prev := prev }

variable {σ : Type}

theorem exec_of_ok {env : Env} {O : Oracle σ} {w w' : World σ} {op : Op} {r : Resp}
    (h : step env O w op = .ok (w', r)) : exec env O w op = w' := by
  unfold exec deliver; simp only [h]

theorem exec_of_error {env : Env} {O : Oracle σ} {w : World σ} {op : Op} {e : Rej}
    (h : step env O w op = .error e) : exec env O w op = w := by
  unfold exec deliver; simp only [h]

/-! ## reflexivity of the state comparisons -/

theorem sameMap_refl {κ β : Type} [DecidableEq κ] [BEq β] [LawfulBEq β] (a : List (κ × β)) : sameMap a a = true := by
  simp [sameMap]

theorem sameMap_of_get? {κ β : Type} [DecidableEq κ] [BEq β] [LawfulBEq β] {a b : List (κ × β)}
    (h : ∀ k, get? a k = get? b k) : sameMap a b = true := by
  simp [sameMap, h]

theorem sameReg_refl (r : Registry) : sameReg r r = true := by
  simp [sameReg, sameMap_refl]

theorem sameBank_refl (s : State) : sameBank s s = true := by
  simp [sameBank]

theorem sameBank_of_bank {a b : State} (h : b.bank = a.bank) : sameBank a b = true := by
  simp [sameBank, Bank.get, Bank.supply, h]

theorem sameTok_refl (t : Token.TState) : sameTok t t = true := by
  simp [sameTok, AMap.eqv]

/-! ## `lookups_agree`, `list_eq_reachable`: consequences of `RegInv` -/

theorem lookupsAgreeB_of_RegInv {r : Registry} (h : RegInv r) :
    (r.pairs.all (fun e =>
      r.getPair e.1 == some e.2 &&
      r.lookupTok ⟨e.2.denom, "?"⟩ == some e.2 &&
      (match KMap.get? r.byAddr e.2.addr with | some i => r.getPair i == some e.2 | none => false))) = true := by
  simp only [List.all_eq_true]
  rintro ⟨k, v⟩ hkv
  have hg : r.getPair k = some v := get?_of_mem h.nodupP hkv
  obtain ⟨hid, hden, _⟩ := lookups_agree h hg
  have ha := (h.addrIdx v.addr v.id).mpr ⟨v, hid, rfl⟩
  simp only [hg, hden "?", ha, hid, beq_self_eq_true, Bool.and_self]

/-- the monitor `C15 lookups_agree` holds on every transition of the model (`ok`, `resp` and the
harness fields are not read by the monitor: arbitrary) -/
theorem c15_lookupsAgree_monitor (env : Env) (cfg : Token.Cfg) (O : Oracle Token.TState) (w : World Token.TState) (op : Op)
    (hE : EnvOK env) (hI : RegInv w.st.reg) (hF : Fresh env w.st op) (ok : Bool) (resp : Resp) (ans : List Ans)
    (hon cl : Bool) (lk : List (Addr × Denom × String × String)) (prev : Option (DOp × Bool × Resp × World Token.TState × Bool)) :
    c15_lookupsAgree { env := env, cfg := cfg, pre := w, op := .k op, ok := ok, resp := resp,
                       post := exec env O w op, answers := ans, honest := hon, lookups := lk, clean := cl, prev := prev } = true :=
  lookupsAgreeB_of_RegInv (registry_step env O w op hE hI hF)

theorem filterMap_length_of_all_some {α β : Type} (f : α → Option β) :
    ∀ (l : List α), (∀ e ∈ l, ∃ b, f e = some b) → (l.filterMap f).length = l.length := by
  intro l
  induction l with
  | nil => intro _; rfl
  | cons a r ih =>
    intro h
    obtain ⟨b, hb⟩ := h a (List.mem_cons_self ..)
    rw [List.filterMap_cons_some hb, List.length_cons, List.length_cons,
      ih (fun e he => h e (List.mem_cons_of_mem _ he))]

/-- an index that agrees with the pair table has as many entries as the table, and every entry resolves -/
theorem via_length {κ : Type} [DecidableEq κ] (r : Registry) (idx : List (κ × PairId)) (key : Pair → κ)
    (hn : NodupKeys idx) (hP : NodupKeys r.pairs)
    (hidx : ∀ k i, get? idx k = some i ↔ ∃ p, r.getPair i = some p ∧ key p = k) :
    (idx.filterMap (fun e => r.getPair e.2)).length = r.list.length := by
  have hres : ∀ e ∈ idx, ∃ p, r.getPair e.2 = some p := by
    rintro ⟨k, i⟩ he
    obtain ⟨p, hp, _⟩ := (hidx k i).mp (get?_of_mem hn he)
    exact ⟨p, hp⟩
  rw [filterMap_length_of_all_some _ idx hres]
  have h1 : idx.length ≤ r.pairs.length := by
    have hsub : idx.map (·.1) ⊆ r.pairs.map (fun e => key e.2) := by
      intro k hk
      obtain ⟨⟨k', i⟩, he, hk'⟩ := List.mem_map.mp hk
      simp only at hk'; subst hk'
      obtain ⟨p, hp, hpk⟩ := (hidx k' i).mp (get?_of_mem hn he)
      exact List.mem_map.mpr ⟨(i, p), mem_of_get? hp, hpk⟩
    have := List.Nodup.length_le_of_subset hn hsub
    simpa using this
  have h2 : r.pairs.length ≤ idx.length := by
    have hsub : r.pairs.map (·.1) ⊆ idx.map (·.2) := by
      intro i hi
      obtain ⟨⟨i', p⟩, he, hi'⟩ := List.mem_map.mp hi
      simp only at hi'; subst hi'
      have hg : r.getPair i' = some p := get?_of_mem hP he
      have := (hidx (key p) i').mpr ⟨p, hg, rfl⟩
      exact List.mem_map.mpr ⟨(key p, i'), mem_of_get? this, rfl⟩
    have := List.Nodup.length_le_of_subset hP hsub
    simpa using this
  simp only [Registry.list, List.length_map]
  omega

theorem listEqReachableB_of_RegInv {r : Registry} (h : RegInv r) :
    (let viaDenom := r.byDenom.filterMap (fun e => r.getPair e.2)
     let viaAddr := r.byAddr.filterMap (fun e => r.getPair e.2)
     r.list.all (fun p => viaDenom.contains p && viaAddr.contains p) &&
     viaDenom.all (fun p => r.list.contains p) && viaAddr.all (fun p => r.list.contains p) &&
     viaDenom.length == r.list.length && viaAddr.length == r.list.length) = true := by
  have hD : ∀ p, p ∈ r.byDenom.filterMap (fun e => r.getPair e.2) ↔ p ∈ r.list := by
    intro p
    rw [(list_eq_reachable h p).2.1, List.mem_filterMap]
    constructor
    · rintro ⟨⟨d, i⟩, he, hp⟩; exact ⟨d, i, get?_of_mem h.nodupD he, hp⟩
    · rintro ⟨d, i, hg, hp⟩; exact ⟨(d, i), mem_of_get? hg, hp⟩
  have hA : ∀ p, p ∈ r.byAddr.filterMap (fun e => r.getPair e.2) ↔ p ∈ r.list := by
    intro p
    rw [(list_eq_reachable h p).2.2, List.mem_filterMap]
    constructor
    · rintro ⟨⟨a, i⟩, he, hp⟩; exact ⟨a, i, get?_of_mem h.nodupA he, hp⟩
    · rintro ⟨a, i, hg, hp⟩; exact ⟨(a, i), mem_of_get? hg, hp⟩
  have lD := via_length r r.byDenom (·.denom) h.nodupD h.nodupP h.denomIdx
  have lA := via_length r r.byAddr (·.addr) h.nodupA h.nodupP h.addrIdx
  simp only [Bool.and_eq_true, List.all_eq_true, List.contains_iff_mem, beq_iff_eq]
  exact ⟨⟨⟨⟨fun p hp => ⟨(hD p).mpr hp, (hA p).mpr hp⟩, fun p hp => (hD p).mp hp⟩, fun p hp => (hA p).mp hp⟩, lD⟩, lA⟩

/-- the monitor `C15 list_eq_reachable` holds on every transition of the model -/
theorem c15_listEqReachable_monitor (env : Env) (cfg : Token.Cfg) (O : Oracle Token.TState) (w : World Token.TState) (op : Op)
    (hE : EnvOK env) (hI : RegInv w.st.reg) (hF : Fresh env w.st op) (ok : Bool) (resp : Resp) (ans : List Ans)
    (hon cl : Bool) (lk : List (Addr × Denom × String × String)) (prev : Option (DOp × Bool × Resp × World Token.TState × Bool)) :
    c15_listEqReachable { env := env, cfg := cfg, pre := w, op := .k op, ok := ok, resp := resp,
                          post := exec env O w op, answers := ans, honest := hon, lookups := lk, clean := cl, prev := prev } = true :=
  listEqReachableB_of_RegInv (registry_step env O w op hE hI hF)

/-! ## `register_existing_rejected` (no hypothesis at all) -/

/-- the monitor `C15 register_existing_rejected` holds on every transition of the model, from every
state, whatever the EVM answers -/
theorem c15_registerExistingRejected_monitor (env : Env) (cfg : Token.Cfg) (O : Oracle Token.TState) (w : World Token.TState) (op : Op)
    (ans : List Ans) (hon cl : Bool) (lk : List (Addr × Denom × String × String))
    (prev : Option (DOp × Bool × Resp × World Token.TState × Bool)) :
    c15_registerExistingRejected (modelTr env cfg O w op ans hon cl lk prev) = true := by
  cases op with
  | registerCoin auth base dg =>
    simp only [c15_registerExistingRejected, modelTr]
    cases hs : step env O w (.registerCoin auth base dg) with
    | error e => simp [isOk]
    | ok x =>
      obtain ⟨w', r⟩ := x
      obtain ⟨_, _, ⟨F⟩⟩ := registerCoin_ok (by simpa [step] using hs)
      simp [isOk, has_eq, F.hNew]
  | registerERC20 auth c mo =>
    simp only [c15_registerExistingRejected, modelTr]
    cases hs : step env O w (.registerERC20 auth c mo) with
    | error e => simp [isOk]
    | ok x =>
      obtain ⟨w', r⟩ := x
      obtain ⟨_, _, _, ⟨F⟩⟩ := registerERC20_ok (by simpa [step] using hs)
      simp [isOk, has_eq, F.hNewAddr]
  | _ => rfl

/-! ## `register_adds_one` -/

theorem put_eq_append {κ β : Type} [DecidableEq κ] {l : List (κ × β)} {k : κ} (v : β) (h : get? l k = none) :
    put l k v = l ++ [(k, v)] := by
  induction l with
  | nil => rfl
  | cons p ps ih =>
    obtain ⟨pk, pv⟩ := p
    simp only [get?] at h
    split at h
    · cases h
    · rename_i hne
      simp only [put, hne, if_false, List.cons_append]
      rw [ih h]

theorem has_of_mem {κ β : Type} [DecidableEq κ] {l : List (κ × β)} {e : κ × β} (h : e ∈ l) : has l e.1 = true := by
  induction l with
  | nil => cases h
  | cons p ps ih =>
    obtain ⟨pk, pv⟩ := p
    simp only [has, get?]
    split
    · rfl
    · rename_i hne
      cases h with
      | head => exact absurd rfl hne
      | tail _ h' => exact ih h'

/-- a pair whose denomination is not indexed is not in the pair table -/
theorem getPair_none_of_denom_new {r : Registry} (h : RegInv r) (p : Pair) (hd : get? r.byDenom p.denom = none) :
    r.getPair p.id = none := by
  cases hq : r.getPair p.id with
  | none => rfl
  | some q =>
    have hid := h.idOk _ _ hq
    have := (h.denomIdx p.denom p.id).mpr ⟨q, hq, (id_inj hid).2.symm⟩
    rw [hd] at this; cases this

/-- the entries of the pair table after an insertion whose ids were not there before: the new pair -/
theorem added_insert {r : Registry} (h : RegInv r) (p : Pair) (hd : get? r.byDenom p.denom = none) :
    (r.insert p).pairs.filter (fun e => !(has r.pairs e.1)) = [(p.id, p)] := by
  have hn : get? r.pairs p.id = none := getPair_none_of_denom_new h p hd
  simp only [Registry.insert]
  rw [put_eq_append p hn, List.filter_append]
  have h1 : r.pairs.filter (fun e => !(has r.pairs e.1)) = [] := by
    rw [List.filter_eq_nil_iff]
    intro e he
    simp [has_of_mem he]
  rw [h1]
  simp [has_eq, hn]

/-- what `c15_registerAddsOne` checks of a registration, on an inserted pair -/
theorem addsOne_insert {r : Registry} (h : RegInv r) (p : Pair) (hd : get? r.byDenom p.denom = none)
    (ha : get? r.byAddr p.addr = none) (owner : Owner) (chk : Pair → Bool) (ho : p.owner = owner)
    (he : p.enabled = true) (hc : chk p = true) :
    (match (r.insert p).pairs.filter (fun e => !(has r.pairs e.1)) with
     | [e] => e.2.owner == owner && e.2.enabled && chk e.2 &&
              sameReg (r.insert p) (r.insert e.2) && !(has r.byDenom e.2.denom) && !(has r.byAddr e.2.addr)
     | _ => false) = true := by
  rw [added_insert h p hd]
  simp [ho, he, hc, sameReg_refl, has_eq, hd, ha]

/-- the monitor `C15 register_adds_one` holds on every transition of the model that starts in a
state satisfying the registry invariant, under `Fresh` (`fresh_deploy_addr`, the hypothesis of
`registry_step`: the keeper does not check that the `CREATE` address is unregistered) -/
theorem c15_registerAddsOne_monitor (env : Env) (cfg : Token.Cfg) (O : Oracle Token.TState) (w : World Token.TState) (op : Op)
    (hI : RegInv w.st.reg) (hF : Fresh env w.st op)
    (ans : List Ans) (hon cl : Bool) (lk : List (Addr × Denom × String × String))
    (prev : Option (DOp × Bool × Resp × World Token.TState × Bool)) :
    c15_registerAddsOne (modelTr env cfg O w op ans hon cl lk prev) = true := by
  cases op with
  | registerCoin auth base dg =>
    cases hs : step env O w (.registerCoin auth base dg) with
    | error e => simp [c15_registerAddsOne, modelTr, hs, isOk]
    | ok x =>
      obtain ⟨w', r⟩ := x
      obtain ⟨_, _, ⟨F⟩⟩ := registerCoin_ok (by simpa [step] using hs)
      obtain ⟨addr, dmeta1, _, _, _, hNew, _, hAddr, _, hWorld⟩ := F
      subst hWorld
      simp only [c15_registerAddsOne, modelTr, hs, isOk, exec_of_ok hs, Bool.not_true, Bool.false_or]
      refine addsOne_insert hI { addr := addr, denom := base, enabled := true, owner := .module } hNew
        (hF addr hAddr) .module (fun p => p.denom == base) rfl rfl ?_
      simp
  | registerERC20 auth c mo =>
    cases hs : step env O w (.registerERC20 auth c mo) with
    | error e => simp [c15_registerAddsOne, modelTr, hs, isOk]
    | ok x =>
      obtain ⟨w', r⟩ := x
      obtain ⟨_, _, _, ⟨F⟩⟩ := registerERC20_ok (by simpa [step] using hs)
      obtain ⟨d, e1, _, hNewAddr, _, hNewDenom, hWorld⟩ := F
      subst hWorld
      simp only [c15_registerAddsOne, modelTr, hs, isOk, exec_of_ok hs, Bool.not_true, Bool.false_or]
      refine addsOne_insert hI { addr := c, denom := d, enabled := true, owner := .external } hNewDenom
        hNewAddr .external (fun p => p.addr == c) rfl rfl ?_
      simp
  | _ => rfl

/-! ## `toggle_only_flag` (no hypothesis at all) -/

/-- the monitor `C15 toggle_only_flag` holds on every transition of the model, from every state -/
theorem c15_toggleOnlyFlag_monitor (env : Env) (cfg : Token.Cfg) (O : Oracle Token.TState) (w : World Token.TState) (op : Op)
    (ans : List Ans) (hon cl : Bool) (lk : List (Addr × Denom × String × String))
    (prev : Option (DOp × Bool × Resp × World Token.TState × Bool)) :
    c15_toggleOnlyFlag (modelTr env cfg O w op ans hon cl lk prev) = true := by
  cases op with
  | toggle auth tk =>
    cases hs : step env O w (.toggle auth tk) with
    | error e => simp [c15_toggleOnlyFlag, modelTr, hs, isOk]
    | ok x =>
      obtain ⟨w', r⟩ := x
      obtain ⟨_, _, i, p, hi, hp, hw⟩ := toggle_ok (by simpa [step] using hs)
      subst hw
      have hl : w.st.reg.lookupTok tk = some p := by simp [Registry.lookupTok, hi, hp]
      simp only [c15_toggleOnlyFlag, modelTr, hs, isOk, exec_of_ok hs, hl, Bool.not_true, Bool.false_or,
        Bool.and_eq_true, beq_iff_eq]
      exact ⟨⟨⟨sameReg_refl _, sameBank_of_bank rfl⟩, trivial⟩, sameTok_refl _⟩
  | _ => rfl

/-! ## `delete_removes_all` -/

/-- only a conversion message answers `deleted`; it then addressed a stored pair (the one `msgPair`
computes) and removed exactly that pair -/
theorem step_deleted_msgPair {env : Env} {O : Oracle σ} {w w' : World σ} {op : Op}
    (h : step env O w op = .ok (w', .deleted)) :
    ∃ p i, msgPair w.st op = some p ∧ w.st.reg.getPair i = some p ∧
      w'.st = { w.st with reg := w.st.reg.delete p } := by
  cases op with
  | convertCoin m =>
    obtain ⟨F⟩ := convertCoin_ok (by simpa [step] using h)
    obtain ⟨_, ⟨i, hi?, hi⟩, _⟩ := gate_ok F.hGate
    rcases afterGate_ok F.hRest with ⟨_, hc⟩ | ⟨_, hw, _⟩
    · obtain ⟨_, _, hr⟩ := coinPath_frame hc; cases hr
    · exact ⟨F.p, i, by simp [msgPair, Registry.lookupTok, hi?, hi], hi, congrArg World.st hw⟩
  | convertERC20 m =>
    obtain ⟨F⟩ := convertERC20_ok (by simpa [step] using h)
    obtain ⟨_, ⟨i, hi?, hi⟩, _⟩ := gate_ok F.hGate
    have hc := (HexStr.decode_ok F.hContract).1
    rcases afterGate_ok F.hRest with ⟨_, hc⟩ | ⟨_, hw, _⟩
    · obtain ⟨_, _, hr⟩ := erc20Path_frame hc; cases hr
    · refine ⟨F.p, i, ?_, hi, congrArg World.st hw⟩
      rw [hc] at hi?
      simp [msgPair, hi?, hi]
  | registerCoin auth base dg =>
    obtain ⟨_, hr, _⟩ := registerCoin_ok (by simpa [step] using h); cases hr
  | registerERC20 auth c mo =>
    obtain ⟨_, hr, _⟩ := registerERC20_ok (by simpa [step] using h); cases hr
  | toggle auth t =>
    obtain ⟨_, hr, _⟩ := toggle_ok (by simpa [step] using h); cases hr
  | updateParams auth p =>
    simp only [step, updateParams] at h
    obtain ⟨_, _, h⟩ := bind_ok h
    injection h with h; simp only [Prod.mk.injEq] at h; cases h.2
  | hook logs =>
    obtain ⟨_, hr⟩ := postTx_core (by simpa [step] using h); cases hr
  | send src dst d amt =>
    simp only [step] at h
    obtain ⟨b, _, h⟩ := bind_ok h
    injection h with h; simp only [Prod.mk.injEq] at h; cases h.2
  | setSendEnabled d v =>
    simp only [step] at h
    injection h with h; simp only [Prod.mk.injEq] at h; cases h.2
  | setSendDefault v =>
    simp only [step] at h
    injection h with h; simp only [Prod.mk.injEq] at h; cases h.2
  | reimport =>
    simp only [step] at h
    injection h with h; simp only [Prod.mk.injEq] at h; cases h.2

/-- the monitor `C15 delete_removes_all` holds on every transition of the model that starts in a
state satisfying the registry invariant, whatever the EVM answers -/
theorem c15_deleteRemovesAll_monitor (env : Env) (cfg : Token.Cfg) (O : Oracle Token.TState) (w : World Token.TState) (op : Op)
    (hI : RegInv w.st.reg)
    (ans : List Ans) (hon cl : Bool) (lk : List (Addr × Denom × String × String))
    (prev : Option (DOp × Bool × Resp × World Token.TState × Bool)) :
    c15_deleteRemovesAll (modelTr env cfg O w op ans hon cl lk prev) = true := by
  cases hs : step env O w op with
  | error e => simp [c15_deleteRemovesAll, modelTr, hs, isOk]
  | ok x =>
    obtain ⟨w', r⟩ := x
    by_cases hr : r = .deleted
    · subst hr
      obtain ⟨p, i, hm, hp, hw⟩ := step_deleted_msgPair hs
      have hpid := hI.getPair_id hp
      obtain ⟨d1, d2, d3, d4, _, _, _⟩ := delete_removes_all hI hpid
      have hI' := regInv_delete hI p hpid
      simp only [c15_deleteRemovesAll, modelTr, hs, isOk, respOf, exec_of_ok hs, hm, hw, beq_self_eq_true,
        Bool.and_self, if_true, Bool.and_eq_true, Bool.not_eq_true', List.all_eq_true, bne_iff_ne, ne_eq]
      refine ⟨⟨⟨⟨⟨sameReg_refl _, ?_⟩, ?_⟩, ?_⟩, ?_⟩, sameBank_of_bank rfl⟩
      · rw [has_eq]; rw [show get? (w.st.reg.delete p).pairs p.id = none from d1]; rfl
      · rw [has_eq, d2]; rfl
      · rw [has_eq, d3]; rfl
      · rintro ⟨k, q⟩ hkq
        exact d4 k q (get?_of_mem hI'.nodupP hkq)
    · have : (r == Resp.deleted) = false := by simpa using hr
      simp [c15_deleteRemovesAll, modelTr, hs, isOk, respOf, this]

/-! ## `others_keep_registry` -/

/-- the operations `c15_othersKeepRegistry` exempts: the two registrations and the toggle -/
def writesRegistry : Op → Bool
  | .registerCoin _ _ _ => true
  | .registerERC20 _ _ _ => true
  | .toggle _ _ => true
  | _ => false

/-- a successful operation that is neither a registration nor a toggle answers `deleted` or leaves the
three prefixes with the same lookups (identical, except after a genesis export/import) -/
theorem step_keeps_registry {env : Env} {O : Oracle σ} {w w' : World σ} {op : Op} {r : Resp}
    (hI : RegInv w.st.reg) (h : step env O w op = .ok (w', r)) (hop : writesRegistry op = false) :
    r = .deleted ∨ sameReg w.st.reg w'.st.reg = true := by
  cases op with
  | convertCoin m =>
    obtain ⟨F⟩ := convertCoin_ok (by simpa [step] using h)
    rcases afterGate_ok F.hRest with ⟨_, hc⟩ | ⟨_, _, hr⟩
    · obtain ⟨b, hb, _⟩ := coinPath_frame hc
      right; rw [hb]; exact sameReg_refl _
    · exact Or.inl hr
  | convertERC20 m =>
    obtain ⟨F⟩ := convertERC20_ok (by simpa [step] using h)
    rcases afterGate_ok F.hRest with ⟨_, hc⟩ | ⟨_, _, hr⟩
    · obtain ⟨b, hb, _⟩ := erc20Path_frame hc
      right; rw [hb]; exact sameReg_refl _
    · exact Or.inl hr
  | registerCoin auth base dg => cases hop
  | registerERC20 auth c mo => cases hop
  | toggle auth t => cases hop
  | updateParams auth p =>
    simp only [step, updateParams] at h
    obtain ⟨_, _, h⟩ := bind_ok h
    injection h with h; simp only [Prod.mk.injEq] at h; rw [← h.1]; exact Or.inr (sameReg_refl _)
  | hook logs =>
    obtain ⟨hc, _⟩ := postTx_core (by simpa [step] using h)
    right; rw [hc.1]; exact sameReg_refl _
  | send src dst d amt =>
    simp only [step] at h
    obtain ⟨b, _, h⟩ := bind_ok h
    injection h with h; simp only [Prod.mk.injEq] at h; rw [← h.1]; exact Or.inr (sameReg_refl _)
  | setSendEnabled d v =>
    simp only [step] at h
    injection h with h; simp only [Prod.mk.injEq] at h; rw [← h.1]; exact Or.inr (sameReg_refl _)
  | setSendDefault v =>
    simp only [step] at h
    injection h with h; simp only [Prod.mk.injEq] at h; rw [← h.1]; exact Or.inr (sameReg_refl _)
  | reimport =>
    simp only [step] at h
    injection h with h; simp only [Prod.mk.injEq] at h; rw [← h.1]
    obtain ⟨l1, l2, l3⟩ := reimport_lookups hI
    right
    simp only [sameReg, Bool.and_eq_true]
    exact ⟨⟨sameMap_of_get? (fun k => (l1 k).symm), sameMap_of_get? (fun k => (l3 k).symm)⟩,
      sameMap_of_get? (fun k => (l2 k).symm)⟩

/-- the monitor `C15 others_keep_registry` holds on every transition of the model that starts in a
state satisfying the registry invariant (genesis export/import included), whatever the EVM answers -/
theorem c15_othersKeepRegistry_monitor (env : Env) (cfg : Token.Cfg) (O : Oracle Token.TState) (w : World Token.TState) (op : Op)
    (hI : RegInv w.st.reg)
    (ans : List Ans) (hon cl : Bool) (lk : List (Addr × Denom × String × String))
    (prev : Option (DOp × Bool × Resp × World Token.TState × Bool)) :
    c15_othersKeepRegistry (modelTr env cfg O w op ans hon cl lk prev) = true := by
  cases hs : step env O w op with
  | error e =>
    cases op <;> simp [c15_othersKeepRegistry, modelTr, hs, isOk, exec_of_error hs, sameReg_refl]
  | ok x =>
    obtain ⟨w', r⟩ := x
    have hk := step_keeps_registry hI hs
    cases op <;> first
      | rfl
      | (simp only [c15_othersKeepRegistry, modelTr, hs, isOk, respOf, exec_of_ok hs, Bool.true_and, Bool.or_eq_true,
           beq_iff_eq]
         exact hk rfl)

/-! ## `grpc_lookups`, for the answers the *model's* query server gives

`c15_grpcLookups` reads `Tr.lookups`, what the real gRPC server answered after the operation; the model
has no gRPC server.  `modelLookups` is what a query server that reads the model registry answers
(`TokenPairs` = the listing; `TokenPair(denom)` = `lookupTok` on the denomination string;
`TokenPair(address)` = the address index then the pair table, the route `GetTokenPairID` takes for a
string of hex-address form).  The theorem below says the monitor is true when `lookups` is tied to the
model in this way — it does *not* say anything about the real server. -/

/-- the class the harness records for one lookup answer: `"s"` the same pair, `"o"` another pair, `"n"` not found -/
def lkClass (q : Option Pair) (p : Pair) : String :=
  match q with
  | none => "n"
  | some x => if x = p then "s" else "o"

/-- the listing and, per listed pair, the class of the lookup by its denomination and by its address -/
def modelLookups (r : Registry) : List (Addr × Denom × String × String) :=
  r.list.map (fun p =>
    (p.addr, p.denom, lkClass (r.lookupTok ⟨p.denom, "?"⟩) p,
     lkClass (match get? r.byAddr p.addr with | some i => r.getPair i | none => none) p))

theorem grpcLookupsB_of_RegInv {r : Registry} (h : RegInv r) :
    ((modelLookups r).all (fun e => e.2.2.1 == "s" && e.2.2.2 == "s" && KMap.has r.pairs (e.1, e.2.1)) &&
     r.pairs.all (fun e => (modelLookups r).any (fun l => (l.1, l.2.1) == e.1)) &&
     (modelLookups r).length == r.pairs.length) = true := by
  simp only [Bool.and_eq_true, List.all_eq_true, List.any_eq_true, beq_iff_eq]
  refine ⟨⟨?_, ?_⟩, by simp [modelLookups, Registry.list]⟩
  · intro e he
    obtain ⟨p, hp, rfl⟩ := List.mem_map.mp he
    obtain ⟨i, hi⟩ := (list_eq_reachable h p).1.mp hp
    obtain ⟨hid, hden, _⟩ := lookups_agree h hi
    have ha := (h.addrIdx p.addr p.id).mpr ⟨p, hid, rfl⟩
    have hid' : get? r.pairs (p.addr, p.denom) = some p := hid
    simp [hden "?", ha, hid, lkClass, has_eq, hid']
  · rintro ⟨k, v⟩ hkv
    have hg : r.getPair k = some v := get?_of_mem h.nodupP hkv
    have hk := h.idOk k v hg
    refine ⟨_, List.mem_map.mpr ⟨v, List.mem_map.mpr ⟨(k, v), hkv, rfl⟩, rfl⟩, ?_⟩
    simp [hk, Pair.id]

/-- the monitor `C15 grpc_lookups` holds on every transition of the model **when `lookups` are the
answers computed from the model's post-state registry** (`modelLookups`) -/
theorem c15_grpcLookups_model_monitor (env : Env) (cfg : Token.Cfg) (O : Oracle Token.TState) (w : World Token.TState) (op : Op)
    (hE : EnvOK env) (hI : RegInv w.st.reg) (hF : Fresh env w.st op) (ok : Bool) (resp : Resp) (ans : List Ans)
    (hon cl : Bool) (prev : Option (DOp × Bool × Resp × World Token.TState × Bool)) :
    c15_grpcLookups { env := env, cfg := cfg, pre := w, op := .k op, ok := ok, resp := resp,
                      post := exec env O w op, answers := ans, honest := hon,
                      lookups := modelLookups (exec env O w op).st.reg, clean := cl, prev := prev } = true :=
  grpcLookupsB_of_RegInv (registry_step env O w op hE hI hF)

/-! ## non-vacuity

`exW1`: the example world of `Props/C15.lean` after the coin `acoin` was registered (contract `k0`,
nonce 1): a non-empty registry satisfying `RegInv`.  On it the hypotheses of the theorems above hold
for operations that are *accepted* (so the monitors' non-trivial branches are the ones evaluated):
a second registration of each kind, a toggle, a genesis re-import, a conversion, and — after the
contract self-destructed — the conversion attempt that deletes the pair. -/

def exW1 : World Token.TState := exec exEnv (Token.honest exCfg) exWorld (.registerCoin true "acoin" "d1")

theorem exW1_inv : RegInv exW1.st.reg :=
  registry_step exEnv (Token.honest exCfg) exWorld _ exEnvOK regInv_empty (by intro a _; rfl)

/-- `exW1` with the contract `k0` self-destructed (the registry is untouched) -/
def exW1sd : World Token.TState := { exW1 with evm := Token.selfdestruct exW1.evm "k0" }

theorem exW1sd_inv : RegInv exW1sd.st.reg := exW1_inv

def exConv : Op :=
  .convertCoin { denom := ⟨"acoin", "-"⟩, amount := 3, receiver := ⟨true, "u0"⟩, sender := ⟨.lower, "u0"⟩ }

/-- `Fresh` for a second coin registration from `exW1`: the next `CREATE` address is `k1`, not registered -/
theorem exW1_fresh (base : Denom) (dg : String) : Fresh exEnv exW1.st (.registerCoin true base dg) := by
  intro a ha
  have h1 : get? exEnv.createAddr exW1.st.mn = some "k1" := by decide +kernel
  have h2 : get? exW1.st.reg.byAddr "k1" = none := by decide +kernel
  unfold Env.create at ha
  rw [h1] at ha
  injection ha with ha
  rw [← ha]; exact h2

/-- the registry of `exW1` is not empty, and each of the operations below is accepted from it -/
example :
    (let O := Token.honest exCfg
     exW1.st.reg.list.length == 1 &&
     isOk (step exEnv O exW1 (.registerERC20 true "t0" true)) &&
     isOk (step exEnv O exW1 (.toggle true ⟨"acoin", "-"⟩)) &&
     isOk (step exEnv O exW1 .reimport) &&
     isOk (step exEnv O exW1 exConv) && respOf (step exEnv O exW1 exConv) == .converted &&
     isOk (step exEnv O exW1sd exConv) && respOf (step exEnv O exW1sd exConv) == .deleted &&
     -- re-registering is rejected
     !isOk (step exEnv O exW1 (.registerCoin true "acoin" "d1"))) = true := by
  decide +kernel

/-- instances of the theorems on these accepted transitions (hypotheses discharged) -/
example (ans : List Ans) (hon cl : Bool) (lk : List (Addr × Denom × String × String))
    (prev : Option (DOp × Bool × Resp × World Token.TState × Bool)) :
    let O := Token.honest exCfg
    c15_registerAddsOne (modelTr exEnv exCfg O exW1 (.registerERC20 true "t0" true) ans hon cl lk prev) = true ∧
    c15_registerAddsOne (modelTr exEnv exCfg O exW1 (.registerCoin true "bcoin" "d2") ans hon cl lk prev) = true ∧
    c15_registerExistingRejected (modelTr exEnv exCfg O exW1 (.registerCoin true "acoin" "d1") ans hon cl lk prev) = true ∧
    c15_toggleOnlyFlag (modelTr exEnv exCfg O exW1 (.toggle true ⟨"acoin", "-"⟩) ans hon cl lk prev) = true ∧
    c15_deleteRemovesAll (modelTr exEnv exCfg O exW1sd exConv ans hon cl lk prev) = true ∧
    c15_othersKeepRegistry (modelTr exEnv exCfg O exW1 .reimport ans hon cl lk prev) = true ∧
    c15_othersKeepRegistry (modelTr exEnv exCfg O exW1sd exConv ans hon cl lk prev) = true ∧
    c15_lookupsAgree (modelTr exEnv exCfg O exW1 (.registerERC20 true "t0" true) ans hon cl lk prev) = true ∧
    c15_listEqReachable (modelTr exEnv exCfg O exW1 (.registerERC20 true "t0" true) ans hon cl lk prev) = true :=
  ⟨c15_registerAddsOne_monitor _ _ _ _ (.registerERC20 true "t0" true) exW1_inv trivial _ _ _ _ _,
   c15_registerAddsOne_monitor _ _ _ _ _ exW1_inv (exW1_fresh _ _) _ _ _ _ _,
   c15_registerExistingRejected_monitor _ _ _ _ _ _ _ _ _ _,
   c15_toggleOnlyFlag_monitor _ _ _ _ _ _ _ _ _ _,
   c15_deleteRemovesAll_monitor _ _ _ _ _ exW1sd_inv _ _ _ _ _,
   c15_othersKeepRegistry_monitor _ _ _ _ _ exW1_inv _ _ _ _ _,
   c15_othersKeepRegistry_monitor _ _ _ _ _ exW1sd_inv _ _ _ _ _,
   c15_lookupsAgree_monitor _ _ _ _ (.registerERC20 true "t0" true) exEnvOK exW1_inv trivial _ _ _ _ _ _ _,
   c15_listEqReachable_monitor _ _ _ _ (.registerERC20 true "t0" true) exEnvOK exW1_inv trivial _ _ _ _ _ _ _⟩

/-- the model's query answers after the second registration: two listed pairs, both classes `"s"` -/
example :
    (modelLookups (exec exEnv (Token.honest exCfg) exW1 (.registerERC20 true "t0" true)).st.reg ==
      [("k0", "acoin", "s", "s"), ("t0", "erc20/0x746f6b656e305F5f5F5f5f5F5f5F5F5F5f5F5F5f", "s", "s")]) = true := by
  decide +kernel

end Erc20
end CV
