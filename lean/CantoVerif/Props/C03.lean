import CantoVerif.Props.C15
import CantoVerif.Proofs.Erc20BackingStep
/-!
# C03 — every wrapped token is backed one-for-one by escrowed value.

The statement is about the **honest world** (`Model/Erc20Honest.lean`): the erc20 keeper against
`ERC20MinterBurnerDecimals` tokens (the contract the module deploys; "standard ERC-20" for external
pairs) on an EVM whose receipts carry exactly the logs the tokens emitted.

* `backing_step` / `backing_history` — the invariant `Backing` is kept by every operation, accepted or
  rejected: conversions in either direction by message (both kinds of pair, any receiver, any
  amount), holders' Ethereum transactions (transfers — to the module address: the hook converts;
  to anybody else — and burns), registrations, toggles, parameter and send-switch changes, bank
  transfers, genesis export/import, deployment of further tokens;
* `native_backing` — for every pair whose contract the chain deployed: escrow = total supply +
  tokens holders destroyed themselves (`destroyed`, a ghost that only `burn` by a holder increases),
  hence escrow ≥ total supply;
* `external_backing` — for every external pair: bank supply of the coin ≤ tokens the module holds;
* `destroyed_only_grows_by_holder_burns` — the ghost changes only on a holder's `burn` (by the burned
  amount) and is initialised at registration;
* `external_backing_needs_standard` — **the boundary**: with a non-standard token the second clause
  is false; witness: a receipt with a forged `Transfer(_, module, v)` log (no token moved) makes the
  hook mint `v` coins.

Side conditions `HOpOK` (closed world; each is written where it is used):
the erc20 module account signs nothing (it is no message sender, token holder or bank sender) and
receives coins only through conversions; holders that send Ethereum transactions are not blocked
addresses (module accounts have no keys); hooks fire only through real transactions (no forged
receipts); an ERC-20's coin does not circulate before the token is registered; `Fresh` (C15).

History: before the repair of finding E1 (`design_notes/erc20.md`) `ConvertCoin` accepted a
denomination of hex-address form, which `GetTokenPairID` routes to the *address* index: the coin
escrowed was not the one paired with the tokens minted and `native_backing` failed.  The guard is now
part of the model (`convertCoin`), `ConvertCoinFacts.hNotHex` records it, and the theorem needs no
side condition on the denomination.
-/
namespace CV
namespace Erc20
namespace Token
open KMap Spec

theorem honest_code_world' (cfg : Cfg) (w : World TState) (c : Addr) :
    ({ w with evm := (honest cfg (.code c) w.evm).2 } : World TState) = w := rfl

/-- one successful operation keeps the invariant -/
theorem backing_hstep {env : Env} {cfg : Cfg} {h : HWorld} {op : HOp} {w' : World TState} {r : Resp}
    (hE : EnvOK3 env cfg) (hB : Backing env h) (hok : HOpOK env h op)
    (hs : hstepW env cfg h.w op = .ok (w', r)) : Backing env { w := w', destroyed := ghostAfter env h op w' } := by
  cases op with
  | k kop =>
    simp only [hstepW] at hs
    cases kop with
    | convertCoin m =>
      simp only [ghostAfter]
      have hsm := hok
      obtain ⟨F⟩ := convertCoin_ok (by simpa [step] using hs)
      have hx := F.hNotHex
      obtain ⟨_, ⟨i, hi, hp⟩, _, hnb, _⟩ := gate_ok F.hGate
      obtain ⟨e1, _⟩ := AddrStr.decode_ok F.hSender
      have hpd : F.p.denom = m.denom.s := by
        simp only [Registry.idOfTok, hx] at hi
        obtain ⟨q, hq, hqd⟩ := (hB.reg.denomIdx _ _).mp hi
        rw [hp] at hq; injection hq with hq; subst hq; exact hqd
      rcases afterGate_ok F.hRest with ⟨_, hpath⟩ | ⟨_, hw, _⟩
      · rw [honest_code_world', ← hpd] at hpath
        exact backing_coinPath hE hB hp (by rw [e1]; exact hsm) (not_blocked_ne_mod hE hnb) hpath
      · exact backing_delete hB (hB.reg.getPair_id hp) (congrArg World.st hw) ((congrArg World.evm hw).trans rfl)
    | convertERC20 m =>
      simp only [ghostAfter]
      obtain ⟨F⟩ := convertERC20_ok (by simpa [step] using hs)
      obtain ⟨_, ⟨i, hi, hp⟩, _, hnb, _⟩ := gate_ok F.hGate
      obtain ⟨e1, _⟩ := HexStr.decode_ok F.hSender
      rcases afterGate_ok F.hRest with ⟨_, hpath⟩ | ⟨_, hw, _⟩
      · rw [honest_code_world'] at hpath
        exact backing_erc20Path hE hB hp (by rw [e1]; exact hok) (not_blocked_ne_mod hE hnb) hpath
      · exact backing_delete hB (hB.reg.getPair_id hp) (congrArg World.st hw) ((congrArg World.evm hw).trans rfl)
    | registerCoin auth base dg =>
      obtain ⟨_, _, ⟨F⟩⟩ := registerCoin_ok (by simpa [step] using hs)
      obtain ⟨hnc, hcr⟩ := honest_create_ok F.hCreate
      have hfresh := hok F.addr F.hAddr
      simp only [ghostAfter, F.hAddr]
      have hst : w'.st = { h.w.st with reg := h.w.st.reg.insert { addr := F.addr, denom := base, enabled := true, owner := .module },
                                       dmeta := F.dmeta1, mn := h.w.st.mn + 1 } := congrArg World.st F.hWorld
      have hev : w'.evm = { h.w.evm with code := h.w.evm.code ++ [F.addr], minter := h.w.evm.minter ++ [(F.addr, cfg.modAddr)] } :=
        (congrArg World.evm F.hWorld).trans hcr
      have hsup0 : h.w.evm.supply F.addr = 0 := hB.noCodeNoSupply _ hnc
      refine backing_registry hB ?_ ?_ ?_ ?_ ?_ ?_ ?_ ?_
      · show RegInv w'.st.reg; rw [hst]; exact regInv_insert hB.reg _ F.hNew hfresh F.hNotHex
      · intro a d; show w'.st.bank.get a d = _; rw [hst]
      · intro d; show w'.st.bank.supply d = _; rw [hst]
      · intro c x; show w'.evm.balOf c x = _; rw [hev]; rfl
      · intro c; show w'.evm.supply c = _; rw [hev]; rfl
      · intro c hc; show w'.evm.hasCode c = true; rw [hev, hasCode_append]; simp [hc]
      · intro j q hq
        have hq' : (h.w.st.reg.insert { addr := F.addr, denom := base, enabled := true, owner := .module }).getPair j = some q := by
          have : w'.st.reg.getPair j = some q := hq
          rw [hst] at this; exact this
        rw [getPair_insert] at hq'
        split at hq'
        · injection hq' with hq'; subst hq'
          right
          constructor
          · intro _
            show w'.st.bank.get env.modAddr base = w'.evm.supply F.addr + (h.destroyed.set F.addr _).get F.addr ∧ w'.evm.hasCode F.addr = true
            rw [AMap.get_set_same, hev, hasCode_append]
            have e0 : ({ h.w.evm with code := h.w.evm.code ++ [F.addr], minter := h.w.evm.minter ++ [(F.addr, cfg.modAddr)] } : TState).supply F.addr = 0 := hsup0
            rw [e0]
            simp
          · intro he; cases he
        · left
          refine ⟨j, q, hq', rfl, rfl, rfl, ?_⟩
          have hne : q.addr ≠ F.addr := by
            intro e
            have := (hB.reg.addrIdx q.addr j).mpr ⟨q, hq', rfl⟩
            rw [e, hfresh] at this; cases this
          show (h.destroyed.set F.addr _).get q.addr = _
          rw [AMap.get_set_other _ _ _ _ hne]
      · intro c hc
        have hc' : w'.evm.hasCode c = false := hc
        rw [hev, hasCode_append] at hc'
        have : h.w.evm.hasCode c = false := by
          cases hcc : h.w.evm.hasCode c with
          | false => rfl
          | true => rw [hcc] at hc'; simp at hc'
        show w'.evm.supply c = 0; rw [hev]; exact hB.noCodeNoSupply c this
    | registerERC20 auth c mo =>
      simp only [ghostAfter]
      obtain ⟨_, _, _, ⟨F⟩⟩ := registerERC20_ok (by simpa [step] using hs)
      -- the three read-only queries leave the honest EVM as it is
      have hst : w'.st = { h.w.st with reg := h.w.st.reg.insert { addr := c, denom := F.d, enabled := true, owner := .external },
                                       dmeta := put h.w.st.dmeta F.d "erc20" } := congrArg World.st F.hWorld
      have hq3 : ∃ e1, queryERC20 (honest cfg) h.w.st env c h.w.evm = .ok e1 ∧ w'.evm = e1 := by
        simp only [step] at hs
        unfold registerERC20 at hs
        obtain ⟨_, _, hs⟩ := bind_ok hs
        obtain ⟨_, _, hs⟩ := bind_ok hs
        obtain ⟨_, _, hs⟩ := bind_ok hs
        obtain ⟨e1, hq, hs⟩ := bind_ok hs
        obtain ⟨_, _, hs⟩ := bind_ok hs
        obtain ⟨_, _, hs⟩ := bind_ok hs
        obtain ⟨_, _, hs⟩ := bind_ok hs
        obtain ⟨_, _, hs⟩ := bind_ok hs
        injection hs with hs
        simp only [Prod.mk.injEq] at hs
        exact ⟨e1, hq, by rw [← hs.1]⟩
      obtain ⟨e1, hq, hev1⟩ := hq3
      have hev : w'.evm = h.w.evm := by rw [hev1]; exact queryERC20_honest hq
      refine backing_registry hB ?_ ?_ ?_ ?_ ?_ ?_ ?_ ?_
      · show RegInv w'.st.reg; rw [hst]
        exact regInv_insert hB.reg _ F.hNewDenom F.hNewAddr (hE.base.erc20DenomNotHex c F.d F.hDenom)
      · intro a d; show w'.st.bank.get a d = _; rw [hst]
      · intro d; show w'.st.bank.supply d = _; rw [hst]
      · intro c' x; show w'.evm.balOf c' x = _; rw [hev]
      · intro c'; show w'.evm.supply c' = _; rw [hev]
      · intro c' hc; show w'.evm.hasCode c' = true; rw [hev]; exact hc
      · intro j q hq
        have hq' : (h.w.st.reg.insert { addr := c, denom := F.d, enabled := true, owner := .external }).getPair j = some q := by
          have : w'.st.reg.getPair j = some q := hq
          rw [hst] at this; exact this
        rw [getPair_insert] at hq'
        split at hq'
        · injection hq' with hq'; subst hq'
          right
          constructor
          · intro he; cases he
          · intro _
            show w'.st.bank.supply F.d ≤ w'.evm.balOf c env.modAddr
            rw [hst, hev]
            exact hok F.d F.hDenom
        · exact Or.inl ⟨j, q, hq', rfl, rfl, rfl, rfl⟩
      · intro c' hc
        have : w'.evm.hasCode c' = false := hc
        rw [hev] at this
        show w'.evm.supply c' = 0; rw [hev]; exact hB.noCodeNoSupply c' this
    | toggle auth t =>
      simp only [ghostAfter]
      obtain ⟨_, _, i, p, _, hp, hw⟩ := toggle_ok (by simpa [step] using hs)
      have hpid := hB.reg.getPair_id hp
      refine backing_registry hB ?_ ?_ ?_ ?_ ?_ ?_ ?_ ?_
      · show RegInv w'.st.reg; rw [hw]; exact regInv_setPair hB.reg p _ hpid rfl rfl
      · intro a d; show w'.st.bank.get a d = _; rw [hw]
      · intro d; show w'.st.bank.supply d = _; rw [hw]
      · intro c x; show w'.evm.balOf c x = _; rw [hw]
      · intro c; show w'.evm.supply c = _; rw [hw]
      · intro c hc; show w'.evm.hasCode c = true; rw [hw]; exact hc
      · intro j q hq
        have hq' : (h.w.st.reg.setPair { p with enabled := !p.enabled }).getPair j = some q := by
          have : w'.st.reg.getPair j = some q := hq
          rw [hw] at this; exact this
        rw [getPair_setPair] at hq'
        split at hq'
        · injection hq' with hq'; subst hq'
          exact Or.inl ⟨p.id, p, hpid, rfl, rfl, rfl, rfl⟩
        · exact Or.inl ⟨j, q, hq', rfl, rfl, rfl, rfl⟩
      · intro c hc
        have : w'.evm.hasCode c = false := hc
        rw [hw] at this
        show w'.evm.supply c = 0; rw [hw]; exact hB.noCodeNoSupply c this
    | updateParams auth p =>
      simp only [ghostAfter]
      simp only [step, updateParams] at hs
      obtain ⟨_, _, hs⟩ := bind_ok hs
      injection hs with hs; simp only [Prod.mk.injEq] at hs
      exact backing_of_eq hB (by rw [← hs.1]) (by rw [← hs.1]) (by rw [← hs.1]) rfl
    | hook logs => exact absurd hok id
    | send src dst d amt =>
      simp only [ghostAfter]
      simp only [step] at hs
      obtain ⟨b, hb, hs⟩ := bind_ok hs
      injection hs with hs; simp only [Prod.mk.injEq] at hs
      have hw : w' = { h.w with st := { h.w.st with bank := b } } := hs.1.symm
      obtain ⟨hsrc, hdst⟩ := hok
      have flow := Bank.applyAll_flow _ _ _ hb
      rw [hw]
      refine backing_confined hB (· = d) (fun _ => False) (fun _ => rfl) hB.reg ?_ (fun _ _ _ => rfl) (fun _ _ => rfl)
        (fun _ hc => hc) (fun _ _ => rfl) ?_ hB.noCodeNoSupply
      · intro d' hne; exact single_other_denom hb d' (by simpa [effDenom] using hne)
      · intro j q hq ht
        have hqd : q.denom = d := by rcases ht with e | f; exact e; exact absurd f id
        constructor
        · intro ho
          show b.get env.modAddr q.denom = _
          have f := (flow env.modAddr q.denom).1
          flowb at f
          have h1 : ¬ env.modAddr = src := fun e => hsrc e.symm
          have h2 : ¬ env.modAddr = dst := fun e => hdst e.symm
          simp only [h1, h2, false_and, if_false, Nat.add_zero] at f
          rw [f]; exact hB.native j q hq ho
        · intro ho
          show b.supply q.denom ≤ _
          have f := (flow "" q.denom).2
          flowb at f
          have : b.supply q.denom = h.w.st.bank.supply q.denom := by omega
          rw [this]; exact hB.external j q hq ho
    | setSendEnabled d v =>
      simp only [ghostAfter]
      simp only [step] at hs
      injection hs with hs; simp only [Prod.mk.injEq] at hs
      exact backing_of_eq hB (by rw [← hs.1]) (by rw [← hs.1]) (by rw [← hs.1]) rfl
    | setSendDefault v =>
      simp only [ghostAfter]
      simp only [step] at hs
      injection hs with hs; simp only [Prod.mk.injEq] at hs
      exact backing_of_eq hB (by rw [← hs.1]) (by rw [← hs.1]) (by rw [← hs.1]) rfl
    | reimport =>
      simp only [ghostAfter]
      simp only [step] at hs
      injection hs with hs; simp only [Prod.mk.injEq] at hs
      have hw : w' = { h.w with st := { h.w.st with reg := reimport h.w.st.reg } } := hs.1.symm
      obtain ⟨l1, _, _⟩ := reimport_lookups hB.reg
      rw [hw]
      exact backing_registry hB (regInv_reimport hB.reg) (fun _ _ => rfl) (fun _ => rfl) (fun _ _ => rfl) (fun _ => rfl)
        (fun _ hc => hc)
        (fun j q hq => Or.inl ⟨j, q, by rw [← l1]; exact hq, rfl, rfl, rfl, rfl⟩) hB.noCodeNoSupply
  | evmTx c holder call =>
    obtain ⟨hh, hnb⟩ := hok
    simp only [hstepW, evmTx] at hs
    cases hhc : holderCall cfg h.w.evm c holder call with
    | none => rw [hhc] at hs; cases hs
    | some res =>
      obtain ⟨t1, logs⟩ := res
      rw [hhc] at hs
      simp only at hs
      cases call with
      | transfer to a =>
        simp only [ghostAfter]
        simp only [holderCall] at hhc
        split at hhc
        · rename_i hst
          injection hhc with hhc
          simp only [Prod.mk.injEq] at hhc
          obtain ⟨ht1, hlogs⟩ := hhc
          cases hcode : h.w.evm.hasCode c with
          | false =>
            -- no code at `c`: nothing happens, no log
            rw [transferBy_nocode hcode] at ht1
            simp only [hcode] at hlogs
            subst ht1; subst hlogs
            unfold postTx at hs
            split at hs
            · injection hs with hs; simp only [Prod.mk.injEq] at hs; rw [← hs.1]
              exact backing_of_eq hB rfl rfl rfl rfl
            · simp only [hookLogs] at hs
              injection hs with hs; simp only [Prod.mk.injEq] at hs; rw [← hs.1]
              exact backing_of_eq hB rfl rfl rfl rfl
          | true =>
            obtain ⟨e1, hle⟩ := transferBy_ok hcode hst
            rw [e1] at ht1
            simp only [hcode, if_true] at hlogs
            subst ht1; subst hlogs
            unfold postTx at hs
            split at hs
            · injection hs with hs; simp only [Prod.mk.injEq] at hs; rw [← hs.1]
              exact backing_transfer hB hh
            · simp only [hookLogs] at hs
              obtain ⟨w1, h1, hs⟩ := bind_ok hs
              obtain ⟨w2, h2, h1⟩ := bind_ok h1
              injection h1 with h1; subst h1
              injection hs with hs; simp only [Prod.mk.injEq] at hs; rw [← hs.1]
              exact backing_hookLog hE hB hcode hh hnb h2
        · cases hhc
      | approve sp a =>
        -- an approval moves nothing and its log is not a `Transfer`: the hook ignores it
        simp only [ghostAfter]
        simp only [holderCall] at hhc
        split at hhc
        · injection hhc with hhc
          simp only [Prod.mk.injEq] at hhc
          obtain ⟨ht1, hlogs⟩ := hhc
          subst ht1; subst hlogs
          unfold postTx at hs
          split at hs
          · injection hs with hs; simp only [Prod.mk.injEq] at hs; rw [← hs.1]
            exact backing_of_eq hB rfl rfl rfl rfl
          · simp only [hookLogs] at hs
            injection hs with hs; simp only [Prod.mk.injEq] at hs; rw [← hs.1]
            exact backing_of_eq hB rfl rfl rfl rfl
        · split at hhc
          · cases hhc
          · injection hhc with hhc
            simp only [Prod.mk.injEq] at hhc
            obtain ⟨ht1, hlogs⟩ := hhc
            subst ht1; subst hlogs
            unfold postTx at hs
            split at hs
            · injection hs with hs; simp only [Prod.mk.injEq] at hs; rw [← hs.1]
              exact backing_of_eq hB rfl rfl rfl rfl
            · rw [hookLogs_no_target] at hs
              · injection hs with hs; simp only [Prod.mk.injEq] at hs; rw [← hs.1]
                exact backing_of_eq hB rfl rfl rfl rfl
              · intro l hl
                simp only [List.mem_singleton] at hl
                subst hl
                simp [hookTarget]
      | burn a =>
        simp only [holderCall] at hhc
        cases hcode : h.w.evm.hasCode c with
        | false =>
          simp only [hcode, Bool.not_false, if_true] at hhc
          injection hhc with hhc
          simp only [Prod.mk.injEq] at hhc
          obtain ⟨ht1, hlogs⟩ := hhc
          subst ht1; subst hlogs
          simp only [ghostAfter, hcode, Bool.false_eq_true, if_false]
          unfold postTx at hs
          split at hs
          · injection hs with hs; simp only [Prod.mk.injEq] at hs; rw [← hs.1]
            exact backing_of_eq hB rfl rfl rfl rfl
          · simp only [hookLogs] at hs
            injection hs with hs; simp only [Prod.mk.injEq] at hs; rw [← hs.1]
            exact backing_of_eq hB rfl rfl rfl rfl
        | true =>
          simp only [hcode, Bool.not_true, Bool.false_eq_true, if_false] at hhc
          split at hhc
          · rename_i hst
            injection hhc with hhc
            simp only [Prod.mk.injEq] at hhc
            obtain ⟨ht1, hlogs⟩ := hhc
            obtain ⟨e1, hle, hls, _⟩ := burnFrom_ok hst
            rw [e1] at ht1
            subst ht1; subst hlogs
            simp only [ghostAfter, hcode, if_true]
            -- the log goes to the zero address: the hook ignores it
            have hw : w' = { h.w with evm := (h.w.evm.debit c holder a).setSupply c (h.w.evm.supply c - a) } := by
              unfold postTx at hs
              split at hs
              · injection hs with hs; simp only [Prod.mk.injEq] at hs; exact hs.1.symm
              · have hz : cfg.zero ≠ env.modAddr := hE.zeroNe
                rw [hookLogs_no_target] at hs
                · injection hs with hs; simp only [Prod.mk.injEq] at hs; exact hs.1.symm
                · intro l hl
                  simp only [List.mem_singleton] at hl
                  subst hl
                  exact hookTarget_not_to_module hz
            rw [hw]
            refine backing_confined hB (fun _ => False) (· = c) (fun _ => rfl) hB.reg (fun d _ => dFrame_refl _ _) ?_ ?_ ?_ ?_ ?_ ?_
            · intro c' x hne
              have : ¬ c' = c := hne
              show ((h.w.evm.debit c holder a).setSupply c _).balOf c' x = _
              simp [this]
            · intro c' hne
              have : ¬ c' = c := hne
              show ((h.w.evm.debit c holder a).setSupply c _).supply c' = _
              simp [this]
            · intro c' hc'; show ((h.w.evm.debit c holder a).setSupply c _).hasCode c' = true; simpa using hc'
            · intro c' hne
              have : c' ≠ c := hne
              show (h.destroyed.set c _).get c' = _
              rw [AMap.get_set_other _ _ _ _ this]
            · intro j q hq ht
              have hqa : q.addr = c := by rcases ht with f | e; exact absurd f id; exact e
              constructor
              · intro ho
                show h.w.st.bank.get env.modAddr q.denom =
                  ((h.w.evm.debit c holder a).setSupply c (h.w.evm.supply c - a)).supply q.addr + (h.destroyed.set c _).get q.addr
                have := hB.native j q hq ho
                rw [hqa] at this ⊢
                rw [AMap.get_set_same]
                simp only [supply_setSupply, if_true]
                omega
              · intro ho
                show h.w.st.bank.supply q.denom ≤ ((h.w.evm.debit c holder a).setSupply c _).balOf q.addr env.modAddr
                have := hB.external j q hq ho
                rw [hqa] at this ⊢
                have hmh : ¬ env.modAddr = holder := fun e => hh e.symm
                simp only [balOf_setSupply, balOf_debit, hmh, and_false, if_false]
                exact this
            · intro c' hc'
              have hc0 : h.w.evm.hasCode c' = false := by
                have : ((h.w.evm.debit c holder a).setSupply c (h.w.evm.supply c - a)).hasCode c' = false := hc'
                simpa using this
              have hne : c' ≠ c := by intro e; rw [e, hcode] at hc0; cases hc0
              show ((h.w.evm.debit c holder a).setSupply c _).supply c' = 0
              simp [hne]
              exact hB.noCodeNoSupply c' hc0
          · cases hhc
  | deploy c deployer supply =>
    simp only [ghostAfter]
    simp only [hstepW] at hs
    cases hd : deployExternal h.w.evm c deployer supply with
    | none => rw [hd] at hs; cases hs
    | some t =>
      rw [hd] at hs
      injection hs with hs; simp only [Prod.mk.injEq] at hs
      rw [← hs.1]
      unfold deployExternal at hd
      split at hd
      · cases hd
      · rename_i hnc
        have hnc' : h.w.evm.hasCode c = false := by simpa using hnc
        injection hd with hd
        subst hd
        refine backing_confined hB (fun _ => False) (· = c) (fun _ => rfl) hB.reg (fun d _ => dFrame_refl _ _) ?_ ?_ ?_ ?_ ?_ ?_
        · intro c' x hne
          have : ¬ c' = c := hne
          simp only [balOf_credit, balOf_setSupply, this, false_and, if_false]
          rfl
        · intro c' hne
          have : ¬ c' = c := hne
          simp only [supply_credit, supply_setSupply, this, if_false]
          rfl
        · intro c' hc'
          simp only [hasCode_credit, hasCode_setSupply, hasCode_append, hc', Bool.true_or]
        · intro c' _; rfl
        · intro j q hq ht
          have hqa : q.addr = c := by rcases ht with f | e; exact absurd f id; exact e
          constructor
          · intro ho
            have := hB.nativeCode j q hq ho
            rw [hqa, hnc'] at this; cases this
          · intro ho
            have := hB.external j q hq ho
            rw [hqa] at this ⊢
            simp only [balOf_credit, balOf_setSupply]
            split
            · show _ ≤ h.w.evm.balOf c deployer + supply
              rename_i hc'; rw [← hc'.2]; omega
            · exact this
        · intro c' hc'
          simp only [hasCode_credit, hasCode_setSupply, hasCode_append] at hc'
          have h1 : h.w.evm.hasCode c' = false := by
            cases hcc : h.w.evm.hasCode c' with
            | false => rfl
            | true => rw [hcc] at hc'; simp at hc'
          have h2 : c' ≠ c := by
            intro e; rw [e] at hc'; simp at hc'
          simp only [supply_credit, supply_setSupply, h2, if_false]
          exact hB.noCodeNoSupply c' h1

/-- **backing_step.**  One operation of the honest world, accepted or rejected. -/
theorem backing_step (env : Env) (cfg : Cfg) (h : HWorld) (op : HOp) (hE : EnvOK3 env cfg) (hB : Backing env h)
    (hok : HOpOK env h op) : Backing env (hexec env cfg h op) := by
  unfold hexec deliver
  split
  · rename_i h' r heq
    unfold hstep at heq
    obtain ⟨⟨w', r'⟩, hw, heq⟩ := bind_ok heq
    injection heq with heq
    simp only [Prod.mk.injEq] at heq
    rw [← heq.1]
    exact backing_hstep hE hB hok hw
  · exact hB

/-- the side conditions along a run -/
def HRunOK (env : Env) (cfg : Cfg) : HWorld → List HOp → Prop
  | _, [] => True
  | h, op :: ops => HOpOK env h op ∧ HRunOK env cfg (hexec env cfg h op) ops

/-- **backing_history.**  Every sequence of operations from every state satisfying the invariant. -/
theorem backing_history (env : Env) (cfg : Cfg) (hE : EnvOK3 env cfg) (ops : List HOp) :
    ∀ (h : HWorld), Backing env h → HRunOK env cfg h ops → Backing env (hrun env cfg h ops) := by
  induction ops with
  | nil => intro h hB _; exact hB
  | cons op ops ih =>
    intro h hB hr
    exact ih _ (backing_step env cfg h op hE hB hr.1) hr.2

/-- the invariant holds before anything is registered -/
theorem backing_init (env : Env) (h : HWorld) (hr : h.w.st.reg = Registry.empty)
    (hn : ∀ c, h.w.evm.hasCode c = false → h.w.evm.supply c = 0) : Backing env h := by
  refine ⟨by rw [hr]; exact regInv_empty, ?_, ?_, ?_, hn⟩ <;>
    (intro i p hp; rw [hr] at hp; simp [Registry.getPair, Registry.empty] at hp)

/-! ## what the invariant says -/

/-- **native_backing.**  For every registered pair whose ERC-20 contract the chain deployed, the coins
the module holds in escrow equal the contract's total supply plus the tokens holders destroyed
themselves — never less than the total supply. -/
theorem native_backing {env : Env} {h : HWorld} (hB : Backing env h) {i : PairId} {p : Pair}
    (hp : h.w.st.reg.getPair i = some p) (ho : p.owner = .module) :
    h.w.st.bank.get env.modAddr p.denom = h.w.evm.supply p.addr + h.destroyed.get p.addr ∧
    h.w.evm.supply p.addr ≤ h.w.st.bank.get env.modAddr p.denom := by
  have := hB.native i p hp ho
  exact ⟨this, by omega⟩

/-- **external_backing.**  For every registered, externally deployed (honest) ERC-20, the bank supply
of its coin never exceeds the tokens the module holds in escrow. -/
theorem external_backing {env : Env} {h : HWorld} (hB : Backing env h) {i : PairId} {p : Pair}
    (hp : h.w.st.reg.getPair i = some p) (ho : p.owner = .external) :
    h.w.st.bank.supply p.denom ≤ h.w.evm.balOf p.addr env.modAddr := hB.external i p hp ho

/-- the ghost changes only when a holder burns (by the amount burned, on a contract with code) and
when a coin is registered (initialisation for the new contract's address) -/
theorem destroyed_only_grows_by_holder_burns (env : Env) (h : HWorld) (op : HOp) (w' : World TState) (c : Addr) :
    (ghostAfter env h op w').get c = h.destroyed.get c ∨
    (∃ holder a, op = .evmTx c holder (.burn a) ∧ h.w.evm.hasCode c = true ∧
      (ghostAfter env h op w').get c = h.destroyed.get c + a) ∨
    (∃ auth base dg, op = .k (.registerCoin auth base dg) ∧ env.create h.w.st.mn = .ok c) := by
  cases op with
  | k kop =>
    cases kop with
    | registerCoin auth base dg =>
      simp only [ghostAfter]
      cases hc : env.create h.w.st.mn with
      | error e => left; rfl
      | ok addr =>
        by_cases hca : c = addr
        · right; right; exact ⟨auth, base, dg, rfl, by rw [hca]⟩
        · left; simp only; rw [AMap.get_set_other _ _ _ _ hca]
    | _ => left; rfl
  | evmTx c' holder call =>
    cases call with
    | transfer to a => left; rfl
    | approve sp a => left; rfl
    | burn a =>
      simp only [ghostAfter]
      split
      · rename_i hcode
        by_cases hcc : c = c'
        · subst hcc
          right; left
          exact ⟨holder, a, rfl, hcode, AMap.get_set_same _ _ _⟩
        · left; rw [AMap.get_set_other _ _ _ _ hcc]
      · left; rfl
  | deploy _ _ _ => left; rfl

/-! ## the boundary: "standard ERC-20" is needed for the second clause -/

/-- **external_backing_needs_standard.**  A registered external contract that merely *emits*
`Transfer(u1, module, 9)` — no token moves — makes the hook mint 9 coins for `u1`: afterwards the
bank supply of the coin (9) exceeds the tokens the module holds (0).  The forged log is the
adversarial contract; with the honest token the receipt would carry the log only together with the
token movement (`backing_step`). -/
theorem external_backing_needs_standard :
    (let O := honest exCfg
     let w1 := exec exEnv O exWorld (.registerERC20 true "t0" true)
     let forged : Log := { emitter := "t0", nTopics := 3, isTransfer := true, sender := "u1", to := "m.erc20", amount := some 9 }
     match step exEnv O w1 (.hook [forged]) with
     | .ok (w2, _) =>
       w2.st.bank.supply "erc20/0x746f6b656e305F5f5F5f5f5F5f5F5F5F5f5F5F5f" == 9 &&
       w2.st.bank.get "u1" "erc20/0x746f6b656e305F5f5F5f5f5F5f5F5F5F5f5F5F5f" == 9 &&
       w2.evm.balOf "t0" "m.erc20" == 0 && w2.evm.balOf "t0" "u1" == 0
     | .error _ => false) = true := by
  decide +kernel

/-! ## non-vacuity -/

theorem exEnvOK3 : EnvOK3 exEnv exCfg := ⟨exEnvOK, by decide, rfl, by decide⟩

/-- the example world satisfies the invariant (nothing registered yet; the only token has code) -/
example : Backing exEnv { w := exWorld, destroyed := AMap.empty } := by
  refine backing_init exEnv _ rfl ?_
  intro c hc
  show exWorld.evm.supply c = 0
  simp only [exWorld, TState.supply, TState.hasCode, AMap.get, AMap.getL] at hc ⊢
  split
  · rename_i e; subst e; simp at hc
  · rfl

/-- a history through both kinds of pair, both message directions, the hook route and a holder burn:
escrow = total supply + destroyed for the chain-deployed contract, supply ≤ escrowed tokens for the
external one, at the end -/
example :
    (let h0 : HWorld := { w := exWorld, destroyed := AMap.empty }
     let ops : List HOp :=
       [.k (.registerCoin true "acoin" "d1"), .k (.registerERC20 true "t0" true),
        .k (.convertCoin { denom := ⟨"acoin", "-"⟩, amount := 6, receiver := ⟨true, "u1"⟩, sender := ⟨.lower, "u0"⟩ }),
        .evmTx "k0" "u1" (.transfer "m.erc20" 2), .evmTx "k0" "u1" (.burn 1),
        .k (.convertERC20 { contract := ⟨true, "k0"⟩, amount := 1, receiver := ⟨.lower, "u1"⟩, sender := ⟨true, "u1"⟩ }),
        .k (.convertERC20 { contract := ⟨true, "t0"⟩, amount := 5, receiver := ⟨.lower, "u0"⟩, sender := ⟨true, "u0"⟩ }),
        .evmTx "t0" "u0" (.transfer "m.erc20" 1),
        .k (.convertCoin { denom := ⟨"erc20/0x746f6b656e305F5f5F5f5f5F5f5F5F5F5f5F5F5f", "-"⟩, amount := 2, receiver := ⟨true, "u1"⟩, sender := ⟨.lower, "u0"⟩ })]
     let h := hrun exEnv exCfg h0 ops
     h.w.st.bank.get "m.erc20" "acoin" == 3 && h.w.evm.supply "k0" == 2 && h.destroyed.get "k0" == 1 &&
     h.w.st.bank.get "u1" "acoin" == 8 &&
     h.w.st.bank.supply "erc20/0x746f6b656e305F5f5F5f5f5F5f5F5F5F5f5F5F5f" == 4 && h.w.evm.balOf "t0" "m.erc20" == 4 &&
     h.w.evm.balOf "t0" "u1" == 2) = true := by
  decide +kernel

end Token
end Erc20
end CV
