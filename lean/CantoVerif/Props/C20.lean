import CantoVerif.Spec.Govshuttle
import CantoVerif.Proofs.GovshuttleHex
import CantoVerif.Proofs.GovshuttleInv
/-!
# C20 — passed lending-market and treasury proposals are recorded faithfully on the EVM.

All theorems are about the model `Model/Govshuttle.lean` (`step`, `exec`, `run`): the keeper logic of
`x/govshuttle` over an abstract store with the contract's `QueryProp` rule, for ALL proposal
contents (any list lengths, any byte strings, explicit and defaulted ids), all states and all
sequences of operations of both kinds (interleaved with the gov module moving its next proposal id
and with other accounts trying to write to the store).

What is proved in full: the keeper logic — which id is used, what is handed to the store, how hex text
is decoded (well-formed and malformed), treasury field placement, deploy-once, address stability over
histories, retrievability of other ids and "the last write to an id is what is retrieved" over
histories, rejection without effect for length mismatch / unsupported denomination / wrong authority.

What is `_partial` (see `stored_on_evm_partial` at the end): the ABI encoding of the call, the EVM's
execution of the compiled contract and Solidity's storage layout are NOT modelled — the contract is
the abstract map `Store` with the three rules read off `contracts/Port.sol`.  That the real compiled
contract on the real EVM behaves like this map is compared on every operation by the correspondence
run (`QueryProp` by `eth_call` for all ids met so far), never proved.
-/
namespace CV
namespace Govshuttle
open Spec

/-! ## example data for the non-vacuity examples -/

def exEnv : Env :=
  { authority := bytesOf "canto10d07y265gmmuvt4z0w9aw880jnsr700jg5j4zm",
    modAddr := List.replicate 20 7,
    create := [(0, List.replicate 20 1), (1, List.replicate 20 2)] }

def exS0 : State := { port := none, store := [], nextGovId := 5, nonce := 0 }

def exMd : Metadata :=
  { account := [bytesOf "0x00000000000000000000000000000000000000aB", bytesOf "abc"], propId := 0, values := [7, 8],
    calldatas := [bytesOf "c0ffee", bytesOf "0x12"], signatures := [bytesOf "f()", bytesOf "g(uint256)"] }

def exLM : MsgLM := { authority := exEnv.authority, title := bytesOf "t", desc := bytesOf "d", metadata := some exMd }

def exTr : MsgTreasury :=
  { authority := exEnv.authority, title := bytesOf "pay", desc := bytesOf "é",
    metadata := some { propId := 9, recipient := bytesOf "0x00000000000000000000000000000000000000aB", amount := 1234,
                       denom := bytesOf "cAnTo" } }

/-- a state with a deployed store holding two records -/
def exS2 : State := run exEnv exS0 [.lm exLM false, .treasury exTr false]

/-! ## recorded faithfully -/

/-- **stored_faithfully.** If a lending-market proposal is accepted, `QueryProp` afterwards answers, under the id the
proposal specifies — or, when it specifies none (0), the next gov proposal id at execution — exactly
`(id, title, description, ToAddress(targets), values, signatures, Hex2Bytes(calldatas))`. -/
theorem stored_faithfully {env : Env} {s s' : State} {m : MsgLM} {f : Bool} {u : Unit}
    (h : step env s (.lm m f) = .ok (s', u)) :
    ∃ md, m.metadata = some md ∧
      query s' (if md.propId = 0 then s.nextGovId else md.propId) =
        some { id := if md.propId = 0 then s.nextGovId else md.propId, title := m.title, desc := m.desc,
               targets := md.account.map hexToAddress, values := md.values, signatures := md.signatures,
               calldatas := md.calldatas.map hex2Bytes } := by
  obtain ⟨_, _, _, md, hmd, F⟩ := lendingMarket_ok h
  exact ⟨md, hmd, append_query_same F⟩

example : (step exEnv exS0 (.lm exLM false)).isOk = true := by decide +kernel
example : (match step exEnv exS0 (.lm exLM false) with
           | .ok (s', _) => query s' 5 == some ⟨5, bytesOf "t", bytesOf "d",
               [List.replicate 19 0 ++ [171], List.replicate 18 0 ++ [10, 188]], [7, 8],
               [bytesOf "f()", bytesOf "g(uint256)"], [[192, 255, 238], []]⟩
           | .error _ => false) = true := by decide +kernel

/-- … and when the call data are well-formed hex of byte strings `bs` and the targets are 40-digit hex of 20-byte
addresses `as`, the answer holds exactly those bytes and addresses -/
theorem stored_faithfully_wellformed {env : Env} {s s' : State} {m : MsgLM} {f : Bool} {u : Unit} {md : Metadata}
    (h : step env s (.lm m f) = .ok (s', u)) (hmd : m.metadata = some md)
    (bs : List Bytes) (hbs : ∀ b ∈ bs, IsBytes b) (hcd : md.calldatas = bs.map hexEncode)
    (as : List Bytes) (has : ∀ a ∈ as, IsBytes a ∧ a.length = 20) (hacc : md.account = as.map hexEncode) :
    query s' (effId s md.propId) =
      some { id := effId s md.propId, title := m.title, desc := m.desc, targets := as, values := md.values,
             signatures := md.signatures, calldatas := bs } := by
  obtain ⟨md', hmd', hq⟩ := stored_faithfully h
  rw [hmd] at hmd'; injection hmd' with hmd'; subst hmd'
  have e1 : md.calldatas.map hex2Bytes = bs := by
    rw [hcd, List.map_map]
    calc bs.map (hex2Bytes ∘ hexEncode) = bs.map id :=
          List.map_congr_left (fun b hb => hex_roundtrip b (hbs b hb))
      _ = bs := List.map_id _
  have e2 : md.account.map hexToAddress = as := by
    rw [hacc, List.map_map]
    calc as.map (hexToAddress ∘ hexEncode) = as.map id :=
          List.map_congr_left (fun a ha => hexToAddress_encode a (has a ha).1 (has a ha).2)
      _ = as := List.map_id _
  unfold effId
  rw [hq, e1, e2]

/-- **treasury field placement.** An accepted treasury proposal is answered with the recipient as the single target, the
amount as the single value, the denomination as given as the single signature, and no call data, under the given
or defaulted id; and its denomination lower-cases to `canto` or `note`. -/
theorem treasury_field_placement {env : Env} {s s' : State} {m : MsgTreasury} {f : Bool} {u : Unit}
    (h : step env s (.treasury m f) = .ok (s', u)) :
    ∃ md, m.metadata = some md ∧ denomOK md.denom = true ∧
      query s' (if md.propId = 0 then s.nextGovId else md.propId) =
        some { id := if md.propId = 0 then s.nextGovId else md.propId, title := m.title, desc := m.desc,
               targets := [hexToAddress md.recipient], values := [md.amount], signatures := [md.denom], calldatas := [] } := by
  obtain ⟨_, md, hmd, hd, F⟩ := treasury_ok h
  exact ⟨md, hmd, hd, append_query_same F⟩

example : (match step exEnv exS0 (.treasury exTr false) with
           | .ok (s', _) => query s' 9 == some ⟨9, bytesOf "pay", bytesOf "é", [List.replicate 19 0 ++ [171]], [1234],
               [bytesOf "cAnTo"], []⟩
           | .error _ => false) = true := by decide +kernel

/-! ## deployed once, address stable -/

theorem step_ok_cases {env : Env} {s s' : State} {op : Op} {u : Unit} (h : step env s op = .ok (s', u)) :
    (∃ title desc md f, AppendFacts env s title desc md f s' ∧ targetId s op = some (effId s md.propId) ∧
        expected s op = some (content s title desc md) ∧ isProposal op = true) ∨
    (∃ n, op = .setNextId n ∧ s' = { s with nextGovId := n }) := by
  cases op with
  | lm m f =>
    obtain ⟨_, _, _, md, hmd, F⟩ := lendingMarket_ok h
    exact .inl ⟨m.title, m.desc, md, f, F, by simp [targetId, hmd], by simp [expected, hmd], rfl⟩
  | treasury m f =>
    obtain ⟨_, md, hmd, _, F⟩ := treasury_ok h
    exact .inl ⟨m.title, m.desc, fromTreasury md, f, F, by simp [targetId, hmd, fromTreasury], by simp [expected, hmd], rfl⟩
  | setNextId n =>
    simp only [step] at h
    injection h with h; simp only [Prod.mk.injEq] at h
    exact .inr ⟨n, rfl, h.1.symm⟩
  | foreignAdd id =>
    simp only [step] at h
    split at h <;> cases h

/-- **deploy_once** (one step): with a stored port no operation deploys or moves it (port and module nonce unchanged);
without one, an accepted proposal deploys exactly one contract at `CreateAddress(module, nonce)` and no other
operation deploys. -/
theorem deploy_once {env : Env} {s s' : State} {op : Op} {u : Unit} (h : step env s op = .ok (s', u)) :
    (∀ a, s.port = some a → s'.port = some a ∧ s'.nonce = s.nonce) ∧
    (s.port = none →
      (isProposal op = true ∧ ∃ a, env.createAddr s.nonce = .ok a ∧ s'.port = some a ∧ s'.nonce = s.nonce + 1) ∨
      (isProposal op = false ∧ s'.port = none ∧ s'.nonce = s.nonce)) := by
  rcases step_ok_cases h with ⟨title, desc, md, f, F, _, _, hp⟩ | ⟨n, hop, hs⟩
  · obtain ⟨p1, p2⟩ := append_port F
    exact ⟨p1, fun hn => .inl ⟨hp, p2 hn⟩⟩
  · subst hs hop
    exact ⟨fun a ha => ⟨ha, rfl⟩, fun hn => .inr ⟨rfl, hn, rfl⟩⟩

example : exS0.port = none ∧ (step exEnv exS0 (.lm exLM false)).isOk = true := by decide +kernel
example : exS2.port = some (List.replicate 20 1) ∧ exS2.nonce = 1 ∧ (step exEnv exS2 (.treasury exTr false)).isOk = true := by
  decide +kernel

theorem exec_eq_of_ok {env : Env} {s s' : State} {op : Op} {u : Unit} (h : step env s op = .ok (s', u)) : exec env s op = s' := by
  simp only [exec, deliver, h]
theorem exec_eq_of_error {env : Env} {s : State} {op : Op} {e : Rej} (h : step env s op = .error e) : exec env s op = s := by
  simp only [exec, deliver, h]

/-- every transaction either leaves the state alone (rejected) or is a successful step -/
theorem exec_cases (env : Env) (s : State) (op : Op) :
    (∃ e, step env s op = .error e ∧ exec env s op = s) ∨ (∃ u, step env s op = .ok (exec env s op, u)) := by
  cases h : step env s op with
  | error e => exact .inl ⟨e, rfl, exec_eq_of_error h⟩
  | ok r => obtain ⟨s', u⟩ := r; exact .inr ⟨u, by rw [exec_eq_of_ok h]⟩

/-- **address_stable**: once set, the port address never changes, over every sequence of operations (accepted or
rejected, of all kinds), and nothing is ever deployed again (the module nonce stays). -/
theorem address_stable (env : Env) (s : State) (a : Bytes) (hp : s.port = some a) (ops : List Op) :
    (run env s ops).port = some a ∧ (run env s ops).nonce = s.nonce := by
  unfold run
  apply foldl_inv (exec env) (fun t => t.port = some a ∧ t.nonce = s.nonce) _ ops s ⟨hp, rfl⟩
  intro t op ⟨h1, h2⟩
  rcases exec_cases env t op with ⟨e, _, he⟩ | ⟨u, hu⟩
  · rw [he]; exact ⟨h1, h2⟩
  · obtain ⟨q, _⟩ := deploy_once hu
    obtain ⟨q1, q2⟩ := q a h1
    exact ⟨q1, q2.trans h2⟩

example : exS2.port = some (List.replicate 20 1) := by decide +kernel

/-- … in particular across any split of a history: whatever address is stored after a prefix is the address after the
whole history -/
theorem address_stable_prefix (env : Env) (s : State) (pre post : List Op) (a : Bytes)
    (hp : (run env s pre).port = some a) : (run env s (pre ++ post)).port = some a := by
  have : run env s (pre ++ post) = run env (run env s pre) post := by unfold run; rw [List.foldl_append]
  rw [this]
  exact (address_stable env _ a hp post).1

/-- **deployed at most once over a history** that starts without a store: either nothing was deployed (no port, nonce
unchanged) or exactly one contract was, at `CreateAddress(module, initial nonce)`. -/
theorem deployed_at_most_once (env : Env) (s : State) (hp : s.port = none) (ops : List Op) :
    ((run env s ops).port = none ∧ (run env s ops).nonce = s.nonce) ∨
    (∃ a, env.createAddr s.nonce = .ok a ∧ (run env s ops).port = some a ∧ (run env s ops).nonce = s.nonce + 1) := by
  unfold run
  apply foldl_inv (exec env) (fun t => (t.port = none ∧ t.nonce = s.nonce) ∨
      (∃ a, env.createAddr s.nonce = .ok a ∧ t.port = some a ∧ t.nonce = s.nonce + 1)) _ ops s (.inl ⟨hp, rfl⟩)
  intro t op ht
  rcases exec_cases env t op with ⟨e, _, he⟩ | ⟨u, hu⟩
  · rw [he]; exact ht
  · obtain ⟨q1, q2⟩ := deploy_once hu
    rcases ht with ⟨h1, h2⟩ | ⟨a, ha, h1, h2⟩
    · rcases q2 h1 with ⟨_, a, hc, hp', hn'⟩ | ⟨_, hp', hn'⟩
      · exact .inr ⟨a, by rw [← h2]; exact hc, hp', by rw [hn', h2]⟩
      · exact .inl ⟨hp', hn'.trans h2⟩
    · obtain ⟨r1, r2⟩ := q1 a h1
      exact .inr ⟨a, ha, r1, r2.trans h2⟩

example : exS0.port = none ∧ (run exEnv exS0 [.lm exLM false, .treasury exTr false, .lm exLM false]).nonce = 1 := by
  decide +kernel

/-! ## earlier records with other ids stay retrievable -/

/-- **others_retrievable** (one step): an accepted operation changes the answer of `QueryProp(j)` for no id `j` other
than the one it writes (on an existing store). -/
theorem others_retrievable {env : Env} {s s' : State} {op : Op} {u : Unit} {a : Bytes}
    (h : step env s op = .ok (s', u)) (hp : s.port = some a) (j : Nat) (hj : targetId s op ≠ some j) :
    query s' j = query s j := by
  rcases step_ok_cases h with ⟨title, desc, md, f, F, ht, _, _⟩ | ⟨n, _, hs⟩
  · refine append_query_other F hp ?_
    intro e; apply hj; rw [ht, e]
  · subst hs; rfl

/-- … and when the operation deploys the store, every other id answers the empty record -/
theorem others_empty_after_deploy {env : Env} {s s' : State} {op : Op} {u : Unit}
    (h : step env s op = .ok (s', u)) (hp : s.port = none) (hop : isProposal op = true) (j : Nat)
    (hj : targetId s op ≠ some j) : query s' j = some Proposal.empty := by
  rcases step_ok_cases h with ⟨title, desc, md, f, F, ht, _, _⟩ | ⟨n, hop', _⟩
  · refine append_query_other_deploy F hp ?_
    intro e; apply hj; rw [ht, e]
  · subst hop'; cases hop

example : (match step exEnv exS2 (.treasury { exTr with title := bytesOf "other" } false) with
           | .ok (s', _) => query s' 5 == query exS2 5 && (query exS2 5).isSome && query s' 9 != query exS2 9
           | .error _ => false) = true := by decide +kernel

/-- does some operation of `ops`, run from `s`, get accepted and write id `j`? -/
def touches (env : Env) (s : State) : List Op → Nat → Bool
  | [], _ => false
  | op :: rest, j =>
    ((step env s op).isOk && targetId s op == some j) || touches env (exec env s op) rest j

/-- **others_retrievable over histories**: a record stays retrievable, unchanged, through every sequence of operations
none of which is an accepted write to its id. -/
theorem untouched_retrievable (env : Env) (ops : List Op) (s : State) (a : Bytes) (hp : s.port = some a) (j : Nat)
    (ht : touches env s ops j = false) : query (run env s ops) j = query s j := by
  induction ops generalizing s with
  | nil => rfl
  | cons op rest ih =>
    simp only [touches, Bool.or_eq_false_iff, Bool.and_eq_false_iff] at ht
    obtain ⟨h1, h2⟩ := ht
    have hrun : run env s (op :: rest) = run env (exec env s op) rest := rfl
    rw [hrun]
    rcases exec_cases env s op with ⟨e, _, he⟩ | ⟨u, hu⟩
    · rw [he] at h2 ⊢; exact ih s hp h2
    · have hp' : (exec env s op).port = some a := ((deploy_once hu).1 a hp).1
      rw [ih _ hp' h2]
      apply others_retrievable hu hp
      rcases h1 with h1 | h1
      · rw [hu] at h1; cases h1
      · intro e; rw [e] at h1; simp at h1

/-- **the last write to an id is what is retrieved**: if `op` is accepted in the state reached after `pre` and writes id
`j`, and no later operation of the history is an accepted write to `j`, then after the whole history `QueryProp(j)`
answers exactly what `op` submitted. -/
theorem last_write_retrieved (env : Env) (s : State) (pre post : List Op) (op : Op) (j : Nat) (s1 : State) (u : Unit)
    (h : step env (run env s pre) op = .ok (s1, u)) (hj : targetId (run env s pre) op = some j)
    (ht : touches env s1 post j = false) :
    query (run env s (pre ++ op :: post)) j = expected (run env s pre) op ∧ (expected (run env s pre) op).isSome = true := by
  have hsplit : run env s (pre ++ op :: post) = run env s1 post := by
    unfold run
    rw [List.foldl_append, List.foldl_cons]
    have : exec env (List.foldl (exec env) s pre) op = s1 := exec_eq_of_ok h
    rw [this]
  rw [hsplit]
  rcases step_ok_cases h with ⟨title, desc, md, f, F, ht', hex, _⟩ | ⟨n, hop, _⟩
  · obtain ⟨d, _, hport, _⟩ := F.dep
    rw [untouched_retrievable env post s1 d.addr hport j ht, hex]
    rw [ht'] at hj; injection hj with hj
    rw [← hj]
    exact ⟨append_query_same F, rfl⟩
  · subst hop; cases hj

example : touches exEnv exS0 [.lm exLM false, .setNextId 3, .treasury exTr true, .treasury exTr false] 5 = true ∧
    touches exEnv (exec exEnv exS0 (.lm exLM false)) [.setNextId 3, .treasury exTr true, .treasury exTr false] 5 = false := by
  decide +kernel

/-! ## rejected without effect -/

/-- a rejected operation leaves the whole state as it was (the transaction wrapper) -/
theorem rejected_no_effect {env : Env} {s : State} {op : Op} {e : Rej} (h : step env s op = .error e) :
    exec env s op = s := exec_eq_of_error h

/-- **length_mismatch_rejected_no_effect**: a lending-market proposal whose call-data, value and signature lists are not
all of the same length is rejected — whatever else it contains — and nothing changes. -/
theorem length_mismatch_rejected_no_effect (env : Env) (s : State) (m : MsgLM) (f : Bool)
    (hlen : (lens m.metadata).1 ≠ (lens m.metadata).2.1 ∨ (lens m.metadata).2.1 ≠ (lens m.metadata).2.2) :
    (∃ e, step env s (.lm m f) = .error e) ∧ exec env s (.lm m f) = s := by
  have : ∃ e, step env s (.lm m f) = .error e := by
    cases h : step env s (.lm m f) with
    | error e => exact ⟨e, rfl⟩
    | ok r =>
      obtain ⟨s', u⟩ := r
      obtain ⟨_, l1, l2, _⟩ := lendingMarket_ok h
      rcases hlen with hl | hl
      · exact absurd l1 hl
      · exact absurd l2 hl
  obtain ⟨e, he⟩ := this
  exact ⟨⟨e, he⟩, exec_eq_of_error he⟩

def exLMbad : MsgLM := { exLM with metadata := some { exMd with values := [7] } }
example : (lens exLMbad.metadata).1 ≠ (lens exLMbad.metadata).2.1 := by decide +kernel
example : exec exEnv exS2 (.lm exLMbad false) = exS2 := by decide +kernel

/-- **bad_denom_rejected_no_effect**: a treasury proposal whose denomination does not lower-case to `canto` or `note`
(or that has no metadata) is rejected and nothing changes. -/
theorem bad_denom_rejected_no_effect (env : Env) (s : State) (m : MsgTreasury) (f : Bool)
    (hd : ∀ md, m.metadata = some md → denomOK md.denom = false) :
    (∃ e, step env s (.treasury m f) = .error e) ∧ exec env s (.treasury m f) = s := by
  have : ∃ e, step env s (.treasury m f) = .error e := by
    cases h : step env s (.treasury m f) with
    | error e => exact ⟨e, rfl⟩
    | ok r =>
      obtain ⟨s', u⟩ := r
      obtain ⟨_, md, hmd, hok, _⟩ := treasury_ok h
      rw [hd md hmd] at hok; cases hok
  obtain ⟨e, he⟩ := this
  exact ⟨⟨e, he⟩, exec_eq_of_error he⟩

example : denomOK (bytesOf "acanto") = false ∧ denomOK (bytesOf "canto ") = false ∧ denomOK (bytesOf "NoTe") = true ∧
    denomOK (bytesOf "CANTO") = true ∧ denomOK [] = false := by decide +kernel

/-- **wrong authority**: a proposal of either kind whose authority string is not the module's authority is rejected and
nothing changes — checked before anything else. -/
theorem wrong_authority_rejected_no_effect (env : Env) (s : State) (op : Op)
    (ha : match op with
          | .lm m _ => m.authority ≠ env.authority
          | .treasury m _ => m.authority ≠ env.authority
          | _ => False) :
    step env s op = .error .unauthorized ∧ exec env s op = s := by
  have : step env s op = .error .unauthorized := by
    cases op with
    | lm m f =>
      simp only at ha
      have : (m.authority == env.authority) = false := by simpa using ha
      simp only [step, lendingMarket, ensure, this]; rfl
    | treasury m f =>
      simp only at ha
      have : (m.authority == env.authority) = false := by simpa using ha
      simp only [step, treasury, ensure, this]; rfl
    | setNextId n => cases ha
    | foreignAdd id => cases ha
  exact ⟨this, exec_eq_of_error this⟩

example : (match step exEnv exS2 (.lm { exLM with authority := bytesOf "canto1xyz" } false) with
           | .error e => e == .unauthorized
           | .ok _ => false) = true := by decide +kernel

/-- nobody but the module account writes to the store -/
theorem foreign_rejected (env : Env) (s : State) (id : Nat) : ∃ e, step env s (.foreignAdd id) = .error e := by
  simp only [step]
  cases s.port with
  | none => exact ⟨_, rfl⟩
  | some a => exact ⟨_, rfl⟩

/-! ## the `QueryProp` id test never hides a record (id 0 included) -/

/-- every slot holds a record whose id is the slot's key, or is empty -/
def StoreWF (s : State) : Prop := ∀ q, (sget s.store q).id = q ∨ sget s.store q = Proposal.empty

theorem storeWF_init (port : Option Bytes) (n k : Nat) : StoreWF { port := port, store := [], nextGovId := n, nonce := k } := by
  intro q; right; rfl

theorem storeWF_step {env : Env} {s s' : State} {op : Op} {u : Unit} (hw : StoreWF s) (h : step env s op = .ok (s', u)) :
    StoreWF s' := by
  rcases step_ok_cases h with ⟨title, desc, md, f, F, _, _, _⟩ | ⟨n, _, hs⟩
  · obtain ⟨d, hd, _, hs, _⟩ := F.dep
    intro q
    rw [hs, sget_sset]
    by_cases hq : q = effId s md.propId
    · left; rw [if_pos hq, content_id, hq]
    · rw [if_neg hq]
      rcases findOrDeploy_ok hd with ⟨_, _, _, hst, _⟩ | ⟨_, _, _, _, _, hst, _⟩
      · rw [hst]; exact hw q
      · rw [hst, content_id, sget_sset, if_neg hq]; right; rfl
  · subst hs; exact hw

theorem storeWF_run (env : Env) (s : State) (hw : StoreWF s) (ops : List Op) : StoreWF (run env s ops) := by
  unfold run
  apply foldl_inv (exec env) StoreWF _ ops s hw
  intro t op ht
  rcases exec_cases env t op with ⟨e, _, he⟩ | ⟨u, hu⟩
  · rw [he]; exact ht
  · exact storeWF_step ht hu

/-- under `StoreWF` (which holds along every history from an empty store) `QueryProp(q)` is simply the slot: the test
`proposals[q].id == q` only ever fails on an empty slot, for which the answer is the empty record anyway -/
theorem query_eq_slot {s : State} (hw : StoreWF s) (a : Bytes) (hp : s.port = some a) (q : Nat) :
    query s q = some (sget s.store q) := by
  unfold query queryStore
  rw [hp]
  simp only
  rcases hw q with h | h
  · rw [if_pos h]
  · rw [h]; split <;> rfl

/-! ## the monitors evaluated on the implementation are what is proved of the model -/

theorem agreeWhere_self (wf : Bytes → Bool) (src w : List Bytes) (hl : w.length = src.length) : agreeWhere wf src w w = true := by
  induction src generalizing w with
  | nil => cases w with
    | nil => rfl
    | cons _ _ => simp at hl
  | cons x xs ih => cases w with
    | nil => simp at hl
    | cons y ys =>
      simp only [List.length_cons, Nat.add_right_cancel_iff] at hl
      simp [agreeWhere, ih ys hl]

/-- the exact model image of a submission is a faithful record of it -/
theorem faithful_self (src : Metadata) (p : Proposal) (h1 : p.targets.length = src.account.length)
    (h2 : p.calldatas.length = src.calldatas.length) : faithful src p (some p) = true := by
  simp [faithful, agreeWhere_self _ _ _ h1, agreeWhere_self _ _ _ h2]

/-- every monitor of `Spec/Govshuttle.lean` holds on every accepted transition of the model -/
theorem monitors_hold_ok {env : Env} {s s' : State} {op : Op} {u : Unit} (hw : StoreWF s)
    (h : step env s op = .ok (s', u)) (ids : List Nat) :
    ∀ mon ∈ Spec.monitors, mon.2.2
      { env := env, pre := s, op := op, ok := true, post := s', ids := ids, bankChanged := false,
        newAccts := (match s.port, s'.port with | none, some a => [a] | _, _ => []) } = true := by
  have hdep := deploy_once h
  have hcases := step_ok_cases h
  have hw' := storeWF_step hw h
  intro mon hmon
  simp only [Spec.monitors, List.mem_cons, List.mem_nil_iff, or_false] at hmon
  rcases hmon with rfl | rfl | rfl | rfl | rfl | rfl | rfl | rfl | rfl | rfl | rfl
  · -- stored_faithfully
    cases op with
    | lm m f =>
      obtain ⟨md, hmd, hq⟩ := stored_faithfully h
      simp only [storedFaithfully, hmd, Bool.not_true, Bool.false_or]
      simp only [effId, hq]
      exact faithful_self md _ (List.length_map _) (List.length_map _)
    | _ => rfl
  · -- treasury_fields
    cases op with
    | treasury m f =>
      obtain ⟨md, hmd, _, hq⟩ := treasury_field_placement h
      simp only [treasuryFields, hmd, Bool.not_true, Bool.false_or]
      simp only [effId, hq]
      exact faithful_self (fromTreasury md) _ rfl rfl
    | _ => rfl
  · -- others_retrievable
    simp only [othersRetrievable, Bool.not_true, Bool.false_or, List.all_eq_true, Bool.or_eq_true]
    intro q _
    by_cases hq : targetId s op = some q
    · left; rw [hq]; simp
    · right
      cases hp : s.port with
      | some a => simp only; rw [others_retrievable h hp q hq]; simp
      | none =>
        simp only [Bool.or_eq_true]
        rcases hdep.2 hp with ⟨hop, _⟩ | ⟨_, hp', _⟩
        · right; rw [others_empty_after_deploy h hp hop q hq]; simp
        · left; rw [hp']; rfl
  · -- port_stable
    simp only [portStable]
    cases hp : s.port with
    | some a => simp only; rw [(hdep.1 a hp).1]; simp
    | none => rfl
  · -- deploy_once
    simp only [deployOnce, Bool.true_and]
    cases hop : isProposal op with
    | true =>
      simp only [if_true]
      cases hp : s.port with
      | some a => simp only; rw [(hdep.1 a hp).2]; simp
      | none =>
        simp only
        rcases hdep.2 hp with ⟨_, a, hc, hp', hn'⟩ | ⟨hno, _⟩
        · rw [hn', hp', createAddr_ok hc]; simp
        · rw [hop] at hno; cases hno
    | false =>
      simp only [Bool.false_eq_true, if_false]
      rcases hcases with ⟨_, _, _, _, _, _, _, hpr⟩ | ⟨n, _, hs⟩
      · rw [hop] at hpr; cases hpr
      · subst hs; simp
  · rfl  -- rejected_no_effect
  · -- length_mismatch_rejected
    cases op with
    | lm m f =>
      obtain ⟨_, l1, l2, _⟩ := lendingMarket_ok h
      simp only [lengthMismatchRejected, l1, l2, beq_self_eq_true, Bool.and_self, Bool.true_or]
    | _ => rfl
  · -- bad_denom_rejected
    cases op with
    | treasury m f =>
      obtain ⟨_, md, hmd, hd, _⟩ := treasury_ok h
      simp only [badDenomRejected, hmd, hd, Bool.true_or]
    | _ => rfl
  · -- wrong_authority_rejected
    cases op with
    | lm m f =>
      obtain ⟨ha, _⟩ := lendingMarket_ok h
      simp only [wrongAuthorityRejected, ha, beq_self_eq_true, Bool.true_or]
    | treasury m f =>
      obtain ⟨ha, _⟩ := treasury_ok h
      simp only [wrongAuthorityRejected, ha, beq_self_eq_true, Bool.true_or]
    | _ => rfl
  · -- foreign_rejected
    cases op with
    | foreignAdd id => obtain ⟨e, he⟩ := foreign_rejected env s id; rw [he] at h; cases h
    | _ => rfl
  · -- answers_consistent
    simp only [answersConsistent, List.all_eq_true]
    intro q _
    cases hp : s'.port with
    | none => simp [query, hp]
    | some a =>
      rw [query_eq_slot hw' a hp q]
      simp only [Bool.or_eq_true, beq_iff_eq]
      rcases hw' q with hq | hq
      · left; exact hq
      · right; exact hq

/-- … and on every rejected transition of the model (the state is unchanged) -/
theorem monitors_hold_rej {env : Env} {s : State} {op : Op} {e : Rej} (hw : StoreWF s)
    (h : step env s op = .error e) (ids : List Nat) :
    ∀ mon ∈ Spec.monitors, mon.2.2
      { env := env, pre := s, op := op, ok := false, post := exec env s op, ids := ids,
        bankChanged := false, newAccts := [] } = true := by
  rw [exec_eq_of_error h]
  intro mon hmon
  simp only [Spec.monitors, List.mem_cons, List.mem_nil_iff, or_false] at hmon
  rcases hmon with rfl | rfl | rfl | rfl | rfl | rfl | rfl | rfl | rfl | rfl | rfl
  · simp only [storedFaithfully]; cases op <;> simp
  · simp only [treasuryFields]; cases op <;> simp
  · simp [othersRetrievable]
  · simp only [portStable]; cases s.port <;> simp
  · simp [deployOnce]
  · simp [rejectedNoEffect]
  · simp only [lengthMismatchRejected]; cases op <;> simp
  · simp only [badDenomRejected]; cases op with
    | treasury m f => simp only [Bool.not_false, Bool.or_true]; split <;> rfl
    | _ => simp
  · simp only [wrongAuthorityRejected]; cases op <;> simp
  · simp only [foreignRejected]; cases op <;> simp
  · simp only [answersConsistent, List.all_eq_true]
    intro q _
    cases hp : s.port with
    | none => simp [query, hp]
    | some a =>
      rw [query_eq_slot hw a hp q]
      simp only [Bool.or_eq_true, beq_iff_eq]
      rcases hw q with hq | hq
      · left; exact hq
      · right; exact hq

/-! ## the part that is NOT proved

Full statement (not provable here): *after the Go keeper's `CallEVM(…, "AddProposal", args…)` succeeds on
ethermint, `eth_call QueryProp(id)` on the compiled `ProposalStore` returns the ABI encoding of exactly `args`.*
That needs a model of go-ethereum's ABI coder, of the EVM and of the bytecode solc produced for
`contracts/Port.sol`; none is modelled.  What is proved is the statement with the contract replaced by the abstract map
(`sset`, `queryStore`): the read-after-write law below, which together with `stored_faithfully`,
`others_retrievable` and `query_eq_slot` is everything the property needs of the contract.  Whether the real contract
satisfies the law is checked on every operation of the correspondence run. -/
theorem stored_on_evm_partial (st : Store) (p : Proposal) (j : Nat) :
    queryStore (sset st p.id p) j = if j = p.id then p else queryStore st j := by
  by_cases h : j = p.id
  · rw [if_pos h, h, queryStore_sset_same]
  · rw [if_neg h, queryStore_sset_other _ _ h]

end Govshuttle
end CV
