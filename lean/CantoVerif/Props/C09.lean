import CantoVerif.Spec.Coinswap
import CantoVerif.Proofs.CoinswapWF
import CantoVerif.Spec.CoinswapExamples
/-!
# C09 — governance risk caps bound every pool interaction.

All statements hold for the parameters *in force at the moment of the operation* (`s.params`), so
parameters changed between any two operations are covered by the quantifier over states.
-/
namespace CV
namespace Coinswap

theorem quoteLeg_fst (std dIn dOut : Denom) (aIn aOut : Nat) (isBuy : Bool)
    (h1 : dIn = std ∨ dOut = std) (hne : dIn ≠ dOut) :
    (quoteLeg std dIn aIn dOut aOut isBuy).1 = counterOf std dIn dOut ∧
    (quoteLeg std dIn aIn dOut aOut isBuy).2 = (if dIn = std then aOut else aIn) := by
  unfold quoteLeg counterOf
  rcases h1 with h | h
  · have : dOut ≠ std := fun e => hne (h.trans e.symm)
    cases isBuy <;> simp [h, this]
  · have : dIn ≠ std := fun e => hne (e.trans h.symm)
    cases isBuy <;> simp [h, this]

/-- **Whitelist + standard side + per-swap cap.** A successful swap trades exactly one standard
leg against a whitelisted counter-asset, and the counter-asset leg — the computed one or the stated
one, whichever it is, in all four (kind × direction) cases — is at most its configured maximum. -/
theorem swap_caps {env : Env} {s s' : State} {m : MsgSwap} {r : Resp} (h : swap env s m = .ok (s', r)) :
    ∃ (sold bought : Nat) (esc : Addr) (mx : Nat),
      s.bank.applyAll (swapEffs m.inAddr.bytes m.outAddr.bytes esc m.inDenom sold m.outDenom bought) = .ok s'.bank ∧
      ((m.inDenom = s.std ∧ m.outDenom ≠ s.std) ∨ (m.inDenom ≠ s.std ∧ m.outDenom = s.std)) ∧
      lookupD s.params.maxSwap (counterOf s.std m.inDenom m.outDenom) = some mx ∧
      (if m.inDenom = s.std then bought else sold) ≤ mx := by
  obtain ⟨F⟩ := swap_ok h
  have hs := decode_ok F.hSender
  have hr := decode_ok F.hRcpt
  have hb := F.hBank
  rw [hs, hr] at hb
  have hone : (m.inDenom = s.std ∧ m.outDenom ≠ s.std) ∨ (m.inDenom ≠ s.std ∧ m.outDenom = s.std) := by
    rcases F.oneStd with h1 | h1
    · exact Or.inl ⟨h1, fun e => F.denomsNe (h1.trans e.symm)⟩
    · exact Or.inr ⟨fun e => F.denomsNe (e.trans h1.symm), h1⟩
  cases hbuy : m.isBuy with
  | false =>
    have ht := F.hTrade; rw [hbuy] at ht
    obtain ⟨_, _, hsold, _, _, _, _, hmax⟩ := trade_sell_ok ht
    obtain ⟨mx, hl, hle⟩ := checkMaxSwap_ok hmax
    obtain ⟨q1, q2⟩ := quoteLeg_fst s.std m.inDenom m.outDenom m.inAmt.toNat F.bought false F.oneStd F.denomsNe
    rw [q1] at hl; rw [q2] at hle
    refine ⟨F.sold, F.bought, F.esc, mx, hb, hone, hl, ?_⟩
    rw [hsold]; exact hle
  | true =>
    have ht := F.hTrade; rw [hbuy] at ht
    obtain ⟨_, _, hbought, _, _, _, _, _, hmax⟩ := trade_buy_ok ht
    obtain ⟨mx, hl, hle⟩ := checkMaxSwap_ok hmax
    obtain ⟨q1, q2⟩ := quoteLeg_fst s.std m.inDenom m.outDenom F.sold m.outAmt.toNat true F.oneStd F.denomsNe
    rw [q1] at hl; rw [q2] at hle
    refine ⟨F.sold, F.bought, F.esc, mx, hb, hone, hl, ?_⟩
    rw [hbought]; exact hle

/-- **No module recipient**, for every spelling of the recipient string: the check is on the decoded bytes. -/
theorem no_module_recipient {env : Env} {s s' : State} {m : MsgSwap} {r : Resp} (h : swap env s m = .ok (s', r)) :
    env.blockedCs.contains m.outAddr.bytes = false := by
  obtain ⟨F⟩ := swap_ok h
  exact F.notBlocked

/-- the upper-case spelling of a blocked address is rejected exactly like the lower-case one -/
theorem blocked_any_form (env : Env) (s : State) (m : MsgSwap) (f : AddrForm)
    (hb : env.blockedCs.contains m.outAddr.bytes = true) :
    ∃ e, swap env s { m with outAddr := ⟨f, m.outAddr.bytes⟩ } = .error e := by
  cases h : swap env s { m with outAddr := ⟨f, m.outAddr.bytes⟩ } with
  | error e => exact ⟨e, rfl⟩
  | ok v =>
    obtain ⟨s', r⟩ := v
    have := no_module_recipient h
    simp only at this
    rw [hb] at this; cases this

/-- **Whitelist + pool cap for additions.** A successful addition is for a whitelisted
counter-asset different from the standard coin; it never deposits more standard coin than the
per-pool cap, nor — when the pool already has liquidity — more than the room left under it. -/
theorem add_caps {env : Env} {s s' : State} {m : MsgAdd} {r : Resp} (h : add env s m = .ok (s', r)) :
    m.tokDenom ≠ s.std ∧ 0 < s.params.maxSwapOf m.tokDenom ∧
    ∃ (plan : AddPlan),
      s.bank.applyAll (plan.feeEffs ++ addEffs env m.sender.bytes plan.pool.escrow s.std plan.stdIn m.tokDenom plan.tokIn
        plan.pool.lpt plan.mint) = .ok s'.bank ∧
      plan.stdIn ≤ s.params.maxStd ∧ plan.stdIn ≤ m.exact.toNat ∧
      (plan.branch = .live → s.poolByCounter m.tokDenom = some plan.pool ∧
         s.bank.get plan.pool.escrow s.std + plan.stdIn ≤ s.params.maxStd) := by
  obtain ⟨F⟩ := add_ok h
  obtain ⟨hstdtok, hwl, PF⟩ := planAdd_ok F.hPlan
  have hs := decode_ok F.hSender
  have hb := F.hBank
  rw [hs] at hb
  refine ⟨fun e => hstdtok e.symm, hwl, F.plan, hb, ?_⟩
  cases PF with
  | create tax esc hNone hTax hTaxLe hCap hMin hEsc hPlan =>
    rw [hPlan]; exact ⟨hCap, Nat.le_refl _, fun hc => by cases hc⟩
  | refill pool hSome hAcct hL hCap hMin hPlan =>
    rw [hPlan]; exact ⟨hCap, Nat.le_refl _, fun hc => by cases hc⟩
  | live pool stdIn mint deposit hSome hAcct hL hRoom hAmts hMin hMax hPlan =>
    rw [hPlan]
    obtain ⟨hXle, _, hsd, _, _⟩ := addLiveAmounts_ok hAmts
    simp only
    refine ⟨?_, ?_, fun _ => ⟨hSome, ?_⟩⟩
    · rw [hsd]; exact Nat.le_trans (Nat.min_le_right _ _) (Nat.sub_le _ _)
    · rw [hsd]; exact Nat.min_le_left _ _
    · rw [hsd]
      have := Nat.min_le_right m.exact.toNat (s.params.maxStd - s.bank.get pool.escrow s.std)
      omega

/-- pools are created only through `add`, so every pool is for a counter-asset that was whitelisted
when it was created and is paired with the standard coin (`WF.counterNeStd`, maintained by `wf_step`). -/
theorem pools_against_standard {env : Env} {s : State} (hW : WF env s) : ∀ p ∈ s.pools, p.counter ≠ s.std :=
  hW.counterNeStd


/-! ## the executable predicates the driver evaluates on implementation transitions hold of every model transition -/

open Spec in
theorem no_module_recipient_monitor {env : Env} {s s' : State} {m : MsgSwap} {r : Resp} (h : swap env s m = .ok (s', r)) :
    c09_noModuleRecipient { env := env, pre := s, op := .swap m, ok := true, resp := r, post := s' } = true := by
  have := no_module_recipient h
  simp only [c09_noModuleRecipient, Bool.not_true, Bool.false_or, this, Bool.not_false]

/-! ## non-vacuity: each kind of message succeeds on a concrete non-trivial state -/

example : (step exEnv exState exSell).toBool = true := by decide +kernel
example : (step exEnv exState exBuy).toBool = true := by decide +kernel
example : (step exEnv exState exAdd).toBool = true := by decide +kernel
example : (step exEnv exState exRemove).toBool = true := by decide +kernel

end Coinswap
end CV
