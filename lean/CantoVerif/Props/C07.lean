import CantoVerif.Spec.Signers
import CantoVerif.Proofs.CoinswapInv
import CantoVerif.Proofs.CoinswapEffects
import CantoVerif.Proofs.CoinswapWF
/-!
# C07 — only a message's required signers can be debited by it.

About `Model/Signers.lean` (the three coinswap messages are the coinswap model itself; for the two
conversions the bank and token legs of the four conversion paths), for **every** state, message,
amount, recipient and spelling of the addresses:

* `signers_eq_payer` (+ the five per-message forms and `signers_spelling_*`) — for every
  well-formed message the derived signer set is exactly `[payer]`, whichever accepted spelling of the
  payer's address the message uses (lower/upper-case bech32; 0x / 0X / bare × lower / upper / EIP-55 hex);
* `debited_subset_signers` — after a successful execution of any of the five messages, every
  account whose balance in any denomination **or token** is lower than before is in the derived signer
  set, or is a pool escrow, or is the coinswap / erc20 module account acting as counterparty.
  Derived from the inversion lemmas of the coinswap model and `no_debit_mono` (an account that is
  not the source of any effect loses nothing); the recipient is chosen independently of the payer
  and appears in no disjunct;
* `model_step_monitors` — the two predicates of `Spec/Signers.lean` hold on every model transition.

Assumed (not proved here): registered tokens behave as honest ERC-20 ledgers (`transfer`, `mint`,
`burnCoins` move exactly the named amount from/to the named account), which is the erc20 suite's
subject; the un-modelled guards of the conversion handlers are a parameter `g`.
-/
namespace CV
namespace Signers
open Coinswap Spec

/-! ## signers = {payer} -/

theorem decode_good {a : AddrStr} (h : a.form ≠ .bad) : a.decode = .ok a.bytes := by
  unfold AddrStr.decode
  split
  · rename_i hb; exact absurd hb h
  · rfl

theorem hex_good {x : HexStr} (h : x.form ≠ .bad) : x.toAddr = x.bytes := by
  have : x.isHex = true := by simp [HexStr.isHex, h]
  simp [HexStr.toAddr, this]

/-- **C07, second sentence.**  For every well-formed message of the five types the derived signer set is exactly the payer. -/
theorem signers_eq_payer (op : Op) (p : Addr) (h : payer op = some p) : signers op = .ok [p] := by
  cases op with
  | cs c =>
    cases c with
    | swap m =>
      simp only [payer] at h
      split at h
      · rename_i hf; injection h with h; subst h
        simp [signers, decode_good (by simpa using hf), bind, Except.bind]
      · cases h
    | add m =>
      simp only [payer] at h
      split at h
      · rename_i hf; injection h with h; subst h
        simp [signers, decode_good (by simpa using hf), bind, Except.bind]
      · cases h
    | remove m =>
      simp only [payer] at h
      split at h
      · rename_i hf; injection h with h; subst h
        simp [signers, decode_good (by simpa using hf), bind, Except.bind]
      · cases h
    | send a b c d => simp [payer] at h
    | autoSwap a b c d => simp [payer] at h
    | setParams q => simp [payer] at h
    | setTime a b => simp [payer] at h
  | convertCoin m =>
    simp only [payer] at h
    split at h
    · rename_i hf; injection h with h; subst h
      simp [signers, decode_good (by simpa using hf), bind, Except.bind]
    · cases h
  | convertERC20 m =>
    simp only [payer] at h
    split at h
    · rename_i hf; injection h with h; subst h
      have : m.sender.form ≠ .bad := by simpa [HexStr.isHex] using hf
      simp [signers, hex_good this]
    · cases h

/-- the bech32 spellings: lower and upper case of the same bytes give the same, single signer -/
theorem signers_spelling_swap (m : MsgSwap) (b : Addr) :
    signers (.cs (.swap { m with inAddr := ⟨.lower, b⟩ })) = .ok [b] ∧
    signers (.cs (.swap { m with inAddr := ⟨.upper, b⟩ })) = .ok [b] := ⟨rfl, rfl⟩
theorem signers_spelling_add (m : MsgAdd) (b : Addr) :
    signers (.cs (.add { m with sender := ⟨.lower, b⟩ })) = .ok [b] ∧
    signers (.cs (.add { m with sender := ⟨.upper, b⟩ })) = .ok [b] := ⟨rfl, rfl⟩
theorem signers_spelling_remove (m : MsgRemove) (b : Addr) :
    signers (.cs (.remove { m with sender := ⟨.lower, b⟩ })) = .ok [b] ∧
    signers (.cs (.remove { m with sender := ⟨.upper, b⟩ })) = .ok [b] := ⟨rfl, rfl⟩
theorem signers_spelling_convertCoin (m : MsgConvertCoin) (b : Addr) :
    signers (.convertCoin { m with sender := ⟨.lower, b⟩ }) = .ok [b] ∧
    signers (.convertCoin { m with sender := ⟨.upper, b⟩ }) = .ok [b] := ⟨rfl, rfl⟩
/-- the hex spellings: every accepted spelling of the same bytes gives the same, single signer -/
theorem signers_spelling_convertERC20 (m : MsgConvertERC20) (f : HexForm) (b j : Addr) (hf : f ≠ .bad) :
    signers (.convertERC20 { m with sender := ⟨f, b, j⟩ }) = .ok [b] := by
  simp [signers, hex_good (x := ⟨f, b, j⟩) hf]

/-- the recipient plays no role in the derivation -/
theorem signers_ignore_recipient (m : MsgSwap) (r : AddrStr) :
    signers (.cs (.swap { m with outAddr := r })) = signers (.cs (.swap m)) := rfl

/-! ## debited ⊆ signers ∪ {escrow, module} -/

theorem ne_beq {a b : Addr} (h : a ≠ b) : (b == a) = false := by
  simp only [beq_eq_false_iff_ne, ne_eq]; exact fun e => h e.symm

/-- an account that no effect of the list debits has, in every denomination, at least what it had -/
theorem kept {b b' : Bank} {es : List Eff} (h : b.applyAll es = .ok b') {a : Addr}
    (hn : es.all (fun x => !x.debits a) = true) (d : Denom) : b.get a d ≤ b'.get a d :=
  no_debit_mono b b' es a h hn d

theorem swapEffs_debits {sender rcpt esc a : Addr} {dS dB : Denom} {sold bought : Nat} (h1 : a ≠ sender) (h2 : a ≠ esc) :
    (swapEffs sender rcpt esc dS sold dB bought).all (fun x => !x.debits a) = true := by
  simp [swapEffs, Eff.debits, ne_beq h1, ne_beq h2]

theorem addEffs_debits {env : Coinswap.Env} {sender esc a : Addr} {std tok lpt : Denom} {x y z : Nat}
    (h1 : a ≠ sender) (h2 : a ≠ env.modAddr) :
    (addEffs env sender esc std x tok y lpt z).all (fun e => !e.debits a) = true := by
  simp [addEffs, Eff.debits, ne_beq h1, ne_beq h2]

theorem creationFeeEffs_debits {env : Coinswap.Env} {sender a : Addr} {d : Denom} {x y : Nat}
    (h1 : a ≠ sender) (h2 : a ≠ env.modAddr) :
    (creationFeeEffs env sender d x y).all (fun e => !e.debits a) = true := by
  simp [creationFeeEffs, Eff.debits, ne_beq h1, ne_beq h2]

theorem removeEffs_debits {env : Coinswap.Env} {sender esc a : Addr} {lpt std tok : Denom} {w x y : Nat}
    (h1 : a ≠ sender) (h2 : a ≠ env.modAddr) (h3 : a ≠ esc) :
    (removeEffs env sender esc lpt w std x tok y).all (fun e => !e.debits a) = true := by
  simp [removeEffs, Eff.debits, ne_beq h1, ne_beq h2, ne_beq h3]

theorem convertCoinEffs_debits {mod sender receiver a : Addr} {p : Pair} {amt : Nat} (h1 : a ≠ sender) (h2 : a ≠ mod) :
    (convertCoinEffs mod sender receiver p amt).all (fun e => !e.debits a) = true := by
  unfold convertCoinEffs
  split <;> simp [Eff.debits, ne_beq h1, ne_beq h2]

theorem convertERC20Effs_debits {mod sender receiver a : Addr} {p : Pair} {amt : Nat} (h1 : a ≠ sender) (h2 : a ≠ mod) :
    (convertERC20Effs mod sender receiver p amt).all (fun e => !e.debits a) = true := by
  unfold convertERC20Effs
  split <;> simp [Eff.debits, ne_beq h1, ne_beq h2]

/-- the conclusion of the property for one account -/
def Allowed (env : Env) (s : State) (op : Op) (a : Addr) : Prop :=
  (∃ sg, signers op = .ok sg ∧ a ∈ sg) ∨ isEscrow env s a ∨ a = env.cs.modAddr ∨ a = env.erc20Mod

theorem swap_debited {env : Env} {s : State} {m : MsgSwap} {cs' : Coinswap.State} {r : Resp}
    (h : swap env.cs s.cs m = .ok (cs', r)) (a : Addr) (d : Denom) (hlt : cs'.bank.get a d < s.cs.bank.get a d) :
    Allowed env s (.cs (.swap m)) a := by
  obtain ⟨F⟩ := swap_ok h
  by_cases h1 : a = F.sender
  · left
    refine ⟨[F.sender], ?_, by simp [h1]⟩
    simp [signers, F.hSender, bind, Except.bind]
  · by_cases h2 : a = F.esc
    · right; left
      have hq : ∃ q, q ∈ s.cs.pools ∧ env.cs.reserve q.lpt = .ok F.esc := by
        cases hb : m.isBuy with
        | false =>
          have ht := F.hTrade; rw [hb] at ht
          obtain ⟨q, hpf, _⟩ := trade_sell_ok ht
          obtain ⟨_, _, hfind, hres, _⟩ := poolFor_ok hpf
          exact ⟨q, (mem_of_poolByCounter hfind).1, hres⟩
        | true =>
          have ht := F.hTrade; rw [hb] at ht
          obtain ⟨q, hpf, _⟩ := trade_buy_ok ht
          obtain ⟨_, _, hfind, hres, _⟩ := poolFor_ok hpf
          exact ⟨q, (mem_of_poolByCounter hfind).1, hres⟩
      obtain ⟨q, hq1, hq2⟩ := hq
      exact ⟨q, hq1, Or.inl (by rw [h2]; exact hq2)⟩
    · have := kept F.hBank (swapEffs_debits (dS := m.inDenom) (dB := m.outDenom) (sold := F.sold) (bought := F.bought) (rcpt := F.rcpt) h1 h2) d
      omega

theorem add_debited {env : Env} {s : State} {m : MsgAdd} {cs' : Coinswap.State} {r : Resp}
    (h : add env.cs s.cs m = .ok (cs', r)) (a : Addr) (d : Denom) (hlt : cs'.bank.get a d < s.cs.bank.get a d) :
    Allowed env s (.cs (.add m)) a := by
  obtain ⟨F⟩ := add_ok h
  by_cases h1 : a = F.sender
  · left
    refine ⟨[F.sender], ?_, by simp [h1]⟩
    simp [signers, F.hSender, bind, Except.bind]
  · by_cases h2 : a = env.cs.modAddr
    · right; right; left; exact h2
    · exfalso
      have hfee : F.plan.feeEffs.all (fun e => !e.debits a) = true := by
        obtain ⟨_, _, pf⟩ := planAdd_ok F.hPlan
        cases pf with
        | create tax esc _ _ _ _ _ _ hPlan => rw [hPlan]; exact creationFeeEffs_debits h1 h2
        | refill pool _ _ _ _ _ hPlan => rw [hPlan]; rfl
        | live pool stdIn mint deposit _ _ _ _ _ _ _ hPlan => rw [hPlan]; rfl
      have hall : (F.plan.feeEffs ++ addEffs env.cs F.sender F.plan.pool.escrow s.cs.std F.plan.stdIn m.tokDenom F.plan.tokIn
          F.plan.pool.lpt F.plan.mint).all (fun e => !e.debits a) = true := by
        rw [List.all_append, hfee, addEffs_debits h1 h2]; rfl
      have := kept F.hBank hall d
      omega

theorem remove_debited {env : Env} {s : State} {m : MsgRemove} {cs' : Coinswap.State} {r : Resp}
    (h : remove env.cs s.cs m = .ok (cs', r)) (a : Addr) (d : Denom) (hlt : cs'.bank.get a d < s.cs.bank.get a d) :
    Allowed env s (.cs (.remove m)) a := by
  obtain ⟨F⟩ := remove_ok h
  by_cases h1 : a = F.sender
  · left
    refine ⟨[F.sender], ?_, by simp [h1]⟩
    simp [signers, F.hSender, bind, Except.bind]
  · by_cases h2 : a = env.cs.modAddr
    · right; right; left; exact h2
    · by_cases h3 : a = F.pool.escrow
      · right; left
        exact ⟨F.pool, (mem_of_poolByLpt F.hPool).1, Or.inr h3.symm⟩
      · have := kept F.hBank (removeEffs_debits (lpt := F.pool.lpt) (w := m.withdraw.toNat) (std := s.cs.std) (x := F.stdOut)
          (tok := F.pool.counter) (y := F.tokOut) h1 h2 h3) d
        omega

theorem convertCoin_debited {env : Env} {g : Bool} {s s' : State} {m : MsgConvertCoin}
    (h : convertCoin env g s m = .ok s') (a : Addr) (d : Denom) (hlt : s'.cs.bank.get a d < s.cs.bank.get a d) :
    Allowed env s (.convertCoin m) a := by
  unfold convertCoin at h
  obtain ⟨_, _, h⟩ := bind_ok h
  obtain ⟨sender, hs, h⟩ := bind_ok h
  obtain ⟨_, _, h⟩ := bind_ok h
  obtain ⟨_, _, h⟩ := bind_ok h
  split at h
  · cases h
  · rename_i p _
    obtain ⟨b, hb, h⟩ := bind_ok h
    injection h with h; subst h
    by_cases h1 : a = sender
    · left
      refine ⟨[sender], ?_, by simp [h1]⟩
      simp [signers, hs, bind, Except.bind]
    · by_cases h2 : a = env.erc20Mod
      · right; right; right; exact h2
      · have := kept hb (convertCoinEffs_debits (receiver := m.receiver.toAddr) (p := p) (amt := m.amt.toNat) h1 h2) d
        simp only at hlt
        omega

theorem convertERC20_debited {env : Env} {g : Bool} {s s' : State} {m : MsgConvertERC20}
    (h : convertERC20 env g s m = .ok s') (a : Addr) (d : Denom) (hlt : s'.cs.bank.get a d < s.cs.bank.get a d) :
    Allowed env s (.convertERC20 m) a := by
  unfold convertERC20 at h
  obtain ⟨_, _, h⟩ := bind_ok h
  obtain ⟨receiver, _, h⟩ := bind_ok h
  obtain ⟨_, _, h⟩ := bind_ok h
  obtain ⟨_, _, h⟩ := bind_ok h
  split at h
  · cases h
  · rename_i p _
    obtain ⟨b, hb, h⟩ := bind_ok h
    injection h with h; subst h
    by_cases h1 : a = m.sender.toAddr
    · left
      exact ⟨[m.sender.toAddr], rfl, by simp [h1]⟩
    · by_cases h2 : a = env.erc20Mod
      · right; right; right; exact h2
      · have := kept hb (convertERC20Effs_debits (receiver := receiver) (p := p) (amt := m.amt.toNat) h1 h2) d
        simp only at hlt
        omega

/-- **C07, first sentence.**  For every successful execution of one of the five user messages and every
account `a`, denomination or token `d`: if `a`'s balance of `d` went down, then `a` is among the signers
the chain derives for the message, or a pool escrow, or the coinswap / erc20 module account. -/
theorem debited_subset_signers (env : Env) (g : Bool) (s s' : State) (op : Op) (hu : op.isUserMsg = true)
    (h : step env g s op = .ok s') (a : Addr) (d : Denom) (hlt : s'.cs.bank.get a d < s.cs.bank.get a d) :
    Allowed env s op a := by
  cases op with
  | cs c =>
    simp only [step] at h
    obtain ⟨⟨cs', r⟩, hc, h⟩ := bind_ok h
    simp only at h
    injection h with h; subst h
    simp only at hlt
    cases c with
    | swap m => exact swap_debited hc a d hlt
    | add m => exact add_debited hc a d hlt
    | remove m => exact remove_debited hc a d hlt
    | send a b c d => simp [Op.isUserMsg] at hu
    | autoSwap a b c d => simp [Op.isUserMsg] at hu
    | setParams q => simp [Op.isUserMsg] at hu
    | setTime a b => simp [Op.isUserMsg] at hu
  | convertCoin m => exact convertCoin_debited h a d hlt
  | convertERC20 m => exact convertERC20_debited h a d hlt

/-- the payer named by a well-formed, successfully executed message is the one signer — so "debited
⊆ signers ∪ …" reads "debited ⊆ {payer} ∪ {escrow, module}" -/
theorem debited_is_payer (env : Env) (g : Bool) (s s' : State) (op : Op) (hu : op.isUserMsg = true) (p : Addr)
    (hp : payer op = some p) (h : step env g s op = .ok s') (a : Addr) (d : Denom)
    (hlt : s'.cs.bank.get a d < s.cs.bank.get a d) :
    a = p ∨ isEscrow env s a ∨ a = env.cs.modAddr ∨ a = env.erc20Mod := by
  rcases debited_subset_signers env g s s' op hu h a d hlt with ⟨sg, hsg, hmem⟩ | h2
  · rw [signers_eq_payer op p hp] at hsg
    injection hsg with hsg; subst hsg
    left; simpa using hmem
  · exact Or.inr h2

/-! ## non-vacuity: a module-owned conversion with payer ≠ recipient debits exactly the payer -/

def exEnv : Env := { cs := { modAddr := "m.coinswap", feeCollector := "m.fc", blockedCs := [], blockedBank := [], reserveAddr := [] }, erc20Mod := "m.erc20" }
def exState : State :=
  { cs := { bank := { bal := (AMap.empty.set ("alice", "acoin") 10), sup := AMap.empty.set "acoin" 10, accts := ["alice"] },
            params := { fee := 0, taxRate := 0, feeDenom := "stake", feeAmt := 0, maxStd := 1, maxSwap := [] },
            std := "stake", pools := [], seq := 1, nowSec := 0, nowNsec := 0 },
    pairs := [{ denom := "acoin", tok := "tok.c1", owner := .module }] }
def exMsg : MsgConvertCoin := { sender := ⟨.upper, "alice"⟩, receiver := ⟨.bareLower, "bob", ""⟩, denom := "acoin", amt := 4 }

example : (match step exEnv true exState (.convertCoin exMsg) with
    | .ok s' => s'.cs.bank.get "alice" "acoin" == 6 && s'.cs.bank.get "m.erc20" "acoin" == 4 && s'.cs.bank.get "bob" "tok.c1" == 4
    | .error _ => false) = true := by decide
example : signers (.convertCoin exMsg) = .ok ["alice"] := rfl
example : payer (.convertCoin exMsg) = some "alice" := rfl

/-! ## the monitors hold on every model transition -/

/-- the user messages never remove a pool -/
theorem pools_mono (env : Env) (g : Bool) (s s' : State) (op : Op) (hu : op.isUserMsg = true)
    (h : step env g s op = .ok s') : ∀ p ∈ s.cs.pools, p ∈ s'.cs.pools := by
  intro p hp
  cases op with
  | cs c =>
    simp only [step] at h
    obtain ⟨⟨cs', r⟩, hc, h⟩ := bind_ok h
    simp only at h
    injection h with h; subst h
    cases c with
    | swap m =>
      obtain ⟨F⟩ := swap_ok hc
      have := F.hState; simp only at this ⊢; rw [this]; exact hp
    | add m =>
      obtain ⟨F⟩ := add_ok hc
      have hst := F.hState
      simp only at hst ⊢
      rw [hst]
      obtain ⟨_, _, pf⟩ := planAdd_ok F.hPlan
      cases pf with
      | create tax esc _ _ _ _ _ _ hPlan => rw [hPlan]; exact mem_insertPool.mpr (Or.inr hp)
      | refill pool _ _ _ _ _ hPlan => rw [hPlan]; exact hp
      | live pool stdIn mint deposit _ _ _ _ _ _ _ hPlan => rw [hPlan]; exact hp
    | remove m =>
      obtain ⟨F⟩ := remove_ok hc
      have := F.hState; simp only at this ⊢; rw [this]; exact hp
    | send a b c d => simp [Op.isUserMsg] at hu
    | autoSwap a b c d => simp [Op.isUserMsg] at hu
    | setParams q => simp [Op.isUserMsg] at hu
    | setTime a b => simp [Op.isUserMsg] at hu
  | convertCoin m =>
    unfold step convertCoin at h
    obtain ⟨_, _, h⟩ := bind_ok h
    obtain ⟨_, _, h⟩ := bind_ok h
    obtain ⟨_, _, h⟩ := bind_ok h
    obtain ⟨_, _, h⟩ := bind_ok h
    split at h
    · cases h
    · obtain ⟨b, _, h⟩ := bind_ok h
      injection h with h; subst h; exact hp
  | convertERC20 m =>
    unfold step convertERC20 at h
    obtain ⟨_, _, h⟩ := bind_ok h
    obtain ⟨_, _, h⟩ := bind_ok h
    obtain ⟨_, _, h⟩ := bind_ok h
    obtain ⟨_, _, h⟩ := bind_ok h
    split at h
    · cases h
    · obtain ⟨b, _, h⟩ := bind_ok h
      injection h with h; subst h; exact hp

theorem isEscrowB_of (env : Env) (s s' : State) (a : Addr) (hm : ∀ p ∈ s.cs.pools, p ∈ s'.cs.pools)
    (h : isEscrow env s a) : isEscrowB env s' a = true := by
  obtain ⟨p, hp, hor⟩ := h
  simp only [isEscrowB, List.any_eq_true, Bool.or_eq_true, beq_iff_eq]
  refine ⟨p, hm p hp, ?_⟩
  rcases hor with hr | he
  · right
    unfold Coinswap.Env.reserve at hr
    split at hr
    · rename_i x hx; injection hr with hr; rw [hx, hr]
    · cases hr
  · left; exact he

/-- the transition the model makes, as an observation -/
def ofModel (env : Env) (s : State) (op : Op) (s' : State) : Tr :=
  { env := env, pre := s, op := op, ok := true,
    sg := (match signers op with | .ok l => some l | .error _ => none), post := s' }

/-- both C07 predicates evaluated by the driver on implementation transitions are theorems of the model -/
theorem model_step_monitors (env : Env) (g : Bool) (s s' : State) (op : Op) (h : step env g s op = .ok s') :
    ∀ m ∈ monitors, m.2.2 (ofModel env s op s') = true := by
  intro m hm
  simp only [monitors, List.mem_cons, List.not_mem_nil, or_false] at hm
  rcases hm with rfl | rfl
  · simp only [signersEqPayer, ofModel]
    split
    · rename_i p hp
      rw [signers_eq_payer op p hp]
      simp
    · rfl
  · simp only [debitedSubsetSigners, ofModel, Bool.not_true, Bool.false_or]
    cases hu : op.isUserMsg with
    | false => simp
    | true =>
      simp only [Bool.not_true, Bool.false_or, List.all_eq_true]
      intro k _
      by_cases hle : s.cs.bank.get k.1 k.2 ≤ s'.cs.bank.get k.1 k.2
      · simp [hle]
      · have hlt : s'.cs.bank.get k.1 k.2 < s.cs.bank.get k.1 k.2 := by omega
        rcases debited_subset_signers env g s s' op hu h k.1 k.2 hlt with ⟨sg, hsg, hmem⟩ | hesc | hmod | hemod
        · rw [hsg]
          simp [hmem]
        · simp [isEscrowB_of env s s' k.1 (pools_mono env g s s' op hu h) hesc]
        · simp [hmod]
        · simp [hemod]

end Signers
end CV
