import CantoVerif.Spec.Epochs
import CantoVerif.Proofs.EpochsClock
import Mathlib.Tactic.Ring
import Mathlib.Tactic.Linarith
/-!
# C12 — epochs tick in order, at most once per block, and never early.

`hook_order` (from `beginBlock_ok`): with *any* listeners, a completed `BeginBlocker` maps every
record through the pure function `advance now height` and emits exactly the concatenation, in store
order, of the per-record notification lists `calls now` — so several identifiers in one block are
independent, and every statement below about `advance`/`calls` is a statement about the block.

All statements are for every identifier, start time, duration (any sign, `Validate` only excludes
0), block time and height; histories are arbitrary lists of blocks with non-decreasing times
(`Mono`), of any length.
-/
namespace CV
namespace Epochs

/-- a block of a history: (time, height) -/
abbrev Blk := Int × Int

/-- the record after a sequence of blocks -/
def runInfo (e : EpochInfo) (bs : List Blk) : EpochInfo := bs.foldl (fun e b => advance b.1 b.2 e) e

/-- block times never decrease, starting from `t` -/
def Mono : Int → List Blk → Prop
  | _, [] => True
  | t, b :: bs => t ≤ b.1 ∧ Mono b.1 bs

def lastTime (t : Int) (bs : List Blk) : Int := bs.foldl (fun _ b => b.1) t

/-- well-formed record at time `t` (time of the latest block): once counting has started the start time is
not in the future, the current epoch's start time has its closed form, and the counter is positive -/
def WFInfo (t : Int) (e : EpochInfo) : Prop :=
  e.started = true → e.start ≤ t ∧ e.curStart = e.start + (e.cur - 1) * e.dur ∧ 1 ≤ e.cur

/-! ## the block as a whole -/

/-- **hook_order / frame.**  Whatever the listeners do (as long as they do not panic), the block maps each
record through `advance` and notifies, in store order, exactly `calls` of each record. -/
theorem hook_order {σ : Type} (H : Hooks σ) (now height : Int) (infos infos' : List EpochInfo) (st st' : σ)
    (log : List Call) (h : beginBlock H now height infos st = .ok (infos', st', log)) :
    infos' = infos.map (advance now height) ∧ log = infos.flatMap (calls now) :=
  let ⟨a, b, _⟩ := beginBlock_ok H now height infos st infos' st' log h
  ⟨a, b⟩

/-- the notifications of one record: a tick announces end-of-epoch then start-of-epoch with the same, new
number; a start announces start-of-epoch 1; anything else announces nothing -/
theorem calls_cases (now h : Int) (e : EpochInfo) :
    (action e now = .tick → calls now e = [.afterEnd e.id (advance now h e).cur, .beforeStart e.id (advance now h e).cur] ∧
        (advance now h e).cur = e.cur + 1) ∧
    (action e now = .start → calls now e = [.beforeStart e.id 1] ∧ (advance now h e).cur = 1) ∧
    (action e now = .idle → calls now e = [] ∧ advance now h e = e) := by
  unfold calls advance
  refine ⟨fun ha => ?_, fun ha => ?_, fun ha => ?_⟩ <;> rw [ha] <;> simp [endEpoch, startInitial]

example : calls 101 { id := "day", start := 0, dur := 100, cur := 1, curStart := 0, started := true, height := 5 } =
    [.afterEnd "day" 2, .beforeStart "day" 2] := by decide

/-! ## one record, one block -/

/-- **start_at_first_block_not_before** (one block): a record that is not counting starts in a block whose
time is not before the start time — epoch 1, beginning at the start time, one start notification — and is
left untouched by an earlier block. -/
theorem start_at_first_block_not_before (e : EpochInfo) (now h : Int) (hs : e.started = false) :
    (e.start ≤ now → advance now h e = startInitial e h ∧ calls now e = [.beforeStart e.id 1]) ∧
    (now < e.start → advance now h e = e ∧ calls now e = []) := by
  constructor
  · intro hle
    have ha : action e now = .start := (action_start_iff e now).2 ⟨hs, hle⟩
    unfold advance calls; rw [ha]; exact ⟨rfl, rfl⟩
  · intro hlt
    have ha : action e now = .idle := (action_idle_iff e now).2 (Or.inl ⟨hs, hlt⟩)
    unfold advance calls; rw [ha]; exact ⟨rfl, rfl⟩

example : advance 7 3 { id := "day", start := 7, dur := 100, cur := 0, curStart := 0, started := false, height := 1 } =
    { id := "day", start := 7, dur := 100, cur := 1, curStart := 7, started := true, height := 3 } := by decide
example : advance 6 3 { id := "day", start := 7, dur := 100, cur := 0, curStart := 0, started := false, height := 1 } =
    { id := "day", start := 7, dur := 100, cur := 0, curStart := 0, started := false, height := 1 } := by decide

/-- **tick_iff**: once counting (and with the start time not in the future, which `start_not_future` shows
for every monotone history) the counter increases by exactly one in precisely the blocks whose time is
strictly after `curStart + duration`; such a block advances the epoch start by one duration; any other block
leaves the whole record — including `CurrentEpochStartHeight` — unchanged and notifies nobody. -/
theorem tick_iff (e : EpochInfo) (now h : Int) (hs : e.started = true) (hst : e.start ≤ now) :
    ((advance now h e).cur = e.cur + 1 ↔ e.curStart + e.dur < now) ∧
    (e.curStart + e.dur < now → advance now h e = endEpoch e h) ∧
    (¬ e.curStart + e.dur < now → advance now h e = e ∧ calls now e = []) := by
  by_cases hlt : e.curStart + e.dur < now
  · have ha : action e now = .tick := (action_tick_iff e now).2 ⟨hs, hst, hlt⟩
    have : advance now h e = endEpoch e h := by unfold advance; rw [ha]
    refine ⟨⟨fun _ => hlt, fun _ => by rw [this]; rfl⟩, fun _ => this, fun hn => absurd hlt hn⟩
  · have ha : action e now = .idle := (action_idle_iff e now).2 (Or.inr ⟨hs, Or.inr (by omega)⟩)
    have h1 : advance now h e = e := by unfold advance; rw [ha]
    have h2 : calls now e = [] := by unfold calls; rw [ha]
    refine ⟨⟨fun hc => ?_, fun hl => absurd hl hlt⟩, fun hl => absurd hl hlt, fun _ => ⟨h1, h2⟩⟩
    rw [h1] at hc; omega

-- exact boundary hit: no tick; one nanosecond later: tick
example : advance 100 9 { id := "day", start := 0, dur := 100, cur := 1, curStart := 0, started := true, height := 5 } =
    { id := "day", start := 0, dur := 100, cur := 1, curStart := 0, started := true, height := 5 } := by decide
example : advance 101 9 { id := "day", start := 0, dur := 100, cur := 1, curStart := 0, started := true, height := 5 } =
    { id := "day", start := 0, dur := 100, cur := 2, curStart := 100, started := true, height := 9 } := by decide

/-- **no_tick_unchanged**: a block in which a counting record does not tick leaves it unchanged (all fields). -/
theorem no_tick_unchanged (e : EpochInfo) (now h : Int) (hs : e.started = true)
    (hn : (advance now h e).cur ≠ e.cur + 1) : advance now h e = e ∧ calls now e = [] := by
  have ha : action e now = .idle := by
    cases hact : action e now with
    | idle => rfl
    | start => have := (action_start_iff e now).1 hact; rw [hs] at this; cases this.1
    | tick => exact absurd (by unfold advance; rw [hact]; rfl) hn
  unfold advance calls; rw [ha]; exact ⟨rfl, rfl⟩

/-- **at_most_one_per_block**: one block moves the counter by at most one (a gap of many durations is caught
up one epoch per block) and announces at most one end-of-epoch per identifier. -/
theorem at_most_one_per_block (e : EpochInfo) (now h : Int) :
    ((advance now h e).cur = e.cur ∨ (advance now h e).cur = e.cur + 1 ∨ (e.started = false ∧ (advance now h e).cur = 1)) ∧
    (ends e.id (calls now e)).length ≤ 1 := by
  constructor
  · cases hact : action e now with
    | idle => left; unfold advance; rw [hact]
    | tick => right; left; unfold advance; rw [hact]; rfl
    | start =>
      right; right
      exact ⟨((action_start_iff e now).1 hact).1, by unfold advance; rw [hact]; rfl⟩
  · rw [ends_calls]; split <;> simp

-- a gap of five durations ends one epoch only
example : (advance 1000 9 { id := "day", start := 0, dur := 100, cur := 1, curStart := 0, started := true, height := 5 }).cur = 2 := by
  decide

/-- well-formedness is preserved by every block whose time is not before the previous block's -/
theorem wf_advance (t now h : Int) (e : EpochInfo) (hw : WFInfo t e) (ht : t ≤ now) : WFInfo now (advance now h e) := by
  intro hs'
  cases hact : action e now with
  | idle =>
    have : advance now h e = e := by unfold advance; rw [hact]
    rw [this] at hs' ⊢
    obtain ⟨a, b, c⟩ := hw hs'
    exact ⟨by omega, b, c⟩
  | start =>
    have hle := ((action_start_iff e now).1 hact).2
    have : advance now h e = startInitial e h := by unfold advance; rw [hact]
    rw [this]
    simp only [startInitial]
    exact ⟨hle, by ring, by omega⟩
  | tick =>
    obtain ⟨hs, hle, _⟩ := (action_tick_iff e now).1 hact
    obtain ⟨a, b, c⟩ := hw hs
    have : advance now h e = endEpoch e h := by unfold advance; rw [hact]
    rw [this]
    simp only [endEpoch]
    exact ⟨hle, by rw [b]; ring, by omega⟩

/-- **never_early** (one block): the block that moves the counter of a counting record from `n` to `n+1` is
strictly later than `start + n·duration` — epoch `n`'s full duration has elapsed. -/
theorem never_early (t now h : Int) (e : EpochInfo) (hw : WFInfo t e) (hs : e.started = true)
    (htick : (advance now h e).cur = e.cur + 1) : e.start + e.cur * e.dur < now := by
  have ha : action e now = .tick := by
    cases hact : action e now with
    | tick => rfl
    | start => have := (action_start_iff e now).1 hact; rw [hs] at this; cases this.1
    | idle =>
      have : advance now h e = e := by unfold advance; rw [hact]
      rw [this] at htick; omega
  obtain ⟨_, _, hlt⟩ := (action_tick_iff e now).1 ha
  obtain ⟨_, b, _⟩ := hw hs
  have : e.start + e.cur * e.dur = e.curStart + e.dur := by rw [b]; ring
  omega

/-! ## one record, all histories -/

theorem runInfo_append (e : EpochInfo) (a b : List Blk) : runInfo e (a ++ b) = runInfo (runInfo e a) b := by
  unfold runInfo; rw [List.foldl_append]

/-- **start_at_first_block_not_before** (histories): after any number of blocks earlier than the start time
the record is untouched, and the first block at or after the start time starts epoch 1 at the start time. -/
theorem start_history (e : EpochInfo) (pre : List Blk) (b : Blk) (hs : e.started = false)
    (hpre : ∀ x ∈ pre, x.1 < e.start) (hb : e.start ≤ b.1) :
    runInfo e pre = e ∧ runInfo e (pre ++ [b]) = startInitial e b.2 := by
  have h1 : runInfo e pre = e := by
    induction pre with
    | nil => rfl
    | cons x xs ih =>
      have hx := ((start_at_first_block_not_before e x.1 x.2 hs).2 (hpre x (List.mem_cons_self ..))).1
      show runInfo (advance x.1 x.2 e) xs = e
      rw [hx]
      exact ih (fun y hy => hpre y (List.mem_cons_of_mem _ hy))
  refine ⟨h1, ?_⟩
  rw [runInfo_append, h1]
  exact ((start_at_first_block_not_before e b.1 b.2 hs).1 hb).1

example : runInfo { id := "day", start := 10, dur := 100, cur := 0, curStart := 0, started := false, height := 0 }
    [(3, 1), (9, 2), (10, 3)] = { id := "day", start := 10, dur := 100, cur := 1, curStart := 10, started := true, height := 3 } := by
  decide

theorem wf_run (e : EpochInfo) : ∀ (bs : List Blk) (t : Int), WFInfo t e → Mono t bs → WFInfo (lastTime t bs) (runInfo e bs) := by
  intro bs
  induction bs generalizing e with
  | nil => intro t hw _; exact hw
  | cons b bs ih =>
    intro t hw hm
    exact ih (advance b.1 b.2 e) b.1 (wf_advance t b.1 b.2 e hw hm.1) hm.2

/-- **start_time_formula** (invariant over all histories): for every sequence of blocks with non-decreasing
times, whenever the record is counting, `CurrentEpochStartTime = StartTime + (CurrentEpoch − 1)·Duration`
(and the start time is not in the future, and the counter is at least 1). -/
theorem start_time_formula (e : EpochInfo) (bs : List Blk) (t : Int) (hw : WFInfo t e) (hm : Mono t bs)
    (hs : (runInfo e bs).started = true) :
    (runInfo e bs).curStart = e.start + ((runInfo e bs).cur - 1) * e.dur ∧ e.start ≤ lastTime t bs ∧ 1 ≤ (runInfo e bs).cur := by
  obtain ⟨a, b, c⟩ := wf_run e bs t hw hm hs
  have hst : (runInfo e bs).start = e.start := by
    clear a b c hs hm hw
    induction bs generalizing e with
    | nil => rfl
    | cons x xs ih => show (runInfo (advance x.1 x.2 e) xs).start = _; rw [ih]; simp
  have hdu : (runInfo e bs).dur = e.dur := by
    clear a b c hs hm hw hst
    induction bs generalizing e with
    | nil => rfl
    | cons x xs ih => show (runInfo (advance x.1 x.2 e) xs).dur = _; rw [ih]; simp
  rw [hst, hdu] at b; rw [hst] at a
  exact ⟨b, a, c⟩

/-- a record that is not counting is well-formed whatever its other fields -/
theorem wf_unstarted (t : Int) (e : EpochInfo) (hs : e.started = false) : WFInfo t e := by
  intro h; rw [hs] at h; cases h

example : WFInfo 50 { id := "day", start := 0, dur := 100, cur := 3, curStart := 200, started := true, height := 5 } := by
  intro _; decide

/-- **never_early** (histories): in every monotone history, a block that moves the counter from `n` to `n+1`
is strictly later than `start + n·duration`. -/
theorem never_early_history (e : EpochInfo) (pre : List Blk) (b : Blk) (t : Int) (hw : WFInfo t e)
    (hm : Mono t (pre ++ [b])) (hs : (runInfo e pre).started = true)
    (htick : (runInfo e (pre ++ [b])).cur = (runInfo e pre).cur + 1) :
    e.start + (runInfo e pre).cur * e.dur < b.1 := by
  have hm1 : Mono t pre := by
    clear hw hs htick
    induction pre generalizing t with
    | nil => trivial
    | cons x xs ih => exact ⟨hm.1, ih _ hm.2⟩
  have hw1 := wf_run e pre t hw hm1
  rw [runInfo_append] at htick
  have key := never_early _ b.1 b.2 (runInfo e pre) hw1 hs htick
  have hst : ∀ (bs : List Blk) (e : EpochInfo), (runInfo e bs).start = e.start ∧ (runInfo e bs).dur = e.dur := by
    intro bs
    induction bs with
    | nil => intro e; exact ⟨rfl, rfl⟩
    | cons x xs ih => intro e; have := ih (advance x.1 x.2 e); simp at this; exact this
  rw [(hst pre e).1, (hst pre e).2] at key
  exact key

/-! ## the composed system: histories of operations, end-of-epoch numbers are consecutive -/

open Inflation in
/-- premise of the property on one operation: block times do not decrease -/
def opOK (s : Inflation.State) : Inflation.Op → Prop
  | .block now _ => s.lastNow ≤ now
  | _ => True

/-- premise of the property on a history -/
def HistOK (env : Inflation.Env) : Inflation.State → List Inflation.Op → Prop
  | _, [] => True
  | s, op :: ops => opOK s op ∧ HistOK env (Inflation.exec env s op) ops

/-- `xs = [a, a+1, a+2, …]` -/
def ConsecFrom : Int → List Int → Prop
  | _, [] => True
  | a, x :: xs => x = a ∧ ConsecFrom (a + 1) xs

theorem consecFrom_append (xs : List Int) : ∀ (a y : Int),
    ConsecFrom a (xs ++ [y]) ↔ (ConsecFrom a xs ∧ y = a + xs.length) := by
  induction xs with
  | nil => intro a y; simp [ConsecFrom]
  | cons x xs ih =>
    intro a y
    simp only [List.cons_append, ConsecFrom, ih, List.length_cons]
    constructor
    · rintro ⟨h1, h2, h3⟩; exact ⟨⟨h1, h2⟩, by push_cast; omega⟩
    · rintro ⟨⟨h1, h2⟩, h3⟩; exact ⟨h1, h2, by push_cast at h3; omega⟩

/-- clock invariant of the composed state: unique identifiers, well-formed records, and for every record
the end-of-epoch numbers announced so far are `2, 3, …, CurrentEpoch` -/
structure ClockInv (s : Inflation.State) : Prop where
  nodup : (s.infos.map (·.id)).Nodup
  wf : ∀ e ∈ s.infos, WFInfo s.lastNow e
  consec : ∀ e ∈ s.infos,
    (e.started = true → ConsecFrom 2 (ends e.id s.hist) ∧ e.cur = 1 + (ends e.id s.hist).length) ∧
    (e.started = false → ends e.id s.hist = [])

theorem clockInv_block {env : Inflation.Env} {s s' : Inflation.State} {now h : Int} {r : Inflation.Resp}
    (hI : ClockInv s) (hok : s.lastNow ≤ now) (hstep : Inflation.step env s (.block now h) = .ok (s', r)) : ClockInv s' := by
  simp only [Inflation.step] at hstep
  obtain ⟨res, hb, hstep⟩ := bind_ok hstep
  injection hstep with hstep
  simp only [Prod.mk.injEq] at hstep
  obtain ⟨rfl, _⟩ := hstep
  obtain ⟨infos', infl', log⟩ := res
  obtain ⟨rfl, rfl, _⟩ := beginBlock_ok _ _ _ _ _ _ _ _ hb
  refine ⟨?_, ?_, ?_⟩
  · show ((s.infos.map (advance now h)).map (·.id)).Nodup
    rw [map_advance_ids]; exact hI.nodup
  · intro e' he'
    obtain ⟨e, he, rfl⟩ := List.mem_map.1 he'
    exact wf_advance _ _ _ _ (hI.wf e he) hok
  · intro e' he'
    obtain ⟨e, he, rfl⟩ := List.mem_map.1 he'
    show ((advance now h e).started = true → ConsecFrom 2 (ends (advance now h e).id (s.hist ++ s.infos.flatMap (calls now))) ∧ _) ∧
         ((advance now h e).started = false → ends (advance now h e).id (s.hist ++ s.infos.flatMap (calls now)) = [])
    rw [advance_id, ends_append, ends_flatMap now s.infos hI.nodup e he, ends_calls]
    obtain ⟨c1, c2⟩ := hI.consec e he
    cases hact : action e now with
    | idle =>
      have : advance now h e = e := by unfold advance; rw [hact]
      rw [this]; simpa using ⟨c1, c2⟩
    | start =>
      have hs := ((action_start_iff e now).1 hact).1
      have : advance now h e = startInitial e h := by unfold advance; rw [hact]
      rw [this]
      simp [startInitial, c2 hs, ConsecFrom]
    | tick =>
      have hs := ((action_tick_iff e now).1 hact).1
      obtain ⟨d1, d2⟩ := c1 hs
      have : advance now h e = endEpoch e h := by unfold advance; rw [hact]
      rw [this]
      simp only [endEpoch, hs, if_true, true_implies, List.length_append, List.length_cons, List.length_nil]
      refine ⟨⟨(consecFrom_append _ _ _).2 ⟨d1, by omega⟩, by push_cast; omega⟩, fun hc => by cases hc⟩

theorem clockInv_exec (env : Inflation.Env) (s : Inflation.State) (op : Inflation.Op) (hI : ClockInv s) (hok : opOK s op) :
    ClockInv (Inflation.exec env s op) := by
  unfold Inflation.exec deliver
  split
  · rename_i s' r hstep
    cases op with
    | block now h => exact clockInv_block hI hok hstep
    | send src dst d amt =>
      simp only [Inflation.step] at hstep
      obtain ⟨b, _, hstep⟩ := bind_ok hstep
      injection hstep with hstep
      simp only [Prod.mk.injEq] at hstep
      obtain ⟨rfl, _⟩ := hstep
      exact ⟨hI.nodup, hI.wf, hI.consec⟩
    | updateParams auth p =>
      simp only [Inflation.step] at hstep
      obtain ⟨_, _, hstep⟩ := bind_ok hstep
      obtain ⟨_, _, hstep⟩ := bind_ok hstep
      injection hstep with hstep
      simp only [Prod.mk.injEq] at hstep
      obtain ⟨rfl, _⟩ := hstep
      exact ⟨hI.nodup, hI.wf, hI.consec⟩
    | sample p x epp b =>
      simp only [Inflation.step] at hstep
      obtain ⟨_, _, hstep⟩ := bind_ok hstep
      injection hstep with hstep
      simp only [Prod.mk.injEq] at hstep
      obtain ⟨rfl, _⟩ := hstep
      exact hI
  · exact hI

/-- **consecutive** (all histories of the composed system: blocks with any listeners' outcome, parameter
changes, transfers, in any order): the clock invariant holds throughout; in particular the end-of-epoch
numbers announced for each identifier are exactly `2, 3, …, CurrentEpoch`, each once, in order. -/
theorem consecutive (env : Inflation.Env) : ∀ (ops : List Inflation.Op) (s : Inflation.State), ClockInv s → HistOK env s ops →
    ClockInv (Inflation.run env s ops) := by
  intro ops
  induction ops with
  | nil => intro s hI _; exact hI
  | cons op ops ih =>
    intro s hI hH
    exact ih _ (clockInv_exec env s op hI hH.1) hH.2

/-- a fresh state (unique identifiers, nobody counting yet, no notification yet) satisfies the invariant -/
theorem clockInv_fresh (s : Inflation.State) (hn : (s.infos.map (·.id)).Nodup) (hu : ∀ e ∈ s.infos, e.started = false)
    (hh : s.hist = []) : ClockInv s := by
  refine ⟨hn, fun e he => wf_unstarted _ e (hu e he), fun e he => ⟨fun hs => ?_, fun _ => by rw [hh]; rfl⟩⟩
  rw [hu e he] at hs; cases hs

/-- three identifiers with different durations, a late first block, several ticking in one block: the
end-of-epoch numbers of each are 2, 3, … in order -/
example :
    let s := Inflation.run ⟨"i", "f", "d", "b", "stake"⟩
      { infos := [⟨"day", 0, 10, 0, 0, false, 0⟩, ⟨"hour", 5, 3, 0, 0, false, 0⟩, ⟨"week", 100, 70, 0, 0, false, 0⟩],
        infl := { bank := ⟨⟨[]⟩, ⟨[]⟩, []⟩, pool := ⟨[]⟩,
                  params := { mintDenom := "acanto", a := 0, r := 0, c := 0, bondingTarget := S18, maxVariance := 0,
                              stakingRewards := S18, communityPool := 0, enable := false },
                  period := 0, epochId := "day", epp := 30, skipped := 0, provision := 0, mints := 0, skips := 0, issued := [] },
        lastNow := 0, hist := [] }
      [.block 7 1, .block 11 2, .block 11 3, .block 12 4, .block 40 5, .block 41 6]
    (ends "day" s.hist, ends "hour" s.hist, ends "week" s.hist, s.infos.map (·.cur), s.infos.map (·.curStart)) =
    ([2, 3, 4], [2, 3, 4, 5], [], [4, 5, 0], [30, 17, 0]) := by decide +kernel

/-! ## the monitors of `Spec/Epochs.lean` hold on every block transition of the model -/

theorem formulaOK_advance (now h : Int) (e : EpochInfo) (hf : Inflation.Spec.formulaOK e = true) :
    Inflation.Spec.formulaOK (advance now h e) = true := by
  simp only [Inflation.Spec.formulaOK, Bool.or_eq_true, Bool.not_eq_true', beq_iff_eq] at hf ⊢
  cases hact : action e now with
  | idle =>
    have : advance now h e = e := by unfold advance; rw [hact]
    rw [this]; exact hf
  | start =>
    have : advance now h e = startInitial e h := by unfold advance; rw [hact]
    rw [this]; right; simp only [startInitial]; ring
  | tick =>
    have hs := ((action_tick_iff e now).1 hact).1
    have : advance now h e = endEpoch e h := by unfold advance; rw [hact]
    rw [this]; right; simp only [endEpoch]
    rcases hf with hf | hf
    · rw [hs] at hf; cases hf
    · rw [hf]; ring

open Inflation.Spec in
theorem all_pairs (now h : Int) (P : EpochInfo × EpochInfo → Bool) (infos : List EpochInfo)
    (hP : ∀ e ∈ infos, P (e, advance now h e) = true) : (infos.zip (infos.map (advance now h))).all P = true := by
  induction infos with
  | nil => rfl
  | cons e es ih =>
    simp only [List.map_cons, List.zip_cons_cons, List.all_cons, Bool.and_eq_true]
    exact ⟨hP e (List.mem_cons_self ..), ih (fun x hx => hP x (List.mem_cons_of_mem _ hx))⟩

theorem lastOf_consec : ∀ (xs : List Int) (a m : Int), ConsecFrom a xs → Inflation.Spec.lastOf xs = some m → m + 1 = a + xs.length := by
  intro xs
  induction xs with
  | nil => intro a m _ h; cases h
  | cons x xs ih =>
    intro a m hc hl
    cases xs with
    | nil =>
      simp only [Inflation.Spec.lastOf] at hl
      injection hl with hl
      simp [ConsecFrom] at hc
      simp; omega
    | cons y ys =>
      simp only [Inflation.Spec.lastOf] at hl
      have := ih (a + 1) m hc.2 hl
      simp only [List.length_cons] at this ⊢
      push_cast at this ⊢; omega

open Inflation Inflation.Spec in
/-- every C12 monitor evaluates to `true` on every successful block transition of the model from a state
satisfying the clock invariant (link between the theorems above and what the driver evaluates on the
implementation's transitions) -/
theorem c12_monitors_model {env : Env} {s s' : State} {now h : Int} {log : List Call}
    (hI : ClockInv s) (hstep : step env s (.block now h) = .ok (s', .block log)) :
    let t : Tr := { env := env, pre := s, op := .block now h, ok := true, resp := .block log, post := s', logKnown := true, negative := false }
    c12_static t = true ∧ c12_start t = true ∧ c12_tick_iff t = true ∧ c12_at_most_one t = true ∧
    c12_start_time_formula t = true ∧ c12_never_early t = true ∧ c12_hook_order t = true ∧ c12_consecutive t = true := by
  simp only [step] at hstep
  obtain ⟨res, hb, hstep⟩ := bind_ok hstep
  injection hstep with hstep
  simp only [Prod.mk.injEq] at hstep
  obtain ⟨rfl, hlog⟩ := hstep
  injection hlog with hlog
  obtain ⟨infos', infl', log'⟩ := res
  obtain ⟨rfl, rfl, _⟩ := beginBlock_ok _ _ _ _ _ _ _ _ hb
  subst hlog
  intro t
  have hpairs : pairs t = s.infos.zip (s.infos.map (advance now h)) := rfl
  refine ⟨?_, ?_, ?_, ?_, ?_, ?_, ?_, ?_⟩
  · simp only [c12_static, onBlock, t, Bool.not_true, Bool.false_or, Bool.and_eq_true]
    refine ⟨by simp, ?_⟩
    rw [hpairs]; apply all_pairs; intro e _; simp
  · simp only [c12_start, onBlock, t, Bool.not_true, Bool.false_or]
    rw [hpairs]; apply all_pairs; intro e _
    cases hs : e.started with
    | true => simp
    | false =>
      simp only [Bool.false_or]
      by_cases hlt : now < e.start
      · simp only [hlt, if_true, beq_iff_eq]
        exact ((start_at_first_block_not_before e now h hs).2 hlt).1
      · simp only [hlt, if_false, beq_iff_eq]
        exact ((start_at_first_block_not_before e now h hs).1 (by omega)).1
  · simp only [c12_tick_iff, onBlock, t, Bool.not_true, Bool.false_or]
    rw [hpairs]; apply all_pairs; intro e _
    cases hs : e.started with
    | false => simp
    | true =>
      by_cases hlt : now < e.start
      · simp [hlt]
      · simp only [Bool.not_true, Bool.false_or, hlt, decide_false]
        obtain ⟨_, t1, t2⟩ := tick_iff e now h hs (by omega)
        by_cases hd : e.curStart + e.dur < now
        · simp only [hd, if_true, beq_iff_eq]; rw [t1 hd]; simp only [endEpoch, hs]
        · simp only [hd, if_false, beq_iff_eq]; exact (t2 hd).1
  · simp only [c12_at_most_one, onBlock, t, Bool.not_true, Bool.false_or]
    rw [hpairs]; apply all_pairs; intro e _
    rcases (at_most_one_per_block e now h).1 with h1 | h1 | ⟨h1, h2⟩
    · simp [h1]
    · simp [h1]
    · simp [h1, h2]
  · simp only [c12_start_time_formula, onBlock, t, Bool.not_true, Bool.false_or]
    rw [hpairs]; apply all_pairs; intro e _
    cases hf : formulaOK e with
    | false => rfl
    | true => simp only [Bool.not_true, Bool.false_or]; exact formulaOK_advance now h e hf
  · simp only [c12_never_early, onBlock, t, Bool.not_true, Bool.false_or]
    rw [hpairs]; apply all_pairs; intro e _
    simp only [ticked, formulaOK, Bool.or_eq_true, Bool.not_eq_true', Bool.and_eq_false_imp, decide_eq_true_eq,
      Bool.or_eq_false_iff, Bool.not_eq_false']
    by_cases hs : e.started = true
    · by_cases hc : (advance now h e).cur = e.cur + 1
      · by_cases hf : e.curStart = e.start + (e.cur - 1) * e.dur
        · right
          have ha : action e now = .tick := by
            cases hact : action e now with
            | tick => rfl
            | start => have := (action_start_iff e now).1 hact; rw [hs] at this; cases this.1
            | idle =>
              have : advance now h e = e := by unfold advance; rw [hact]
              rw [this] at hc; omega
          obtain ⟨_, _, hlt⟩ := (action_tick_iff e now).1 ha
          have : e.start + e.cur * e.dur = e.curStart + e.dur := by rw [hf]; ring
          omega
        · left; right; exact ⟨hs, by simpa using hf⟩
      · left; left; intro _; simpa using hc
    · left; left; intro hs'; exact absurd hs' hs
  · simp only [c12_hook_order, onBlock, t, Bool.not_true, Bool.false_or, beq_iff_eq]
    simp only [expectedCalls]
    rw [hpairs]
    clear hb hI t hpairs
    induction s.infos with
    | nil => rfl
    | cons e es ih =>
      simp only [List.flatMap_cons, List.map_cons, List.zip_cons_cons, ih]
      congr 1
      simp only [startedNow, ticked]
      cases hact : action e now with
      | idle =>
        have h1 : advance now h e = e := by unfold advance; rw [hact]
        have h2 : calls now e = [] := by unfold calls; rw [hact]
        rw [h1, h2]
        by_cases hs : e.started = true <;> simp [hs]
      | start =>
        have hs := ((action_start_iff e now).1 hact).1
        have h1 : advance now h e = startInitial e h := by unfold advance; rw [hact]
        have h2 : calls now e = [.beforeStart e.id 1] := by unfold calls; rw [hact]
        rw [h1, h2]; simp [startInitial, hs]
      | tick =>
        have hs := ((action_tick_iff e now).1 hact).1
        have h1 : advance now h e = endEpoch e h := by unfold advance; rw [hact]
        have h2 : calls now e = [.afterEnd e.id (e.cur + 1), .beforeStart e.id (e.cur + 1)] := by unfold calls; rw [hact]
        rw [h1, h2]; simp [endEpoch, hs]
  · simp only [c12_consecutive, onBlock, t, Bool.not_true, Bool.false_or]
    rw [hpairs]
    have key : ∀ e ∈ s.infos, (match ends e.id (s.infos.flatMap (calls now)) with
         | [] => true
         | [n] => (match lastOf (ends e.id s.hist) with
                   | some m => n == m + 1
                   | none => n == e.cur + 1)
         | _ => false) = true := by
      intro e he
      rw [ends_flatMap now s.infos hI.nodup e he, ends_calls]
      by_cases hact : action e now = .tick
      · simp only [hact, if_true]
        have hs := ((action_tick_iff e now).1 hact).1
        obtain ⟨d1, d2⟩ := (hI.consec e he).1 hs
        cases hl : lastOf (ends e.id s.hist) with
        | none => simp
        | some m =>
          have := lastOf_consec _ _ _ d1 hl
          simp only [beq_iff_eq]; omega
      · simp [hact]
    apply all_pairs
    intro e he
    exact key e he


/-! ## import: `epochs.InitGenesis` keeps a configured start time -/

/-- a record with a configured start time keeps it through `InitGenesis` (only the informational height changes), however
far in the past it lies — so `start_at_first_block_not_before` and `start_time_formula` speak about the *configured* start -/
theorem initGenesis_keeps_start (now h : Int) (recs : List EpochInfo) (e : EpochInfo) (he : e ∈ recs)
    (hs : e.start ≠ zeroTime) : { e with height := h } ∈ initGenesis now h recs := by
  unfold initGenesis
  refine List.mem_map.mpr ⟨e, he, ?_⟩
  simp [hs]

/-- a record whose start time is unset starts at the import block's time -/
theorem initGenesis_unset_starts_now (now h : Int) (recs : List EpochInfo) (e : EpochInfo) (he : e ∈ recs)
    (hs : e.start = zeroTime) : { e with start := now, height := h } ∈ initGenesis now h recs := by
  unfold initGenesis
  refine List.mem_map.mpr ⟨e, he, ?_⟩
  simp [hs]

example : initGenesis 500 7 [{ id := "day", start := 100, dur := 50, cur := 0, curStart := 0, started := false, height := 0 }] =
    [{ id := "day", start := 100, dur := 50, cur := 0, curStart := 0, started := false, height := 7 }] := by decide

end Epochs
end CV
