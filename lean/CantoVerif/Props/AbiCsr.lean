import CantoVerif.Props.AbiRoundTrip
import CantoVerif.Driver.Csr
/-!
# The Turnstile event payloads against the ABI model: which payloads are "malformed" (C10 / C16)

The csr driver (`Driver/Csr.lean`) calls the data of a `Register(address smartContract, address receiver, uint256 id)`
/ `Assign(address smartContract, uint256 id)` log *malformed* when `Abi.decodeTuple tys data = none`, with
`tys = regTys = [address, address, uint256]` resp. `asgTys = [address, uint256]`.  The model (`Model/Csr.lean`,
`Payload.malformed`) treats malformedness abstractly.  This file says exactly what it means for ALL byte strings
`data : List Nat` (no bound on the length, no assumption that the elements are `< 256`):

* `register_malformed_iff : decodeTuple registerTys data = none ↔ data.length < 96`,
  `assign_malformed_iff   : decodeTuple assignTys   data = none ↔ data.length < 64`:
  malformed = shorter than the static head, nothing else.  I read `decode`/`decSeq`: for static components
  (`address`, `uint256`) the only rejection conditions are `pos + 32 ≤ |data|` (`decSeq`) and `32 ≤ |data.drop pos|`
  (`decode`), the latter implied by the former; no offsets, no length prefixes are involved.  So there is NO additional
  rejection condition: trailing bytes are accepted (`register_trailing_ignored`), a dirty high byte in an address
  word is accepted and ignored (`register_dirty_ignored`, examples), and so are elements `≥ 256` (not bytes; the
  decoder does not look).
* `register_decodes`, `assign_decodes`: for data at least as long as the head, the decoded contract address is the
  LAST 20 bytes of the first word (`(data.drop 12).take 20`), the receiver the last 20 bytes of the second word, the
  token id the big-endian value of the last word.
* `register_roundtrip`, `assign_roundtrip`: decoding the encoding of `(c, r, id)` gives back `(c, r, id)` for
  20-element `c`, `r` and `id < 2^256`.  Proved directly from `register_decodes`, which needs LESS than the general
  theorem `decodeTuple_encodeTuple`: the elements of `c`, `r` need not be `< 256`.  The instance of the general theorem
  (with `wfBytes`) is `register_roundtrip_general` / `assign_roundtrip_general`.
  The remaining hypotheses are necessary (counterexamples at the end, by `decide`): a 19- or 21-element "address" is
  padded / truncated by `leftPad32`, and `id = 2^256` is encoded as `0`.
* `registerTys = Drv.Csr.regTys`, `assignTys = Drv.Csr.asgTys` by `rfl`: the theorems are about the lists the driver
  uses.

`Val` has no `DecidableEq` (nested inductive, not derivable), so `… = none` examples are by `decide` directly, and
`… = some …` examples are by `decide` through the injective-on-these-values view `Val.view` and, at the type
`Option (List Val)` itself, by `rfl` (kernel evaluation).

Axioms: `propext`, `Classical.choice`, `Quot.sound` only.
-/

namespace CV
namespace Abi

/-- non-indexed inputs of `Register(address smartContract, address receiver, uint256 id)` -/
def registerTys : List Ty := [.address, .address, .uint256]
/-- non-indexed inputs of `Assign(address smartContract, uint256 id)` -/
def assignTys : List Ty := [.address, .uint256]

theorem registerTys_eq_driver : registerTys = CV.Drv.Csr.regTys := rfl
theorem assignTys_eq_driver : assignTys = CV.Drv.Csr.asgTys := rfl

/-! ## the decoder on the two event signatures, in closed form -/

theorem decodeTuple_register (data : Bytes) :
    decodeTuple registerTys data =
      if 96 ≤ data.length then
        some [.addr ((data.drop 12).take 20), .addr ((data.drop 44).take 20),
              .uint (ofBe ((data.drop 64).take 32))]
      else none := by
  simp only [decodeTuple, registerTys, decoders, isDynamic, headSize, decSeq, decode, word,
    List.length_drop, List.drop_drop, List.drop_take, List.drop_zero, Nat.zero_add, Nat.reduceAdd, Nat.reduceSub]
  by_cases h : 96 ≤ data.length
  · have h1 : 32 ≤ data.length := by omega
    have h2 : 64 ≤ data.length := by omega
    have h3 : 32 ≤ data.length - 32 := by omega
    have h4 : 32 ≤ data.length - 64 := by omega
    simp only [h, h1, h2, h3, h4, if_true]
  · by_cases h1 : 32 ≤ data.length
    · by_cases h2 : 64 ≤ data.length
      · have h3 : 32 ≤ data.length - 32 := by omega
        have h4 : ¬ 32 ≤ data.length - 64 := by omega
        simp only [h, h1, h2, h3, h4, if_true, if_false]
      · simp only [h, h1, h2, if_true, if_false]
    · simp only [h, h1, if_false]

theorem decodeTuple_assign (data : Bytes) :
    decodeTuple assignTys data =
      if 64 ≤ data.length then
        some [.addr ((data.drop 12).take 20), .uint (ofBe ((data.drop 32).take 32))]
      else none := by
  simp only [decodeTuple, assignTys, decoders, isDynamic, headSize, decSeq, decode, word,
    List.length_drop, List.drop_take, List.drop_zero, Nat.zero_add, Nat.reduceAdd, Nat.reduceSub]
  by_cases h : 64 ≤ data.length
  · have h1 : 32 ≤ data.length := by omega
    have h3 : 32 ≤ data.length - 32 := by omega
    simp only [h, h1, h3, if_true]
  · by_cases h1 : 32 ≤ data.length
    · have h3 : ¬ 32 ≤ data.length - 32 := by omega
      simp only [h, h1, h3, if_true, if_false]
    · simp only [h, h1, if_false]

/-! ## 1. malformed = shorter than the head -/

/-- A `Register` payload is malformed iff it is shorter than three words. -/
theorem register_malformed_iff (data : Bytes) :
    decodeTuple registerTys data = none ↔ data.length < 96 := by
  rw [decodeTuple_register]
  by_cases h : 96 ≤ data.length
  · simp only [h, if_true]; constructor
    · intro h'; cases h'
    · intro h'; omega
  · simp only [h, if_false, true_iff]; omega

/-- An `Assign` payload is malformed iff it is shorter than two words. -/
theorem assign_malformed_iff (data : Bytes) :
    decodeTuple assignTys data = none ↔ data.length < 64 := by
  rw [decodeTuple_assign]
  by_cases h : 64 ≤ data.length
  · simp only [h, if_true]; constructor
    · intro h'; cases h'
    · intro h'; omega
  · simp only [h, if_false, true_iff]; omega

/-! ## 2. what a well-formed payload decodes to -/

theorem register_decodes (data : Bytes) (h : 96 ≤ data.length) :
    decodeTuple registerTys data =
      some [.addr ((data.drop 12).take 20), .addr ((data.drop 44).take 20),
            .uint (ofBe ((data.drop 64).take 32))] := by
  rw [decodeTuple_register, if_pos h]

theorem assign_decodes (data : Bytes) (h : 64 ≤ data.length) :
    decodeTuple assignTys data =
      some [.addr ((data.drop 12).take 20), .uint (ofBe ((data.drop 32).take 32))] := by
  rw [decodeTuple_assign, if_pos h]

theorem take_drop_append_of_le (data rest : Bytes) (n k : Nat) (h : n + k ≤ data.length) :
    ((data ++ rest).drop n).take k = (data.drop n).take k := by
  rw [List.drop_append_of_le_length (by omega)]
  exact List.take_append_of_le_length (by simp only [List.length_drop]; omega)

/-- Bytes after the head are ignored. -/
theorem register_trailing_ignored (data rest : Bytes) (h : 96 ≤ data.length) :
    decodeTuple registerTys (data ++ rest) = decodeTuple registerTys data := by
  rw [register_decodes data h, register_decodes (data ++ rest) (by simp only [List.length_append]; omega),
    take_drop_append_of_le data rest 12 20 (by omega), take_drop_append_of_le data rest 44 20 (by omega),
    take_drop_append_of_le data rest 64 32 (by omega)]

theorem assign_trailing_ignored (data rest : Bytes) (h : 64 ≤ data.length) :
    decodeTuple assignTys (data ++ rest) = decodeTuple assignTys data := by
  rw [assign_decodes data h, assign_decodes (data ++ rest) (by simp only [List.length_append]; omega),
    take_drop_append_of_le data rest 12 20 (by omega), take_drop_append_of_le data rest 32 32 (by omega)]

/-- A payload given word by word: 12 arbitrary elements + contract, 12 arbitrary elements + receiver, the id word,
anything after that. -/
theorem register_decodes_words (p c q r w rest : Bytes)
    (hp : p.length = 12) (hc : c.length = 20) (hq : q.length = 12) (hr : r.length = 20) (hw : w.length = 32) :
    decodeTuple registerTys (p ++ c ++ (q ++ r ++ (w ++ rest))) = some [.addr c, .addr r, .uint (ofBe w)] := by
  rw [register_decodes _ (by simp only [List.length_append]; omega)]
  have e1 : (p ++ c ++ (q ++ r ++ (w ++ rest))).drop 12 = c ++ (q ++ r ++ (w ++ rest)) := by
    rw [List.append_assoc]; exact List.drop_left' hp
  have e2 : (p ++ c ++ (q ++ r ++ (w ++ rest))).drop 44 = r ++ (w ++ rest) := by
    have re : p ++ c ++ (q ++ r ++ (w ++ rest)) = (p ++ c ++ q) ++ (r ++ (w ++ rest)) := by
      simp only [List.append_assoc]
    have hl : (p ++ c ++ q).length = 44 := by simp only [List.length_append]; omega
    rw [re]; exact List.drop_left' hl
  have e3 : (p ++ c ++ (q ++ r ++ (w ++ rest))).drop 64 = w ++ rest := by
    have re : p ++ c ++ (q ++ r ++ (w ++ rest)) = (p ++ c ++ (q ++ r)) ++ (w ++ rest) := by
      simp only [List.append_assoc]
    have hl : (p ++ c ++ (q ++ r)).length = 64 := by simp only [List.length_append]; omega
    rw [re]; exact List.drop_left' hl
  rw [e1, e2, e3, List.take_left' hc, List.take_left' hr, List.take_left' hw]

theorem assign_decodes_words (p c w rest : Bytes) (hp : p.length = 12) (hc : c.length = 20) (hw : w.length = 32) :
    decodeTuple assignTys (p ++ c ++ (w ++ rest)) = some [.addr c, .uint (ofBe w)] := by
  rw [assign_decodes _ (by simp only [List.length_append]; omega)]
  have e1 : (p ++ c ++ (w ++ rest)).drop 12 = c ++ (w ++ rest) := by
    rw [List.append_assoc]; exact List.drop_left' hp
  have e2 : (p ++ c ++ (w ++ rest)).drop 32 = w ++ rest := by
    have hl : (p ++ c).length = 32 := by simp only [List.length_append]; omega
    exact List.drop_left' hl
  rw [e1, e2, List.take_left' hc, List.take_left' hw]

/-- The 12 high bytes of the address words are not inspected: any 12 + 12 elements there give the same result. -/
theorem register_dirty_ignored (p p' q q' c r w rest : Bytes)
    (hp : p.length = 12) (hp' : p'.length = 12) (hq : q.length = 12) (hq' : q'.length = 12)
    (hc : c.length = 20) (hr : r.length = 20) (hw : w.length = 32) :
    decodeTuple registerTys (p ++ c ++ (q ++ r ++ (w ++ rest)))
      = decodeTuple registerTys (p' ++ c ++ (q' ++ r ++ (w ++ rest))) := by
  rw [register_decodes_words p c q r w rest hp hc hq hr hw, register_decodes_words p' c q' r w rest hp' hc hq' hr hw]

theorem assign_dirty_ignored (p p' c w rest : Bytes)
    (hp : p.length = 12) (hp' : p'.length = 12) (hc : c.length = 20) (hw : w.length = 32) :
    decodeTuple assignTys (p ++ c ++ (w ++ rest)) = decodeTuple assignTys (p' ++ c ++ (w ++ rest)) := by
  rw [assign_decodes_words p c w rest hp hc hw, assign_decodes_words p' c w rest hp' hc hw]

/-! ## 3. round trip -/

theorem encodeTuple_register (c r : Bytes) (id : Nat) (hc : c.length = 20) (hr : r.length = 20) :
    encodeTuple [(.address, .addr c), (.address, .addr r), (.uint256, .uint id)]
      = zeros 12 ++ c ++ (zeros 12 ++ r ++ (be32 id ++ [])) := by
  simp [encodeTuple, assemble, heads, tails, headLen, encode, isDynamic,
    leftPad32_of_length hc, leftPad32_of_length hr]

theorem encodeTuple_assign (c : Bytes) (id : Nat) (hc : c.length = 20) :
    encodeTuple [(.address, .addr c), (.uint256, .uint id)] = zeros 12 ++ c ++ (be32 id ++ []) := by
  simp [encodeTuple, assemble, heads, tails, headLen, encode, isDynamic, leftPad32_of_length hc]

/-- Round trip of a `Register` payload.  The elements of `c`, `r` need not be `< 256`. -/
theorem register_roundtrip (c r : Bytes) (id : Nat) (hc : c.length = 20) (hr : r.length = 20)
    (hid : id < 2 ^ 256) :
    decodeTuple registerTys (encodeTuple [(.address, .addr c), (.address, .addr r), (.uint256, .uint id)])
      = some [.addr c, .addr r, .uint id] := by
  rw [encodeTuple_register c r id hc hr,
    register_decodes_words _ c _ r _ [] (zeros_length 12) hc (zeros_length 12) hr (be32_length id),
    ofBe_be32 (show id < two256 from hid)]

/-- Round trip of an `Assign` payload. -/
theorem assign_roundtrip (c : Bytes) (id : Nat) (hc : c.length = 20) (hid : id < 2 ^ 256) :
    decodeTuple assignTys (encodeTuple [(.address, .addr c), (.uint256, .uint id)])
      = some [.addr c, .uint id] := by
  rw [encodeTuple_assign c id hc, assign_decodes_words _ c _ [] (zeros_length 12) hc (be32_length id),
    ofBe_be32 (show id < two256 from hid)]

/-- The same as a corollary of the general theorem (which additionally wants the elements to be bytes). -/
theorem register_roundtrip_general (c r : Bytes) (id : Nat) (hc : c.length = 20) (hr : r.length = 20)
    (wc : wfBytes c = true) (wr : wfBytes r = true) (hid : id < 2 ^ 256) :
    decodeTuple registerTys (encodeTuple [(.address, .addr c), (.address, .addr r), (.uint256, .uint id)])
      = some [.addr c, .addr r, .uint id] := by
  have := decodeTuple_encodeTuple [(.address, .addr c), (.address, .addr r), (.uint256, .uint id)]
    (by
      intro a ha
      simp only [List.mem_cons, List.not_mem_nil, or_false] at ha
      rcases ha with rfl | rfl | rfl
      · simp [Val.hasTy, hc, wc]
      · simp [Val.hasTy, hr, wr]
      · simp only [Val.hasTy, decide_eq_true_eq]; exact hid)
    (by
      rw [encodeTuple_register c r id hc hr]
      simp only [List.length_append, zeros_length, be32_length, List.length_nil, hc, hr, two256]
      omega)
  simpa [registerTys] using this

theorem assign_roundtrip_general (c : Bytes) (id : Nat) (hc : c.length = 20) (wc : wfBytes c = true)
    (hid : id < 2 ^ 256) :
    decodeTuple assignTys (encodeTuple [(.address, .addr c), (.uint256, .uint id)])
      = some [.addr c, .uint id] := by
  have := decodeTuple_encodeTuple [(.address, .addr c), (.uint256, .uint id)]
    (by
      intro a ha
      simp only [List.mem_cons, List.not_mem_nil, or_false] at ha
      rcases ha with rfl | rfl
      · simp [Val.hasTy, hc, wc]
      · simp only [Val.hasTy, decide_eq_true_eq]; exact hid)
    (by
      rw [encodeTuple_assign c id hc]
      simp only [List.length_append, zeros_length, be32_length, List.length_nil, hc, two256]
      omega)
  simpa [assignTys] using this

/-! ## 4. examples -/

section Examples

set_option maxRecDepth 100000

/-- A decidable view of the values that occur here (`Val` has no `DecidableEq`): tag, bytes / number. -/
def Val.view : Val → Nat × Bytes
  | .addr bs => (0, bs)
  | .uint n => (1, [n])
  | _ => (2, [])

def viewAll (o : Option (List Val)) : Option (List (Nat × Bytes)) := o.map (·.map Val.view)

/-- a sample contract address `0x0102…14`, a sample receiver `0xa0a1…b3` -/
def sampleC : Bytes := (List.range 20).map (· + 1)
def sampleR : Bytes := (List.range 20).map (· + 0xa0)

/-- the empty payload is malformed (both events) -/
example : decodeTuple registerTys [] = none := by decide
example : decodeTuple assignTys [] = none := by decide

/-- 95 bytes: malformed; 63 bytes: malformed for `Assign` -/
example : decodeTuple registerTys (zeros 12 ++ sampleC ++ zeros 12 ++ sampleR ++ zeros 31) = none := by decide
example : decodeTuple assignTys (zeros 12 ++ sampleC ++ zeros 31) = none := by decide
/-- …while 64 bytes are malformed for `Register` but not for `Assign` -/
example : decodeTuple registerTys (zeros 12 ++ sampleC ++ be32 7) = none := by decide
example : viewAll (decodeTuple assignTys (zeros 12 ++ sampleC ++ be32 7)) = some [(0, sampleC), (1, [7])] := by
  decide

/-- 96 bytes: contract, receiver, id -/
example : viewAll (decodeTuple registerTys (zeros 12 ++ sampleC ++ zeros 12 ++ sampleR ++ be32 0x1234))
    = some [(0, sampleC), (0, sampleR), (1, [0x1234])] := by decide
example : decodeTuple registerTys (zeros 12 ++ sampleC ++ zeros 12 ++ sampleR ++ be32 0x1234)
    = some [.addr sampleC, .addr sampleR, .uint 0x1234] := by rfl

/-- 128 bytes: the trailing word is ignored -/
example : viewAll (decodeTuple registerTys (zeros 12 ++ sampleC ++ zeros 12 ++ sampleR ++ be32 0x1234 ++ be32 99))
    = some [(0, sampleC), (0, sampleR), (1, [0x1234])] := by decide
example : decodeTuple registerTys (zeros 12 ++ sampleC ++ zeros 12 ++ sampleR ++ be32 0x1234 ++ be32 99)
    = some [.addr sampleC, .addr sampleR, .uint 0x1234] := by rfl

/-- a dirty high byte (`0xff` in front of the contract address): accepted, same result -/
example : viewAll (decodeTuple registerTys ([0xff] ++ zeros 11 ++ sampleC ++ zeros 12 ++ sampleR ++ be32 0x1234))
    = some [(0, sampleC), (0, sampleR), (1, [0x1234])] := by decide
example : decodeTuple registerTys ([0xff] ++ zeros 11 ++ sampleC ++ zeros 12 ++ sampleR ++ be32 0x1234)
    = some [.addr sampleC, .addr sampleR, .uint 0x1234] := by rfl
example : viewAll (decodeTuple assignTys (List.replicate 12 0xee ++ sampleC ++ be32 5))
    = some [(0, sampleC), (1, [5])] := by decide

/-- the maximal id -/
example : viewAll (decodeTuple assignTys (zeros 12 ++ sampleC ++ List.replicate 32 0xff))
    = some [(0, sampleC), (1, [2 ^ 256 - 1])] := by decide

/-! ### non-vacuity: the hypotheses of the theorems hold on concrete values -/

example : (zeros 12 ++ sampleC ++ zeros 12 ++ sampleR ++ zeros 31).length < 96 := by decide
example : 96 ≤ (zeros 12 ++ sampleC ++ zeros 12 ++ sampleR ++ be32 0x1234 ++ be32 99).length := by decide
example : sampleC.length = 20 ∧ sampleR.length = 20 ∧ wfBytes sampleC = true ∧ wfBytes sampleR = true
    ∧ 0x1234 < 2 ^ 256 := by decide

/-- the theorems, instantiated (no evaluation of the decoder) -/
example : decodeTuple registerTys (zeros 12 ++ sampleC ++ zeros 12 ++ sampleR ++ zeros 31) = none :=
  (register_malformed_iff _).2 (by decide)
example : decodeTuple registerTys
    (encodeTuple [(.address, .addr sampleC), (.address, .addr sampleR), (.uint256, .uint 0x1234)])
      = some [.addr sampleC, .addr sampleR, .uint 0x1234] :=
  register_roundtrip _ _ _ (by decide) (by decide) (by decide)
example : decodeTuple assignTys (encodeTuple [(.address, .addr sampleC), (.uint256, .uint (2 ^ 256 - 1))])
      = some [.addr sampleC, .uint (2 ^ 256 - 1)] :=
  assign_roundtrip _ _ (by decide) (by decide)
example : decodeTuple registerTys ([0xff] ++ zeros 11 ++ sampleC ++ (zeros 12 ++ sampleR ++ (be32 7 ++ [1, 2])))
    = decodeTuple registerTys (zeros 12 ++ sampleC ++ (zeros 12 ++ sampleR ++ (be32 7 ++ [1, 2]))) :=
  register_dirty_ignored _ _ _ _ _ _ _ _ (by decide) (by decide) (by decide) (by decide) (by decide) (by decide)
    (by decide)

/-! ### the hypotheses of the round trip cannot be dropped -/

/-- a 19-element "address" comes back with a leading zero, a 21-element one loses its first element -/
example : viewAll (decodeTuple assignTys (encodeTuple [(.address, .addr (List.replicate 19 5)), (.uint256, .uint 1)]))
    = some [(0, 0 :: List.replicate 19 5), (1, [1])] := by decide
example : viewAll (decodeTuple assignTys (encodeTuple [(.address, .addr (9 :: List.replicate 20 5)), (.uint256, .uint 1)]))
    = some [(0, List.replicate 20 5), (1, [1])] := by decide
/-- `id = 2^256` comes back as `0` -/
example : viewAll (decodeTuple assignTys (encodeTuple [(.address, .addr sampleC), (.uint256, .uint (2 ^ 256))]))
    = some [(0, sampleC), (1, [0])] := by decide
/-- …whereas elements `≥ 256` in an address do round-trip (why `register_roundtrip` has no `wfBytes` hypothesis) -/
example : viewAll (decodeTuple assignTys (encodeTuple [(.address, .addr (List.replicate 20 300)), (.uint256, .uint 1)]))
    = some [(0, List.replicate 20 300), (1, [1])] := by decide

end Examples

end Abi
end CV
