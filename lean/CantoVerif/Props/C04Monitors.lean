import CantoVerif.Props.C04
/-!
# C04 — the executable monitors of `Spec/Erc20.lean` hold on every transition of the model.

For each C04 monitor `c04_x` a theorem `c04_x_monitor`: the monitor evaluates to `true` on the `Tr` built
from a transition of the model — pre-state `w`, the operation, `ok` / `resp` from the model's result
(`isOk`, `respOf`), post-state the model's post-state — for **all** environments, states and
operations (not only conversions).

* `c04_successExactBank_monitor` — every oracle `O`, no hypothesis.
* `c04_successExactToken_monitor` — the honest token oracle `honest cfg` (any `cfg`; the harness flag
  `honest` is left arbitrary), no other hypothesis.
* `c04_successExactReported_monitor`, `c04_noApproval_monitor`, `c04_transferTrue_monitor` — every oracle `O`, no
  hypothesis.  These monitors read `answers`; the field is tied to the model by construction: the
  transition is `logTr`, the model's own `step` run with the *recording* oracle `logO O` (the oracle
  `O` with each answer appended to a record that starts empty), and `answers` is that record.
  `ok`, `resp` and `post` of `logTr` are those of that same recorded run (`post` = its post-state without
  the record).  `logO O` is itself an oracle, so this *is* a transition of the model; that the record
  does not influence the run (`postOf … = exec env O w op`) is not proved here in general — none of
  these four monitors reads `post` or the token ledgers — it is checked on the example world below.
* `c04_internalFailureRejects_monitor` — the same, under `CodeLookupOk O` (**finding**, below).
* `c04_roundtrip_monitor` — the honest oracle; `prev` is tied to the model by the hypothesis `hprev`: if it
  records a successful conversion `pop` from `w0`, then the current pre-state `w` is the model's
  post-state of `pop` from `w0`, and `w0` satisfies the registry invariant `RegInv` (the hypothesis of
  `roundtrip_coin_token_coin` / `roundtrip_token_coin_token` in `Props/C04.lean`).

## Finding: `c04_internalFailureRejects` is not true of the model for an unrestricted oracle

The monitor demands `status == ok` of *all* answers of a successful conversion, the first of which is
the answer to the account lookup `Call.code` (`GetAccountWithoutBalance` … `IsContract()`).  The model's
`hasCode` reads only `.ret` of that answer (the Go call has no error result), so an oracle that
answers `Call.code c` with `{ status := .err, ret := some 1 }` and is honest otherwise (`badCode`) makes
`ConvertCoin` of 3 `acoin` by `u0` on the example world succeed with the four answers
`[⟨err, some 1⟩, ⟨ok, some 0⟩, ⟨ok, none, [transfer]⟩, ⟨ok, some 3⟩]`: the monitor is `false` on that
model transition (proved below by evaluation).  The monitor is sound for the implementation only
because the harness can never record a non-`ok` status for the lookup; the model-level statement
therefore needs `CodeLookupOk O : ∀ c e, (O (.code c) e).1.status = .ok`, which `honest` satisfies.
Nothing else in the seven monitors needed a hypothesis on the oracle.

Core Lean only.
-/
namespace CV
namespace Erc20
namespace C04M
open KMap Spec Token

variable {σ : Type}

/-- the response of a model step (`.none` for a rejected one: the driver reads no response then) -/
def respOf : R (World σ × Resp) → Resp
  | .ok (_, r) => r
  | .error _ => .none

theorem exec_of_ok {env : Env} {O : Oracle σ} {w w' : World σ} {op : Op} {r : Resp}
    (h : step env O w op = .ok (w', r)) : exec env O w op = w' := by
  simp only [exec, deliver, h]

theorem bankMovedBy_of {pre post : State} {db : Addr × Denom → Int} {ds : Denom → Int}
    (h1 : ∀ x d, (post.bank.get x d : Int) = (pre.bank.get x d : Int) + db (x, d))
    (h2 : ∀ d, (post.bank.supply d : Int) = (pre.bank.supply d : Int) + ds d) :
    bankMovedBy pre post db ds = true := by
  simp [bankMovedBy, List.all_eq_true, h1, h2]

theorem idelta_pair (x S : Addr) (d' d : Denom) (v : Int) :
    idelta ((x, d') == (S, d)) v = if x = S ∧ d' = d then v else 0 := by
  simp [idelta]
theorem idelta_pair_and (x S : Addr) (d' d : Denom) (b : Bool) (v : Int) :
    idelta ((x, d') == (S, d) && b) v = if x = S ∧ d' = d then (if b then v else 0) else 0 := by
  by_cases c : x = S ∧ d' = d <;> simp [idelta, c]
theorem idelta_and (d' d : Denom) (b : Bool) (v : Int) :
    idelta (d' == d && b) v = if d' = d then (if b then v else 0) else 0 := by
  by_cases c : d' = d <;> simp [idelta, c]
theorem owner_ext_mod : (Owner.external == Owner.module) = false := rfl
theorem owner_mod_mod : (Owner.module == Owner.module) = true := rfl

macro "idl" : tactic =>
  `(tactic| simp only [idelta_pair, idelta_pair_and, idelta_and, owner_ext_mod, owner_mod_mod, Bool.not_true, Bool.not_false,
      if_true, Bool.false_eq_true, if_false])

theorem coinPath_bank {env : Env} {O : Oracle σ} {p : Pair} {d : Denom} {a : Nat} {R S : Addr} {w1 w' : World σ} {r : Resp}
    (h : coinPath env O p d a R S w1 = .ok (w', r)) (A : Int) (hA : (a : Int) = A) :
    bankMovedBy w1.st w'.st
      (fun k => idelta (k == (S, d)) (-A) + idelta (k == (env.modAddr, d) && p.owner == Owner.module) A)
      (fun d' => idelta (d' == d && !p.owner == Owner.module) (-A)) = true := by
  subst hA
  unfold coinPath at h
  cases ho : p.owner with
  | unspecified => rw [ho] at h; cases h
  | module =>
    rw [ho] at h
    simp only at h
    obtain ⟨hb, hs, _⟩ := coinNative_exact h
    apply bankMovedBy_of
    · intro x d'
      have f := hb x d'
      idl
      by_cases c1 : (x = S ∧ d' = d) <;> by_cases c2 : (x = env.modAddr ∧ d' = d) <;> (ifc c1; ifc c2; omega)
    · intro d'
      have f := hs d'
      idl
      by_cases c1 : d' = d <;> (ifc c1; omega)
  | external =>
    rw [ho] at h
    simp only at h
    obtain ⟨hb, hs, _⟩ := coinExternal_exact h
    apply bankMovedBy_of
    · intro x d'
      have f := hb x d'
      idl
      by_cases c1 : (x = S ∧ d' = d) <;> by_cases c2 : (x = env.modAddr ∧ d' = d) <;> (ifc c1; ifc c2; omega)
    · intro d'
      have f := hs d'
      idl
      by_cases c1 : d' = d <;> (ifc c1; omega)

theorem erc20Path_bank {env : Env} {O : Oracle σ} {p : Pair} {a : Nat} {R S : Addr} {w1 w' : World σ} {r : Resp}
    (h : erc20Path env O p a R S w1 = .ok (w', r)) (A : Int) (hA : (a : Int) = A) :
    bankMovedBy w1.st w'.st
      (fun k => idelta (k == (R, p.denom)) A + idelta (k == (env.modAddr, p.denom) && p.owner == Owner.module) (-A))
      (fun d' => idelta (d' == p.denom && !p.owner == Owner.module) A) = true := by
  subst hA
  unfold erc20Path at h
  cases ho : p.owner with
  | unspecified => rw [ho] at h; cases h
  | module =>
    rw [ho] at h
    simp only at h
    obtain ⟨hb, hs, _⟩ := erc20Native_exact h
    apply bankMovedBy_of
    · intro x d'
      have f := hb x d'
      idl
      by_cases c1 : (x = R ∧ d' = p.denom) <;> by_cases c2 : (x = env.modAddr ∧ d' = p.denom) <;> (ifc c1; ifc c2; omega)
    · intro d'
      have f := hs d'
      idl
      by_cases c1 : d' = p.denom <;> (ifc c1; omega)
  | external =>
    rw [ho] at h
    simp only at h
    obtain ⟨hb, hs, _⟩ := erc20External_exact h
    apply bankMovedBy_of
    · intro x d'
      have f := hb x d'
      idl
      by_cases c1 : (x = R ∧ d' = p.denom) <;> by_cases c2 : (x = env.modAddr ∧ d' = p.denom) <;> (ifc c1; ifc c2; omega)
    · intro d'
      have f := hs d'
      idl
      by_cases c1 : d' = p.denom <;> (ifc c1; omega)

/-- **C04 success_exact_bank**, for every oracle, every state, every operation -/
theorem c04_successExactBank_monitor (env : Env) (cfg : Cfg) (O : Oracle TState) (w : World TState) (op : Op)
    (ans : List Ans) (hon cl : Bool) (lk : List (Addr × Denom × String × String))
    (prev : Option (DOp × Bool × Resp × World TState × Bool)) :
    c04_successExactBank { env := env, cfg := cfg, pre := w, op := .k op, ok := isOk (step env O w op),
                           resp := respOf (step env O w op), post := exec env O w op,
                           answers := ans, honest := hon, lookups := lk, clean := cl, prev := prev } = true := by
  cases h : step env O w op with
  | error e => simp [c04_successExactBank, isOk, respOf]
  | ok x =>
    obtain ⟨w', r⟩ := x
    rw [exec_of_ok h]
    cases r with
    | none => simp [c04_successExactBank, isOk, respOf]
    | deleted => simp [c04_successExactBank, isOk, respOf]
    | converted =>
      cases op with
      | convertCoin m =>
        obtain ⟨p, hp, hs, hr, ha, _, _, path, _⟩ := convertCoin_success_paths h
        have hcp : convParties (.convertCoin m) = some (m.sender.bytes, m.receiver.bytes) := by
          simp [convParties, hs, hr]
        have hcast : ((m.amount.toNat : Nat) : Int) = m.amount := Int.toNat_of_nonneg (by omega)
        have hb := coinPath_bank path m.amount hcast
        simp only [c04_successExactBank, isOk, respOf, hp, hcp]
        simp [hb, ha]
      | convertERC20 m =>
        obtain ⟨p, hp, hs, hr, ha, _, _, path⟩ := convertERC20_success_paths h
        have hcp : convParties (.convertERC20 m) = some (m.sender.bytes, m.receiver.bytes) := by
          simp [convParties, hs, hr]
        have hcast : ((m.amount.toNat : Nat) : Int) = m.amount := Int.toNat_of_nonneg (by omega)
        have hb := erc20Path_bank path m.amount hcast
        simp only [c04_successExactBank, isOk, respOf, hp, hcp]
        simp [hb, ha]
      | _ => simp [c04_successExactBank, isOk, respOf, isConvert]

/-! ## token ledger (honest oracle) -/

theorem tokMovedBy_of {pre post : TState} {db : Addr × Addr → Int} {ds : Addr → Int}
    (h1 : ∀ c h, (post.balOf c h : Int) = (pre.balOf c h : Int) + db (c, h))
    (h2 : ∀ c, (post.supply c : Int) = (pre.supply c : Int) + ds c) :
    tokMovedBy pre post db ds = true := by
  simp only [tokMovedBy, Bool.and_eq_true, List.all_eq_true, beq_iff_eq]
  refine ⟨?_, ?_⟩
  · intro k _
    exact h1 k.1 k.2
  · intro c _
    exact h2 c

theorem balOf_move (t : TState) (c X Y : Addr) (a : Nat) (hle : a ≤ t.balOf c X) (c' h' : Addr) :
    ((((t.debit c X a).credit c Y a).balOf c' h' : Nat) : Int) =
      (t.balOf c' h' : Int) + (if c' = c ∧ h' = Y then (a : Int) else 0) + (if c' = c ∧ h' = X then -(a : Int) else 0) := by
  simp only [balOf_credit, balOf_debit]
  by_cases hXY : Y = X
  · subst hXY
    by_cases c1 : (c' = c ∧ h' = Y)
    · obtain ⟨e1, e2⟩ := c1; subst e1 e2; simp; omega
    · simp [c1]
  · by_cases c1 : (c' = c ∧ h' = Y)
    · obtain ⟨e1, e2⟩ := c1; subst e1 e2; simp [hXY]
    · by_cases c2 : (c' = c ∧ h' = X)
      · obtain ⟨e1, e2⟩ := c2; subst e1 e2
        have : ¬ h' = Y := fun e => hXY e.symm
        simp [this]; omega
      · simp [c1, c2]

theorem coinPath_tok {env : Env} {cfg : Cfg} {p : Pair} {d : Denom} {a : Nat} {R S : Addr} {w1 w' : World TState} {r : Resp}
    (h : coinPath env (honest cfg) p d a R S w1 = .ok (w', r)) (A : Int) (hA : (a : Int) = A) :
    tokMovedBy w1.evm w'.evm
      (fun k => idelta (k == (p.addr, R)) A + idelta (k == (p.addr, env.modAddr) && !p.owner == Owner.module) (-A))
      (fun c => idelta (c == p.addr && p.owner == Owner.module) A) = true := by
  subst hA
  unfold coinPath at h
  cases ho : p.owner with
  | unspecified => rw [ho] at h; cases h
  | module =>
    rw [ho] at h
    simp only at h
    obtain ⟨_, _, _, hev, _, _⟩ := coinNative_honest h
    apply tokMovedBy_of
    · intro c' h'
      rw [hev]
      idl
      simp only [balOf_credit, balOf_setSupply, ite_self, Int.add_zero]
      by_cases c1 : (c' = p.addr ∧ h' = R)
      · obtain ⟨e1, e2⟩ := c1; subst e1 e2; simp
      · simp [c1]
    · intro c'
      rw [hev]
      idl
      simp only [supply_credit, supply_setSupply]
      by_cases c1 : c' = p.addr
      · subst c1; simp
      · simp [c1]
  | external =>
    rw [ho] at h
    simp only at h
    obtain ⟨_, _, _, _, _, hev, hle, _, _⟩ := coinNativeERC20_honest h
    apply tokMovedBy_of
    · intro c' h'
      rw [hev, balOf_move _ _ _ _ _ hle]
      idl
      omega
    · intro c'
      rw [hev]
      idl
      simp only [supply_credit, supply_debit, ite_self, Int.add_zero]

theorem erc20Path_tok {env : Env} {cfg : Cfg} {p : Pair} {a : Nat} {R S : Addr} {w1 w' : World TState} {r : Resp}
    (h : erc20Path env (honest cfg) p a R S w1 = .ok (w', r)) (A : Int) (hA : (a : Int) = A) :
    tokMovedBy w1.evm w'.evm
      (fun k => idelta (k == (p.addr, S)) (-A) + idelta (k == (p.addr, env.modAddr) && !p.owner == Owner.module) A)
      (fun c => idelta (c == p.addr && p.owner == Owner.module) (-A)) = true := by
  subst hA
  unfold erc20Path at h
  cases ho : p.owner with
  | unspecified => rw [ho] at h; cases h
  | module =>
    rw [ho] at h
    simp only at h
    obtain ⟨_, _, _, hev, hle, hls, _, _⟩ := erc20NativeCoin_honest h
    apply tokMovedBy_of
    · intro c' h'
      rw [hev]
      idl
      simp only [balOf_debit, balOf_setSupply, ite_self, Int.add_zero]
      by_cases c1 : (c' = p.addr ∧ h' = S)
      · obtain ⟨e1, e2⟩ := c1; subst e1 e2; simp; omega
      · simp [c1]
    · intro c'
      rw [hev]
      idl
      simp only [supply_debit, supply_setSupply]
      by_cases c1 : c' = p.addr
      · subst c1; simp; omega
      · simp [c1]
  | external =>
    rw [ho] at h
    simp only at h
    obtain ⟨_, _, _, _, _, hev, hle, _, _⟩ := erc20NativeToken_honest h
    apply tokMovedBy_of
    · intro c' h'
      rw [hev, balOf_move _ _ _ _ _ hle]
      idl
      omega
    · intro c'
      rw [hev]
      idl
      simp only [supply_credit, supply_debit, ite_self, Int.add_zero]

/-- **C04 success_exact_token.**  Honest token oracle (`honest cfg`, any `cfg`): whatever the value of
the harness flag `honest`, the token ledger of the model moved exactly as the monitor says. -/
theorem c04_successExactToken_monitor (env : Env) (cfg : Cfg) (w : World TState) (op : Op)
    (ans : List Ans) (hon cl : Bool) (lk : List (Addr × Denom × String × String))
    (prev : Option (DOp × Bool × Resp × World TState × Bool)) :
    c04_successExactToken { env := env, cfg := cfg, pre := w, op := .k op, ok := isOk (step env (honest cfg) w op),
                            resp := respOf (step env (honest cfg) w op), post := exec env (honest cfg) w op,
                            answers := ans, honest := hon, lookups := lk, clean := cl, prev := prev } = true := by
  cases h : step env (honest cfg) w op with
  | error e => simp [c04_successExactToken, isOk, respOf]
  | ok x =>
    obtain ⟨w', r⟩ := x
    rw [exec_of_ok h]
    cases r with
    | none => simp [c04_successExactToken, isOk, respOf]
    | deleted => simp [c04_successExactToken, isOk, respOf]
    | converted =>
      cases op with
      | convertCoin m =>
        obtain ⟨p, hp, hs, hr, ha, _, _, path, _⟩ := convertCoin_success_paths h
        have hcp : convParties (.convertCoin m) = some (m.sender.bytes, m.receiver.bytes) := by
          simp [convParties, hs, hr]
        have hcast : ((m.amount.toNat : Nat) : Int) = m.amount := Int.toNat_of_nonneg (by omega)
        rw [honest_code_world] at path
        have hb := coinPath_tok path m.amount hcast
        simp only [c04_successExactToken, isOk, respOf, hp, hcp]
        simp [hb]
      | convertERC20 m =>
        obtain ⟨p, hp, hs, hr, ha, _, _, path⟩ := convertERC20_success_paths h
        have hcp : convParties (.convertERC20 m) = some (m.sender.bytes, m.receiver.bytes) := by
          simp [convParties, hs, hr]
        have hcast : ((m.amount.toNat : Nat) : Int) = m.amount := Int.toNat_of_nonneg (by omega)
        rw [honest_code_world] at path
        have hb := erc20Path_tok path m.amount hcast
        simp only [c04_successExactToken, isOk, respOf, hp, hcp]
        simp [hb]
      | _ => simp [c04_successExactToken, isOk, respOf, isConvert]

/-! ## the answers of the EVM: the model run with a recording oracle -/

/-- `O` with every answer it gives recorded, in order, next to its own state (what the driver's
`loggedO` does for the honest machine) -/
def logO (O : Oracle σ) : Oracle (σ × List Ans) :=
  fun c s => ((O c s.1).1, ((O c s.1).2, s.2 ++ [(O c s.1).1]))

@[simp] theorem logO_ans (O : Oracle σ) (c : Call) (s : σ × List Ans) : (logO O c s).1 = (O c s.1).1 := rfl
@[simp] theorem logO_evm (O : Oracle σ) (c : Call) (s : σ × List Ans) : (logO O c s).2.1 = (O c s.1).2 := rfl
@[simp] theorem logO_log (O : Oracle σ) (c : Call) (s : σ × List Ans) :
    (logO O c s).2.2 = s.2 ++ [(O c s.1).1] := rfl

/-- what a successful, recorded `ConvertCoin` saw: exactly four answers — the account lookup, the
balance before, the token call, the balance after — the last three without error, the two balances
`amount` apart; for an external token the call returned `true` and logged no `Approval` -/
theorem convertCoin_logged {env : Env} {O : Oracle σ} {w w' : World (σ × List Ans)} {m : MsgConvertCoin}
    (hl : w.evm.2 = []) (h : step env (logO O) w (.convertCoin m) = .ok (w', .converted)) :
    ∃ p a0 b0 call b1 x y, msgPair w.st (.convertCoin m) = some p ∧ w'.evm.2 = [a0, b0, call, b1] ∧
      a0 = (O (.code p.addr) w.evm.1).1 ∧
      b0.status = .ok ∧ call.status = .ok ∧ b1.status = .ok ∧ b0.ret = some x ∧ b1.ret = some y ∧
      y = x + m.amount.toNat ∧ (p.owner = .external → call.ret = some 1 ∧ LogK.approval ∉ call.logs) := by
  obtain ⟨p, hp, _, _, _, _, _, path, _⟩ := convertCoin_success_paths h
  unfold coinPath at path
  cases ho : p.owner with
  | unspecified => rw [ho] at path; cases path
  | module =>
    rw [ho] at path
    simp only at path
    obtain ⟨F⟩ := convertCoinNativeCoin_ok path
    refine ⟨p, _, _, _, _, F.b0, F.b1, hp, ?_, rfl, F.hB0.1, F.hCall, F.hB1.1, F.hB0.2, F.hB1.2, F.hEq, fun e => by rw [ho] at e; cases e⟩
    rw [F.hWorld]
    simp only [logO_log, logO_evm, hl, List.nil_append, List.cons_append]
    rfl
  | external =>
    rw [ho] at path
    simp only at path
    obtain ⟨F⟩ := convertCoinNativeERC20_ok path
    refine ⟨p, _, _, _, _, F.r0, F.r1, hp, ?_, rfl, F.hR0.1, F.hCall, F.hR1.1, F.hR0.2, F.hR1.2, F.hEq,
      fun _ => ⟨F.hRet, F.hNoApproval⟩⟩
    rw [F.hWorld]
    simp only [logO_log, logO_evm, hl, List.nil_append, List.cons_append]
    rfl

/-- the same for `ConvertERC20`; the watched balance is the sender's (chain-deployed contract: it
goes down) or the module's escrow (external contract: it goes up) -/
theorem convertERC20_logged {env : Env} {O : Oracle σ} {w w' : World (σ × List Ans)} {m : MsgConvertERC20}
    (hl : w.evm.2 = []) (h : step env (logO O) w (.convertERC20 m) = .ok (w', .converted)) :
    ∃ p a0 b0 call b1 x y, msgPair w.st (.convertERC20 m) = some p ∧ w'.evm.2 = [a0, b0, call, b1] ∧
      a0 = (O (.code p.addr) w.evm.1).1 ∧
      b0.status = .ok ∧ call.status = .ok ∧ b1.status = .ok ∧ b0.ret = some x ∧ b1.ret = some y ∧
      (if p.owner = .module then y + m.amount.toNat = x else y = x + m.amount.toNat) ∧
      (p.owner = .external → call.ret = some 1 ∧ LogK.approval ∉ call.logs) := by
  obtain ⟨p, hp, _, _, _, _, _, path⟩ := convertERC20_success_paths h
  unfold erc20Path at path
  cases ho : p.owner with
  | unspecified => rw [ho] at path; cases path
  | module =>
    rw [ho] at path
    simp only at path
    obtain ⟨F⟩ := convertERC20NativeCoin_ok path
    refine ⟨p, _, _, _, _, F.t0, F.t1, hp, ?_, rfl, F.hT0.1, F.hCall, F.hT1.1, F.hT0.2, F.hT1.2, by simpa [ho] using F.hEq,
      fun e => by rw [ho] at e; cases e⟩
    rw [F.hWorld]
    simp only [logO_log, logO_evm, hl, List.nil_append, List.cons_append]
    rfl
  | external =>
    rw [ho] at path
    simp only at path
    obtain ⟨F⟩ := convertERC20NativeToken_ok path
    refine ⟨p, _, _, _, _, F.m0, F.m1, hp, ?_, rfl, F.hM0.1, F.hCall, F.hM1.1, F.hM0.2, F.hM1.2, by simpa [ho] using F.hEq,
      fun _ => ⟨F.hRet, F.hNoApproval⟩⟩
    rw [F.hWorld]
    simp only [logO_log, logO_evm, hl, List.nil_append, List.cons_append]
    rfl

/-- the model's step with the recording oracle, started with an empty record -/
def logRun (env : Env) (O : Oracle σ) (w : World σ) (op : Op) : R (World (σ × List Ans) × Resp) :=
  step env (logO O) { st := w.st, evm := (w.evm, []) } op

/-- the answers the oracle gave during the model's run of the operation, in order -/
def answersOf : R (World (σ × List Ans) × Resp) → List Ans
  | .ok (w', _) => w'.evm.2
  | .error _ => []

/-- the post-state of the recorded run without the record (a rejected step changes nothing: `deliver`) -/
def postOf (w : World σ) : R (World (σ × List Ans) × Resp) → World σ
  | .ok (w', _) => { st := w'.st, evm := w'.evm.1 }
  | .error _ => w

/-- the `Tr` of the model's recorded run of `op` from `w` with oracle `O`: outcome, response, post-state
and `answers` all come from that one run -/
def logTr (env : Env) (cfg : Cfg) (O : Oracle TState) (w : World TState) (op : Op) (hon cl : Bool)
    (lk : List (Addr × Denom × String × String)) (prev : Option (DOp × Bool × Resp × World TState × Bool)) : Tr :=
  { env := env, cfg := cfg, pre := w, op := .k op, ok := isOk (logRun env O w op), resp := respOf (logRun env O w op),
    post := postOf w (logRun env O w op), answers := answersOf (logRun env O w op),
    honest := hon, lookups := lk, clean := cl, prev := prev }

section logged
variable (env : Env) (cfg : Cfg) (O : Oracle TState) (w : World TState) (op : Op) (hon cl : Bool)
  (lk : List (Addr × Denom × String × String)) (prev : Option (DOp × Bool × Resp × World TState × Bool))

/-- **C04 success_exact_reported**, for every oracle; `answers` = the answers of the model's own run -/
theorem c04_successExactReported_monitor : c04_successExactReported (logTr env cfg O w op hon cl lk prev) = true := by
  unfold logTr
  cases h : logRun env O w op with
  | error e => simp [c04_successExactReported, isOk, respOf]
  | ok x =>
    obtain ⟨w', r⟩ := x
    cases r with
    | none => simp [c04_successExactReported, isOk, respOf]
    | deleted => simp [c04_successExactReported, isOk, respOf]
    | converted =>
      cases op with
      | convertCoin m =>
        obtain ⟨p, a0, b0, call, b1, x, y, hp, hlog, _, _, _, _, hx, hy, hxy, _⟩ := convertCoin_logged rfl h
        simp only [c04_successExactReported, isOk, respOf, answersOf, hlog]
        simp only [show msgPair w.st (.convertCoin m) = some p from hp]
        simp [hx, hy, hxy]
      | convertERC20 m =>
        obtain ⟨p, a0, b0, call, b1, x, y, hp, hlog, _, _, _, _, hx, hy, hxy, _⟩ := convertERC20_logged rfl h
        simp only [c04_successExactReported, isOk, respOf, answersOf, hlog]
        simp only [show msgPair w.st (.convertERC20 m) = some p from hp]
        by_cases ho : p.owner = .module <;> simp [hx, hy, ho] at hxy ⊢ <;> exact hxy
      | _ => simp [c04_successExactReported, isOk, respOf, isConvert]

/-- **C04 no_approval**, for every oracle; `answers` = the answers of the model's own run -/
theorem c04_noApproval_monitor : c04_noApproval (logTr env cfg O w op hon cl lk prev) = true := by
  unfold logTr
  cases h : logRun env O w op with
  | error e => simp [c04_noApproval, isOk, respOf]
  | ok x =>
    obtain ⟨w', r⟩ := x
    cases r with
    | none => simp [c04_noApproval, isOk, respOf]
    | deleted => simp [c04_noApproval, isOk, respOf]
    | converted =>
      cases op with
      | convertCoin m =>
        obtain ⟨p, a0, b0, call, b1, x, y, hp, hlog, _, _, _, _, _, _, _, hext⟩ := convertCoin_logged rfl h
        simp only [c04_noApproval, isOk, respOf, answersOf, hlog]
        simp only [show msgPair w.st (.convertCoin m) = some p from hp]
        by_cases ho : p.owner = .external
        · simp [(hext ho).2]
        · simp [ho]
      | convertERC20 m =>
        obtain ⟨p, a0, b0, call, b1, x, y, hp, hlog, _, _, _, _, _, _, _, hext⟩ := convertERC20_logged rfl h
        simp only [c04_noApproval, isOk, respOf, answersOf, hlog]
        simp only [show msgPair w.st (.convertERC20 m) = some p from hp]
        by_cases ho : p.owner = .external
        · simp [(hext ho).2]
        · simp [ho]
      | _ => simp [c04_noApproval, isOk, respOf, isConvert, msgPair]

/-- **C04 transfer_true**, for every oracle; `answers` = the answers of the model's own run -/
theorem c04_transferTrue_monitor : c04_transferTrue (logTr env cfg O w op hon cl lk prev) = true := by
  unfold logTr
  cases h : logRun env O w op with
  | error e => simp [c04_transferTrue, isOk, respOf]
  | ok x =>
    obtain ⟨w', r⟩ := x
    cases r with
    | none => simp [c04_transferTrue, isOk, respOf]
    | deleted => simp [c04_transferTrue, isOk, respOf]
    | converted =>
      cases op with
      | convertCoin m =>
        obtain ⟨p, a0, b0, call, b1, x, y, hp, hlog, _, _, hc, _, _, _, _, hext⟩ := convertCoin_logged rfl h
        simp only [c04_transferTrue, isOk, respOf, answersOf, hlog]
        simp only [show msgPair w.st (.convertCoin m) = some p from hp]
        by_cases ho : p.owner = .external
        · simp [(hext ho).1, hc]
        · simp [ho]
      | convertERC20 m =>
        obtain ⟨p, a0, b0, call, b1, x, y, hp, hlog, _, _, hc, _, _, _, _, hext⟩ := convertERC20_logged rfl h
        simp only [c04_transferTrue, isOk, respOf, answersOf, hlog]
        simp only [show msgPair w.st (.convertERC20 m) = some p from hp]
        by_cases ho : p.owner = .external
        · simp [(hext ho).1, hc]
        · simp [ho]
      | _ => simp [c04_transferTrue, isOk, respOf, isConvert, msgPair]

/-- the account lookup `GetAccountWithoutBalance` has no failure channel: whatever it finds, the
recorded answer to a `Call.code` query carries no error -/
def CodeLookupOk (O : Oracle σ) : Prop := ∀ c e, (O (.code c) e).1.status = .ok

/-- **C04 internal_failure_rejects**, for every oracle whose account lookup cannot fail (`CodeLookupOk`:
see the finding at the top of this file); `answers` = the answers of the model's own run -/
theorem c04_internalFailureRejects_monitor (hcode : CodeLookupOk O) :
    c04_internalFailureRejects (logTr env cfg O w op hon cl lk prev) = true := by
  unfold logTr
  cases h : logRun env O w op with
  | error e => simp [c04_internalFailureRejects, isOk, respOf]
  | ok x =>
    obtain ⟨w', r⟩ := x
    cases r with
    | none => simp [c04_internalFailureRejects, isOk, respOf]
    | deleted => simp [c04_internalFailureRejects, isOk, respOf]
    | converted =>
      cases op with
      | convertCoin m =>
        obtain ⟨p, a0, b0, call, b1, x, y, hp, hlog, ha0, h1, h2, h3, _⟩ := convertCoin_logged rfl h
        have h0 : a0.status = .ok := by rw [ha0]; exact hcode _ _
        simp [c04_internalFailureRejects, isOk, respOf, answersOf, hlog, h0, h1, h2, h3]
      | convertERC20 m =>
        obtain ⟨p, a0, b0, call, b1, x, y, hp, hlog, ha0, h1, h2, h3, _⟩ := convertERC20_logged rfl h
        have h0 : a0.status = .ok := by rw [ha0]; exact hcode _ _
        simp [c04_internalFailureRejects, isOk, respOf, answersOf, hlog, h0, h1, h2, h3]
      | _ => simp [c04_internalFailureRejects, isOk, respOf, isConvert]

end logged

/-! ## round trips -/

theorem sameBank_of {a b : State} (h1 : ∀ x d, b.bank.get x d = a.bank.get x d)
    (h2 : ∀ d, b.bank.supply d = a.bank.supply d) : sameBank a b = true := by
  simp [sameBank, h1, h2]

theorem sameTok_of {a b : TState} (h : a.same b) : sameTok a b = true := by
  obtain ⟨hb, hs, hc, _⟩ := h
  have hb' : ∀ k, b.bal.get k = a.bal.get k := fun k => hb k.1 k.2
  have hs' : ∀ c, b.sup.get c = a.sup.get c := hs
  simp [sameTok, AMap.eqv, hb', hs', hc]

theorem imp_bool {b c : Bool} (h : b = true → c = true) : (!b || c) = true := by
  cases b <;> simp_all

/-- **C04 roundtrip**, honest token.  `prev` (harness field) is tied to the model by `hprev`: a recorded
successful conversion `pop` from `w0` means that `w` *is* the model's post-state of `pop` from `w0`, and
`w0` satisfies the registry invariant. -/
theorem c04_roundtrip_monitor (env : Env) (cfg : Cfg) (w : World TState) (op : Op)
    (ans : List Ans) (hon cl : Bool) (lk : List (Addr × Denom × String × String))
    (prev : Option (DOp × Bool × Resp × World TState × Bool))
    (hprev : ∀ pop w0 h0, prev = some (.k pop, true, .converted, w0, h0) →
      RegInv w0.st.reg ∧ step env (honest cfg) w0 pop = .ok (w, .converted)) :
    c04_roundtrip { env := env, cfg := cfg, pre := w, op := .k op, ok := isOk (step env (honest cfg) w op),
                    resp := respOf (step env (honest cfg) w op), post := exec env (honest cfg) w op,
                    answers := ans, honest := hon, lookups := lk, clean := cl, prev := prev } = true := by
  rcases prev with _ | ⟨dop, ok0, r0, w0, h0⟩
  · simp [c04_roundtrip]
  cases dop with
  | k pop =>
    cases ok0 with
    | false => simp [c04_roundtrip]
    | true =>
      cases r0 with
      | none => simp [c04_roundtrip]
      | deleted => simp [c04_roundtrip]
      | converted =>
        cases h0 with
        | false => simp [c04_roundtrip]
        | true =>
          obtain ⟨hI, h1⟩ := hprev pop w0 true rfl
          cases h : step env (honest cfg) w op with
          | error e => simp [c04_roundtrip, isOk, respOf]
          | ok x =>
            obtain ⟨w2, r⟩ := x
            rw [exec_of_ok h]
            cases r with
            | none => simp [c04_roundtrip, isOk, respOf]
            | deleted => simp [c04_roundtrip, isOk, respOf]
            | converted =>
              cases pop with
              | convertCoin m1 =>
                cases op with
                | convertERC20 m2 =>
                  simp only [c04_roundtrip, isOk, respOf]
                  cases hon
                  · simp
                  have e : (Resp.converted == Resp.converted) = true := by decide
                  simp only [e, Bool.and_self, Bool.not_true, Bool.false_eq_true, if_false]
                  apply imp_bool
                  intro hb
                  simp only [Bool.and_eq_true, beq_iff_eq] at hb
                  obtain ⟨⟨⟨⟨⟨hpair, _⟩, _⟩, hamt⟩, hs⟩, hr⟩ := hb
                  obtain ⟨g1, g2, g3, _⟩ := roundtrip_coin_token_coin hI h1 h hpair.symm hamt.symm hs.symm hr.symm
                  rw [sameBank_of g1 g2, sameTok_of g3]
                  rfl
                | _ => simp [c04_roundtrip, isOk, respOf]
              | convertERC20 m1 =>
                cases op with
                | convertCoin m2 =>
                  simp only [c04_roundtrip, isOk, respOf]
                  cases hon
                  · simp
                  have e : (Resp.converted == Resp.converted) = true := by decide
                  simp only [e, Bool.and_self, Bool.not_true, Bool.false_eq_true, if_false]
                  apply imp_bool
                  intro hb
                  simp only [Bool.and_eq_true, beq_iff_eq] at hb
                  obtain ⟨⟨⟨⟨⟨hpair, _⟩, _⟩, hamt⟩, hs⟩, hr⟩ := hb
                  obtain ⟨g1, g2, g3, _⟩ := roundtrip_token_coin_token hI h1 h hpair.symm hamt.symm hs.symm hr.symm
                  rw [sameBank_of g1 g2, sameTok_of g3]
                  rfl
                | _ => simp [c04_roundtrip, isOk, respOf]
              | _ => simp [c04_roundtrip, isOk, respOf]
  | _ => simp [c04_roundtrip]

/-! ## the finding behind `CodeLookupOk`, and non-vacuity -/

/-- the honest token, except that the account lookup is answered with an *error status* next to
"there is code" -/
def badCode (cfg : Cfg) : Oracle TState
  | .code _, t => ({ status := .err, ret := some 1, logs := [] }, t)
  | call, t => honest cfg call t

def c04mW2 : World TState :=
  exec exEnv (honest exCfg) (exec exEnv (honest exCfg) exWorld (.registerCoin true "acoin" "d1")) (.registerERC20 true "t0" true)
def c04mCC : Op := .convertCoin { denom := ⟨"acoin", "-"⟩, amount := 3, receiver := ⟨true, "u1"⟩, sender := ⟨.lower, "u0"⟩ }
def c04mCCback : Op := .convertERC20 { contract := ⟨true, "k0"⟩, amount := 3, receiver := ⟨.lower, "u0"⟩, sender := ⟨true, "u1"⟩ }
def c04mCE : Op := .convertERC20 { contract := ⟨true, "t0"⟩, amount := 4, receiver := ⟨.lower, "u1"⟩, sender := ⟨true, "u0"⟩ }
def c04mCEback : Op :=
  .convertCoin { denom := ⟨"erc20/0x746f6b656e305F5f5F5f5f5F5f5F5F5F5f5F5F5f", "-"⟩, amount := 4, receiver := ⟨true, "u0"⟩, sender := ⟨.lower, "u1"⟩ }

/-- **the model accepts a conversion whose account lookup "failed"**: `internal_failure_rejects` is
false on this transition of the model — the model (like `GetAccountWithoutBalance`, which returns no
error) never looks at the status of that answer.  Hence the hypothesis `CodeLookupOk`. -/
example :
    (let t := logTr exEnv exCfg (badCode exCfg) c04mW2 c04mCC true true [] none
     t.ok && t.resp == .converted && t.answers.length == 4 && !c04_internalFailureRejects t) = true := by
  decide +kernel

/-- the honest token satisfies `CodeLookupOk` -/
theorem honest_codeLookupOk (cfg : Cfg) : CodeLookupOk (honest cfg) := fun _ _ => rfl

/-- non-vacuity of the seven statements: on the example world both kinds of pair convert successfully in
both directions (`ok`, response `converted`, four recorded answers), so none of the monitors is true
by its `!(ok && converted)` escape; and they evaluate to `true` -/
example :
    ([c04mCC, c04mCE].all fun op =>
      let t := logTr exEnv exCfg (honest exCfg) c04mW2 op true true [] none
      let t' : Tr := { env := exEnv, cfg := exCfg, pre := c04mW2, op := .k op, ok := isOk (step exEnv (honest exCfg) c04mW2 op),
                       resp := respOf (step exEnv (honest exCfg) c04mW2 op), post := exec exEnv (honest exCfg) c04mW2 op,
                       answers := [], honest := true, lookups := [], clean := true, prev := none }
      t.ok && t.resp == .converted && t.answers.length == 4 && t'.ok && t'.resp == .converted &&
      sameState t.post.st t'.post.st && sameTok t.post.evm t'.post.evm &&
      c04_successExactReported t && c04_noApproval t && c04_transferTrue t && c04_internalFailureRejects t &&
      c04_successExactBank t' && c04_successExactToken t') = true := by
  decide +kernel

theorem step_eq_of_isOk {env : Env} {O : Oracle σ} {w : World σ} {op : Op} {r : Resp}
    (h1 : isOk (step env O w op) = true) (h2 : respOf (step env O w op) = r) :
    step env O w op = .ok (exec env O w op, r) := by
  cases h : step env O w op with
  | error e => rw [h] at h1; cases h1
  | ok x =>
    obtain ⟨w', r'⟩ := x
    rw [h] at h2
    rw [exec_of_ok h]
    simp only [respOf] at h2
    rw [h2]

theorem c04mW2_regInv : RegInv c04mW2.st.reg := by
  refine registry_step exEnv _ _ _ exEnvOK (registry_step exEnv _ exWorld _ exEnvOK regInv_empty ?_) trivial
  intro a _; rfl

/-- the hypothesis `hprev` of `c04_roundtrip_monitor` is satisfiable, for both kinds of pair: the previous
transition is a successful conversion of the model from a state satisfying the registry invariant -/
example : ∀ x ∈ [(c04mCC, c04mCCback), (c04mCE, c04mCEback)],
    RegInv c04mW2.st.reg ∧
    step exEnv (honest exCfg) c04mW2 x.1 = .ok (exec exEnv (honest exCfg) c04mW2 x.1, .converted) := by
  intro x hx
  refine ⟨c04mW2_regInv, step_eq_of_isOk ?_ ?_⟩ <;>
    simp only [List.mem_cons, List.not_mem_nil, or_false] at hx <;>
    rcases hx with rfl | rfl <;> decide +kernel

/-- … and on these round trips the monitor's `back` condition holds and the second conversion succeeds,
so `c04_roundtrip` really compares the two ledgers with the original ones -/
example :
    ([(c04mCC, c04mCCback), (c04mCE, c04mCEback)].all fun x =>
      let w1 := exec exEnv (honest exCfg) c04mW2 x.1
      let t : Tr := { env := exEnv, cfg := exCfg, pre := w1, op := .k x.2, ok := isOk (step exEnv (honest exCfg) w1 x.2),
                      resp := respOf (step exEnv (honest exCfg) w1 x.2), post := exec exEnv (honest exCfg) w1 x.2,
                      answers := [], honest := true, lookups := [], clean := true,
                      prev := some (.k x.1, true, .converted, c04mW2, true) }
      t.ok && t.resp == .converted && msgPair c04mW2.st x.1 == msgPair w1.st x.2 && (msgPair c04mW2.st x.1).isSome &&
      c04_roundtrip t && sameBank c04mW2.st t.post.st && sameTok c04mW2.evm t.post.evm &&
      !sameBank c04mW2.st w1.st) = true := by
  decide +kernel

end C04M
end Erc20
end CV
