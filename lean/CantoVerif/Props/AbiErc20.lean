import CantoVerif.Props.AbiRoundTrip
/-!
# Which `Transfer` event data "does not unpack" (erc20 EVM hook), exactly.

The hook of `x/erc20/keeper/evm_hooks.go` skips a `Transfer` log whose data does not unpack as one `uint256`
(`erc20.Unpack("Transfer", log.Data)`); the model's `Log.amount : Option Nat` is that verdict, and the driver demands that
`Abi.decodeTuple [uint256]` on the raw data agree with the real decoder (component `abi`).  Here the verdict of the model of the
ABI is characterised for ALL byte strings: the data unpacks iff it is at least one word long, and the amount is the big-endian
value of the FIRST word; trailing bytes — aligned or not — are ignored.
-/
namespace CV
namespace Abi

def transferTys : List Ty := [.uint256]

theorem decodeTuple_transfer (data : Bytes) :
    decodeTuple transferTys data = if 32 ≤ data.length then some [.uint (ofBe (data.take 32))] else none := by
  simp only [decodeTuple, transferTys, decoders, isDynamic, headSize, decSeq, decode, word,
    List.drop_zero, Nat.zero_add]
  by_cases h : 32 ≤ data.length
  · simp only [h, if_true]
  · simp only [h, if_false]

/-- the data of a `Transfer` log does not unpack iff it is shorter than one word -/
theorem transfer_malformed_iff (data : Bytes) : decodeTuple transferTys data = none ↔ data.length < 32 := by
  rw [decodeTuple_transfer]
  by_cases h : 32 ≤ data.length
  · simp only [h, if_true]; constructor
    · intro h'; cases h'
    · intro h'; omega
  · simp only [h, if_false, true_iff]; omega

/-- otherwise the amount is the big-endian value of the first word, whatever follows -/
theorem transfer_decodes (data : Bytes) (h : 32 ≤ data.length) :
    decodeTuple transferTys data = some [.uint (ofBe (data.take 32))] := by
  rw [decodeTuple_transfer]; simp only [h, if_true]

theorem transfer_trailing_ignored (w rest : Bytes) (hw : w.length = 32) :
    decodeTuple transferTys (w ++ rest) = some [.uint (ofBe w)] := by
  rw [transfer_decodes _ (by simp [hw])]
  simp [← hw]

/-- what the honest token emits decodes to the amount -/
theorem transfer_roundtrip (amt : Nat) (h : amt < 2 ^ 256) :
    decodeTuple transferTys (encodeTuple [(.uint256, .uint amt)]) = some [.uint amt] := by
  have e : encodeTuple [(Ty.uint256, Val.uint amt)] = be32 amt ++ [] := by
    simp [encodeTuple, assemble, heads, tails, headLen, encode, isDynamic]
  rw [e, transfer_trailing_ignored _ _ (be32_length amt), ofBe_be32 (by simpa [two256] using h)]

-- the lengths the generator produces: empty, 31 bytes (refused); 32, 40, 63, 64 bytes (accepted, first word)
example : decodeTuple transferTys [] = none := by decide
example : decodeTuple transferTys (List.replicate 31 1) = none := by decide
example : (decodeTuple transferTys (List.replicate 31 0 ++ [7] ++ List.replicate 8 9)).isSome = true := by decide

end Abi
end CV
