import CantoVerif.Spec.Onboarding
import CantoVerif.Proofs.OnboardingEffects
/-!
# C11 — onboarding never loses or touches funds beyond the transferred amount.

All statements are about `Onboarding.recv` / `Onboarding.step` (the model of
`IBCMiddleware.OnRecvPacket` → `Keeper.OnRecvPacket` under ibc core's receive discipline), for
**every** state, parameter setting, pool (absent, shallow, deep), whitelist, registry, packet,
transferred amount, prior balance and every answer of the conversion oracle (success, failure
after 0, 1, 2, … inner effects, deleted pair), and they are lifted to every sequence of
operations.  `s` is always the state *before the underlying transfer credited the recipient*.

Hypotheses used, and why they are harmless:
* `hM : erc20Mod ∈ s.macc` — the erc20 module account exists as a module account (it does from
  genesis on; preserved by every operation: `moduleInv_step`).
* `hsrc : Credit.src p.credit ≠ receiver` — the recipient is not the account the credit itself is
  paid from (the transfer module account / the channel escrow account), otherwise "balance before
  the transfer plus the transferred amount" is not what the recipient holds after the credit.
-/
namespace CV
namespace Onboarding
open Spec
open Coinswap (lookupD)

/-! ## distinctness facts that follow from the guards and from the pricing step -/

theorem rcpt_ne_erc20 {env : Env} {s : State} {p : Packet} {b : Bank}
    (hM : s.macc.contains env.erc20Mod = true) (hg : GuardsOK (credited s p b) p) :
    p.receiver.bytes ≠ env.erc20Mod := by
  intro e
  have h1 := hg.2.2.2.2
  rw [credited_macc, e, creditMacc_mono hM] at h1
  cases h1

theorem swap_distinct {env : Env} {s : State} {p : Packet} {b : Bank} {sold bought : Nat} {esc : Addr}
    (ht : Coinswap.trade env.cs (credited s p b).cs p.denom p.amount s.cs.std s.ob.threshold true = .ok (sold, bought, esc))
    (hlt : b.get p.receiver.bytes s.cs.std < s.ob.threshold) :
    esc ≠ p.receiver.bytes ∧ s.cs.std ≠ p.denom ∧ s.ob.threshold < b.get esc s.cs.std ∧ 0 < sold ∧ sold ≤ p.amount := by
  obtain ⟨_, hne, hres, hle, hpos, _⟩ := trade_buy_facts ht
  rw [credited_get] at hres
  refine ⟨?_, hne, hres, hpos, hle⟩
  intro e; rw [e] at hres; omega

theorem unescrowed_rcpt {p : Packet} (hsrc : Credit.src p.credit ≠ p.receiver.bytes) (d : Denom) :
    unescrowed p p.receiver.bytes d = 0 := by
  unfold unescrowed
  cases hc : p.credit with
  | mint m => rfl
  | unescrow e =>
    have : p.receiver.bytes ≠ e := by rw [hc] at hsrc; exact fun h => hsrc h.symm
    simp [this]

/-! ## conservation -/

/-- **Conservation.**  For a packet whose effects are kept: what the recipient holds of the
transferred coin afterwards, plus what was swapped, plus what was converted, is what the recipient
held *before the transfer* plus the transferred amount — exactly. -/
theorem conservation {env : Env} {s s' : State} {p : Packet} {resp : Resp}
    (h : recv env s p = .ok (s', resp)) (hu : p.underOk = true) (ha : resp.ack = .given)
    (hM : s.macc.contains env.erc20Mod = true) (hsrc : Credit.src p.credit ≠ p.receiver.bytes) :
    s'.cs.bank.get p.receiver.bytes p.denom + resp.swapped + resp.converted =
      s.cs.bank.get p.receiver.bytes p.denom + p.amount := by
  have K := recv_kept h hu ha
  obtain ⟨esc, hf, hsw⟩ := K.flows
  have e := kept_balance hf p.receiver.bytes p.denom
  rw [unescrowed_rcpt hsrc] at e
  have hmod : 0 < resp.converted → p.receiver.bytes ≠ env.erc20Mod := by
    intro hc
    obtain ⟨b, _, hg⟩ := K.guards (Or.inl (by omega))
    exact rcpt_ne_erc20 hM hg
  by_cases h0 : resp.swapped = 0
  · by_cases hc0 : resp.converted = 0
    · simp [h0, hc0] at e ⊢; omega
    · have hm := hmod (by omega)
      simp [h0, hm] at e ⊢; omega
  · obtain ⟨b, bought, _, hlt, _, ht⟩ := hsw (by omega)
    obtain ⟨hre, hvs, _, _, _⟩ := swap_distinct ht hlt
    by_cases hc0 : resp.converted = 0
    · simp [hc0, hre.symm, hvs.symm] at e ⊢; omega
    · have hm := hmod (by omega)
      simp [hm, hre.symm, hvs.symm] at e ⊢; omega

/-- what is swapped and converted never exceeds the transferred amount; what stays with the recipient is the rest -/
theorem left_is_rest {env : Env} {s s' : State} {p : Packet} {resp : Resp}
    (h : recv env s p = .ok (s', resp)) (hu : p.underOk = true) (ha : resp.ack = .given)
    (hM : s.macc.contains env.erc20Mod = true) (hsrc : Credit.src p.credit ≠ p.receiver.bytes) :
    resp.swapped + resp.converted ≤ p.amount ∧
    s'.cs.bank.get p.receiver.bytes p.denom =
      s.cs.bank.get p.receiver.bytes p.denom + (p.amount - resp.swapped - resp.converted) := by
  have c := conservation h hu ha hM hsrc
  have b := (recv_kept h hu ha).bound
  omega

/-- the accounts a packet's ledger statement speaks about are pairwise different -/
structure Distinct (env : Env) (p : Packet) (esc : Addr) : Prop where
  escNotSrc : esc ≠ Credit.src p.credit
  escNotErc20 : esc ≠ env.erc20Mod
  erc20NotSrc : env.erc20Mod ≠ Credit.src p.credit

theorem unescrowed_other {p : Packet} {a : Addr} (h : a ≠ Credit.src p.credit) (d : Denom) : unescrowed p a d = 0 := by
  unfold unescrowed
  cases hc : p.credit with
  | mint m => rfl
  | unescrow e =>
    have : a ≠ e := by rw [hc] at h; exact h
    simp [this]

/-- `esc` is the escrow address of the pool the transferred coin trades on -/
def PoolEscrowOf (env : Env) (s : State) (v : Denom) (esc : Addr) : Prop :=
  ∃ q, s.cs.poolByCounter (Coinswap.counterOf s.cs.std s.cs.std v) = some q ∧ env.cs.reserve q.lpt = .ok esc

/-- **Where it went.**  `resp.swapped` is what the pool's escrow account received (and the pool
paid exactly the threshold for it, to the recipient); `resp.converted` is what the erc20 module
account received; nothing else about these two accounts changed in the transferred denomination. -/
theorem conservation_ledger {env : Env} {s s' : State} {p : Packet} {resp : Resp}
    (h : recv env s p = .ok (s', resp)) (hu : p.underOk = true) (ha : resp.ack = .given)
    (hM : s.macc.contains env.erc20Mod = true) (hsrc : Credit.src p.credit ≠ p.receiver.bytes)
    (hD : ∀ l esc, env.cs.reserve l = .ok esc → Distinct env p esc) (hms : env.erc20Mod ≠ Credit.src p.credit) :
    s'.cs.bank.get env.erc20Mod p.denom =
      s.cs.bank.get env.erc20Mod p.denom + (if env.erc20Mod = p.receiver.bytes then p.amount else resp.converted) ∧
    (0 < resp.swapped → ∃ esc, PoolEscrowOf env s p.denom esc ∧
      s'.cs.bank.get esc p.denom = s.cs.bank.get esc p.denom + resp.swapped ∧
      s'.cs.bank.get esc s.cs.std + s.ob.threshold = s.cs.bank.get esc s.cs.std) := by
  have K := recv_kept h hu ha
  obtain ⟨esc, hf, hsw⟩ := K.flows
  constructor
  · have e := kept_balance hf env.erc20Mod p.denom
    rw [unescrowed_other hms] at e
    by_cases hrm : env.erc20Mod = p.receiver.bytes
    · -- the recipient is the module account itself: the guard stops everything after the credit
      have hz : resp.swapped + resp.converted = 0 := by
        apply Classical.byContradiction
        intro hne
        obtain ⟨b, _, hg⟩ := K.guards (Or.inl (by omega))
        exact rcpt_ne_erc20 hM hg hrm.symm
      have h1 : resp.swapped = 0 := by omega
      have h2 : resp.converted = 0 := by omega
      simp [hrm, h1, h2] at e ⊢; omega
    · by_cases h0 : resp.swapped = 0
      · simp [h0, hrm] at e ⊢; omega
      · obtain ⟨b, bought, _, hlt, _, ht⟩ := hsw (by omega)
        obtain ⟨_, _, _, _, _, q, _, hres⟩ := trade_buy_facts ht
        have hd := hD _ _ hres
        have hvs := (swap_distinct ht hlt).2.1
        simp [hrm, hd.escNotErc20.symm] at e ⊢; omega
  · intro hpos
    obtain ⟨b, bought, _, hlt, _, ht⟩ := hsw hpos
    obtain ⟨_, _, _, _, _, q, hfind, hres⟩ := trade_buy_facts ht
    have hd := hD _ _ hres
    obtain ⟨hre, hvs, _, _, _⟩ := swap_distinct ht hlt
    have hne : resp.swapped ≠ 0 := by omega
    refine ⟨esc, ⟨q, hfind, hres⟩, ?_, ?_⟩
    · have e := kept_balance hf esc p.denom
      rw [unescrowed_other hd.escNotSrc] at e
      simp [hre, hvs.symm, hd.escNotErc20] at e; omega
    · have e := kept_balance hf esc s.cs.std
      rw [unescrowed_other hd.escNotSrc] at e
      simp [hre, hvs, hne] at e; omega

/-! ## prior balances -/

/-- **Prior balances untouched.**  Whatever happens to the packet — kept, dropped, refused —
no balance the recipient held before the transfer is lower afterwards, in any denomination. -/
theorem prior_untouched {env : Env} {s s' : State} {p : Packet} {resp : Resp}
    (h : recv env s p = .ok (s', resp))
    (hM : s.macc.contains env.erc20Mod = true) (hsrc : Credit.src p.credit ≠ p.receiver.bytes) (d : Denom) :
    s.cs.bank.get p.receiver.bytes d ≤ s'.cs.bank.get p.receiver.bytes d := by
  by_cases hk : p.underOk = true ∧ resp.ack = .given
  · obtain ⟨hu, ha⟩ := hk
    have K := recv_kept h hu ha
    obtain ⟨esc, hf, hsw⟩ := K.flows
    have hb := K.bound
    have e := kept_balance hf p.receiver.bytes d
    rw [unescrowed_rcpt hsrc] at e
    -- the conversion leg pays the module account, which the recipient is not
    have hcv : (if p.receiver.bytes = env.erc20Mod ∧ d = p.denom then resp.converted else 0) = 0 := by
      by_cases hc0 : resp.converted = 0
      · simp [hc0]
      · obtain ⟨b, _, hg⟩ := K.guards (Or.inl (by omega))
        simp [rcpt_ne_erc20 hM hg]
    rw [hcv] at e
    by_cases h0 : resp.swapped = 0
    · by_cases hdv : d = p.denom
      · subst hdv
        simp [h0] at e; omega
      · simp [h0, hdv] at e; omega
    · obtain ⟨b, bought, _, hlt, _, ht⟩ := hsw (by omega)
      obtain ⟨hre, hvs, _, _, _⟩ := swap_distinct ht hlt
      by_cases hdv : d = p.denom
      · subst hdv
        simp [hre.symm, hvs.symm] at e; omega
      · simp [hdv, hre.symm] at e; omega
  · have hn : p.underOk = false ∨ resp.ack ≠ .given := by
      by_cases hu : p.underOk = true
      · exact Or.inr (fun ha => hk ⟨hu, ha⟩)
      · exact Or.inl (by simpa using hu)
    rw [(recv_unkept h hn).1]
    exact Nat.le_refl _

/-! ## the automatic swap -/

/-- **A swap happens iff below the threshold (and feasible), and then credits exactly the threshold.**
`0 < resp.swapped` iff the guards let the packet through, the recipient's standard-coin balance
(after the credit) is below the threshold, and the exact-output purchase of `threshold` standard
coin with at most the transferred amount is accepted by the coinswap keeper. -/
theorem swap_iff_below_threshold {env : Env} {s s' : State} {p : Packet} {resp : Resp} {b : Bank}
    (h : recv env s p = .ok (s', resp)) (hu : p.underOk = true) (ha : resp.ack = .given)
    (hb : s.cs.bank.applyAll (creditEffs p) = .ok b) (hsrc : Credit.src p.credit ≠ p.receiver.bytes) :
    (0 < resp.swapped ↔
      GuardsOK (credited s p b) p ∧ b.get p.receiver.bytes s.cs.std < s.ob.threshold ∧
      ∃ sold bought esc, Coinswap.trade env.cs (credited s p b).cs p.denom p.amount s.cs.std s.ob.threshold true =
        .ok (sold, bought, esc)) := by
  constructor
  · intro hpos
    obtain ⟨esc, _, hsw⟩ := (recv_kept h hu ha).flows
    obtain ⟨b', bought, hb', hlt, hg, ht⟩ := hsw hpos
    rw [hb] at hb'; injection hb' with hb'; subst hb'
    exact ⟨hg, hlt, resp.swapped, bought, esc, ht⟩
  · rintro ⟨hg, hlt, sold, bought, esc, ht⟩
    have F := recv_ok h
    cases F with
    | refused hu' _ _ => rw [hu] at hu'; cases hu'
    | dropped _ _ _ _ _ ha' _ => exact absurd ha ha'
    | kept _ b' hb' hrec _ =>
      rw [hb] at hb'; injection hb' with hb'; subst hb'
      obtain ⟨hen, hch, hsf, hrf, hm⟩ := hg
      cases hrec with
      | disabled h0 _ _ => rw [hen] at h0; cases h0
      | channel _ h0 _ _ => rw [hch] at h0; cases h0
      | unparsable _ _ e hp _ _ => rw [parse_of_lower hsf hrf] at hp; cases hp
      | moduleAccount _ _ r hp hm' _ _ =>
        rw [parse_of_lower hsf hrf] at hp; injection hp with hp; subst hp
        rw [hm] at hm'; cases hm'
      | acted _ _ r hp _ s1 swapped hsw h2 =>
        rw [parse_of_lower hsf hrf] at hp; injection hp with hp; subst hp
        obtain ⟨_, hrs, _⟩ := stageTwo_flows h2
        rw [hrs]
        have hlt' : (credited s p b).cs.bank.get p.receiver.bytes (credited s p b).cs.std < (credited s p b).ob.threshold := by
          simpa using hlt
        cases hsw with
        | above hge _ _ => exact absurd hlt' hge
        | refused _ e ht' _ _ =>
          simp only [credited_std, credited_ob] at ht'
          rw [ht] at ht'; cases ht'
        | unpaid _ sold' bought' esc' ht' hpay _ _ =>
          simp only [credited_std, credited_ob] at ht'
          rw [ht] at ht'; injection ht' with ht'; simp only [Prod.mk.injEq] at ht'
          obtain ⟨rfl, _, _⟩ := ht'
          exfalso
          -- after the credit the recipient holds at least the transferred amount
          have c := credit_net p p.receiver.bytes p.denom
          have f := ((flows_of_apply hb) p.receiver.bytes p.denom).1
          rw [unescrowed_rcpt hsrc] at c
          rw [credited_get] at hpay
          have hle := (trade_buy_facts ht).2.2.2.1
          simp at c
          omega
        | swap _ sold' bought' esc' b2 ht' _ _ h0 =>
          have := (trade_buy_facts ht').2.2.2.2.1
          omega

/-- a swap credits the recipient with exactly the threshold of standard coin, costs at most the
transferred amount, and only happens from below the threshold -/
theorem swap_credits_threshold {env : Env} {s s' : State} {p : Packet} {resp : Resp}
    (h : recv env s p = .ok (s', resp)) (hu : p.underOk = true) (ha : resp.ack = .given)
    (hsrc : Credit.src p.credit ≠ p.receiver.bytes) (hpos : 0 < resp.swapped) :
    s'.cs.bank.get p.receiver.bytes s.cs.std = s.cs.bank.get p.receiver.bytes s.cs.std + s.ob.threshold ∧
    s.cs.bank.get p.receiver.bytes s.cs.std < s.ob.threshold ∧ resp.swapped ≤ p.amount := by
  have K := recv_kept h hu ha
  obtain ⟨esc, hf, hsw⟩ := K.flows
  obtain ⟨b, bought, hb, hlt, _, ht⟩ := hsw hpos
  obtain ⟨hre, hvs, _, _, hle⟩ := swap_distinct ht hlt
  have e := kept_balance hf p.receiver.bytes s.cs.std
  rw [unescrowed_rcpt hsrc] at e
  have hne : resp.swapped ≠ 0 := by omega
  simp [hvs, hre.symm, hne] at e
  -- the credit is in another denomination: the balance the threshold was compared with is the prior one
  have c := ((flows_of_apply hb) p.receiver.bytes s.cs.std).1
  have cn := credit_net p p.receiver.bytes s.cs.std
  rw [unescrowed_rcpt hsrc] at cn
  simp [hvs] at cn
  exact ⟨by omega, by omega, hle⟩

/-- **No partial swap** (stage level): the automatic swap either leaves the state it found
(`swapped = 0`: not attempted, refused by the keeper, or unpayable) or makes both bank legs. -/
theorem no_partial_swap {env : Env} {s s1 : State} {r : Addr} {v : Denom} {amt swapped : Nat}
    (h : autoSwap env s r v amt = .ok (s1, swapped)) :
    (swapped = 0 ∧ s1 = s) ∨
    (0 < swapped ∧ ∃ bought esc b, Coinswap.trade env.cs s.cs v amt s.cs.std s.ob.threshold true = .ok (swapped, bought, esc) ∧
      s.cs.bank.applyAll (Coinswap.swapEffs r r esc v swapped s.cs.std s.ob.threshold) = .ok b ∧ s1 = s.withBank b) := by
  have F := autoSwap_ok h
  cases F with
  | above _ hs h0 => exact Or.inl ⟨h0, hs⟩
  | refused _ _ _ hs h0 => exact Or.inl ⟨h0, hs⟩
  | unpaid _ _ _ _ _ _ hs h0 => exact Or.inl ⟨h0, hs⟩
  | swap _ sold bought esc b ht hb hs h0 =>
    subst h0
    exact Or.inr ⟨(trade_buy_facts ht).2.2.2.2.1, bought, esc, b, ht, hb, hs⟩

/-- **No partial swap** (packet level): without a completed swap no account other than the
recipient and the erc20 module account differs from what the credit alone produces — in
particular every pool is exactly as the transfer found it. -/
theorem no_swap_pools_untouched {env : Env} {s s' : State} {p : Packet} {resp : Resp}
    (h : recv env s p = .ok (s', resp)) (hu : p.underOk = true) (ha : resp.ack = .given) (h0 : resp.swapped = 0)
    (a : Addr) (har : a ≠ p.receiver.bytes) (ham : a ≠ env.erc20Mod) (has : a ≠ Credit.src p.credit) (d : Denom) :
    s'.cs.bank.get a d = s.cs.bank.get a d := by
  obtain ⟨esc, hf, _⟩ := (recv_kept h hu ha).flows
  have e := kept_balance hf a d
  rw [unescrowed_other has] at e
  simp [h0, har, ham] at e
  omega

/-! ## the conversion -/

/-- **No partial conversion.**  The token ledger and the registry change only by a *successful*
conversion: then exactly `transferred − swapped` tokens are credited to the recipient on the
pair's contract and (`conservation_ledger`) exactly that amount of voucher moved to the module
account.  In every other case — not called, failed after any number of inner effects, pair
deleted — the token ledger is the one before and `converted = 0`. -/
theorem no_partial_convert {env : Env} {s s' : State} {p : Packet} {resp : Resp}
    (h : recv env s p = .ok (s', resp)) (hu : p.underOk = true) (ha : resp.ack = .given) :
    (resp.converted = 0 ∧ s'.tok = s.tok) ∨
    (0 < resp.converted ∧ resp.converted = p.amount - resp.swapped ∧ p.conv = .ok ∧ s'.pairs = s.pairs ∧
      ∃ pair, lookupD s.pairs p.denom = some pair ∧ pair.enabled = true ∧
        s'.tok = s.tok.set (pair.contract, p.receiver.bytes) (s.tok.get (pair.contract, p.receiver.bytes) + resp.converted)) := by
  have F := recv_ok h
  cases F with
  | refused hu' _ _ => rw [hu] at hu'; cases hu'
  | dropped _ _ _ _ _ ha' _ => exact absurd ha ha'
  | kept _ b hb hrec _ =>
    cases hrec with
    | disabled _ hs hr => subst hs hr; exact Or.inl ⟨rfl, rfl⟩
    | channel _ _ hs hr => subst hs hr; exact Or.inl ⟨rfl, rfl⟩
    | unparsable _ _ _ _ hs hr => subst hs hr; exact Or.inl ⟨rfl, rfl⟩
    | moduleAccount _ _ _ _ _ hs hr => subst hs hr; exact Or.inl ⟨rfl, rfl⟩
    | acted _ _ r hp _ s1 swapped hsw h2 =>
      obtain ⟨hr, _, _⟩ := parse_ok hp
      subst hr
      obtain ⟨_, _, _, _, hpairs, htok, _⟩ := autoSwap_flows hsw
      obtain ⟨_, hrs, _⟩ := stageTwo_flows h2
      rcases stageTwo_tok h2 with ⟨c0, ht, _⟩ | ⟨cpos, ceq, _, hconv, hp2, pair, hl, he, ht⟩
      · exact Or.inl ⟨c0, by rw [ht, htok]; rfl⟩
      · refine Or.inr ⟨cpos, by rw [hrs]; exact ceq, hconv, by rw [hp2, hpairs]; rfl, pair, ?_, he, ?_⟩
        · rw [hpairs] at hl; exact hl
        · rw [ht, htok]; rfl

/-- a conversion that the oracle fails — at whatever point — converts nothing and leaves the token ledger alone -/
theorem convert_failure_no_effect {env : Env} {s s' : State} {p : Packet} {resp : Resp} {k : Nat}
    (h : recv env s p = .ok (s', resp)) (hu : p.underOk = true) (ha : resp.ack = .given) (hfail : p.conv = .fail k) :
    resp.converted = 0 ∧ s'.tok = s.tok := by
  rcases no_partial_convert h hu ha with hz | ⟨_, _, hc, _⟩
  · exact hz
  · rw [hfail] at hc; cases hc

/-! ## guards and acknowledgement -/

/-- **Guards.**  Onboarding disabled, destination channel not whitelisted, or a module-account
recipient: the state is exactly the one the underlying transfer produced, nothing is reported, and
the acknowledgement is passed on. -/
theorem guards {env : Env} {s s' : State} {p : Packet} {resp : Resp}
    (h : recv env s p = .ok (s', resp)) (hu : p.underOk = true)
    (hg : s.ob.enabled = false ∨ s.ob.channels.contains p.dstChannel = false ∨
      (p.sender.form = .lower ∧ p.receiver.form = .lower ∧ (creditMacc s.macc p.credit).contains p.receiver.bytes = true)) :
    ∃ b, s.cs.bank.applyAll (creditEffs p) = .ok b ∧ s' = credited s p b ∧ resp = pass := by
  have F := recv_ok h
  have key : ∀ (b : Bank) (s'' : State), OnRecvFacts env (credited s p b) p s'' resp → s'' = credited s p b ∧ resp = pass := by
    intro b s'' hrec
    cases hrec with
    | disabled _ hs hr => exact ⟨hs, hr⟩
    | channel _ _ hs hr => exact ⟨hs, hr⟩
    | moduleAccount _ _ _ _ _ hs hr => exact ⟨hs, hr⟩
    | unparsable he hc e hp hs hr =>
      exfalso
      rcases hg with h1 | h1 | ⟨hs1, hr1, _⟩
      · rw [credited_ob, h1] at he; cases he
      · rw [credited_ob, h1] at hc; cases hc
      · rw [parse_of_lower hs1 hr1] at hp; cases hp
    | acted he hc r hp hm _ _ _ _ =>
      exfalso
      rcases hg with h1 | h1 | ⟨hs1, hr1, hmm⟩
      · rw [credited_ob, h1] at he; cases he
      · rw [credited_ob, h1] at hc; cases hc
      · rw [parse_of_lower hs1 hr1] at hp; injection hp with hp; subst hp
        rw [credited_macc, hmm] at hm; cases hm
  cases F with
  | refused hu' _ _ => rw [hu] at hu'; cases hu'
  | kept _ b hb hrec _ =>
    obtain ⟨h1, h2⟩ := key b s' hrec
    exact ⟨b, hb, h1, h2⟩
  | dropped _ b hb s'' hrec ha' hs =>
    obtain ⟨_, h2⟩ := key b s'' hrec
    rw [h2] at ha'; simp [pass] at ha'

/-- a packet the underlying application refused: nothing at all happens -/
theorem refused_unchanged {env : Env} {s s' : State} {p : Packet} {resp : Resp}
    (h : recv env s p = .ok (s', resp)) (hu : p.underOk = false) : s' = s ∧ resp = pass := by
  have F := recv_ok h
  cases F with
  | refused _ hs hr => exact ⟨hs, hr⟩
  | kept hu' _ _ _ _ => rw [hu] at hu'; cases hu'
  | dropped hu' _ _ _ _ _ _ => rw [hu] at hu'; cases hu'

/-- **Acknowledgement passed through.**  When both addresses parse, the acknowledgement returned is
the one handed in — whether or not a swap or a conversion was attempted, succeeded or failed. -/
theorem ack_passthrough {env : Env} {s s' : State} {p : Packet} {resp : Resp}
    (h : recv env s p = .ok (s', resp)) (hs : p.sender.form = .lower) (hr : p.receiver.form = .lower) :
    resp.ack = .given := by
  have F := recv_ok h
  have key : ∀ (s0 s'' : State), OnRecvFacts env s0 p s'' resp → resp.ack = .given := by
    intro s0 s'' hrec
    cases hrec with
    | disabled _ _ hr' => rw [hr']; rfl
    | channel _ _ _ hr' => rw [hr']; rfl
    | moduleAccount _ _ _ _ _ _ hr' => rw [hr']; rfl
    | unparsable _ _ e hp _ _ => rw [parse_of_lower hs hr] at hp; cases hp
    | acted _ _ _ _ _ _ _ _ h2 => exact (stageTwo_flows h2).2.2.1
  cases F with
  | refused _ _ hr' => rw [hr']; rfl
  | kept _ b _ hrec _ => exact key _ _ hrec
  | dropped _ b _ s'' hrec _ _ => exact key _ _ hrec

/-- the only other acknowledgement is the error acknowledgement for unparsable addresses, and then the whole
packet — credit included — is undone -/
theorem ack_error_only_unparsable {env : Env} {s s' : State} {p : Packet} {resp : Resp}
    (h : recv env s p = .ok (s', resp)) (ha : resp.ack ≠ .given) :
    resp.ack = .error ∧ s' = s ∧ (p.sender.form ≠ .lower ∨ p.receiver.form ≠ .lower) := by
  have hu := recv_unkept h (Or.inr ha)
  refine ⟨?_, hu.1, ?_⟩
  · cases hk : resp.ack with
    | given => exact absurd hk ha
    | error => rfl
    | other => exact absurd hk hu.2.2.2.2
  · by_cases hs : p.sender.form = .lower
    · by_cases hr : p.receiver.form = .lower
      · exact absurd (ack_passthrough h hs hr) ha
      · exact Or.inr hr
    · exact Or.inl hs

/-! ## histories -/

/-- the erc20 module account is a module account — an invariant of every operation -/
def ModuleInv (env : Env) (s : State) : Prop := s.macc.contains env.erc20Mod = true

theorem recv_macc {env : Env} {s s' : State} {p : Packet} {resp : Resp} (h : recv env s p = .ok (s', resp)) :
    s'.macc = s.macc ∨ s'.macc = creditMacc s.macc p.credit := by
  have F := recv_ok h
  have key : ∀ (s0 s'' : State), OnRecvFacts env s0 p s'' resp → s''.macc = s0.macc := by
    intro s0 s'' hrec
    cases hrec with
    | disabled _ hs _ => rw [hs]
    | channel _ _ hs _ => rw [hs]
    | moduleAccount _ _ _ _ _ hs _ => rw [hs]
    | unparsable _ _ _ _ hs _ => rw [hs]
    | acted _ _ _ _ _ s1 _ hsw h2 =>
      obtain ⟨_, _, _, _, _, _, hm, _⟩ := autoSwap_flows hsw
      obtain ⟨_, _, _, _, _, hm2, _⟩ := stageTwo_flows h2
      rw [hm2, hm]
  cases F with
  | refused _ hs _ => exact Or.inl (by rw [hs])
  | dropped _ _ _ _ _ _ hs => exact Or.inl (by rw [hs])
  | kept _ b _ hrec _ => exact Or.inr (by rw [key _ _ hrec, credited_macc])

theorem moduleInv_step {env : Env} {s s' : State} {op : Op} {resp : Resp} (hI : ModuleInv env s)
    (h : step env s op = .ok (s', resp)) : ModuleInv env s' := by
  unfold ModuleInv at *
  cases op with
  | recv p =>
    rcases recv_macc (show recv env s p = .ok (s', resp) from h) with hm | hm
    · rw [hm]; exact hI
    · rw [hm]; exact creditMacc_mono hI
  | cs o =>
    simp only [step] at h
    obtain ⟨⟨c, _⟩, _, h⟩ := bind_ok h
    injection h with h; simp only [Prod.mk.injEq] at h
    rw [← h.1]; exact hI
  | setParams q =>
    simp only [step] at h
    injection h with h; simp only [Prod.mk.injEq] at h
    rw [← h.1]; exact hI
  | setPair d st =>
    simp only [step] at h
    injection h with h; simp only [Prod.mk.injEq] at h
    rw [← h.1]; exact hI

theorem exec_cases (env : Env) (s : State) (op : Op) :
    exec env s op = s ∨ ∃ r, step env s op = .ok (exec env s op, r) := by
  unfold exec deliver
  cases h : step env s op with
  | error e => left; simp only [h]
  | ok v => right; obtain ⟨s', r⟩ := v; exact ⟨r, by simp only [h]⟩

theorem moduleInv_run {env : Env} (ops : List Op) (s : State) (hI : ModuleInv env s) : ModuleInv env (run env s ops) := by
  apply foldl_inv (exec env) (ModuleInv env) _ ops s hI
  intro s op hI
  rcases exec_cases env s op with heq | ⟨r, hstep⟩
  · rw [heq]; exact hI
  · exact moduleInv_step hI hstep

/-- the per-packet statements, bundled: what C11 says about one received packet -/
structure PacketOK (env : Env) (s : State) (p : Packet) (s' : State) (resp : Resp) : Prop where
  conserved : p.underOk = true → resp.ack = .given → Credit.src p.credit ≠ p.receiver.bytes →
    s'.cs.bank.get p.receiver.bytes p.denom + resp.swapped + resp.converted = s.cs.bank.get p.receiver.bytes p.denom + p.amount
  prior : Credit.src p.credit ≠ p.receiver.bytes → ∀ d, s.cs.bank.get p.receiver.bytes d ≤ s'.cs.bank.get p.receiver.bytes d
  swapExact : p.underOk = true → resp.ack = .given → Credit.src p.credit ≠ p.receiver.bytes → 0 < resp.swapped →
    s'.cs.bank.get p.receiver.bytes s.cs.std = s.cs.bank.get p.receiver.bytes s.cs.std + s.ob.threshold ∧
    s.cs.bank.get p.receiver.bytes s.cs.std < s.ob.threshold
  unkept : (p.underOk = false ∨ resp.ack ≠ .given) → s' = s
  ack : p.sender.form = .lower → p.receiver.form = .lower → resp.ack = .given

theorem packetOK {env : Env} {s s' : State} {p : Packet} {resp : Resp} (hI : ModuleInv env s)
    (h : recv env s p = .ok (s', resp)) : PacketOK env s p s' resp :=
  { conserved := fun hu ha hsrc => conservation h hu ha hI hsrc
    prior := fun hsrc d => prior_untouched h hI hsrc d
    swapExact := fun hu ha hsrc hpos => ⟨(swap_credits_threshold h hu ha hsrc hpos).1, (swap_credits_threshold h hu ha hsrc hpos).2.1⟩
    unkept := fun hn => (recv_unkept h hn).1
    ack := fun hs hr => ack_passthrough h hs hr }

/-- every packet received along a history satisfies `P` -/
def AlongHistory (env : Env) (P : State → Packet → State → Resp → Prop) : State → List Op → Prop
  | _, [] => True
  | s, op :: ops =>
    (∀ p s' r, op = .recv p → step env s op = .ok (s', r) → P s p s' r) ∧ AlongHistory env P (exec env s op) ops

/-- **C11 along every history.**  Starting from any state in which the erc20 module account
exists, after any sequence of operations (packets to any recipients, coinswap messages, bank
transfers, parameter and registry changes, accepted or rejected), every received packet satisfies
the per-packet statements — with the balances of the moment just before *its* transfer. -/
theorem history {env : Env} (ops : List Op) : ∀ s : State, ModuleInv env s → AlongHistory env (PacketOK env) s ops := by
  induction ops with
  | nil => intro s _; trivial
  | cons op ops ih =>
    intro s hI
    refine ⟨?_, ?_⟩
    · intro p s' r hop hstep
      subst hop
      exact packetOK hI hstep
    · apply ih
      rcases exec_cases env s op with heq | ⟨r, hstep⟩
      · rw [heq]; exact hI
      · exact moduleInv_step hI hstep

/-! ### sequences of transfers to one recipient -/

/-- run a list of packets; totals of (kept transferred amounts, swapped, converted) -/
def totals (env : Env) : State → List Packet → State × Nat × Nat × Nat
  | s, [] => (s, 0, 0, 0)
  | s, p :: ps =>
    match recv env s p with
    | .ok (s', resp) =>
      let t := totals env s' ps
      (t.1, t.2.1 + (if p.underOk = true ∧ resp.ack = .given then p.amount else 0), t.2.2.1 + resp.swapped, t.2.2.2 + resp.converted)
    | .error _ => totals env s ps

/-- **Conservation over a sequence of transfers to the same recipient** (any amounts, any
interleaving of refused / dropped / aborted packets, any oracle answers): the recipient's final
voucher balance plus everything swapped plus everything converted equals the initial balance plus
everything transferred. -/
theorem conservation_sequence {env : Env} (r : Addr) (v : Denom) (ps : List Packet) :
    ∀ s : State, ModuleInv env s →
    (∀ p ∈ ps, p.receiver.bytes = r ∧ p.denom = v ∧ Credit.src p.credit ≠ r) →
    (totals env s ps).1.cs.bank.get r v + (totals env s ps).2.2.1 + (totals env s ps).2.2.2 =
      s.cs.bank.get r v + (totals env s ps).2.1 := by
  induction ps with
  | nil => intro s _ _; simp [totals]
  | cons p ps ih =>
    intro s hI hall
    have hp := hall p (List.mem_cons_self ..)
    have hrest : ∀ q ∈ ps, q.receiver.bytes = r ∧ q.denom = v ∧ Credit.src q.credit ≠ r :=
      fun q hq => hall q (List.mem_cons_of_mem _ hq)
    simp only [totals]
    cases hrec : recv env s p with
    | error e => simp only; exact ih s hI hrest
    | ok val =>
      obtain ⟨s', resp⟩ := val
      simp only
      have hI' : ModuleInv env s' := moduleInv_step (op := .recv p) hI hrec
      have IH := ih s' hI' hrest
      obtain ⟨hr, hv, hsrc⟩ := hp
      by_cases hk : p.underOk = true ∧ resp.ack = .given
      · have c := conservation hrec hk.1 hk.2 hI (by rw [hr]; exact hsrc)
        rw [hr, hv] at c
        simp only [hk, and_self, if_true]
        omega
      · have hn : p.underOk = false ∨ resp.ack ≠ .given := by
          by_cases hu : p.underOk = true
          · exact Or.inr (fun ha => hk ⟨hu, ha⟩)
          · exact Or.inl (by simpa using hu)
        obtain ⟨hs, h1, h2, _⟩ := recv_unkept hrec hn
        subst hs
        simp only [hk, if_false]
        omega

/-- after a successful automatic swap the next transfer to the same recipient does not swap again,
as long as the parameters are the same and the recipient did not spend in between -/
theorem second_transfer_no_swap {env : Env} {s s1 s2 : State} {p1 p2 : Packet} {r1 r2 : Resp}
    (h1 : recv env s p1 = .ok (s1, r1)) (hu1 : p1.underOk = true) (ha1 : r1.ack = .given) (hpos : 0 < r1.swapped)
    (hsrc1 : Credit.src p1.credit ≠ p1.receiver.bytes)
    (h2 : recv env s1 p2 = .ok (s2, r2)) (hsame : p2.receiver.bytes = p1.receiver.bytes)
    (hsrc2 : Credit.src p2.credit ≠ p2.receiver.bytes) : r2.swapped = 0 := by
  apply Classical.byContradiction
  intro hne
  have hpos2 : 0 < r2.swapped := Nat.pos_of_ne_zero hne
  have K1 := recv_kept h1 hu1 ha1
  have e1 := (swap_credits_threshold h1 hu1 ha1 hsrc1 hpos).1
  have hk2 : p2.underOk = true ∧ r2.ack = .given := by
    apply Classical.byContradiction
    intro hk
    have hn : p2.underOk = false ∨ r2.ack ≠ .given := by
      by_cases hu : p2.underOk = true
      · exact Or.inr (fun ha => hk ⟨hu, ha⟩)
      · exact Or.inl (by simpa using hu)
    have := (recv_unkept h2 hn).2.1
    omega
  have e2 := (swap_credits_threshold h2 hk2.1 hk2.2 hsrc2 hpos2).2.1
  rw [K1.std, K1.ob, hsame] at e2
  omega

/-! ## the monitors evaluated on implementation transitions hold of every model transition -/

theorem ack_monitor {env : Env} {s s' : State} {p : Packet} {resp : Resp} (h : recv env s p = .ok (s', resp)) :
    c11_ack_passthrough { env := env, pre := s, op := .recv p, ok := true, resp := resp, post := s' } = true := by
  unfold c11_ack_passthrough
  simp only [Bool.not_true, Bool.false_or, Bool.and_eq_true, bne_iff_ne, ne_eq, Bool.or_eq_true, Bool.not_eq_true',
    beq_iff_eq]
  constructor
  · by_cases ha : resp.ack = .given
    · rw [ha]; simp
    · exact (recv_unkept h (Or.inr ha)).2.2.2.2
  · by_cases hp : parsable p = true
    · right
      unfold parsable at hp
      simp only [Bool.and_eq_true, beq_iff_eq] at hp
      exact ack_passthrough h hp.1 hp.2
    · left; simpa using hp

theorem conservation_monitor {env : Env} {s s' : State} {p : Packet} {resp : Resp}
    (hM : ModuleInv env s) (h : recv env s p = .ok (s', resp))
    (hD : ∀ l esc, env.cs.reserve l = .ok esc → Distinct env p esc) (hms : env.erc20Mod ≠ Credit.src p.credit)
    (hWF : ∀ q, s.cs.poolByCounter p.denom = some q → env.cs.reserve q.lpt = .ok q.escrow) :
    c11_conservation { env := env, pre := s, op := .recv p, ok := true, resp := resp, post := s' } = true := by
  unfold c11_conservation
  simp only [Bool.or_eq_true, Bool.not_eq_true', beq_iff_eq]
  by_cases hk : p.underOk = true ∧ resp.ack = .given
  · by_cases hdeg : degenerate p = true
    · exact Or.inl (Or.inr hdeg)
    · right
      have hsrc : Credit.src p.credit ≠ p.receiver.bytes := by
        intro e; apply hdeg; unfold degenerate; simp [e]
      have c := conservation h hk.1 hk.2 hM hsrc
      have K := recv_kept h hk.1 hk.2
      obtain ⟨esc, hf, hsw⟩ := K.flows
      -- the two ledger quantities of the monitor are the model's `swapped` and `converted`
      have hconv : convertedIn { env := env, pre := s, op := .recv p, ok := true, resp := resp, post := s' } p = resp.converted := by
        unfold convertedIn gain
        by_cases hrm : env.erc20Mod = p.receiver.bytes
        · have hz : resp.swapped + resp.converted = 0 := by
            apply Classical.byContradiction
            intro hne
            obtain ⟨b, _, hg⟩ := K.guards (Or.inl (by omega))
            exact rcpt_ne_erc20 hM hg hrm.symm
          simp [hrm]; omega
        · have l := (conservation_ledger h hk.1 hk.2 hM hsrc hD hms).1
          simp only [hrm, if_false] at l
          simp [hrm]; omega
      have hswap : swappedIn { env := env, pre := s, op := .recv p, ok := true, resp := resp, post := s' } p = resp.swapped := by
        unfold swappedIn poolEscrow gain
        by_cases h0 : resp.swapped = 0
        · cases hq : s.cs.poolByCounter p.denom with
          | none => simp [h0]
          | some q =>
            simp only [Option.map_some]
            by_cases hqr : q.escrow = p.receiver.bytes
            · simp [hqr, h0]
            · have hres := hWF q hq
              have hd := hD _ _ hres
              have e := no_swap_pools_untouched h hk.1 hk.2 h0 q.escrow hqr hd.escNotErc20 hd.escNotSrc p.denom
              simp [hqr, h0, e]
        · obtain ⟨b, bought, _, hlt, _, ht⟩ := hsw (by omega)
          obtain ⟨_, hvs, _, _, _, q, hfind, hres⟩ := trade_buy_facts ht
          obtain ⟨hre, _, _, _, _⟩ := swap_distinct ht hlt
          -- the pool found by the pricing step is the pool of the transferred coin
          have hco : Coinswap.counterOf s.cs.std s.cs.std p.denom = p.denom := by simp [Coinswap.counterOf]
          have hfind' : s.cs.poolByCounter p.denom = some q := by
            have : (credited s p b).cs.poolByCounter (Coinswap.counterOf (credited s p b).cs.std s.cs.std p.denom) = some q := hfind
            rw [credited_std, hco] at this
            exact this
          have hesc : q.escrow = esc := by
            have := hWF q hfind'
            rw [hres] at this; injection this with this; exact this.symm
          obtain ⟨_, hsw2⟩ := conservation_ledger h hk.1 hk.2 hM hsrc hD hms
          obtain ⟨esc', ⟨q', hf', hr'⟩, hg1, _⟩ := hsw2 (by omega)
          have hq' : q' = q := by
            rw [hco, hfind'] at hf'; injection hf' with hf'; exact hf'.symm
          subst hq'
          have hesc' : esc' = esc := by
            rw [hres] at hr'; injection hr' with hr'; exact hr'.symm
          subst hesc'
          simp only [hfind', Option.map_some, hesc]
          have : (esc' == p.receiver.bytes) = false := by simpa using hre
          simp only [this, Bool.false_eq_true, if_false]
          omega
      rw [hconv, hswap]
      exact c
  · left; left
    unfold kept
    simp only [Bool.and_eq_false_imp, Bool.true_and, beq_eq_false_iff_ne, ne_eq]
    intro hu ha
    exact hk ⟨hu, ha⟩

theorem amap_eqv_refl {K : Type} [DecidableEq K] (m : AMap K) : m.eqv m = true := by
  unfold AMap.eqv
  simp

theorem sameState_refl (s : State) : sameState s s = true := by
  unfold sameState sameBank sameTok sameList
  simp [amap_eqv_refl]

theorem unkept_monitor {env : Env} {s s' : State} {p : Packet} {resp : Resp} (h : recv env s p = .ok (s', resp)) :
    c11_unkept_unchanged { env := env, pre := s, op := .recv p, ok := true, resp := resp, post := s' } = true := by
  unfold c11_unkept_unchanged
  simp only [Bool.or_eq_true]
  by_cases hk : p.underOk = true ∧ resp.ack = .given
  · left; unfold kept; simp [hk.1, hk.2]
  · right
    have hn : p.underOk = false ∨ resp.ack ≠ .given := by
      by_cases hu : p.underOk = true
      · exact Or.inr (fun ha => hk ⟨hu, ha⟩)
      · exact Or.inl (by simpa using hu)
    rw [(recv_unkept h hn).1]
    exact sameState_refl s

theorem prior_monitor {env : Env} {s s' : State} {p : Packet} {resp : Resp} (hM : ModuleInv env s)
    (h : recv env s p = .ok (s', resp)) :
    c11_prior_untouched { env := env, pre := s, op := .recv p, ok := true, resp := resp, post := s' } = true := by
  unfold c11_prior_untouched
  simp only [Bool.not_true, Bool.false_or, Bool.or_eq_true, List.all_eq_true, bne_iff_ne, ne_eq, decide_eq_true_eq]
  by_cases hdeg : degenerate p = true
  · exact Or.inl hdeg
  · right
    have hsrc : Credit.src p.credit ≠ p.receiver.bytes := by
      intro e; apply hdeg; unfold degenerate; simp [e]
    intro k _
    by_cases hk : k.1 = p.receiver.bytes
    · right; rw [hk]; exact prior_untouched h hM hsrc k.2
    · left; exact hk

/-! ## non-vacuity: concrete states meet the hypotheses and every branch really happens -/

def exEnv : Env :=
  { cs := { modAddr := "m.coinswap", feeCollector := "m.fee_collector", blockedCs := ["m.coinswap"], blockedBank := ["m.coinswap"],
            reserveAddr := [("lpt-1", "e.lpt-1")] },
    erc20Mod := "m.erc20" }

/-- a pool `(X, Y) = (1000 stake, 500 ibc/V)` with fee 0.003, threshold 40, recipient `u1` holds 7 stake and 3 ibc/V -/
def exState : State :=
  { cs := { bank := { bal := ⟨[(("e.lpt-1", "stake"), 1000), (("e.lpt-1", "ibc/V"), 500), (("u1", "stake"), 7), (("u1", "ibc/V"), 3)]⟩,
                      sup := ⟨[("lpt-1", 1000), ("stake", 1007), ("ibc/V", 503)]⟩, accts := ["e.lpt-1", "u1", "m.erc20"] },
            params := { fee := 3000000000000000, taxRate := 0, feeDenom := "stake", feeAmt := 0, maxStd := 1000000, maxSwap := [("ibc/V", 1000)] },
            std := "stake", pools := [{ counter := "ibc/V", lpt := "lpt-1", escrow := "e.lpt-1" }], seq := 2, nowSec := 100, nowNsec := 0 },
    ob := { enabled := true, threshold := 40, channels := ["channel-0"] },
    macc := ["m.erc20", "m.coinswap"],
    pairs := [("ibc/V", { contract := "c1", enabled := true })],
    tok := AMap.empty }

def exPacket (conv : ConvOutcome) (amt : Nat) : Packet :=
  { dstChannel := "channel-0", sender := ⟨.lower, "cosmos-sender"⟩, receiver := ⟨.lower, "u1"⟩, denom := "ibc/V", amount := amt,
    credit := .mint "m.transfer", underOk := true, conv := conv }

/-- 100 vouchers arrive: 21 are swapped for exactly 40 stake (7 → 47), the other 79 are converted; the
3 vouchers held before are still there -/
example : (match recv exEnv exState (exPacket .ok 100) with
           | .ok (s', r) => r.ack == .given && r.swapped == 21 && r.converted == 79 &&
               s'.cs.bank.get "u1" "stake" == 47 && s'.cs.bank.get "u1" "ibc/V" == 3 &&
               s'.cs.bank.get "e.lpt-1" "ibc/V" == 521 && s'.cs.bank.get "e.lpt-1" "stake" == 960 &&
               s'.cs.bank.get "m.erc20" "ibc/V" == 79 && s'.tok.get ("c1", "u1") == 79
           | .error _ => false) = true := by decide +kernel

/-- the conversion fails after the escrow leg and a mint: the swap stays, the 79 vouchers stay with the recipient -/
example : (match recv exEnv exState (exPacket (.fail 2) 100) with
           | .ok (s', r) => r.ack == .given && r.swapped == 21 && r.converted == 0 &&
               s'.cs.bank.get "u1" "ibc/V" == 82 && s'.cs.bank.get "m.erc20" "ibc/V" == 0 && s'.tok.get ("c1", "u1") == 0
           | .error _ => false) = true := by decide +kernel

/-- 20 vouchers are one too few for the purchase (21 needed): no swap, no partial effect, all 20 converted -/
example : (match recv exEnv exState (exPacket .ok 20) with
           | .ok (s', r) => r.swapped == 0 && r.converted == 20 && s'.cs.bank.get "u1" "stake" == 7 &&
               s'.cs.bank.get "e.lpt-1" "ibc/V" == 500 && s'.cs.bank.get "e.lpt-1" "stake" == 1000
           | .error _ => false) = true := by decide +kernel

/-- an upper-case receiver: error acknowledgement, everything undone (the credit too) -/
example : (match recv exEnv exState { exPacket .ok 100 with receiver := ⟨.upper, "u1"⟩ } with
           | .ok (s', r) => r.ack == .error && s'.cs.bank.get "u1" "ibc/V" == 3 && s'.cs.bank.supply "ibc/V" == 503
           | .error _ => false) = true := by decide +kernel

/-- a module-account recipient: only the credit -/
example : (match recv exEnv exState { exPacket .ok 100 with receiver := ⟨.lower, "m.coinswap"⟩ } with
           | .ok (s', r) => r == pass && s'.cs.bank.get "m.coinswap" "ibc/V" == 100 && s'.cs.bank.get "e.lpt-1" "ibc/V" == 500
           | .error _ => false) = true := by decide +kernel

/-- the hypotheses of the theorems hold of the example -/
example : ModuleInv exEnv exState ∧ Credit.src (exPacket .ok 100).credit ≠ (exPacket .ok 100).receiver.bytes := by
  constructor
  · show exState.macc.contains exEnv.erc20Mod = true
    decide
  · decide

end Onboarding
end CV
