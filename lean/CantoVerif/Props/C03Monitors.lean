import CantoVerif.Props.C03
/-!
# C03 — the three executable monitors of `Spec/Erc20.lean` hold on every transition of the honest world.

`c03_nativeExact`, `c03_nativeGe`, `c03_external` are what the driver evaluates on every transition
observed on the implementation.  Here they are proved of the **model's** transitions, under exactly
the hypotheses of `backing_step` (`Props/C03.lean`): `EnvOK3`, the invariant `Backing` in the pre-state
(for some value of the ghost `destroyed`) and the closed-world side conditions `HOpOK`.

* `DOp.k`, `DOp.tx`, `DOp.dep` — the transition record `htr` is built from `hstep` / `hexec` of
  `Model/Erc20Honest.lean`: `pre := h.w`, `op := dopOf op`, `ok` / `resp :=` outcome of `hstep`,
  `post := (hexec … h op).w`.  Theorems `c03_nativeExact_monitor`, `c03_nativeGe_monitor`,
  `c03_external_monitor`.
* `DOp.txBatch` — the model files have no batch operation; `evmTxBatch` is the driver's prediction
  (`Driver/Erc20.lean`, `runHonest`) written with the model's `holderCall` and `postTx`: all token
  calls first, then one hook run over the whole receipt (`evmTxBatch_single`: a batch of one call is
  `evmTx`).  `backing_batch` extends `backing_hstep` to it (intermediate invariant `PB`: for an
  external pair the tokens on the module address also cover what the logs not yet processed will mint);
  theorems `c03_*_batch_monitor` about the record `btr`.  Hypotheses: `HOpOK` of a holder transaction
  (the holder is neither the module account nor blocked).
* `DOp.sd` — not an operation of the honest world; the transition (record `sdtr`) moves neither coins
  nor tokens: `c03_*_sd_monitor`, from `Backing` in the pre-state alone.

The fields no C03 monitor reads (`answers`, `honest`, `lookups`, `prev`) and `clean` are universally
quantified (`clean = false` makes the monitors trivially true; `clean = true` is the interesting instance).

**Not linked, and not true of the model: `DOp.k (.hook logs)` with `clean = true`.**  `HOpOK` excludes bare
hook invocations (forged receipts), and the driver takes the world out of scope (`clean := false`)
only for the transitions *after* one — the hook transition itself is still evaluated with the
`clean` flag of the world before it.  Counterexample (last `example` of this file; the state of
`external_backing_needs_standard`): `exWorld` after `registerERC20 "t0"`, operation
`.k (.hook [Transfer(emitter t0, u1 → m.erc20, 9)])`: pre-state coin supply 0 ≤ 0 tokens on the module,
post-state coin supply 9 > 0 tokens on the module, so `c03_external = false` on the model's own
transition.  An implementation that agrees with the model is reported as violating
`C03 external_backing` there unless the harness never issues such an operation in a clean world.
-/
namespace CV
namespace Erc20
namespace Token
open KMap Spec

/-- the trace operation an operation of the honest world is observed as -/
def dopOf : HOp → DOp
  | .k op => .k op
  | .evmTx c holder call => .tx c holder call
  | .deploy c deployer supply => .dep c deployer supply

def hOk (env : Env) (cfg : Cfg) (h : HWorld) (op : HOp) : Bool :=
  match hstep env cfg h op with
  | .ok _ => true
  | .error _ => false

def hResp (env : Env) (cfg : Cfg) (h : HWorld) (op : HOp) : Resp :=
  match hstep env cfg h op with
  | .ok (_, r) => r
  | .error _ => .none

/-- the transition of the model, as a `Tr` -/
def htr (env : Env) (cfg : Cfg) (h : HWorld) (op : HOp) (ans : List Ans) (hon cl : Bool)
    (lk : List (Addr × Denom × String × String)) (prev : Option (DOp × Bool × Resp × World TState × Bool)) : Tr :=
  { env := env, cfg := cfg, pre := h.w, op := dopOf op, ok := hOk env cfg h op, resp := hResp env cfg h op,
    post := (hexec env cfg h op).w, answers := ans, honest := hon, lookups := lk, clean := cl, prev := prev }

/-! ## generic part: from the invariant to the monitors -/

theorem mem_modulePairs {r : Registry} (hI : RegInv r) {p : Pair} (h : p ∈ modulePairs r) :
    r.getPair p.id = some p ∧ p.owner = .module := by
  unfold modulePairs at h
  obtain ⟨hm, ho⟩ := List.mem_filter.mp h
  obtain ⟨i, hi⟩ := ((list_eq_reachable hI p).1).mp hm
  exact ⟨hI.getPair_id hi, by simpa using ho⟩

theorem mem_externalPairs {r : Registry} (hI : RegInv r) {p : Pair} (h : p ∈ externalPairs r) :
    r.getPair p.id = some p ∧ p.owner = .external := by
  unfold externalPairs at h
  obtain ⟨hm, ho⟩ := List.mem_filter.mp h
  obtain ⟨i, hi⟩ := ((list_eq_reachable hI p).1).mp hm
  exact ⟨hI.getPair_id hi, by simpa using ho⟩

/-- the part of `Backing` the monitors read (it survives a self-destruct, `Backing` does not) -/
structure Backed (env : Env) (h : HWorld) : Prop where
  reg : RegInv h.w.st.reg
  native : ∀ i p, h.w.st.reg.getPair i = some p → p.owner = .module →
    h.w.st.bank.get env.modAddr p.denom = h.w.evm.supply p.addr + h.destroyed.get p.addr
  external : ∀ i p, h.w.st.reg.getPair i = some p → p.owner = .external →
    h.w.st.bank.supply p.denom ≤ h.w.evm.balOf p.addr env.modAddr

theorem Backing.backed {env : Env} {h : HWorld} (hB : Backing env h) : Backed env h := ⟨hB.reg, hB.native, hB.external⟩

/-- the invariant in the post-state gives `c03_nativeGe` (first disjunct, for every listed pair) -/
theorem nativeGe_of_backing {env : Env} {h' : HWorld} (hB : Backed env h') (t : Tr)
    (he : t.env = env) (hpost : t.post = h'.w) : c03_nativeGe t = true := by
  unfold c03_nativeGe
  rw [Bool.or_eq_true]; right
  rw [List.all_eq_true]
  intro p hp
  rw [hpost] at hp
  obtain ⟨hg, ho⟩ := mem_modulePairs hB.reg hp
  have := hB.native _ p hg ho
  rw [Bool.or_eq_true]; left
  rw [decide_eq_true_eq]
  unfold gap
  rw [he, hpost]
  omega

/-- the invariant in the post-state gives `c03_external` (first disjunct, for every listed pair) -/
theorem external_of_backing {env : Env} {h' : HWorld} (hB : Backed env h') (t : Tr)
    (he : t.env = env) (hpost : t.post = h'.w) : c03_external t = true := by
  unfold c03_external
  rw [Bool.or_eq_true]; right
  rw [List.all_eq_true]
  intro p hp
  rw [hpost] at hp
  obtain ⟨hg, ho⟩ := mem_externalPairs hB.reg hp
  have := hB.external _ p hg ho
  rw [Bool.or_eq_true]; left
  rw [decide_eq_true_eq, he, hpost]
  exact this

/-- a registry change of the model never changes the owner of a pair that stays registered -/
theorem regChange_owner {r r' : Registry} (hI : RegInv r) (c : RegChange r r') {i : PairId} {p p' : Pair}
    (hp : r.getPair i = some p) (hp' : r'.getPair i = some p') : p'.owner = p.owner := by
  cases c with
  | same => rw [hp] at hp'; injection hp' with e; rw [e]
  | insert q hd ha _ _ =>
    rw [getPair_insert] at hp'
    split at hp'
    · rename_i e
      exfalso
      have hid := hI.idOk i p hp
      have : p.denom = q.denom := (id_inj (hid.symm.trans e)).2
      have h1 := (hI.denomIdx p.denom i).mpr ⟨p, hp, rfl⟩
      rw [this, hd] at h1; cases h1
    · rw [hp] at hp'; injection hp' with e; rw [e]
  | toggle q hq =>
    rw [getPair_setPair] at hp'
    split at hp'
    · rename_i e
      have e' : i = q.id := e
      rw [e', hq] at hp
      injection hp with e1; injection hp' with e2
      rw [← e2, ← e1]
    · rw [hp] at hp'; injection hp' with e; rw [e]
  | delete q hq =>
    rw [getPair_delete] at hp'
    split at hp'
    · cases hp'
    · rw [hp] at hp'; injection hp' with e; rw [e]
  | reimport =>
    rw [(reimport_lookups hI).1] at hp'
    rw [hp] at hp'; injection hp' with e; rw [e]

/-- the invariant before and after, owners of surviving pairs unchanged, the ghost of every
chain-deployed contract moved by exactly what the monitor counts as burned ⇒ `c03_nativeExact` -/
theorem nativeExact_of_backing {env : Env} {h h' : HWorld} (hB : Backed env h) (hB' : Backed env h') (t : Tr)
    (he : t.env = env) (hpre : t.pre = h.w) (hpost : t.post = h'.w)
    (hown : ∀ i p p', h.w.st.reg.getPair i = some p → h'.w.st.reg.getPair i = some p' → p'.owner = p.owner)
    (hghost : ∀ p p', h.w.st.reg.getPair p.id = some p → p.owner = .module → h'.w.st.reg.getPair p.id = some p' →
      (h'.destroyed.get p.addr : Int) = h.destroyed.get p.addr + burnedBy t p.addr) :
    c03_nativeExact t = true := by
  unfold c03_nativeExact
  rw [Bool.or_eq_true]; right
  rw [List.all_eq_true]
  intro p hp
  rw [hpre] at hp
  obtain ⟨hg, ho⟩ := mem_modulePairs hB.reg hp
  split
  · rename_i p' hg'
    rw [hpost] at hg'
    have hid := hB'.reg.idOk _ _ hg'
    obtain ⟨ea, ed⟩ := id_inj hid
    have ho' : p'.owner = .module := (hown _ _ _ hg hg').trans ho
    have n0 := hB.native _ p hg ho
    have n1 := hB'.native _ p' hg' ho'
    rw [← ea, ← ed] at n1
    have g := hghost p p' hg ho hg'
    rw [beq_iff_eq]
    unfold gap
    rw [he, hpre, hpost]
    omega
  · rfl

/-! ## the honest world's transitions -/

theorem hexec_cases (env : Env) (cfg : Cfg) (h : HWorld) (op : HOp) :
    (hOk env cfg h op = false ∧ hexec env cfg h op = h) ∨
    (∃ w' r, hstepW env cfg h.w op = .ok (w', r) ∧ hOk env cfg h op = true ∧
      hexec env cfg h op = { w := w', destroyed := ghostAfter env h op w' }) := by
  cases hw : hstepW env cfg h.w op with
  | error e =>
    have hs : hstep env cfg h op = .error e := by unfold hstep; rw [hw]; rfl
    left; unfold hOk hexec deliver; simp only [hs]; exact ⟨trivial, trivial⟩
  | ok x =>
    have hs : hstep env cfg h op = .ok ({ w := x.1, destroyed := ghostAfter env h op x.1 }, x.2) := by
      unfold hstep; rw [hw]; rfl
    right; unfold hOk hexec deliver; simp only [hs]; exact ⟨x.1, x.2, rfl, trivial, rfl⟩

theorem fresh_of_hopOK {env : Env} {h : HWorld} {kop : Op} (hok : HOpOK env h (.k kop)) : Fresh env h.w.st kop := by
  cases kop <;> first | exact hok | trivial

theorem hstepW_regChange {env : Env} {cfg : Cfg} {h : HWorld} {op : HOp} {w' : World TState} {r : Resp}
    (hE : EnvOK env) (hI : RegInv h.w.st.reg) (hok : HOpOK env h op)
    (hs : hstepW env cfg h.w op = .ok (w', r)) : RegChange h.w.st.reg w'.st.reg := by
  cases op with
  | k kop => exact step_regChange hE hI (fresh_of_hopOK hok) hs
  | evmTx c holder call =>
    simp only [hstepW, evmTx] at hs
    split at hs
    · cases hs
    · obtain ⟨hc, _⟩ := postTx_core hs
      rw [hc.1]; exact .same
  | deploy c deployer supply =>
    simp only [hstepW] at hs
    split at hs
    · injection hs with hs; simp only [Prod.mk.injEq] at hs; rw [← hs.1]; exact .same
    · cases hs

/-- **`c03_nativeGe` on every transition of the honest world** (hypotheses of `backing_step`). -/
theorem c03_nativeGe_monitor (env : Env) (cfg : Cfg) (h : HWorld) (op : HOp) (hE : EnvOK3 env cfg)
    (hB : Backing env h) (hok : HOpOK env h op) (ans : List Ans) (hon cl : Bool)
    (lk : List (Addr × Denom × String × String)) (prev : Option (DOp × Bool × Resp × World TState × Bool)) :
    c03_nativeGe (htr env cfg h op ans hon cl lk prev) = true :=
  nativeGe_of_backing (backing_step env cfg h op hE hB hok).backed _ rfl rfl

/-- **`c03_external` on every transition of the honest world** (hypotheses of `backing_step`). -/
theorem c03_external_monitor (env : Env) (cfg : Cfg) (h : HWorld) (op : HOp) (hE : EnvOK3 env cfg)
    (hB : Backing env h) (hok : HOpOK env h op) (ans : List Ans) (hon cl : Bool)
    (lk : List (Addr × Denom × String × String)) (prev : Option (DOp × Bool × Resp × World TState × Bool)) :
    c03_external (htr env cfg h op ans hon cl lk prev) = true :=
  external_of_backing (backing_step env cfg h op hE hB hok).backed _ rfl rfl

theorem burnedBy_not_ok (t : Tr) (c : Addr) (h : t.ok = false) : burnedBy t c = 0 := by
  unfold burnedBy
  split <;> simp [h]

/-- the ghost of a registered contract moves by exactly what `burnedBy` counts -/
theorem ghost_burned {env : Env} {h : HWorld} {op : HOp} (w' : World TState) (hB : Backing env h)
    (hok : HOpOK env h op) (t : Tr) (hop : t.op = dopOf op) (hpre : t.pre = h.w) (htok : t.ok = true)
    {p : Pair} (hp : h.w.st.reg.getPair p.id = some p) :
    ((ghostAfter env h op w').get p.addr : Int) = h.destroyed.get p.addr + burnedBy t p.addr := by
  have hidx : get? h.w.st.reg.byAddr p.addr = some p.id := (hB.reg.addrIdx p.addr p.id).mpr ⟨p, hp, rfl⟩
  cases op with
  | k kop =>
    have hb : burnedBy t p.addr = 0 := by unfold burnedBy; rw [hop]; rfl
    rw [hb]
    cases kop with
    | registerCoin auth base dg =>
      simp only [ghostAfter]
      split
      · rename_i addr hc
        have hne : p.addr ≠ addr := by
          intro e
          have := hok addr hc
          rw [← e, hidx] at this; cases this
        rw [AMap.get_set_other _ _ _ _ hne]; omega
      · omega
    | _ => simp only [ghostAfter]; omega
  | evmTx c holder call =>
    cases call with
    | transfer to a =>
      have hb : burnedBy t p.addr = 0 := by unfold burnedBy; rw [hop]; rfl
      rw [hb]; simp only [ghostAfter]; omega
    | approve sp a =>
      have hb : burnedBy t p.addr = 0 := by unfold burnedBy; rw [hop]; rfl
      rw [hb]; simp only [ghostAfter]; omega
    | burn a =>
      have hb : burnedBy t p.addr = if t.ok && c == p.addr && t.pre.evm.hasCode p.addr then (a : Int) else 0 := by
        unfold burnedBy; rw [hop]; rfl
      rw [hb, htok, hpre]
      simp only [ghostAfter]
      by_cases hc : c = p.addr
      · subst hc
        cases hcode : h.w.evm.hasCode p.addr with
        | true => simp
        | false => simp
      · have hc' : p.addr ≠ c := fun e => hc e.symm
        split
        · rw [AMap.get_set_other _ _ _ _ hc']; simp [hc]
        · simp [hc]
  | deploy c deployer supply =>
    have hb : burnedBy t p.addr = 0 := by unfold burnedBy; rw [hop]; rfl
    rw [hb]; simp only [ghostAfter]; omega

/-- **`c03_nativeExact` on every transition of the honest world** (hypotheses of `backing_step`). -/
theorem c03_nativeExact_monitor (env : Env) (cfg : Cfg) (h : HWorld) (op : HOp) (hE : EnvOK3 env cfg)
    (hB : Backing env h) (hok : HOpOK env h op) (ans : List Ans) (hon cl : Bool)
    (lk : List (Addr × Denom × String × String)) (prev : Option (DOp × Bool × Resp × World TState × Bool)) :
    c03_nativeExact (htr env cfg h op ans hon cl lk prev) = true := by
  have hB' := backing_step env cfg h op hE hB hok
  refine nativeExact_of_backing hB.backed hB'.backed _ rfl rfl rfl ?_ ?_
  · intro i p p' hp hp'
    rcases hexec_cases env cfg h op with ⟨_, hx⟩ | ⟨w', r, hs, _, hx⟩
    · rw [hx, hp] at hp'; injection hp' with e; rw [e]
    · rw [hx] at hp'
      exact regChange_owner hB.reg (hstepW_regChange hE.base hB.reg hok hs) hp hp'
  · intro p p' hp ho hp'
    rcases hexec_cases env cfg h op with ⟨hk, hx⟩ | ⟨w', r, hs, hk, hx⟩
    · rw [hx, burnedBy_not_ok _ _ hk]; omega
    · rw [hx]
      exact ghost_burned w' hB hok _ rfl rfl hk hp

/-! ## non-vacuity (single operations) -/

def exH0 : HWorld := { w := exWorld, destroyed := AMap.empty }

theorem exH0_backing : Backing exEnv exH0 := by
  refine backing_init exEnv _ rfl ?_
  intro c hc
  replace hc : exWorld.evm.hasCode c = false := hc
  show exWorld.evm.supply c = 0
  simp only [exWorld, TState.supply, TState.hasCode, AMap.get, AMap.getL] at hc ⊢
  split
  · rename_i e; subst e; simp at hc
  · rfl

/-- a coin registered (chain-deployed contract `k0`), an external token registered (`t0`), 6 coins
converted to `k0` tokens for `u1`, 5 `t0` tokens converted to coins -/
def exOps : List HOp :=
  [.k (.registerCoin true "acoin" "d1"), .k (.registerERC20 true "t0" true),
   .k (.convertCoin { denom := ⟨"acoin", "-"⟩, amount := 6, receiver := ⟨true, "u1"⟩, sender := ⟨.lower, "u0"⟩ }),
   .k (.convertERC20 { contract := ⟨true, "t0"⟩, amount := 5, receiver := ⟨.lower, "u0"⟩, sender := ⟨true, "u0"⟩ })]

def exH : HWorld := hrun exEnv exCfg exH0 exOps

theorem exH_backing : Backing exEnv exH := by
  refine backing_history exEnv exCfg exEnvOK3 exOps exH0 exH0_backing ⟨?_, ?_, ?_, ?_, trivial⟩
  · intro a _; rfl
  · intro d hd
    have : d = "erc20/0x746f6b656e305F5f5F5f5f5F5f5F5F5F5f5F5F5f" := by
      simp only [Env.denomOf, exEnv, get?] at hd
      simp at hd; exact hd.symm
    subst this
    decide +kernel
  · show ("u0" : Addr) ≠ "m.erc20"; decide
  · show ("u0" : Addr) ≠ "m.erc20"; decide

/-- the hypotheses of the three theorems hold in a state with one pair of each kind, for a holder's
burn; there the monitors do speak about something: one chain-deployed pair, one external pair, and
`burnedBy` counts the burn -/
example :
    EnvOK3 exEnv exCfg ∧ Backing exEnv exH ∧ HOpOK exEnv exH (.evmTx "k0" "u1" (.burn 2)) ∧
    (let t := htr exEnv exCfg exH (.evmTx "k0" "u1" (.burn 2)) [] true true [] none
     (modulePairs t.pre.st.reg).length == 1 && (externalPairs t.post.st.reg).length == 1 && t.ok &&
     burnedBy t "k0" == 2 && c03_nativeExact t && c03_nativeGe t && c03_external t &&
     t.post.evm.supply "k0" == 4 && t.post.st.bank.get "m.erc20" "acoin" == 6) = true :=
  ⟨exEnvOK3, exH_backing, ⟨by decide, by decide⟩, by decide +kernel⟩

/-! ## batches: one transaction making several token calls (`DOp.txBatch`)

`Model/Erc20Honest.lean` has no batch operation; the driver (`Driver/Erc20.lean`, `runHonest`) predicts
a batch as: every call of the transaction runs first, on the token state the previous call left (a
reverting call reverts the transaction), then `PostTxProcessing` sees the whole receipt.
`evmTxBatch` below is that prediction, literally (the driver's `foldl` over `holderCall`, then the
model's `postTx` against the honest oracle). -/

/-- the driver's `step1`: one more token call of the transaction -/
def batchStep (cfg : Cfg) (c holder : Addr) (acc : Option (TState × List Log)) (call : HolderCall) :
    Option (TState × List Log) :=
  match acc with
  | none => none
  | some (t, logs) =>
    (match holderCall cfg t c holder call with
     | none => none
     | some (t1, l1) => some (t1, logs ++ l1))

def evmTxBatch (env : Env) (cfg : Cfg) (w : World TState) (c holder : Addr) (calls : List HolderCall) :
    R (World TState × Resp) :=
  match calls.foldl (batchStep cfg c holder) (some (w.evm, [])) with
  | none => .error (.evm "execution reverted")
  | some (t1, logs) => postTx env (honest cfg) { w with evm := t1 } logs

def burnAmt : HolderCall → Nat
  | .burn a => a
  | _ => 0

def burnSum : List HolderCall → Nat
  | [] => 0
  | call :: r => burnAmt call + burnSum r

/-- what a log still has to be paid for by tokens on the module address when the hook sees it -/
def pendL (env : Env) (l : Log) : Nat :=
  if l.isTransfer = true ∧ l.to = env.modAddr then l.amount.getD 0 else 0

def pendSum (env : Env) : List Log → Nat
  | [] => 0
  | l :: ls => pendL env l + pendSum env ls

theorem pendSum_append (env : Env) (a b : List Log) : pendSum env (a ++ b) = pendSum env a + pendSum env b := by
  induction a with
  | nil => simp [pendSum]
  | cons l ls ih => simp only [List.cons_append, pendSum, ih]; omega

/-- the invariant inside a transaction on contract `c`: `Backing`, and for an external pair of `c`
the tokens on the module address also cover the `n` coins the receipt's logs will still mint -/
structure PB (env : Env) (h : HWorld) (c : Addr) (n : Nat) : Prop where
  b : Backing env h
  pend : ∀ i q, h.w.st.reg.getPair i = some q → q.owner = .external → q.addr = c →
    h.w.st.bank.supply q.denom + n ≤ h.w.evm.balOf c env.modAddr

theorem PB.weaken {env : Env} {h : HWorld} {c : Addr} {n m : Nat} (hP : PB env h c m) (hle : n ≤ m) : PB env h c n :=
  ⟨hP.b, fun i q hq ho ha => by have := hP.pend i q hq ho ha; omega⟩

theorem PB.of_backing {env : Env} {h : HWorld} {c : Addr} (hB : Backing env h) : PB env h c 0 :=
  ⟨hB, fun i q hq ho ha => by have := hB.external i q hq ho; rw [ha] at this; omega⟩

theorem postTx_no_target {env : Env} {cfg : Cfg} {w : World TState} {logs : List Log}
    (h : ∀ l ∈ logs, hookTarget env w.st l = none) : postTx env (honest cfg) w logs = .ok (w, .none) := by
  unfold postTx
  split
  · rfl
  · rw [hookLogs_no_target logs w h]; rfl

/-- one token call of a holder inside a transaction (the hook has not run yet) -/
theorem call_step {env : Env} {cfg : Cfg} (hE : EnvOK3 env cfg) {st : State} {t t1 : TState} {g : AMap Addr}
    {c holder : Addr} {call : HolderCall} {l1 : List Log} {n : Nat}
    (hP : PB env ⟨⟨st, t⟩, g⟩ c n) (hh : holder ≠ env.modAddr) (hnb : env.blocked.contains holder = false)
    (hc : holderCall cfg t c holder call = some (t1, l1)) :
    ∃ g1, PB env ⟨⟨st, t1⟩, g1⟩ c (n + pendSum env l1) ∧ (∀ l ∈ l1, l.emitter = c ∧ l.sender = holder) ∧
      t1.hasCode c = t.hasCode c ∧
      (∀ c', (g1.get c' : Int) = g.get c' + (if c' = c ∧ t.hasCode c = true then (burnAmt call : Int) else 0)) := by
  have hmh : ¬ env.modAddr = holder := fun e => hh e.symm
  cases call with
  | transfer to a =>
    simp only [holderCall] at hc
    split at hc
    · rename_i hst
      injection hc with hc
      simp only [Prod.mk.injEq] at hc
      obtain ⟨ht1, hl1⟩ := hc
      cases hcode : t.hasCode c with
      | false =>
        rw [transferBy_nocode hcode] at ht1
        simp only [hcode] at hl1
        subst ht1; subst hl1
        refine ⟨g, ?_, ?_, hcode, ?_⟩
        · simpa [pendSum] using hP
        · intro l hl; cases hl
        · intro c'; simp
      | true =>
        obtain ⟨e1, hle⟩ := transferBy_ok hcode hst
        rw [e1] at ht1
        simp only [hcode, if_true] at hl1
        subst ht1; subst hl1
        refine ⟨g, ⟨backing_transfer (h := ⟨⟨st, t⟩, g⟩) hP.b hh, ?_⟩, ?_, ?_, ?_⟩
        · intro i q hq ho ha
          have := hP.pend i q hq ho ha
          show st.bank.supply q.denom + (n + pendSum env [_]) ≤ ((t.debit c holder a).credit c to a).balOf c env.modAddr
          replace this : st.bank.supply q.denom + n ≤ t.balOf c env.modAddr := this
          simp only [pendSum, pendL, balOf_credit, balOf_debit, hmh, and_false, if_false, true_and, Option.getD_some]
          by_cases hto : to = env.modAddr
          · subst hto; simp [hmh]; omega
          · have : ¬ env.modAddr = to := fun e => hto e.symm
            simp [hto, this]; omega
        · intro l hl
          simp only [List.mem_singleton] at hl
          subst hl; exact ⟨rfl, rfl⟩
        · show ((t.debit c holder a).credit c to a).hasCode c = true
          simpa using hcode
        · intro c'; simp [burnAmt]
    · cases hc
  | approve sp a =>
    have key : t1 = t ∧ (l1 = [] ∨ l1 = [{ emitter := c, nTopics := 3, isTransfer := false, sender := holder, to := sp, amount := some a }]) := by
      simp only [holderCall] at hc
      split at hc
      · injection hc with hc; simp only [Prod.mk.injEq] at hc; exact ⟨hc.1.symm, Or.inl hc.2.symm⟩
      · split at hc
        · cases hc
        · injection hc with hc; simp only [Prod.mk.injEq] at hc; exact ⟨hc.1.symm, Or.inr hc.2.symm⟩
    obtain ⟨e1, e2⟩ := key
    subst e1
    refine ⟨g, ?_, ?_, rfl, ?_⟩
    · rcases e2 with e | e <;> subst e
      · simpa [pendSum] using hP
      · simpa [pendSum, pendL] using hP
    · intro l hl
      rcases e2 with e | e <;> subst e
      · cases hl
      · simp only [List.mem_singleton] at hl; subst hl; exact ⟨rfl, rfl⟩
    · intro c'; simp [burnAmt]
  | burn a =>
    have hok : HOpOK env ⟨⟨st, t⟩, g⟩ (.evmTx c holder (.burn a)) := ⟨hh, hnb⟩
    -- shape of the call's result
    have key : (t.hasCode c = false ∧ t1 = t ∧ l1 = []) ∨
        (t.hasCode c = true ∧ t1 = (t.debit c holder a).setSupply c (t.supply c - a) ∧
          l1 = [{ emitter := c, nTopics := 3, isTransfer := true, sender := holder, to := cfg.zero, amount := some a }]) := by
      have hc' := hc
      simp only [holderCall] at hc'
      cases hcode : t.hasCode c with
      | false =>
        simp only [hcode, Bool.not_false, if_true] at hc'
        injection hc' with hc'; simp only [Prod.mk.injEq] at hc'
        exact Or.inl ⟨rfl, hc'.1.symm, hc'.2.symm⟩
      | true =>
        simp only [hcode, Bool.not_true, Bool.false_eq_true, if_false] at hc'
        split at hc'
        · rename_i hst
          injection hc' with hc'; simp only [Prod.mk.injEq] at hc'
          obtain ⟨e1, _⟩ := burnFrom_ok hst
          exact Or.inr ⟨rfl, by rw [← hc'.1, e1], hc'.2.symm⟩
        · cases hc'
    have hnt : ∀ l ∈ l1, hookTarget env st l = none := by
      intro l hl
      rcases key with ⟨_, _, e⟩ | ⟨_, _, e⟩ <;> subst e
      · cases hl
      · simp only [List.mem_singleton] at hl; subst hl
        exact hookTarget_not_to_module hE.zeroNe
    have hs : hstepW env cfg ⟨st, t⟩ (.evmTx c holder (.burn a)) = .ok (⟨st, t1⟩, .none) := by
      simp only [hstepW, evmTx, hc]
      exact postTx_no_target hnt
    have hB1 := backing_hstep (h := ⟨⟨st, t⟩, g⟩) hE hP.b hok hs
    refine ⟨_, ⟨hB1, ?_⟩, ?_, ?_, ?_⟩
    · intro i q hq ho ha
      have := hP.pend i q hq ho ha
      replace this : st.bank.supply q.denom + n ≤ t.balOf c env.modAddr := this
      show st.bank.supply q.denom + (n + pendSum env l1) ≤ t1.balOf c env.modAddr
      rcases key with ⟨_, e1, e2⟩ | ⟨_, e1, e2⟩ <;> subst e1 <;> subst e2
      · simpa [pendSum] using this
      · have hz : ¬ cfg.zero = env.modAddr := hE.zeroNe
        simp only [pendSum, pendL, hz, and_false, if_false, balOf_setSupply, balOf_debit, hmh]
        omega
    · intro l hl
      rcases key with ⟨_, _, e⟩ | ⟨_, _, e⟩ <;> subst e
      · cases hl
      · simp only [List.mem_singleton] at hl; subst hl; exact ⟨rfl, rfl⟩
    · rcases key with ⟨_, e1, _⟩ | ⟨_, e1, _⟩ <;> subst e1
      · rfl
      · rfl
    · intro c'
      simp only [ghostAfter, burnAmt]
      cases hcode : t.hasCode c with
      | false => simp
      | true =>
        by_cases hcc : c' = c
        · subst hcc; simp
        · simp [hcc, AMap.get_set_other _ _ _ _ hcc]

theorem hookTarget_isTransfer {env : Env} {s : State} {l : Log} {x : Pair × Nat}
    (h : hookTarget env s l = some x) : l.isTransfer = true := by
  unfold hookTarget at h
  split at h; · cases h
  split at h
  · cases h
  · rename_i hn; simpa using hn

/-- one iteration of the hook loop on a log of the transaction's receipt -/
theorem hook_step {env : Env} {cfg : Cfg} (hE : EnvOK3 env cfg) {h : HWorld} {w2 : World TState} {l : Log}
    {c holder : Addr} {n : Nat} (hP : PB env h c (pendL env l + n)) (hem : l.emitter = c) (hsd : l.sender = holder)
    (hnb : env.blocked.contains holder = false)
    (hl : hookLog env (honest cfg) h.w l = .ok w2) : PB env ⟨w2, h.destroyed⟩ c n := by
  subst hem; subst hsd
  have hB := hP.b
  have hh : l.sender ≠ env.modAddr := not_blocked_ne_mod hE hnb
  have hmh : ¬ env.modAddr = l.sender := fun e => hh e.symm
  have hP0 : PB env ⟨h.w, h.destroyed⟩ l.emitter n := hP.weaken (Nat.le_add_left _ _)
  rcases hookLog_ok hl with ⟨_, hw⟩ | ⟨p, v, ht, hcase⟩
  · rw [hw]; exact hP0
  · obtain ⟨i, hi, hp, _, hto, hv0, hv⟩ := hookTarget_some ht
    have hisT := hookTarget_isTransfer ht
    have hpl : pendL env l = v := by simp [pendL, hisT, hto, hv]
    rw [hpl] at hP
    have hpa : p.addr = l.emitter := by
      obtain ⟨q, hq, hqa⟩ := (hB.reg.addrIdx l.emitter i).mp hi
      rw [hp] at hq; injection hq with hq; subst hq; exact hqa
    have hcm : cfg.modAddr = env.modAddr := hE.cfgMod
    rcases hcase with ⟨_, hw⟩ | ⟨ho, hm⟩ | ⟨ho, b1, b2, hb1, hb2, hw⟩
    · rw [hw]; exact hP0
    · -- chain-deployed contract: burn the module's tokens, release the coins
      have hc1 : h.w.evm.hasCode l.emitter = true := by rw [← hpa]; exact hB.nativeCode i p hp ho
      rcases hm with ⟨e, he, hw⟩ | ⟨ans, bank1, he, hsoft, hw⟩
      · rcases callEVM_error he with ⟨_, hs⟩ | ⟨hns, hs⟩
        · rw [hw, hs]; exact hP0
        · rw [hw, hs, honest_burn_not_ok hc1 hns]; exact hP0
      · obtain ⟨_, hans, hst, hs⟩ := callEVM_ok he
        rw [← hans] at hst
        obtain ⟨e2, hle2, hls2⟩ := honest_burn_ok hc1 hst
        rw [hcm] at e2 hle2
        have hesc := hB.native i p hp ho
        unfold bankSoft at hsoft
        split at hsoft
        · rename_i bpaid hpaid
          injection hsoft with hsoft; subst hsoft
          obtain ⟨_, hx⟩ := modToAcct_ok hpaid
          have flow := Bank.applyAll_flow _ _ _ hx
          rw [hw, hs, e2]
          constructor
          · refine backing_confined hB (· = p.denom) (· = l.emitter) (fun _ => rfl) hB.reg ?_ ?_ ?_ ?_ ?_ ?_ ?_
            · intro d hne; exact single_other_denom hx d (by simpa [effDenom] using hne)
            · intro c' x hne
              have : ¬ c' = l.emitter := hne
              show ((h.w.evm.debit l.emitter env.modAddr v).setSupply l.emitter _).balOf c' x = _
              simp [this]
            · intro c' hne
              have : ¬ c' = l.emitter := hne
              show ((h.w.evm.debit l.emitter env.modAddr v).setSupply l.emitter _).supply c' = _
              simp [this]
            · intro c' hc'
              show ((h.w.evm.debit l.emitter env.modAddr v).setSupply l.emitter _).hasCode c' = true
              simpa using hc'
            · intro c' _; rfl
            · intro j q hq htq
              have hqp : q = p := same_pair hB.reg hp hq (by rw [hpa]; exact htq)
              subst hqp
              constructor
              · intro _
                show bpaid.get env.modAddr q.denom =
                  ((h.w.evm.debit l.emitter env.modAddr v).setSupply l.emitter _).supply q.addr + h.destroyed.get q.addr
                have f := (flow env.modAddr q.denom).1
                flowb at f
                simp only [hmh, false_and, if_false, and_self, if_true, Nat.add_zero] at f
                rw [hpa] at hesc ⊢
                simp only [supply_setSupply, if_true]
                omega
              · intro he'; rw [ho] at he'; cases he'
            · intro c' hc'
              have hc0 : h.w.evm.hasCode c' = false := by
                have : ((h.w.evm.debit l.emitter env.modAddr v).setSupply l.emitter
                  (h.w.evm.supply l.emitter - v)).hasCode c' = false := hc'
                simpa using this
              have hne : c' ≠ l.emitter := by intro e; rw [e, hc1] at hc0; cases hc0
              show ((h.w.evm.debit l.emitter env.modAddr v).setSupply l.emitter _).supply c' = 0
              simp [hne]
              exact hB.noCodeNoSupply c' hc0
          · intro j q hq hoq hqa
            have : q = p := same_pair hB.reg hp hq (Or.inr (hqa.trans hpa.symm))
            subst this; rw [ho] at hoq; cases hoq
        · cases hsoft
        · rename_i e hne herr
          exfalso
          rcases modToAcct_error herr with ⟨_, hb⟩ | ⟨_, hlt⟩ | hov
          · rw [hnb] at hb; cases hb
          · have : (h.w.st.bank.get env.modAddr p.denom) < v := hlt
            rw [hpa] at hesc
            omega
          · exact hne hov
    · -- external token: mint the coins for tokens the module received earlier in the transaction
      simp only at hb1 hb2 hw
      have flow1 := Bank.applyAll_flow _ _ _ hb1
      have hsup2 : ∀ d, b2.supply d = b1.supply d := by
        intro d
        unfold bankSoft at hb2
        split at hb2
        · rename_i bp hpd
          injection hb2 with hb2; subst hb2
          obtain ⟨_, hx⟩ := modToAcct_ok hpd
          have f := (Bank.applyAll_flow _ _ _ hx "" d).2
          flowb at f
          omega
        · cases hb2
        · injection hb2 with hb2; subst hb2; rfl
      have hother : ∀ d, d ≠ p.denom → dFrame b1 b2 d := by
        intro d hne
        unfold bankSoft at hb2
        split at hb2
        · rename_i bp hpd
          injection hb2 with hb2; subst hb2
          obtain ⟨_, hx⟩ := modToAcct_ok hpd
          exact single_other_denom hx d (by simpa [effDenom] using hne)
        · cases hb2
        · injection hb2 with hb2; subst hb2; exact dFrame_refl _ _
      have f1 := (flow1 "" p.denom).2
      flowb at f1
      simp only [if_true] at f1
      have hpe := hP.pend i p hp ho hpa
      rw [hw]
      constructor
      · refine backing_confined hB (· = p.denom) (· = l.emitter) (fun _ => rfl) hB.reg ?_ ?_ ?_ ?_ ?_ ?_ ?_
        · intro d hne
          exact dFrame_trans (single_other_denom hb1 d (by simpa [effDenom] using hne)) (hother d hne)
        · intro c' x _; rfl
        · intro c' _; rfl
        · intro c' hc'; exact hc'
        · intro c' _; rfl
        · intro j q hq htq
          have hqp : q = p := same_pair hB.reg hp hq (by rw [hpa]; exact htq)
          subst hqp
          constructor
          · intro he'; rw [ho] at he'; cases he'
          · intro _
            show b2.supply q.denom ≤ h.w.evm.balOf q.addr env.modAddr
            rw [hsup2, hpa]
            omega
        · intro c' hc'; exact hB.noCodeNoSupply c' hc'
      · intro j q hq hoq hqa
        have : q = p := same_pair hB.reg hp hq (Or.inr (hqa.trans hpa.symm))
        subst this
        show b2.supply q.denom + n ≤ h.w.evm.balOf l.emitter env.modAddr
        rw [hsup2]
        omega

/-- the whole hook loop on the receipt of the transaction -/
theorem hooks_inv {env : Env} {cfg : Cfg} (hE : EnvOK3 env cfg) {c holder : Addr}
    (hnb : env.blocked.contains holder = false) :
    ∀ (logs : List Log) (h : HWorld) (w2 : World TState), PB env h c (pendSum env logs) →
      (∀ l ∈ logs, l.emitter = c ∧ l.sender = holder) → hookLogs env (honest cfg) h.w logs = .ok w2 →
      PB env ⟨w2, h.destroyed⟩ c 0 := by
  intro logs
  induction logs with
  | nil =>
    intro h w2 hP _ hl
    simp only [hookLogs] at hl
    injection hl with hl; subst hl
    exact hP
  | cons l ls ih =>
    intro h w2 hP hall hl
    simp only [hookLogs] at hl
    obtain ⟨w1, h1, hl⟩ := bind_ok hl
    obtain ⟨hem, hsd⟩ := hall l (List.mem_cons_self ..)
    have hP1 := hook_step hE (n := pendSum env ls) hP hem hsd hnb h1
    exact ih ⟨w1, h.destroyed⟩ w2 hP1 (fun l' hl' => hall l' (List.mem_cons_of_mem _ hl')) hl

theorem foldl_batchStep_none (cfg : Cfg) (c holder : Addr) (calls : List HolderCall) :
    calls.foldl (batchStep cfg c holder) none = none := by
  induction calls with
  | nil => rfl
  | cons call r ih => simpa [List.foldl, batchStep] using ih

/-- the token calls of the transaction, in order -/
theorem calls_inv {env : Env} {cfg : Cfg} (hE : EnvOK3 env cfg) {st : State} {c holder : Addr}
    (hh : holder ≠ env.modAddr) (hnb : env.blocked.contains holder = false) :
    ∀ (calls : List HolderCall) (t : TState) (logs : List Log) (g : AMap Addr) (t1 : TState) (logs1 : List Log),
      PB env ⟨⟨st, t⟩, g⟩ c (pendSum env logs) → (∀ l ∈ logs, l.emitter = c ∧ l.sender = holder) →
      calls.foldl (batchStep cfg c holder) (some (t, logs)) = some (t1, logs1) →
      ∃ g1, PB env ⟨⟨st, t1⟩, g1⟩ c (pendSum env logs1) ∧ (∀ l ∈ logs1, l.emitter = c ∧ l.sender = holder) ∧
        (∀ c', (g1.get c' : Int) = g.get c' + (if c' = c ∧ t.hasCode c = true then (burnSum calls : Int) else 0)) := by
  intro calls
  induction calls with
  | nil =>
    intro t logs g t1 logs1 hP hall hf
    simp only [List.foldl] at hf
    injection hf with hf; simp only [Prod.mk.injEq] at hf
    obtain ⟨e1, e2⟩ := hf; subst e1; subst e2
    exact ⟨g, hP, hall, by intro c'; simp [burnSum]⟩
  | cons call r ih =>
    intro t logs g t1 logs1 hP hall hf
    simp only [List.foldl] at hf
    cases hc : holderCall cfg t c holder call with
    | none =>
      have : batchStep cfg c holder (some (t, logs)) call = none := by simp only [batchStep, hc]
      rw [this, foldl_batchStep_none] at hf; cases hf
    | some res =>
      obtain ⟨t', l1⟩ := res
      have : batchStep cfg c holder (some (t, logs)) call = some (t', logs ++ l1) := by simp only [batchStep, hc]
      rw [this] at hf
      obtain ⟨g', hP', hall', hcode', hg'⟩ := call_step hE hP hh hnb hc
      rw [← pendSum_append] at hP'
      have hall2 : ∀ l ∈ logs ++ l1, l.emitter = c ∧ l.sender = holder := by
        intro l hl
        rcases List.mem_append.mp hl with hl | hl
        · exact hall l hl
        · exact hall' l hl
      obtain ⟨g1, hP1, hall1, hg1⟩ := ih t' (logs ++ l1) g' t1 logs1 hP' hall2 hf
      refine ⟨g1, hP1, hall1, ?_⟩
      intro c'
      rw [hg1 c', hg' c', hcode']
      simp only [burnSum]
      split <;> simp <;> omega

/-- **the invariant is kept by a transaction of several token calls** (the analogue of
`backing_hstep` for `evmTxBatch`), with the ghost moved by exactly the tokens the holder burned -/
theorem backing_batch {env : Env} {cfg : Cfg} {h : HWorld} {c holder : Addr} {calls : List HolderCall}
    {w' : World TState} {r : Resp} (hE : EnvOK3 env cfg) (hB : Backing env h)
    (hh : holder ≠ env.modAddr) (hnb : env.blocked.contains holder = false)
    (hs : evmTxBatch env cfg h.w c holder calls = .ok (w', r)) :
    ∃ g', Backing env ⟨w', g'⟩ ∧ w'.st.reg = h.w.st.reg ∧
      (∀ c', (g'.get c' : Int) =
        h.destroyed.get c' + (if c' = c ∧ h.w.evm.hasCode c = true then (burnSum calls : Int) else 0)) := by
  unfold evmTxBatch at hs
  split at hs
  · cases hs
  · rename_i t1 logs hf
    have hP0 : PB env ⟨⟨h.w.st, h.w.evm⟩, h.destroyed⟩ c (pendSum env []) := PB.of_backing hB
    obtain ⟨g1, hP1, hall1, hg1⟩ := calls_inv hE hh hnb calls h.w.evm [] h.destroyed t1 logs hP0
      (by intro l hl; cases hl) hf
    refine ⟨g1, ?_, ?_, hg1⟩
    · unfold postTx at hs
      split at hs
      · injection hs with hs; simp only [Prod.mk.injEq] at hs; rw [← hs.1]; exact hP1.b
      · obtain ⟨w1, hl, hs⟩ := bind_ok hs
        injection hs with hs; simp only [Prod.mk.injEq] at hs; rw [← hs.1]
        exact (hooks_inv hE hnb logs ⟨⟨h.w.st, t1⟩, g1⟩ w1 hP1 hall1 hl).b
    · obtain ⟨hc, _⟩ := postTx_core hs
      exact hc.1

/-! ### the monitors on a batch transition -/

def bOk (env : Env) (cfg : Cfg) (w : World TState) (c holder : Addr) (calls : List HolderCall) : Bool :=
  match evmTxBatch env cfg w c holder calls with
  | .ok _ => true
  | .error _ => false

def bResp (env : Env) (cfg : Cfg) (w : World TState) (c holder : Addr) (calls : List HolderCall) : Resp :=
  match evmTxBatch env cfg w c holder calls with
  | .ok (_, r) => r
  | .error _ => .none

/-- the batch transition of the model, as a `Tr` (a reverted transaction leaves both stores alone: `deliver`) -/
def btr (env : Env) (cfg : Cfg) (w : World TState) (c holder : Addr) (calls : List HolderCall) (ans : List Ans)
    (hon cl : Bool) (lk : List (Addr × Denom × String × String))
    (prev : Option (DOp × Bool × Resp × World TState × Bool)) : Tr :=
  { env := env, cfg := cfg, pre := w, op := .txBatch c holder calls, ok := bOk env cfg w c holder calls,
    resp := bResp env cfg w c holder calls,
    post := (deliver w (fun w => evmTxBatch env cfg w c holder calls)).1,
    answers := ans, honest := hon, lookups := lk, clean := cl, prev := prev }

theorem foldl_burn_int (calls : List HolderCall) : ∀ z : Int,
    calls.foldl (fun n call => match call with | .burn a => n + (a : Int) | _ => n) z = z + (burnSum calls : Int) := by
  induction calls with
  | nil => intro z; simp [burnSum]
  | cons call r ih =>
    intro z
    simp only [List.foldl]
    rw [ih]
    cases call <;> simp [burnSum, burnAmt] <;> omega

/-- a batch transition: the post-state satisfies the invariant for a ghost that moved by `burnedBy` -/
theorem batch_cases (env : Env) (cfg : Cfg) (h : HWorld) (c holder : Addr) (calls : List HolderCall)
    (hE : EnvOK3 env cfg) (hB : Backing env h) (hh : holder ≠ env.modAddr) (hnb : env.blocked.contains holder = false)
    (ans : List Ans) (hon cl : Bool) (lk : List (Addr × Denom × String × String))
    (prev : Option (DOp × Bool × Resp × World TState × Bool)) :
    ∃ g', Backing env ⟨(btr env cfg h.w c holder calls ans hon cl lk prev).post, g'⟩ ∧
      (btr env cfg h.w c holder calls ans hon cl lk prev).post.st.reg = h.w.st.reg ∧
      ∀ c', (g'.get c' : Int) = h.destroyed.get c' + burnedBy (btr env cfg h.w c holder calls ans hon cl lk prev) c' := by
  cases hs : evmTxBatch env cfg h.w c holder calls with
  | error e =>
    have hk : bOk env cfg h.w c holder calls = false := by unfold bOk; rw [hs]
    have hp : (btr env cfg h.w c holder calls ans hon cl lk prev).post = h.w := by
      simp only [btr, deliver, hs]
    refine ⟨h.destroyed, by rw [hp]; exact hB, by rw [hp], ?_⟩
    intro c'
    rw [burnedBy_not_ok _ _ hk]; omega
  | ok x =>
    obtain ⟨w', r⟩ := x
    have hk : bOk env cfg h.w c holder calls = true := by unfold bOk; rw [hs]
    have hp : (btr env cfg h.w c holder calls ans hon cl lk prev).post = w' := by
      simp only [btr, deliver, hs]
    obtain ⟨g', hB', hreg, hg⟩ := backing_batch hE hB hh hnb hs
    refine ⟨g', by rw [hp]; exact hB', by rw [hp]; exact hreg, ?_⟩
    intro c'
    rw [hg c']
    have hb : burnedBy (btr env cfg h.w c holder calls ans hon cl lk prev) c' =
        if bOk env cfg h.w c holder calls && c == c' && h.w.evm.hasCode c' then
          calls.foldl (fun n call => match call with | .burn a => n + (a : Int) | _ => n) 0 else 0 := rfl
    rw [hb, hk, foldl_burn_int]
    by_cases hcc : c' = c
    · subst hcc; simp
    · have : ¬ c = c' := fun e => hcc e.symm
      simp [hcc, this]

/-- **`c03_nativeGe` on a batch transition** (`DOp.txBatch`).  Hypotheses: those of `backing_step` for a
holder's transaction (`HOpOK … (.evmTx _ holder _)`: the holder is not the module account and not blocked). -/
theorem c03_nativeGe_batch_monitor (env : Env) (cfg : Cfg) (h : HWorld) (c holder : Addr) (calls : List HolderCall)
    (hE : EnvOK3 env cfg) (hB : Backing env h) (hh : holder ≠ env.modAddr) (hnb : env.blocked.contains holder = false)
    (ans : List Ans) (hon cl : Bool) (lk : List (Addr × Denom × String × String))
    (prev : Option (DOp × Bool × Resp × World TState × Bool)) :
    c03_nativeGe (btr env cfg h.w c holder calls ans hon cl lk prev) = true := by
  obtain ⟨g', hB', _, _⟩ := batch_cases env cfg h c holder calls hE hB hh hnb ans hon cl lk prev
  exact nativeGe_of_backing hB'.backed _ rfl rfl

/-- **`c03_external` on a batch transition** (`DOp.txBatch`), same hypotheses. -/
theorem c03_external_batch_monitor (env : Env) (cfg : Cfg) (h : HWorld) (c holder : Addr) (calls : List HolderCall)
    (hE : EnvOK3 env cfg) (hB : Backing env h) (hh : holder ≠ env.modAddr) (hnb : env.blocked.contains holder = false)
    (ans : List Ans) (hon cl : Bool) (lk : List (Addr × Denom × String × String))
    (prev : Option (DOp × Bool × Resp × World TState × Bool)) :
    c03_external (btr env cfg h.w c holder calls ans hon cl lk prev) = true := by
  obtain ⟨g', hB', _, _⟩ := batch_cases env cfg h c holder calls hE hB hh hnb ans hon cl lk prev
  exact external_of_backing hB'.backed _ rfl rfl

/-- **`c03_nativeExact` on a batch transition** (`DOp.txBatch`), same hypotheses. -/
theorem c03_nativeExact_batch_monitor (env : Env) (cfg : Cfg) (h : HWorld) (c holder : Addr) (calls : List HolderCall)
    (hE : EnvOK3 env cfg) (hB : Backing env h) (hh : holder ≠ env.modAddr) (hnb : env.blocked.contains holder = false)
    (ans : List Ans) (hon cl : Bool) (lk : List (Addr × Denom × String × String))
    (prev : Option (DOp × Bool × Resp × World TState × Bool)) :
    c03_nativeExact (btr env cfg h.w c holder calls ans hon cl lk prev) = true := by
  obtain ⟨g', hB', hreg, hg⟩ := batch_cases env cfg h c holder calls hE hB hh hnb ans hon cl lk prev
  refine nativeExact_of_backing hB.backed hB'.backed _ rfl rfl rfl ?_ ?_
  · intro i p p' hp hp'
    have hp'' : (btr env cfg h.w c holder calls ans hon cl lk prev).post.st.reg.getPair i = some p' := hp'
    rw [hreg, hp] at hp''; injection hp'' with e; rw [e]
  · intro p p' _ _ _
    exact hg p.addr

/-- a batch of one call is the single-call transaction of `Model/Erc20Token.lean` -/
theorem evmTxBatch_single (env : Env) (cfg : Cfg) (w : World TState) (c holder : Addr) (call : HolderCall) :
    evmTxBatch env cfg w c holder [call] = evmTx env cfg w c holder call := by
  unfold evmTxBatch evmTx
  simp only [List.foldl, batchStep]
  cases holderCall cfg w.evm c holder call with
  | none => rfl
  | some x => simp

/-! ## self-destruct (`DOp.sd`)

Not an operation of the honest world (the honest contract cannot self-destruct; the harness scripts
it), and the driver takes the world out of the scope of C03 *after* it; the transition itself is still
evaluated with `clean = true`.  It moves no coin and no token, so the monitors hold on it. -/

def sdtr (env : Env) (cfg : Cfg) (w : World TState) (c : Addr) (ans : List Ans) (hon cl : Bool)
    (lk : List (Addr × Denom × String × String)) (prev : Option (DOp × Bool × Resp × World TState × Bool)) : Tr :=
  { env := env, cfg := cfg, pre := w, op := .sd c, ok := true, resp := .none,
    post := { w with evm := selfdestruct w.evm c }, answers := ans, honest := hon, lookups := lk, clean := cl, prev := prev }

theorem backed_selfdestruct {env : Env} {h : HWorld} (hB : Backed env h) (c : Addr) :
    Backed env ⟨{ h.w with evm := selfdestruct h.w.evm c }, h.destroyed⟩ := ⟨hB.reg, hB.native, hB.external⟩

theorem c03_nativeGe_sd_monitor (env : Env) (cfg : Cfg) (h : HWorld) (c : Addr) (hB : Backing env h)
    (ans : List Ans) (hon cl : Bool) (lk : List (Addr × Denom × String × String))
    (prev : Option (DOp × Bool × Resp × World TState × Bool)) :
    c03_nativeGe (sdtr env cfg h.w c ans hon cl lk prev) = true :=
  nativeGe_of_backing (backed_selfdestruct hB.backed c) _ rfl rfl

theorem c03_external_sd_monitor (env : Env) (cfg : Cfg) (h : HWorld) (c : Addr) (hB : Backing env h)
    (ans : List Ans) (hon cl : Bool) (lk : List (Addr × Denom × String × String))
    (prev : Option (DOp × Bool × Resp × World TState × Bool)) :
    c03_external (sdtr env cfg h.w c ans hon cl lk prev) = true :=
  external_of_backing (backed_selfdestruct hB.backed c) _ rfl rfl

theorem c03_nativeExact_sd_monitor (env : Env) (cfg : Cfg) (h : HWorld) (c : Addr) (hB : Backing env h)
    (ans : List Ans) (hon cl : Bool) (lk : List (Addr × Denom × String × String))
    (prev : Option (DOp × Bool × Resp × World TState × Bool)) :
    c03_nativeExact (sdtr env cfg h.w c ans hon cl lk prev) = true := by
  refine nativeExact_of_backing hB.backed (backed_selfdestruct hB.backed c) _ rfl rfl rfl ?_ ?_
  · intro i p p' hp hp'
    have hp'' : h.w.st.reg.getPair i = some p' := hp'
    rw [hp] at hp''; injection hp'' with e; rw [e]
  · intro p p' _ _ _
    have hb : burnedBy (sdtr env cfg h.w c ans hon cl lk prev) p.addr = 0 := rfl
    rw [hb]
    show (h.destroyed.get p.addr : Int) = h.destroyed.get p.addr + 0
    omega

/-! ## non-vacuity (batches, self-destruct) and the boundary -/

/-- a batch on the chain-deployed contract: 2 tokens sent to the module (the hook converts them back),
1 burned, an approval for the module, 1 sent to somebody else — escrow 6 → 4, supply 6 → 3,
`burnedBy = 1 = gap after − gap before`; a batch on the external token: two transfers to the
module, both converted by the one hook run — coin supply 5 → 7, tokens on the module 5 → 7 -/
example :
    EnvOK3 exEnv exCfg ∧ Backing exEnv exH ∧ ("u1" : Addr) ≠ exEnv.modAddr ∧ exEnv.blocked.contains "u1" = false ∧
    (let t := btr exEnv exCfg exH.w "k0" "u1" [.transfer "m.erc20" 2, .burn 1, .approve "m.erc20" 9, .transfer "u0" 1]
                [] true true [] none
     let u := btr exEnv exCfg exH.w "t0" "u0" [.transfer "m.erc20" 1, .transfer "m.erc20" 1] [] true true [] none
     t.ok && burnedBy t "k0" == 1 && c03_nativeExact t && c03_nativeGe t && c03_external t &&
     t.post.st.bank.get "m.erc20" "acoin" == 4 && t.post.evm.supply "k0" == 3 &&
     (modulePairs t.pre.st.reg).length == 1 &&
     u.ok && c03_nativeExact u && c03_nativeGe u && c03_external u && (externalPairs u.post.st.reg).length == 1 &&
     u.post.st.bank.supply "erc20/0x746f6b656e305F5f5F5f5f5F5f5F5F5F5f5F5F5f" == 7 &&
     u.post.evm.balOf "t0" "m.erc20" == 7) = true :=
  ⟨exEnvOK3, exH_backing, by decide, by decide, by decide +kernel⟩

/-- a reverting call reverts the whole batch (nothing changes), and the self-destruct transition -/
example :
    (let t := btr exEnv exCfg exH.w "k0" "u1" [.transfer "m.erc20" 2, .burn 100] [] true true [] none
     let v := sdtr exEnv exCfg exH.w "k0" [] true true [] none
     !t.ok && t.post.evm.supply "k0" == 6 && t.post.st.bank.get "m.erc20" "acoin" == 6 && c03_nativeExact t &&
     c03_nativeExact v && c03_nativeGe v && c03_external v && !v.post.evm.hasCode "k0") = true := by
  decide +kernel

/-- **the boundary (see the note at the top of the file).**  A bare hook invocation with a forged
`Transfer(u1, module, 9)` log of a registered external contract, in a world that has been honest so far
(`clean = true`: the driver taints the world only *after* the operation): `c03_external` evaluates to
`false` on the model's own transition.  (`HOpOK` excludes `.k (.hook _)`.) -/
example :
    (let O := honest exCfg
     let w1 := exec exEnv O exWorld (.registerERC20 true "t0" true)
     let forged : Log := { emitter := "t0", nTopics := 3, isTransfer := true, sender := "u1", to := "m.erc20", amount := some 9 }
     let t : Tr := { env := exEnv, cfg := exCfg, pre := w1, op := .k (.hook [forged]), ok := true, resp := .none,
                     post := exec exEnv O w1 (.hook [forged]), answers := [], honest := true, lookups := [],
                     clean := true, prev := none }
     c03_external t) = false := by
  decide +kernel

end Token
end Erc20
end CV
