import CantoVerif.Props.C14
/-!
# C14 — the executable monitors hold on every transition of the model.

`Props/C14.lean` links `c14_msgGate`, `c14_receiverBlocked`, `c14_thirdPartySendDisabled`
(`msg_gate_monitors`, successful transitions).  This file links the remaining C14 monitors, and
restates the three above for *every* transition (accepted or rejected), with `ok`, `resp` and the
post-state computed from the model:

* `trK`  — the observed transition of a keeper operation `op` run by the model from `w` against the
  oracle `O`: `ok = isOk (step …)`, `resp` = the model's response, `post = exec …`;
* `trTx` — the observed transition of a holder's Ethereum transaction (honest token `cfg`, then the
  hook on the receipt's logs): `ok`/`resp`/`post` from `Token.evmTx` under `deliver`.

Theorems (all for arbitrary states / operations, `ok`/`resp`/`post` from the model):

* `c14_moduleReceiver_monitor`   — hypothesis: module accounts ⊆ blocked list (as `module_receiver_rejected`);
* `c14_switchesStored_monitor`   — no hypothesis;
* `msg_gate_monitors_all`        — `msg_gate`, `receiver_blocked`, `third_party_send_disabled`, rejected transitions included;
* `c14_ordinaryTransfers_monitor`— no hypothesis (holder transactions, honest token);
* `c14_hookGate_monitor`, `c14_hookGate_monitor_tx` — hypothesis `RegInv` (as `hook_disabled_pair_frame`);
* `c14_monitors_k`, `c14_monitors_tx` — all seven at once.

Finding.  `c14_hookGate` on a bare hook invocation is **not** true of the model for an arbitrary EVM
oracle: its `tokContractSame` conjunct speaks of the token ledger, which only an honest token
preserves.  Concrete counterexample at the end of the file (`evilO`: `acoin`/`k0` registered and on,
`t0` registered and toggled off, receipt `[exLog]`; the oracle wipes `t0`'s ledger when asked to
`burn` on `k0`; the monitor evaluates to `false`).  The bank-side conjuncts hold for every oracle
(`hook_disabled_pair_frame`).  The theorem therefore fixes the oracle of a hook operation to
`Token.honest cfg` — which is what the driver's model run uses.

The harness fields `answers`, `honest`, `clean`, `lookups`, `prev` are universally quantified: none
of the C14 monitors reads `answers`, `clean`, `lookups`, `prev`; `c14_ordinaryTransfers` reads
`honest` only to switch itself off, and the theorem holds for both values.
-/
namespace CV
namespace Erc20
namespace C14M
open KMap Spec Token

/-! ## the transition the model makes -/

section tr
variable {σ : Type}

/-- the response of a model result (`.none` for a rejection, as the driver records it) -/
def respOf : R (World σ × Resp) → Resp
  | .ok (_, r) => r
  | .error _ => .none

theorem isOk_true {α : Type} {x : R α} (h : isOk x = true) : ∃ a, x = .ok a := by
  cases x with
  | ok a => exact ⟨a, rfl⟩
  | error e => cases h

end tr

/-- the model's transition for a keeper operation -/
def trK (env : Env) (cfg : Cfg) (O : Oracle TState) (w : World TState) (op : Op) (ans : List Ans) (hon cl : Bool)
    (lk : List (Addr × Denom × String × String)) (prev : Option (DOp × Bool × Resp × World TState × Bool)) : Tr :=
  { env := env, cfg := cfg, pre := w, op := .k op, ok := isOk (step env O w op), resp := respOf (step env O w op),
    post := exec env O w op, answers := ans, honest := hon, lookups := lk, clean := cl, prev := prev }

/-- transaction-level execution of a holder's Ethereum transaction -/
def execTx (env : Env) (cfg : Cfg) (w : World TState) (c holder : Addr) (call : HolderCall) : World TState :=
  (deliver w (fun w => evmTx env cfg w c holder call)).1

/-- the model's transition for a holder's Ethereum transaction -/
def trTx (env : Env) (cfg : Cfg) (w : World TState) (c holder : Addr) (call : HolderCall) (ans : List Ans) (hon cl : Bool)
    (lk : List (Addr × Denom × String × String)) (prev : Option (DOp × Bool × Resp × World TState × Bool)) : Tr :=
  { env := env, cfg := cfg, pre := w, op := .tx c holder call, ok := isOk (evmTx env cfg w c holder call),
    resp := respOf (evmTx env cfg w c holder call), post := execTx env cfg w c holder call,
    answers := ans, honest := hon, lookups := lk, clean := cl, prev := prev }

theorem exec_of_ok {σ : Type} {env : Env} {O : Oracle σ} {w w' : World σ} {op : Op} {r : Resp}
    (h : step env O w op = .ok (w', r)) : exec env O w op = w' := by
  unfold exec deliver; simp only [h]

theorem exec_of_error {σ : Type} {env : Env} {O : Oracle σ} {w : World σ} {op : Op} {e : Rej}
    (h : step env O w op = .error e) : exec env O w op = w := by
  unfold exec deliver; simp only [h]

/-! ## reflexivity / frames of the executable comparisons -/

theorem sameBank_refl (a : State) : sameBank a a = true := by simp [sameBank]
theorem sameTok_refl (t : TState) : sameTok t t = true := by simp [sameTok, AMap.eqv]

theorem denomSame_of_frame {a b : State} {d : Denom} (h : denomFrame a.bank b.bank d) : denomSame a b d = true := by
  simp only [denomSame, Bool.and_eq_true, List.all_eq_true, beq_iff_eq]
  refine ⟨?_, h.2.symm⟩
  intro k hk
  have hk2 : k.2 = d := by simpa using (List.mem_filter.mp hk).2
  rw [hk2]; exact (h.1 k.1).symm

theorem denomSame_refl (a : State) (d : Denom) : denomSame a a d = true := denomSame_of_frame (denomFrame_refl _ _)

/-- the token ledger, restricted to one contract -/
def tokFrame (t t' : TState) (c : Addr) : Prop := (∀ h, t'.bal.get (c, h) = t.bal.get (c, h)) ∧ t'.sup.get c = t.sup.get c

theorem tokFrame_refl (t : TState) (c : Addr) : tokFrame t t c := ⟨fun _ => rfl, rfl⟩
theorem tokFrame_trans {t1 t2 t3 : TState} {c : Addr} (h1 : tokFrame t1 t2 c) (h2 : tokFrame t2 t3 c) : tokFrame t1 t3 c :=
  ⟨fun a => (h2.1 a).trans (h1.1 a), h2.2.trans h1.2⟩

theorem tokContractSame_of_frame {a b : TState} {c : Addr} (h : tokFrame a b c) : tokContractSame a b c = true := by
  simp only [tokContractSame, Bool.and_eq_true, List.all_eq_true, beq_iff_eq]
  refine ⟨?_, h.2.symm⟩
  intro k hk
  have hk1 : k.1 = c := by simpa using (List.mem_filter.mp hk).2
  obtain ⟨k1, k2⟩ := k
  simp only at hk1; subst hk1
  exact (h.1 k2).symm

/-! ## `module_receiver` -/

/-- **`c14_moduleReceiver` holds on every keeper transition of the model** (any oracle, any state, any
operation, accepted or not), provided every module account of the application is on the bank's
blocked list — the hypothesis of `module_receiver_rejected`; it is also the first conjunct of the
monitor, i.e. the monitor checks it of the implementation's wiring. -/
theorem c14_moduleReceiver_monitor (env : Env) (cfg : Cfg) (O : Oracle TState) (w : World TState) (op : Op)
    (hm : env.macc.all (fun a => env.blocked.contains a) = true)
    (ans : List Ans) (hon cl : Bool) (lk : List (Addr × Denom × String × String))
    (prev : Option (DOp × Bool × Resp × World TState × Bool)) :
    c14_moduleReceiver (trK env cfg O w op ans hon cl lk prev) = true := by
  simp only [c14_moduleReceiver, trK, hm, Bool.true_and]
  cases hp : convParties op with
  | none => rfl
  | some sr =>
    obtain ⟨snd, rcv⟩ := sr
    simp only
    cases hb : env.macc.contains rcv with
    | false => simp
    | true =>
      have hc : IsConv op := by
        cases op <;> first | trivial | (simp [convParties] at hp)
      have hno := (module_receiver_rejected env O w op hc hm hp hb).1
      cases hs : step env O w op with
      | error e => simp [isOk]
      | ok x => exact absurd hs (hno x.1 x.2)

/-- the converse direction of the hypothesis: the monitor can only be true when the wiring is as assumed -/
theorem c14_moduleReceiver_needs_wiring (t : Tr) (h : c14_moduleReceiver t = true) :
    t.env.macc.all (fun a => t.env.blocked.contains a) = true := by
  simp only [c14_moduleReceiver, Bool.and_eq_true] at h
  exact h.1

/-! ## `switches_stored` -/

/-- **`c14_switchesStored` holds on every keeper transition of the model**: no hypotheses. -/
theorem c14_switchesStored_monitor (env : Env) (cfg : Cfg) (O : Oracle TState) (w : World TState) (op : Op)
    (ans : List Ans) (hon cl : Bool) (lk : List (Addr × Denom × String × String))
    (prev : Option (DOp × Bool × Resp × World TState × Bool)) :
    c14_switchesStored (trK env cfg O w op ans hon cl lk prev) = true := by
  cases op with
  | updateParams auth p =>
    simp only [c14_switchesStored, trK]
    cases hs : step env O w (.updateParams auth p) with
    | error e => simp [isOk]
    | ok x =>
      obtain ⟨w', r⟩ := x
      rw [exec_of_ok hs, switches_stored env O w w' auth p r hs]
      simp [isOk]
  | _ => rfl

/-! ## `msg_gate`, `receiver_blocked`, `third_party_send_disabled` on every transition -/

/-- `msg_gate_monitors` speaks of accepted transitions; on rejected ones the three monitors are
true because they only constrain accepted conversions.  Together: every keeper transition of the model. -/
theorem msg_gate_monitors_all (env : Env) (cfg : Cfg) (O : Oracle TState) (w : World TState) (op : Op)
    (ans : List Ans) (hon cl : Bool) (lk : List (Addr × Denom × String × String))
    (prev : Option (DOp × Bool × Resp × World TState × Bool)) :
    c14_msgGate (trK env cfg O w op ans hon cl lk prev) = true ∧
    c14_receiverBlocked (trK env cfg O w op ans hon cl lk prev) = true ∧
    c14_thirdPartySendDisabled (trK env cfg O w op ans hon cl lk prev) = true := by
  cases hs : step env O w op with
  | ok x =>
    obtain ⟨w', r⟩ := x
    have := msg_gate_monitors env cfg O w w' op r hs ans hon cl lk prev
    simpa only [trK, hs, isOk, respOf, exec_of_ok hs] using this
  | error e =>
    refine ⟨?_, ?_, ?_⟩
    · simp only [c14_msgGate, trK, hs, isOk, Bool.not_false, Bool.true_or]
      split <;> rfl
    · simp only [c14_receiverBlocked, trK, hs, isOk, Bool.not_false, Bool.true_or, Bool.or_true]
      split <;> rfl
    · simp only [c14_thirdPartySendDisabled, trK, hs, isOk, Bool.not_false, Bool.true_or]
      split <;> rfl

/-! ## `ordinary_transfers` -/

theorem execTx_of_ok {env : Env} {cfg : Cfg} {w w' : World TState} {c h : Addr} {call : HolderCall} {r : Resp}
    (hs : evmTx env cfg w c h call = .ok (w', r)) : execTx env cfg w c h call = w' := by
  unfold execTx deliver; simp only [hs]

theorem execTx_of_error {env : Env} {cfg : Cfg} {w : World TState} {c h : Addr} {call : HolderCall} {e : Rej}
    (hs : evmTx env cfg w c h call = .error e) : execTx env cfg w c h call = w := by
  unfold execTx deliver; simp only [hs]

/-- **`c14_ordinaryTransfers` holds on every holder transaction of the model** — every state (all
eight switch settings, token registered or not), every contract, holder, call; no hypotheses.  The
field `honest` is arbitrary: the monitor only uses it to switch itself off, and the model's
`evmTx` always runs the honest token `cfg` (the same `cfg` the monitor compares against). -/
theorem c14_ordinaryTransfers_monitor (env : Env) (cfg : Cfg) (w : World TState) (c h : Addr) (call : HolderCall)
    (ans : List Ans) (hon cl : Bool) (lk : List (Addr × Denom × String × String))
    (prev : Option (DOp × Bool × Resp × World TState × Bool)) :
    c14_ordinaryTransfers (trTx env cfg w c h call ans hon cl lk prev) = true := by
  cases call with
  | transfer to a =>
    dsimp only [c14_ordinaryTransfers, trTx]
    by_cases hcond : (to == env.modAddr || !hon) = true
    · rw [if_pos hcond]
    · rw [if_neg hcond]
      have hto : to ≠ env.modAddr := by
        intro e; apply hcond; simp [e]
      have hu := ordinary_transfers_unaffected env cfg w c h to a hto
      cases hh : holderCall cfg w.evm c h (.transfer to a) with
      | none =>
        rw [hh] at hu
        simp only [hu, execTx_of_error hu, isOk, sameBank_refl, Bool.not_false, Bool.and_self]
      | some x =>
        obtain ⟨t1, lg⟩ := x
        rw [hh] at hu
        simp only [hu, execTx_of_ok hu, isOk, sameBank_refl, sameTok_refl, Bool.and_self]
  | burn a => rfl
  | approve sp a => rfl

/-! ## `hook_gate` -/

theorem tokContractSame_refl (t : TState) (c : Addr) : tokContractSame t t c = true :=
  tokContractSame_of_frame (tokFrame_refl _ _)

/-- under the registry invariant every listed pair is stored under some id -/
theorem mem_list_getPair {r : Registry} (hI : RegInv r) {p : Pair} (hp : p ∈ r.list) : ∃ i, r.getPair i = some p := by
  simp only [Registry.list, List.mem_map] at hp
  obtain ⟨e, he, rfl⟩ := hp
  exact ⟨e.1, get?_of_mem hI.nodupP (k := e.1) (v := e.2) he⟩

/-- the honest token's `burn` at contract `c` leaves the ledger of every other contract alone -/
theorem honest_burn_tokFrame (cfg : Cfg) (c : Addr) (a : Nat) (t : TState) {c' : Addr} (hne : c' ≠ c) :
    tokFrame t (honest cfg (.burn c a) t).2 c' := by
  simp only [honest]
  split
  · exact tokFrame_refl _ _
  · unfold burnFrom
    split
    · exact tokFrame_refl _ _
    · constructor
      · intro h
        simp [TState.debit, TState.setSupply, hne]
      · simp [TState.setSupply, TState.debit, hne]

theorem callEVM_burn_tokFrame (cfg : Cfg) (s : State) (snd c : Addr) (a : Nat) (t : TState) {c' : Addr} (hne : c' ≠ c) :
    tokFrame t (callEVM (honest cfg) s snd (.burn c a) t).2 c' := by
  unfold callEVM
  split
  · exact honest_burn_tokFrame cfg c a t hne
  · exact tokFrame_refl _ _

/-- one log, honest token: the token ledger of a toggled-off pair's contract is untouched -/
theorem hookLog_tokFrame {env : Env} {cfg : Cfg} {w w' : World TState} {l : Log}
    (hI : RegInv w.st.reg) {j : PairId} {q : Pair} (hq : w.st.reg.getPair j = some q) (hoff : q.enabled = false)
    (h : hookLog env (honest cfg) w l = .ok w') : tokFrame w.evm w'.evm q.addr := by
  unfold hookLog at h
  split at h
  · injection h with h; subst h; exact tokFrame_refl _ _
  · rename_i p v ht
    obtain ⟨i, hi, hp, hen, _⟩ := hookTarget_some ht
    have hpa : p.addr = l.emitter := by
      obtain ⟨p', hp', ha⟩ := (hI.addrIdx l.emitter i).mp hi
      rw [hp] at hp'; injection hp' with hp'; rw [hp']; exact ha
    have hne : q.addr ≠ l.emitter := by
      intro e
      have := (hI.addr_inj hq hp (e.trans hpa.symm)).2
      rw [this, hen] at hoff; cases hoff
    split at h
    · simp only at h
      split at h
      · injection h with h; subst h; exact callEVM_burn_tokFrame cfg _ _ _ _ _ hne
      · obtain ⟨b1, hb1, h⟩ := bind_ok h
        injection h with h; subst h
        exact callEVM_burn_tokFrame cfg _ _ _ _ _ hne
    · obtain ⟨b1, hb1, h⟩ := bind_ok h
      obtain ⟨b2, hb2, h⟩ := bind_ok h
      injection h with h; subst h; exact tokFrame_refl _ _
    · injection h with h; subst h; exact tokFrame_refl _ _

/-- a whole receipt, honest token: the token ledger of a toggled-off pair's contract is untouched -/
theorem hookLogs_tokFrame {env : Env} {cfg : Cfg} (logs : List Log) : ∀ {w w' : World TState},
    RegInv w.st.reg → ∀ {j : PairId} {q : Pair}, w.st.reg.getPair j = some q → q.enabled = false →
    hookLogs env (honest cfg) w logs = .ok w' → tokFrame w.evm w'.evm q.addr := by
  induction logs with
  | nil => intro w w' _ j q _ _ h; simp only [hookLogs] at h; injection h with h; subst h; exact tokFrame_refl _ _
  | cons l ls ih =>
    intro w w' hI j q hq hoff h
    simp only [hookLogs] at h
    obtain ⟨w1, h1, h⟩ := bind_ok h
    have hc := hookLog_core h1
    have hI1 : RegInv w1.st.reg := by rw [hc.1]; exact hI
    have hq1 : w1.st.reg.getPair j = some q := by rw [hc.1]; exact hq
    exact tokFrame_trans (hookLog_tokFrame hI hq hoff h1) (ih hI1 hq1 hoff h)

/-- the hook with a switch open: it ran the loop -/
theorem postTx_on {σ : Type} {env : Env} {O : Oracle σ} {w w' : World σ} {logs : List Log} {r : Resp}
    (hg : ¬ (!w.st.params.enableErc20 || !w.st.params.enableEVMHook) = true)
    (h : postTx env O w logs = .ok (w', r)) : hookLogs env O w logs = .ok w' := by
  unfold postTx at h
  rw [if_neg hg] at h
  obtain ⟨w1, h1, h⟩ := bind_ok h
  injection h with h; simp only [Prod.mk.injEq] at h
  rw [← h.1]; exact h1

theorem postTx_off {σ : Type} {env : Env} {O : Oracle σ} {w : World σ} {logs : List Log}
    (hg : (!w.st.params.enableErc20 || !w.st.params.enableEVMHook) = true) :
    postTx env O w logs = .ok (w, .none) := by
  unfold postTx; rw [if_pos hg]

/-- **`c14_hookGate` holds on every keeper transition of the model**, under the registry invariant
`RegInv` (the invariant of C15, used by `hook_disabled_pair_frame`).  For a bare hook invocation the
monitor also compares the *token ledger* of gated pairs, which only an EVM that behaves like the
honest token guarantees (an arbitrary oracle may rewrite any contract's ledger while answering
`burn`): for `op = .hook logs` the oracle is the honest token `cfg` — what the driver runs the hook
against; for every other operation the oracle is arbitrary. -/
theorem c14_hookGate_monitor (env : Env) (cfg : Cfg) (O : Oracle TState) (w : World TState) (op : Op)
    (hI : RegInv w.st.reg) (hO : ∀ logs, op = .hook logs → O = honest cfg)
    (ans : List Ans) (hon cl : Bool) (lk : List (Addr × Denom × String × String))
    (prev : Option (DOp × Bool × Resp × World TState × Bool)) :
    c14_hookGate (trK env cfg O w op ans hon cl lk prev) = true := by
  cases op with
  | hook logs =>
    have := hO logs rfl; subst this
    dsimp only [c14_hookGate, trK]
    by_cases hg : (!w.st.params.enableErc20 || !w.st.params.enableEVMHook) = true
    · have hs : step env (honest cfg) w (.hook logs) = .ok (w, .none) := postTx_off hg
      simp [hs, exec_of_ok hs, isOk, sameBank_refl, sameTok_refl, denomSame_refl, tokContractSame_refl]
    · cases hs : step env (honest cfg) w (.hook logs) with
      | error e =>
        simp [exec_of_error hs, isOk, sameBank_refl, sameTok_refl, denomSame_refl, tokContractSame_refl, hg]
      | ok x =>
        obtain ⟨w', r⟩ := x
        have hl : hookLogs env (honest cfg) w logs = .ok w' := postTx_on hg hs
        rw [exec_of_ok hs]
        simp only [Bool.and_eq_true, List.all_eq_true]
        refine ⟨by simp [hg], ?_⟩
        intro p hp
        obtain ⟨hpl, hpo⟩ := List.mem_filter.mp hp
        have hoff : p.enabled = false := by
          cases he : p.enabled with
          | false => rfl
          | true => rw [he] at hpo; simp only [Bool.not_true, Bool.or_false] at hpo; exact absurd hpo hg
        obtain ⟨j, hj⟩ := mem_list_getPair hI hpl
        exact ⟨denomSame_of_frame (hook_disabled_pair_frame logs hI hj hoff hl),
               tokContractSame_of_frame (hookLogs_tokFrame logs hI hj hoff hl)⟩
  | _ => rfl

/-- **`c14_hookGate` holds on every holder transaction of the model** (honest token call, then the
hook on the receipt), under the registry invariant `RegInv`; every state, contract, holder and call. -/
theorem c14_hookGate_monitor_tx (env : Env) (cfg : Cfg) (w : World TState) (c h : Addr) (call : HolderCall)
    (hI : RegInv w.st.reg)
    (ans : List Ans) (hon cl : Bool) (lk : List (Addr × Denom × String × String))
    (prev : Option (DOp × Bool × Resp × World TState × Bool)) :
    c14_hookGate (trTx env cfg w c h call ans hon cl lk prev) = true := by
  dsimp only [c14_hookGate, trTx]
  cases hs : evmTx env cfg w c h call with
  | error e =>
    simp [execTx_of_error hs, sameBank_refl, denomSame_refl]
  | ok x =>
    obtain ⟨w', r⟩ := x
    rw [execTx_of_ok hs]
    unfold evmTx at hs
    split at hs
    · cases hs
    · rename_i t1 lg _
      by_cases hg : (!w.st.params.enableErc20 || !w.st.params.enableEVMHook) = true
      · have h2 : postTx env (honest cfg) { w with evm := t1 } lg = .ok ({ w with evm := t1 }, .none) := postTx_off hg
        rw [h2] at hs; injection hs with hs; simp only [Prod.mk.injEq] at hs
        rw [← hs.1]
        simp [sameBank_refl, denomSame_refl]
      · have hl : hookLogs env (honest cfg) { w with evm := t1 } lg = .ok w' := postTx_on hg hs
        simp only [Bool.and_eq_true, List.all_eq_true]
        refine ⟨by simp [hg], ?_⟩
        intro p hp
        obtain ⟨hpl, hpo⟩ := List.mem_filter.mp hp
        have hoff : p.enabled = false := by
          cases he : p.enabled with
          | false => rfl
          | true => rw [he] at hpo; simp only [Bool.not_true, Bool.or_false] at hpo; exact absurd hpo hg
        obtain ⟨j, hj⟩ := mem_list_getPair hI hpl
        exact denomSame_of_frame (hook_disabled_pair_frame (w := { w with evm := t1 }) lg hI hj hoff hl)

/-! ## all C14 monitors at once -/

/-- every C14 monitor of `Spec.monitors` (other than `rejected_unchanged`, linked in `Props/C04.lean`)
is true on every keeper transition of the model: any state satisfying the registry invariant, any
operation, accepted or rejected; any oracle, except that a bare hook invocation runs against the
honest token (see `c14_hookGate_monitor`); module accounts are on the bank's blocked list. -/
theorem c14_monitors_k (env : Env) (cfg : Cfg) (O : Oracle TState) (w : World TState) (op : Op)
    (hm : env.macc.all (fun a => env.blocked.contains a) = true)
    (hI : RegInv w.st.reg) (hO : ∀ logs, op = .hook logs → O = honest cfg)
    (ans : List Ans) (hon cl : Bool) (lk : List (Addr × Denom × String × String))
    (prev : Option (DOp × Bool × Resp × World TState × Bool)) :
    let t := trK env cfg O w op ans hon cl lk prev
    c14_msgGate t = true ∧ c14_receiverBlocked t = true ∧ c14_moduleReceiver t = true ∧
    c14_switchesStored t = true ∧ c14_thirdPartySendDisabled t = true ∧ c14_hookGate t = true ∧
    c14_ordinaryTransfers t = true := by
  intro t
  obtain ⟨h1, h2, h3⟩ := msg_gate_monitors_all env cfg O w op ans hon cl lk prev
  exact ⟨h1, h2, c14_moduleReceiver_monitor env cfg O w op hm ans hon cl lk prev,
    c14_switchesStored_monitor env cfg O w op ans hon cl lk prev, h3,
    c14_hookGate_monitor env cfg O w op hI hO ans hon cl lk prev, rfl⟩

/-- … and on every holder transaction of the model -/
theorem c14_monitors_tx (env : Env) (cfg : Cfg) (w : World TState) (c h : Addr) (call : HolderCall)
    (hm : env.macc.all (fun a => env.blocked.contains a) = true) (hI : RegInv w.st.reg)
    (ans : List Ans) (hon cl : Bool) (lk : List (Addr × Denom × String × String))
    (prev : Option (DOp × Bool × Resp × World TState × Bool)) :
    let t := trTx env cfg w c h call ans hon cl lk prev
    c14_msgGate t = true ∧ c14_receiverBlocked t = true ∧ c14_moduleReceiver t = true ∧
    c14_switchesStored t = true ∧ c14_thirdPartySendDisabled t = true ∧ c14_hookGate t = true ∧
    c14_ordinaryTransfers t = true := by
  intro t
  refine ⟨rfl, rfl, ?_, rfl, rfl, c14_hookGate_monitor_tx env cfg w c h call hI ans hon cl lk prev,
    c14_ordinaryTransfers_monitor env cfg w c h call ans hon cl lk prev⟩
  simp only [c14_moduleReceiver, t, trTx, hm, Bool.true_and]

/-! ## non-vacuity -/

/-- `exEnv` with the application's table of module accounts filled in -/
def exEnvM : Env := { exEnv with macc := ["m.erc20", "m.gov"] }

/-- the wiring hypothesis holds of it -/
theorem exEnvM_wiring : exEnvM.macc.all (fun a => exEnvM.blocked.contains a) = true := by decide

/-- the registry invariant holds in all eight example worlds (they are reached from the empty registry) -/
theorem exSwitched_regInv (en hk pe : Bool) : RegInv (exSwitched en hk pe).st.reg := by
  unfold exSwitched
  have h1 := registry_step exEnv (honest exCfg) exWorld (.registerCoin true "acoin" "d1") exEnvOK regInv_empty
    (by intro a _; rfl)
  have h2 := registry_step exEnv (honest exCfg) _
    (.convertCoin { denom := ⟨"acoin", "-"⟩, amount := 4, receiver := ⟨true, "u0"⟩, sender := ⟨.lower, "u0"⟩ }) exEnvOK h1 trivial
  cases pe
  · exact registry_step _ _ _ _ exEnvOK (registry_step _ _ _ (.toggle true ⟨"acoin", "-"⟩) exEnvOK h2 trivial) trivial
  · exact registry_step _ _ _ _ exEnvOK h2 trivial

/-- `module_receiver`: the theorem applies to conversions towards a module account (`m.gov` is in the
application's table) and towards a user; the first is refused, the second accepted (the monitor's
implication is not vacuous in either direction) -/
example :
    c14_moduleReceiver (trK exEnvM exCfg (honest exCfg) (exSwitched true true true) (exCC "m.gov") [] true true [] none) = true ∧
    c14_moduleReceiver (trK exEnvM exCfg (honest exCfg) (exSwitched true true true) (exCE "u0") [] true true [] none) = true :=
  ⟨c14_moduleReceiver_monitor _ _ _ _ _ exEnvM_wiring _ _ _ _ _, c14_moduleReceiver_monitor _ _ _ _ _ exEnvM_wiring _ _ _ _ _⟩
example :
    (convParties (exCC "m.gov") == some ("u0", "m.gov") && exEnvM.macc.contains "m.gov" &&
     !(trK exEnvM exCfg (honest exCfg) (exSwitched true true true) (exCC "m.gov") [] true true [] none).ok &&
     (trK exEnvM exCfg (honest exCfg) (exSwitched true true true) (exCE "u0") [] true true [] none).ok) = true := by
  decide +kernel

/-- `switches_stored`: an authorised update is accepted and flips two switches; an unauthorised one is rejected -/
example :
    (let t := trK exEnv exCfg (honest exCfg) (exSwitched true true true) (.updateParams true { enableErc20 := false, enableEVMHook := false }) [] true true [] none
     let u := trK exEnv exCfg (honest exCfg) (exSwitched true true true) (.updateParams false { enableErc20 := false, enableEVMHook := false }) [] true true [] none
     t.ok && t.pre.st.params != t.post.st.params && c14_switchesStored t && !u.ok && c14_switchesStored u) = true := by
  decide +kernel

/-- a receipt that would convert 3 tokens of `k0` -/
def exLog : Log := { emitter := "k0", nTopics := 3, isTransfer := true, sender := "u0", to := "m.erc20", amount := some 3 }

/-- `hook_gate`: the theorems apply in all eight switch settings, to the forged receipt and to the
holder's own transfer to the module address … -/
example (en hk pe : Bool) :
    c14_hookGate (trK exEnv exCfg (honest exCfg) (exSwitched en hk pe) (.hook [exLog]) [] true true [] none) = true ∧
    c14_hookGate (trTx exEnv exCfg (exSwitched en hk pe) "k0" "u0" (.transfer "m.erc20" 3) [] true true [] none) = true :=
  ⟨c14_hookGate_monitor _ _ _ _ _ (exSwitched_regInv en hk pe) (fun _ _ => rfl) _ _ _ _ _,
   c14_hookGate_monitor_tx _ _ _ _ _ _ (exSwitched_regInv en hk pe) _ _ _ _ _⟩

/-- … where the set of gated pairs is non-empty exactly when a switch is off, both transitions are
accepted, and with all switches on the holder's transaction does move coins (the monitor's conclusion
is not trivially true; the forged receipt moves nothing since the module holds no `k0` tokens to burn) -/
example : ∀ en hk pe : Bool,
    (let w := exSwitched en hk pe
     let t := trK exEnv exCfg (honest exCfg) w (.hook [exLog]) [] true true [] none
     let u := trTx exEnv exCfg w "k0" "u0" (.transfer "m.erc20" 3) [] true true [] none
     let gated := w.st.reg.list.filter (fun p => (!w.st.params.enableErc20 || !w.st.params.enableEVMHook) || !p.enabled)
     (gated.length == if en && hk && pe then 0 else 1) && t.ok && u.ok &&
     (sameBank w.st u.post.st == !(en && hk && pe)) &&
     (denomSame w.st u.post.st "acoin" == !(en && hk && pe))) = true := by
  decide +kernel

/-- `ordinary_transfers`: a transfer between users goes through in all eight settings (and one that
exceeds the balance fails in all eight), the monitor is true, with `honest` set -/
example (en hk pe : Bool) :
    c14_ordinaryTransfers (trTx exEnv exCfg (exSwitched en hk pe) "k0" "u0" (.transfer "u1" 3) [] true true [] none) = true :=
  c14_ordinaryTransfers_monitor _ _ _ _ _ _ _ _ _ _ _
example : ∀ en hk pe : Bool,
    ((trTx exEnv exCfg (exSwitched en hk pe) "k0" "u0" (.transfer "u1" 3) [] true true [] none).ok &&
     (trTx exEnv exCfg (exSwitched en hk pe) "k0" "u0" (.transfer "u1" 3) [] true true [] none).post.evm.balOf "k0" "u1" == 3 &&
     !(trTx exEnv exCfg (exSwitched en hk pe) "k0" "u0" (.transfer "u1" 5) [] true true [] none).ok) = true := by
  decide +kernel

/-! ## why a bare hook invocation needs the honest token

`c14_hookGate` on `.k (.hook _)` also compares the token ledger of every gated pair's contract
(`tokContractSame`).  The keeper's theorems of `Props/C14.lean` hold for every oracle, but this
conjunct does not: an EVM that, while answering `burn` on the (enabled) contract `k0`, rewrites the
ledger of the (toggled-off) contract `t0` makes the monitor false on a world satisfying the registry
invariant.  Hence `hO` in `c14_hookGate_monitor`. -/

/-- the honest token, except that `burn` wipes every ledger -/
def evilO : Oracle TState
  | .burn _ _, t => (okAns none [], { t with bal := ⟨[]⟩, sup := ⟨[]⟩ })
  | c, t => honest exCfg c t

example :
    (let O := honest exCfg
     let w1 := exec exEnv O exWorld (.registerCoin true "acoin" "d1")
     let w2 := exec exEnv O w1 (.registerERC20 true "t0" true)
     let w3 := exec exEnv O w2 (.toggle true ⟨"erc20/0x746f6b656e305F5f5F5f5f5F5f5F5F5F5f5F5F5f", "-"⟩)
     w3.st.reg.list.length == 2 && regInvB w3.st.reg &&
     c14_hookGate (trK exEnv exCfg O w3 (.hook [exLog]) [] true true [] none) &&
     !c14_hookGate (trK exEnv exCfg evilO w3 (.hook [exLog]) [] true true [] none)) = true := by
  decide +kernel

end C14M
end Erc20
end CV
